import MypyVerif.Gen.CFast
import MypyVerif.Model.Tagged
/-!
# C15 — lemmas about the generated fast paths (`Gen/CFast.lean`)

Method: every Boolean test of the generated code is rewritten to a (decidable) proposition over
`BitVec.toInt` / `BitVec.toNat`; wrap-around of `+`, `-`, unary `-` is exposed as a three-way case
(`= exact`, `= exact - 2^64`, `= exact + 2^64`); `omega` does the rest.  No `bv_decide`.
-/
set_option maxRecDepth 2000
set_option linter.unusedSimpArgs false
set_option linter.unusedVariables false
namespace CFastProofs
open CFast Tagged CSem

/-! ## generic 64-bit facts -/

theorem toInt_bounds (x : BitVec 64) : -9223372036854775808 ≤ x.toInt ∧ x.toInt < 9223372036854775808 := by
  have h1 := BitVec.toInt_lt (x := x)
  have h2 := BitVec.le_toInt (x := x)
  omega

theorem toInt_toNat (x : BitVec 64) :
    (x.toInt = x.toNat ∧ x.toNat < 9223372036854775808) ∨
    (x.toInt = (x.toNat : Int) - 18446744073709551616 ∧ 9223372036854775808 ≤ x.toNat) := by
  have h := BitVec.toInt_eq_toNat_cond x
  have hl := x.isLt
  split at h <;> omega

theorem isShort_iff_toInt (x : BitVec 64) : isShort x ↔ x.toInt % 2 = 0 := by
  unfold isShort
  have := toInt_toNat x
  omega

theorem isShort_iff_lsb (x : BitVec 64) : isShort x ↔ x[0] = false := by
  rw [← BitVec.getLsbD_eq_getElem]
  unfold isShort
  simp [BitVec.getLsbD, Nat.testBit_zero]

theorem eq_iff_toInt (a b : BitVec 64) : a = b ↔ a.toInt = b.toInt := BitVec.toInt_inj.symm

theorem beq_eq (a b : BitVec 64) : (a == b) = decide (a.toInt = b.toInt) := by
  by_cases h : a = b
  · subst h; simp
  · have : a.toInt ≠ b.toInt := fun e => h (BitVec.toInt_inj.1 e)
    simp [h, this]

theorem bne_eq (a b : BitVec 64) : (a != b) = decide (a.toInt ≠ b.toInt) := by
  simp [bne, beq_eq]

theorem toInt_xor_neg (a b : BitVec 64) : ((a ^^^ b).toInt < 0) ↔
    ((a.toInt < 0 ∧ 0 ≤ b.toInt) ∨ (0 ≤ a.toInt ∧ b.toInt < 0)) := by
  have h := @BitVec.msb_xor 64 a b
  rw [BitVec.msb_eq_toInt, BitVec.msb_eq_toInt, BitVec.msb_eq_toInt] at h
  generalize (a ^^^ b).toInt = c at h ⊢
  by_cases h1 : a.toInt < 0 <;> by_cases h2 : b.toInt < 0 <;> by_cases h3 : c < 0 <;>
    simp [h1, h2, h3] at h ⊢ <;> omega

theorem toInt_add_cases (a b : BitVec 64) :
    (a + b).toInt = a.toInt + b.toInt ∨ (a + b).toInt = a.toInt + b.toInt - 18446744073709551616
    ∨ (a + b).toInt = a.toInt + b.toInt + 18446744073709551616 := by
  have h := BitVec.toInt_add a b
  rw [Int.bmod_def] at h
  have ha := toInt_bounds a; have hb := toInt_bounds b
  split at h <;> omega

theorem toInt_sub_cases (a b : BitVec 64) :
    (a - b).toInt = a.toInt - b.toInt ∨ (a - b).toInt = a.toInt - b.toInt - 18446744073709551616
    ∨ (a - b).toInt = a.toInt - b.toInt + 18446744073709551616 := by
  have h := @BitVec.toInt_sub 64 a b
  rw [Int.bmod_def] at h
  have ha := toInt_bounds a; have hb := toInt_bounds b
  split at h <;> omega

theorem toInt_neg_cases (a : BitVec 64) :
    (a.toInt = -9223372036854775808 ∧ (-a).toInt = -9223372036854775808) ∨
    (a.toInt ≠ -9223372036854775808 ∧ (-a).toInt = -a.toInt) := by
  have h := @BitVec.toInt_neg 64 a
  rw [Int.bmod_def] at h
  have ha := toInt_bounds a
  split at h <;> omega

theorem toInt_not' (a : BitVec 64) : (~~~a).toInt = -a.toInt - 1 := by
  have h := @BitVec.toInt_not 64 a
  rw [Int.bmod_def] at h
  have := toInt_toNat a
  have := a.isLt
  split at h <;> omega

/-- literals of the generated code, as signed values -/
theorem lit_intMin : (9223372036854775808#64 : BitVec 64).toInt = -9223372036854775808 := by decide
theorem lit_tagMin : (13835058055282163712#64 : BitVec 64).toInt = -4611686018427387904 := by decide
theorem lit_absMin : (4611686018427387904#64 : BitVec 64).toInt = 4611686018427387904 := by decide
theorem lit_tagMax : (4611686018427387903#64 : BitVec 64).toNat = 4611686018427387903 := by decide
theorem lit_zero : (0#64 : BitVec 64).toInt = 0 := by decide
theorem lit_m1 : (18446744073709551615#64 : BitVec 64).toInt = -1 := by decide
theorem lit_one : (1#64 : BitVec 64).toInt = 1 := by decide

/-! ## the helper functions of the header -/

theorem checkShort_eq (x : BitVec 64) : (CPyTagged_CheckShort x != 0#32) = decide (isShort x) := by
  unfold CPyTagged_CheckShort CPyTagged_CheckLong isShort CSem.ofBool
  have hx := x.isLt
  by_cases hs : x.toNat % 2 = 0
  · have : BitVec.truncate 32 (x &&& 1#64) = 0#32 := by
      apply BitVec.eq_of_toNat_eq; simp [BitVec.truncate]; omega
    simp [this, hs]
  · have : BitVec.truncate 32 (x &&& 1#64) = 1#32 := by
      apply BitVec.eq_of_toNat_eq; simp [BitVec.truncate]; omega
    simp [this, hs]

theorem checkLong_ne_zero (x : BitVec 64) : (CPyTagged_CheckLong x != 0#32) = decide (¬ isShort x) := by
  have h := checkShort_eq x
  unfold CPyTagged_CheckShort CSem.ofBool at h
  by_cases hz : CPyTagged_CheckLong x = 0#32 <;> simp_all

/-- `CPyTagged_ShortAsSsize_t` is `sval` (for every word; exact halving for short ones). -/
theorem shortAsSsize_toInt (x : BitVec 64) : (CPyTagged_ShortAsSsize_t x).toInt = sval x := by
  unfold CPyTagged_ShortAsSsize_t sval
  rw [BitVec.toInt_sshiftRight, Int.shiftRight_eq_div_pow]
  rfl

/-- `CPyTagged_TooBig v` ⇔ `v` (a `Py_ssize_t`) cannot be held by a short tagged int. -/
theorem tooBig_iff (v : BitVec 64) : CPyTagged_TooBig v = true ↔ ¬ Fits v.toInt := by
  unfold CPyTagged_TooBig Fits
  simp only [BitVec.ult, BitVec.sle_eq_decide, BitVec.slt_eq_decide, Bool.and_eq_true, Bool.or_eq_true,
    decide_eq_true_eq, lit_tagMin, lit_tagMax, lit_zero]
  have := toInt_toNat v
  omega

theorem tooBigInt64_iff (v : BitVec 64) : CPyTagged_TooBigInt64 v = true ↔ ¬ Fits v.toInt := by
  unfold CPyTagged_TooBigInt64 Fits
  simp only [BitVec.ult, BitVec.sle_eq_decide, BitVec.slt_eq_decide, Bool.and_eq_true, Bool.or_eq_true,
    decide_eq_true_eq, lit_tagMin, lit_tagMax, lit_zero]
  have := toInt_toNat v
  omega

theorem isAddOverflow_iff (l r : BitVec 64) :
    CPyTagged_IsAddOverflow (l + r) l r = true ↔
      ¬ (-9223372036854775808 ≤ l.toInt + r.toInt ∧ l.toInt + r.toInt < 9223372036854775808) := by
  unfold CPyTagged_IsAddOverflow
  simp only [BitVec.slt_eq_decide, lit_zero, Bool.and_eq_true, decide_eq_true_eq, toInt_xor_neg]
  have hs := toInt_add_cases l r
  have ha := toInt_bounds l; have hb := toInt_bounds r; have hc := toInt_bounds (l + r)
  generalize (l + r).toInt = s at *
  omega

theorem isSubtractOverflow_iff (l r : BitVec 64) :
    CPyTagged_IsSubtractOverflow (l - r) l r = true ↔
      ¬ (-9223372036854775808 ≤ l.toInt - r.toInt ∧ l.toInt - r.toInt < 9223372036854775808) := by
  unfold CPyTagged_IsSubtractOverflow
  simp only [BitVec.slt_eq_decide, BitVec.sle_eq_decide, lit_zero, Bool.and_eq_true, decide_eq_true_eq,
    toInt_xor_neg]
  have hx := toInt_xor_neg (l - r) r
  have hs := toInt_sub_cases l r
  have ha := toInt_bounds l; have hb := toInt_bounds r; have hc := toInt_bounds (l - r)
  have hd := toInt_bounds ((l - r) ^^^ r)
  generalize ((l - r) ^^^ r).toInt = t at *
  generalize (l - r).toInt = s at *
  omega

/-- Exact halving: a short word is twice its value. -/
theorem short_toInt (x : BitVec 64) (h : isShort x) : x.toInt = 2 * sval x := by
  have := (isShort_iff_toInt x).1 h
  unfold sval; omega

theorem short_fits (x : BitVec 64) (h : isShort x) : Fits (sval x) := by
  have := (isShort_iff_toInt x).1 h
  have := toInt_bounds x
  unfold Fits sval; omega

/-! ## characterisation of each fast path: `f l r = if <fast condition> then .fast e else .slow call`, and the
    value of `e` under that condition -/

theorem add_eq (l r : BitVec 64) : CPyTagged_Add l r =
    if isShort l ∧ isShort r ∧ Fits (sval l + sval r) then .fast (l + r)
    else .slow ⟨"CPyTagged_Add_", [l, r], false⟩ := by
  unfold CPyTagged_Add
  simp only [checkShort_eq, Bool.and_eq_true, decide_eq_true_eq]
  by_cases hc : isShort l ∧ isShort r
  · have h1 := short_toInt l hc.1
    have h2 := short_toInt r hc.2
    have ho := isAddOverflow_iff l r
    simp only [hc, and_self, if_true, true_and]
    by_cases hf : Fits (sval l + sval r)
    · have : ¬ CPyTagged_IsAddOverflow (l + r) l r = true := by rw [ho]; unfold Fits at hf; omega
      simp [this, hf]
    · have : CPyTagged_IsAddOverflow (l + r) l r = true := by rw [ho]; unfold Fits at hf; omega
      simp [this, hf]
  · have : ¬ (isShort l ∧ isShort r ∧ Fits (sval l + sval r)) := fun h => hc ⟨h.1, h.2.1⟩
    simp [hc, this]

theorem add_val (l r : BitVec 64) (h : isShort l ∧ isShort r ∧ Fits (sval l + sval r)) :
    isShort (l + r) ∧ sval (l + r) = sval l + sval r := by
  have h1 := short_toInt l h.1
  have h2 := short_toInt r h.2.1
  have hs := toInt_add_cases l r
  have hb := toInt_bounds (l + r)
  have hf := h.2.2
  unfold Fits at hf
  rw [isShort_iff_toInt]
  unfold sval at *
  omega

theorem sub_eq (l r : BitVec 64) : CPyTagged_Subtract l r =
    if isShort l ∧ isShort r ∧ Fits (sval l - sval r) then .fast (l - r)
    else .slow ⟨"CPyTagged_Subtract_", [l, r], false⟩ := by
  unfold CPyTagged_Subtract
  simp only [checkShort_eq, Bool.and_eq_true, decide_eq_true_eq]
  by_cases hc : isShort l ∧ isShort r
  · have h1 := short_toInt l hc.1
    have h2 := short_toInt r hc.2
    have ho := isSubtractOverflow_iff l r
    simp only [hc, and_self, if_true, true_and]
    by_cases hf : Fits (sval l - sval r)
    · have : ¬ CPyTagged_IsSubtractOverflow (l - r) l r = true := by rw [ho]; unfold Fits at hf; omega
      simp [this, hf]
    · have : CPyTagged_IsSubtractOverflow (l - r) l r = true := by rw [ho]; unfold Fits at hf; omega
      simp [this, hf]
  · have : ¬ (isShort l ∧ isShort r ∧ Fits (sval l - sval r)) := fun h => hc ⟨h.1, h.2.1⟩
    simp [hc, this]

theorem sub_val (l r : BitVec 64) (h : isShort l ∧ isShort r ∧ Fits (sval l - sval r)) :
    isShort (l - r) ∧ sval (l - r) = sval l - sval r := by
  have h1 := short_toInt l h.1
  have h2 := short_toInt r h.2.1
  have hs := toInt_sub_cases l r
  have hb := toInt_bounds (l - r)
  have hf := h.2.2
  unfold Fits at hf
  rw [isShort_iff_toInt]
  unfold sval at *
  omega

theorem neg_eq (x : BitVec 64) : CPyTagged_Negate x =
    if isShort x ∧ Fits (-(sval x)) then .fast (-x) else .slow ⟨"CPyTagged_Negate_", [x], false⟩ := by
  unfold CPyTagged_Negate
  simp only [checkShort_eq, bne_eq, lit_intMin, Bool.and_eq_true, decide_eq_true_eq]
  by_cases hc : isShort x
  · have h1 := short_toInt x hc
    have hb := toInt_bounds x
    have : (x.toInt ≠ -9223372036854775808) ↔ Fits (-(sval x)) := by unfold Fits; omega
    simp only [hc, true_and, this]
  · simp [hc]

theorem neg_val (x : BitVec 64) (h : isShort x ∧ Fits (-(sval x))) :
    isShort (-x) ∧ sval (-x) = -(sval x) := by
  have h1 := short_toInt x h.1
  have hs := toInt_neg_cases x
  have hf := h.2
  unfold Fits at hf
  rw [isShort_iff_toInt]
  unfold sval at *
  omega

/-! ## bitwise -/

theorem and_FE (a : BitVec 64) : a &&& 18446744073709551614#64 = (a >>> 1) <<< 1 := by
  have : (18446744073709551614#64 : BitVec 64) = ~~~1#64 := by decide
  rw [this]
  ext i hi
  simp only [BitVec.getElem_and, BitVec.getElem_not, BitVec.getElem_one, BitVec.getElem_shiftLeft]
  by_cases h0 : i = 0
  · subst h0; simp
  · have h1 : ¬ i < 1 := by omega
    have h2 : 1 + (i - 1) = i := by omega
    simp [h0, h1, h2, BitVec.getLsbD_eq_getElem hi]

theorem and_FE_toNat (a : BitVec 64) : (a &&& 18446744073709551614#64).toNat = a.toNat - a.toNat % 2 := by
  rw [and_FE, BitVec.toNat_shiftLeft, BitVec.toNat_ushiftRight, Nat.shiftLeft_eq, Nat.shiftRight_eq_div_pow]
  have := a.isLt
  omega

theorem sval_eq_sshr (x : BitVec 64) : sval x = (x.sshiftRight 1).toInt := by
  unfold sval
  rw [BitVec.toInt_sshiftRight, Int.shiftRight_eq_div_pow]; rfl

theorem ofInt_sval (x : BitVec 64) : BitVec.ofInt 64 (sval x) = x.sshiftRight 1 := by
  apply BitVec.toInt_inj.1
  rw [BitVec.toInt_ofInt, ← sval_eq_sshr, Int.bmod_def]
  have := toInt_bounds x
  unfold sval
  split <;> omega

theorem and_val (l r : BitVec 64) (h : isShort l ∧ isShort r) :
    isShort (l &&& r) ∧ sval (l &&& r) = and64 (sval l) (sval r) := by
  constructor
  · obtain ⟨h1, h2⟩ := h
    simp only [isShort_iff_lsb] at h1 h2 ⊢
    simp [h1, h2]
  · unfold and64
    rw [ofInt_sval, ofInt_sval, ← BitVec.sshiftRight_and_distrib, sval_eq_sshr]

theorem or_val (l r : BitVec 64) (h : isShort l ∧ isShort r) :
    isShort (l ||| r) ∧ sval (l ||| r) = or64 (sval l) (sval r) := by
  constructor
  · obtain ⟨h1, h2⟩ := h
    simp only [isShort_iff_lsb] at h1 h2 ⊢
    simp [h1, h2]
  · unfold or64
    rw [ofInt_sval, ofInt_sval, ← BitVec.sshiftRight_or_distrib, sval_eq_sshr]

theorem xor_val (l r : BitVec 64) (h : isShort l ∧ isShort r) :
    isShort (l ^^^ r) ∧ sval (l ^^^ r) = xor64 (sval l) (sval r) := by
  constructor
  · obtain ⟨h1, h2⟩ := h
    simp only [isShort_iff_lsb] at h1 h2 ⊢
    simp [h1, h2]
  · unfold xor64
    rw [ofInt_sval, ofInt_sval, ← BitVec.sshiftRight_xor_distrib, sval_eq_sshr]

theorem invert_val (x : BitVec 64) (h : isShort x) :
    isShort (~~~x &&& 18446744073709551614#64) ∧ sval (~~~x &&& 18446744073709551614#64) = -(sval x) - 1 := by
  have hn := and_FE_toNat (~~~x)
  have h1 := @BitVec.toNat_not 64 x
  have hx := x.isLt
  have ht := toInt_toNat x
  have ht' := toInt_toNat (~~~x &&& 18446744073709551614#64)
  unfold isShort at h
  unfold isShort sval
  omega

theorem and_eq (l r : BitVec 64) : CPyTagged_And l r =
    if isShort l ∧ isShort r then .fast (l &&& r)
    else .slow ⟨"CPyTagged_BitwiseLongOp_", [l, r, 38#64], false⟩ := by
  unfold CPyTagged_And
  simp only [checkShort_eq, Bool.and_eq_true, decide_eq_true_eq]

theorem or_eq (l r : BitVec 64) : CPyTagged_Or l r =
    if isShort l ∧ isShort r then .fast (l ||| r)
    else .slow ⟨"CPyTagged_BitwiseLongOp_", [l, r, 124#64], false⟩ := by
  unfold CPyTagged_Or
  simp only [checkShort_eq, Bool.and_eq_true, decide_eq_true_eq]

theorem xor_eq (l r : BitVec 64) : CPyTagged_Xor l r =
    if isShort l ∧ isShort r then .fast (l ^^^ r)
    else .slow ⟨"CPyTagged_BitwiseLongOp_", [l, r, 94#64], false⟩ := by
  unfold CPyTagged_Xor
  simp only [checkShort_eq, Bool.and_eq_true, decide_eq_true_eq]

theorem invert_eq (x : BitVec 64) : CPyTagged_Invert x =
    if isShort x ∧ sval x ≠ 2305843009213693952 then .fast (~~~x &&& 18446744073709551614#64)
    else .slow ⟨"CPyTagged_Invert_", [x], false⟩ := by
  unfold CPyTagged_Invert
  simp only [checkShort_eq, bne_eq, lit_absMin, Bool.and_eq_true, decide_eq_true_eq]
  by_cases hc : isShort x
  · have h1 := short_toInt x hc
    have : (x.toInt ≠ 4611686018427387904) ↔ sval x ≠ 2305843009213693952 := by omega
    simp only [hc, true_and, this]
  · simp [hc]

/-! comparisons -/
theorem isEq_eq (l r : BitVec 64) : CPyTagged_IsEq l r =
    if isShort l then .fast (l == r) else .slow ⟨"CPyTagged_IsEq_", [l, r], false⟩ := by
  unfold CPyTagged_IsEq
  simp only [checkShort_eq, decide_eq_true_eq]

theorem isNe_eq (l r : BitVec 64) : CPyTagged_IsNe l r =
    if isShort l then .fast (l != r) else .slow ⟨"CPyTagged_IsEq_", [l, r], true⟩ := by
  unfold CPyTagged_IsNe
  simp only [checkShort_eq, decide_eq_true_eq]

theorem isLt_eq (l r : BitVec 64) : CPyTagged_IsLt l r =
    if isShort l ∧ isShort r then .fast (decide (sval l < sval r))
    else .slow ⟨"CPyTagged_IsLt_", [l, r], false⟩ := by
  unfold CPyTagged_IsLt
  simp only [checkShort_eq, Bool.and_eq_true, decide_eq_true_eq, BitVec.slt_eq_decide]
  split
  · rename_i h
    have h1 := short_toInt l h.1; have h2 := short_toInt r h.2
    congr 1; apply decide_eq_decide.2; omega
  · rfl

theorem isLe_eq (l r : BitVec 64) : CPyTagged_IsLe l r =
    if isShort l ∧ isShort r then .fast (decide (sval l ≤ sval r))
    else .slow ⟨"CPyTagged_IsLt_", [r, l], true⟩ := by
  unfold CPyTagged_IsLe
  simp only [checkShort_eq, Bool.and_eq_true, decide_eq_true_eq, BitVec.sle_eq_decide]
  split
  · rename_i h
    have h1 := short_toInt l h.1; have h2 := short_toInt r h.2
    congr 1; apply decide_eq_decide.2; omega
  · rfl

theorem isGt_eq (l r : BitVec 64) : CPyTagged_IsGt l r =
    if isShort l ∧ isShort r then .fast (decide (sval l > sval r))
    else .slow ⟨"CPyTagged_IsLt_", [r, l], false⟩ := by
  unfold CPyTagged_IsGt
  simp only [checkShort_eq, Bool.and_eq_true, decide_eq_true_eq, BitVec.slt_eq_decide]
  split
  · rename_i h
    have h1 := short_toInt l h.1; have h2 := short_toInt r h.2
    congr 1; apply decide_eq_decide.2; omega
  · rfl

theorem isGe_eq (l r : BitVec 64) : CPyTagged_IsGe l r =
    if isShort l ∧ isShort r then .fast (decide (sval l ≥ sval r))
    else .slow ⟨"CPyTagged_IsLt_", [l, r], true⟩ := by
  unfold CPyTagged_IsGe
  simp only [checkShort_eq, Bool.and_eq_true, decide_eq_true_eq, BitVec.sle_eq_decide]
  split
  · rename_i h
    have h1 := short_toInt l h.1; have h2 := short_toInt r h.2
    congr 1; apply decide_eq_decide.2; omega
  · rfl

theorem val_short (V : Valuation) (x : BitVec 64) (h : isShort x) : V.val x = sval x := by
  unfold Valuation.val; unfold isShort at h; simp [h]

theorem val_long (V : Valuation) (x : BitVec 64) (h : ¬ isShort x) : V.val x = V.long x ∧ ¬ Fits (V.val x) := by
  have hn := V.normalised x h
  unfold Valuation.val; unfold isShort at h; simp [h, hn]

/-- word equality decides value equality when the left operand is short (a long word never holds a value
    that fits a short one) -/
theorem short_beq_val (V : Valuation) (l r : BitVec 64) (hl : isShort l) :
    (l == r) = decide (V.val l = V.val r) := by
  rw [beq_eq, val_short V l hl]
  apply decide_eq_decide.2
  by_cases hr : isShort r
  · rw [val_short V r hr]
    have h1 := short_toInt l hl; have h2 := short_toInt r hr
    omega
  · obtain ⟨_, hnf⟩ := val_long V r hr
    have hf := short_fits l hl
    have h1 := (isShort_iff_toInt l).1 hl
    have h2 : ¬ r.toInt % 2 = 0 := fun e => hr ((isShort_iff_toInt r).2 e)
    constructor
    · intro h; omega
    · intro h; rw [← h] at hnf; exact absurd hf hnf

/-! ## truncating vs floor division on `Int` -/

theorem tmod_facts (a b : Int) (_hb : b ≠ 0) :
    a = b * a.tdiv b + a.tmod b ∧ (0 ≤ a → 0 ≤ a.tmod b) ∧ (a ≤ 0 → a.tmod b ≤ 0) ∧
    (0 < b → -b < a.tmod b ∧ a.tmod b < b) ∧ (b < 0 → b < a.tmod b ∧ a.tmod b < -b) := by
  refine ⟨(Int.mul_tdiv_add_tmod a b).symm, Int.tmod_nonneg b, ?_, ?_, ?_⟩
  · intro ha
    have h := Int.tmod_nonneg (a := -a) b (by omega)
    rw [Int.neg_tmod] at h; omega
  · intro hp; exact ⟨Int.lt_tmod_of_pos a hp, Int.tmod_lt_of_pos a hp⟩
  · intro hn
    have h1 := Int.lt_tmod_of_pos a (b := -b) (by omega)
    have h2 := Int.tmod_lt_of_pos a (b := -b) (by omega)
    rw [Int.tmod_neg] at h1 h2; omega

theorem fdiv_of_tdiv (a b : Int) (hb : b ≠ 0) :
    a.fdiv b = if ((a < 0 ∧ 0 < b) ∨ (0 < a ∧ b < 0)) ∧ a.tmod b ≠ 0 then a.tdiv b - 1 else a.tdiv b := by
  have h := Int.fdiv_eq_tdiv (a := a) (b := b)
  have hd : b ∣ a ↔ a.tmod b = 0 := Int.dvd_iff_tmod_eq_zero
  have hf := tmod_facts a b hb
  by_cases hm : a.tmod b = 0
  · have : b ∣ a := hd.2 hm
    simp [this, hm] at h ⊢; exact h
  · have hnd : ¬ b ∣ a := fun e => hm (hd.1 e)
    simp only [hnd, if_false] at h
    by_cases hbp : 0 < b
    · have := Int.sign_eq_one_of_pos hbp
      split at h <;> split at h <;> split <;> omega
    · have hbn : b < 0 := by omega
      have := Int.sign_eq_neg_one_of_neg hbn
      split at h <;> split at h <;> split <;> omega

theorem fmod_of_tmod (a b : Int) (hb : b ≠ 0) :
    a.fmod b = if ((a < 0 ∧ 0 < b) ∨ (0 < a ∧ b < 0)) ∧ a.tmod b ≠ 0 then a.tmod b + b else a.tmod b := by
  have h1 := Int.mul_fdiv_add_fmod a b
  have h2 := Int.mul_tdiv_add_tmod a b
  have h3 := fdiv_of_tdiv a b hb
  split at h3 <;> rename_i hc
  · rw [if_pos hc]; rw [h3, Int.mul_sub] at h1; omega
  · rw [if_neg hc]; rw [h3] at h1; omega

/-! ## floor division and modulo -/

theorem enc_toInt (n : Int) (h : Fits n) : (enc n).toInt = 2 * n := by
  unfold enc; unfold Fits at h
  rw [BitVec.toInt_ofInt, Int.bmod_def]
  split <;> omega

theorem enc_short (n : Int) (h : Fits n) : isShort (enc n) ∧ sval (enc n) = n := by
  have := enc_toInt n h
  rw [isShort_iff_toInt]; unfold sval; omega

theorem eq_enc_of_toInt (x : BitVec 64) (n : Int) (h : Fits n) (hx : x.toInt = 2 * n) : x = enc n := by
  apply BitVec.toInt_inj.1; rw [enc_toInt n h, hx]

theorem shl1_eq_add (x : BitVec 64) : x <<< 1 = x + x := by
  apply BitVec.eq_of_toNat_eq
  simp [Nat.shiftLeft_eq]; omega

theorem shl1_toInt (x : BitVec 64) (h : -4611686018427387904 ≤ x.toInt ∧ x.toInt < 4611686018427387904) :
    (x <<< 1).toInt = 2 * x.toInt := by
  rw [shl1_eq_add]
  have := toInt_add_cases x x
  have := toInt_bounds (x + x)
  omega

theorem toInt_mul_cases (a b : BitVec 64) (p : Int) (hp : a.toInt * b.toInt = p)
    (h : -9223372036854775808 ≤ p ∧ p < 9223372036854775808) : (a * b).toInt = p := by
  rw [BitVec.toInt_mul, hp, Int.bmod_def]
  split <;> omega

theorem tdiv_abs_le (a b : Int) : (0 ≤ a → 0 ≤ a.tdiv b ∨ a.tdiv b ≤ 0) ∧ -a.natAbs ≤ a.tdiv b ∧ a.tdiv b ≤ a.natAbs := by
  have := Int.natAbs_tdiv_le_natAbs a b
  omega

theorem sdiv_toInt (A B : BitVec 64) (h : A.toInt ≠ -9223372036854775808) :
    (BitVec.sdiv A B).toInt = A.toInt.tdiv B.toInt := by
  apply BitVec.toInt_sdiv_of_ne_or_ne
  left
  intro e
  apply h
  rw [e]; decide

theorem floorDivide_eq (l r : BitVec 64) : CPyTagged_FloorDivide l r =
    if isShort l ∧ isShort r ∧ sval r ≠ 0 ∧ sval l ≠ -4611686018427387904
    then .fast (enc ((sval l).fdiv (sval r)))
    else .slow ⟨"CPyTagged_FloorDivide_", [l, r], false⟩ := by
  unfold CPyTagged_FloorDivide CPyTagged_MaybeFloorDivideFault
  simp only [checkShort_eq, beq_eq, lit_intMin, lit_zero, Bool.and_eq_true, Bool.or_eq_true,
    Bool.not_eq_true', decide_eq_true_eq, decide_eq_false_iff_not, Bool.or_eq_false_iff]
  by_cases hc : isShort l ∧ isShort r
  · obtain ⟨hl, hr⟩ := hc
    have h1 := short_toInt l hl
    have h2 := short_toInt r hr
    have hbl := toInt_bounds l
    have hbr := toInt_bounds r
    by_cases hz : r.toInt = 0
    · have : sval r = 0 := by omega
      simp [hl, hr, hz, this]
    by_cases hm : l.toInt = -9223372036854775808
    · have : sval l = -4611686018427387904 := by omega
      simp [hl, hr, hz, hm, this]
    have hz' : sval r ≠ 0 := by omega
    have hm' : sval l ≠ -4611686018427387904 := by omega
    simp only [hl, hr, hz, hm, hz', hm', not_false_eq_true, and_self, if_true, ne_eq]
    -- the fast branch
    generalize hA : CPyTagged_ShortAsSsize_t l = A
    generalize hB : CPyTagged_ShortAsSsize_t r = B
    have hAi : A.toInt = sval l := by rw [← hA]; exact shortAsSsize_toInt l
    have hBi : B.toInt = sval r := by rw [← hB]; exact shortAsSsize_toInt r
    generalize ha : sval l = a at *
    generalize hb : sval r = b at *
    have hq : (BitVec.sdiv A B).toInt = a.tdiv b := by
      rw [sdiv_toInt A B (by omega), hAi, hBi]
    obtain ⟨hdm, hm0, hm1, hm2, hm3⟩ := tmod_facts a b hz'
    have hfd := fdiv_of_tdiv a b hz'
    have htb := tdiv_abs_le a b
    generalize hq' : BitVec.sdiv A B = q at *
    generalize ht : a.tdiv b = t at *
    generalize hmm : a.tmod b = m at *
    have hprod : q.toInt * r.toInt = 2 * (b * t) := by rw [hq, h2]; ac_rfl
    have hqr : (q * r).toInt = 2 * (b * t) := toInt_mul_cases q r _ hprod (by omega)
    have hfit : Fits (a.fdiv b) := by unfold Fits; split at hfd <;> omega
    have hsub : (q - 1#64).toInt = t - 1 := by
      have := toInt_sub_cases q 1#64
      have := toInt_bounds (q - 1#64)
      rw [lit_one, hq] at *
      omega
    simp only [BitVec.slt_eq_decide, lit_zero, bne_eq, hqr, h1]
    have key : ∀ res : BitVec 64, res.toInt = a.fdiv b → (Res.fast (res <<< 1) : Res (BitVec 64)) = .fast (enc (a.fdiv b)) := by
      intro res hres
      congr 1
      apply eq_enc_of_toInt _ _ hfit
      rw [shl1_toInt res (by unfold Fits at hfit; omega), hres]
    split
    · split
      · apply key; rw [hsub]; rename_i c1 c2; simp at c1 c2; split at hfd <;> omega
      · apply key; rw [hq]; rename_i c1 c2; simp at c1 c2; split at hfd <;> omega
    · apply key; rw [hq]; rename_i c1; simp at c1; split at hfd <;> omega
  · have : ¬ (isShort l ∧ isShort r ∧ sval r ≠ 0 ∧ sval l ≠ -4611686018427387904) := fun h => hc ⟨h.1, h.2.1⟩
    have hc' : ¬ ((isShort l ∧ isShort r) ∧ ¬r.toInt = 0 ∧ ¬l.toInt = -9223372036854775808) := fun h => hc h.1
    simp only [this, hc', if_false]

theorem remainder_eq (l r : BitVec 64) : CPyTagged_Remainder l r =
    if isShort l ∧ isShort r ∧ sval r ≠ 0
    then .fast (enc ((sval l).fmod (sval r)))
    else .slow ⟨"CPyTagged_Remainder_", [l, r], false⟩ := by
  unfold CPyTagged_Remainder CPyTagged_MaybeRemainderFault
  simp only [checkShort_eq, beq_eq, lit_zero, Bool.and_eq_true,
    Bool.not_eq_true', decide_eq_true_eq, decide_eq_false_iff_not]
  by_cases hc : isShort l ∧ isShort r
  · obtain ⟨hl, hr⟩ := hc
    have h1 := short_toInt l hl
    have h2 := short_toInt r hr
    have hbl := toInt_bounds l
    have hbr := toInt_bounds r
    by_cases hz : r.toInt = 0
    · have : sval r = 0 := by omega
      simp [hl, hr, hz, this]
    have hz' : sval r ≠ 0 := by omega
    simp only [hl, hr, hz, hz', not_false_eq_true, and_self, if_true, ne_eq]
    generalize ha : sval l = a at *
    generalize hb : sval r = b at *
    have hrem : (BitVec.srem l r).toInt = 2 * a.tmod b := by
      rw [BitVec.toInt_srem, h1, h2, Int.mul_tmod_mul_of_pos _ _ (by omega)]
    obtain ⟨hdm, hm0, hm1, hm2, hm3⟩ := tmod_facts a b hz'
    have hfm := fmod_of_tmod a b hz'
    generalize hq' : BitVec.srem l r = q at *
    generalize hmm : a.tmod b = m at *
    have hfit : Fits (a.fmod b) := by unfold Fits; split at hfm <;> omega
    have hadd : (q + r).toInt = 2 * m + 2 * b ∨ (q + r).toInt = 2 * m + 2 * b - 18446744073709551616
        ∨ (q + r).toInt = 2 * m + 2 * b + 18446744073709551616 := by
      have := toInt_add_cases q r
      rw [hrem, h2] at this; exact this
    have hbqr := toInt_bounds (q + r)
    simp only [BitVec.slt_eq_decide, lit_zero, bne_eq, hrem, h1, h2]
    have key : ∀ res : BitVec 64, res.toInt = 2 * a.fmod b → (Res.fast res : Res (BitVec 64)) = .fast (enc (a.fmod b)) := by
      intro res hres
      congr 1
      exact eq_enc_of_toInt _ _ hfit hres
    split
    · apply key; rename_i c1; simp at c1; split at hfm <;> omega
    · apply key; rename_i c1; simp at c1; rw [hrem]; split at hfm <;> omega
  · have : ¬ (isShort l ∧ isShort r ∧ sval r ≠ 0) := fun h => hc ⟨h.1, h.2.1⟩
    have hc' : ¬ ((isShort l ∧ isShort r) ∧ ¬r.toInt = 0) := fun h => hc h.1
    simp only [this, hc', if_false]

theorem floorDivide_no_ub (l r : BitVec 64) : CPyTagged_FloorDivide_ub l r = false := by
  unfold CPyTagged_FloorDivide_ub CPyTagged_MaybeFloorDivideFault
  simp only [checkShort_eq, beq_eq, lit_intMin, lit_zero, lit_m1, shortAsSsize_toInt, Bool.and_eq_true,
    Bool.not_eq_true', decide_eq_true_eq, decide_eq_false_iff_not, Bool.or_eq_false_iff]
  split
  · rename_i h
    obtain ⟨⟨hl, hr⟩, hz, hm⟩ := h
    have h1 := short_toInt l hl
    have h2 := short_toInt r hr
    have := toInt_bounds l
    simp only [Bool.or_eq_false_iff, Bool.and_eq_false_iff, decide_eq_false_iff_not]
    omega
  · rfl

theorem remainder_no_ub (l r : BitVec 64) : CPyTagged_Remainder_ub l r = false := by
  unfold CPyTagged_Remainder_ub CPyTagged_MaybeRemainderFault
  simp only [checkShort_eq, beq_eq, lit_intMin, lit_zero, lit_m1, Bool.and_eq_true,
    Bool.not_eq_true', decide_eq_true_eq, decide_eq_false_iff_not]
  split
  · rename_i h
    obtain ⟨⟨hl, hr⟩, hz⟩ := h
    have h2 := short_toInt r hr
    simp only [Bool.or_eq_false_iff, Bool.and_eq_false_iff, decide_eq_false_iff_not]
    omega
  · rfl

theorem lit_2p31 : (2147483648#64 : BitVec 64).toNat = 2147483648 := by decide

theorem multiply_eq (l r : BitVec 64) : CPyTagged_Multiply l r =
    if isShort l ∧ isShort r ∧ l.toNat < 2147483648 ∧ r.toNat < 2147483648
    then .fast (enc (sval l * sval r))
    else .slow ⟨"CPyTagged_Multiply_", [l, r], false⟩ := by
  unfold CPyTagged_Multiply CPyTagged_IsMultiplyOverflow
  simp only [checkShort_eq, BitVec.ule, lit_2p31, Bool.and_eq_true, Bool.or_eq_true,
    Bool.not_eq_true', decide_eq_true_eq, decide_eq_false_iff_not, Bool.or_eq_false_iff, Nat.not_le]
  by_cases hc : isShort l ∧ isShort r
  · obtain ⟨hl, hr⟩ := hc
    by_cases hs : l.toNat < 2147483648 ∧ r.toNat < 2147483648
    · obtain ⟨hs1, hs2⟩ := hs
      simp only [hl, hr, hs1, hs2, and_self, if_true]
      have h1 := short_toInt l hl
      have h2 := short_toInt r hr
      have t1 := toInt_toNat l
      have t2 := toInt_toNat r
      have hB := shortAsSsize_toInt r
      generalize CPyTagged_ShortAsSsize_t r = B at *
      generalize ha : sval l = a at *
      generalize hb : sval r = b at *
      have hab0 : 0 ≤ a * b := Int.mul_nonneg (by omega) (by omega)
      have hab1 : a * b ≤ 1073741823 * 1073741823 :=
        Int.mul_le_mul (by omega) (by omega) (by omega) (by omega)
      have hp : l.toInt * B.toInt = 2 * (a * b) := by rw [h1, hB]; ac_rfl
      have hm := toInt_mul_cases l B _ hp (by omega)
      congr 1
      exact eq_enc_of_toInt _ _ (by unfold Fits; omega) hm
    · have : ¬ (isShort l ∧ isShort r ∧ l.toNat < 2147483648 ∧ r.toNat < 2147483648) := fun h => hs h.2.2
      simp [hl, hr, hs]
  · have : ¬ (isShort l ∧ isShort r ∧ l.toNat < 2147483648 ∧ r.toNat < 2147483648) := fun h => hc ⟨h.1, h.2.1⟩
    simp only [hc, this, if_false]

/-! ## shifts -/

theorem and_FE_toInt (w : BitVec 64) : (w &&& 18446744073709551614#64).toInt = w.toInt - w.toInt % 2 := by
  have h := and_FE_toNat w
  have t1 := toInt_toNat w
  have t2 := toInt_toNat (w &&& 18446744073709551614#64)
  omega

theorem eq_enc_of_toInt' (x : BitVec 64) (n : Int) (hx : x.toInt = 2 * n) : x = enc n ∧ Fits n := by
  have hb := toInt_bounds x
  have hf : Fits n := by unfold Fits; omega
  exact ⟨eq_enc_of_toInt x n hf hx, hf⟩

/-- floor division of a negative number by something at least as large in magnitude -/
theorem ediv_neg_one (a n : Int) (hn : 0 < n) (h1 : -n ≤ a) (h2 : a < 0) : a / n = -1 := by
  have h := Int.ediv_emod_unique (a := a) (b := n) (r := a + n) (q := -1) hn
  exact (h.2 ⟨by omega, by omega, by omega⟩).1

theorem two_pow_ge (k : Nat) (h : 64 ≤ k) : (18446744073709551616 : Int) ≤ ((2 ^ k : Nat) : Int) := by
  have : 2 ^ 64 ≤ 2 ^ k := Nat.pow_le_pow_right (by omega) h
  have h2 : (2 : Nat) ^ 64 = 18446744073709551616 := by decide
  omega

theorem pyShr_big (a : Int) (k : Nat) (hk : 64 ≤ k) (ha : Fits a) :
    pyShr a k = if 0 ≤ a then 0 else -1 := by
  unfold pyShr
  have hp := two_pow_ge k hk
  unfold Fits at ha
  split
  · exact Int.ediv_eq_zero_of_lt (by omega) (by omega)
  · exact ediv_neg_one a _ (by omega) (by omega) (by omega)

theorem pyShr_small (a : Int) (k : Nat) : (2 * a / ((2 ^ k : Nat) : Int)) / 2 = pyShr a k := by
  unfold pyShr
  have hpos : (0 : Int) < ((2 ^ k : Nat) : Int) := by
    have : 0 < 2 ^ k := Nat.two_pow_pos k
    omega
  rw [Int.ediv_ediv_of_nonneg (by omega), Int.mul_comm _ 2, Int.mul_ediv_mul_of_pos _ _ (by omega)]

theorem shortFromInt_m1 : CPyTagged_ShortFromInt 4294967295#32 = 18446744073709551614#64 := by decide

theorem rshift_eq (l r : BitVec 64) : CPyTagged_Rshift l r =
    if isShort l ∧ isShort r ∧ 0 ≤ sval r then .fast (enc (pyShr (sval l) (sval r).toNat))
    else .slow ⟨"CPyTagged_Rshift_", [l, r], false⟩ := by
  unfold CPyTagged_Rshift
  simp only [checkShort_eq, BitVec.sle_eq_decide, lit_zero, Bool.and_eq_true, decide_eq_true_eq]
  by_cases hc : isShort l ∧ isShort r
  · obtain ⟨hl, hr⟩ := hc
    have h1 := short_toInt l hl
    have h2 := short_toInt r hr
    by_cases hn : 0 ≤ r.toInt
    · have hn' : 0 ≤ sval r := by omega
      simp only [hl, hr, hn, hn', and_self, if_true]
      have hC := shortAsSsize_toInt r
      generalize CPyTagged_ShortAsSsize_t r = C at *
      have tC := toInt_toNat C
      have hk : C.toNat = (sval r).toNat := by omega
      have hfl := short_fits l hl
      simp only [BitVec.ule, show (64#64 : BitVec 64).toNat = 64 by decide, decide_eq_true_eq]
      by_cases hbig : 64 ≤ C.toNat
      · simp only [hbig, if_true]
        have hp := pyShr_big (sval l) (sval r).toNat (by omega) hfl
        by_cases hpos : 0 ≤ l.toInt
        · have : 0 ≤ sval l := by omega
          simp only [hpos, this, if_true] at hp ⊢
          rw [hp]; rfl
        · have : ¬ 0 ≤ sval l := by omega
          simp only [hpos, this, if_false] at hp ⊢
          rw [hp, shortFromInt_m1]; rfl
      · simp only [hbig, if_false]
        congr 1
        apply (eq_enc_of_toInt' _ _ _).1
        rw [and_FE_toInt, BitVec.toInt_sshiftRight, Int.shiftRight_eq_div_pow, h1, hk]
        have := pyShr_small (sval l) (sval r).toNat
        omega
    · have : ¬ 0 ≤ sval r := by omega
      simp [hl, hr, hn, this]
  · have : ¬ (isShort l ∧ isShort r ∧ 0 ≤ sval r) := fun h => hc ⟨h.1, h.2.1⟩
    have hc' : ¬ ((isShort l ∧ isShort r) ∧ 0 ≤ r.toInt) := fun h => hc h.1
    simp only [this, hc', if_false]

theorem rshift_no_ub (l r : BitVec 64) : CPyTagged_Rshift_ub l r = false := by
  unfold CPyTagged_Rshift_ub
  simp only [BitVec.ule, show (64#64 : BitVec 64).toNat = 64 by decide, decide_eq_true_eq]
  split
  · split
    · rfl
    · rename_i h; simp only [decide_eq_false_iff_not]; exact h
  · rfl

/-- `(x <<< k).toInt` is congruent to `x.toInt * 2^k` modulo `2^64`: there is `j` with
    `(x <<< k).toInt = x.toInt * 2^k + 2^64 * j`. -/
theorem shl_toInt_congr (x : BitVec 64) (k : Nat) :
    ∃ j : Int, (x <<< k).toInt = x.toInt * ((2 ^ k : Nat) : Int) + 18446744073709551616 * j := by
  have h1 : (x <<< k).toInt = ((x.toNat <<< k : Nat) : Int).bmod (2 ^ 64) := BitVec.toInt_shiftLeft
  rw [Nat.shiftLeft_eq] at h1
  have h2 := Int.bmod_eq_self_sub_mul_bdiv ((x.toNat * 2 ^ k : Nat) : Int) (2 ^ 64)
  rw [h2] at h1
  have t := toInt_toNat x
  generalize Int.bdiv ((x.toNat * 2 ^ k : Nat) : Int) (2 ^ 64) = d at h1
  have hcast : (((x.toNat * 2 ^ k : Nat) : Int)) = (x.toNat : Int) * ((2 ^ k : Nat) : Int) := by
    simp [Int.natCast_mul]
  have h64 : (((2 ^ 64 : Nat) : Int)) = 18446744073709551616 := by decide
  rw [hcast, h64] at h1
  rcases t with ⟨t1, _⟩ | ⟨t1, _⟩
  · refine ⟨-d, ?_⟩
    rw [h1, t1, Int.mul_neg]; omega
  · refine ⟨((2 ^ k : Nat) : Int) - d, ?_⟩
    have : (x.toNat : Int) = x.toInt + 18446744073709551616 := by omega
    rw [h1, this, Int.add_mul, Int.mul_sub]
    omega

theorem two_pow_pos_int (k : Nat) : (0 : Int) < ((2 ^ k : Nat) : Int) := by
  have : 0 < 2 ^ k := Nat.two_pow_pos k
  omega

/-- The overflow test of `IsShortLshiftOverflow` is exact: shifting back restores the word iff the product
    fits 64 signed bits; and then the shifted word *is* the product. -/
theorem shl_roundtrip (x : BitVec 64) (k : Nat) (hk : k < 64) :
    (BitVec.sshiftRight (x <<< k) k = x ↔
      (-9223372036854775808 ≤ x.toInt * ((2 ^ k : Nat) : Int) ∧ x.toInt * ((2 ^ k : Nat) : Int) < 9223372036854775808))
    ∧ ((-9223372036854775808 ≤ x.toInt * ((2 ^ k : Nat) : Int) ∧ x.toInt * ((2 ^ k : Nat) : Int) < 9223372036854775808)
        → (x <<< k).toInt = x.toInt * ((2 ^ k : Nat) : Int)) := by
  obtain ⟨j, hj⟩ := shl_toInt_congr x k
  have hA := two_pow_pos_int k
  have hB := two_pow_pos_int (64 - k)
  have hsplit : (18446744073709551616 : Int) = ((2 ^ k : Nat) : Int) * ((2 ^ (64 - k) : Nat) : Int) := by
    rw [← Int.natCast_mul, ← Nat.pow_add]
    have : k + (64 - k) = 64 := by omega
    rw [this]; decide
  have hby := toInt_bounds (x <<< k)
  generalize hP : x.toInt * ((2 ^ k : Nat) : Int) = P at *
  have hfwd : (-9223372036854775808 ≤ P ∧ P < 9223372036854775808) → (x <<< k).toInt = P := by
    intro h; omega
  refine ⟨⟨?_, ?_⟩, hfwd⟩
  · intro h
    have h2 : (BitVec.sshiftRight (x <<< k) k).toInt = x.toInt := by rw [h]
    rw [BitVec.toInt_sshiftRight, Int.shiftRight_eq_div_pow] at h2
    generalize ((2 ^ k : Nat) : Int) = A at *
    generalize ((2 ^ (64 - k) : Nat) : Int) = B at *
    have h3 : (x <<< k).toInt = (x.toInt + B * j) * A := by
      rw [hj, hsplit, ← hP, Int.add_mul]
      have : A * B * j = B * j * A := by ac_rfl
      rw [this]
    rw [h3, Int.mul_ediv_cancel _ (by omega)] at h2
    have h4 : B * j = 0 := by omega
    have h5 : j = 0 := by
      rcases Int.mul_eq_zero.1 h4 with h | h
      · omega
      · exact h
    subst h5
    omega
  · intro h
    apply BitVec.toInt_inj.1
    rw [BitVec.toInt_sshiftRight, Int.shiftRight_eq_div_pow, hfwd h, ← hP]
    exact Int.mul_ediv_cancel _ (by omega)

theorem lit_128 : (128#64 : BitVec 64).toNat = 128 := by decide

theorem lshift_eq (l r : BitVec 64) : CPyTagged_Lshift l r =
    if isShort l ∧ isShort r ∧ 0 ≤ sval r ∧ sval r < 64 ∧ Fits (pyShl (sval l) (sval r).toNat)
    then .fast (enc (pyShl (sval l) (sval r).toNat))
    else .slow ⟨"CPyTagged_Lshift_", [l, r], false⟩ := by
  unfold CPyTagged_Lshift IsShortLshiftOverflow
  simp only [checkShort_eq, BitVec.sle_eq_decide, BitVec.ult, lit_128, lit_zero, Bool.and_eq_true,
    decide_eq_true_eq, Bool.not_eq_true', bne_eq_false_iff_eq]
  by_cases hc : isShort l ∧ isShort r
  · obtain ⟨hl, hr⟩ := hc
    have h1 := short_toInt l hl
    have h2 := short_toInt r hr
    have tr := toInt_toNat r
    by_cases hn : 0 ≤ r.toInt ∧ r.toNat < 128
    · obtain ⟨hn1, hn2⟩ := hn
      have hn1' : 0 ≤ sval r := by omega
      have hn2' : sval r < 64 := by omega
      simp only [hl, hr, hn1, hn2, hn1', hn2', and_self, true_and, if_true]
      have hC := shortAsSsize_toInt r
      generalize CPyTagged_ShortAsSsize_t r = C at *
      have tC := toInt_toNat C
      have hk : C.toNat = (sval r).toNat := by omega
      have hk64 : C.toNat < 64 := by omega
      obtain ⟨hrt, hval⟩ := shl_roundtrip l C.toNat hk64
      rw [hk] at hrt hval ⊢
      generalize (sval r).toNat = k at *
      unfold pyShl
      have hP : l.toInt * ((2 ^ k : Nat) : Int) = 2 * (sval l * ((2 ^ k : Nat) : Int)) := by
        rw [h1, Int.mul_assoc]
      rw [hP] at hrt hval
      generalize sval l * ((2 ^ k : Nat) : Int) = p at *
      by_cases hf : Fits p
      · have hr' : -9223372036854775808 ≤ 2 * p ∧ 2 * p < 9223372036854775808 := by unfold Fits at hf; omega
        simp only [hrt.2 hr', hf, if_true]
        congr 1
        exact eq_enc_of_toInt _ _ hf (hval hr')
      · have hr' : ¬ (-9223372036854775808 ≤ 2 * p ∧ 2 * p < 9223372036854775808) := by unfold Fits at hf; omega
        have : ¬ BitVec.sshiftRight (l <<< k) k = l := fun e => hr' (hrt.1 e)
        simp only [this, hf, if_false]
    · have : ¬ (isShort l ∧ isShort r ∧ 0 ≤ sval r ∧ sval r < 64 ∧ Fits (pyShl (sval l) (sval r).toNat)) := by
        intro h; apply hn; omega
      have hc' : ¬ (((isShort l ∧ isShort r) ∧ 0 ≤ r.toInt) ∧ r.toNat < 128) := fun h => hn ⟨h.1.2, h.2⟩
      simp only [this, hc', if_false]
  · have : ¬ (isShort l ∧ isShort r ∧ 0 ≤ sval r ∧ sval r < 64 ∧ Fits (pyShl (sval l) (sval r).toNat)) :=
      fun h => hc ⟨h.1, h.2.1⟩
    have hc' : ¬ (((isShort l ∧ isShort r) ∧ 0 ≤ r.toInt) ∧ r.toNat < 128) := fun h => hc h.1.1
    simp only [this, hc', if_false]

theorem lshift_no_ub (l r : BitVec 64) : CPyTagged_Lshift_ub l r = false := by
  unfold CPyTagged_Lshift_ub IsShortLshiftOverflow_ub
  simp only [checkShort_eq, BitVec.sle_eq_decide, BitVec.ult, lit_128, lit_zero, Bool.and_eq_true,
    decide_eq_true_eq]
  split
  · rename_i h
    obtain ⟨⟨⟨hl, hr⟩, hn1⟩, hn2⟩ := h
    have h2 := short_toInt r hr
    have tr := toInt_toNat r
    have hC := shortAsSsize_toInt r
    generalize CPyTagged_ShortAsSsize_t r = C at *
    have tC := toInt_toNat C
    have h64 : ¬ 64 ≤ C.toNat := by omega
    have h0 : ¬ C.toInt < 0 := by omega
    have h64' : ¬ 64 ≤ C.toInt := by omega
    simp [h64, h0, h64']
  · rfl

/-! ## the exact result fits whenever the fast path is taken -/

theorem multiply_fits (l r : BitVec 64)
    (hc : isShort l ∧ isShort r ∧ l.toNat < 2147483648 ∧ r.toNat < 2147483648) : Fits (sval l * sval r) := by
  obtain ⟨hl, hr, hs1, hs2⟩ := hc
  have h1 := short_toInt l hl
  have h2 := short_toInt r hr
  have t1 := toInt_toNat l
  have t2 := toInt_toNat r
  generalize sval l = a at *
  generalize sval r = b at *
  have hab0 : 0 ≤ a * b := Int.mul_nonneg (by omega) (by omega)
  have hab1 : a * b ≤ 1073741823 * 1073741823 :=
    Int.mul_le_mul (by omega) (by omega) (by omega) (by omega)
  unfold Fits; omega

theorem floorDivide_fits (l r : BitVec 64)
    (hc : isShort l ∧ isShort r ∧ sval r ≠ 0 ∧ sval l ≠ -4611686018427387904) :
    Fits ((sval l).fdiv (sval r)) := by
  obtain ⟨hl, hr, hz, hm⟩ := hc
  have f1 := short_fits l hl
  have hfd := fdiv_of_tdiv (sval l) (sval r) hz
  have htb := tdiv_abs_le (sval l) (sval r)
  unfold Fits at *
  split at hfd <;> omega

theorem remainder_fits (l r : BitVec 64) (hc : isShort l ∧ isShort r ∧ sval r ≠ 0) :
    Fits ((sval l).fmod (sval r)) := by
  obtain ⟨hl, hr, hz⟩ := hc
  have f2 := short_fits r hr
  obtain ⟨_, hm0, hm1, hm2, hm3⟩ := tmod_facts (sval l) (sval r) hz
  have hfm := fmod_of_tmod (sval l) (sval r) hz
  unfold Fits at *
  split at hfm <;> omega

/-! ## shapes shared by the property theorems -/

theorem fast_of_ite {α : Type} {C : Prop} [Decidable C] {e v : α} {c : SlowCall}
    (h : (if C then Res.fast e else Res.slow c) = Res.fast v) : C ∧ v = e := by
  split at h
  · rename_i hc; injection h with h; exact ⟨hc, h.symm⟩
  · cases h

theorem slow_of_ite {α : Type} {C : Prop} [Decidable C] {e : α} {c c' : SlowCall}
    (h : (if C then Res.fast e else Res.slow c) = Res.slow c') : ¬ C ∧ c' = c := by
  split at h
  · cases h
  · rename_i hc; injection h with h; exact ⟨hc, h.symm⟩

theorem isSlow_ite {α : Type} {C : Prop} [Decidable C] {e : α} {c : SlowCall} :
    (if C then Res.fast e else Res.slow c).isSlow = true ↔ ¬ C := by
  split <;> simp [Res.isSlow, *]

theorem not_raise_ite {α : Type} {C : Prop} [Decidable C] {e v : α} {c : SlowCall} {x : String} :
    (if C then Res.fast e else Res.slow c) ≠ Res.raise x v := by
  split <;> intro h <;> cases h

theorem denoteInt_fast (V : Valuation) (v : BitVec 64) (h : isShort v) :
    denoteInt V (.fast v) = .int (sval v) := by
  unfold isShort at h; simp [denoteInt, h]

end CFastProofs
