import MypyVerif.Model.Driver
/-
Lemmas about `Model/Driver.lean`: every modelled loop leaves within its cap, for every oracle.
-/
namespace Driver

/-! ### cap tests -/

theorem CapOp.limit_fires {op : CapOp} {cap L : Nat} (h : op.limit cap = some L) :
    op.fires L cap = true ∧ 1 ≤ L := by
  cases op with
  | gt => simp [CapOp.limit] at h; subst h; simp [CapOp.fires]
  | ge =>
    simp [CapOp.limit] at h; subst h
    by_cases hc : cap = 0
    · simp [hc, CapOp.fires]
    · simp [hc, CapOp.fires]; omega
  | eq =>
    simp [CapOp.limit] at h
    obtain ⟨hc, rfl⟩ := h
    simp [CapOp.fires]; omega
  | none => simp [CapOp.limit] at h

theorem withinLimit_of_lt {op : CapOp} {cap L n : Nat} (h : op.limit cap = some L) (hn : n < L) :
    withinLimit op cap n = true := by
  simp [withinLimit, h, hn]

theorem withinLimit_zero {op : CapOp} {cap : Nat} (h : (op.limit cap).isSome = true) :
    withinLimit op cap 0 = true := by
  cases hl : op.limit cap with
  | none => simp [hl] at h
  | some L => exact withinLimit_of_lt hl (CapOp.limit_fires hl).2

theorem withinLimit_max {op : CapOp} {cap a b : Nat} (ha : withinLimit op cap a = true)
    (hb : withinLimit op cap b = true) : withinLimit op cap (max a b) = true := by
  unfold withinLimit at *
  cases hl : op.limit cap with
  | none => simp [hl] at ha
  | some L =>
    simp [hl] at ha hb ⊢
    omega

/-! ### semantic-analysis loops -/

/-- the loop started with `it + fuel = L` (the counter value at which the cap test fires) and some fuel left
    never runs out of fuel; it leaves with `iteration ≤ L`, and below `L` unless the cap test fired -/
theorem semLoop_spec (op : CapOp) (cap L : Nat) (sticky : Bool) (oracle : Nat → Bool → SweepOut)
    (hL : op.limit cap = some L) :
    ∀ fuel it final, it + fuel = L → 1 ≤ fuel →
      (semLoop op cap sticky oracle fuel it final).exit ≠ .fuelOut ∧
      (semLoop op cap sticky oracle fuel it final).iterations ≤ L ∧
      ((semLoop op cap sticky oracle fuel it final).exit ≠ .capHit →
        (semLoop op cap sticky oracle fuel it final).iterations < L) ∧
      it < (semLoop op cap sticky oracle fuel it final).iterations := by
  intro fuel
  induction fuel with
  | zero => intro it final _ h; omega
  | succ fuel ih =>
    intro it final hsum _
    unfold semLoop
    by_cases hf : op.fires (it + 1) cap = true
    · simp [hf]; omega
    · have hne : it + 1 ≠ L := by
        intro he; rw [he] at hf; exact hf (CapOp.limit_fires hL).1
      simp only [hf, Bool.false_eq_true, if_false]
      split
      · refine ⟨by simp, by show it + 1 ≤ L; omega, fun _ => by show it + 1 < L; omega, by simp⟩
      · split
        · refine ⟨by simp, by show it + 1 ≤ L; omega, fun _ => by show it + 1 < L; omega, by simp⟩
        · have hfuel : 1 ≤ fuel := by omega
          have := ih (it + 1) (nextFinal sticky final (oracle (it + 1) final).progress) (by omega) hfuel
          refine ⟨this.1, this.2.1, this.2.2.1, by omega⟩

/-- an oracle that honours the analyser's contract never trips the "must not defer during final iteration"
    assertion -/
theorem semLoop_no_deferInFinal (op : CapOp) (cap : Nat) (sticky : Bool) (oracle : Nat → Bool → SweepOut)
    (hc : RespectsFinal oracle) :
    ∀ fuel it final, (semLoop op cap sticky oracle fuel it final).exit ≠ .deferInFinal := by
  intro fuel
  induction fuel with
  | zero => intro it final; simp [semLoop]
  | succ fuel ih =>
    intro it final
    unfold semLoop
    split
    · simp
    · split
      · rename_i h
        cases final with
        | false => simp at h
        | true => simp [hc (it + 1)] at h
      · split
        · simp
        · exact ih _ _

/-- "final iteration forcing": once a sweep makes no progress, an oracle that honours the contract converges
    in the next one (or the cap fires there) -/
theorem semLoop_final_converges (op : CapOp) (cap : Nat) (sticky : Bool) (oracle : Nat → Bool → SweepOut)
    (hc : RespectsFinal oracle) (fuel it : Nat) :
    (semLoop op cap sticky oracle (fuel + 1) it true).exit = .converged ∨
    (semLoop op cap sticky oracle (fuel + 1) it true).exit = .capHit := by
  unfold semLoop
  split
  · right; rfl
  · simp [hc (it + 1)]

/-! ### checker passes -/

/-- the rounds a module still needs: 0 when finished; otherwise one per pass that may still defer, plus the
    round in which `check_second_pass` returns False -/
def Mod.mu (lastPass : Nat) (m : Mod) : Nat :=
  if m.unfinished then (if m.chk.deferred then lastPass - m.chk.passNum + 1 else 1) else 0

/-- a node is only ever deferred while passes are left; the number of second-pass calls is the pass number
    (plus the last, empty call) -/
def Mod.Inv (lastPass : Nat) (m : Mod) : Prop :=
  (m.chk.deferred = true → m.chk.passNum < lastPass) ∧ m.chk.passNum ≤ lastPass ∧
  (m.unfinished = true → m.calls = m.chk.passNum) ∧ m.calls ≤ m.chk.passNum + 1 ∧
  (m.unfinished = false → m.chk.deferred = false)

theorem Mod.start_inv (lastPass : Nat) (wants : Nat → Bool) :
    (Mod.start true lastPass wants).Inv lastPass ∧ (Mod.start true lastPass wants).mu lastPass ≤ lastPass + 1 := by
  unfold Mod.start firstPass deferAllowed Mod.Inv Mod.mu
  by_cases hw : wants 0 = true <;> by_cases hl : 0 < lastPass <;> simp [hw, hl]

theorem Mod.sweep_inv (lastPass : Nat) (m : Mod) (h : m.Inv lastPass) :
    (m.sweep true lastPass).Inv lastPass ∧
    ((m.sweep true lastPass).mu lastPass + 1 ≤ m.mu lastPass ∨
      (m.mu lastPass = 0 ∧ (m.sweep true lastPass).mu lastPass = 0)) := by
  obtain ⟨h1, h2, h3, h4, h5⟩ := h
  unfold Mod.sweep
  by_cases hu : m.unfinished = true
  · simp only [hu, if_true]
    unfold secondPass
    by_cases hd : m.chk.deferred = true
    · have hlt := h1 hd
      have hc := h3 hu
      simp only [hd, if_true]
      by_cases hw : (m.wants (m.chk.passNum + 1) && deferAllowed true (m.chk.passNum + 1) lastPass) = true
      · have hlt2 : m.chk.passNum + 1 < lastPass := by
          simp [deferAllowed] at hw; exact hw.2
        refine ⟨⟨fun _ => hlt2, by simp; omega, fun _ => by simp [hc], by simp; omega, by simp⟩, ?_⟩
        left; simp [Mod.mu, hu, hd, hw]; omega
      · simp only [Bool.not_eq_true] at hw
        refine ⟨⟨by simp [hw], by simp; omega, fun _ => by simp [hc], by simp; omega, by simp⟩, ?_⟩
        left; simp [Mod.mu, hu, hd, hw]; omega
    · simp only [Bool.not_eq_true] at hd
      simp only [hd, Bool.false_eq_true, if_false]
      refine ⟨⟨by simp [hd], h2, by simp, by simp; have := h3 hu; omega, by simp [hd]⟩, ?_⟩
      left; simp [Mod.mu, hu, hd]
  · simp only [Bool.not_eq_true] at hu
    simp only [hu, Bool.false_eq_true, if_false]
    exact ⟨⟨h1, h2, h3, h4, h5⟩, Or.inr ⟨by simp [Mod.mu, hu], by simp [Mod.mu, hu]⟩⟩

theorem allFinished_of_mu (lastPass : Nat) (mods : List Mod) (h : ∀ m ∈ mods, m.mu lastPass ≤ 0) :
    allFinished mods = true := by
  unfold allFinished
  rw [List.all_eq_true]
  intro m hm
  have := h m hm
  unfold Mod.mu at this
  cases hu : m.unfinished with
  | false => rfl
  | true => simp [hu] at this; split at this <;> omega

/-- the `while unfinished_modules` loop: with `fuel` at least the largest number of rounds any module still
    needs it is left, after at most `fuel` rounds, and all modules keep the invariant -/
theorem sccLoop_spec (lastPass : Nat) :
    ∀ fuel (mods : List Mod) (n : Nat),
      (∀ m ∈ mods, m.Inv lastPass ∧ m.mu lastPass ≤ fuel) →
      (sccLoop true lastPass fuel mods n).done = true ∧
      (sccLoop true lastPass fuel mods n).sweeps ≤ n + fuel ∧
      ∀ m ∈ (sccLoop true lastPass fuel mods n).mods, m.Inv lastPass := by
  intro fuel
  induction fuel with
  | zero =>
    intro mods n h
    have hf := allFinished_of_mu lastPass mods (fun m hm => (h m hm).2)
    simp [sccLoop, hf]
    exact fun m hm => (h m hm).1
  | succ fuel ih =>
    intro mods n h
    unfold sccLoop
    by_cases hf : allFinished mods = true
    · rw [if_pos hf]
      exact ⟨rfl, by show n ≤ n + (fuel + 1); omega, fun m hm => (h m hm).1⟩
    · simp only [hf, Bool.false_eq_true, if_false]
      have h' : ∀ m ∈ mods.map (Mod.sweep true lastPass), m.Inv lastPass ∧ m.mu lastPass ≤ fuel := by
        intro m hm
        rw [List.mem_map] at hm
        obtain ⟨m0, hm0, rfl⟩ := hm
        have := Mod.sweep_inv lastPass m0 (h m0 hm0).1
        refine ⟨this.1, ?_⟩
        have hb := (h m0 hm0).2
        cases this.2 with
        | inl hl => omega
        | inr hr => omega
      have := ih (mods.map (Mod.sweep true lastPass)) (n + 1) h'
      exact ⟨this.1, by omega, this.2.2⟩

theorem maxOf_le (l : List Nat) (b : Nat) (h : ∀ x ∈ l, x ≤ b) : maxOf l ≤ b := by
  induction l with
  | nil => simp [maxOf]
  | cons x xs ih =>
    simp only [maxOf]
    have hx := h x (by simp)
    have := ih (fun y hy => h y (by simp [hy]))
    omega

/-- an unguarded defer site makes the loop endless for the oracle that always wants to defer: the
    `pass_num < last_pass` test *is* the cap of this loop -/
theorem sccLoop_unguarded_diverges (lastPass : Nat) :
    ∀ fuel p calls n, (sccLoop false lastPass fuel [⟨fun _ => true, ⟨p, true⟩, true, calls⟩] n).done = false := by
  intro fuel
  induction fuel with
  | zero => intro p calls n; simp [sccLoop, allFinished]
  | succ fuel ih =>
    intro p calls n
    unfold sccLoop
    simp [allFinished, Mod.sweep, secondPass, deferAllowed]
    exact ih (p + 1) (calls + 1) (n + 1)

/-! ### fine-grained loops -/

theorem fgLoop_spec (op : CapOp) (cap L : Nat) (pending : Nat → Bool) (hL : op.limit cap = some L) :
    ∀ fuel it, it + fuel = L → 1 ≤ fuel →
      (fgLoop op cap pending fuel it).exit ≠ .fuelOut ∧
      (fgLoop op cap pending fuel it).iterations ≤ L ∧
      ((fgLoop op cap pending fuel it).exit = .done → (fgLoop op cap pending fuel it).iterations < L) := by
  intro fuel
  induction fuel with
  | zero => intro it _ h; omega
  | succ fuel ih =>
    intro it hsum _
    unfold fgLoop
    split
    · refine ⟨by simp, by simp; omega, fun _ => by simp; omega⟩
    · by_cases hf : op.fires (it + 1) cap = true
      · simp [hf]; omega
      · have hne : it + 1 ≠ L := by
          intro he; rw [he] at hf; exact hf (CapOp.limit_fires hL).1
        simp only [hf, Bool.false_eq_true, if_false]
        exact ih (it + 1) (by omega) (by omega)

/-- `reprocess_nodes`: from a state with `deferred → passNum < lastPass` (or the forced start with
    `0 < lastPass`) the `while more` loop ends after at most `lastPass - passNum + 1` further calls -/
theorem reprocessLoop_spec (lastPass : Nat) (wants : Nat → Bool) :
    ∀ fuel (c : Chk) (n : Nat), (c.deferred = true → c.passNum < lastPass) → c.passNum ≤ lastPass →
      lastPass - c.passNum + 1 ≤ fuel →
      (reprocessLoop true lastPass wants fuel c n).1 = true ∧
      (reprocessLoop true lastPass wants fuel c n).2.1 ≤ n + (lastPass - c.passNum + 1) ∧
      (reprocessLoop true lastPass wants fuel c n).2.2.passNum ≤ lastPass := by
  intro fuel
  induction fuel with
  | zero => intro c n _ _ h; omega
  | succ fuel ih =>
    intro c n hd hp hfuel
    unfold reprocessLoop secondPass
    by_cases hdef : c.deferred = true
    · have hlt := hd hdef
      simp only [hdef, if_true]
      have := ih ⟨c.passNum + 1, wants (c.passNum + 1) && deferAllowed true (c.passNum + 1) lastPass⟩ (n + 1)
        (by simp [deferAllowed] <;> (intro _ h; exact h)) (by simp; omega) (by simp; omega)
      simp at this ⊢
      exact ⟨this.1, by omega, this.2.2⟩
    · simp only [Bool.not_eq_true] at hdef
      simp only [hdef, Bool.false_eq_true, if_false]
      exact ⟨trivial, by show n + 1 ≤ n + (lastPass - c.passNum + 1); omega, hp⟩

/-! ### the batch driver -/

theorem exitCode_le (n k : Nat) (b : Bool) : exitCode n k b ≤ 2 := by
  unfold exitCode; split <;> (try split) <;> omega

/-- the counters of a run are under their caps -/
def Counters.Within (c : Caps) (k : Counters) : Prop :=
  withinLimit c.topOp c.maxIterations k.topIters = true ∧ withinLimit c.funcOp c.maxIterations k.funcIters = true ∧
  k.passNum ≤ c.defaultLastPass ∧ k.secondCalls ≤ c.defaultLastPass + 1 ∧ k.sweeps ≤ c.defaultLastPass + 1

theorem Counters.within_zero {c : Caps} (h : c.WF) : Counters.zero.Within c :=
  ⟨withinLimit_zero h.1, withinLimit_zero h.2.1, Nat.zero_le _, Nat.zero_le _, Nat.zero_le _⟩

theorem Counters.within_join {c : Caps} {a b : Counters} (ha : a.Within c) (hb : b.Within c) :
    (a.join b).Within c := by
  obtain ⟨a1, a2, a3, a4, a5⟩ := ha
  obtain ⟨b1, b2, b3, b4, b5⟩ := hb
  refine ⟨withinLimit_max a1 b1, withinLimit_max a2 b2, ?_, ?_, ?_⟩ <;> simp only [Counters.join] <;> omega

theorem fuelOf_eq {op : CapOp} {cap L : Nat} (h : op.limit cap = some L) : fuelOf op cap = L := by
  simp [fuelOf, h]

/-- a capped semantic-analysis loop started from scratch: never `fuelOut`; `converged` only under the cap -/
theorem semLoop_run (op : CapOp) (cap : Nat) (sticky : Bool) (oracle : Nat → Bool → SweepOut)
    (h : (op.limit cap).isSome = true) :
    (semLoop op cap sticky oracle (fuelOf op cap) 0 false).exit ≠ .fuelOut ∧
    (semBad (semLoop op cap sticky oracle (fuelOf op cap) 0 false).exit = none →
      withinLimit op cap (semLoop op cap sticky oracle (fuelOf op cap) 0 false).iterations = true) := by
  cases hl : op.limit cap with
  | none => simp [hl] at h
  | some L =>
    rw [fuelOf_eq hl]
    have hs := semLoop_spec op cap L sticky oracle hl L 0 false (by omega) (CapOp.limit_fires hl).2
    refine ⟨hs.1, fun hb => withinLimit_of_lt hl (hs.2.2.1 ?_)⟩
    intro hc; rw [hc] at hb; simp [semBad] at hb

theorem semBad_hang {x : SemExit} (h : semBad x = some .hang) : x = .fuelOut := by
  cases x <;> simp [semBad] at h ⊢

theorem funcsStep_spec (c : Caps) (r : SemRes) (rest : Option Bad × Nat)
    (hr1 : r.exit ≠ .fuelOut)
    (hr2 : semBad r.exit = none → withinLimit c.funcOp c.maxIterations r.iterations = true)
    (ih1 : rest.1 ≠ some .hang)
    (ih2 : rest.1 = none → withinLimit c.funcOp c.maxIterations rest.2 = true) :
    (funcsStep r rest).1 ≠ some .hang ∧
    ((funcsStep r rest).1 = none → withinLimit c.funcOp c.maxIterations (funcsStep r rest).2 = true) := by
  unfold funcsStep
  cases hb : semBad r.exit with
  | some b =>
    refine ⟨?_, by simp⟩
    intro he
    have hb' : b = .hang := by simpa using he
    subst hb'
    exact hr1 (semBad_hang hb)
  | none => exact ⟨ih1, fun hn => withinLimit_max (hr2 hb) (ih2 hn)⟩

theorem runFuncs_spec (c : Caps) (h : c.WF) (fs : List (Nat → Bool → SweepOut)) :
    (runFuncs c fs).1 ≠ some .hang ∧
    ((runFuncs c fs).1 = none → withinLimit c.funcOp c.maxIterations (runFuncs c fs).2 = true) := by
  induction fs with
  | nil => exact ⟨by simp [runFuncs], fun _ => withinLimit_zero h.2.1⟩
  | cons f fs ih =>
    have hr := semLoop_run c.funcOp c.maxIterations true f h.2.1
    unfold runFuncs
    exact funcsStep_spec c _ _ hr.1 hr.2 ih.1 ih.2

theorem runPasses_spec (c : Caps) (h : c.WF) (mods : List (Nat → Bool)) :
    (runPasses c mods).done = true ∧ (passCounters (runPasses c mods)).passNum ≤ c.defaultLastPass ∧
    (passCounters (runPasses c mods)).secondCalls ≤ c.defaultLastPass + 1 ∧
    (passCounters (runPasses c mods)).sweeps ≤ c.defaultLastPass + 1 := by
  unfold runPasses
  rw [h.2.2.2.1]
  have hstart : ∀ m ∈ mods.map (Mod.start true c.defaultLastPass),
      m.Inv c.defaultLastPass ∧ m.mu c.defaultLastPass ≤ c.defaultLastPass + 1 := by
    intro m hm
    rw [List.mem_map] at hm
    obtain ⟨w, _, rfl⟩ := hm
    exact Mod.start_inv c.defaultLastPass w
  have hs := sccLoop_spec c.defaultLastPass (c.defaultLastPass + 1) _ 0 hstart
  refine ⟨hs.1, ?_, ?_, by simpa [passCounters] using hs.2.1⟩
  · apply maxOf_le
    intro x hx
    rw [List.mem_map] at hx
    obtain ⟨m, hm, rfl⟩ := hx
    exact (hs.2.2 m hm).2.1
  · apply maxOf_le
    intro x hx
    rw [List.mem_map] at hx
    obtain ⟨m, hm, rfl⟩ := hx
    have := hs.2.2 m hm
    have h1 := this.2.1
    have h2 := this.2.2.2.1
    omega

/-- what `runScc_spec` / `runSccs_spec` state of a result -/
def OutOk (c : Caps) (r : SccOut × Counters) : Prop :=
  r.1 ≠ .bad .hang ∧ ((∀ b, r.1 ≠ .bad b) → r.2.Within c)

theorem sccTop_spec (c : Caps) (h : c.WF) (blocker : Bool) (t : SemRes) (fr : Option Bad × Nat) (passes : SccRes)
    (ht1 : t.exit ≠ .fuelOut)
    (ht2 : semBad t.exit = none → withinLimit c.topOp c.maxIterations t.iterations = true)
    (hf1 : fr.1 ≠ some .hang)
    (hf2 : fr.1 = none → withinLimit c.funcOp c.maxIterations fr.2 = true)
    (hp : passes.done = true ∧ (passCounters passes).passNum ≤ c.defaultLastPass ∧
      (passCounters passes).secondCalls ≤ c.defaultLastPass + 1 ∧ (passCounters passes).sweeps ≤ c.defaultLastPass + 1) :
    OutOk c (sccTop blocker t fr passes) := by
  unfold sccTop OutOk
  cases hb : semBad t.exit with
  | some b =>
    refine ⟨?_, fun hn => absurd rfl (hn b)⟩
    intro he
    have hb' : b = .hang := by simpa using he
    subst hb'
    exact ht1 (semBad_hang hb)
  | none =>
    have htw := ht2 hb
    unfold sccFuncs
    cases hfb : fr.1 with
    | some b =>
      refine ⟨?_, fun hn => absurd rfl (hn b)⟩
      intro he
      have hb' : b = .hang := by simpa using he
      subst hb'
      exact hf1 hfb
    | none =>
      have hbase : (⟨t.iterations, fr.2, 0, 0, 0⟩ : Counters).Within c :=
        ⟨htw, hf2 hfb, Nat.zero_le _, Nat.zero_le _, Nat.zero_le _⟩
      cases blocker with
      | true => exact ⟨by simp, fun _ => hbase⟩
      | false =>
        simp only [Bool.false_eq_true, if_false, sccPasses, hp.1, if_true]
        refine ⟨by simp, fun _ => Counters.within_join hbase ?_⟩
        exact ⟨withinLimit_zero h.1, withinLimit_zero h.2.1, hp.2.1, hp.2.2.1, hp.2.2.2⟩

theorem runScc_spec (c : Caps) (h : c.WF) (e : SccEnv) : OutOk c (runScc c e) := by
  have ht := semLoop_run c.topOp c.maxIterations false e.top h.1
  have hf := runFuncs_spec c h e.funcs
  have hp := runPasses_spec c h e.mods
  unfold runScc
  by_cases hr : e.raises = true
  · simp [hr, OutOk]
  · simp only [hr, Bool.false_eq_true, if_false]
    exact sccTop_spec c h _ _ _ _ ht.1 ht.2 hf.1 hf.2 hp

theorem sccsStep_spec (c : Caps) (r rest : SccOut × Counters) (hr : OutOk c r) (ih : OutOk c rest) :
    OutOk c (sccsStep r rest) := by
  unfold sccsStep OutOk
  cases ho : r.1 with
  | ok =>
    refine ⟨ih.1, fun hn => Counters.within_join (hr.2 ?_) (ih.2 hn)⟩
    intro b; rw [ho]; simp
  | blocked =>
    refine ⟨by simp, fun _ => hr.2 ?_⟩
    intro b; rw [ho]; simp
  | bad b =>
    refine ⟨?_, fun hn => absurd rfl (hn b)⟩
    show SccOut.bad b ≠ .bad .hang
    rw [← ho]; exact hr.1

theorem runSccs_spec (c : Caps) (h : c.WF) (es : List SccEnv) : OutOk c (runSccs c es) := by
  induction es with
  | nil => exact ⟨by simp [runSccs], fun _ => Counters.within_zero h⟩
  | cons e es ih =>
    unfold runSccs
    exact sccsStep_spec c _ _ (runScc_spec c h e) ih

theorem runBatch_cases (c : Caps) (env : Env) :
    (env.usageError = true ∧ runBatch c env = (⟨2, none⟩, Counters.zero)) ∨
    (env.usageError = false ∧ env.raisesEarly = true ∧ runBatch c env = (⟨2, some .internalError⟩, Counters.zero)) ∨
    (env.usageError = false ∧ env.raisesEarly = false ∧ env.loadBlocker = true ∧
      runBatch c env = (⟨exitCode env.nMessages env.nNotes true, none⟩, Counters.zero)) ∨
    (env.usageError = false ∧ env.raisesEarly = false ∧ env.loadBlocker = false ∧
      runBatch c env = batchEnd env (runSccs c env.sccs)) := by
  unfold runBatch
  cases hu : env.usageError <;> cases he : env.raisesEarly <;> cases hl : env.loadBlocker <;> simp

theorem batchEnd_cases (env : Env) (r : SccOut × Counters) :
    (r.1 = .ok ∧ batchEnd env r = (⟨exitCode env.nMessages env.nNotes false, none⟩, r.2)) ∨
    (r.1 = .blocked ∧ batchEnd env r = (⟨exitCode env.nMessages env.nNotes true, none⟩, r.2)) ∨
    (∃ b, r.1 = .bad b ∧ batchEnd env r = (⟨2, some b⟩, r.2)) := by
  unfold batchEnd
  cases h : r.1 with
  | ok => left; simp
  | blocked => right; left; simp
  | bad b => right; right; exact ⟨b, rfl, rfl⟩

/-! ### constant folding -/

theorem fold_unguarded (e : CExpr) : e.fold none = some e.eval := by
  induction e with
  | lit n => rfl
  | pow a b iha ihb => simp [CExpr.fold, iha, ihb, foldPow, CExpr.eval]

theorem digits_le (fuel n : Nat) : digits fuel n ≤ fuel + 1 := by
  induction fuel generalizing n with
  | zero => simp [digits]
  | succ f ih =>
    unfold digits
    split
    · omega
    · have := ih (n / 10); omega

theorem le_two_pow_bitLength (a : Nat) : a < 2 ^ bitLength a ∨ a = 0 := by
  by_cases h : a = 0
  · right; exact h
  · left; simp [bitLength, h]; exact Nat.lt_log2_self

theorem pow_le_two_pow_bits (a b : Nat) : a ^ b ≤ 2 ^ (bitLength a * b) := by
  rcases le_two_pow_bitLength a with h | h
  · rw [Nat.pow_mul]
    exact Nat.pow_le_pow_left (Nat.le_of_lt h) b
  · subst h
    cases b with
    | zero => simp
    | succ b => simp [Nat.pow_succ]

end Driver
