import MypyVerif.Model.VTable
/-!
Helper lemmas for `Props/C05.lean` (vtable slice): the invariant `compute_vtable` establishes for every class
and its preservation along the definition order.
-/
namespace VTable

variable (same : Sig → Sig → Bool)

def key (e : Entry) : Cls × Name := (e.cls, e.name)

/-! ### small facts -/

theorem sigOf_some_of_namesNodup_mem {ms : List (Name × Sig)} {m : Name} {s : Sig}
    (h : (m, s) ∈ ms) (hn : namesNodup ms = true) : sigOf ms m = some s := by
  induction ms with
  | nil => cases h
  | cons p rest ih =>
    obtain ⟨n, s'⟩ := p
    simp only [namesNodup, Bool.and_eq_true] at hn
    simp only [sigOf]
    cases List.mem_cons.mp h with
    | inl heq =>
      have h1 : m = n := congrArg Prod.fst heq
      have h2 : s = s' := congrArg Prod.snd heq
      simp [h1, h2]
    | inr hm =>
      have hs := ih hm hn.2
      by_cases hnm : n = m
      · subst hnm
        rw [hs] at hn
        simp at hn
      · simp [hnm, hs]

theorem lookupIn_some_of_mem (H : Hier) (ks : List Cls) (m : Name) (k : Cls)
    (hk : k ∈ ks) (hs : sigOf (H.rec k).methods m ≠ none) : lookupIn H ks m ≠ none := by
  induction ks with
  | nil => cases hk
  | cons x xs ih =>
    simp only [lookupIn]
    cases hx : sigOf (H.rec x).methods m with
    | some s => simp
    | none =>
      cases List.mem_cons.mp hk with
      | inl heq => subst heq; exact absurd hx hs
      | inr hm => simpa using ih hm

theorem lookupIn_some_spec (H : Hier) (ks : List Cls) (m : Name) (k : Cls) (s : Sig)
    (h : lookupIn H ks m = some (k, s)) : k ∈ ks ∧ sigOf (H.rec k).methods m = some s := by
  induction ks with
  | nil => simp [lookupIn] at h
  | cons x xs ih =>
    simp only [lookupIn] at h
    cases hx : sigOf (H.rec x).methods m with
    | some s' =>
      rw [hx] at h
      simp only [Option.some.injEq, Prod.mk.injEq] at h
      obtain ⟨h1, h2⟩ := h
      subst h1; subst h2
      exact ⟨by simp, hx⟩
    | none =>
      rw [hx] at h
      obtain ⟨h1, h2⟩ := ih h
      exact ⟨by simp [h1], h2⟩

/-- the scan of a list that starts with a class defining `m` stops there -/
theorem lookupIn_head (H : Hier) (k : Cls) (ks : List Cls) (m : Name) (s : Sig)
    (hs : sigOf (H.rec k).methods m = some s) : lookupIn H (k :: ks) m = some (k, s) := by
  simp [lookupIn, hs]

theorem getMethod_spec (H : Hier) (c : Cls) (m : Name) (k : Cls) (s : Sig)
    (h : getMethod H c m = some (k, s)) : k ∈ (H.rec c).mro ∧ sigOf (H.rec k).methods m = some s :=
  lookupIn_some_spec H _ m k s h

theorem definerOf_spec (H : Hier) (c : Cls) (m : Name) (k : Cls)
    (h : definerOf H c m = some k) : k ∈ (H.rec c).mro ∧ sigOf (H.rec k).methods m ≠ none := by
  unfold definerOf at h
  cases hg : getMethod H c m with
  | none => rw [hg] at h; cases h
  | some p =>
    obtain ⟨k', s⟩ := p
    rw [hg] at h
    simp only [Option.map_some, Option.some.injEq] at h
    subst h
    obtain ⟨h1, h2⟩ := getMethod_spec H c m k' s hg
    exact ⟨h1, by rw [h2]; simp⟩

/-! ### what `wfClass` gives -/

structure WfC (H : Hier) (c : Cls) : Prop where
  head : ∃ rest, (H.rec c).mro = c :: rest ∧ ∀ d ∈ rest, d < c
  closed : ∀ d ∈ (H.rec c).mro, ∀ k ∈ (H.rec d).mro, k ∈ (H.rec c).mro
  single : ∀ k ∈ (H.rec c).mro, k ≠ c → (H.rec k).isTrait = false →
      ∃ b, baseOf H c = some b ∧ k ∈ (H.rec b).mro
  nodup : namesNodup (H.rec c).methods = true

theorem wfC_of_wfClass (H : Hier) (c : Cls) (h : wfClass H c = true) : WfC H c := by
  unfold wfClass at h
  simp only [Bool.and_eq_true] at h
  obtain ⟨⟨⟨⟨h1, h2⟩, h3⟩, h4⟩, h5⟩ := h
  have hhead : ∃ rest, (H.rec c).mro = c :: rest ∧ ∀ d ∈ rest, d < c := by
    cases hm : (H.rec c).mro with
    | nil => rw [hm] at h1; simp at h1
    | cons x rest =>
      rw [hm] at h1 h2
      simp only [List.head?_cons, beq_iff_eq, Option.some.injEq] at h1
      subst h1
      refine ⟨rest, rfl, ?_⟩
      intro d hd
      simp only [List.tail_cons, List.all_eq_true, decide_eq_true_eq] at h2
      exact h2 d hd
  refine ⟨hhead, ?_, ?_, h5⟩
  · intro d hd k hk
    simp only [List.all_eq_true] at h3
    have := h3 d hd k hk
    simpa using this
  · intro k hk hkc hnt
    cases hb : baseOf H c with
    | some b =>
      rw [hb] at h4
      simp only [List.all_eq_true] at h4
      have := h4 k hk
      simp only [Bool.or_eq_true, beq_iff_eq] at this
      refine ⟨b, rfl, ?_⟩
      rcases this with (h | h) | h
      · exact absurd h hkc
      · rw [hnt] at h; cases h
      · simpa using h
    | none =>
      rw [hb] at h4
      simp only [List.all_eq_true] at h4
      have := h4 k hk
      simp only [Bool.or_eq_true, beq_iff_eq] at this
      rcases this with h | h
      · exact absurd h hkc
      · rw [hnt] at h; cases h

theorem WfC.self_mem {H : Hier} {c : Cls} (w : WfC H c) : c ∈ (H.rec c).mro := by
  obtain ⟨rest, h, _⟩ := w.head
  rw [h]; simp

theorem WfC.lt_of_mem {H : Hier} {c d : Cls} (w : WfC H c) (hd : d ∈ (H.rec c).mro) (hne : d ≠ c) : d < c := by
  obtain ⟨rest, h, hlt⟩ := w.head
  rw [h] at hd
  cases List.mem_cons.mp hd with
  | inl heq => exact absurd heq hne
  | inr hm => exact hlt d hm

theorem WfC.le_of_mem {H : Hier} {c d : Cls} (w : WfC H c) (hd : d ∈ (H.rec c).mro) : d ≤ c := by
  by_cases h : d = c
  · exact Nat.le_of_eq h
  · exact Nat.le_of_lt (w.lt_of_mem hd h)

/-- a class that defines `m` itself is where its own MRO scan stops -/
theorem getMethod_self {H : Hier} {c : Cls} (w : WfC H c) (m : Name) (s : Sig)
    (hs : sigOf (H.rec c).methods m = some s) : getMethod H c m = some (c, s) := by
  obtain ⟨rest, h, _⟩ := w.head
  unfold getMethod
  rw [h]
  exact lookupIn_head H c rest m s hs

theorem baseOf_mem {H : Hier} {c b : Cls} (w : WfC H c) (hb : baseOf H c = some b) :
    b ∈ (H.rec c).mro ∧ b ≠ c ∧ (H.rec b).isTrait = false := by
  obtain ⟨rest, h, hlt⟩ := w.head
  unfold baseOf baseMro at hb
  rw [h] at hb
  have hmemf : ∀ (i : Nat) (l : List Cls) (x : Cls),
      (l.filter (fun k => !(H.rec k).isTrait))[i]? = some x → x ∈ l ∧ (H.rec x).isTrait = false := by
    intro i l x hx
    have := List.mem_of_getElem? hx
    rw [List.mem_filter] at this
    exact ⟨this.1, by simpa using this.2⟩
  cases ht : (H.rec c).isTrait with
  | true =>
    rw [ht] at hb
    simp only [List.filter_cons, ht, Bool.not_true, Bool.false_eq_true, if_false, if_true] at hb
    obtain ⟨h1, h2⟩ := hmemf 0 rest b hb
    refine ⟨by rw [h]; simp [h1], ?_, h2⟩
    intro heq; subst heq
    exact absurd (hlt b h1) (Nat.lt_irrefl _)
  | false =>
    rw [ht] at hb
    simp only [List.filter_cons, ht, Bool.not_false, if_true, Bool.false_eq_true, if_false] at hb
    have hb' : (rest.filter (fun k => !(H.rec k).isTrait))[0]? = some b := by simpa using hb
    obtain ⟨h1, h2⟩ := hmemf 0 rest b hb'
    refine ⟨by rw [h]; simp [h1], ?_, h2⟩
    intro heq; subst heq
    exact absurd (hlt b h1) (Nat.lt_irrefl _)

/-! ### `specialize_parent_vtable` -/

theorem specializeEntry_key (H : Hier) (c : Cls) (e : Entry) : key (specializeEntry same H c e) = key e := by
  unfold specializeEntry
  cases getMethod H e.cls e.name with
  | none => rfl
  | some p =>
    obtain ⟨_, osig⟩ := p
    simp only
    cases getMethod H c e.name with
    | none => rfl
    | some q =>
      obtain ⟨k, csig⟩ := q
      simp only
      split <;> rfl

theorem specialize_keys (H : Hier) (c : Cls) (es : List Entry) :
    (specialize same H c es).map key = es.map key := by
  unfold specialize
  rw [List.map_map]
  apply List.map_congr_left
  intro e _
  exact specializeEntry_key same H c e

theorem specialize_length (H : Hier) (c : Cls) (es : List Entry) :
    (specialize same H c es).length = es.length := by simp [specialize]

theorem specialize_getElem? (H : Hier) (c : Cls) (es : List Entry) (i : Nat) :
    (specialize same H c es)[i]? = (es[i]?).map (specializeEntry same H c) := by
  simp [specialize]

/-- the specialised entry points at the method the child's MRO scan finds (directly or through glue) -/
theorem specializeEntry_definer (H : Hier) (c : Cls) (e : Entry) (k : Cls) (s : Sig)
    (ho : getMethod H e.cls e.name ≠ none) (hc : getMethod H c e.name = some (k, s)) :
    (specializeEntry same H c e).target.definer = k
    ∧ ((specializeEntry same H c e).target = .direct k ∨ (specializeEntry same H c e).target = .glue k e.cls) := by
  unfold specializeEntry
  cases hg : getMethod H e.cls e.name with
  | none => exact absurd hg ho
  | some p =>
    obtain ⟨_, osig⟩ := p
    simp only [hc]
    split
    · exact ⟨rfl, Or.inl rfl⟩
    · exact ⟨rfl, Or.inr rfl⟩

/-! ### the loops of `compute_vtable` -/

/-- per-entry facts relative to the class `c` whose vtable is being built -/
def GoodEntry (H : Hier) (c : Cls) (e : Entry) : Prop :=
  e.cls ∈ (H.rec c).mro ∧ sigOf (H.rec e.cls).methods e.name ≠ none ∧
    definerOf H c e.name = some e.target.definer

def MapSound (acc : VMap × List Entry) : Prop :=
  ∀ m i, acc.1.find m = some i → ∃ e, acc.2[i]? = some e ∧ e.name = m

theorem addMethods_spec (H : Hier) (c t : Cls) (ht : t ∈ (H.rec c).mro) (full : List (Name × Sig))
    (hfull : (H.rec t).methods = full) :
    ∀ (ms : List (Name × Sig)) (acc : VMap × List Entry),
      (∀ p ∈ ms, sigOf full p.1 ≠ none) →
      MapSound acc → (∀ e ∈ acc.2, GoodEntry H c e) →
      MapSound (addMethods H c t ms acc) ∧ (∀ e ∈ (addMethods H c t ms acc).2, GoodEntry H c e)
      ∧ (∃ ext, (addMethods H c t ms acc).2 = acc.2 ++ ext)
      ∧ (∀ m, acc.1.find m ≠ none → (addMethods H c t ms acc).1.find m ≠ none)
      ∧ (∀ p ∈ ms, definerOf H c p.1 = some t → (addMethods H c t ms acc).1.find p.1 ≠ none) := by
  intro ms
  induction ms with
  | nil =>
    intro acc _ h1 h2
    exact ⟨h1, h2, ⟨[], by simp [addMethods]⟩, fun m h => h, fun p hp => by cases hp⟩
  | cons p rest ih =>
    intro acc hin h1 h2
    obtain ⟨m, s⟩ := p
    obtain ⟨vt, es⟩ := acc
    have hin' : ∀ p ∈ rest, sigOf full p.1 ≠ none := fun p hp => hin p (by simp [hp])
    simp only [addMethods]
    by_cases hd : definerOf H c m = some t
    · simp only [hd, if_true]
      have hs1 : MapSound ((m, es.length) :: vt, es ++ [{ cls := t, name := m, target := .direct t }]) := by
        intro m' i hf
        simp only [VMap.find] at hf
        by_cases hmm : m = m'
        · simp only [hmm, if_true, Option.some.injEq] at hf
          subst hf
          refine ⟨{ cls := t, name := m, target := .direct t }, by simp, hmm⟩
        · simp only [hmm, if_false] at hf
          obtain ⟨e, he, hn⟩ := h1 m' i hf
          refine ⟨e, ?_, hn⟩
          simp only at he
          have hlt : i < es.length := by
            rcases Nat.lt_or_ge i es.length with h | h
            · exact h
            · rw [List.getElem?_eq_none h] at he; cases he
          rw [List.getElem?_append_left hlt]; exact he
      have hs2 : ∀ e ∈ es ++ [{ cls := t, name := m, target := Target.direct t }], GoodEntry H c e := by
        intro e he
        rcases List.mem_append.mp he with h | h
        · exact h2 e h
        · simp only [List.mem_singleton] at h
          subst h
          refine ⟨ht, ?_, by simpa [Target.definer] using hd⟩
          simp only
          rw [hfull]
          exact hin (m, s) (by simp)
      obtain ⟨r1, r2, ⟨ext, r3⟩, r4, r5⟩ := ih _ hin' hs1 hs2
      refine ⟨r1, r2, ⟨{ cls := t, name := m, target := .direct t } :: ext, ?_⟩, ?_, ?_⟩
      · rw [r3]; simp
      · intro m' hm'
        apply r4
        simp only [VMap.find]
        by_cases hmm : m = m'
        · simp [hmm]
        · simpa [hmm] using hm'
      · intro p hp hdp
        cases List.mem_cons.mp hp with
        | inl heq =>
          subst heq
          apply r4
          simp [VMap.find]
        | inr hm => exact r5 p hm hdp
    · simp only [hd, if_false]
      obtain ⟨r1, r2, r3, r4, r5⟩ := ih (vt, es) hin' h1 h2
      refine ⟨r1, r2, r3, r4, ?_⟩
      intro p hp hdp
      cases List.mem_cons.mp hp with
      | inl heq => subst heq; exact absurd hdp hd
      | inr hm => exact r5 p hm hdp

theorem sigOf_ne_none_of_mem (ms : List (Name × Sig)) (p : Name × Sig) (hp : p ∈ ms) : sigOf ms p.1 ≠ none := by
  induction ms with
  | nil => cases hp
  | cons q rest ih =>
    obtain ⟨n, s⟩ := q
    simp only [sigOf]
    by_cases h : n = p.1
    · simp [h]
    · simp only [h, if_false]
      cases List.mem_cons.mp hp with
      | inl heq => subst heq; exact absurd rfl h
      | inr hm => exact ih hm

theorem mem_of_sigOf_some (ms : List (Name × Sig)) (m : Name) (s : Sig) (h : sigOf ms m = some s) : (m, s) ∈ ms := by
  induction ms with
  | nil => simp [sigOf] at h
  | cons q rest ih =>
    obtain ⟨n, s'⟩ := q
    simp only [sigOf] at h
    by_cases hn : n = m
    · simp only [hn, if_true, Option.some.injEq] at h
      subst hn; subst h; simp
    · simp only [hn, if_false] at h
      simp [ih h]

theorem addClasses_spec (H : Hier) (c : Cls) :
    ∀ (ts : List Cls) (acc : VMap × List Entry),
      (∀ t ∈ ts, t ∈ (H.rec c).mro) →
      MapSound acc → (∀ e ∈ acc.2, GoodEntry H c e) →
      MapSound (addClasses H c ts acc) ∧ (∀ e ∈ (addClasses H c ts acc).2, GoodEntry H c e)
      ∧ (∃ ext, (addClasses H c ts acc).2 = acc.2 ++ ext)
      ∧ (∀ m, acc.1.find m ≠ none → (addClasses H c ts acc).1.find m ≠ none)
      ∧ (∀ t ∈ ts, ∀ m, definerOf H c m = some t → (addClasses H c ts acc).1.find m ≠ none) := by
  intro ts
  induction ts with
  | nil =>
    intro acc _ h1 h2
    exact ⟨h1, h2, ⟨[], by simp [addClasses]⟩, fun m h => h, fun t ht => by cases ht⟩
  | cons t rest ih =>
    intro acc hts h1 h2
    simp only [addClasses]
    obtain ⟨a1, a2, ⟨ext1, a3⟩, a4, a5⟩ :=
      addMethods_spec H c t (hts t (by simp)) (H.rec t).methods rfl (H.rec t).methods acc
        (fun p hp => sigOf_ne_none_of_mem _ p hp) h1 h2
    obtain ⟨r1, r2, ⟨ext2, r3⟩, r4, r5⟩ := ih _ (fun t' ht' => hts t' (by simp [ht'])) a1 a2
    refine ⟨r1, r2, ⟨ext1 ++ ext2, by rw [r3, a3]; simp⟩, fun m hm => r4 m (a4 m hm), ?_⟩
    intro t' ht' m hd
    cases List.mem_cons.mp ht' with
    | inl heq =>
      subst heq
      apply r4
      obtain ⟨_, hs⟩ := definerOf_spec H c m t' hd
      cases hsig : sigOf (H.rec t').methods m with
      | none => exact absurd hsig hs
      | some s =>
        exact a5 (m, s) (mem_of_sigOf_some _ m s hsig) hd
    | inr hm => exact r5 t' hm m hd

/-! ### the per-class invariant -/

structure ClassInv (H : Hier) (tbl : Table) (c : Cls) (v : ClassVT) : Prop where
  good : ∀ e ∈ v.entries, GoodEntry H c e
  sound : MapSound (v.vtable, v.entries)
  cover : ∀ m, definerOf H c m ≠ none → v.vtable.find m ≠ none
  pre : ∀ b, baseOf H c = some b → ∃ ext, v.entries.map key = (tbl.vt b).entries.map key ++ ext
  tv : (H.rec c).isTrait = false → ∀ t ∈ (H.rec c).mro, (H.rec t).isTrait = true →
      findTV v.traitVTs t = some (specialize same H c (tbl.vt t).entries)

def TableInv (H : Hier) (tbl : Table) : Prop := ∀ c, c < tbl.length → ClassInv same H tbl c (tbl.vt c)

theorem findTV_map (l : List Cls) (f : Cls → List Entry) (t : Cls) (ht : t ∈ l) :
    findTV (l.map (fun t => (t, f t))) t = some (f t) := by
  induction l with
  | nil => cases ht
  | cons x xs ih =>
    simp only [List.map_cons, findTV]
    by_cases hx : x = t
    · simp [hx]
    · simp only [hx, if_false]
      cases List.mem_cons.mp ht with
      | inl heq => exact absurd heq.symm hx
      | inr hm => exact ih hm

theorem vt_append_lt (tbl : Table) (x : ClassVT) (d : Cls) (hd : d < tbl.length) :
    Table.vt (tbl ++ [x]) d = tbl.vt d := by
  unfold Table.vt
  simp [List.getD, List.getElem?_append_left hd]

theorem vt_append_eq (tbl : Table) (x : ClassVT) : Table.vt (tbl ++ [x]) tbl.length = x := by
  unfold Table.vt
  simp [List.getD]

theorem ClassInv.mono {H : Hier} {tbl tbl' : Table} {c : Cls} {v : ClassVT} (w : WfC H c)
    (hagree : ∀ d, d < c → tbl'.vt d = tbl.vt d) (h : ClassInv same H tbl c v) : ClassInv same H tbl' c v := by
  refine ⟨h.good, h.sound, h.cover, ?_, ?_⟩
  · intro b hb
    obtain ⟨hm, hne, _⟩ := baseOf_mem w hb
    rw [hagree b (w.lt_of_mem hm hne)]
    exact h.pre b hb
  · intro hnt t ht htt
    have hne : t ≠ c := by intro heq; subst heq; rw [hnt] at htt; cases htt
    rw [hagree t (w.lt_of_mem ht hne)]
    exact h.tv hnt t ht htt

/-- `compute_vtable` establishes the invariant for a class all of whose ancestors have it -/
theorem computeClass_inv (H : Hier) (tbl : Table) (c : Cls)
    (hwf : ∀ d, d ≤ c → WfC H d)
    (htbl : ∀ d, d < c → ClassInv same H tbl d (tbl.vt d)) :
    ClassInv same H tbl c (computeClass same H tbl c) := by
  have w := hwf c (Nat.le_refl _)
  -- the accumulator the two loops start from
  have hstart : ∃ start : VMap × List Entry,
      (match baseOf H c with
        | some b => ((tbl.vt b).vtable, specialize same H c (tbl.vt b).entries)
        | none => (([] : VMap), ([] : List Entry))) = start
      ∧ MapSound start ∧ (∀ e ∈ start.2, GoodEntry H c e)
      ∧ (∀ b, baseOf H c = some b → start.2.map key = (tbl.vt b).entries.map key)
      ∧ (∀ b, baseOf H c = some b → ∀ m, definerOf H b m ≠ none → start.1.find m ≠ none) := by
    cases hb : baseOf H c with
    | none =>
      refine ⟨([], []), rfl, ?_, ?_, ?_, ?_⟩
      · intro m i hf; simp [VMap.find] at hf
      · intro e he; cases he
      · intro b hb'; cases hb'
      · intro b hb'; cases hb'
    | some b =>
      obtain ⟨hbm, hbne, _⟩ := baseOf_mem w hb
      have hblt : b < c := w.lt_of_mem hbm hbne
      have ib := htbl b hblt
      refine ⟨_, rfl, ?_, ?_, ?_, ?_⟩
      · intro m i hf
        obtain ⟨e, he, hn⟩ := ib.sound m i hf
        refine ⟨specializeEntry same H c e, ?_, ?_⟩
        · simp only at he ⊢
          rw [specialize_getElem?, he]; rfl
        · have := specializeEntry_key same H c e
          have h2 := congrArg Prod.snd this
          simp only [key] at h2
          rw [h2]; exact hn
      · intro e' he'
        simp only [specialize, List.mem_map] at he'
        obtain ⟨e, he, heq⟩ := he'
        obtain ⟨g1, g2, _⟩ := ib.good e he
        have hk := specializeEntry_key same H c e
        have hcls : e'.cls = e.cls := by rw [← heq]; exact congrArg Prod.fst hk
        have hname : e'.name = e.name := by rw [← heq]; exact congrArg Prod.snd hk
        have hecm : e.cls ∈ (H.rec c).mro := w.closed b hbm e.cls g1
        have hwe : WfC H e.cls := hwf e.cls (w.le_of_mem hecm)
        have ho : getMethod H e.cls e.name ≠ none := by
          cases hs : sigOf (H.rec e.cls).methods e.name with
          | none => exact absurd hs g2
          | some s => rw [getMethod_self hwe e.name s hs]; simp
        have hcm : getMethod H c e.name ≠ none := lookupIn_some_of_mem H _ e.name e.cls hecm g2
        cases hg : getMethod H c e.name with
        | none => exact absurd hg hcm
        | some p =>
          obtain ⟨k, s⟩ := p
          obtain ⟨hd, _⟩ := specializeEntry_definer same H c e k s ho hg
          refine ⟨by rw [hcls]; exact hecm, by rw [hcls, hname]; exact g2, ?_⟩
          rw [hname, ← heq, hd]
          simp [definerOf, hg]
      · intro b' hb'
        cases hb'
        exact specialize_keys same H c _
      · intro b' hb' m hm
        cases hb'
        exact ib.cover m hm
  obtain ⟨start, hseq, hs1, hs2, hs3, hs4⟩ := hstart
  have horder : ∀ t ∈ c :: (allTraits H c).filter (· ≠ c), t ∈ (H.rec c).mro := by
    intro t ht
    cases List.mem_cons.mp ht with
    | inl heq => rw [heq]; exact w.self_mem
    | inr hm =>
      have := (List.mem_filter.mp hm).1
      unfold allTraits at this
      exact (List.mem_filter.mp this).1
  obtain ⟨r1, r2, ⟨ext, r3⟩, r4, r5⟩ := addClasses_spec H c _ start horder hs1 hs2
  have hent : (computeClass same H tbl c).entries
      = (addClasses H c (c :: (allTraits H c).filter (· ≠ c)) start).2 := by
    rw [← hseq]; rfl
  have hvt : (computeClass same H tbl c).vtable
      = (addClasses H c (c :: (allTraits H c).filter (· ≠ c)) start).1 := by
    rw [← hseq]; rfl
  refine ⟨?_, ?_, ?_, ?_, ?_⟩
  · rw [hent]; exact r2
  · rw [hent, hvt]; exact r1
  · intro m hm
    rw [hvt]
    cases hd : definerOf H c m with
    | none => exact absurd hd hm
    | some k =>
      obtain ⟨hkm, hks⟩ := definerOf_spec H c m k hd
      by_cases hkc : k = c
      · exact r5 c (by simp) m (by rw [hd, hkc])
      · cases hkt : (H.rec k).isTrait with
        | true =>
          refine r5 k ?_ m hd
          apply List.mem_cons_of_mem
          rw [List.mem_filter]
          refine ⟨?_, by simpa using hkc⟩
          unfold allTraits
          rw [List.mem_filter]
          exact ⟨hkm, hkt⟩
        | false =>
          obtain ⟨b, hb, hkb⟩ := w.single k hkm hkc hkt
          apply r4
          apply hs4 b hb
          have : getMethod H b m ≠ none := lookupIn_some_of_mem H _ m k hkb hks
          unfold definerOf
          cases hg : getMethod H b m with
          | none => exact absurd hg this
          | some p => simp
  · intro b hb
    rw [hent, r3, List.map_append, hs3 b hb]
    exact ⟨ext.map key, rfl⟩
  · intro hnt t ht htt
    have : (computeClass same H tbl c).traitVTs
        = (allTraits H c).map (fun t => (t, specialize same H c (tbl.vt t).entries)) := by
      unfold computeClass; simp [hnt]
    rw [this]
    apply findTV_map (allTraits H c) (fun t => specialize same H c (tbl.vt t).entries) t
    unfold allTraits
    rw [List.mem_filter]
    exact ⟨ht, htt⟩

theorem computeAll_aux (H : Hier) (hwf : WF H) :
    ∀ n, n ≤ H.length →
      ((List.range n).foldl (computeStep same H) []).length = n
      ∧ TableInv same H ((List.range n).foldl (computeStep same H) []) := by
  intro n
  induction n with
  | zero =>
    intro _
    simp only [List.range_zero, List.foldl_nil]
    exact ⟨rfl, fun c hc => by cases hc⟩
  | succ n ih =>
    intro hn
    have ih' := ih (by omega)
    clear ih
    simp only [List.range_succ, List.foldl_append, List.foldl_cons, List.foldl_nil]
    generalize (List.range n).foldl (computeStep same H) [] = tbl at ih' ⊢
    obtain ⟨hlen, hinv⟩ := ih'
    have hwfc : ∀ d, d ≤ n → WfC H d := fun d hd => wfC_of_wfClass H d (hwf d (by omega))
    have hlen' : (computeStep same H tbl n).length = n + 1 := by simp [computeStep, hlen]
    refine ⟨hlen', ?_⟩
    intro c hc
    have hc' : c < n + 1 := by omega
    unfold computeStep
    by_cases hcn : c = n
    · subst hcn
      have hnew := computeClass_inv same H tbl c hwfc (fun d hd => hinv d (by rw [hlen]; exact hd))
      have : Table.vt (tbl ++ [computeClass same H tbl c]) c = computeClass same H tbl c := by
        have h := vt_append_eq tbl (computeClass same H tbl c)
        rw [hlen] at h; exact h
      rw [this]
      exact ClassInv.mono same (hwfc c (Nat.le_refl _))
        (fun d hd => vt_append_lt tbl _ d (by rw [hlen]; exact hd)) hnew
    · have hlt : c < n := by omega
      have hlt' : c < tbl.length := by rw [hlen]; exact hlt
      rw [vt_append_lt tbl _ c hlt']
      exact ClassInv.mono same (hwfc c (Nat.le_of_lt hlt))
        (fun d hd => vt_append_lt tbl _ d (Nat.lt_trans hd hlt')) (hinv c hlt')

theorem computeAll_inv (H : Hier) (hwf : WF H) :
    (computeAll same H).length = H.length ∧ TableInv same H (computeAll same H) :=
  computeAll_aux same H hwf H.length (Nat.le_refl _)

/-! ### along the chain of non-trait bases the vtable only grows -/

theorem prefix_of_mem_mro (H : Hier) (hwf : WF H) :
    ∀ (c : Cls), c < H.length → ∀ d, d ∈ (H.rec c).mro → (H.rec c).isTrait = false → (H.rec d).isTrait = false →
      ∃ ext, ((computeAll same H).vt c).entries.map key = ((computeAll same H).vt d).entries.map key ++ ext := by
  obtain ⟨hlen, hinv⟩ := computeAll_inv same H hwf
  intro c
  induction c using Nat.strongRecOn with
  | _ c ih =>
    intro hc d hd hct hdt
    by_cases hdc : d = c
    · subst hdc; exact ⟨[], by simp⟩
    · have w := wfC_of_wfClass H c (hwf c hc)
      obtain ⟨b, hb, hdb⟩ := w.single d hd hdc hdt
      obtain ⟨hbm, hbne, hbt⟩ := baseOf_mem w hb
      have hblt : b < c := w.lt_of_mem hbm hbne
      obtain ⟨ext1, h1⟩ := (hinv c (by rw [hlen]; exact hc)).pre b hb
      obtain ⟨ext2, h2⟩ := ih b hblt (Nat.lt_trans hblt hc) d hdb hbt hdt
      exact ⟨ext2 ++ ext1, by rw [h1, h2]; simp⟩

end VTable
