import MypyVerif.Proofs.FineGrained
/-!
The semantic instance of the propagation algorithm (Model/FineGrained `semSys`, `processModule`, `update`):
`processBatch` satisfies `ReprocessSpec`, and `update` turns a good state for the old program into a good
state for the edited program.  Everything is relative to `WorldOK` (= H_complete + locality of the checker).
-/
namespace FineGrained

/-- **H_complete and locality** — the assumptions about the parts of mypy that are parameters here.
    * `frame`: the checker's result for a unit depends only on the snapshots of the names it reports as read;
    * `depsComplete` (deps.py): the dependencies generated for a unit lead from every name it read to the unit;
    * `diffComplete` (astdiff.py): a name some unit can read fires its trigger when its snapshot differs;
    * `analyzeDefs` / `analyzeLocal` (semantic analysis + inference of a batch): afterwards every name owned by
      a unit of the batch has the snapshot the unit gives it *in the resulting environment*, other names are
      untouched;
    * `ownerUnit`: names are owned by units of the module the name belongs to. -/
structure WorldOK (W : World) : Prop where
  frame : ∀ t e e', (∀ n ∈ (W.checkT t e).reads, e n = e' n) → W.checkT t e' = W.checkT t e
  depsComplete : ∀ t e, ∀ n ∈ (W.checkT t e).reads, Reach (W.depGen t e) [Node.trig n] (.tgt t)
  diffComplete : ∀ e e' t e0 n, n ∈ (W.checkT t e0).reads → e n ≠ e' n → n ∈ W.snapDiff e e'
  analyzeDefs : ∀ us e n t, W.owner n = some t → t ∈ us → W.analyze us e n = (W.checkT t (W.analyze us e)).defs n
  analyzeLocal : ∀ us e n, (∀ t, W.owner n = some t → t ∉ us) → W.analyze us e n = e n
  ownerUnit : ∀ n t, W.owner n = some t → t ∈ W.units ∧ W.modOf t = W.nameMod n

/-! ### dependency maps only grow -/

theorem get_append (x : Node) (n : Name) : ∀ d d' : Deps, x ∈ (d ++ d').get n ↔ x ∈ d.get n ∨ x ∈ d'.get n
  | [], d' => by simp [Deps.get]
  | (k, vs) :: rest, d' => by
    simp only [List.cons_append, Deps.get]
    split
    · simp only [List.mem_append, get_append x n rest d']
      constructor
      · rintro (h | h | h)
        · exact Or.inl (Or.inl h)
        · exact Or.inl (Or.inr h)
        · exact Or.inr h
      · rintro ((h | h) | h)
        · exact Or.inl h
        · exact Or.inr (Or.inl h)
        · exact Or.inr (Or.inr h)
    · exact get_append x n rest d'

theorem Reach.mono_deps {d d' : Deps} (h : ∀ n x, x ∈ d.get n → x ∈ d'.get n) {S : List Node} {x : Node}
    (r : Reach d S x) : Reach d' S x := by
  induction r with
  | base hx => exact .base hx
  | step _ hx ih => exact .step ih (h _ _ hx)

/-! ### what a batch does to the state -/

theorem foldl_record (W : World) (env' : Env) : ∀ (us : List Target) (s0 : SemSt),
    (us.foldl (recordUnit W env') s0).env = s0.env ∧
    (∀ v, v ∈ us → (us.foldl (recordUnit W env') s0).emap v = (W.checkT v env').errs ∧
                   (us.foldl (recordUnit W env') s0).gerr v = (W.checkT v env').errs ∧
                   (us.foldl (recordUnit W env') s0).seen v = (W.checkT v env').reads.map (fun n => (n, env' n))) ∧
    (∀ v, v ∉ us → (us.foldl (recordUnit W env') s0).emap v = s0.emap v ∧
                   (us.foldl (recordUnit W env') s0).gerr v = s0.gerr v ∧
                   (us.foldl (recordUnit W env') s0).seen v = s0.seen v) ∧
    (∀ n x, x ∈ s0.deps.get n → x ∈ (us.foldl (recordUnit W env') s0).deps.get n) ∧
    (∀ v, v ∈ us → ∀ n x, x ∈ (W.depGen v env').get n → x ∈ (us.foldl (recordUnit W env') s0).deps.get n)
  | [], s0 => by simp
  | u :: rest, s0 => by
    obtain ⟨h1, h2, h3, h4, h5⟩ := foldl_record W env' rest (recordUnit W env' s0 u)
    simp only [List.foldl]
    refine ⟨by rw [h1]; rfl, ?_, ?_, ?_, ?_⟩
    · intro v hv
      by_cases hvr : v ∈ rest
      · exact h2 v hvr
      · have hvu : v = u := by
          cases hv with
          | head => rfl
          | tail _ h => exact absurd h hvr
        obtain ⟨a, b, c⟩ := h3 v hvr
        rw [a, b, c]
        subst hvu
        simp [recordUnit]
    · intro v hv
      have hvu : v ≠ u := fun h => hv (by rw [h]; exact List.mem_cons_self)
      have hvr : v ∉ rest := fun h => hv (List.mem_cons_of_mem _ h)
      obtain ⟨a, b, c⟩ := h3 v hvr
      rw [a, b, c]
      simp [recordUnit, hvu]
    · intro n x hx
      apply h4
      simp only [recordUnit]
      exact (get_append x n _ _).mpr (Or.inl hx)
    · intro v hv n x hx
      cases hv with
      | head =>
        apply h4
        simp only [recordUnit]
        exact (get_append x n _ _).mpr (Or.inr hx)
      | tail _ h => exact h5 v h n x hx

/-- the facts about `processBatch` used below, for the filtered batch `us' = us ∩ units` -/
theorem batch_facts (W : World) (s : SemSt) (us : List Target) :
    let us' := us.filter (fun u => u ∈ W.units)
    let env' := W.analyze us' s.env
    let s1 := (processBatch W s us).1
    s1.env = env' ∧ (processBatch W s us).2 = W.snapDiff s.env env' ∧
    (∀ v, v ∈ us' → s1.emap v = (W.checkT v env').errs ∧ s1.gerr v = (W.checkT v env').errs ∧
        s1.seen v = (W.checkT v env').reads.map (fun n => (n, env' n))) ∧
    (∀ v, v ∉ us' → s1.emap v = s.emap v ∧ s1.gerr v = s.gerr v ∧ s1.seen v = s.seen v) ∧
    (∀ n x, x ∈ s.deps.get n → x ∈ s1.deps.get n) ∧
    (∀ v, v ∈ us' → ∀ n x, x ∈ (W.depGen v env').get n → x ∈ s1.deps.get n) := by
  intro us' env' s1
  obtain ⟨h1, h2, h3, h4, h5⟩ := foldl_record W env' us' { s with env := env' }
  exact ⟨h1, rfl, h2, h3, h4, h5⟩

/-! ### staleness and the invariant -/

/-- some recorded input of the unit differs from the current snapshot -/
def InputsDiffer (s : SemSt) (t : Target) : Prop := ∃ p ∈ s.seen t, s.env p.1 ≠ p.2

/-- `X` = changed modules not processed yet (their units are not expected to be up to date);
    with `withErr` a unit whose errors are missing from the error map (dropped by `errors.reset()`) counts too -/
def StaleSem (W : World) (X : List Mod) (withErr : Bool) (s : SemSt) (t : Target) : Prop :=
  t ∈ W.units ∧ W.modOf t ∉ X ∧ (InputsDiffer s t ∨ (withErr = true ∧ s.emap t ≠ s.gerr t))

/-- the part of the invariant that also holds before the first `errors.reset()` of an update -/
structure InvCore (W : World) (X : List Mod) (P : List Target) (last : Option Mod) (s : SemSt) : Prop where
  rec_ : ∀ t ∈ W.units, W.modOf t ∉ X → ∃ e0, s.seen t = (W.checkT t e0).reads.map (fun n => (n, e0 n)) ∧
           s.gerr t = (W.checkT t e0).errs ∧ ∀ n, W.owner n = some t → s.env n = (W.checkT t e0).defs n
  errs : ∀ t ∈ W.units, W.modOf t ∉ X → s.emap t = s.gerr t ∨ (s.emap t = [] ∧ t ∈ P)
  lastOK : ∀ t ∈ W.units, some (W.modOf t) = last → s.emap t = s.gerr t
  unowned : ∀ n, W.owner n = none → W.nameMod n ∉ X → s.env n = 0
  depsok : ∀ t ∈ W.units, W.modOf t ∉ X → ∀ p ∈ s.seen t, Reach s.deps [Node.trig p.1] (.tgt t)

structure InvSem (W : World) (X : List Mod) (P : List Target) (last : Option Mod) (s : SemSt) : Prop where
  core : InvCore W X P last s
  nonunit : ∀ t, t ∉ W.units → s.emap t = []

theorem covers_of_reach (W : World) (s : SemSt) (n : Name) (v : Target) (hv : v ∈ W.units)
    (hr : Reach s.deps [Node.trig n] (.tgt v)) : Covers (semSys W) s n v := by
  refine ⟨v, W.modOf v, hr, ?_, rfl, ?_⟩
  · simp [semSys, hv]
  · simp [semSys, hv]

/-- a batch keeps the core invariant, whatever environment and error map it starts from, as long as the
    facts about units outside the batch are given -/
theorem batch_inv (W : World) (ok : WorldOK W) (X : List Mod) (P : List Target) (last : Option Mod) (s : SemSt) (us : List Target)
    (h : InvSem W X P last s) : InvSem W X P last (processBatch W s us).1 := by
  obtain ⟨henv, _, hin, hout, hdeps, hgen⟩ := batch_facts W s us
  have hfilter : ∀ v, v ∈ us.filter (fun u => u ∈ W.units) → v ∈ W.units := by
    intro v hv; simpa using (List.mem_filter.mp hv).2
  refine ⟨⟨?_, ?_, ?_, ?_, ?_⟩, ?_⟩
  · intro t ht hX
    by_cases hb : t ∈ us.filter (fun u => u ∈ W.units)
    · refine ⟨W.analyze (us.filter (fun u => u ∈ W.units)) s.env, (hin t hb).2.2, (hin t hb).2.1, ?_⟩
      intro n hn
      rw [henv]
      exact ok.analyzeDefs _ _ n t hn hb
    · obtain ⟨e0, h1, h2, h3⟩ := h.core.rec_ t ht hX
      refine ⟨e0, by rw [(hout t hb).2.2]; exact h1, by rw [(hout t hb).2.1]; exact h2, ?_⟩
      intro n hn
      rw [henv, ok.analyzeLocal _ _ n (by intro t' ht'; rw [hn] at ht'; injection ht' with ht'; subst ht'; exact hb)]
      exact h3 n hn
  · intro t ht hX
    by_cases hb : t ∈ us.filter (fun u => u ∈ W.units)
    · left; rw [(hin t hb).1, (hin t hb).2.1]
    · rw [(hout t hb).1, (hout t hb).2.1]; exact h.core.errs t ht hX
  · intro t ht hl
    by_cases hb : t ∈ us.filter (fun u => u ∈ W.units)
    · rw [(hin t hb).1, (hin t hb).2.1]
    · rw [(hout t hb).1, (hout t hb).2.1]; exact h.core.lastOK t ht hl
  · intro n hn hX
    rw [henv, ok.analyzeLocal _ _ n (by intro t ht; rw [hn] at ht; cases ht)]
    exact h.core.unowned n hn hX
  · intro t ht hX p hp
    by_cases hb : t ∈ us.filter (fun u => u ∈ W.units)
    · rw [(hin t hb).2.2] at hp
      obtain ⟨n, hn, rfl⟩ := List.mem_map.mp hp
      exact Reach.mono_deps (hgen t hb) (ok.depsComplete t _ n hn)
    · rw [(hout t hb).2.2] at hp
      exact Reach.mono_deps hdeps (h.core.depsok t ht hX p hp)
  · intro t ht
    have hb : t ∉ us.filter (fun u => u ∈ W.units) := fun hb => ht (hfilter t hb)
    rw [(hout t hb).1]
    exact h.nonunit t ht

/-- **`reprocess_nodes` satisfies `ReprocessSpec`** in the semantic instance, relative to `WorldOK`. -/
theorem sem_spec (W : World) (ok : WorldOK W) (X : List Mod) (P : List Target) (last : Option Mod) (b : Bool) :
    ReprocessSpec (semSys W) (InvSem W X P last) (StaleSem W X b) where
  reprocess_inv := fun s _ us h => batch_inv W ok X P last s us h
  reprocess_stale := by
    intro s m us v hinv hst
    show (v ∉ us ∧ StaleSem W X b s v) ∨ CoveredBy (semSys W) (processBatch W s us).1 (processBatch W s us).2 v
    obtain ⟨henv, hfired, hin, hout, hdeps, _⟩ := batch_facts W s us
    obtain ⟨hv, hX, hd⟩ := hst
    change (InputsDiffer (processBatch W s us).1 v ∨ (b = true ∧ (processBatch W s us).1.emap v ≠ (processBatch W s us).1.gerr v)) at hd
    by_cases hb : v ∈ us.filter (fun u => u ∈ W.units)
    · exfalso
      rcases hd with ⟨p, hp, hne⟩ | ⟨_, hne⟩
      · rw [(hin v hb).2.2] at hp
        obtain ⟨n, _, rfl⟩ := List.mem_map.mp hp
        exact hne (by rw [henv])
      · exact hne (by rw [(hin v hb).1, (hin v hb).2.1])
    · have hvus : v ∉ us := fun h => hb (List.mem_filter.mpr ⟨h, by simpa using hv⟩)
      rcases hd with ⟨p, hp, hne⟩ | ⟨hbt, hne⟩
      · rw [(hout v hb).2.2] at hp
        by_cases hold : s.env p.1 = p.2
        · right
          refine ⟨p.1, ?_, covers_of_reach W _ p.1 v hv (Reach.mono_deps hdeps (hinv.core.depsok v hv hX p hp))⟩
          rw [hfired]
          obtain ⟨e0, hseen, _, _⟩ := hinv.core.rec_ v hv hX
          have hread : p.1 ∈ (W.checkT v e0).reads := by
            rw [hseen] at hp
            obtain ⟨n, hn, rfl⟩ := List.mem_map.mp hp
            exact hn
          apply ok.diffComplete _ _ v e0 p.1 hread
          rw [hold]
          intro h
          exact hne (by rw [henv, ← h])
        · exact Or.inl ⟨hvus, hv, hX, Or.inl ⟨p, hp, hold⟩⟩
      · rw [(hout v hb).1, (hout v hb).2.1] at hne
        exact Or.inl ⟨hvus, hv, hX, Or.inr ⟨hbt, hne⟩⟩
  reprocess_covers := by
    intro s m us n u hc
    obtain ⟨t, m', hr, hm, hl, hu⟩ := hc
    obtain ⟨_, _, _, _, hdeps, _⟩ := batch_facts W s us
    exact ⟨t, m', Reach.mono_deps hdeps hr, hm, hl, hu⟩
  invalidate_inv := fun _ _ h => h
  invalidate_stale := fun _ _ _ h => h
  invalidate_covers := fun _ _ _ _ h => h

/-! ### `update_module`: one changed module -/

/-- the loop invariant of `update` between two changed modules: `X` = changed modules still to do -/
structure Pre (W : World) (X : List Mod) (u : UpdSt) (last : Option Mod) : Prop where
  core : InvCore W X u.prevErr last u.st
  prev : ∀ t, u.st.emap t ≠ [] → t ∈ u.prevErr
  fresh : ∀ t ∈ W.units, W.modOf t ∉ X → ¬ InputsDiffer u.st t
  started : last ≠ none → ∀ t, t ∉ W.units → u.st.emap t = []

theorem processModule_spec (W : World) (ok : WorldOK W) (X : List Mod) (u : UpdSt) (last : Option Mod) (m : Mod)
    (h : Pre W (m :: X) u last) :
    InvSem W X u.prevErr (some m) (processModule W u.st m).1 ∧
    ∀ v, StaleSem W X false (processModule W u.st m).1 v →
      Scheduled (semSys W) (processModule W u.st m).1 (processModule W u.st m).2 [m] [] v := by
  -- the state the batch starts from: names the module no longer defines cleared, error map reset
  let s0 : SemSt := { u.st with env := fun n => if W.nameMod n = m ∧ W.owner n = none then 0 else u.st.env n,
                                 emap := fun _ => [] }
  let us := W.units.filter (fun t => W.modOf t = m)
  have hsub : us.filter (fun t => t ∈ W.units) = us := by
    apply List.filter_eq_self.mpr
    intro t ht
    simpa using (List.mem_filter.mp ht).1
  have hpm : processModule W u.st m = ((processBatch W s0 us).1, W.snapDiff u.st.env (processBatch W s0 us).1.env) := rfl
  obtain ⟨henv, _, hin, hout, hdeps, hgen⟩ := batch_facts W s0 us
  rw [hsub] at henv hin hout hgen
  have hmem : ∀ t, t ∈ us ↔ (t ∈ W.units ∧ W.modOf t = m) := by
    intro t; simp [us, List.mem_filter]
  have hnotX : ∀ t, W.modOf t ∉ X → W.modOf t ≠ m → W.modOf t ∉ m :: X := by
    intro t h1 h2 h3
    cases h3 with
    | head => exact h2 rfl
    | tail _ h => exact h1 h
  -- the environment after the batch agrees with the old one on names owned by units outside the module
  have henv_out : ∀ n t, W.owner n = some t → W.modOf t ≠ m → (processBatch W s0 us).1.env n = u.st.env n := by
    intro n t hn hm
    rw [henv, ok.analyzeLocal _ _ n (by
      intro t' ht'; rw [hn] at ht'; injection ht' with ht'; subst ht'
      intro hin'; exact hm ((hmem _).mp hin').2)]
    have : W.nameMod n ≠ m := by rw [← (ok.ownerUnit n t hn).2]; exact hm
    simp [s0, this]
  rw [hpm]
  refine ⟨⟨⟨?_, ?_, ?_, ?_, ?_⟩, ?_⟩, ?_⟩
  · intro t ht hX
    by_cases hm : W.modOf t = m
    · have hb : t ∈ us := (hmem t).mpr ⟨ht, hm⟩
      refine ⟨W.analyze us s0.env, (hin t hb).2.2, (hin t hb).2.1, ?_⟩
      intro n hn
      rw [henv]
      exact ok.analyzeDefs _ _ n t hn hb
    · have hb : t ∉ us := fun hb => hm ((hmem t).mp hb).2
      obtain ⟨e0, h1, h2, h3⟩ := h.core.rec_ t ht (hnotX t hX hm)
      refine ⟨e0, by rw [(hout t hb).2.2]; exact h1, by rw [(hout t hb).2.1]; exact h2, ?_⟩
      intro n hn
      rw [henv_out n t hn hm]
      exact h3 n hn
  · intro t ht hX
    by_cases hm : W.modOf t = m
    · have hb : t ∈ us := (hmem t).mpr ⟨ht, hm⟩
      left; rw [(hin t hb).1, (hin t hb).2.1]
    · have hb : t ∉ us := fun hb => hm ((hmem t).mp hb).2
      rw [(hout t hb).1, (hout t hb).2.1]
      show ([] : List Msg) = u.st.gerr t ∨ (([] : List Msg) = [] ∧ t ∈ u.prevErr)
      rcases h.core.errs t ht (hnotX t hX hm) with he | ⟨_, hp⟩
      · by_cases hnil : u.st.emap t = []
        · left; rw [← he, hnil]
        · exact Or.inr ⟨rfl, h.prev t hnil⟩
      · exact Or.inr ⟨rfl, hp⟩
  · intro t ht hl
    injection hl with hl
    have hb : t ∈ us := (hmem t).mpr ⟨ht, hl⟩
    rw [(hin t hb).1, (hin t hb).2.1]
  · intro n hn hX
    rw [henv, ok.analyzeLocal _ _ n (by intro t ht; rw [hn] at ht; cases ht)]
    show (if W.nameMod n = m ∧ W.owner n = none then 0 else u.st.env n) = 0
    by_cases hm : W.nameMod n = m
    · simp [hm, hn]
    · simp only [hm, false_and, if_false]
      exact h.core.unowned n hn (by
        intro h3
        cases h3 with
        | head => exact hm rfl
        | tail _ h' => exact hX h')
  · intro t ht hX p hp
    by_cases hm : W.modOf t = m
    · have hb : t ∈ us := (hmem t).mpr ⟨ht, hm⟩
      rw [(hin t hb).2.2] at hp
      obtain ⟨n, hn, rfl⟩ := List.mem_map.mp hp
      exact Reach.mono_deps (hgen t hb) (ok.depsComplete t _ n hn)
    · have hb : t ∉ us := fun hb => hm ((hmem t).mp hb).2
      rw [(hout t hb).2.2] at hp
      exact Reach.mono_deps hdeps (h.core.depsok t ht (hnotX t hX hm) p hp)
  · intro t ht
    have hb : t ∉ us := fun hb => ht ((hmem t).mp hb).1
    rw [(hout t hb).1]
  · intro v hst
    obtain ⟨hv, hX, hd⟩ := hst
    rcases hd with ⟨p, hp, hne⟩ | ⟨hf, _⟩
    · by_cases hm : W.modOf v = m
      · exfalso
        have hb : v ∈ us := (hmem v).mpr ⟨hv, hm⟩
        rw [(hin v hb).2.2] at hp
        obtain ⟨n, _, rfl⟩ := List.mem_map.mp hp
        exact hne (by rw [henv])
      · have hb : v ∉ us := fun hb => hm ((hmem v).mp hb).2
        rw [(hout v hb).2.2] at hp
        have hold : u.st.env p.1 = p.2 := by
          apply Classical.byContradiction
          intro hc
          exact h.fresh v hv (hnotX v hX hm) ⟨p, hp, hc⟩
        left
        refine ⟨p.1, ?_, v, W.modOf v, ?_, ?_, ?_, rfl, ?_⟩
        · obtain ⟨e0, hseen, _, _⟩ := h.core.rec_ v hv (hnotX v hX hm)
          have hread : p.1 ∈ (W.checkT v e0).reads := by
            rw [hseen] at hp
            obtain ⟨n, hn, rfl⟩ := List.mem_map.mp hp
            exact hn
          apply ok.diffComplete _ _ v e0 p.1 hread
          rw [hold]
          intro hc
          exact hne hc.symm
        · exact Reach.mono_deps hdeps (h.core.depsok v hv (hnotX v hX hm) p hp)
        · simp [semSys, hv]
        · simp; exact hm
        · simp [semSys, hv]
    · cases hf

/-! ### the loop over the changed modules and the final pass over the targets with errors -/

theorem errTargets_mem (W : World) (s : SemSt) (t : Target) : t ∈ errTargets W s ↔ (t ∈ W.units ∧ s.emap t ≠ []) := by
  simp [errTargets, List.mem_filter]

theorem updateLoop_spec (W : World) (ok : WorldOK W) : ∀ (X : List Mod) (u : UpdSt) (last : Option Mod),
    Pre W X u last → ∀ u1 last1, updateLoop W X u last = some (u1, last1) →
    Pre W [] u1 last1 ∧ ((X ≠ [] ∨ last ≠ none) → last1 ≠ none)
  | [], u, last, h, u1, last1, heq => by
    simp only [updateLoop] at heq
    injection heq with heq
    injection heq with h1 h2
    subst h1; subst h2
    exact ⟨h, fun hx => hx.elim (fun h => absurd rfl h) id⟩
  | m :: X, u, last, h, u1, last1, heq => by
    simp only [updateLoop] at heq
    obtain ⟨hinv, hsched⟩ := processModule_spec W ok X u last m h
    rcases propagate_spec (semSys W) (InvSem W X u.prevErr (some m)) (StaleSem W X false)
        (sem_spec W ok X u.prevErr (some m) false) MAX_ITER _ _ [m] [] [] hinv hsched with ⟨s', hmax⟩ | ⟨s', rem', hdone, hinv', hfresh⟩
    · rw [hmax] at heq; cases heq
    · rw [hdone] at heq
      have hpre : Pre W X { st := s', prevErr := u.prevErr ++ errTargets W s' } (some m) := by
        refine ⟨⟨hinv'.core.rec_, ?_, hinv'.core.lastOK, hinv'.core.unowned, hinv'.core.depsok⟩, ?_, ?_, ?_⟩
        · intro t ht hX
          rcases hinv'.core.errs t ht hX with he | ⟨he, hp⟩
          · exact Or.inl he
          · exact Or.inr ⟨he, List.mem_append.mpr (Or.inl hp)⟩
        · intro t ht
          have htu : t ∈ W.units := Classical.byContradiction fun hn => ht (hinv'.nonunit t hn)
          exact List.mem_append.mpr (Or.inr ((errTargets_mem W s' t).mpr ⟨htu, ht⟩))
        · intro t ht hX hd
          exact hfresh t ⟨ht, hX, Or.inl hd⟩
        · intro _ t ht
          exact hinv'.nonunit t ht
      obtain ⟨h1, h2⟩ := updateLoop_spec W ok X _ (some m) hpre u1 last1 heq
      exact ⟨h1, fun _ => h2 (Or.inr (by simp))⟩

/-- what an update must re-establish for the next one -/
structure Good (W : World) (u : UpdSt) : Prop where
  rec_ : ∀ t ∈ W.units, ∃ e0, u.st.seen t = (W.checkT t e0).reads.map (fun n => (n, e0 n)) ∧
           u.st.gerr t = (W.checkT t e0).errs ∧ ∀ n, W.owner n = some t → u.st.env n = (W.checkT t e0).defs n
  fresh : ∀ t ∈ W.units, ¬ InputsDiffer u.st t
  emapOK : ∀ t ∈ W.units, u.st.emap t = u.st.gerr t
  nonunit : ∀ t, t ∉ W.units → u.st.emap t = []
  unowned : ∀ n, W.owner n = none → u.st.env n = 0
  depsok : ∀ t ∈ W.units, ∀ p ∈ u.st.seen t, Reach u.st.deps [Node.trig p.1] (.tgt t)
  prev : ∀ t, u.st.emap t ≠ [] → t ∈ u.prevErr

/-- an edit: the new program `W'` differs from `W` only inside the modules `C` -/
structure Edit (W W' : World) (C : List Mod) : Prop where
  modOf_eq : W'.modOf = W.modOf
  nameMod_eq : W'.nameMod = W.nameMod
  units_eq : ∀ t, W.modOf t ∉ C → (t ∈ W'.units ↔ t ∈ W.units)
  check_eq : ∀ t, W.modOf t ∉ C → W'.checkT t = W.checkT t
  owner_eq : ∀ n, W.nameMod n ∉ C → W'.owner n = W.owner n

theorem pre_of_good (W W' : World) (C : List Mod) (u : UpdSt) (ok' : WorldOK W') (hg : Good W u) (he : Edit W W' C) :
    Pre W' C u none := by
  have hunit : ∀ t, t ∈ W'.units → W'.modOf t ∉ C → t ∈ W.units := by
    intro t ht hC
    rw [he.modOf_eq] at hC
    exact (he.units_eq t hC).mp ht
  refine ⟨⟨?_, ?_, ?_, ?_, ?_⟩, hg.prev, ?_, fun h => absurd rfl h⟩
  · intro t ht hC
    obtain ⟨e0, h1, h2, h3⟩ := hg.rec_ t (hunit t ht hC)
    have hck : W'.checkT t = W.checkT t := he.check_eq t (by rw [← he.modOf_eq]; exact hC)
    refine ⟨e0, by rw [hck]; exact h1, by rw [hck]; exact h2, ?_⟩
    intro n hn
    rw [hck]
    apply h3
    have hnm : W.nameMod n ∉ C := by
      rw [← he.nameMod_eq, ← (ok'.ownerUnit n t hn).2]; exact hC
    rw [← he.owner_eq n hnm]; exact hn
  · intro t ht hC
    exact Or.inl (hg.emapOK t (hunit t ht hC))
  · intro t _ hl; cases hl
  · intro n hn hC
    apply hg.unowned
    rw [he.nameMod_eq] at hC
    rw [← he.owner_eq n hC]; exact hn
  · intro t ht hC
    exact hg.depsok t (hunit t ht hC)
  · intro t ht hC
    exact hg.fresh t (hunit t ht hC)

/-- **One update re-establishes `Good` for the edited program** (or fails explicitly with MAX_ITER). -/
theorem update_good (W W' : World) (C : List Mod) (u u' : UpdSt) (ok' : WorldOK W') (hC : C ≠ [])
    (hg : Good W u) (he : Edit W W' C) (hup : update W' u C = some u') : Good W' u' := by
  unfold update at hup
  have hne : C.isEmpty = false := by
    cases C with
    | nil => exact absurd rfl hC
    | cons _ _ => rfl
  simp only [hne] at hup
  cases hloop : updateLoop W' C u none with
  | none => rw [hloop] at hup; simp at hup
  | some r =>
    obtain ⟨u1, last1⟩ := r
    rw [hloop] at hup
    simp only at hup
    obtain ⟨hpre, hlast⟩ := updateLoop_spec W' ok' C u none (pre_of_good W W' C u ok' hg he) u1 last1 hloop
    have hl1 : last1 ≠ none := hlast (Or.inl hC)
    have hinv : InvSem W' [] u1.prevErr last1 u1.st := ⟨hpre.core, hpre.started hl1⟩
    have hsched : ∀ v, StaleSem W' [] true u1.st v → Scheduled (semSys W') u1.st [] last1.toList u1.prevErr v := by
      intro v ⟨hv, _, hd⟩
      rcases hd with hd | ⟨_, hne'⟩
      · exact absurd hd (hpre.fresh v hv (by simp))
      · right
        rcases hpre.core.errs v hv (by simp) with heq | ⟨_, hp⟩
        · exact absurd heq hne'
        · refine ⟨v, hp, W'.modOf v, by simp [semSys, hv], ?_, by simp [semSys, hv]⟩
          intro hmem
          cases hl : last1 with
          | none => exact hl1 hl
          | some m =>
            rw [hl] at hmem
            simp at hmem
            exact hne' (hpre.core.lastOK v hv (by rw [hl, hmem]))
    rcases propagate_spec (semSys W') (InvSem W' [] u1.prevErr last1) (StaleSem W' [] true)
        (sem_spec W' ok' [] u1.prevErr last1 true) MAX_ITER u1.st [] last1.toList u1.prevErr [] hinv hsched
      with ⟨s', hmax⟩ | ⟨s', rem', hdone, hinv', hfresh⟩
    · rw [hmax] at hup; cases hup
    · rw [hdone] at hup
      injection hup with hup
      subst hup
      have hclean : ∀ t ∈ W'.units, ¬ InputsDiffer s' t ∧ s'.emap t = s'.gerr t := by
        intro t ht
        constructor
        · intro hd; exact hfresh t ⟨ht, by simp, Or.inl hd⟩
        · apply Classical.byContradiction
          intro hne'; exact hfresh t ⟨ht, by simp, Or.inr ⟨rfl, hne'⟩⟩
      refine ⟨fun t ht => hinv'.core.rec_ t ht (by simp), fun t ht => (hclean t ht).1, fun t ht => (hclean t ht).2,
        hinv'.nonunit, fun n hn => hinv'.core.unowned n hn (by simp), fun t ht => hinv'.core.depsok t ht (by simp), ?_⟩
      intro t ht
      have htu : t ∈ W'.units := Classical.byContradiction fun hn => ht (hinv'.nonunit t hn)
      exact (errTargets_mem W' s' t).mpr ⟨htu, ht⟩

/-! ### a good state is the state of a full check -/

/-- the characterisation of a from-scratch check: every unit's errors are those of the checker under the
    current snapshots, every name has the snapshot its owner gives it under the current snapshots, names
    nobody defines are absent, nothing else is in the error map -/
structure Consistent (W : World) (s : SemSt) : Prop where
  errs : ∀ t ∈ W.units, s.emap t = (W.checkT t s.env).errs
  nonunit : ∀ t, t ∉ W.units → s.emap t = []
  defs : ∀ n t, W.owner n = some t → s.env n = (W.checkT t s.env).defs n
  unowned : ∀ n, W.owner n = none → s.env n = 0

theorem good_consistent (W : World) (ok : WorldOK W) (u : UpdSt) (hg : Good W u) : Consistent W u.st := by
  have hsame : ∀ t ∈ W.units, ∀ e0, u.st.seen t = (W.checkT t e0).reads.map (fun n => (n, e0 n)) →
      W.checkT t u.st.env = W.checkT t e0 := by
    intro t ht e0 hseen
    apply ok.frame
    intro n hn
    apply Classical.byContradiction
    intro hne
    apply hg.fresh t ht
    refine ⟨(n, e0 n), ?_, fun h => hne h.symm⟩
    rw [hseen]
    exact List.mem_map.mpr ⟨n, hn, rfl⟩
  refine ⟨?_, hg.nonunit, ?_, hg.unowned⟩
  · intro t ht
    obtain ⟨e0, h1, h2, _⟩ := hg.rec_ t ht
    rw [hg.emapOK t ht, h2, hsame t ht e0 h1]
  · intro n t hn
    have ht := (ok.ownerUnit n t hn).1
    obtain ⟨e0, h1, _, h3⟩ := hg.rec_ t ht
    rw [h3 n hn, hsame t ht e0 h1]

/-- the program determines its snapshots: the defining equations have one solution (the result of a cold
    check does not depend on the order in which it is computed) -/
def Determinate (W : World) : Prop :=
  ∀ e e' : Env, (∀ n t, W.owner n = some t → e n = (W.checkT t e).defs n) → (∀ n, W.owner n = none → e n = 0) →
    (∀ n t, W.owner n = some t → e' n = (W.checkT t e').defs n) → (∀ n, W.owner n = none → e' n = 0) → e = e'

theorem consistent_unique (W : World) (hd : Determinate W) (s s' : SemSt) (h : Consistent W s) (h' : Consistent W s') :
    ∀ t, s.emap t = s'.emap t := by
  have henv : s.env = s'.env := hd s.env s'.env h.defs h.unowned h'.defs h'.unowned
  intro t
  by_cases ht : t ∈ W.units
  · rw [h.errs t ht, h'.errs t ht, henv]
  · rw [h.nonunit t ht, h'.nonunit t ht]

/-! ### the semantic `update` is the generic `updateG` at the semantic instance -/

@[simp] theorem semUSys_toSys (W : World) : (semUSys W).toSys = semSys W := rfl
@[simp] theorem semUSys_pm (W : World) : (semUSys W).processModule = processModule W := rfl
@[simp] theorem semUSys_et (W : World) : (semUSys W).errTargets = errTargets W := rfl

theorem updateLoop_eq (W : World) : ∀ (X : List Mod) (u : UpdSt) (last : Option Mod),
    updateLoopG (semUSys W) X u.toG last = (updateLoop W X u last).map (fun r => (r.1.toG, r.2))
  | [], u, last => rfl
  | m :: rest, u, last => by
    simp only [updateLoopG, updateLoop, semUSys_toSys, semUSys_pm, semUSys_et, UpdSt.toG]
    cases hp : propagate (semSys W) MAX_ITER (processModule W u.st m).1 (processModule W u.st m).2 [m] [] [] with
    | maxIter _ => rfl
    | done s r => exact updateLoop_eq W rest { st := s, prevErr := u.prevErr ++ errTargets W s } (some m)

theorem update_eq (W : World) (u : UpdSt) (C : List Mod) :
    updateG (semUSys W) u.toG C = (update W u C).map UpdSt.toG := by
  unfold updateG update
  by_cases h : C.isEmpty
  · simp [h]
  · simp only [h, Bool.false_eq_true, if_false]
    rw [updateLoop_eq]
    cases updateLoop W C u none with
    | none => rfl
    | some r =>
      obtain ⟨u1, last⟩ := r
      simp only [Option.map, semUSys_toSys, semUSys_et, UpdSt.toG]
      cases hp : propagate (semSys W) MAX_ITER u1.st [] last.toList u1.prevErr [] with
      | maxIter _ => rfl
      | done s r => rfl

end FineGrained
