import MypyVerif.Proofs.TypesTrans
/-! Union simplification: the result is equivalent to the plain union, whatever the item order. -/
namespace Types
variable {H : Hier}

/-- what one pass of `_remove_redundant_union_items` guarantees: everything it returns was there before,
    the accumulator is kept, and every input item is Never or below (w.r.t. `ps`) some returned item -/
theorem removePass_spec (ps : Ty → Ty → Bool) (hrefl : ∀ x, ps x x = true) :
    ∀ (items acc : List Ty) (lf : List Nat),
      (∀ y ∈ acc, y ∈ removePass ps items acc lf) ∧
      (∀ y ∈ removePass ps items acc lf, y ∈ acc ∨ y ∈ items) ∧
      (∀ x ∈ items, x.isNever = true ∨ ∃ y ∈ removePass ps items acc lf, ps x y = true) := by
  intro items
  induction items with
  | nil => intro acc lf; simp [removePass]
  | cons ti rest ih =>
    intro acc lf
    -- the four possible continuations
    have keep : ∀ lf', (∀ y ∈ acc, y ∈ removePass ps rest (acc ++ [ti]) lf') ∧
        (∀ y ∈ removePass ps rest (acc ++ [ti]) lf', y ∈ acc ∨ y ∈ ti :: rest) ∧
        (∀ x ∈ ti :: rest, x.isNever = true ∨ ∃ y ∈ removePass ps rest (acc ++ [ti]) lf', ps x y = true) := by
      intro lf'
      obtain ⟨h1, h2, h3⟩ := ih (acc ++ [ti]) lf'
      refine ⟨fun y hy => h1 y (by simp [hy]), ?_, ?_⟩
      · intro y hy
        rcases h2 y hy with h | h
        · simp at h; rcases h with h | h
          · exact Or.inl h
          · right; simp [h]
        · right; simp [h]
      · intro x hx
        simp at hx
        rcases hx with hx | hx
        · subst hx; right; exact ⟨x, h1 x (by simp), hrefl x⟩
        · exact h3 x hx
    have drop : (∃ y ∈ acc, ps ti y = true) ∨ ti.isNever = true →
        (∀ y ∈ acc, y ∈ removePass ps rest acc lf) ∧
        (∀ y ∈ removePass ps rest acc lf, y ∈ acc ∨ y ∈ ti :: rest) ∧
        (∀ x ∈ ti :: rest, x.isNever = true ∨ ∃ y ∈ removePass ps rest acc lf, ps x y = true) := by
      intro hd
      obtain ⟨h1, h2, h3⟩ := ih acc lf
      refine ⟨h1, ?_, ?_⟩
      · intro y hy
        rcases h2 y hy with h | h
        · exact Or.inl h
        · right; simp [h]
      · intro x hx
        simp at hx
        rcases hx with hx | hx
        · subst hx
          rcases hd with ⟨y, hy, hp⟩ | hn
          · right; exact ⟨y, h1 y hy, hp⟩
          · left; exact hn
        · exact h3 x hx
    unfold removePass
    split
    · exact drop (Or.inr (by assumption))
    · split
      · rename_i hc
        have : ti ∈ acc := by simpa using hc
        exact drop (Or.inl ⟨ti, this, hrefl ti⟩)
      · split
        · split
          · exact keep lf
          · split
            · rename_i ha
              rw [List.any_eq_true] at ha
              obtain ⟨y, hy, hp⟩ := ha
              exact drop (Or.inl ⟨y, hy, hp⟩)
            · exact keep _
        · split
          · rename_i ha
            rw [List.any_eq_true] at ha
            obtain ⟨y, hy, hp⟩ := ha
            exact drop (Or.inl ⟨y, hy, hp⟩)
          · exact keep lf

theorem removePass_no_never (ps : Ty → Ty → Bool) :
    ∀ (items acc : List Ty) (lf : List Nat), (∀ y ∈ acc, y.isNever = false) →
      ∀ y ∈ removePass ps items acc lf, y.isNever = false := by
  intro items
  induction items with
  | nil => intro acc lf h; simpa [removePass] using h
  | cons ti rest ih =>
    intro acc lf h
    unfold removePass
    split
    · exact ih acc lf h
    · rename_i hn
      have hacc : ∀ y ∈ acc ++ [ti], y.isNever = false := by
        intro y hy; simp at hy
        rcases hy with hy | hy
        · exact h y hy
        · subst hy; simpa using hn
      split
      · exact ih acc lf h
      · split
        · split
          · exact ih _ _ hacc
          · split
            · exact ih acc lf h
            · exact ih _ _ hacc
        · split
          · exact ih acc lf h
          · exact ih _ _ hacc

/-- the two passes together (transitive `ps`) -/
theorem removeRedundant_spec (ps : Ty → Ty → Bool) (hrefl : ∀ x, ps x x = true) (items : List Ty)
    (htrans : ∀ x ∈ items, ∀ y ∈ items, ∀ z ∈ items, ps x y = true → ps y z = true → ps x z = true) :
    (∀ y ∈ removeRedundant ps items, y ∈ items) ∧
    (∀ x ∈ items, x.isNever = true ∨ ∃ y ∈ removeRedundant ps items, ps x y = true) := by
  obtain ⟨_, a2, a3⟩ := removePass_spec ps hrefl items [] []
  have a2' : ∀ y ∈ removePass ps items [] [], y ∈ items := by
    intro y hy; rcases a2 y hy with h | h
    · cases h
    · exact h
  unfold removeRedundant
  simp only
  split
  · exact ⟨a2', a3⟩
  · obtain ⟨_, b2, b3⟩ := removePass_spec ps hrefl (removePass ps items [] []).reverse [] []
    have b2' : ∀ y ∈ removePass ps (removePass ps items [] []).reverse [] [], y ∈ items := by
      intro y hy; rcases b2 y hy with h | h
      · cases h
      · exact a2' y (by simpa using h)
    have cover : ∀ x ∈ items, x.isNever = true ∨
        ∃ y ∈ removePass ps (removePass ps items [] []).reverse [] [], ps x y = true := by
      intro x hx
      rcases a3 x hx with h | ⟨y, hy, hxy⟩
      · exact Or.inl h
      · rcases b3 y (by simpa using hy) with h | ⟨z, hz, hyz⟩
        · -- y is Never: then x ≤ Never … keep x's own witness through transitivity is not needed:
          -- a Never is never kept by a pass
          exfalso
          have : y.isNever = false :=
            removePass_no_never ps items [] [] (by intro y hy; cases hy) y hy
          simp [this] at h
        · right
          exact ⟨z, hz, htrans x hx y (a2' y hy) z (b2' z hz) hxy hyz⟩
    split
    · exact ⟨b2', cover⟩
    · refine ⟨fun y hy => b2' y (by simpa using hy), ?_⟩
      intro x hx
      rcases cover x hx with h | ⟨y, hy, h⟩
      · exact Or.inl h
      · exact Or.inr ⟨y, by simpa using hy, h⟩


theorem flattenL_id : ∀ {xs : List Ty}, (∀ x ∈ xs, x.isUnion = false) → flattenL xs = xs
  | [], _ => rfl
  | x :: xs, h => by
    simp only [flattenL]
    rw [flattenT_of_not_union (h x (by simp)), flattenL_id (fun y hy => h y (by simp [hy]))]
    rfl

mutual
theorem flattenT_wf : ∀ (t : Ty), t.wf H = true → ∀ x ∈ flattenT t, x.wf H = true
  | .union is, hw, x, hx => by
    simp only [flattenT] at hx
    exact flattenL_wf is (wf_union hw).1 x hx
  | .never, hw, x, hx | .none, hw, x, hx | .inst _, hw, x, hx | .gen _ _, hw, x, hx | .tuple _, hw, x, hx
  | .callable _ _, hw, x, hx | .lit _ _, hw, x, hx | .typeType _, hw, x, hx => by
    simp [flattenT] at hx; subst hx; exact hw
theorem flattenL_wf : ∀ (ts : List Ty), wfL H ts = true → ∀ x ∈ flattenL ts, x.wf H = true
  | [], _, x, hx => by simp [flattenL] at hx
  | t :: ts, hw, x, hx => by
    simp only [flattenL, List.mem_append] at hx
    simp [wfL] at hw
    rcases hx with hx | hx
    · exact flattenT_wf t hw.1 x hx
    · exact flattenL_wf ts hw.2 x hx
end

theorem flattenT_makeUnion {rr : List Ty} (h : ∀ x ∈ rr, x.isUnion = false) :
    flattenT (makeUnion rr) = if rr = [] then [.never] else rr := by
  match rr, h with
  | [], _ => simp [makeUnion, flattenT]
  | [x], h => simp [makeUnion, flattenT_of_not_union (h x (by simp))]
  | x :: y :: zs, h => simp [makeUnion, flattenT, flattenL_id h]

/-- never is a subtype of every non-union type -/
theorem S_never_atom (p : Bool) {z : Ty} (hz : z.isUnion = false) : S H p .never z = true := by
  rw [S_atom H p _ _ rfl hz]; simp [subAtom]

/-- the leaves of a simplified union are leaves of the input (or the single leaf Never) and cover every
    input leaf w.r.t. proper subtyping -/
theorem simplify_spec (hok : H.Ok) (items : List Ty) (hw : wfL H items = true) :
    (∀ z ∈ flattenT (simplifyUnion H items), z ∈ flattenL items ∨ z = .never) ∧
    (flattenT (simplifyUnion H items) ≠ []) ∧
    (∀ x ∈ flattenL items, ∃ z ∈ flattenT (simplifyUnion H items), S H true x z = true) := by
  have hnu : ∀ x ∈ flattenL items, x.isUnion = false := fun x hx => flattenL_not_union items x hx
  have hwf : ∀ x ∈ flattenL items, x.wf H = true := flattenL_wf items hw
  unfold simplifyUnion
  simp only
  split
  · rename_i t heq
    have ht : t.isUnion = false := hnu t (by rw [heq]; simp)
    rw [flattenT_of_not_union ht]
    refine ⟨?_, by simp, ?_⟩
    · intro z hz; left; simpa [heq] using hz
    · intro x hx
      rw [heq] at hx; simp at hx; subst hx
      exact ⟨x, by simp, S_refl H true x⟩
  · have spec := removeRedundant_spec (isProperSubtype H) (fun x => S_refl H true x) (flattenL items) (by
      intro x hx y hy z hz h1 h2
      have := trans_all hok _ true true x y z (Nat.le_refl _) ⟨Or.inl rfl, Or.inl rfl⟩ (hwf x hx) (hwf y hy) (hwf z hz) h1 h2
      simpa [isProperSubtype_eq] using this)
    have hrr : ∀ x ∈ removeRedundant (isProperSubtype H) (flattenL items), x.isUnion = false :=
      fun x hx => hnu x (spec.1 x hx)
    rw [flattenT_makeUnion hrr]
    refine ⟨?_, ?_, ?_⟩
    · intro z hz
      split at hz
      · right; simpa using hz
      · left; exact spec.1 z hz
    · split <;> simp [*]
    · intro x hx
      rcases spec.2 x hx with hn | ⟨y, hy, hxy⟩
      · have : x = .never := by cases x <;> simp [Ty.isNever] at hn; rfl
        subst this
        split
        · exact ⟨.never, by simp, S_refl H true _⟩
        · rename_i hne
          obtain ⟨y, hy⟩ := List.exists_mem_of_ne_nil _ hne
          exact ⟨y, hy, S_never_atom true (hrr y hy)⟩
      · split
        · rename_i he; rw [he] at hy; cases hy
        · exact ⟨y, hy, hxy⟩


theorem mem_flattenL_iff {items : List Ty} {x : Ty} : x ∈ flattenL items ↔ ∃ t ∈ items, x ∈ flattenT t := by
  rw [flattenL_eq_flatMap]; simp [List.mem_flatMap]

/-- simplified ≤ plain union and plain union ≤ simplified -/
theorem simplify_equiv_S (hok : H.Ok) (items : List Ty) (hw : wfL H items = true) (hne : flattenL items ≠ []) :
    S H false (simplifyUnion H items) (.union items) = true ∧
    S H false (.union items) (simplifyUnion H items) = true := by
  obtain ⟨h1, _, h3⟩ := simplify_spec hok items hw
  constructor
  · rw [S_leaves', List.all_eq_true]
    intro z hz
    rw [List.any_eq_true]
    simp only [flattenT]
    rcases h1 z hz with h | h
    · exact ⟨z, h, S_refl H false z⟩
    · subst h
      obtain ⟨y, hy⟩ := List.exists_mem_of_ne_nil _ hne
      exact ⟨y, hy, S_never_atom false (flattenL_not_union items y hy)⟩
  · rw [S_leaves', List.all_eq_true]
    intro x hx
    rw [List.any_eq_true]
    simp only [flattenT] at hx
    obtain ⟨z, hz, hs⟩ := h3 x hx
    exact ⟨z, hz, proper_imp_S H _ x z (Nat.le_refl _) hs⟩

/-- two item lists with the same members simplify to equivalent types -/
theorem simplify_perm_S (hok : H.Ok) (items items' : List Ty) (hw : wfL H items = true) (hw' : wfL H items' = true)
    (hmem : ∀ t, t ∈ items ↔ t ∈ items') :
    S H false (simplifyUnion H items) (simplifyUnion H items') = true := by
  obtain ⟨h1, _, _⟩ := simplify_spec hok items hw
  obtain ⟨_, g2, g3⟩ := simplify_spec hok items' hw'
  rw [S_leaves', List.all_eq_true]
  intro z hz
  rw [List.any_eq_true]
  rcases h1 z hz with h | h
  · have : z ∈ flattenL items' := by
      rw [mem_flattenL_iff] at h ⊢
      obtain ⟨t, ht, hx⟩ := h
      exact ⟨t, (hmem t).1 ht, hx⟩
    obtain ⟨z', hz', hs⟩ := g3 z this
    exact ⟨z', hz', proper_imp_S H _ z z' (Nat.le_refl _) hs⟩
  · subst h
    obtain ⟨y, hy⟩ := List.exists_mem_of_ne_nil _ g2
    exact ⟨y, hy, S_never_atom false (flattenT_not_union _ y hy)⟩

mutual
theorem flattenT_ne_nil : ∀ (t : Ty), t.wf H = true → flattenT t ≠ []
  | .union is, hw => by
    simp only [flattenT]
    exact flattenL_ne_nil (wf_union hw).1 (wf_union hw).2.2
  | .never, _ | .none, _ | .inst _, _ | .gen _ _, _ | .tuple _, _
  | .callable _ _, _ | .lit _ _, _ | .typeType _, _ => by simp [flattenT]
theorem flattenL_ne_nil : ∀ {ts : List Ty}, wfL H ts = true → ts ≠ [] → flattenL ts ≠ []
  | [], _, h => absurd rfl h
  | t :: ts, hw, _ => by
    simp [wfL] at hw
    simp only [flattenL]
    intro h
    exact flattenT_ne_nil t hw.1 (List.append_eq_nil_iff.1 h).1
end

theorem wfL_iff {items : List Ty} : wfL H items = true ↔ ∀ t ∈ items, t.wf H = true := by
  induction items with
  | nil => simp [wfL]
  | cons t ts ih => simp [wfL, ih]

end Types
