import MypyVerif.Model.FineGrained
/-!
Helper lemmas for Props/C03: the worklist of `find_targets_recursive` computes the reachability closure
(no fuel is ever exhausted), the `todo` bookkeeping loses nothing, and one iteration of the propagation
loop re-establishes "every stale unit is reachable from the triggers that just fired".
-/
namespace FineGrained

/-! ### small list facts -/

theorem mem_dedup {α : Type} [DecidableEq α] (a : α) : ∀ l : List α, a ∈ dedup l ↔ a ∈ l
  | [] => by simp [dedup]
  | x :: xs => by
    unfold dedup
    split
    · rename_i h
      rw [mem_dedup a xs]
      constructor
      · intro h'; exact List.mem_cons_of_mem _ h'
      · intro h'
        cases h' with
        | head => exact h
        | tail _ h'' => exact h''
    · simp [mem_dedup a xs]

theorem filter_length_le {α : Type} (p q : α → Bool) (himp : ∀ x, q x = true → p x = true) :
    ∀ l : List α, (l.filter q).length ≤ (l.filter p).length
  | [] => by simp
  | a :: as => by
    have ih := filter_length_le p q himp as
    cases hq : q a with
    | true => simp [List.filter, hq, himp a hq]; exact ih
    | false =>
      cases hp : p a with
      | true => simp [List.filter, hq, hp]; omega
      | false => simp [List.filter, hq, hp]; exact ih

theorem filter_length_lt {α : Type} (p q : α → Bool) (himp : ∀ x, q x = true → p x = true)
    (y : α) (hp : p y = true) (hq : q y = false) :
    ∀ l : List α, y ∈ l → (l.filter q).length < (l.filter p).length
  | [], h => by cases h
  | a :: as, h => by
    have hle := filter_length_le p q himp as
    cases h with
    | head => simp [List.filter, hq, hp]; omega
    | tail _ h' =>
      have ih := filter_length_lt p q himp y hp hq as h'
      cases hqa : q a with
      | true => simp [List.filter, hqa, himp a hqa]; exact ih
      | false =>
        cases hpa : p a with
        | true => simp [List.filter, hqa, hpa]; omega
        | false => simp [List.filter, hqa, hpa]; exact ih

theorem mem_insertBy {α : Type} (key : α → Int) (x a : α) : ∀ l : List α, a ∈ insertBy key x l ↔ a = x ∨ a ∈ l
  | [] => by simp [insertBy]
  | y :: ys => by
    unfold insertBy
    split
    · simp
    · simp [mem_insertBy key x a ys]
      constructor
      · rintro (h | h | h)
        · exact Or.inr (Or.inl h)
        · exact Or.inl h
        · exact Or.inr (Or.inr h)
      · rintro (h | h | h)
        · exact Or.inr (Or.inl h)
        · exact Or.inl h
        · exact Or.inr (Or.inr h)

theorem mem_sortBy {α : Type} (key : α → Int) (a : α) : ∀ l : List α, a ∈ sortBy key l ↔ a ∈ l
  | [] => by simp [sortBy]
  | x :: xs => by simp [sortBy, mem_insertBy, mem_sortBy key a xs]

theorem mem_unionNames (x : Name) (a b : List Name) : x ∈ unionNames a b ↔ x ∈ a ∨ x ∈ b := by
  unfold unionNames
  simp only [List.mem_append, List.mem_filter]
  constructor
  · rintro (h | ⟨h, _⟩)
    · exact Or.inl h
    · exact Or.inr h
  · intro h
    by_cases ha : x ∈ a
    · exact Or.inl ha
    · cases h with
      | inl h => exact Or.inl h
      | inr h => exact Or.inr ⟨h, by simp [ha]⟩

/-! ### the dependency map and reachability -/

/-- `x` is reachable from the start set `S` through the dependency map: it is in `S`, or it is in the
    dependency set of a reachable trigger. -/
inductive Reach (d : Deps) (S : List Node) : Node → Prop where
  | base {x : Node} : x ∈ S → Reach d S x
  | step {n : Name} {x : Node} : Reach d S (.trig n) → x ∈ d.get n → Reach d S x

theorem Reach.mono {d : Deps} {S S' : List Node} (h : ∀ x ∈ S, x ∈ S') {x : Node} (r : Reach d S x) : Reach d S' x := by
  induction r with
  | base hx => exact .base (h _ hx)
  | step _ hx ih => exact .step ih hx

theorem get_sub_values (d : Deps) (n : Name) (x : Node) : x ∈ d.get n → x ∈ d.values := by
  induction d with
  | nil => intro h; simp [Deps.get] at h
  | cons e rest ih =>
    obtain ⟨k, vs⟩ := e
    intro h
    simp only [Deps.get] at h
    simp only [Deps.values, List.mem_append]
    split at h
    · rcases List.mem_append.mp h with h | h
      · exact Or.inl h
      · exact Or.inr (ih h)
    · exact Or.inr (ih h)

theorem mem_succs (d : Deps) (x : Node) : ∀ cur : List Node, x ∈ succs d cur ↔ ∃ n, Node.trig n ∈ cur ∧ x ∈ d.get n
  | [] => by simp [succs]
  | .trig n :: rest => by
    simp only [succs, List.mem_append, mem_succs d x rest, List.mem_cons]
    constructor
    · rintro (h | ⟨m, hm, hx⟩)
      · exact ⟨n, Or.inl rfl, h⟩
      · exact ⟨m, Or.inr hm, hx⟩
    · rintro ⟨m, hm | hm, hx⟩
      · injection hm with hm; subst hm; exact Or.inl hx
      · exact Or.inr ⟨m, hm, hx⟩
  | .tgt t :: rest => by
    simp only [succs, mem_succs d x rest, List.mem_cons]
    constructor
    · rintro ⟨m, hm, hx⟩; exact ⟨m, Or.inr hm, hx⟩
    · rintro ⟨m, hm | hm, hx⟩
      · cases hm
      · exact ⟨m, hm, hx⟩

/-- The worklist loop: with enough rounds left (more than the number of locations not yet processed) the
    result contains the processed set and is closed under the dependency map. -/
theorem bfs_closed (d : Deps) : ∀ (f : Nat) (proc cur : List Node),
    (∀ x ∈ cur, x ∈ proc) →
    (∀ n, Node.trig n ∈ proc → Node.trig n ∉ cur → ∀ x ∈ d.get n, x ∈ proc) →
    (d.values.filter (fun x => !proc.contains x)).length < f →
    (∀ x ∈ proc, x ∈ bfs d f proc cur) ∧
    (∀ n, Node.trig n ∈ bfs d f proc cur → ∀ x ∈ d.get n, x ∈ bfs d f proc cur) := by
  intro f
  induction f with
  | zero => intro proc cur _ _ h; omega
  | succ f ih =>
    intro proc cur hcur hexp hmeasure
    simp only [bfs]
    have hnext : ∀ x, x ∈ dedup ((succs d cur).filter (fun x => !proc.contains x)) ↔ (x ∈ succs d cur ∧ x ∉ proc) := by
      intro x
      rw [mem_dedup, List.mem_filter]
      simp
    split
    · rename_i hempty
      have hnil : dedup ((succs d cur).filter (fun x => !proc.contains x)) = [] := by
        simpa using hempty
      refine ⟨fun x hx => hx, ?_⟩
      intro n hn x hx
      by_cases hc : Node.trig n ∈ cur
      · by_cases hp : x ∈ proc
        · exact hp
        · have : x ∈ dedup ((succs d cur).filter (fun x => !proc.contains x)) :=
            (hnext x).mpr ⟨(mem_succs d x cur).mpr ⟨n, hc, hx⟩, hp⟩
          rw [hnil] at this
          cases this
      · exact hexp n hn hc x hx
    · rename_i hne
      -- some location is new: the measure decreases
      have hex : ∃ y, y ∈ dedup ((succs d cur).filter (fun x => !proc.contains x)) := by
        cases hd : dedup ((succs d cur).filter (fun x => !proc.contains x)) with
        | nil => rw [hd] at hne; simp at hne
        | cons y _ => exact ⟨y, by simp⟩
      obtain ⟨y, hy⟩ := hex
      have hy' := (hnext y).mp hy
      obtain ⟨n0, _, hyget⟩ := (mem_succs d y cur).mp hy'.1
      have hyv : y ∈ d.values := get_sub_values d n0 y hyget
      have hlt := filter_length_lt (fun x => !proc.contains x)
        (fun x => !(proc ++ dedup ((succs d cur).filter (fun x => !proc.contains x))).contains x)
        (by
          intro x hx
          simp only [List.contains_eq_mem, List.mem_append, Bool.not_eq_eq_eq_not, Bool.not_true,
            decide_eq_false_iff_not] at hx ⊢
          exact fun h => hx (Or.inl h))
        y (by simpa using hy'.2)
        (by
          have hmem : y ∈ proc ++ dedup ((succs d cur).filter (fun x => !proc.contains x)) :=
            List.mem_append.mpr (Or.inr hy)
          simp only [List.contains_eq_mem] at hmem ⊢
          simp [hmem])
        d.values hyv
      have := ih (proc ++ dedup ((succs d cur).filter (fun x => !proc.contains x)))
        (dedup ((succs d cur).filter (fun x => !proc.contains x)))
        (fun x hx => List.mem_append.mpr (Or.inr hx))
        (by
          intro n hn hnn x hx
          have hnp : Node.trig n ∈ proc := by
            rcases List.mem_append.mp hn with h | h
            · exact h
            · exact absurd h hnn
          by_cases hc : Node.trig n ∈ cur
          · by_cases hp : x ∈ proc
            · exact List.mem_append.mpr (Or.inl hp)
            · exact List.mem_append.mpr (Or.inr ((hnext x).mpr ⟨(mem_succs d x cur).mpr ⟨n, hc, hx⟩, hp⟩))
          · exact List.mem_append.mpr (Or.inl (hexp n hnp hc x hx)))
        (by omega)
      exact ⟨fun x hx => this.1 x (List.mem_append.mpr (Or.inl hx)), this.2⟩

/-- **No hidden fuel**: `closure` contains everything reachable from the start set. -/
theorem closure_complete (d : Deps) (S : List Node) {x : Node} (r : Reach d S x) : x ∈ closure d S := by
  have h := bfs_closed d (d.values.length + 1) S S (fun x hx => hx)
    (fun n hn hnn => absurd hn hnn)
    (by
      have := List.length_filter_le (fun x => !S.contains x) d.values
      omega)
  induction r with
  | base hx => exact h.1 _ hx
  | step _ hx ih => exact h.2 _ ih _ hx

/-- … and nothing else: every location the worklist loop returns is reachable. -/
theorem bfs_sound (d : Deps) (S : List Node) : ∀ (f : Nat) (proc cur : List Node),
    (∀ x ∈ proc, Reach d S x) → (∀ x ∈ cur, x ∈ proc) → ∀ x ∈ bfs d f proc cur, Reach d S x := by
  intro f
  induction f with
  | zero => intro proc cur hp _ x hx; exact hp x hx
  | succ f ih =>
    intro proc cur hp hc x hx
    simp only [bfs] at hx
    split at hx
    · exact hp x hx
    · refine ih _ _ ?_ (fun y hy => List.mem_append.mpr (Or.inr hy)) x hx
      intro y hy
      rcases List.mem_append.mp hy with hy | hy
      · exact hp y hy
      · rw [mem_dedup, List.mem_filter] at hy
        obtain ⟨n, hn, hyn⟩ := (mem_succs d y cur).mp hy.1
        exact .step (hp _ (hc _ hn)) hyn

theorem closure_sound (d : Deps) (S : List Node) {x : Node} (h : x ∈ closure d S) : Reach d S x :=
  bfs_sound d S _ S S (fun _ hx => .base hx) (fun _ hx => hx) x h

theorem mem_targetsOf (t : Target) : ∀ l : List Node, t ∈ targetsOf l ↔ Node.tgt t ∈ l
  | [] => by simp [targetsOf]
  | .tgt u :: rest => by
    simp only [targetsOf, List.mem_cons, mem_targetsOf t rest]
    constructor
    · rintro (h | h)
      · exact Or.inl (by rw [h])
      · exact Or.inr h
    · rintro (h | h)
      · injection h with h; exact Or.inl h
      · exact Or.inr h
  | .trig n :: rest => by
    simp only [targetsOf, List.mem_cons, mem_targetsOf t rest]
    constructor
    · intro h; exact Or.inr h
    · rintro (h | h)
      · cases h
      · exact h

/-! ### todo bookkeeping -/

theorem mem_units (u : Target) : ∀ t : Todo, u ∈ Todo.units t ↔ ∃ e ∈ t, u ∈ e.2
  | [] => by simp [Todo.units]
  | (m, vs) :: rest => by
    simp only [Todo.units, List.mem_append, mem_units u rest, List.mem_cons]
    constructor
    · rintro (h | ⟨e, he, hu⟩)
      · exact ⟨(m, vs), Or.inl rfl, h⟩
      · exact ⟨e, Or.inr he, hu⟩
    · rintro ⟨e, he | he, hu⟩
      · subst he; exact Or.inl hu
      · exact Or.inr ⟨e, he, hu⟩

theorem mem_add_units (u : Target) (m : Mod) (us : List Target) : ∀ t : Todo,
    u ∈ Todo.units (t.add m us) ↔ u ∈ Todo.units t ∨ u ∈ us
  | [] => by simp [Todo.add, Todo.units, mem_dedup]
  | (k, vs) :: rest => by
    unfold Todo.add
    split
    · simp only [Todo.units, List.mem_append, mem_dedup]
      constructor
      · rintro ((h | h) | h)
        · exact Or.inl (Or.inl h)
        · exact Or.inr h
        · exact Or.inl (Or.inr h)
      · rintro ((h | h) | h)
        · exact Or.inl (Or.inl h)
        · exact Or.inr h
        · exact Or.inl (Or.inr h)
    · simp only [Todo.units, List.mem_append, mem_add_units u m us rest]
      constructor
      · rintro (h | h | h)
        · exact Or.inl (Or.inl h)
        · exact Or.inl (Or.inr h)
        · exact Or.inr h
      · rintro ((h | h) | h)
        · exact Or.inl h
        · exact Or.inr (Or.inl h)
        · exact Or.inr (Or.inr h)

variable {σ : Type}

theorem visitTarget_mono (S : Sys σ) (s : σ) (utd : List Mod) (acc : Found) (t : Target) (u : Target)
    (h : u ∈ acc.todo.units) : u ∈ (visitTarget S s utd acc t).todo.units := by
  unfold visitTarget
  split
  · exact h
  · split
    · exact h
    · split
      · exact h
      · exact (mem_add_units u _ _ _).mpr (Or.inl h)

theorem visitTarget_adds (S : Sys σ) (s : σ) (utd : List Mod) (acc : Found) (t : Target) (m : Mod) (u : Target)
    (hm : S.modOf s t = some m) (hutd : m ∉ utd) (hl : S.loaded s m = true) (hu : u ∈ S.lookup s t) :
    u ∈ (visitTarget S s utd acc t).todo.units := by
  unfold visitTarget
  rw [hm]
  simp only [hutd, if_false, hl]
  exact (mem_add_units u _ _ _).mpr (Or.inr hu)

theorem foldl_visit_mono (S : Sys σ) (s : σ) (utd : List Mod) (u : Target) : ∀ (l : List Target) (acc : Found),
    u ∈ acc.todo.units → u ∈ (l.foldl (visitTarget S s utd) acc).todo.units
  | [], _, h => h
  | t :: rest, acc, h => foldl_visit_mono S s utd u rest _ (visitTarget_mono S s utd acc t u h)

theorem foldl_visit_mem (S : Sys σ) (s : σ) (utd : List Mod) (t : Target) (m : Mod) (u : Target)
    (hm : S.modOf s t = some m) (hutd : m ∉ utd) (hl : S.loaded s m = true) (hu : u ∈ S.lookup s t) :
    ∀ (l : List Target) (acc : Found), t ∈ l → u ∈ (l.foldl (visitTarget S s utd) acc).todo.units
  | [], _, h => by cases h
  | x :: rest, acc, h => by
    cases h with
    | head => exact foldl_visit_mono S s utd u rest _ (visitTarget_adds S s utd acc t m u hm hutd hl hu)
    | tail _ h' => exact foldl_visit_mem S s utd t m u hm hutd hl hu rest _ h'

/-- `find_targets_recursive` finds every target reachable from the active triggers. -/
theorem findTargets_complete (S : Sys σ) (s : σ) (trig : List Name) (utd : List Mod) (t : Target) (m : Mod) (u : Target)
    (hr : Reach (S.deps s) (trig.map Node.trig) (.tgt t))
    (hm : S.modOf s t = some m) (hutd : m ∉ utd) (hl : S.loaded s m = true) (hu : u ∈ S.lookup s t) :
    u ∈ (findTargets S s trig utd).todo.units := by
  unfold findTargets
  exact foldl_visit_mem S s utd t m u hm hutd hl hu _ _ ((mem_targetsOf t _).mpr (closure_complete _ _ hr))

theorem addErrTarget_mono (S : Sys σ) (s : σ) (utd : List Mod) (todo : Todo) (t u : Target)
    (h : u ∈ todo.units) : u ∈ (addErrTarget S s utd todo t).units := by
  unfold addErrTarget
  split
  · exact h
  · split
    · exact h
    · exact (mem_add_units u _ _ _).mpr (Or.inl h)

theorem addErrTargets_mono (S : Sys σ) (s : σ) (utd : List Mod) (u : Target) : ∀ (terr : List Target) (todo : Todo),
    u ∈ todo.units → u ∈ (addErrTargets S s utd todo terr).units
  | [], _, h => h
  | t :: rest, todo, h => addErrTargets_mono S s utd u rest _ (addErrTarget_mono S s utd todo t u h)

theorem addErrTargets_mem (S : Sys σ) (s : σ) (utd : List Mod) (t : Target) (m : Mod) (u : Target)
    (hm : S.modOf s t = some m) (hutd : m ∉ utd) (hu : u ∈ S.lookup s t) :
    ∀ (terr : List Target) (todo : Todo), t ∈ terr → u ∈ (addErrTargets S s utd todo terr).units
  | [], _, h => by cases h
  | x :: rest, todo, h => by
    cases h with
    | head =>
      refine addErrTargets_mono S s utd u rest _ ?_
      unfold addErrTarget
      rw [hm]
      simp only [hutd, if_false]
      exact (mem_add_units u _ _ _).mpr (Or.inr hu)
    | tail _ h' => exact addErrTargets_mem S s utd t m u hm hutd hu rest _ h'

/-- sorting the batches (by module) and the nodes of each batch (by line) loses no unit -/
theorem mem_batches (S : Sys σ) (s : σ) (todo : Todo) (u : Target) :
    u ∈ Todo.units ((sortTodo todo).map (fun e => (e.1, sortByLine S s e.2))) ↔ u ∈ todo.units := by
  rw [mem_units, mem_units]
  constructor
  · rintro ⟨e, he, hu⟩
    obtain ⟨e0, he0, rfl⟩ := List.mem_map.mp he
    refine ⟨e0, (mem_sortBy _ e0 todo).mp he0, ?_⟩
    simp only [sortByLine] at hu
    exact (mem_sortBy _ u _).mp ((mem_sortBy _ u _).mp hu)
  · rintro ⟨e, he, hu⟩
    refine ⟨(e.1, sortByLine S s e.2), List.mem_map.mpr ⟨e, (mem_sortBy _ e todo).mpr he, rfl⟩, ?_⟩
    simp only [sortByLine]
    exact (mem_sortBy _ u _).mpr ((mem_sortBy _ u _).mpr hu)

/-! ### the propagation loop -/

/-- trigger `n` reaches (through the dependency map) a target of a loaded module whose deferred nodes
    include the unit `u` -/
def Covers (S : Sys σ) (s : σ) (n : Name) (u : Target) : Prop :=
  ∃ t m, Reach (S.deps s) [Node.trig n] (.tgt t) ∧ S.modOf s t = some m ∧ S.loaded s m = true ∧ u ∈ S.lookup s t

def CoveredBy (S : Sys σ) (s : σ) (F : List Name) (u : Target) : Prop := ∃ n ∈ F, Covers S s n u

/-- What the propagation loop needs from `reprocess_nodes` and the data around it; `Stale s u` reads
    "the inputs recorded for unit `u` differ from the current snapshots", `Inv` is any invariant of the build
    manager's state that reprocessing preserves.
    * a unit that is stale after reprocessing a batch was either outside the batch and already stale, or a
      trigger fired by the batch covers it (snapshot diff complete + dependency map complete);
    * dependencies, module membership and target lookup only grow while propagating. -/
structure ReprocessSpec (S : Sys σ) (Inv : σ → Prop) (Stale : σ → Target → Prop) : Prop where
  reprocess_inv : ∀ s m us, Inv s → Inv (S.reprocess s m us).1
  reprocess_stale : ∀ s m us u, Inv s → Stale (S.reprocess s m us).1 u →
    (u ∉ us ∧ Stale s u) ∨ CoveredBy S (S.reprocess s m us).1 (S.reprocess s m us).2 u
  reprocess_covers : ∀ s m us n u, Covers S s n u → Covers S (S.reprocess s m us).1 n u
  invalidate_inv : ∀ s ps, Inv s → Inv (S.invalidate s ps)
  invalidate_stale : ∀ s ps u, Stale (S.invalidate s ps) u → Stale s u
  invalidate_covers : ∀ s ps n u, Covers S s n u → Covers S (S.invalidate s ps) n u

/-- the entry condition of `propagate_changes_using_dependencies`: unit `u` will be put on the todo list -/
def Scheduled (S : Sys σ) (s : σ) (trig : List Name) (utd : List Mod) (terr : List Target) (u : Target) : Prop :=
  (∃ n ∈ trig, ∃ t m, Reach (S.deps s) [Node.trig n] (.tgt t) ∧ S.modOf s t = some m ∧ m ∉ utd ∧
      S.loaded s m = true ∧ u ∈ S.lookup s t)
  ∨ (∃ t ∈ terr, ∃ m, S.modOf s t = some m ∧ m ∉ utd ∧ u ∈ S.lookup s t)

theorem reprocessAll_spec (S : Sys σ) (Inv : σ → Prop) (Stale : σ → Target → Prop) (spec : ReprocessSpec S Inv Stale) :
    ∀ (batches : List (Mod × List Target)) (s : σ) (fired : List Name), Inv s →
    (∀ u, Stale s u → u ∈ Todo.units batches ∨ CoveredBy S s fired u) →
    Inv (reprocessAll S s batches fired).1 ∧
    ∀ u, Stale (reprocessAll S s batches fired).1 u →
      CoveredBy S (reprocessAll S s batches fired).1 (reprocessAll S s batches fired).2 u
  | [], s, fired, hinv, h => by
    simp only [reprocessAll]
    refine ⟨hinv, fun u hu => ?_⟩
    rcases h u hu with h | h
    · simp [Todo.units] at h
    · exact h
  | (m, us) :: rest, s, fired, hinv, h => by
    simp only [reprocessAll]
    refine reprocessAll_spec S Inv Stale spec rest _ _ (spec.reprocess_inv s m us hinv) ?_
    intro v hv
    rcases spec.reprocess_stale s m us v hinv hv with ⟨hnot, hst⟩ | ⟨n, hn, hc⟩
    · rcases h v hst with hin | ⟨n, hn, hc⟩
      · simp only [Todo.units, List.mem_append] at hin
        rcases hin with hin | hin
        · exact absurd hin hnot
        · exact Or.inl hin
      · exact Or.inr ⟨n, (mem_unionNames _ _ _).mpr (Or.inl hn), spec.reprocess_covers s m us n v hc⟩
    · exact Or.inr ⟨n, (mem_unionNames _ _ _).mpr (Or.inr hn), hc⟩

theorem iteration_spec (S : Sys σ) (Inv : σ → Prop) (Stale : σ → Target → Prop) (spec : ReprocessSpec S Inv Stale)
    (s : σ) (trig : List Name) (utd : List Mod) (terr : List Target) (rem : List Mod) (hinv : Inv s)
    (h : ∀ u, Stale s u → Scheduled S s trig utd terr u) :
    Inv (iteration S s trig utd terr rem).1 ∧
    ∀ u, Stale (iteration S s trig utd terr rem).1 u →
      CoveredBy S (iteration S s trig utd terr rem).1 (iteration S s trig utd terr rem).2.1 u := by
  simp only [iteration]
  refine reprocessAll_spec S Inv Stale spec _ _ [] (spec.invalidate_inv _ _ hinv) ?_
  intro v hv
  left
  have hs := h v (spec.invalidate_stale _ _ v hv)
  rw [mem_batches]
  rcases hs with ⟨n, hn, t, m, hr, hm, hutd, hl, hv'⟩ | ⟨t, ht, m, hm, hutd, hv'⟩
  · refine addErrTargets_mono S s utd v terr _ ?_
    refine findTargets_complete S s trig utd t m v ?_ hm hutd hl hv'
    refine Reach.mono ?_ hr
    intro x hx
    simp only [List.mem_singleton] at hx
    subst hx
    exact List.mem_map.mpr ⟨n, hn, rfl⟩
  · exact addErrTargets_mem S s utd t m v hm hutd hv' terr _ ht

/-- The loop of `propagate_changes_using_dependencies`: explicit failure after `k` iterations, or a state
    (still satisfying the invariant) in which no unit is stale. -/
theorem propagate_spec (S : Sys σ) (Inv : σ → Prop) (Stale : σ → Target → Prop) (spec : ReprocessSpec S Inv Stale) :
    ∀ (k : Nat) (s : σ) (trig : List Name) (utd : List Mod) (terr : List Target) (rem : List Mod),
    Inv s → (∀ u, Stale s u → Scheduled S s trig utd terr u) →
    (∃ s', propagate S k s trig utd terr rem = .maxIter s') ∨
    (∃ s' rem', propagate S k s trig utd terr rem = .done s' rem' ∧ Inv s' ∧ ∀ u, ¬ Stale s' u) := by
  intro k
  induction k with
  | zero =>
    intro s trig utd terr rem hinv h
    simp only [propagate]
    split
    · rename_i he
      right
      refine ⟨s, rem, rfl, hinv, ?_⟩
      intro u hu
      simp only [Bool.and_eq_true, List.isEmpty_iff] at he
      rcases h u hu with ⟨n, hn, _⟩ | ⟨t, ht, _⟩
      · rw [he.1] at hn; cases hn
      · rw [he.2] at ht; cases ht
    · exact Or.inl ⟨s, rfl⟩
  | succ k ih =>
    intro s trig utd terr rem hinv h
    simp only [propagate]
    split
    · rename_i he
      right
      refine ⟨s, rem, rfl, hinv, ?_⟩
      intro u hu
      simp only [Bool.and_eq_true, List.isEmpty_iff] at he
      rcases h u hu with ⟨n, hn, _⟩ | ⟨t, ht, _⟩
      · rw [he.1] at hn; cases hn
      · rw [he.2] at ht; cases ht
    · have hit := iteration_spec S Inv Stale spec s trig utd terr rem hinv h
      apply ih _ _ _ _ _ hit.1
      intro u hu
      obtain ⟨n, hn, t, m, hr, hm, hl, hu'⟩ := hit.2 u hu
      exact Or.inl ⟨n, hn, t, m, hr, hm, by simp, hl, hu'⟩

end FineGrained
