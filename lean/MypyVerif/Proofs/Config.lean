import MypyVerif.Model.Config
/-!
Helper lemmas for the C17 theorems (Props/C17.lean): the regex fragment of `compile_glob`, the string
order / insertion sort used for `sorted(wildcards)`, association-list lookups, and the construction of the
per-module cache.
-/
namespace Config

/-! ## validity of names -/

/-- a component of a module name or section pattern: non-empty, every character above `'.'` in code point
    order (letters, digits, `_` and all non-ASCII identifier characters are; `'.'`, `'*'`, newline are not) -/
def ValidComp (c : Str) : Prop := c ≠ [] ∧ ∀ x ∈ c, '.'.toNat < x.toNat

def ValidPart : Part → Prop
  | .star => True
  | .lit c => ValidComp c

/-- a section pattern as `parse_config_file` admits it: components are `*` or star-free names -/
def ValidPat (p : Pat) : Prop := p ≠ [] ∧ ∀ x ∈ p, ValidPart x

/-- a dotted module name -/
def ValidMod (m : List Str) : Prop := m ≠ [] ∧ ∀ c ∈ m, ValidComp c

instance (c : Str) : Decidable (ValidComp c) := by unfold ValidComp; infer_instance
instance (x : Part) : Decidable (ValidPart x) := by cases x <;> unfold ValidPart <;> infer_instance
instance (p : Pat) : Decidable (ValidPat p) := by unfold ValidPat; infer_instance
instance (m : List Str) : Decidable (ValidMod m) := by unfold ValidMod; infer_instance

theorem ValidComp.ne_dot {c : Str} (h : ValidComp c) : ∀ x ∈ c, x ≠ '.' := by
  intro x hx e
  have := h.2 x hx
  rw [e] at this
  exact Nat.lt_irrefl _ this

theorem ValidComp.ne_nl {c : Str} (h : ValidComp c) : ∀ x ∈ c, x ≠ '\n' := by
  intro x hx e
  have := h.2 x hx
  rw [e] at this
  revert this
  decide

/-- what the regex lemmas need of a component -/
def NoDot (c : Str) : Prop := ∀ x ∈ c, x ≠ '.' ∧ x ≠ '\n'

theorem ValidComp.noDot {c : Str} (h : ValidComp c) : NoDot c :=
  fun x hx => ⟨h.ne_dot x hx, h.ne_nl x hx⟩

/-! ## the regex fragment -/

/-- the language of the regex fragment (`re` semantics: a match exists iff some way of splitting the text
    among the items exists; `.` does not match a newline; the trailing `\Z` demands the end of the text) -/
inductive Matches : Regex → Str → Prop
  | nil : Matches [] []
  | chr {r : Regex} {s : Str} (c : Char) : Matches r s → Matches (.chr c :: r) (c :: s)
  | any {r : Regex} {s : Str} (pre : Str) : (∀ x ∈ pre, x ≠ '\n') → Matches r s → Matches (.anyStar :: r) (pre ++ s)
  | optSkip {r : Regex} {s : Str} : Matches r s → Matches (.optDotAny :: r) s
  | optTake {r : Regex} {s : Str} (pre : Str) : (∀ x ∈ pre, x ≠ '\n') → Matches r s →
      Matches (.optDotAny :: r) ('.' :: (pre ++ s))

theorem splitAny_iff (f : Str → Bool) (s : Str) :
    splitAny f s = true ↔ ∃ pre rest, s = pre ++ rest ∧ (∀ x ∈ pre, x ≠ '\n') ∧ f rest = true := by
  induction s with
  | nil =>
    simp only [splitAny]
    constructor
    · intro h; exact ⟨[], [], rfl, by simp, h⟩
    · rintro ⟨pre, rest, h, _, hf⟩
      have : pre = [] ∧ rest = [] := by simpa using h.symm
      rw [this.2] at hf; exact hf
  | cons c s ih =>
    simp only [splitAny, Bool.or_eq_true, Bool.and_eq_true, bne_iff_ne, ne_eq]
    constructor
    · rintro (h | ⟨hc, h⟩)
      · exact ⟨[], c :: s, rfl, by simp, h⟩
      · obtain ⟨pre, rest, e, hp, hf⟩ := ih.mp h
        refine ⟨c :: pre, rest, by simp [e], ?_, hf⟩
        intro x hx
        rcases List.mem_cons.mp hx with rfl | hx
        · exact hc
        · exact hp x hx
    · rintro ⟨pre, rest, e, hp, hf⟩
      cases pre with
      | nil => left; simp at e; rw [e]; exact hf
      | cons d pre =>
        simp at e
        right
        refine ⟨?_, ih.mpr ⟨pre, rest, e.2, fun x hx => hp x (by simp [hx]), hf⟩⟩
        rw [e.1]; exact hp d (by simp)

theorem rmatch_iff (r : Regex) : ∀ s, rmatch r s = true ↔ Matches r s := by
  induction r with
  | nil =>
    intro s
    cases s with
    | nil => simp [rmatch]; exact Matches.nil
    | cons c s => simp [rmatch]; intro h; cases h
  | cons it r ih =>
    intro s
    cases it with
    | chr c =>
      cases s with
      | nil => simp [rmatch]; intro h; cases h
      | cons d s =>
        simp only [rmatch, Bool.and_eq_true, beq_iff_eq]
        constructor
        · rintro ⟨rfl, h⟩; exact Matches.chr _ ((ih s).mp h)
        · intro h; cases h with
          | chr _ h => exact ⟨rfl, (ih s).mpr h⟩
    | anyStar =>
      simp only [rmatch]
      rw [splitAny_iff]
      constructor
      · rintro ⟨pre, rest, rfl, hp, hf⟩; exact Matches.any pre hp ((ih rest).mp hf)
      · intro h; cases h with
        | any pre hp h => exact ⟨pre, _, rfl, hp, (ih _).mpr h⟩
    | optDotAny =>
      simp only [rmatch, Bool.or_eq_true]
      constructor
      · rintro (h | h)
        · exact Matches.optSkip ((ih s).mp h)
        · cases s with
          | nil => simp at h
          | cons d s =>
            simp only [Bool.and_eq_true, beq_iff_eq] at h
            obtain ⟨rfl, h⟩ := h
            obtain ⟨pre, rest, rfl, hp, hf⟩ := (splitAny_iff _ _).mp h
            exact Matches.optTake pre hp ((ih rest).mp hf)
      · intro h; cases h with
        | optSkip h => left; exact (ih s).mpr h
        | optTake pre hp h =>
          right
          simp only [Bool.and_eq_true, beq_iff_eq, true_and]
          exact (splitAny_iff _ _).mpr ⟨pre, _, rfl, hp, (ih _).mpr h⟩

/-- the text after a component boundary: `.c1.c2…` -/
def joinTail : List Str → Str
  | [] => []
  | c :: m => '.' :: (c ++ joinTail m)

theorem joinDots_cons (d : Str) (m : List Str) : joinDots (d :: m) = d ++ joinTail m := by
  induction m generalizing d with
  | nil => simp [joinDots, joinTail]
  | cons c m ih => simp [joinDots, joinTail, ih c]

/-- empty, or starting with a dot -/
def Boundary : Str → Prop
  | [] => True
  | c :: _ => c = '.'

theorem rmatch_tail_boundary (ps : List Part) : ∀ s, rmatch (compileTail ps) s = true → Boundary s := by
  induction ps with
  | nil => intro s h; cases s with
    | nil => trivial
    | cons c s => simp [compileTail, rmatch] at h
  | cons p ps ih =>
    intro s h
    cases p with
    | star =>
      simp only [compileTail, rmatch, Bool.or_eq_true] at h
      rcases h with h | h
      · exact ih s h
      · cases s with
        | nil => trivial
        | cons d s => simp only [Bool.and_eq_true, beq_iff_eq] at h; exact h.1
    | lit c =>
      cases s with
      | nil => trivial
      | cons d s =>
        simp only [compileTail, rmatch, Bool.and_eq_true, beq_iff_eq] at h
        exact h.1

theorem splitAny_skip (f : Str → Bool) (hf : ∀ s, f s = true → Boundary s) (c rest : Str) (hc : NoDot c) :
    splitAny f (c ++ rest) = splitAny f rest := by
  induction c with
  | nil => rfl
  | cons x c ih =>
    have hx := hc x (by simp)
    have hfalse : f (x :: (c ++ rest)) = false := by
      cases h : f (x :: (c ++ rest)) with
      | false => rfl
      | true => exact absurd (hf _ h) hx.1
    simp only [List.cons_append, splitAny, hfalse, Bool.false_or]
    rw [ih (fun y hy => hc y (by simp [hy]))]
    simp [hx.2]

theorem anySuffix_congr (f g : List Str → Bool) (m : List Str)
    (h : ∀ m', (∀ d ∈ m', d ∈ m) → f m' = g m') : anySuffix f m = anySuffix g m := by
  induction m with
  | nil => simp [anySuffix, h [] (by simp)]
  | cons d m ih =>
    simp only [anySuffix]
    rw [h (d :: m) (fun _ hx => hx), ih (fun m' hm' => h m' (fun x hx => by simp [hm' x hx]))]

theorem splitAny_joinTail (f : Str → Bool) (hf : ∀ s, f s = true → Boundary s) (m : List Str)
    (hm : ∀ c ∈ m, NoDot c) :
    splitAny f (joinTail m) = anySuffix (fun m' => f (joinTail m')) m := by
  induction m with
  | nil => simp [joinTail, splitAny, anySuffix]
  | cons d m ih =>
    simp only [joinTail, splitAny, anySuffix]
    rw [splitAny_skip f hf d (joinTail m) (hm d (by simp)), ih (fun c hc => hm c (by simp [hc]))]
    simp

theorem rmatch_lits (r : Regex) (hr : ∀ s, rmatch r s = true → Boundary s) (c : Str) (hc : NoDot c) :
    ∀ (d : Str) (m : List Str), NoDot d →
      rmatch (lits c ++ r) (d ++ joinTail m) = (d == c && rmatch r (joinTail m)) := by
  induction c with
  | nil =>
    intro d m hd
    cases d with
    | nil => simp [lits]
    | cons y d =>
      have : rmatch r (y :: (d ++ joinTail m)) = false := by
        cases h : rmatch r (y :: (d ++ joinTail m)) with
        | false => rfl
        | true => exact absurd (hr _ h) (hd y (by simp)).1
      simp [lits, this]
  | cons x c ih =>
    intro d m hd
    have hx := hc x (by simp)
    cases d with
    | nil =>
      cases m with
      | nil => simp [lits, joinTail, rmatch]
      | cons e m =>
        simp only [lits, List.map_cons, List.cons_append, List.nil_append, joinTail, rmatch]
        have : ('.' == x) = false := by
          simp only [beq_eq_false_iff_ne, ne_eq]
          exact fun e => hx.1 e.symm
        simp [this]
    | cons y d =>
      have ih' := ih (fun z hz => hc z (by simp [hz])) d m (fun z hz => hd z (by simp [hz]))
      simp only [lits] at ih'
      simp only [lits, List.map_cons, List.cons_append, rmatch, ih']
      simp only [List.cons_beq_cons, Bool.and_assoc] <;> rfl

theorem joinTail_isEmpty (m : List Str) : (joinTail m).isEmpty = m.isEmpty := by
  cases m <;> simp [joinTail]

theorem rmatch_compileTail (ps : List Part) (hps : ∀ p ∈ ps, ValidPart p) :
    ∀ m : List Str, (∀ c ∈ m, NoDot c) → rmatch (compileTail ps) (joinTail m) = matchTail ps m := by
  induction ps with
  | nil => intro m _; simp [compileTail, rmatch, matchTail, joinTail_isEmpty]
  | cons p ps ih =>
    intro m hm
    have ih' := ih (fun q hq => hps q (by simp [hq]))
    cases p with
    | star =>
      simp only [compileTail, rmatch, matchTail]
      cases m with
      | nil =>
        have := ih' [] (by simp)
        simpa [joinTail, anySuffix] using this
      | cons d m =>
        have hm' : ∀ c ∈ m, NoDot c := fun c hc => hm c (by simp [hc])
        simp only [joinTail, anySuffix, beq_self_eq_true, Bool.true_and]
        rw [splitAny_skip _ (rmatch_tail_boundary ps) d _ (hm d (by simp)),
          splitAny_joinTail _ (rmatch_tail_boundary ps) m hm']
        have e1 : rmatch (compileTail ps) ('.' :: (d ++ joinTail m)) = matchTail ps (d :: m) := ih' (d :: m) hm
        rw [e1]
        congr 1
        exact anySuffix_congr _ _ m (fun m' h => ih' m' (fun c hc => hm' c (h c hc)))
    | lit c =>
      have hc : NoDot c := (hps (.lit c) (by simp)).noDot
      cases m with
      | nil => simp [compileTail, rmatch, matchTail, joinTail]
      | cons d m =>
        simp only [compileTail, joinTail, rmatch, matchTail, beq_self_eq_true, Bool.true_and]
        rw [rmatch_lits _ (rmatch_tail_boundary ps) c hc d m (hm d (by simp)),
          ih' m (fun c hc => hm c (by simp [hc]))]

theorem modPat_str (m : List Str) : (modPat m).str = joinDots m := by
  simp [modPat, Pat.str, List.map_map, Function.comp_def, Part.str]

/-- **glob_correct** at the level of the Boolean matchers -/
theorem globMatches_eq_compMatch (p : Pat) (m : List Str) (hp : ValidPat p) (hm : ValidMod m) :
    globMatches p (modPat m) = compMatch p m := by
  unfold globMatches
  rw [modPat_str]
  obtain ⟨hpne, hpv⟩ := hp
  obtain ⟨hmne, hmv⟩ := hm
  cases m with
  | nil => exact absurd rfl hmne
  | cons d m =>
    have hd : NoDot d := (hmv d (by simp)).noDot
    have hm' : ∀ c ∈ m, NoDot c := fun c hc => (hmv c (by simp [hc])).noDot
    rw [joinDots_cons]
    cases p with
    | nil => exact absurd rfl hpne
    | cons q ps =>
      have hps : ∀ x ∈ ps, ValidPart x := fun x hx => hpv x (by simp [hx])
      cases q with
      | star =>
        simp only [compileGlob, rmatch, compMatch]
        rw [splitAny_skip _ (rmatch_tail_boundary ps) d _ hd,
          splitAny_joinTail _ (rmatch_tail_boundary ps) m hm']
        exact anySuffix_congr _ _ m (fun m' h => rmatch_compileTail ps hps m' (fun c hc => hm' c (h c hc)))
      | lit c =>
        have hc : NoDot c := (hpv (.lit c) (by simp)).noDot
        simp only [compileGlob, compMatch]
        rw [rmatch_lits _ (rmatch_tail_boundary ps) c hc d m hd, rmatch_compileTail ps hps m hm']

/-! ## the string order and insertion sort -/

theorem strLe_refl (a : Str) : strLe a a = true := by
  induction a with
  | nil => rfl
  | cons x a ih => simp [strLe, ih]

theorem strLe_total (a : Str) : ∀ b, strLe a b = true ∨ strLe b a = true := by
  induction a with
  | nil => intro b; left; cases b <;> rfl
  | cons x a ih =>
    intro b
    cases b with
    | nil => right; rfl
    | cons y b =>
      simp only [strLe]
      by_cases h1 : x.toNat < y.toNat
      · left; simp [h1]
      · by_cases h2 : y.toNat < x.toNat
        · right; simp [h2]
        · simp only [h1, h2, if_false]
          exact ih b

theorem strLe_trans (a : Str) : ∀ b c, strLe a b = true → strLe b c = true → strLe a c = true := by
  induction a with
  | nil => intro b c _ _; cases c <;> rfl
  | cons x a ih =>
    intro b c hab hbc
    cases b with
    | nil => simp [strLe] at hab
    | cons y b =>
      cases c with
      | nil => simp [strLe] at hbc
      | cons z c =>
        simp only [strLe] at hab hbc ⊢
        by_cases hxy : x.toNat < y.toNat
        · by_cases hyz : y.toNat < z.toNat
          · have : x.toNat < z.toNat := by omega
            simp [this]
          · by_cases hzy : z.toNat < y.toNat
            · simp [hyz, hzy] at hbc
            · have : x.toNat < z.toNat := by omega
              simp [this]
        · by_cases hyx : y.toNat < x.toNat
          · simp [hxy, hyx] at hab
          · simp only [hxy, hyx, if_false] at hab
            by_cases hyz : y.toNat < z.toNat
            · have : x.toNat < z.toNat := by omega
              simp [this]
            · by_cases hzy : z.toNat < y.toNat
              · simp [hyz, hzy] at hbc
              · simp only [hyz, hzy, if_false] at hbc
                have h1 : ¬ x.toNat < z.toNat := by omega
                have h2 : ¬ z.toNat < x.toNat := by omega
                simp only [h1, h2, if_false]
                exact ih b c hab hbc

/-- two strings that agree up to a position where the first has the smaller character -/
theorem strLe_common_prefix (p : Str) (x y : Char) (s t : Str) (h : x.toNat < y.toNat) :
    strLe (p ++ x :: s) (p ++ y :: t) = true ∧ strLe (p ++ y :: t) (p ++ x :: s) = false := by
  induction p with
  | nil =>
    have h' : ¬ y.toNat < x.toNat := by omega
    simp [strLe, h, h']
  | cons c p ih => simp [strLe, ih]

theorem insertSorted_perm (le : α → α → Bool) (x : α) (l : List α) :
    (insertSorted le x l).Perm (x :: l) := by
  induction l with
  | nil => exact List.Perm.refl _
  | cons y ys ih =>
    simp only [insertSorted]
    split
    · exact List.Perm.refl _
    · exact (List.Perm.cons y ih).trans (List.Perm.swap x y ys)

theorem isort_perm (le : α → α → Bool) (l : List α) : (isort le l).Perm l := by
  induction l with
  | nil => exact List.Perm.refl _
  | cons x xs ih => exact (insertSorted_perm le x _).trans (List.Perm.cons x ih)

theorem insertSorted_pairwise (le : α → α → Bool)
    (total : ∀ a b, le a b = true ∨ le b a = true)
    (trans : ∀ a b c, le a b = true → le b c = true → le a c = true)
    (x : α) (l : List α) (h : l.Pairwise (fun a b => le a b = true)) :
    (insertSorted le x l).Pairwise (fun a b => le a b = true) := by
  induction l with
  | nil => simp [insertSorted]
  | cons y ys ih =>
    simp only [insertSorted]
    have hy := List.pairwise_cons.mp h
    split
    · rename_i hxy
      refine List.pairwise_cons.mpr ⟨?_, h⟩
      intro z hz
      rcases List.mem_cons.mp hz with rfl | hz
      · exact hxy
      · exact trans _ _ _ hxy (hy.1 z hz)
    · rename_i hxy
      have hyx : le y x = true := by
        rcases total x y with h1 | h1
        · exact absurd h1 hxy
        · exact h1
      refine List.pairwise_cons.mpr ⟨?_, ih hy.2⟩
      intro z hz
      have : z ∈ x :: ys := (insertSorted_perm le x ys).mem_iff.mp hz
      rcases List.mem_cons.mp this with rfl | hz
      · exact hyx
      · exact hy.1 z hz

theorem isort_pairwise (le : α → α → Bool)
    (total : ∀ a b, le a b = true ∨ le b a = true)
    (trans : ∀ a b c, le a b = true → le b c = true → le a c = true) (l : List α) :
    (isort le l).Pairwise (fun a b => le a b = true) := by
  induction l with
  | nil => simp [isort]
  | cons x xs ih => exact insertSorted_pairwise le total trans x _ ih

theorem sortPats_perm (ps : List Pat) : (sortPats ps).Perm ps := isort_perm _ ps

theorem sortPats_pairwise (ps : List Pat) :
    (sortPats ps).Pairwise (fun a b => strLe a.str b.str = true) :=
  isort_pairwise _ (fun a b => strLe_total a.str b.str) (fun a b c => strLe_trans a.str b.str c.str) ps

end Config
