import MypyVerif.Proofs.TypesLattice2
/-! Lattice laws, part 3: one unfolding of `join_types` with good recursive calls is a good join. -/
namespace Types
variable {H : Hier}

/-- `builtins.function` does not occur, except that the type may be `builtins.function` itself
    (the fallback the visitors substitute for a callable) -/
def NF (H : Hier) (t : Ty) : Prop := t.noFunc H = true ∨ t = .inst H.functionC

/-- hypotheses on an operand of join / meet -/
structure Hyp (H : Hier) (t : Ty) : Prop where
  wf : t.wf H = true
  nf : NF H t
  lat : t.latOk H = true

theorem Hyp.of (hw : t.wf H = true) (hn : t.noFunc H = true) (hl : t.latOk H = true) : Hyp H t :=
  ⟨hw, Or.inl hn, hl⟩

theorem hyp_fn (hok : H.Ok) : Hyp H (.inst H.functionC) := ⟨wf_fn hok, Or.inr rfl, rfl⟩

theorem hyp_inst_of_lit {c v : Nat} (h : Hyp H (.lit c v)) : Hyp H (.inst c) := by
  refine ⟨wf_lit h.wf, ?_, rfl⟩
  rcases h.nf with h | h
  · left; simpa [Ty.noFunc] using h
  · cases h

theorem hyp_gen_arg {c : Nat} {x : Ty} (h : Hyp H (.gen c x)) : Hyp H x := by
  refine ⟨(wf_gen h.wf).2.2, ?_, ?_⟩
  · rcases h.nf with h | h
    · left; simpa [Ty.noFunc] using h
    · cases h
  · have := h.lat; simp [Ty.latOk] at this; exact this.1

theorem hyp_union_item {xs : List Ty} (h : Hyp H (.union xs)) : ∀ x ∈ xs, Hyp H x := by
  intro x hx
  refine ⟨wfL_mem (wf_union h.wf).1 x hx, ?_, ?_⟩
  · rcases h.nf with h | h
    · left; exact noFuncL_mem (by simpa [Ty.noFunc] using h) x hx
    · cases h
  · exact latOkL_iff.1 (by simpa [Ty.latOk] using h.lat) x hx

theorem hyp_tuple_item {xs : List Ty} (h : Hyp H (.tuple xs)) : ∀ x ∈ xs, Hyp H x := by
  intro x hx
  refine ⟨wf_tuple h.wf x hx, ?_, ?_⟩
  · rcases h.nf with h | h
    · left; exact noFunc_tuple h x hx
    · cases h
  · exact latOkL_iff.1 (by simpa [Ty.latOk] using h.lat) x hx

theorem hyp_callable {xs : List Ty} {r : Ty} (h : Hyp H (.callable xs r)) : (∀ x ∈ xs, Hyp H x) ∧ Hyp H r := by
  have hl : latOkL H xs = true ∧ r.latOk H = true := by simpa [Ty.latOk] using h.lat
  have hn : (Ty.callable xs r).noFunc H = true := by
    rcases h.nf with h | h
    · exact h
    · cases h
  exact ⟨fun x hx => ⟨(wf_callable h.wf).1 x hx, Or.inl ((noFunc_callable hn).1 x hx), latOkL_iff.1 hl.1 x hx⟩,
         ⟨(wf_callable h.wf).2, Or.inl (noFunc_callable hn).2, hl.2⟩⟩

theorem hyp_typeType_item {x : Ty} (h : Hyp H (.typeType x)) : Hyp H x := by
  refine ⟨(wf_typeType h.wf).1, ?_, by simpa [Ty.latOk] using h.lat⟩
  rcases h.nf with h | h
  · left; simpa [Ty.noFunc] using h
  · cases h

theorem noFunc_of_nf_not_fn {t : Ty} (h : NF H t) (hne : t ≠ .inst H.functionC) : t.noFunc H = true := by
  rcases h with h | h
  · exact h
  · exact absurd h hne

theorem hyp_simplify (hok : H.Ok) {items : List Ty} (h : ∀ t ∈ items, t.wf H = true ∧ t.noFunc H = true ∧ t.latOk H = true) :
    Hyp H (simplifyUnion H items) :=
  ⟨simplify_wf hok items (wfL_iff.2 (fun t ht => (h t ht).1)),
   Or.inl (simplify_pred noFunc_leafPred items (fun t ht => (h t ht).2.1)),
   simplify_pred latOk_leafPred items (fun t ht => (h t ht).2.2)⟩

theorem hyp_tupleFallback (hok : H.Ok) {ts : List Ty} (h : Hyp H (.tuple ts)) : Hyp H (tupleFallback H ts) := by
  have hnf : (simplifyUnion H ts).noFunc H = true :=
    simplify_pred noFunc_leafPred ts (fun t ht => noFunc_tuple (noFunc_of_nf_not_fn h.nf (by simp)) t ht)
  have hlat : (simplifyUnion H ts).latOk H = true :=
    simplify_pred latOk_leafPred ts (fun t ht => (hyp_tuple_item h t ht).lat)
  refine ⟨tupleFallback_wf hok h.wf, Or.inl ?_, ?_⟩
  · simpa [tupleFallback, Ty.noFunc] using hnf
  · simp [tupleFallback, Ty.latOk, hlat, (hok.tl_generic H.tupleC hok.tup_mem hok.tup_tl).2]

theorem hyp_trueOrFalse (hok : H.Ok) {t : Ty} (h : Hyp H t) : Hyp H (trueOrFalse H t) := by
  cases t with
  | union is =>
    simp only [trueOrFalse]
    exact hyp_simplify hok (fun t ht =>
      ⟨(hyp_union_item h t ht).wf,
       noFuncL_mem (by simpa [Ty.noFunc] using noFunc_of_nf_not_fn h.nf (by simp)) t ht,
       (hyp_union_item h t ht).lat⟩)
  | never | none | inst _ | gen _ _ | tuple _ | callable _ _ | lit _ _ | typeType _ => exact h

theorem hyp_argOf (hok : H.Ok) {t x : Ty} (h : Hyp H t) (hx : ArgOf H t x) : Hyp H x := by
  rcases hx with hx | ⟨c, d, a, hc, hd, hs, hxa⟩
  · cases t <;> simp [Ty.arg?] at hx
    subst hx; exact hyp_gen_arg h
  · subst hxa
    have hcm := (wf_cls h.wf hc).1
    refine ⟨(argOf_facts hok h.wf (Or.inr ⟨c, d, a, hc, hd, hs, rfl⟩)).1, Or.inl ?_, rfl⟩
    simp only [Ty.noFunc, bne_iff_ne, ne_eq]
    intro he; subst he
    exact hok.no_const_fn c hcm d hd hs

theorem Good.symm {x y j : Ty} (g : Good H x y j) : Good H y x j :=
  ⟨g.wf, g.right, g.left, fun h1 h2 => (g.equiv h2 h1).symm⟩

/-- a leaf is below the type it is a leaf of -/
theorem leaf_le (p : Bool) {t z : Ty} (hz : z ∈ flattenT t) : S H p z t = true := by
  apply S_leaf_intro
  intro x hx
  rw [flattenT_of_not_union (flattenT_not_union t z hz)] at hx
  simp at hx; subst hx
  exact ⟨x, hz, S_refl H p x⟩

/-- `make_simplified_union([s, t])` is a good join -/
theorem simplify2_good (hok : H.Ok) {s t : Ty} (hs : s.wf H = true) (ht : t.wf H = true) :
    Good H s t (simplifyUnion H [s, t]) := by
  have hwl : wfL H [s, t] = true := by simp [wfL, hs, ht]
  obtain ⟨h1, _, h3⟩ := simplify_spec hok [s, t] hwl
  have hfl : flattenL [s, t] = flattenT s ++ flattenT t := by simp [flattenL]
  refine ⟨simplify_wf hok _ hwl, ?_, ?_, ?_⟩
  · apply S_leaf_intro
    intro x hx
    obtain ⟨z, hz, hxz⟩ := h3 x (by rw [hfl]; simp [hx])
    exact ⟨z, hz, proper_imp_S H _ x z (Nat.le_refl _) hxz⟩
  · apply S_leaf_intro
    intro x hx
    obtain ⟨z, hz, hxz⟩ := h3 x (by rw [hfl]; simp [hx])
    exact ⟨z, hz, proper_imp_S H _ x z (Nat.le_refl _) hxz⟩
  · intro e1 e2
    constructor
    · apply S_leaf_intro
      intro z hz
      rcases h1 z hz with h | h
      · rw [hfl, List.mem_append] at h
        rcases h with h | h
        · exact ⟨z, h, S_refl H false z⟩
        · exact S_leaf_elim false e2 z h
      · subst h
        exact S_leaf_elim false (S_never_wf false hs) _ (by simp [flattenT])
    · apply S_leaf_intro
      intro z hz
      rcases h1 z hz with h | h
      · rw [hfl, List.mem_append] at h
        rcases h with h | h
        · exact S_leaf_elim false e1 z h
        · exact ⟨z, h, S_refl H false z⟩
      · subst h
        exact S_leaf_elim false (S_never_wf false ht) _ (by simp [flattenT])


/-- what the laws need from a meet `m` of `x` and `y` -/
structure GoodM (H : Hier) (x y m : Ty) : Prop where
  wf : m.wf H = true
  left : S H false m x = true
  right : S H false m y = true

def JHyp (H : Hier) (J : Ty → Ty → Ty) (B : Nat) : Prop :=
  ∀ x y, Hyp H x → Hyp H y → (x.size + y.size < B ∨ PlainPair H x y) → Good H x y (J x y)

def MHyp (H : Hier) (M : Ty → Ty → Ty) (B : Nat) : Prop :=
  ∀ x y, Hyp H x → Hyp H y → x.size + y.size < B → GoodM H x y (M x y)

/-- `join_instances(t, s)` with a good argument join -/
theorem good_instances (hok : H.Ok) (J : Ty → Ty → Ty) {t s : Ty} {c d : Nat} (ht : Hyp H t) (hs : Hyp H s)
    (hct : t.cls = some c) (hcs : s.cls = some d) {B : Nat} (hB : t.size + s.size ≤ B) (hJ : JHyp H J B) :
    Good H t s (joinInstances H J t s) ∧ ∃ e, (joinInstances H J t s).cls = some e := by
  apply joinInstances_good hok J ht.wf hs.wf hct hcs
  intro x y hxy
  rcases hxy with ⟨h1, h2⟩ | ⟨h1, h2⟩
  · obtain ⟨_, _, hsz⟩ := argOf_pair hok ht.wf hs.wf h1 h2
    exact hJ x y (hyp_argOf hok ht h1) (hyp_argOf hok hs h2) (hsz.imp (fun h => by omega) id)
  · obtain ⟨_, _, hsz⟩ := argOf_pair hok hs.wf ht.wf h1 h2
    exact hJ x y (hyp_argOf hok hs h1) (hyp_argOf hok ht h2) (hsz.imp (fun h => by omega) id)

theorem inst_not_below_noninst (p : Bool) {t x : Ty} {d : Nat} (hd : t.cls = some d) (hx : x.isUnion = false)
    (hxi : x.cls = Option.none) : S H p t x = false := by
  cases h : S H p t x
  · rfl
  · obtain ⟨e, he⟩ := S_inst_right p hd hx h
    rw [hxi] at he; cases he

/-- `visit_instance` -/
theorem joinVisitInstance_good (hok : H.Ok) (J : Ty → Ty → Ty) {s t : Ty} {d : Nat} (hs : Hyp H s) (ht : Hyp H t)
    (hct : t.cls = some d) (hsu : s.isUnion = false) (hJ : JHyp H J (s.size + t.size)) :
    Good H s t (joinVisitInstance H J s t) := by
  have top_good : (S H false t s = true → False) → Good H s t (.inst H.objectC) := fun hv =>
    ⟨wf_obj hok, S_top hok false hs.wf, S_top hok false ht.wf, fun _ e2 => (hv e2).elim⟩
  have htu := (isInstance_of_cls hct).2
  have hsp := Ty.size_pos s
  have htp := Ty.size_pos t
  unfold joinVisitInstance
  cases s with
  | union _ => simp [Ty.isUnion] at hsu
  | never => exact top_good (fun e => by rw [inst_not_below_noninst false hct rfl rfl] at e; cases e)
  | none => exact top_good (fun e => by rw [inst_not_below_noninst false hct rfl rfl] at e; cases e)
  | inst c => exact (good_instances hok J ht hs hct rfl (by omega) hJ).1.symm
  | gen c x => exact (good_instances hok J ht hs hct rfl (by omega) hJ).1.symm
  | callable as r =>
    simp only
    have g := hJ t (.inst H.functionC) ht (hyp_fn hok) (Or.inl (by simp [Ty.size]; omega))
    exact ⟨g.wf, callable_le false g.right, g.left,
      fun _ e2 => by rw [inst_not_below_noninst false hct rfl rfl] at e2; cases e2⟩
  | typeType y =>
    simp only [joinVisitTypeType]
    have hv : S H false t (.typeType y) = true → False := fun e => by
      rw [inst_not_below_noninst false hct rfl rfl] at e; cases e
    cases t with
    | inst c =>
      simp only
      split
      · rename_i hc
        have : c = H.typeC := by simpa using hc
        subst this
        refine ⟨ht.wf, ?_, S_refl H false _, fun _ e2 => (hv e2).elim⟩
        rw [S_atom H false _ _ rfl rfl]; simp [subAtom, subFromTypeType]
      · exact top_good hv
    | gen c x => exact top_good hv
    | never | none | union _ | tuple _ | callable _ _ | lit _ _ | typeType _ => simp [Ty.cls] at hct
  | tuple ss =>
    have hfb := hyp_tupleFallback hok hs
    have g := hJ t (tupleFallback H ss) ht hfb (Or.inl (by have := tupleFallback_size H ss; omega))
    have hv : S H false t (.tuple ss) = true → False := fun e => by
      rw [inst_not_below_noninst false hct rfl rfl] at e; cases e
    have : joinVisitTuple H J t (.tuple ss) ss = J t (tupleFallback H ss) := by
      cases t <;> simp [Ty.cls] at hct <;> rfl
    simp only [this]
    exact ⟨g.wf, tuple_le_fallback hok hs.wf (noFunc_of_nf_not_fn hs.nf (by simp)) g.wf g.right, g.left,
      fun _ e2 => (hv e2).elim⟩
  | lit c v =>
    have g := hJ t (.inst c) ht (hyp_inst_of_lit hs) (Or.inl (by simp [Ty.size]; omega))
    have hv : S H false t (.lit c v) = true → False := fun e => by
      rw [inst_not_below_noninst false hct rfl rfl] at e; cases e
    have : joinVisitLiteral J t (.lit c v) c = J t (.inst c) := by
      cases t <;> simp [Ty.cls] at hct <;> rfl
    simp only [this]
    exact ⟨g.wf, lit_le false g.right, g.left, fun _ e2 => (hv e2).elim⟩


theorem all2_refl (p : Bool) : ∀ xs : List Ty, all2 (S H p) xs xs = true
  | [] => rfl
  | x :: xs => by simp [all2, S_refl, all2_refl p xs]

theorem S_tuple_tuple_iff (p : Bool) (xs ys : List Ty) :
    S H p (.tuple xs) (.tuple ys) = true ↔ xs.length = ys.length ∧ all2 (S H p) xs ys = true := by
  rw [S_atom H p _ _ rfl rfl]
  simp only [Bool.or_eq_true, subAtom, subFromTuple, Bool.and_eq_true, beq_iff_eq]
  constructor
  · rintro (h | h)
    · have : xs = ys := by simpa using h
      subst this; exact ⟨rfl, all2_refl p xs⟩
    · exact h
  · intro h; exact Or.inr h

theorem S_callable_callable_iff (p : Bool) (as bs : List Ty) (r r' : Ty) :
    S H p (.callable as r) (.callable bs r') = true ↔
      S H p r r' = true ∧ as.length = bs.length ∧ all2 (S H p) bs as = true := by
  rw [S_atom H p _ _ rfl rfl]
  simp only [Bool.or_eq_true, subAtom, subFromCallable, Bool.and_eq_true, beq_iff_eq]
  constructor
  · rintro (h | h)
    · have h' : Ty.callable as r = Ty.callable bs r' := by simpa using h
      cases h'
      exact ⟨S_refl H p _, rfl, all2_refl p _⟩
    · exact ⟨h.1.1, h.1.2, h.2⟩
  · intro h; exact Or.inr ⟨⟨h.1, h.2.1⟩, h.2.2⟩

theorem S_typeType_typeType_iff (p : Bool) (x y : Ty) :
    S H p (.typeType x) (.typeType y) = true ↔ S H p x y = true := by
  rw [S_atom H p _ _ rfl rfl]
  simp only [Bool.or_eq_true, subAtom, subFromTypeType]
  constructor
  · rintro (h | h)
    · have h' : Ty.typeType x = Ty.typeType y := by simpa using h
      cases h'; exact S_refl H p _
    · exact h
  · intro h; exact Or.inr h

theorem zipWith2_length (f : Ty → Ty → Ty) : ∀ {xs ys : List Ty}, xs.length = ys.length →
    (zipWith2 f xs ys).length = xs.length
  | [], [], _ => rfl
  | x :: xs, y :: ys, h => by simp [zipWith2, zipWith2_length f (xs := xs) (ys := ys) (by simpa using h)]
  | [], _ :: _, h => by simp at h
  | _ :: _, [], h => by simp at h

/-- `P` holds at every position of two lists of equal length -/
inductive Pos2 (P : Ty → Ty → Prop) : List Ty → List Ty → Prop
  | nil : Pos2 P [] []
  | cons {x y xs ys} : P x y → Pos2 P xs ys → Pos2 P (x :: xs) (y :: ys)

theorem zip_upper {f : Ty → Ty → Ty} {R : Ty → Ty → Bool} : ∀ {xs ys : List Ty}, xs.length = ys.length →
    (∀ x ∈ xs, ∀ y ∈ ys, R x (f x y) = true ∧ R y (f x y) = true) →
    all2 R xs (zipWith2 f xs ys) = true ∧ all2 R ys (zipWith2 f xs ys) = true
  | [], [], _, _ => by simp [zipWith2, all2]
  | x :: xs, y :: ys, hl, h => by
    obtain ⟨a1, a2⟩ := h x (by simp) y (by simp)
    obtain ⟨b1, b2⟩ := zip_upper (f := f) (R := R) (xs := xs) (ys := ys) (by simpa using hl)
      (fun a ha b hb => h a (by simp [ha]) b (by simp [hb]))
    simp [zipWith2, all2, a1, a2, b1, b2]
  | [], _ :: _, h, _ => by simp at h
  | _ :: _, [], h, _ => by simp at h

theorem zip_lower {f : Ty → Ty → Ty} {R : Ty → Ty → Bool} {P : Ty → Ty → Prop} : ∀ {xs ys : List Ty},
    Pos2 P xs ys →
    (∀ x ∈ xs, ∀ y ∈ ys, P x y → R (f x y) x = true ∧ R (f x y) y = true) →
    all2 R (zipWith2 f xs ys) xs = true ∧ all2 R (zipWith2 f xs ys) ys = true
  | [], [], _, _ => by simp [zipWith2, all2]
  | x :: xs, y :: ys, hp, h => by
    cases hp with
    | cons hxy hrest =>
      obtain ⟨a1, a2⟩ := h x (by simp) y (by simp) hxy
      obtain ⟨b1, b2⟩ := zip_lower (f := f) (R := R) (P := P) hrest
        (fun a ha b hb => h a (by simp [ha]) b (by simp [hb]))
      simp [zipWith2, all2, a1, a2, b1, b2]
  | [], _ :: _, hp, _ => by cases hp
  | _ :: _, [], hp, _ => by cases hp

theorem forall2_true : ∀ {xs ys : List Ty}, xs.length = ys.length → Pos2 (fun _ _ => True) xs ys
  | [], [], _ => Pos2.nil
  | _ :: xs, _ :: ys, h => Pos2.cons trivial (forall2_true (by simpa using h))
  | [], _ :: _, h => by simp at h
  | _ :: _, [], h => by simp at h

theorem forall2_of_all2 {R1 R2 : Ty → Ty → Bool} : ∀ {xs ys : List Ty}, xs.length = ys.length →
    all2 R1 xs ys = true → all2 R2 ys xs = true → Pos2 (fun x y => R1 x y = true ∧ R2 y x = true) xs ys
  | [], [], _, _, _ => Pos2.nil
  | x :: xs, y :: ys, h, h1, h2 => by
    simp [all2] at h1 h2
    exact Pos2.cons ⟨h1.1, h2.1⟩ (forall2_of_all2 (by simpa using h) h1.2 h2.2)
  | [], _ :: _, h, _, _ => by simp at h
  | _ :: _, [], h, _, _ => by simp at h

theorem wfL_zipWith2 {f : Ty → Ty → Ty} : ∀ {xs ys : List Ty},
    (∀ x ∈ xs, ∀ y ∈ ys, (f x y).wf H = true) → wfL H (zipWith2 f xs ys) = true
  | [], _, _ => by simp [zipWith2, wfL]
  | _ :: _, [], _ => by simp [zipWith2, wfL]
  | x :: xs, y :: ys, h => by
    simp only [zipWith2, wfL, Bool.and_eq_true]
    exact ⟨h x (by simp) y (by simp), wfL_zipWith2 (fun a ha b hb => h a (by simp [ha]) b (by simp [hb]))⟩


/-- `visit_tuple_type` -/
theorem joinVisitTuple_good (hok : H.Ok) (J : Ty → Ty → Ty) {s : Ty} {ts : List Ty} (hs : Hyp H s)
    (ht : Hyp H (.tuple ts)) (hsu : s.isUnion = false) (hJ : JHyp H J (s.size + (Ty.tuple ts).size)) :
    Good H s (.tuple ts) (joinVisitTuple H J s (.tuple ts) ts) := by
  have htn := noFunc_of_nf_not_fn ht.nf (by simp)
  have hfbt := hyp_tupleFallback hok ht
  have hsp := Ty.size_pos s
  -- the fallback route for a non-tuple `s`
  have viaFb : (∀ xs, s ≠ .tuple xs) → Good H s (.tuple ts) (J s (tupleFallback H ts)) := by
    intro hne
    have g := hJ s (tupleFallback H ts) hs hfbt (Or.inl (by have := tupleFallback_size H ts; omega))
    refine ⟨g.wf, g.left, tuple_le_fallback hok ht.wf htn g.wf g.right, ?_⟩
    intro e1 e2
    rcases below_tuple false hsu e1 with h | ⟨xs, h, _⟩
    · subst h
      have := below_never false rfl e2
      cases this
    · exact absurd h (hne xs)
  unfold joinVisitTuple
  cases s with
  | union _ => simp [Ty.isUnion] at hsu
  | never => exact viaFb (by intro xs h; cases h)
  | none => exact viaFb (by intro xs h; cases h)
  | inst _ => exact viaFb (by intro xs h; cases h)
  | gen _ _ => exact viaFb (by intro xs h; cases h)
  | callable _ _ => exact viaFb (by intro xs h; cases h)
  | lit _ _ => exact viaFb (by intro xs h; cases h)
  | typeType _ => exact viaFb (by intro xs h; cases h)
  | tuple ss =>
    simp only
    have hsn := noFunc_of_nf_not_fn hs.nf (by simp)
    have hfbs := hyp_tupleFallback hok hs
    split
    · -- same length: itemwise
      rename_i hlen
      have hlen : ss.length = ts.length := by simpa using hlen
      have hitem : ∀ x ∈ ts, ∀ y ∈ ss, Good H x y (J x y) := by
        intro x hx y hy
        have := size_le_sizeL hx; have := size_le_sizeL hy
        exact hJ x y (hyp_tuple_item ht x hx) (hyp_tuple_item hs y hy) (Or.inl (by simp [Ty.size]; omega))
      have hzl := zipWith2_length J hlen.symm
      obtain ⟨u1, u2⟩ := zip_upper (f := J) (R := S H false) (xs := ts) (ys := ss) hlen.symm
        (fun x hx y hy => ⟨(hitem x hx y hy).left, (hitem x hx y hy).right⟩)
      refine ⟨?_, ?_, ?_, ?_⟩
      · simp only [Ty.wf]
        exact wfL_zipWith2 (fun x hx y hy => (hitem x hx y hy).wf)
      · rw [S_tuple_tuple_iff]; exact ⟨by omega, u2⟩
      · rw [S_tuple_tuple_iff]; exact ⟨by omega, u1⟩
      · intro e1 e2
        rw [S_tuple_tuple_iff] at e1 e2
        obtain ⟨l1, l2⟩ := zip_lower (f := J) (R := S H false) (forall2_of_all2 hlen.symm e2.2 e1.2)
          (fun x hx y hy hp => (hitem x hx y hy).equiv hp.1 hp.2)
        constructor
        · rw [S_tuple_tuple_iff]; exact ⟨by omega, l2⟩
        · rw [S_tuple_tuple_iff]; exact ⟨by omega, l1⟩
    · rename_i hlen
      have hlen : ss.length ≠ ts.length := by simpa using hlen
      split
      · rename_i hp
        exact ⟨ht.wf, proper_imp_S H _ _ _ (Nat.le_refl _) hp, S_refl H false _, fun _ e2 => ⟨e2, S_refl H false _⟩⟩
      · split
        · rename_i hp
          exact ⟨hs.wf, S_refl H false _, proper_imp_S H _ _ _ (Nat.le_refl _) hp, fun e1 _ => ⟨S_refl H false _, e1⟩⟩
        · have h1 := tupleFallback_size H ss
          have h2 := tupleFallback_size H ts
          obtain ⟨g, _⟩ := good_instances hok J hfbs hfbt (c := H.tupleC) (d := H.tupleC) rfl rfl
            (B := (Ty.tuple ss).size + (Ty.tuple ts).size) (by omega) hJ
          refine ⟨g.wf, tuple_le_fallback hok hs.wf hsn g.wf g.left, tuple_le_fallback hok ht.wf htn g.wf g.right, ?_⟩
          intro e1 _
          rw [S_tuple_tuple_iff] at e1
          exact absurd e1.1 hlen


theorem wf_callable_mk {xs : List Ty} {r : Ty} (h1 : wfL H xs = true) (h2 : r.wf H = true) :
    (Ty.callable xs r).wf H = true := by simp [Ty.wf, h1, h2]

/-- `visit_callable_type` -/
theorem joinVisitCallable_good (hok : H.Ok) (J M : Ty → Ty → Ty) {s : Ty} {bs : List Ty} {ret : Ty} (hs : Hyp H s)
    (ht : Hyp H (.callable bs ret)) (hsu : s.isUnion = false)
    (hJ : JHyp H J (s.size + (Ty.callable bs ret).size)) (hM : MHyp H M (s.size + (Ty.callable bs ret).size)) :
    Good H s (.callable bs ret) (joinVisitCallable H J M s (.callable bs ret) bs ret) := by
  have hsp := Ty.size_pos s
  have htc := hyp_callable ht
  -- the fallback route: join(function, s)
  have viaFn : (S H false s (.callable bs ret) = true → S H false (.callable bs ret) s = true → False) →
      Good H s (.callable bs ret) (J (.inst H.functionC) s) := by
    intro hv
    have g := hJ (.inst H.functionC) s (hyp_fn hok) hs (Or.inl (by simp [Ty.size]; omega))
    exact ⟨g.wf, g.right, callable_le false g.left, fun e1 e2 => (hv e1 e2).elim⟩
  have nonCallable : (∀ as r, s ≠ .callable as r) → Good H s (.callable bs ret) (J (.inst H.functionC) s) := by
    intro hne
    apply viaFn
    intro e1 e2
    rcases below_callable false hsu e1 with h | ⟨x', h⟩ | ⟨as, r, h, _⟩
    · subst h; have := below_never false rfl e2; cases this
    · subst h
      rcases below_typeType false rfl e2 with h | ⟨_, h, _⟩ <;> cases h
    · exact hne as r h
  unfold joinVisitCallable
  cases s with
  | union _ => simp [Ty.isUnion] at hsu
  | never => exact nonCallable (by intro _ _ h; cases h)
  | none => exact nonCallable (by intro _ _ h; cases h)
  | inst _ => exact nonCallable (by intro _ _ h; cases h)
  | gen _ _ => exact nonCallable (by intro _ _ h; cases h)
  | tuple _ => exact nonCallable (by intro _ _ h; cases h)
  | lit _ _ => exact nonCallable (by intro _ _ h; cases h)
  | typeType _ => exact nonCallable (by intro _ _ h; cases h)
  | callable as ret' =>
    simp only
    have hsc := hyp_callable hs
    have hret : Good H ret ret' (J ret ret') :=
      hJ ret ret' htc.2 hsc.2 (Or.inl (by simp [Ty.size]; omega))
    have hitemJ : ∀ x ∈ bs, ∀ y ∈ as, Good H x y (J x y) := by
      intro x hx y hy
      have := size_le_sizeL hx; have := size_le_sizeL hy
      exact hJ x y (htc.1 x hx) (hsc.1 y hy) (Or.inl (by simp [Ty.size]; omega))
    have hitemM : ∀ x ∈ bs, ∀ y ∈ as, GoodM H x y (M x y) := by
      intro x hx y hy
      have := size_le_sizeL hx; have := size_le_sizeL hy
      exact hM x y (htc.1 x hx) (hsc.1 y hy) (by simp [Ty.size]; omega)
    split
    · rename_i hlen
      have hlen : bs.length = as.length := by simpa using hlen
      split
      · -- equivalent callables: combine_similar_callables
        rename_i heq
        obtain ⟨e1, e2⟩ := (isEquivalent_iff _ _).1 heq
        rw [S_callable_callable_iff] at e1 e2
        -- e1 : t ≤ s, e2 : s ≤ t
        have hpos : Pos2 (fun x y => S H false x y = true ∧ S H false y x = true) bs as :=
          forall2_of_all2 hlen e2.2.2 e1.2.2
        obtain ⟨l1, l2⟩ := zip_lower (f := J) (R := S H false) hpos
          (fun x hx y hy hp => (hitemJ x hx y hy).equiv hp.1 hp.2)
        obtain ⟨u1, u2⟩ := zip_upper (f := J) (R := S H false) (xs := bs) (ys := as) hlen
          (fun x hx y hy => ⟨(hitemJ x hx y hy).left, (hitemJ x hx y hy).right⟩)
        have hzl := zipWith2_length J hlen
        obtain ⟨q1, q2⟩ := hret.equiv e1.1 e2.1
        refine ⟨wf_callable_mk (wfL_zipWith2 (fun x hx y hy => (hitemJ x hx y hy).wf)) hret.wf, ?_, ?_, ?_⟩
        · rw [S_callable_callable_iff]; exact ⟨hret.right, by omega, l2⟩
        · rw [S_callable_callable_iff]; exact ⟨hret.left, by omega, l1⟩
        · intro _ _
          constructor
          · rw [S_callable_callable_iff]; exact ⟨q2, by omega, u2⟩
          · rw [S_callable_callable_iff]; exact ⟨q1, by omega, u1⟩
      · rename_i hneq
        have hv : S H false (.callable as ret') (.callable bs ret) = true →
            S H false (.callable bs ret) (.callable as ret') = true → False := by
          intro e1 e2
          exact hneq ((isEquivalent_iff _ _).2 ⟨e2, e1⟩)
        split
        · exact viaFn hv
        · -- join_similar_callables: meet of the parameters, join of the returns
          have hzl := zipWith2_length M hlen
          obtain ⟨l1, l2⟩ := zip_lower (f := M) (R := S H false) (forall2_true hlen)
            (fun x hx y hy _ => ⟨(hitemM x hx y hy).left, (hitemM x hx y hy).right⟩)
          refine ⟨wf_callable_mk (wfL_zipWith2 (fun x hx y hy => (hitemM x hx y hy).wf)) hret.wf, ?_, ?_,
            fun e1 e2 => (hv e1 e2).elim⟩
          · rw [S_callable_callable_iff]; exact ⟨hret.right, by omega, l2⟩
          · rw [S_callable_callable_iff]; exact ⟨hret.left, by omega, l1⟩
    · split
      · rename_i hst
        exact ⟨ht.wf, hst, S_refl H false _, fun _ e2 => ⟨e2, S_refl H false _⟩⟩
      · split
        · rename_i hts
          exact ⟨hs.wf, S_refl H false _, hts, fun e1 _ => ⟨S_refl H false _, e1⟩⟩
        · rename_i hst _
          exact viaFn (fun e1 _ => hst e1)


/-- `visit_literal_type` -/
theorem joinVisitLiteral_good (hok : H.Ok) (J : Ty → Ty → Ty) {s : Ty} {c v : Nat} (hs : Hyp H s)
    (ht : Hyp H (.lit c v)) (hsu : s.isUnion = false) (hJ : JHyp H J (s.size + (Ty.lit c v).size)) :
    Good H s (.lit c v) (joinVisitLiteral J s (.lit c v) c) := by
  have hsp := Ty.size_pos s
  have _ := hok
  have nonLit : (∀ c' v', s ≠ .lit c' v') → Good H s (.lit c v) (J s (.inst c)) := by
    intro hne
    have g := hJ s (.inst c) hs (hyp_inst_of_lit ht) (Or.inl (by simp [Ty.size]))
    refine ⟨g.wf, g.left, lit_le false g.right, ?_⟩
    intro e1 e2
    rcases below_lit false hsu e1 with h | h
    · subst h; have := below_never false rfl e2; cases this
    · exact absurd h (hne c v)
  unfold joinVisitLiteral
  cases s with
  | union _ => simp [Ty.isUnion] at hsu
  | never => exact nonLit (by intro _ _ h; cases h)
  | none => exact nonLit (by intro _ _ h; cases h)
  | inst _ => exact nonLit (by intro _ _ h; cases h)
  | gen _ _ => exact nonLit (by intro _ _ h; cases h)
  | tuple _ => exact nonLit (by intro _ _ h; cases h)
  | callable _ _ => exact nonLit (by intro _ _ h; cases h)
  | typeType _ => exact nonLit (by intro _ _ h; cases h)
  | lit c' v' =>
    simp only
    split
    · rename_i heq
      have : Ty.lit c' v' = Ty.lit c v := by simpa using heq
      cases this
      exact ⟨ht.wf, S_refl H false _, S_refl H false _, fun _ _ => ⟨S_refl H false _, S_refl H false _⟩⟩
    · rename_i hne
      have g := hJ (.inst c') (.inst c) (hyp_inst_of_lit hs) (hyp_inst_of_lit ht) (Or.inl (by simp [Ty.size]))
      refine ⟨g.wf, lit_le false g.left, lit_le false g.right, ?_⟩
      intro e1 _
      rcases below_lit false rfl e1 with h | h
      · cases h
      · exact absurd (by rw [h]; exact beq_self_eq_true _) hne

/-- `visit_type_type` -/
theorem joinVisitTypeType_good (hok : H.Ok) (J : Ty → Ty → Ty) {s y : Ty} (hs : Hyp H s)
    (ht : Hyp H (.typeType y)) (hsu : s.isUnion = false) (hJ : JHyp H J (s.size + (Ty.typeType y).size)) :
    Good H s (.typeType y) (joinVisitTypeType H J s y) := by
  have hsp := Ty.size_pos s
  have hyu := (wf_typeType ht.wf).2
  have top_good : (∀ x, s ≠ .typeType x) → Good H s (.typeType y) (.inst H.objectC) := by
    intro hne
    refine ⟨wf_obj hok, S_top hok false hs.wf, S_top hok false ht.wf, ?_⟩
    intro e1 e2
    rcases below_typeType false hsu e1 with h | ⟨x', h, _⟩
    · subst h; have := below_never false rfl e2; cases this
    · exact absurd h (hne x')
  unfold joinVisitTypeType
  cases s with
  | union _ => simp [Ty.isUnion] at hsu
  | never => exact top_good (by intro _ h; cases h)
  | none => exact top_good (by intro _ h; cases h)
  | gen _ _ => exact top_good (by intro _ h; cases h)
  | tuple _ => exact top_good (by intro _ h; cases h)
  | callable _ _ => exact top_good (by intro _ h; cases h)
  | lit _ _ => exact top_good (by intro _ h; cases h)
  | inst c =>
    simp only
    split
    · rename_i hc
      have : c = H.typeC := by simpa using hc
      subst this
      refine ⟨hs.wf, S_refl H false _, ?_, ?_⟩
      · rw [S_atom H false _ _ rfl rfl]; simp [subAtom, subFromTypeType]
      · intro e1 _
        rcases below_typeType false rfl e1 with h | ⟨_, h, _⟩ <;> cases h
    · exact top_good (by intro _ h; cases h)
  | typeType x =>
    simp only
    have hxu := (wf_typeType hs.wf).2
    have g := hJ y x (hyp_typeType_item ht) (hyp_typeType_item hs) (Or.inl (by simp [Ty.size]; omega))
    refine ⟨normType_wf g.wf, normType_upper false hxu g.right, normType_upper false hyu g.left, ?_⟩
    intro e1 e2
    rw [S_typeType_typeType_iff] at e1 e2
    obtain ⟨q1, q2⟩ := g.equiv e2 e1
    exact ⟨normType_lower false q2, normType_lower false q1⟩


theorem trueOrFalse_nonunion {t : Ty} (h : t.isUnion = false) : trueOrFalse H t = t := by
  cases t <;> simp [Ty.isUnion] at h <;> rfl

/-- whatever the re-simplified type is below, the original is below -/
theorem tof_up (hok : H.Ok) {s r : Ty} (hs : Hyp H s) (hr : r.wf H = true)
    (h : S H false (trueOrFalse H s) r = true) : S H false s r = true := by
  cases s with
  | union is =>
    simp only [trueOrFalse] at h
    have hw := (wf_union hs.wf).1
    exact cover_trans hok hs.wf (simplify_wf hok is hw) hr (noFunc_of_nf_not_fn hs.nf (by simp))
      (fun x hx => (simplify_spec hok is hw).2.2 x (by simpa [flattenT] using hx)) h
  | never | none | inst _ | gen _ _ | tuple _ | callable _ _ | lit _ _ | typeType _ => exact h

/-- whatever is below the re-simplified type is below the original -/
theorem tof_down (hok : H.Ok) {s r : Ty} (hs : Hyp H s) (h : S H false r (trueOrFalse H s) = true) :
    S H false r s = true := by
  cases s with
  | union is =>
    simp only [trueOrFalse] at h
    have hw := (wf_union hs.wf).1
    apply S_leaf_intro
    intro x hx
    obtain ⟨w, hw', hxw⟩ := S_leaf_elim false h x hx
    rcases (simplify_spec hok is hw).1 w hw' with hm | hm
    · exact ⟨w, by simpa [flattenT] using hm, hxw⟩
    · subst hm
      have := below_never false (flattenT_not_union r x hx) hxw
      subst this
      exact S_leaf_elim false (S_never_wf false hs.wf) _ (by simp [flattenT])
  | never | none | inst _ | gen _ _ | tuple _ | callable _ _ | lit _ _ | typeType _ => exact h

theorem tof_leaves (hok : H.Ok) {s : Ty} (hs : Hyp H s) :
    (∀ z ∈ flattenT (trueOrFalse H s), z ∈ flattenT s ∨ z = .never) ∧
    (∀ x ∈ flattenT s, ∃ w ∈ flattenT (trueOrFalse H s), S H true x w = true) ∧
    (s.isUnion = true → (trueOrFalse H s).noFunc H = true) := by
  cases s with
  | union is =>
    simp only [trueOrFalse]
    have hw := (wf_union hs.wf).1
    obtain ⟨h1, _, h3⟩ := simplify_spec hok is hw
    refine ⟨fun z hz => by simpa [flattenT] using h1 z hz, fun x hx => h3 x (by simpa [flattenT] using hx), fun _ => ?_⟩
    exact simplify_pred noFunc_leafPred is
      (noFuncL_iff.1 (by simpa [Ty.noFunc] using noFunc_of_nf_not_fn hs.nf (by simp)))
  | never | none | inst _ | gen _ _ | tuple _ | callable _ _ | lit _ _ | typeType _ =>
    simp only [trueOrFalse]
    exact ⟨fun z hz => Or.inl hz, fun x hx => ⟨x, hx, S_refl H true x⟩, fun h => by simp [Ty.isUnion] at h⟩

theorem tof_mono (hok : H.Ok) {s t : Ty} (hs : Hyp H s) (ht : Hyp H t) (h : S H false s t = true) :
    S H false (trueOrFalse H s) (trueOrFalse H t) = true := by
  obtain ⟨s1, _, _⟩ := tof_leaves hok hs
  obtain ⟨_, t2, t3⟩ := tof_leaves hok ht
  have hws := (hyp_trueOrFalse hok hs).wf
  have hwt := (hyp_trueOrFalse hok ht).wf
  apply S_leaf_intro
  intro z hz
  have hzw := flattenT_wf _ hws z hz
  -- z ≤ some leaf of t
  have hzt : ∃ y ∈ flattenT t, S H false z y = true := by
    rcases s1 z hz with hm | hm
    · exact S_leaf_elim false h z hm
    · subst hm
      exact S_leaf_elim false (S_never_wf false ht.wf) _ (by simp [flattenT])
  obtain ⟨y, hy, hzy⟩ := hzt
  obtain ⟨w, hw, hyw⟩ := t2 y hy
  refine ⟨w, hw, ?_⟩
  by_cases htu : t.isUnion = true
  · exact trans_fp hok hzw (flattenT_wf t ht.wf y hy) (flattenT_wf _ hwt w hw)
      (flattenT_noFunc _ (t3 htu) w hw) hzy hyw
  · have htu : t.isUnion = false := by simpa using htu
    rw [trueOrFalse_nonunion htu, flattenT_of_not_union htu] at hw
    rw [flattenT_of_not_union htu] at hy
    simp at hw hy
    subst hw hy
    exact hzy


/-- the join visitor yields a good join (operands in the order left by the swaps of `join_types`) -/
theorem joinVisit_good (hok : H.Ok) (J M : Ty → Ty → Ty) {s t : Ty} (hs : Hyp H s) (ht : Hyp H t)
    (hsw : s.isUnion = true → t.isUnion = true ∨ t.isNone = true ∨ t.isNever = true)
    (hJ : JHyp H J (s.size + t.size)) (hM : MHyp H M (s.size + t.size)) :
    Good H s t (joinVisit H J M s t) := by
  have hsu : t.isUnion = false → t.isNone = false → t.isNever = false → s.isUnion = false := by
    intro h1 h2 h3
    cases hs' : s.isUnion
    · rfl
    · rcases hsw hs' with h | h | h <;> simp_all
  cases t with
  | union ts =>
    simp only [joinVisit]
    split
    · rename_i hp
      exact ⟨ht.wf, proper_imp_S H _ _ _ (Nat.le_refl _) hp, S_refl H false _, fun _ e2 => ⟨e2, S_refl H false _⟩⟩
    · exact simplify2_good hok hs.wf ht.wf
  | none =>
    simp only [joinVisit]
    split
    · rename_i hc
      refine ⟨ht.wf, ?_, S_refl H false _, fun _ e2 => ⟨e2, S_refl H false _⟩⟩
      cases s <;> simp [Ty.isNone, Ty.isNever] at hc
      · exact S_never_wf false ht.wf
      · exact S_refl H false _
    · exact simplify2_good hok hs.wf ht.wf
  | never =>
    simp only [joinVisit]
    exact ⟨hs.wf, S_refl H false _, S_never_wf false hs.wf, fun e1 _ => ⟨S_refl H false _, e1⟩⟩
  | inst c => exact joinVisitInstance_good hok J hs ht rfl (hsu rfl rfl rfl) hJ
  | gen c x => exact joinVisitInstance_good hok J hs ht rfl (hsu rfl rfl rfl) hJ
  | tuple ts => exact joinVisitTuple_good hok J hs ht (hsu rfl rfl rfl) hJ
  | callable bs ret => exact joinVisitCallable_good hok J M hs ht (hsu rfl rfl rfl) hJ hM
  | lit c v => exact joinVisitLiteral_good hok J hs ht (hsu rfl rfl rfl) hJ
  | typeType y => exact joinVisitTypeType_good hok J hs ht (hsu rfl rfl rfl) hJ

/-- the operand swaps: the result is one of the two orders, and a union never ends up left of a type that
    is not a union, None or Never -/
theorem joinSwap_cases (s t : Ty) :
    (joinSwap s t = (s, t) ∨ joinSwap s t = (t, s)) ∧
    ((joinSwap s t).1.isUnion = true →
      (joinSwap s t).2.isUnion = true ∨ (joinSwap s t).2.isNone = true ∨ (joinSwap s t).2.isNever = true) := by
  unfold joinSwap
  cases s <;> cases t <;> simp [Ty.isUnion, Ty.isNone, Ty.isNever]

theorem Good.of_swap {s t a b j : Ty} (h : (a, b) = (s, t) ∨ (a, b) = (t, s)) (g : Good H a b j) : Good H s t j := by
  rcases h with h | h
  · cases h; exact g
  · cases h; exact g.symm

/-- one unfolding of `join_types` with good recursive calls is a good join -/
theorem joinStep_good (hok : H.Ok) (J M : Ty → Ty → Ty) {s t : Ty} (hs : Hyp H s) (ht : Hyp H t)
    (hJ : JHyp H J (s.size + t.size)) (hM : MHyp H M (s.size + t.size)) :
    Good H s t (joinStep H J M s t) := by
  simp only [joinStep]
  -- after the swaps
  have main : ∀ s1 t1, Hyp H s1 → Hyp H t1 → s1.size + t1.size ≤ s.size + t.size →
      Good H s1 t1 (joinVisit H J M (joinSwap s1 t1).1 (joinSwap s1 t1).2) := by
    intro s1 t1 h1 h2 hsz
    obtain ⟨hc, hsw⟩ := joinSwap_cases s1 t1
    have hsize := joinSwap_size s1 t1
    have hh : Hyp H (joinSwap s1 t1).1 ∧ Hyp H (joinSwap s1 t1).2 := by
      rcases hc with hc | hc <;> rw [hc] <;> simp [h1, h2]
    have g := joinVisit_good hok J M hh.1 hh.2 hsw
      (fun x y hx hy h => hJ x y hx hy (h.imp (fun h => by omega) id))
      (fun x y hx hy h => hM x y hx hy (by omega))
    exact Good.of_swap (by rcases hc with hc | hc <;> rw [hc] <;> simp) g
  unfold joinTruthiness
  split
  · -- truthiness differs: both operands are re-simplified
    have h1 := hyp_trueOrFalse hok hs
    have h2 := hyp_trueOrFalse hok ht
    have g := main _ _ h1 h2 (by have := trueOrFalse_size H s; have := trueOrFalse_size H t; omega)
    simp only at g ⊢
    refine ⟨g.wf, tof_up hok hs g.wf g.left, tof_up hok ht g.wf g.right, ?_⟩
    intro e1 e2
    obtain ⟨q1, q2⟩ := g.equiv (tof_mono hok hs ht e1) (tof_mono hok ht hs e2)
    exact ⟨tof_down hok hs q1, tof_down hok ht q2⟩
  · exact main s t hs ht (Nat.le_refl _)


end Types
