import MypyVerif.Proofs.LangNarrow
/-
The state invariant of the interpreter (`Inv`: heap consistent, probe log typed by the checker's type map),
the Hoare-style predicate `Sat` on computations of the state/failure monad with its bind rule, and the
specifications of the primitive operations (variable read, attribute read/write, allocation, probe,
isinstance, dynamic method lookup).
-/
namespace Lang

/-- every logged probe value is a member of a type the checker recorded for that probe -/
def LogOK (P : Prog) (tm : Recs) (st : State) : Prop :=
  ∀ k v, (k, v) ∈ st.log → ∃ T, (k, T) ∈ tm ∧ hasTy P st.heap v T

def Inv (P : Prog) (tm : Recs) (st : State) : Prop := HeapOK P st.heap ∧ LogOK P tm st

/-- failures the property does not speak about -/
def Benign : Fail → Prop
  | .unbound => True
  | .timeout => True
  | .exc _ => True
  | _ => False

def Post {α : Type} (P : Prog) (tm : Recs) (st : State) (Q : State → α → Prop) : Except Fail α × State → Prop
  | (.ok a, st') => Inv P tm st' ∧ Ext st.heap st'.heap ∧ Q st' a
  | (.error f, st') => Inv P tm st' ∧ Ext st.heap st'.heap ∧ Benign f

/-- from a state satisfying the invariant, `m` keeps the invariant, only extends the heap, never fails with a
    type/attribute error, and its result satisfies `Q` in the final state -/
def Sat {α : Type} (P : Prog) (tm : Recs) (st : State) (m : M α) (Q : State → α → Prop) : Prop :=
  Inv P tm st → Post P tm st Q (m st)

variable {P : Prog} {tm : Recs}

theorem sat_pure {α : Type} {st : State} {a : α} {Q : State → α → Prop} (h : Q st a) : Sat P tm st (M.pure a) Q :=
  fun hi => ⟨hi, Ext.refl _, h⟩

theorem sat_fail {α : Type} {st : State} {f : Fail} {Q : State → α → Prop} (h : Benign f) : Sat P tm st (M.fail f) Q :=
  fun hi => ⟨hi, Ext.refl _, h⟩

theorem sat_bind {α β : Type} {st : State} {m : M α} {f : α → M β} {Q : State → α → Prop} {R : State → β → Prop}
    (h1 : Sat P tm st m Q) (h2 : ∀ st1 a, Ext st.heap st1.heap → Q st1 a → Sat P tm st1 (f a) R) :
    Sat P tm st (M.bind m f) R := by
  intro hi
  have p1 := h1 hi
  unfold M.bind
  cases hm : m st with
  | mk r st1 =>
    rw [hm] at p1
    cases r with
    | error e => exact p1
    | ok a =>
      obtain ⟨hi1, he1, hq⟩ := p1
      have p2 := h2 st1 a he1 hq hi1
      simp only
      cases hf : f a st1 with
      | mk r2 st2 =>
        rw [hf] at p2
        cases r2 with
        | error e => exact ⟨p2.1, he1.trans p2.2.1, p2.2.2⟩
        | ok b => exact ⟨p2.1, he1.trans p2.2.1, p2.2.2⟩

theorem sat_mono {α : Type} {st : State} {m : M α} {Q Q' : State → α → Prop}
    (h : Sat P tm st m Q) (hq : ∀ st' a, Ext st.heap st'.heap → Q st' a → Q' st' a) : Sat P tm st m Q' := by
  intro hi
  have p := h hi
  cases hm : m st with
  | mk r st1 =>
    rw [hm] at p
    cases r with
    | error e => exact p
    | ok a => exact ⟨p.1, p.2.1, hq _ _ p.2.1 p.2.2⟩

/-- an expression evaluated inside a statement: its Python-level failures become the statement's outcome -/
theorem sat_liftE {α : Type} {st : State} {σ : Store} {m : M α} {f : α → M Ctl} {Q : State → α → Prop}
    {R : State → Ctl → Prop}
    (h1 : Sat P tm st m Q) (h2 : ∀ st1 a, Ext st.heap st1.heap → Q st1 a → Sat P tm st1 (f a) R)
    (h3 : ∀ st1 e, Ext st.heap st1.heap → Benign e → R st1 (.exc e σ)) :
    Sat P tm st (liftE σ m f) R := by
  intro hi
  have p1 := h1 hi
  unfold liftE
  cases hm : m st with
  | mk r st1 =>
    rw [hm] at p1
    cases r with
    | error e =>
      obtain ⟨hi1, he1, hb⟩ := p1
      cases e with
      | timeout => exact ⟨hi1, he1, trivial⟩
      | stuck => exact absurd hb (by simp [Benign])
      | typeError => exact absurd hb (by simp [Benign])
      | attrError => exact absurd hb (by simp [Benign])
      | unbound => exact ⟨hi1, he1, h3 st1 _ he1 trivial⟩
      | exc k => exact ⟨hi1, he1, h3 st1 _ he1 trivial⟩
    | ok a =>
      obtain ⟨hi1, he1, hq⟩ := p1
      have p2 := h2 st1 a he1 hq hi1
      simp only
      cases hf : f a st1 with
      | mk r2 st2 =>
        rw [hf] at p2
        cases r2 with
        | error e => exact ⟨p2.1, he1.trans p2.2.1, p2.2.2⟩
        | ok b => exact ⟨p2.1, he1.trans p2.2.1, p2.2.2⟩

/-! ## Primitive operations -/

theorem sat_readVar {st : State} {σ : Store} {x : Nat} :
    Sat P tm st (readVar σ x) (fun st' v => st' = st ∧ getVar σ x = some v) := by
  unfold readVar
  cases h : getVar σ x with
  | none => exact sat_fail trivial
  | some v => exact sat_pure ⟨rfl, rfl⟩

theorem attrTys_mem {f : Nat} : ∀ {T : Ty} {ts : List Ty}, attrTys P f T = .ok ts →
    ∀ a ∈ T, ∃ d Tf, a = .cls d ∧ lookupAttr P d f = some Tf ∧ Tf ∈ ts := by
  intro T
  induction T with
  | nil => intro ts _ a ha; simp at ha
  | cons b r ih =>
    intro ts h a ha
    cases b with
    | cls d =>
      simp only [attrTys] at h
      cases hl : lookupAttr P d f with
      | none => rw [hl] at h; simp at h
      | some Tf =>
        rw [hl] at h
        simp only [bind_ok, pure_ok] at h
        obtain ⟨rest, hrest, hts⟩ := h
        subst hts
        simp at ha
        rcases ha with rfl | ha
        · exact ⟨d, Tf, rfl, hl, by simp⟩
        · obtain ⟨d', Tf', h1, h2, h3⟩ := ih hrest a ha
          exact ⟨d', Tf', h1, h2, List.mem_cons_of_mem _ h3⟩
    | _ => simp [attrTys] at h

theorem methSigs_mem {m : Nat} : ∀ {T : Ty} {sigs : List FuncDef}, methSigs P m T = .ok sigs →
    ∀ a ∈ T, ∃ d k fd, a = .cls d ∧ lookupMeth P d m = some (k, fd) ∧ fd ∈ sigs := by
  intro T
  induction T with
  | nil => intro ts _ a ha; simp at ha
  | cons b r ih =>
    intro ts h a ha
    cases b with
    | cls d =>
      simp only [methSigs] at h
      cases hl : lookupMeth P d m with
      | none => rw [hl] at h; simp at h
      | some kf =>
        obtain ⟨k, fd⟩ := kf
        rw [hl] at h
        simp only [bind_ok, pure_ok] at h
        obtain ⟨rest, hrest, hts⟩ := h
        subst hts
        simp at ha
        rcases ha with rfl | ha
        · exact ⟨d, k, fd, rfl, hl, by simp⟩
        · obtain ⟨d', k', fd', h1, h2, h3⟩ := ih hrest a ha
          exact ⟨d', k', fd', h1, h2, List.mem_cons_of_mem _ h3⟩
    | _ => simp [methSigs] at h

theorem classOf_some {h : Heap} {l c : Nat} (hc : classOf h l = some c) : ∃ o, h[l]? = some o ∧ o.cls = c := by
  unfold classOf at hc
  cases ho : h[l]? with
  | none => simp [ho] at hc
  | some o => simp [ho] at hc; exact ⟨o, rfl, hc⟩

/-- `e.f` on a well-typed receiver: no AttributeError, the value has the declared type -/
theorem sat_getAttr (w : WF P) {st : State} {v : Val} {f : Nat} {T : Ty} {ts : List Ty}
    (hv : hasTy P st.heap v T) (ht : attrTys P f T = .ok ts) :
    Sat P tm st (getAttr v f) (fun st' r => hasTy P st'.heap r (joinResults P ts)) := by
  intro hi
  obtain ⟨a, ha, hva⟩ := hv
  obtain ⟨d, Tf, rfl, hl, hTf⟩ := attrTys_mem ht a ha
  cases v <;> simp [hasAtom] at hva
  next l =>
  obtain ⟨c, hc, hsub⟩ := hva
  obtain ⟨o, ho, hoc⟩ := classOf_some hc
  obtain ⟨_, hfields⟩ := hi.1 l o ho
  have hl' := lookupAttr_sub w c d f Tf hsub hl
  rw [← hoc] at hl'
  obtain ⟨r, hr, hrt⟩ := hfields f Tf hl'
  simp only [getAttr, ho, hr, Post]
  exact ⟨hi, Ext.refl _, joinResults_sound w hTf hrt⟩

theorem classOf_set {h : Heap} {l : Nat} {o o' : Obj} (ho : h[l]? = some o) (hc : o'.cls = o.cls) (l' : Nat) :
    classOf (h.set l o') l' = classOf h l' := by
  unfold classOf
  by_cases hl : l = l'
  · subst hl
    have : l < h.length := by
      rcases Nat.lt_or_ge l h.length with h1 | h1
      · exact h1
      · have : h[l]? = none := by simp; exact h1
        rw [this] at ho; cases ho
    rw [List.getElem?_set_self this, ho]; simp [hc]
  · rw [List.getElem?_set_ne hl]

/-- `o.f = v` with `v` below the declared type of `f` on every item of the receiver's type -/
theorem sat_putAttr (w : WF P) {st : State} {o v : Val} {f : Nat} {To Te : Ty} {ts : List Ty}
    (ho : hasTy P st.heap o To) (ht : attrTys P f To = .ok ts) (hsub : ∀ T ∈ ts, subTy P Te T = true)
    (hv : hasTy P st.heap v Te) :
    Sat P tm st (putAttr o f v) (fun _ _ => True) := by
  intro hi
  obtain ⟨a, ha, hoa⟩ := ho
  obtain ⟨d, Tf, rfl, hl, hTf⟩ := attrTys_mem ht a ha
  cases o <;> simp [hasAtom] at hoa
  next l =>
  obtain ⟨c, hc, hcd⟩ := hoa
  obtain ⟨ob, hob, hoc⟩ := classOf_some hc
  simp only [putAttr, hob, Post]
  have hext : ∀ l' k, classOf st.heap l' = some k ↔
      classOf (st.heap.set l { ob with fields := setField f v ob.fields }) l' = some k := by
    intro l' k
    rw [classOf_set (o' := { ob with fields := setField f v ob.fields }) hob rfl l']
  have e1 : Ext st.heap (st.heap.set l { ob with fields := setField f v ob.fields }) := fun l' k h => (hext l' k).mp h
  refine ⟨⟨?_, ?_⟩, e1, trivial⟩
  · -- heap consistency
    intro l' o' ho'
    rw [List.getElem?_set] at ho'
    by_cases hll : l = l'
    · subst hll
      have hlt : l < st.heap.length := by
        rcases Nat.lt_or_ge l st.heap.length with h1 | h1
        · exact h1
        · have : st.heap[l]? = none := by simp; exact h1
          rw [this] at hob; cases hob
      simp [hlt] at ho'
      subst ho'
      obtain ⟨hcls, hfields⟩ := hi.1 l ob hob
      refine ⟨hcls, ?_⟩
      intro g T hg
      simp only at hg ⊢
      rw [lookup_setField]
      by_cases hgf : g = f
      · subst hgf
        have hl' := lookupAttr_sub w c d g Tf hcd hl
        rw [← hoc] at hl'
        rw [hl'] at hg; cases hg
        exact ⟨v, by simp, hasTy_ext e1 (subTy_sound w (hsub Tf hTf) hv)⟩
      · simp only [hgf, if_false]
        obtain ⟨r, hr, hrt⟩ := hfields g T hg
        exact ⟨r, hr, hasTy_ext e1 hrt⟩
    · simp [hll] at ho'
      obtain ⟨hcls, hfields⟩ := hi.1 l' o' ho'
      refine ⟨hcls, ?_⟩
      intro g T hg
      obtain ⟨r, hr, hrt⟩ := hfields g T hg
      exact ⟨r, hr, hasTy_ext e1 hrt⟩
  · intro k u hku
    obtain ⟨T, hT, hu⟩ := hi.2 k u hku
    exact ⟨T, hT, hasTy_ext e1 hu⟩

theorem ext_append (h : Heap) (o : Obj) : Ext h (h ++ [o]) := by
  intro l c hc
  unfold classOf at *
  cases hl : h[l]? with
  | none => simp [hl] at hc
  | some o' =>
    have : l < h.length := by
      rcases Nat.lt_or_ge l h.length with h1 | h1
      · exact h1
      · have : h[l]? = none := by simp; exact h1
        rw [this] at hl; cases hl
    rw [List.getElem?_append_left this, hl]
    simpa [hl] using hc

/-- allocation of a finished object -/
theorem sat_alloc (w : WF P) {st : State} {c : Nat} {cd : ClassDef} {fs : List (Nat × Val)}
    (hc : P.classes[c]? = some cd)
    (hf : ∀ f T, lookupAttr P c f = some T → ∃ r, lookup f fs = some r ∧ hasTy P st.heap r T) :
    Sat P tm st (alloc c fs) (fun st' r => hasTy P st'.heap r [.cls c]) := by
  intro hi
  simp only [alloc, Post]
  have e1 := ext_append st.heap { cls := c, fields := fs }
  refine ⟨⟨?_, ?_⟩, e1, ?_⟩
  · intro l o ho
    by_cases hl : l < st.heap.length
    · rw [List.getElem?_append_left hl] at ho
      obtain ⟨hcls, hfields⟩ := hi.1 l o ho
      refine ⟨hcls, fun g T hg => ?_⟩
      obtain ⟨r, hr, hrt⟩ := hfields g T hg
      exact ⟨r, hr, hasTy_ext e1 hrt⟩
    · have hge : st.heap.length ≤ l := Nat.le_of_not_lt hl
      rw [List.getElem?_append_right hge] at ho
      cases hd : l - st.heap.length with
      | zero =>
        rw [hd] at ho; simp at ho; subst ho
        refine ⟨⟨cd, hc⟩, fun g T hg => ?_⟩
        obtain ⟨r, hr, hrt⟩ := hf g T hg
        exact ⟨r, hr, hasTy_ext e1 hrt⟩
      | succ k => rw [hd] at ho; simp at ho
  · intro k u hku
    obtain ⟨T, hT, hu⟩ := hi.2 k u hku
    exact ⟨T, hT, hasTy_ext e1 hu⟩
  · refine ⟨.cls c, by simp, ?_⟩
    simp only [hasAtom]
    refine ⟨c, ?_, isSub_refl w hc⟩
    unfold classOf
    simp

theorem sat_logProbe {st : State} {k : Nat} {v : Val} {T : Ty} (hT : (k, T) ∈ tm) (hv : hasTy P st.heap v T) :
    Sat P tm st (logProbe k v) (fun _ _ => True) := by
  intro hi
  simp only [logProbe, Post]
  refine ⟨⟨hi.1, ?_⟩, Ext.refl _, trivial⟩
  intro k' u hu
  simp at hu
  rcases hu with ⟨rfl, rfl⟩ | hu
  · exact ⟨T, hT, hv⟩
  · exact hi.2 k' u hu

/-- `isinstance(v, C)`: the result says whether `v` is a member of `C` -/
theorem sat_instOf {st : State} {c : Nat} {v : Val} {T : Ty} (hv : hasTy P st.heap v T) :
    Sat P tm st (instOf P c v) (fun st' b => st' = st ∧ (b = true ↔ hasAtom P st.heap v (.cls c))) := by
  intro hi
  obtain ⟨a, _, hva⟩ := hv
  cases v with
  | ref l =>
    have : ∃ k, classOf st.heap l = some k := by
      cases a <;> simp [hasAtom] at hva
      · exact hva
      · obtain ⟨k, hk, _⟩ := hva; exact ⟨k, hk⟩
    obtain ⟨k, hk⟩ := this
    simp only [instOf, hk, Post]
    refine ⟨hi, Ext.refl _, trivial, ?_⟩
    simp only [hasAtom]
    constructor
    · intro h; exact ⟨k, hk, h⟩
    · rintro ⟨k', hk', h⟩; rw [hk] at hk'; cases hk'; exact h
  | _ => simp only [instOf, Post]; exact ⟨hi, Ext.refl _, trivial, by simp [hasAtom]⟩

end Lang
