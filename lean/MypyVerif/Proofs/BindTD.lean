import MypyVerif.Proofs.BindStar
/-!
Call binding, part 3: `**TypedDict` actuals (keyword groups).  For calls whose supplied keys are pairwise
distinct: `CoreOk ⇒` mypy's model reports nothing (no exclusion), and conversely outside the shapes
`StarThenTypedDict` (F9 ii) and `TypedDictKeyNamesStarArgs` (F9 iii).
-/
namespace PyBind
open ArgMap

/-! ### keyword groups: explicit keywords and `**TypedDict` actuals -/

inductive KwGroup where
  | kw (x : Name)
  | td (keys : List Name)
deriving Repr, DecidableEq

def KwGroup.toAct : KwGroup → Actual
  | .kw x => .named x
  | .td ks => .star2 (some ks)

def KwGroup.keys : KwGroup → List Name
  | .kw x => [x]
  | .td ks => ks

def kwActs (kg : List KwGroup) : List Actual := kg.map KwGroup.toAct

def flatKeys : List KwGroup → List Name
  | [] => []
  | g :: r => g.keys ++ flatKeys r

/-- `f(<positional and *tuple actuals>, <keywords and **TypedDict actuals>)` in mypy's order -/
def fullCall (pa : List (Option Nat)) (kg : List KwGroup) : List Actual := posActs pa ++ kwActs kg

/-- where `stepKey` puts a `**TypedDict` key -/
def tdTarget (F : List Formal) (x : Name) : Option Nat :=
  match nameIndex F x with
  | some j => if Cfg.typedDictKeyMayNameStarArgs || kindAt F j ≠ some .star then some j else star2Index F
  | none => star2Index F

theorem stepKey_eq (F : List Formal) (ai : Nat) (st : St) (x : Name) :
    stepKey F ai st x = match tdTarget F x with
      | some t => st.add t ai
      | none => st := by
  unfold stepKey tdTarget
  cases nameIndex F x with
  | none => rfl
  | some j =>
    simp only
    split <;> rfl

/-- one supplied key: (key, owning actual, formal it is mapped to) -/
abbrev Entry := Name × Nat × Option Nat

def groupEntries (F : List Formal) (a : Nat) : KwGroup → List Entry
  | .kw x => [(x, a, kwTarget F x)]
  | .td ks => ks.map fun x => (x, a, tdTarget F x)

def keyEntries (F : List Formal) : List KwGroup → Nat → List Entry
  | [], _ => []
  | g :: r, a => groupEntries F a g ++ keyEntries F r (a + 1)

def entryPairs : List Entry → Pairs
  | [] => []
  | (_, o, some t) :: r => (t, o) :: entryPairs r
  | (_, _, none) :: r => entryPairs r

theorem entryPairs_append (xs ys : List Entry) : entryPairs (xs ++ ys) = entryPairs xs ++ entryPairs ys := by
  induction xs with
  | nil => rfl
  | cons e r ih =>
    obtain ⟨x, o, t⟩ := e
    cases t <;> simp [entryPairs, ih]

theorem foldl_stepKey (F : List Formal) (a : Nat) : ∀ (ks : List Name) (fi : Nat) (ps : Pairs) (amb : List Nat),
    ks.foldl (stepKey F a) { fi := fi, pairs := ps, ambiguous := amb } =
      { fi := fi, pairs := ps ++ entryPairs (ks.map fun x => (x, a, tdTarget F x)), ambiguous := amb } := by
  intro ks
  induction ks with
  | nil => intro fi ps amb; simp [entryPairs]
  | cons x xs ih =>
    intro fi ps amb
    simp only [List.foldl_cons, stepKey_eq, List.map_cons]
    cases ht : tdTarget F x with
    | none => simp only [ih, entryPairs]
    | some t => simp only [St.add, ih, entryPairs, List.append_assoc, List.singleton_append]

theorem mapLoop_keys (F : List Formal) : ∀ (kg : List KwGroup) (a fi : Nat) (ps : Pairs) (amb : List Nat),
    mapLoop F (kwActs kg) a { fi := fi, pairs := ps, ambiguous := amb } =
      { fi := fi, pairs := ps ++ entryPairs (keyEntries F kg a), ambiguous := amb } := by
  intro kg
  induction kg with
  | nil => intro a fi ps amb; simp [kwActs, mapLoop, keyEntries, entryPairs]
  | cons g r ih =>
    intro a fi ps amb
    cases g with
    | kw x =>
      simp only [kwActs, List.map_cons, KwGroup.toAct, mapLoop, step, stepNamed_eq]
      have := ih (a + 1)
      simp only [kwActs] at this
      cases hk : kwTarget F x with
      | none => simp only [this, keyEntries, groupEntries, hk, entryPairs_append, entryPairs, List.nil_append]
      | some t =>
        simp only [St.add, this, keyEntries, groupEntries, hk, entryPairs_append, entryPairs, List.append_assoc,
          List.singleton_append, List.cons_append, List.nil_append]
    | td ks =>
      simp only [kwActs, List.map_cons, KwGroup.toAct, mapLoop, step, foldl_stepKey]
      have := ih (a + 1)
      simp only [kwActs] at this
      simp only [this, keyEntries, groupEntries, entryPairs_append, List.append_assoc]

theorem map_full (s : Sig) (pa : List (Option Nat)) (kg : List KwGroup) :
    mapActualsToFormals s.toFormals (fullCall pa kg) =
      ownPairs s (owners pa 0) 0 ++ entryPairs (keyEntries s.toFormals kg pa.length) := by
  unfold mapActualsToFormals fullCall
  simp only
  rw [show ({ fi := 0, pairs := [], ambiguous := [] } : St) = { fi := min 0 s.lns, pairs := [], ambiguous := [] } by
    rw [Nat.zero_min]]
  rw [mapLoop_groups, mapLoop_keys]
  simp

/-! ### facts about entries -/

theorem keyEntries_keys (F : List Formal) : ∀ (kg : List KwGroup) (a : Nat),
    (keyEntries F kg a).map (·.1) = flatKeys kg := by
  intro kg
  induction kg with
  | nil => intro a; rfl
  | cons g r ih =>
    intro a
    cases g <;> simp [keyEntries, groupEntries, flatKeys, KwGroup.keys, ih, Function.comp_def]

/-- every entry belongs to a keyword group, owns that group's actual, and carries that group's target -/
theorem keyEntries_mem (F : List Formal) : ∀ (kg : List KwGroup) (a : Nat) (e : Entry), e ∈ keyEntries F kg a →
    ∃ g, a ≤ e.2.1 ∧ kg[e.2.1 - a]? = some g ∧ e.1 ∈ g.keys ∧
      ((∃ x, g = .kw x ∧ e.2.2 = kwTarget F e.1) ∨ (∃ ks, g = .td ks ∧ e.2.2 = tdTarget F e.1)) := by
  intro kg
  induction kg with
  | nil => intro a e h; simp [keyEntries] at h
  | cons g r ih =>
    intro a e h
    simp only [keyEntries, List.mem_append] at h
    rcases h with h | h
    · cases g with
      | kw x =>
        simp only [groupEntries, List.mem_singleton] at h
        subst h
        exact ⟨.kw x, Nat.le_refl _, by simp, by simp [KwGroup.keys], Or.inl ⟨x, rfl, rfl⟩⟩
      | td ks =>
        simp only [groupEntries, List.mem_map] at h
        obtain ⟨x, hx, rfl⟩ := h
        exact ⟨.td ks, Nat.le_refl _, by simp, by simpa [KwGroup.keys] using hx, Or.inr ⟨ks, rfl, rfl⟩⟩
    · obtain ⟨g', h1, h2, h3, h4⟩ := ih (a + 1) e h
      refine ⟨g', by omega, ?_, h3, h4⟩
      have : e.2.1 - a = (e.2.1 - (a + 1)) + 1 := by omega
      rw [this]; simpa using h2

theorem mem_entryPairs {es : List Entry} {t b : Nat} :
    (t, b) ∈ entryPairs es ↔ ∃ x, (x, b, some t) ∈ es := by
  induction es with
  | nil => simp [entryPairs]
  | cons e r ih =>
    obtain ⟨y, o, tt⟩ := e
    cases tt with
    | none =>
      simp only [entryPairs, ih, List.mem_cons]
      constructor
      · rintro ⟨x, hx⟩; exact ⟨x, Or.inr hx⟩
      · rintro ⟨x, hx | hx⟩
        · simp at hx
        · exact ⟨x, hx⟩
    | some t' =>
      simp only [entryPairs, List.mem_cons, ih]
      constructor
      · rintro (h | ⟨x, hx⟩)
        · injection h with h1 h2; subst h1; subst h2; exact ⟨y, Or.inl rfl⟩
        · exact ⟨x, Or.inr hx⟩
      · rintro ⟨x, hx | hx⟩
        · injection hx with _ hx; injection hx with h1 h2; injection h2 with h2
          left; rw [h1, h2]
        · exact Or.inr ⟨x, hx⟩

/-- shape of `formal_to_actual[i]` restricted to the keyword entries, when the keys are distinct and at
    most one key can be mapped to formal `i` -/
theorem mapped_entries_shape (i : Nat) : ∀ (es : List Entry),
    (es.map (·.1)).Nodup →
    (∀ e e', e ∈ es → e' ∈ es → e.2.2 = some i → e'.2.2 = some i → e.1 = e'.1) →
    (mapped (entryPairs es) i = [] ∧ ∀ e ∈ es, e.2.2 ≠ some i) ∨
    (∃ e ∈ es, mapped (entryPairs es) i = [e.2.1] ∧ e.2.2 = some i) := by
  intro es
  induction es with
  | nil => intro _ _; left; simp [entryPairs, mapped]
  | cons e r ih =>
    intro hnd hinj
    simp only [List.map_cons, List.nodup_cons] at hnd
    have hinj' : ∀ e₁ e₂, e₁ ∈ r → e₂ ∈ r → e₁.2.2 = some i → e₂.2.2 = some i → e₁.1 = e₂.1 :=
      fun e₁ e₂ h1 h2 => hinj e₁ e₂ (List.mem_cons_of_mem _ h1) (List.mem_cons_of_mem _ h2)
    obtain ⟨x, o, tt⟩ := e
    by_cases ht : tt = some i
    · subst ht
      right
      have htail : ∀ e' ∈ r, e'.2.2 ≠ some i := by
        intro e' he' h
        have := hinj (x, o, some i) e' (List.mem_cons_self ..) (List.mem_cons_of_mem _ he') rfl h
        exact hnd.1 (List.mem_map.2 ⟨e', he', this.symm⟩)
      have hnil : mapped (entryPairs r) i = [] := by
        apply List.eq_nil_iff_forall_not_mem.2
        intro b hb
        rw [mem_mapped, mem_entryPairs] at hb
        obtain ⟨y, hy⟩ := hb
        exact htail _ hy rfl
      refine ⟨(x, o, some i), List.mem_cons_self .., ?_, rfl⟩
      show mapped ((i, o) :: entryPairs r) i = [o]
      rw [show (i, o) :: entryPairs r = [(i, o)] ++ entryPairs r from rfl, mapped_append, mapped_single, hnil]
      simp
    · have hhead : mapped (entryPairs ((x, o, tt) :: r)) i = mapped (entryPairs r) i := by
        cases tt with
        | none => rfl
        | some t =>
          have : t ≠ i := fun e => ht (by rw [e])
          show mapped ((t, o) :: entryPairs r) i = mapped (entryPairs r) i
          rw [show (t, o) :: entryPairs r = [(t, o)] ++ entryPairs r from rfl, mapped_append, mapped_single]
          simp [this]
      rw [hhead]
      rcases ih hnd.2 hinj' with ⟨h1, h2⟩ | ⟨e', he', h1, h2⟩
      · left
        refine ⟨h1, ?_⟩
        intro e' he'
        rcases List.mem_cons.1 he' with rfl | he'
        · exact ht
        · exact h2 e' he'
      · right
        exact ⟨e', List.mem_cons_of_mem _ he', h1, h2⟩


/-! ### targets of `**TypedDict` keys vs CPython's slots -/

theorem kwTarget_of_tdTarget (F : List Formal) (x : Name) (h : tdTarget F x = none) : kwTarget F x = none := by
  unfold tdTarget at h
  unfold kwTarget
  cases hn : nameIndex F x with
  | some j =>
    simp only [hn] at h ⊢
    split at h
    · cases h
    · rename_i hc
      have hk : kindAt F j = some .star := by
        cases hcfg : Cfg.typedDictKeyMayNameStarArgs <;> simp [hcfg] at hc ⊢ <;> exact hc
      simp [hk, h]
  | none => simpa [hn] using h

theorem tdTarget_slot_iff (s : Sig) (x : Name) {i : Nat} (hi : i < s.nargs + s.sv + s.kwonly.length)
    (hns : kindAt s.toFormals i ≠ some .star) :
    tdTarget s.toFormals x = some i ↔ kwTarget s.toFormals x = some i := by
  unfold tdTarget kwTarget
  have h2 : star2Index s.toFormals ≠ some i := by
    rw [star2Index_toFormals]; split <;> simp; omega
  cases hn : nameIndex s.toFormals x with
  | none => simp [h2]
  | some j =>
    simp only
    by_cases hk : kindAt s.toFormals j ≠ some .star
    · simp [hk]
    · have hk' : kindAt s.toFormals j = some .star := by simpa using hk
      have hji : j ≠ i := by intro e; subst e; exact hns hk'
      simp only [hk, if_false]
      constructor
      · intro e
        split at e
        · injection e with e; exact absurd e hji
        · exact absurd e h2
      · intro e; exact absurd e h2

theorem kindAt_pos_ne_star (s : Sig) {i : Nat} (hi : i < s.nargs) : kindAt s.toFormals i ≠ some .star := by
  obtain ⟨f, hf, hk, _⟩ := formal_pos s hi
  unfold kindAt; rw [hf]
  rcases posKind_cases s i with h | h <;> simp [hk, h]

theorem kindAt_kwf_ne_star (s : Sig) {j : Nat} (hj : j < s.kwonly.length) :
    kindAt s.toFormals (s.nargs + s.sv + j) ≠ some .star := by
  unfold kindAt; rw [formal_kw s hj]
  cases (s.kwonly[j]).2 <;> simp

/-- the target recorded in an entry, read through CPython's slot search, for a positional formal -/
theorem entry_target_pos (s : Sig) (hwf : s.WF) (kg : List KwGroup) (n : Nat) {e : Entry}
    (he : e ∈ keyEntries s.toFormals kg n) {i : Nat} (hi : i < s.nargs) :
    e.2.2 = some i ↔ findSlot s e.1 = some i := by
  obtain ⟨g, _, _, _, h | h⟩ := keyEntries_mem s.toFormals kg n e he
  · obtain ⟨x, _, ht⟩ := h
    rw [ht]; exact kwTarget_pos_iff s hwf e.1 hi
  · obtain ⟨ks, _, ht⟩ := h
    rw [ht, tdTarget_slot_iff s e.1 (by omega) (kindAt_pos_ne_star s hi)]
    exact kwTarget_pos_iff s hwf e.1 hi

theorem entry_target_kwf (s : Sig) (hwf : s.WF) (kg : List KwGroup) (n : Nat) {e : Entry}
    (he : e ∈ keyEntries s.toFormals kg n) {j : Nat} (hj : j < s.kwonly.length) :
    e.2.2 = some (s.nargs + s.sv + j) ↔ findSlot s e.1 = some (s.nargs + j) := by
  obtain ⟨g, _, _, _, h | h⟩ := keyEntries_mem s.toFormals kg n e he
  · obtain ⟨x, _, ht⟩ := h
    rw [ht]; exact kwTarget_kw_iff s hwf e.1 hj
  · obtain ⟨ks, _, ht⟩ := h
    rw [ht, tdTarget_slot_iff s e.1 (by omega) (kindAt_kwf_ne_star s hj)]
    exact kwTarget_kw_iff s hwf e.1 hj

theorem mem_flatKeys_of_entry (F : List Formal) (kg : List KwGroup) (n : Nat) {e : Entry}
    (he : e ∈ keyEntries F kg n) : e.1 ∈ flatKeys kg := by
  rw [← keyEntries_keys F kg n]; exact List.mem_map.2 ⟨e, he, rfl⟩

theorem entry_of_flatKey (F : List Formal) (kg : List KwGroup) (n : Nat) {x : Name} (hx : x ∈ flatKeys kg) :
    ∃ e ∈ keyEntries F kg n, e.1 = x := by
  rw [← keyEntries_keys F kg n] at hx
  obtain ⟨e, he, rfl⟩ := List.mem_map.1 hx
  exact ⟨e, he, rfl⟩

/-- keyword part of `formal_to_actual[i]` for a positional formal -/
theorem kwM_pos_e (s : Sig) (hwf : s.WF) (kg : List KwGroup) (n : Nat) (hk : (flatKeys kg).Nodup) {i : Nat}
    (hi : i < s.nargs) :
    (mapped (entryPairs (keyEntries s.toFormals kg n)) i = [] ∧ ∀ x ∈ flatKeys kg, findSlot s x ≠ some i) ∨
    (∃ b x g, mapped (entryPairs (keyEntries s.toFormals kg n)) i = [b] ∧ n ≤ b ∧ kg[b - n]? = some g ∧
      x ∈ flatKeys kg ∧ findSlot s x = some i) := by
  have hnd : ((keyEntries s.toFormals kg n).map (·.1)).Nodup := by rw [keyEntries_keys]; exact hk
  have hinj : ∀ e e', e ∈ keyEntries s.toFormals kg n → e' ∈ keyEntries s.toFormals kg n →
      e.2.2 = some i → e'.2.2 = some i → e.1 = e'.1 := by
    intro e e' he he' h h'
    exact findSlot_inj ((entry_target_pos s hwf kg n he hi).1 h) ((entry_target_pos s hwf kg n he' hi).1 h')
  rcases mapped_entries_shape i _ hnd hinj with ⟨h1, h2⟩ | ⟨e, he, h1, h2⟩
  · left
    refine ⟨h1, ?_⟩
    intro x hx hs
    obtain ⟨e, he, rfl⟩ := entry_of_flatKey s.toFormals kg n hx
    exact h2 e he ((entry_target_pos s hwf kg n he hi).2 hs)
  · right
    obtain ⟨g, hg1, hg2, _, _⟩ := keyEntries_mem s.toFormals kg n e he
    exact ⟨e.2.1, e.1, g, h1, hg1, hg2, mem_flatKeys_of_entry _ kg n he,
      (entry_target_pos s hwf kg n he hi).1 h2⟩

theorem kwM_kwf_e (s : Sig) (hwf : s.WF) (kg : List KwGroup) (n : Nat) (hk : (flatKeys kg).Nodup) {j : Nat}
    (hj : j < s.kwonly.length) :
    (mapped (entryPairs (keyEntries s.toFormals kg n)) (s.nargs + s.sv + j) = [] ∧
        ∀ x ∈ flatKeys kg, findSlot s x ≠ some (s.nargs + j)) ∨
    (∃ b x g, mapped (entryPairs (keyEntries s.toFormals kg n)) (s.nargs + s.sv + j) = [b] ∧ n ≤ b ∧
      kg[b - n]? = some g ∧ x ∈ flatKeys kg ∧ findSlot s x = some (s.nargs + j)) := by
  have hnd : ((keyEntries s.toFormals kg n).map (·.1)).Nodup := by rw [keyEntries_keys]; exact hk
  have hinj : ∀ e e', e ∈ keyEntries s.toFormals kg n → e' ∈ keyEntries s.toFormals kg n →
      e.2.2 = some (s.nargs + s.sv + j) → e'.2.2 = some (s.nargs + s.sv + j) → e.1 = e'.1 := by
    intro e e' he he' h h'
    exact findSlot_inj ((entry_target_kwf s hwf kg n he hj).1 h) ((entry_target_kwf s hwf kg n he' hj).1 h')
  rcases mapped_entries_shape _ _ hnd hinj with ⟨h1, h2⟩ | ⟨e, he, h1, h2⟩
  · left
    refine ⟨h1, ?_⟩
    intro x hx hs
    obtain ⟨e, he, rfl⟩ := entry_of_flatKey s.toFormals kg n hx
    exact h2 e he ((entry_target_kwf s hwf kg n he hj).2 hs)
  · right
    obtain ⟨g, hg1, hg2, _, _⟩ := keyEntries_mem s.toFormals kg n e he
    exact ⟨e.2.1, e.1, g, h1, hg1, hg2, mem_flatKeys_of_entry _ kg n he,
      (entry_target_kwf s hwf kg n he hj).1 h2⟩

/-! ### the actuals of a full call -/

theorem kwActs_length (kg : List KwGroup) : (kwActs kg).length = kg.length := by simp [kwActs]

theorem fullCall_lt {pa : List (Option Nat)} {kg : List KwGroup} {b : Nat} (h : b < pa.length) :
    (fullCall pa kg)[b]? = (pa[b]?).map toAct := by
  unfold fullCall
  rw [List.getElem?_append_left (by rw [posActs_length]; exact h), posActs_eq_map]
  simp

theorem fullCall_ge {pa : List (Option Nat)} {kg : List KwGroup} {b : Nat} (h : pa.length ≤ b) :
    (fullCall pa kg)[b]? = (kg[b - pa.length]?).map KwGroup.toAct := by
  unfold fullCall
  rw [List.getElem?_append_right (by rw [posActs_length]; exact h), posActs_length]
  simp [kwActs]

theorem fullCall_cases {pa : List (Option Nat)} {kg : List KwGroup} {b : Nat} {act : Actual}
    (h : (fullCall pa kg)[b]? = some act) :
    (b < pa.length ∧ ∃ g, pa[b]? = some g ∧ act = toAct g) ∨
    (pa.length ≤ b ∧ ∃ g, kg[b - pa.length]? = some g ∧ act = g.toAct) := by
  by_cases hb : b < pa.length
  · rw [fullCall_lt hb] at h
    cases hg : pa[b]? with
    | none => simp [hg] at h
    | some g => simp [hg] at h; exact Or.inl ⟨hb, g, rfl, h.symm⟩
  · rw [fullCall_ge (by omega)] at h
    cases hx : kg[b - pa.length]? with
    | none => simp [hx] at h
    | some g => simp [hx] at h; exact Or.inr ⟨by omega, g, rfl, h.symm⟩

theorem owner_act_full {pa : List (Option Nat)} {kg : List KwGroup} {q o : Nat}
    (h : (owners pa 0)[q]? = some o) : ∃ g, (fullCall pa kg)[o]? = some (toAct g) := by
  have := owners_mem pa 0 o (List.mem_iff_getElem?.2 ⟨q, h⟩)
  have ho : o < pa.length := by omega
  rw [fullCall_lt ho]
  exact ⟨pa[o], by simp [ho]⟩

theorem fnk_kwgroup (acts : List Actual) (b : Nat) (g : KwGroup) (r : List Nat)
    (hb : acts[b]? = some g.toAct) : firstNotKeyword acts (b :: r) = false := by
  cases g <;> simp [firstNotKeyword, actualKindAt, hb, Actual.kind, KwGroup.toAct]

/-- a positional / `*tuple` actual and a keyword / `**TypedDict` actual on the same formal are a
    duplicate — except for the `*tuple` + `**TypedDict` exemption (F9 ii) -/
theorem dup_pair_full (acts : List Actual) (o b : Nat) (g : Option Nat) (kgp : KwGroup)
    (ho : acts[o]? = some (toAct g)) (hb : acts[b]? = some kgp.toAct) :
    isDuplicateMapping acts [o, b] = true ∨ (∃ k ks, g = some k ∧ kgp = .td ks) := by
  cases g with
  | none => left; cases kgp <;> simp [isDuplicateMapping, actualKindAt, ho, hb, Actual.kind, toAct, KwGroup.toAct]
  | some k =>
    cases kgp with
    | kw x => left; simp [isDuplicateMapping, actualKindAt, ho, hb, Actual.kind, toAct, KwGroup.toAct]
    | td ks => right; exact ⟨k, ks, rfl, rfl⟩


/-! ### counts: which pairs carry a given actual -/

theorem count_group_gen (s : Sig) (pre post : List (Option Nat)) (g : Option Nat) (kp : Pairs)
    (hkp : ∀ t b, (t, b) ∈ kp → (pre ++ g :: post).length ≤ b) :
    countActual (ownPairs s (owners (pre ++ g :: post) 0) 0 ++ kp) pre.length =
      (ownPairs s (groupOwners g pre.length) (width pre)).length := by
  rw [countActual_append, owners_split, ownPairs_append, ownPairs_append, countActual_append, countActual_append]
  have h1 : countActual (ownPairs s (owners pre 0) 0) pre.length = 0 := by
    apply countActual_zero_of_not_owner
    intro hm; have := owners_mem pre 0 _ hm; omega
  have h3 : countActual (ownPairs s (owners post (0 + pre.length + 1))
      (0 + (owners pre 0).length + (groupOwners g (0 + pre.length)).length)) pre.length = 0 := by
    apply countActual_zero_of_not_owner
    intro hm; have := owners_mem post _ _ hm; omega
  have h4 : countActual kp pre.length = 0 := by
    rw [countActual_eq_zero]
    intro t hm
    have := hkp t _ hm
    simp at this; omega
  rw [h1, h3, h4, owners_length]
  simp only [Nat.zero_add, Nat.add_zero]
  cases g with
  | none =>
    simp only [groupOwners]
    have := countActual_all s pre.length 1 (width pre)
    simpa using this
  | some k => exact countActual_all s pre.length k (width pre)

theorem extra_group_nil_iff_gen (s : Sig) (pre post : List (Option Nat)) (g : Option Nat) (kp : Pairs)
    (hkp : ∀ t b, (t, b) ∈ kp → (pre ++ g :: post).length ≤ b) :
    (checkExtraOne s.toFormals (ownPairs s (owners (pre ++ g :: post) 0) 0 ++ kp) pre.length (toAct g)).1 = [] ↔
      ∀ j, j < width [g] → posTarget s (width pre + j) ≠ none := by
  have hc := count_group_gen s pre post g kp hkp
  have hle := ownPairs_length_le s (groupOwners g pre.length) (width pre)
  have heq := ownPairs_length_eq_iff s (groupOwners g pre.length) (width pre)
  rw [groupOwners_length] at hle heq
  rw [← heq]
  cases g with
  | none =>
    simp only [toAct]
    rw [extra_pos_nil_iff, hc]
    simp only [width] at hle ⊢
    omega
  | some k =>
    simp only [toAct, width, Nat.add_zero] at hle ⊢
    unfold checkExtraOne
    simp only [hc, Actual.kind, Actual.nonEmptyTuple, hasStar_toFormals]
    cases hv : s.varargs with
    | some v =>
      have hall : (ownPairs s (groupOwners (some k) pre.length) (width pre)).length = k := by
        have := (ownPairs_length_eq_iff s (groupOwners (some k) pre.length) (width pre)).2
        rw [groupOwners_length] at this
        simp only [width, Nat.add_zero] at this
        apply this
        intro j _
        unfold posTarget; split <;> simp [hv]
      rw [hall]
      by_cases hk : k = 0
      · subst hk; simp
      · have : ¬ (k == 0) = true := by simpa using hk
        simp [this]
    | none =>
      simp only [Option.isSome_none, Bool.not_false, Bool.and_true]
      by_cases h0 : ((ownPairs s (groupOwners (some k) pre.length) (width pre)).length == 0 &&
          (AK.star != AK.star || decide (k > 0)) && AK.star != AK.star2) = true
      · rw [if_pos h0]
        simp only [Bool.and_eq_true, Bool.or_eq_true, beq_iff_eq, decide_eq_true_eq] at h0
        have hk : k > 0 := by
          rcases h0.1.2 with h | h
          · simp at h
          · exact h
        simp; omega
      · rw [if_neg h0]
        simp only [Bool.or_false, beq_self_eq_true, if_true]
        by_cases hlt : (ownPairs s (groupOwners (some k) pre.length) (width pre)).length < k
        · simp [hlt]; omega
        · simp [hlt]; omega

theorem keyEntries_split (F : List Formal) (pre post : List KwGroup) (g : KwGroup) (n : Nat) :
    keyEntries F (pre ++ g :: post) n =
      keyEntries F pre n ++ (groupEntries F (n + pre.length) g ++ keyEntries F post (n + pre.length + 1)) := by
  induction pre generalizing n with
  | nil => simp [keyEntries]
  | cons h r ih =>
    have e1 : n + 1 + r.length = n + (r.length + 1) := by omega
    simp [keyEntries, ih, e1, List.append_assoc]

theorem entry_owner_range (F : List Formal) (kg : List KwGroup) (n : Nat) {e : Entry}
    (he : e ∈ keyEntries F kg n) : n ≤ e.2.1 ∧ e.2.1 < n + kg.length := by
  obtain ⟨g, h1, h2, _, _⟩ := keyEntries_mem F kg n e he
  have := (List.getElem?_eq_some_iff.1 h2).1
  omega

theorem entryPairs_owner_ge (F : List Formal) (kg : List KwGroup) (n : Nat) :
    ∀ t b, (t, b) ∈ entryPairs (keyEntries F kg n) → n ≤ b := by
  intro t b h
  rw [mem_entryPairs] at h
  obtain ⟨x, hx⟩ := h
  exact (entry_owner_range F kg n hx).1

theorem countActual_entries_zero (es : List Entry) (b : Nat) (h : ∀ e ∈ es, e.2.1 ≠ b) :
    countActual (entryPairs es) b = 0 := by
  rw [countActual_eq_zero]
  intro t hm
  rw [mem_entryPairs] at hm
  obtain ⟨x, hx⟩ := hm
  exact h _ hx rfl

theorem countActual_groupEntries (F : List Formal) (b : Nat) (g : KwGroup) :
    countActual (entryPairs (groupEntries F b g)) b = (entryPairs (groupEntries F b g)).length := by
  cases g with
  | kw x =>
    simp only [groupEntries]
    cases kwTarget F x <;> simp [entryPairs, countActual]
  | td ks =>
    simp only [groupEntries]
    induction ks with
    | nil => simp [entryPairs, countActual]
    | cons x xs ih =>
      simp only [List.map_cons]
      cases tdTarget F x with
      | none => simpa [entryPairs] using ih
      | some t =>
        simp only [entryPairs, List.length_cons]
        rw [show (t, b) :: entryPairs (xs.map fun x => (x, b, tdTarget F x)) =
              [(t, b)] ++ entryPairs (xs.map fun x => (x, b, tdTarget F x)) from rfl, countActual_append, ih]
        simp [countActual]; omega

theorem count_kgroup (s : Sig) (pa : List (Option Nat)) (pre post : List KwGroup) (g : KwGroup) :
    countActual (ownPairs s (owners pa 0) 0 ++
        entryPairs (keyEntries s.toFormals (pre ++ g :: post) pa.length)) (pa.length + pre.length) =
      (entryPairs (groupEntries s.toFormals (pa.length + pre.length) g)).length := by
  rw [countActual_append, keyEntries_split, entryPairs_append, entryPairs_append, countActual_append,
    countActual_append]
  have h0 : countActual (ownPairs s (owners pa 0) 0) (pa.length + pre.length) = 0 := by
    apply countActual_zero_of_not_owner
    intro hm; have := owners_mem pa 0 _ hm; omega
  have h1 : countActual (entryPairs (keyEntries s.toFormals pre pa.length)) (pa.length + pre.length) = 0 := by
    apply countActual_entries_zero
    intro e he; have := entry_owner_range _ pre pa.length he; omega
  have h3 : countActual (entryPairs (keyEntries s.toFormals post (pa.length + pre.length + 1)))
      (pa.length + pre.length) = 0 := by
    apply countActual_entries_zero
    intro e he; have := entry_owner_range _ post _ he; omega
  rw [h0, h1, h3, countActual_groupEntries]
  omega

def gTarget (F : List Formal) : KwGroup → Name → Option Nat
  | .kw _, x => kwTarget F x
  | .td _, x => tdTarget F x

theorem tdEntries_length (F : List Formal) (b : Nat) : ∀ (ks : List Name),
    (entryPairs (ks.map fun x => (x, b, tdTarget F x))).length ≤ ks.length ∧
    ((entryPairs (ks.map fun x => (x, b, tdTarget F x))).length = ks.length ↔ ∀ x ∈ ks, tdTarget F x ≠ none) := by
  intro ks
  induction ks with
  | nil => simp [entryPairs]
  | cons x xs ih =>
    simp only [List.map_cons, List.length_cons, List.mem_cons, forall_eq_or_imp]
    cases ht : tdTarget F x with
    | none =>
      simp only [entryPairs]
      refine ⟨by omega, ?_⟩
      constructor
      · intro h; omega
      · intro h; exact absurd rfl h.1
    | some t =>
      simp only [entryPairs, List.length_cons]
      refine ⟨by omega, ?_⟩
      constructor
      · intro h; exact ⟨by simp, ih.2.1 (by omega)⟩
      · intro h; have := ih.2.2 h.2; omega

theorem extra_kgroup_nil_iff (s : Sig) (pa : List (Option Nat)) (pre post : List KwGroup) (g : KwGroup) :
    (checkExtraOne s.toFormals
        (ownPairs s (owners pa 0) 0 ++ entryPairs (keyEntries s.toFormals (pre ++ g :: post) pa.length))
        (pa.length + pre.length) g.toAct).1 = [] ↔
      ∀ x ∈ g.keys, gTarget s.toFormals g x ≠ none := by
  have hc := count_kgroup s pa pre post g
  cases g with
  | kw x =>
    simp only [KwGroup.toAct, KwGroup.keys, List.mem_singleton, forall_eq, gTarget]
    rw [extra_named_nil_iff, hc]
    simp only [groupEntries]
    cases kwTarget s.toFormals x <;> simp [entryPairs]
  | td ks =>
    simp only [KwGroup.toAct, KwGroup.keys, gTarget]
    have hl := tdEntries_length s.toFormals (pa.length + pre.length) ks
    simp only [groupEntries] at hc
    rw [← hl.2]
    unfold checkExtraOne
    simp only [hc, Actual.kind]
    have h0 : (((entryPairs (ks.map fun x => (x, pa.length + pre.length, tdTarget s.toFormals x))).length == 0 &&
        (AK.star2 != AK.star || (Actual.star2 (some ks)).nonEmptyTuple) && AK.star2 != AK.star2) = true) = False := by
      simp
    rw [if_neg (by rw [h0]; exact not_false)]
    simp only [beq_self_eq_true, Bool.or_true, if_true]
    by_cases hlt : (entryPairs (ks.map fun x => (x, pa.length + pre.length, tdTarget s.toFormals x))).length < ks.length
    · simp [hlt]; omega
    · simp [hlt]; omega

theorem kgroup_split {kg : List KwGroup} {c : Nat} (h : c < kg.length) :
    ∃ pre g post, kg = pre ++ g :: post ∧ pre.length = c ∧ kg[c]? = some g := by
  refine ⟨kg.take c, kg[c], kg.drop (c + 1), ?_, by simp; omega, by simp [h]⟩
  rw [← List.drop_eq_getElem_cons h, List.take_append_drop]


/-! ### using the exclusion predicates -/

theorem f9b_use (s : Sig) (pa : List (Option Nat)) (kg : List KwGroup)
    (hb : StarThenTypedDict s.toFormals (fullCall pa kg) = false) {i o b k : Nat} {f : Formal} {ks : List Name}
    (hf : s.toFormals[i]? = some f) (hns : f.kind.isStar = false)
    (hm : mapped (ownPairs s (owners pa 0) 0 ++ entryPairs (keyEntries s.toFormals kg pa.length)) i = [o, b])
    (ho : (fullCall pa kg)[o]? = some (.star (some k)))
    (hbb : (fullCall pa kg)[b]? = some (.star2 (some ks))) : False := by
  unfold StarThenTypedDict at hb
  rw [map_full] at hb
  simp only at hb
  rw [List.any_eq_false] at hb
  have := hb (f, i) (List.mk_mem_zipIdx_iff_getElem?.2 hf)
  simp [hns, hm, ho, hbb] at this

theorem typedDictKeys_posActs (pa : List (Option Nat)) (r : List Actual) :
    typedDictKeys (posActs pa ++ r) = typedDictKeys r := by
  induction pa with
  | nil => rfl
  | cons g t ih => cases g <;> simp [posActs, typedDictKeys, ih]

theorem mem_typedDictKeys_kwActs {kg : List KwGroup} {ks : List Name} {x : Name}
    (hg : KwGroup.td ks ∈ kg) (hx : x ∈ ks) : x ∈ typedDictKeys (kwActs kg) := by
  induction kg with
  | nil => cases hg
  | cons g r ih =>
    rcases List.mem_cons.1 hg with rfl | hg
    · simp [kwActs, KwGroup.toAct, typedDictKeys, hx]
    · have := ih hg
      cases g <;> simp [kwActs, KwGroup.toAct, typedDictKeys] at this ⊢ <;> simp [kwActs, this]

theorem f9c_use (s : Sig) (pa : List (Option Nat)) (kg : List KwGroup)
    (hc : TypedDictKeyNamesStarArgs s.toFormals (fullCall pa kg) = false)
    (hcfg : Cfg.typedDictKeyMayNameStarArgs = true)
    (h2 : star2Index s.toFormals = none) {ks : List Name} {x : Name} {j : Nat}
    (hg : KwGroup.td ks ∈ kg) (hx : x ∈ ks) (hn : nameIndex s.toFormals x = some j)
    (hk : kindAt s.toFormals j = some .star) : False := by
  unfold TypedDictKeyNamesStarArgs at hc
  simp only [hcfg, h2, Option.isNone_none, Bool.true_and] at hc
  rw [List.any_eq_false] at hc
  have hm : x ∈ typedDictKeys (fullCall pa kg) := by
    unfold fullCall; rw [typedDictKeys_posActs]; exact mem_typedDictKeys_kwActs hg hx
  have := hc x hm
  simp [hn, hk] at this

theorem keys_subset_flat {kg : List KwGroup} {g : KwGroup} (hg : g ∈ kg) {x : Name} (hx : x ∈ g.keys) :
    x ∈ flatKeys kg := by
  induction kg with
  | nil => cases hg
  | cons h r ih =>
    simp only [flatKeys, List.mem_append]
    rcases List.mem_cons.1 hg with rfl | hg
    · exact Or.inl hx
    · exact Or.inr (ih hg)

theorem flat_key_group {kg : List KwGroup} {x : Name} (hx : x ∈ flatKeys kg) :
    ∃ (c : Nat) (g : KwGroup), kg[c]? = some g ∧ x ∈ g.keys := by
  induction kg with
  | nil => cases hx
  | cons h r ih =>
    simp only [flatKeys, List.mem_append] at hx
    rcases hx with hx | hx
    · exact ⟨0, h, by simp, hx⟩
    · obtain ⟨c, g, hc, hg⟩ := ih hx
      exact ⟨c + 1, g, by rw [List.getElem?_cons_succ]; exact hc, hg⟩

/-! ### no false reject: `CoreOk` ⇒ mypy's model reports nothing (no exclusion needed) -/

theorem mypy_ok_of_coreOk_full (s : Sig) (hwf : s.WF) (pa : List (Option Nat)) (kg : List KwGroup)
    (hk : (flatKeys kg).Nodup) (ok : CoreOk s (width pa) (flatKeys kg)) :
    mypyErrors s.toFormals (fullCall pa kg) = [] := by
  rw [mypyErrors_nil_iff, map_full]
  have hlen := owners_length pa 0
  constructor
  · intro b act hb
    rcases fullCall_cases hb with ⟨hlt, g, hg, rfl⟩ | ⟨hge, g, hg, rfl⟩
    · obtain ⟨pre, g', post, hpa, hpre, hg'⟩ := group_split hlt
      rw [hg] at hg'; injection hg' with hg'; subst hg'
      subst hpre
      rw [hpa, extra_group_nil_iff_gen _ _ _ _ _ (entryPairs_owner_ge _ kg _)]
      intro j hj
      apply posTarget_ne_none_of s ok.a
      rw [hpa, width_append]
      have : width (g :: post) = width [g] + width post := by
        rw [show g :: post = [g] ++ post from rfl, width_append]
      omega
    · have hc : b - pa.length < kg.length := (List.getElem?_eq_some_iff.1 hg).1
      obtain ⟨pre, g', post, hkg, hpre, hg'⟩ := kgroup_split hc
      rw [hg] at hg'; injection hg' with hg'; subst hg'
      have hb' : b = pa.length + pre.length := by omega
      rw [hb', hkg, extra_kgroup_nil_iff]
      intro x hx
      have hxf : x ∈ flatKeys kg := keys_subset_flat (List.mem_iff_getElem?.2 ⟨_, hg⟩) hx
      have hkt : kwTarget s.toFormals x ≠ none := (kwTarget_ne_none s hwf x).2 (ok.b x hxf)
      cases g with
      | kw y => exact hkt
      | td ks => exact fun h => hkt (kwTarget_of_tdTarget _ _ h)
  · intro i f hf
    rw [checkFormal_nil_iff]
    rcases formal_classify s hf with ⟨hi, hkind⟩ | ⟨_, _, hkind⟩ | ⟨j, hj, hi, hkind⟩ | ⟨_, hkind⟩
    · rw [mapped_append, mapped_ownPairs_lt s (Nat.lt_of_lt_of_le hi (lns_ge s))]
      simp only [Nat.zero_le, if_true, Nat.sub_zero]
      have hns : f.kind.isStar = false := by
        rcases posKind_cases s i with h | h <;> simp [hkind, h, FK.isStar]
      have hnn : f.kind.isNamed = false := by
        rcases posKind_cases s i with h | h <;> simp [hkind, h, FK.isNamed]
      rcases kwM_pos_e s hwf kg pa.length hk hi with ⟨hm, hno⟩ | ⟨b, x, g, hm, hb1, hb2, hx, hxs⟩
      · rw [hm]
        refine ⟨?_, ?_, by simp [hnn]⟩
        · rintro ⟨hreq, hemp, _⟩
          rw [hkind, posKind_required] at hreq
          rcases ok.d i (by omega) with h | ⟨x, hx, hxs⟩
          · have : i < (owners pa 0).length := by omega
            simp [this] at hemp
          · exact hno x hx hxs
        · rintro ⟨_, hdup⟩
          cases ho : (owners pa 0)[i]? with
          | none => rw [ho] at hdup; simp [dup_nil] at hdup
          | some o => rw [ho] at hdup; simp [dup_single] at hdup
      · rw [hm]
        have hci := ok.c x hx i hxs
        have hnone : (owners pa 0)[i]? = none := List.getElem?_eq_none (by omega)
        simp only [hnone, Option.toList_none, List.nil_append]
        refine ⟨by simp, by simp [dup_single], by simp [hnn]⟩
    · simp [hkind, FK.isRequired, FK.isStar, FK.isNamed]
    · subst hi
      have hposM : mapped (ownPairs s (owners pa 0) 0) (s.nargs + s.sv + j) = [] := by
        cases hv : s.varargs with
        | some v =>
          have hsv : s.sv = 1 := by simp [Sig.sv, hv]
          have : s.lns < s.nargs + s.sv + j := by simp [Sig.lns, hv]; omega
          exact mapped_ownPairs_gt s this _ _
        | none =>
          have hsv : s.sv = 0 := by simp [Sig.sv, hv]
          have : s.nargs + s.sv + j < s.lns := by simp [Sig.lns, hv]; omega
          rw [mapped_ownPairs_lt s this]
          simp only [Nat.zero_le, if_true, Nat.sub_zero]
          rcases ok.a with h | h
          · rw [List.getElem?_eq_none (by omega)]; rfl
          · rw [hv] at h; cases h
      rw [mapped_append, hposM, List.nil_append]
      have hns : f.kind.isStar = false := by rw [hkind]; split <;> simp [FK.isStar]
      rcases kwM_kwf_e s hwf kg pa.length hk hj with ⟨hm, hno⟩ | ⟨b, x, g, hm, hb1, hb2, hx, hxs⟩
      · rw [hm]
        refine ⟨?_, by simp [dup_nil], by simp⟩
        rintro ⟨hreq, _, _⟩
        have hnd : (s.kwonly[j]).2 = false := by
          rw [hkind] at hreq
          cases hd : (s.kwonly[j]).2 <;> simp [hd, FK.isRequired] at hreq ⊢
        obtain ⟨x, hx, hxs⟩ := ok.e j hj hnd
        exact hno x hx hxs
      · rw [hm]
        have hact : (fullCall pa kg)[b]? = some g.toAct := by rw [fullCall_ge hb1, hb2]; rfl
        refine ⟨by simp, by simp [dup_single], ?_⟩
        rintro ⟨_, _, hfn⟩
        rw [fnk_kwgroup _ b g [] hact] at hfn; cases hfn
    · simp [hkind, FK.isRequired, FK.isStar, FK.isNamed]


/-! ### no false accept outside the excluded shapes -/

theorem coreOk_of_mypy_ok_full (s : Sig) (hwf : s.WF) (pa : List (Option Nat)) (kg : List KwGroup)
    (hk : (flatKeys kg).Nodup)
    (hb9 : StarThenTypedDict s.toFormals (fullCall pa kg) = false)
    (hc9 : TypedDictKeyNamesStarArgs s.toFormals (fullCall pa kg) = false)
    (h : mypyErrors s.toFormals (fullCall pa kg) = []) : CoreOk s (width pa) (flatKeys kg) := by
  rw [mypyErrors_nil_iff, map_full] at h
  obtain ⟨hex, hfo⟩ := h
  have hlen := owners_length pa 0
  have hown : ∀ {q : Nat}, q < width pa → ∃ o, (owners pa 0)[q]? = some o := by
    intro q hq
    exact ⟨(owners pa 0)[q]'(by omega), by simp [hlen, hq]⟩
  -- a positional / *tuple actual `o` and a keyword / **TypedDict actual `b` on a non-star formal: an error
  have hpair : ∀ {i o b : Nat} {f : Formal} {g : KwGroup} {q : Nat}, s.toFormals[i]? = some f →
      f.kind.isStar = false → (owners pa 0)[q]? = some o → pa.length ≤ b → kg[b - pa.length]? = some g →
      mapped (ownPairs s (owners pa 0) 0 ++ entryPairs (keyEntries s.toFormals kg pa.length)) i = [o, b] →
      False := by
    intro i o b f g q hf hns ho hb1 hb2 hm
    have h1 := hfo _ _ hf
    rw [checkFormal_nil_iff, hm] at h1
    obtain ⟨gp, hgp⟩ := owner_act_full (kg := kg) ho
    have hact : (fullCall pa kg)[b]? = some g.toAct := by rw [fullCall_ge hb1, hb2]; rfl
    rcases dup_pair_full _ o b gp g hgp hact with hd | ⟨k, ks, rfl, rfl⟩
    · exact h1.2.1 ⟨hns, hd⟩
    · exact f9b_use s pa kg hb9 hf hns hm hgp hact
  have ha : width pa ≤ s.nargs ∨ s.varargs.isSome = true := by
    by_cases hv : s.varargs.isSome = true
    · exact Or.inr hv
    · left
      apply Nat.le_of_not_lt
      intro hgt
      have hvn : s.varargs = none := by cases hvv : s.varargs <;> simp [hvv] at hv ⊢
      have hsv : s.sv = 0 := by simp [Sig.sv, hvn]
      obtain ⟨o, ho⟩ := hown hgt
      by_cases hK : s.kwonly.length = 0
      · obtain ⟨pre, g, post, hpa, hob, hq1, hq2⟩ := owner_group pa 0 s.nargs o ho
        have hact : (fullCall pa kg)[pre.length]? = some (toAct g) := by
          rw [fullCall_lt (by rw [hpa]; simp)]
          simp [hpa]
        have h1 := hex _ _ hact
        rw [hpa, extra_group_nil_iff_gen _ _ _ _ _ (entryPairs_owner_ge _ kg _)] at h1
        have := h1 (s.nargs - width pre) (by omega)
        apply this
        have e : width pre + (s.nargs - width pre) = s.nargs := by omega
        rw [e]
        simp [posTarget, Sig.lns, hvn, hK]
      · have hj : 0 < s.kwonly.length := by omega
        have hf := formal_kw s hj
        have h1 := hfo _ _ hf
        have hlt : s.nargs + s.sv + 0 < s.lns := by simp [Sig.lns, hvn]; omega
        have hposM : mapped (ownPairs s (owners pa 0) 0) (s.nargs + s.sv + 0) = [o] := by
          rw [mapped_ownPairs_lt s hlt]
          simp only [Nat.zero_le, if_true, Nat.sub_zero]
          have : s.nargs + s.sv + 0 = s.nargs := by omega
          rw [this, ho]; rfl
        rw [checkFormal_nil_iff, mapped_append, hposM] at h1
        have hnamed : (if (s.kwonly[0]).2 = true then FK.namedOpt else FK.named).isNamed = true := by
          split <;> rfl
        have hnstar : (if (s.kwonly[0]).2 = true then FK.namedOpt else FK.named).isStar = false := by
          split <;> rfl
        obtain ⟨gp, hgp⟩ := owner_act_full (kg := kg) ho
        rcases kwM_kwf_e s hwf kg pa.length hk hj with ⟨hm, _⟩ | ⟨b, x, g, hm, hb1, hb2, _, _⟩
        · rw [hm] at h1
          apply h1.2.2
          exact ⟨hnamed, by simp, fnk_g _ _ _ gp hgp⟩
        · exact hpair hf hnstar ho hb1 hb2 (by rw [mapped_append, hposM, hm]; rfl)
  refine ⟨ha, ?_, ?_, ?_, ?_⟩
  · -- (b)
    intro x hx hfs
    obtain ⟨c, g, hc, hxg⟩ := flat_key_group hx
    have hclt : c < kg.length := (List.getElem?_eq_some_iff.1 hc).1
    obtain ⟨pre, g', post, hkg, hpre, hg'⟩ := kgroup_split hclt
    rw [hc] at hg'; injection hg' with hg'; subst hg'
    have hact : (fullCall pa kg)[pa.length + pre.length]? = some g.toAct := by
      rw [fullCall_ge (by omega)]
      have : pa.length + pre.length - pa.length = c := by omega
      rw [this, hc]; rfl
    have h1 := hex _ _ hact
    rw [hkg, extra_kgroup_nil_iff] at h1
    have h2 := h1 x hxg
    cases g with
    | kw y => exact (kwTarget_ne_none s hwf x).1 h2 hfs
    | td ks =>
      simp only [gTarget] at h2
      cases hw : s.varkw.isSome with
      | true => rfl
      | false =>
        exfalso
        have h2i : star2Index s.toFormals = none := by
          have := star2Index_isSome s
          rw [hw] at this
          cases hs : star2Index s.toFormals <;> simp [hs] at this ⊢
        have hkt : kwTarget s.toFormals x = none := by
          rw [kwTarget_eq s hwf, hfs]; exact h2i
        unfold tdTarget at h2
        unfold kwTarget at hkt
        cases hn : nameIndex s.toFormals x with
        | none => simp [hn, h2i] at h2
        | some j =>
          simp only [hn] at hkt
          by_cases hkd : kindAt s.toFormals j ≠ some .star
          · simp [hkd] at hkt
          · have hkd' : kindAt s.toFormals j = some .star := by simpa using hkd
            cases hcfg : Cfg.typedDictKeyMayNameStarArgs with
            | true => exact f9c_use s pa kg hc9 hcfg h2i (List.mem_iff_getElem?.2 ⟨c, hc⟩) hxg hn hkd'
            | false => simp [hn, hcfg, hkd', h2i] at h2
  · -- (c)
    intro x hx j hjs
    apply Nat.le_of_not_lt
    intro hlt
    have hj : j < s.nargs := by omega
    obtain ⟨f, hf, hkind, _⟩ := formal_pos s hj
    obtain ⟨o, ho⟩ := hown (show j < width pa by omega)
    have hns : f.kind.isStar = false := by
      rcases posKind_cases s j with h | h <;> simp [hkind, h, FK.isStar]
    have hposM : mapped (ownPairs s (owners pa 0) 0) j = [o] := by
      rw [mapped_ownPairs_lt s (Nat.lt_of_lt_of_le hj (lns_ge s))]
      simp only [Nat.zero_le, if_true, Nat.sub_zero, ho]; rfl
    rcases kwM_pos_e s hwf kg pa.length hk hj with ⟨_, hno⟩ | ⟨b, y, g, hm, hb1, hb2, _, _⟩
    · exact hno x hx hjs
    · exact hpair hf hns ho hb1 hb2 (by rw [mapped_append, hposM, hm]; rfl)
  · -- (d)
    intro i hi
    have hin : i < s.nargs := by omega
    obtain ⟨f, hf, hkind, _⟩ := formal_pos s hin
    have h1 := hfo _ _ hf
    rw [checkFormal_nil_iff, mapped_append, mapped_ownPairs_lt s (Nat.lt_of_lt_of_le hin (lns_ge s))] at h1
    simp only [Nat.zero_le, if_true, Nat.sub_zero] at h1
    by_cases hlt : i < width pa
    · exact Or.inl hlt
    · right
      have hnone : (owners pa 0)[i]? = none := List.getElem?_eq_none (by omega)
      simp only [hnone, Option.toList_none, List.nil_append] at h1
      rcases kwM_pos_e s hwf kg pa.length hk hin with ⟨hm, _⟩ | ⟨b, x, g, _, _, _, hx, hxs⟩
      · exfalso
        apply h1.1
        refine ⟨?_, hm, by simp⟩
        rw [hkind, posKind_required]; omega
      · exact ⟨x, hx, hxs⟩
  · -- (e)
    intro j hj hreq
    have hf := formal_kw s hj
    have h1 := hfo _ _ hf
    have hposM : mapped (ownPairs s (owners pa 0) 0) (s.nargs + s.sv + j) = [] := by
      cases hv : s.varargs with
      | some v =>
        have hsv : s.sv = 1 := by simp [Sig.sv, hv]
        have : s.lns < s.nargs + s.sv + j := by simp [Sig.lns, hv]; omega
        exact mapped_ownPairs_gt s this _ _
      | none =>
        have hsv : s.sv = 0 := by simp [Sig.sv, hv]
        have : s.nargs + s.sv + j < s.lns := by simp [Sig.lns, hv]; omega
        rw [mapped_ownPairs_lt s this]
        simp only [Nat.zero_le, if_true, Nat.sub_zero]
        rcases ha with h | h
        · rw [List.getElem?_eq_none (by omega)]; rfl
        · rw [hv] at h; cases h
    rw [checkFormal_nil_iff, mapped_append, hposM, List.nil_append] at h1
    rcases kwM_kwf_e s hwf kg pa.length hk hj with ⟨hm, _⟩ | ⟨b, x, g, _, _, _, hx, hxs⟩
    · exfalso
      apply h1.1
      refine ⟨?_, hm, by simp⟩
      simp [hreq, FK.isRequired]
    · exact ⟨x, hx, hxs⟩

/-! ### the call site with `**TypedDict`s -/

theorem mergeKeys_ok : ∀ (ks acc : List Name), (acc ++ ks).Nodup → mergeKeys acc ks = .ok (acc ++ ks) := by
  intro ks
  induction ks with
  | nil => intro acc _; simp [mergeKeys]
  | cons k ks ih =>
    intro acc hnd
    have hk : acc.contains k = false := by
      have := (List.nodup_append.1 hnd).2.2
      cases hc : acc.contains k with
      | false => rfl
      | true =>
        have hm : k ∈ acc := by simpa using hc
        exact absurd rfl (this k hm k (List.mem_cons_self ..))
    simp only [mergeKeys, hk]
    have : (acc ++ [k] ++ ks).Nodup := by simpa using hnd
    rw [show (if false = true then Except.error (PyErr.kwDup k) else mergeKeys (acc ++ [k]) ks)
          = mergeKeys (acc ++ [k]) ks from rfl, ih _ this]
    simp

theorem evalCall_kgroups : ∀ (kg : List KwGroup) (n : Nat) (acc : List Name), (acc ++ flatKeys kg).Nodup →
    evalCall (kwActs kg) n acc = some (.ok (n, acc ++ flatKeys kg)) := by
  intro kg
  induction kg with
  | nil => intro n acc _; simp [kwActs, evalCall, flatKeys]
  | cons g r ih =>
    intro n acc hnd
    simp only [flatKeys] at hnd
    have h1 : (acc ++ g.keys).Nodup := by
      rw [← List.append_assoc] at hnd
      exact (List.nodup_append.1 hnd).1
    have h2 : (acc ++ g.keys ++ flatKeys r).Nodup := by simpa [List.append_assoc] using hnd
    cases g with
    | kw x =>
      simp only [kwActs, List.map_cons, KwGroup.toAct, evalCall]
      rw [mergeKeys_ok [x] acc (by simpa [KwGroup.keys] using h1)]
      simp only
      have := ih n (acc ++ [x]) (by simpa [KwGroup.keys] using h2)
      simp only [kwActs] at this
      rw [this]
      simp [flatKeys, KwGroup.keys]
    | td ks =>
      simp only [kwActs, List.map_cons, KwGroup.toAct, evalCall]
      rw [mergeKeys_ok ks acc (by simpa [KwGroup.keys] using h1)]
      simp only
      have := ih n (acc ++ ks) (by simpa [KwGroup.keys] using h2)
      simp only [kwActs] at this
      rw [this]
      simp [flatKeys, KwGroup.keys]

theorem pyCall_full (s : Sig) (pa : List (Option Nat)) (kg : List KwGroup) (hk : (flatKeys kg).Nodup) :
    pyCall s (fullCall pa kg) = some (pyBind s (width pa) (flatKeys kg)) := by
  unfold pyCall fullCall
  rw [evalCall_groups, evalCall_kgroups kg _ [] (by simpa using hk)]
  simp

end PyBind
