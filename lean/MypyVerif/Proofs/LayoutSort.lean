import MypyVerif.Proofs.LayoutDir
/-!
The order in which `find_sources_in_dir` looks at the entries of a directory (`keyfunc`) and what it implies for the
`seen` stems: the stub shadows the source, a source-yielding directory shadows both module files (C18 model).
-/
namespace Layout

/-! ### `keyLt` is a strict order on keys; `sortNames` sorts -/

theorem nameLt_irrefl : ∀ a : Name, nameLt a a = false := by
  intro a
  induction a with
  | nil => rfl
  | cons c cs ih => simp [nameLt, ih]

theorem nameLt_trans : ∀ a b c : Name, nameLt a b = true → nameLt b c = true → nameLt a c = true := by
  intro a
  induction a with
  | nil =>
    intro b c hab hbc
    cases b with
    | nil => simp [nameLt] at hab
    | cons y ys =>
      cases c with
      | nil => simp [nameLt] at hbc
      | cons z zs => simp [nameLt]
  | cons x xs ih =>
    intro b c hab hbc
    cases b with
    | nil => simp [nameLt] at hab
    | cons y ys =>
      cases c with
      | nil => simp [nameLt] at hbc
      | cons z zs =>
        simp only [nameLt] at hab hbc ⊢
        by_cases h1 : x.toNat < y.toNat
        · by_cases h2 : y.toNat < z.toNat
          · have : x.toNat < z.toNat := by omega
            simp [this]
          · simp only [h2, if_false] at hbc
            by_cases h3 : z.toNat < y.toNat
            · simp [h3] at hbc
            · have : x.toNat < z.toNat := by omega
              simp [this]
        · simp only [h1, if_false] at hab
          by_cases h1' : y.toNat < x.toNat
          · simp [h1'] at hab
          · simp only [h1', if_false] at hab
            have hxy : x.toNat = y.toNat := by omega
            by_cases h2 : y.toNat < z.toNat
            · have : x.toNat < z.toNat := by omega
              simp [this]
            · simp only [h2, if_false] at hbc
              by_cases h3 : z.toNat < y.toNat
              · simp [h3] at hbc
              · simp only [h3, if_false] at hbc
                have h4 : ¬ x.toNat < z.toNat := by omega
                have h5 : ¬ z.toNat < x.toNat := by omega
                simp only [h4, h5, if_false]
                exact ih ys zs hab hbc

abbrev Key := Bool × Nat × Name

theorem keyLt_irrefl (a : Key) : keyLt a a = false := by
  simp [keyLt, nameLt_irrefl]

theorem keyLt_trans (a b c : Key) (hab : keyLt a b = true) (hbc : keyLt b c = true) : keyLt a c = true := by
  obtain ⟨a1, a2, a3⟩ := a
  obtain ⟨b1, b2, b3⟩ := b
  obtain ⟨c1, c2, c3⟩ := c
  simp only [keyLt] at hab hbc ⊢
  cases a1 <;> cases b1 <;> cases c1 <;> simp at hab hbc ⊢
  all_goals
    by_cases h12 : a2 = b2
    · subst h12
      simp only [ne_eq, not_true_eq_false, if_false] at hab
      by_cases h23 : a2 = c2
      · subst h23
        simp only [ne_eq, not_true_eq_false, if_false] at hbc ⊢
        exact nameLt_trans _ _ _ hab hbc
      · simp only [ne_eq, h23, not_false_eq_true, if_true] at hbc ⊢
        exact hbc
    · simp only [ne_eq, h12, not_false_eq_true, if_true] at hab
      by_cases h23 : b2 = c2
      · subst h23
        simp only [ne_eq, h12, not_false_eq_true, if_true]
        exact hab
      · simp only [ne_eq, h23, not_false_eq_true, if_true] at hbc
        have hlt : a2 < c2 := by
          have h1 : a2 < b2 := by simpa using hab
          have h2 : b2 < c2 := by simpa using hbc
          omega
        have hne : a2 ≠ c2 := by omega
        simp only [ne_eq, hne, not_false_eq_true, if_true]
        simpa using hlt

theorem keyLt_asymm (a b : Key) (hab : keyLt a b = true) : keyLt b a = false := by
  cases h : keyLt b a with
  | false => rfl
  | true =>
    have := keyLt_trans a b a hab h
    rw [keyLt_irrefl] at this; cases this

/-- sorted: no later element is strictly smaller than an earlier one -/
def SortedK (l : List Name) : Prop := l.Pairwise (fun a b => keyLt (keyfunc b) (keyfunc a) = false)

theorem sortedK_insert (n : Name) : ∀ l : List Name, SortedK l → SortedK (insertByKey n l) := by
  intro l
  induction l with
  | nil => intro _; simp [insertByKey, SortedK]
  | cons m ms ih =>
    intro h
    unfold SortedK at h ⊢
    rw [List.pairwise_cons] at h
    simp only [insertByKey]
    split
    · next hlt =>
      rw [List.pairwise_cons]
      refine ⟨?_, List.pairwise_cons.mpr h⟩
      intro b hb
      cases hb with
      | head => exact keyLt_asymm _ _ hlt
      | tail _ hb =>
        cases hk : keyLt (keyfunc b) (keyfunc n) with
        | false => rfl
        | true =>
          have := keyLt_trans _ _ _ hk hlt
          rw [h.1 b hb] at this; cases this
    · next hnlt =>
      rw [List.pairwise_cons]
      refine ⟨?_, ih h.2⟩
      intro b hb
      rcases mem_insertByKey.mp hb with rfl | hb
      · simpa using hnlt
      · exact h.1 b hb

theorem sortedK_sortNames (l : List Name) : SortedK (sortNames l) := by
  induction l with
  | nil => simp [sortNames, SortedK]
  | cons a as ih =>
    have : sortNames (a :: as) = insertByKey a (sortNames as) := rfl
    rw [this]
    exact sortedK_insert a _ ih

/-! ### keys of the three claimants of a stem -/

theorem keyfunc_pyi {st : Name} (hne : st ≠ []) (hnd : ∀ c ∈ st, c ≠ '.') :
    keyfunc (st ++ extPyi) = (st != sInit, 1, st) := by
  simp [keyfunc, (splitext_ext hne hnd).2]

theorem keyfunc_py {st : Name} (hne : st ≠ []) (hnd : ∀ c ∈ st, c ≠ '.') :
    keyfunc (st ++ extPy) = (st != sInit, 2, st) := by
  have h : extPy ≠ extPyi := by decide
  simp [keyfunc, (splitext_ext hne hnd).1, h]

theorem keyLt_pyi_py {st : Name} (hne : st ≠ []) (hnd : ∀ c ∈ st, c ≠ '.') :
    keyLt (keyfunc (st ++ extPyi)) (keyfunc (st ++ extPy)) = true := by
  rw [keyfunc_pyi hne hnd, keyfunc_py hne hnd]
  simp [keyLt]

theorem first_occurrence {n : Name} : ∀ {l : List Name}, n ∈ l → ∃ pre post, l = pre ++ n :: post ∧ n ∉ pre := by
  intro l
  induction l with
  | nil => intro h; cases h
  | cons a as ih =>
    intro h
    by_cases han : a = n
    · exact ⟨[], as, by simp [han], by simp⟩
    · have : n ∈ as := by
        cases h with
        | head => exact absurd rfl han
        | tail _ h => exact h
      obtain ⟨pre, post, he, hn⟩ := ih this
      exact ⟨a :: pre, post, by simp [he], by simp [hn, Ne.symm han]⟩

variable (fs : FS) (o : Opts)

/-- an entry that can put the stem `st` into `seen`: a directory called `st`, or a `.py[i]` file with stem `st` -/
def addsStem (path : Path) (st : Name) (a : Name) : Prop :=
  (fs.isDir (path ++ [a]) = true ∧ a = st) ∨
  (fs.isDir (path ++ [a]) = false ∧ (splitext a).1 = st ∧ isPyExt (splitext a).2 = true)

/-- a file entry is emitted when nothing before it could have put its stem into `seen` -/
theorem loopDir_emits {recur : Path → Except Err (List Src)} {path : Path} {n : Name}
    (hskip : skipName n = false) (hnd : fs.isDir (path ++ [n]) = false) (hpy : isPyExt (splitext n).2 = true) :
    ∀ (pre post seen : List Name) (out : List Src), loopDir fs o recur path (pre ++ n :: post) seen = .ok out →
      (splitext n).1 ∉ seen → (∀ a ∈ pre, ¬ addsStem fs path (splitext n).1 a) →
      ∃ s ∈ out, s.path = path ++ [n] := by
  intro pre
  induction pre with
  | nil =>
    intro post seen out h hseen _
    simp only [List.nil_append, loopDir, hskip, hnd] at h
    have hc : (!seen.contains (splitext n).1 && isPyExt (splitext n).2) = true := by
      simp [hpy, hseen]
    simp only [Bool.false_eq_true, if_false, hc, if_true] at h
    split at h
    · cases h
    · next s0 hcs =>
      split at h
      · cases h
      · simp only [Except.ok.injEq] at h
        subst h
        exact ⟨s0, by simp, crawlSrc_path fs o hcs⟩
  | cons a pre ih =>
    intro post seen out h hseen hadds
    have ha := hadds a (by simp)
    have hadds' : ∀ b ∈ pre, ¬ addsStem fs path (splitext n).1 b := fun b hb => hadds b (by simp [hb])
    simp only [List.cons_append, loopDir] at h
    split at h
    · exact ih _ _ _ h hseen hadds'
    · split at h
      · next hda =>
        have hne : a ≠ (splitext n).1 := fun he => ha (Or.inl ⟨hda, he⟩)
        split at h
        · cases h
        · exact ih _ _ _ h hseen hadds'
        · split at h
          · cases h
          · next more hm =>
            simp only [Except.ok.injEq] at h
            subst h
            obtain ⟨s, hs, hp⟩ := ih _ _ _ hm (by simp [hseen, Ne.symm hne]) hadds'
            exact ⟨s, by simp [hs], hp⟩
      · next hnda =>
        have hnda' : fs.isDir (path ++ [a]) = false := by simpa using hnda
        split at h
        · next hemit =>
          simp only [Bool.and_eq_true] at hemit
          have hne : (splitext a).1 ≠ (splitext n).1 := fun he => ha (Or.inr ⟨hnda', he, hemit.2⟩)
          split at h
          · cases h
          · split at h
            · cases h
            · next more hm =>
              simp only [Except.ok.injEq] at h
              subst h
              obtain ⟨s, hs, hp⟩ := ih _ _ _ hm (by simp [hseen, Ne.symm hne]) hadds'
              exact ⟨s, by simp [hs], hp⟩
        · exact ih _ _ _ h hseen hadds'

/-- a file entry that claims the stem `st`: a `.py[i]` file with that stem which the loop looks at -/
def fileClaims (path : Path) (st : Name) (a : Name) : Prop :=
  skipName a = false ∧ fs.isDir (path ++ [a]) = false ∧ (splitext a).1 = st ∧ isPyExt (splitext a).2 = true

/-- an entry that takes the stem `st`: a `.py[i]` file with that stem, or a directory called `st` that yields sources -/
def claimsStem (recur : Path → Except Err (List Src)) (path : Path) (st : Name) (a : Name) : Prop :=
  fileClaims fs path st a ∨
  (skipName a = false ∧ fs.isDir (path ++ [a]) = true ∧ a = st ∧ ∃ s0 ss, recur (path ++ [a]) = .ok (s0 :: ss))

/-- a file entry is *not* emitted when its stem is already seen or another claimant of the stem precedes every
    occurrence of it -/
theorem loopDir_not_emitted {recur : Path → Except Err (List Src)} {path : Path} {n : Name}
    (hrec : ∀ a l, recur (path ++ [a]) = .ok l → ∀ s ∈ l, s.path ≠ path ++ [n]) :
    ∀ (names seen : List Name) (out : List Src), loopDir fs o recur path names seen = .ok out →
      ((splitext n).1 ∈ seen ∨
        ∀ pre post, names = pre ++ n :: post → ∃ b ∈ pre, b ≠ n ∧ claimsStem fs recur path (splitext n).1 b) →
      ∀ s ∈ out, s.path ≠ path ++ [n] := by
  intro names
  induction names with
  | nil => intro seen out h _ s hs; simp only [loopDir] at h; cases h; cases hs
  | cons a rest ih =>
    intro seen out h hyp
    -- the hypothesis for the rest of the list, given that `a` itself is not a claimant or the stem gets seen
    have transfer : ∀ seen' : List Name, (∀ x ∈ seen, x ∈ seen') →
        (claimsStem fs recur path (splitext n).1 a → (splitext n).1 ∈ seen') →
        ((splitext n).1 ∈ seen' ∨
          ∀ pre post, rest = pre ++ n :: post → ∃ b ∈ pre, b ≠ n ∧ claimsStem fs recur path (splitext n).1 b) := by
      intro seen' hsub hclaim
      rcases hyp with h1 | h2
      · exact Or.inl (hsub _ h1)
      · by_cases hca : claimsStem fs recur path (splitext n).1 a
        · exact Or.inl (hclaim hca)
        · right
          intro pre post he
          obtain ⟨b, hb, hbn, hbc⟩ := h2 (a :: pre) post (by simp [he])
          cases hb with
          | head => exact absurd hbc hca
          | tail _ hb => exact ⟨b, hb, hbn, hbc⟩
    simp only [loopDir] at h
    split at h
    · next hsk =>
      exact ih _ _ h (transfer seen (fun _ hx => hx) (fun hc => by
        rcases hc with hc | hc
        · rw [hc.1] at hsk; cases hsk
        · rw [hc.1] at hsk; cases hsk))
    · split at h
      · next hda =>
        have hnc : fileClaims fs path (splitext n).1 a → False := fun hc => by rw [hc.2.1] at hda; cases hda
        split at h
        · cases h
        · next hr0 =>
          exact ih _ _ h (transfer seen (fun _ hx => hx) (fun hc => by
            rcases hc with hc | ⟨_, _, _, s0, ss, hr⟩
            · exact (hnc hc).elim
            · rw [hr0] at hr; cases hr))
        · next s0 ss hr =>
          split at h
          · cases h
          · next more hm =>
            simp only [Except.ok.injEq] at h
            subst h
            intro s hs
            simp only [List.cons_append, List.mem_cons, List.mem_append] at hs
            rcases hs with rfl | hs | hs
            · exact hrec a _ hr _ (by simp)
            · exact hrec a _ hr s (by simp [hs])
            · exact ih _ _ hm (transfer (a :: seen) (fun _ hx => by simp [hx]) (fun hc => by
                rcases hc with hc | ⟨_, _, hst, _⟩
                · exact (hnc hc).elim
                · simp [hst])) s hs
      · next hnda =>
        split at h
        · next hemit =>
          simp only [Bool.and_eq_true, Bool.not_eq_true', List.contains_eq_mem, decide_eq_false_iff_not] at hemit
          split at h
          · cases h
          · next s0 hcs =>
            split at h
            · cases h
            · next more hm =>
              simp only [Except.ok.injEq] at h
              subst h
              have han : a ≠ n := by
                intro he
                subst he
                rcases hyp with h1 | h2
                · exact hemit.1 h1
                · obtain ⟨b, hb, _⟩ := h2 [] rest rfl
                  cases hb
              intro s hs
              simp only [List.mem_cons] at hs
              rcases hs with rfl | hs
              · rw [crawlSrc_path fs o hcs]
                intro he
                have := List.append_cancel_left he
                simp only [List.cons.injEq, and_true] at this
                exact han this
              · exact ih _ _ hm (transfer ((splitext a).1 :: seen) (fun _ hx => by simp [hx])
                  (fun hc => by
                    rcases hc with hc | ⟨_, hd, _⟩
                    · simp [hc.2.2.1]
                    · exact absurd hd hnda)) s hs
        · next hnoemit =>
          refine ih _ _ h (transfer seen (fun _ hx => hx) (fun hc => ?_))
          rcases hc with hc | ⟨_, hd, _⟩
          · simp only [hc.2.2.2, Bool.and_true, Bool.not_eq_true', Bool.not_eq_false, List.contains_eq_mem,
              decide_eq_true_eq] at hnoemit
            rw [← hc.2.2.1]; exact hnoemit
          · exact absurd hd hnda

theorem ext_ne {st : Name} : st ++ extPyi ≠ st ++ extPy := by
  intro h
  have := List.append_cancel_left h
  revert this; decide

/-- **The directory listing prefers the stub.**  In a directory with `st.pyi` (and no directory called `st`),
    `find_sources_in_dir` lists `st.pyi`; a sibling `st.py` is not listed — the same preference as `_find_module`'s
    (`.pyi` before `.py`, see `modFiles`). -/
theorem dir_stub_wins (wf : fs.WF) {k : Nat} {D : Path} {st : Name} {S : List Src}
    (hS : findSourcesInDir fs o (k + 1) D = .ok S)
    (hne : st ≠ []) (hnd : ∀ c ∈ st, c ≠ '.')
    (hpyi : fs.isFile (D ++ [st ++ extPyi]) = true) (hskip : skipName (st ++ extPyi) = false)
    (hnodir : fs.isDir (D ++ [st]) = false) :
    (∃ s ∈ S, s.path = D ++ [st ++ extPyi]) ∧ ∀ s ∈ S, s.path ≠ D ++ [st ++ extPy] := by
  simp only [findSourcesInDir] at hS
  have hsorted := sortedK_sortNames (fs.listdir D)
  have hmem : st ++ extPyi ∈ sortNames (fs.listdir D) :=
    mem_sortNames.mpr ((wf.listed D _).mpr (Or.inl hpyi))
  have hsp := (splitext_ext hne hnd)
  have hndpyi : fs.isDir (D ++ [st ++ extPyi]) = false := wf.notBoth _ hpyi
  have hclaims : fileClaims fs D st (st ++ extPyi) := ⟨hskip, hndpyi, by rw [hsp.2], by rw [hsp.2]; simp [isPyExt]⟩
  constructor
  · obtain ⟨pre, post, he, hnpre⟩ := first_occurrence hmem
    rw [he] at hS hsorted
    have hpw := (List.pairwise_append.mp hsorted).2.2
    apply loopDir_emits fs o hskip hndpyi (by rw [hsp.2]; simp [isPyExt]) pre post [] S hS (by simp)
    intro a ha hadds
    rw [hsp.2] at hadds
    rcases hadds with ⟨hda, rfl⟩ | ⟨_, hst, hpy⟩
    · rw [hnodir] at hda; cases hda
    · have hspec := splitext_spec (n := a) (st := (splitext a).1) (e := (splitext a).2) rfl
      rw [isPyExt_iff] at hpy
      rcases hpy with hpy | hpy
      · have : a = st ++ extPyi := by rw [hspec.1, hst, hpy]
        exact hnpre (this ▸ ha)
      · have haeq : a = st ++ extPy := by rw [hspec.1, hst, hpy]
        have := hpw a ha (st ++ extPyi) (by simp)
        rw [haeq, keyLt_pyi_py hne hnd] at this
        cases this
  · apply loopDir_not_emitted fs o ?_ _ _ _ hS
    · right
      intro pre post he
      refine ⟨st ++ extPyi, ?_, ext_ne, Or.inl ?_⟩
      · rw [he] at hmem hsorted
        rcases List.mem_append.mp hmem with h | h
        · exact h
        · exfalso
          rw [List.mem_cons] at h
          rcases h with h | h
          · exact ext_ne h
          · -- `st.pyi` after `st.py` contradicts the sort order
            have hpw := (List.pairwise_append.mp hsorted).2.1
            rw [List.pairwise_cons] at hpw
            have := hpw.1 _ h
            rw [keyLt_pyi_py hne hnd] at this
            cases this
      · rw [hsp.1]; exact hclaims
    · intro a l hl s hs he
      obtain ⟨rel, hp, hw, _⟩ := findSourcesInDir_sound fs o wf k _ _ hl s hs
      have hne1 := walkable_ne_nil fs hw
      have := congrArg List.length (hp.symm.trans he)
      simp at this
      cases rel with
      | nil => exact hne1 rfl
      | cons _ _ => simp at this

theorem keyfunc_plain {st : Name} (hnd : ∀ c ∈ st, c ≠ '.') : keyfunc st = (st != sInit, 0, st) := by
  have h1 : ([] : Name) ≠ extPyi := by decide
  have h2 : ([] : Name) ≠ extPy := by decide
  simp [keyfunc, splitext_no_dot hnd, h1, h2]

theorem keyLt_plain_ext {st : Name} (hne : st ≠ []) (hnd : ∀ c ∈ st, c ≠ '.') :
    keyLt (keyfunc st) (keyfunc (st ++ extPyi)) = true ∧ keyLt (keyfunc st) (keyfunc (st ++ extPy)) = true := by
  rw [keyfunc_plain hnd, keyfunc_pyi hne hnd, keyfunc_py hne hnd]
  simp [keyLt]

/-- **The directory listing prefers the directory.**  When `D/st` is a directory that yields sources, neither
    `D/st.pyi` nor `D/st.py` is listed (for a regular package this is `_find_module`'s "package over module"; for a
    directory without `__init__` it is the F10 cell). -/
theorem dir_package_wins (wf : fs.WF) {k : Nat} {D : Path} {st : Name} {S : List Src} {s0 : Src} {ss : List Src}
    (hS : findSourcesInDir fs o (k + 1) D = .ok S)
    (hne : st ≠ []) (hnd : ∀ c ∈ st, c ≠ '.') (hskip : skipName st = false)
    (hdir : fs.isDir (D ++ [st]) = true) (hyield : findSourcesInDir fs o k (D ++ [st]) = .ok (s0 :: ss)) :
    ∀ s ∈ S, s.path ≠ D ++ [st ++ extPyi] ∧ s.path ≠ D ++ [st ++ extPy] := by
  simp only [findSourcesInDir] at hS
  have hsorted := sortedK_sortNames (fs.listdir D)
  have hmem : st ∈ sortNames (fs.listdir D) := mem_sortNames.mpr ((wf.listed D _).mpr (Or.inr hdir))
  have hsp := splitext_ext hne hnd
  have hk := keyLt_plain_ext hne hnd
  have hshape : ∀ n : Name, ∀ a l, findSourcesInDir fs o k (D ++ [a]) = .ok l → ∀ s ∈ l, s.path ≠ D ++ [n] := by
    intro n a l hl s hs he
    obtain ⟨rel, hp, hw, _⟩ := findSourcesInDir_sound fs o wf k _ _ hl s hs
    have hne1 := walkable_ne_nil fs hw
    have := congrArg List.length (hp.symm.trans he)
    simp at this
    cases rel with
    | nil => exact hne1 rfl
    | cons _ _ => simp at this
  have key : ∀ n : Name, (splitext n).1 = st → keyLt (keyfunc st) (keyfunc n) = true → st ≠ n →
      ∀ s ∈ S, s.path ≠ D ++ [n] := by
    intro n hstem hlt hnen
    apply loopDir_not_emitted fs o (hshape n) _ _ _ hS
    right
    intro pre post he
    refine ⟨st, ?_, hnen, Or.inr ⟨hskip, hdir, hstem.symm, s0, ss, hyield⟩⟩
    rw [he] at hmem hsorted
    rcases List.mem_append.mp hmem with h | h
    · exact h
    · exfalso
      rw [List.mem_cons] at h
      rcases h with h | h
      · exact hnen h
      · have hpw := (List.pairwise_append.mp hsorted).2.1
        rw [List.pairwise_cons] at hpw
        have := hpw.1 _ h
        rw [hlt] at this
        cases this
  intro s hs
  have hne1 : st ≠ st ++ extPyi := by
    intro h
    have := congrArg List.length h
    simp [extPyi] at this
  have hne2 : st ≠ st ++ extPy := by
    intro h
    have := congrArg List.length h
    simp [extPy] at this
  exact ⟨key _ (by rw [hsp.2]) hk.1 hne1 s hs, key _ (by rw [hsp.1]) hk.2 hne2 s hs⟩

end Layout
