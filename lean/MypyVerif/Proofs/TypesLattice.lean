import MypyVerif.Proofs.TypesJoinFuel
/-! Lattice laws, part 1: object is the top, fallback lemmas, the instance walk of `join_instances`. -/
namespace Types
variable {H : Hier}

theorem S_never_wf (p : Bool) {t : Ty} (hw : t.wf H = true) : S H p .never t = true := by
  rw [S_leaves']
  simp only [flattenT, List.all_cons, List.all_nil, Bool.and_true]
  obtain ⟨y, hy⟩ := List.exists_mem_of_ne_nil _ (flattenT_ne_nil t hw)
  rw [List.any_eq_true]
  exact ⟨y, hy, S_never_atom p (flattenT_not_union t y hy)⟩

/-- every instance is a subtype of object -/
theorem S_inst_obj (hok : H.Ok) (p : Bool) {t : Ty} (hw : t.wf H = true) {c : Nat} (hc : t.cls = some c) :
    S H p t (.inst H.objectC) = true := by
  rw [S_inst_iff hok p hw (wf_obj hok) hc rfl]
  exact ⟨.na, hok.sup_obj c (wf_cls hw hc).1, by intro x y _ hy; simp [Ty.arg?] at hy⟩

/-- object is the top of the fragment -/
theorem S_top (hok : H.Ok) (p : Bool) {t : Ty} (hw : t.wf H = true) : S H p t (.inst H.objectC) = true := by
  rw [S_leaves']
  simp only [flattenT, List.any_cons, List.any_nil, Bool.or_false]
  rw [List.all_eq_true]
  intro x hx
  have hxu := flattenT_not_union t x hx
  have hxw := flattenT_wf t hw x hx
  have hfn := S_inst_obj hok p (wf_fn hok) (c := H.functionC) rfl
  rw [S_atom H p x _ hxu rfl]
  simp only [Bool.or_eq_true]
  right
  cases x with
  | union _ => simp [Ty.isUnion] at hxu
  | never => simp [subAtom]
  | none => simp [subAtom]
  | inst c =>
    have := S_inst_obj hok p hxw (c := c) rfl
    rw [S_atom H p _ _ rfl rfl] at this
    simp only [Bool.or_eq_true] at this
    rcases this with h | h
    · have : Ty.inst c = Ty.inst H.objectC := by simpa using h
      cases this
      simp [subAtom, subFromInstance, subInstance, hasBase_eq hok hok.obj_mem, hok.sup_obj _ hok.obj_mem,
        Hier.mapTo]
    · exact h
  | gen c a =>
    have := S_inst_obj hok p hxw (c := c) rfl
    rw [S_atom H p _ _ rfl rfl] at this
    simpa using this
  | tuple ls => simp [subAtom, subFromTuple]
  | callable as r => simpa [subAtom, subFromCallable] using hfn
  | lit c v => simpa [subAtom] using S_inst_obj hok p (wf_lit hxw) (c := c) rfl
  | typeType y => simp [subAtom, subFromTypeType]

/-- a literal is below whatever its fallback is below -/
theorem lit_le (p : Bool) {c v : Nat} {r : Ty} (h : S H p (.inst c) r = true) : S H p (.lit c v) r = true := by
  rw [S_leaves'] at h ⊢
  simp only [flattenT, List.all_cons, List.all_nil, Bool.and_true] at h ⊢
  rw [List.any_eq_true] at h ⊢
  obtain ⟨y, hy, hs⟩ := h
  refine ⟨y, hy, ?_⟩
  have hyu := flattenT_not_union r y hy
  rw [S_atom H p _ _ rfl hyu]
  simp only [Bool.or_eq_true]
  right
  cases y with
  | lit c' v' =>
    rw [S_atom H p _ _ rfl rfl] at hs
    simp [subAtom, subFromInstance] at hs
  | union _ => simp [Ty.isUnion] at hyu
  | never | none | inst _ | gen _ _ | tuple _ | callable _ _ | typeType _ => simpa [subAtom] using hs

/-- a callable is below whatever `builtins.function` is below -/
theorem callable_le (p : Bool) {as : List Ty} {ret r : Ty} (h : S H p (.inst H.functionC) r = true) :
    S H p (.callable as ret) r = true := by
  rw [S_leaves'] at h ⊢
  simp only [flattenT, List.all_cons, List.all_nil, Bool.and_true] at h ⊢
  rw [List.any_eq_true] at h ⊢
  obtain ⟨y, hy, hs⟩ := h
  refine ⟨y, hy, ?_⟩
  have hyu := flattenT_not_union r y hy
  obtain ⟨cc, hcc⟩ := S_inst_right p (a := .inst H.functionC) rfl hyu hs
  rw [S_atom H p _ _ rfl hyu]
  simp only [Bool.or_eq_true]
  right
  cases y <;> simp [Ty.cls] at hcc <;> simpa [subAtom, subFromCallable] using hs

theorem argTo_mapTo (hok : H.Ok) {t : Ty} (hw : t.wf H = true) {c b : Nat} (hc : t.cls = some c)
    (hb : b ∈ H.classes) {m m2 : BaseArg} (hm : H.sup c b = some m) :
    argTo (H.mapTo t b) m2 = argTo t (m.comp m2) := by
  rw [mapTo_eq hok hw hc hb hm]
  cases m2 with
  | na => simp [argTo, BaseArg.comp]
  | const a => simp [argTo, BaseArg.comp]
  | param =>
    show argTo (match argTo t m with | some x => Ty.gen b x | Option.none => Ty.inst b) .param = argTo t m
    generalize argTo t m = q
    cases q <;> simp [argTo, Ty.arg?]

/-- one step up the hierarchy: whatever the mapped instance is below, the instance is below -/
theorem nominal_step (hok : H.Ok) (p : Bool) {t : Ty} (hw : t.wf H = true) {c b : Nat} (hc : t.cls = some c)
    (hb : b ∈ H.classes) {m : BaseArg} (hm : H.sup c b = some m) {r : Ty} (hwr : r.wf H = true)
    (h : S H p (H.mapTo t b) r = true) : S H p t r = true := by
  obtain ⟨hwm, hcm⟩ := mapTo_wf hok hw hc hb hm
  have htu := (isInstance_of_cls hc).2
  have hmu := (isInstance_of_cls hcm).2
  rw [S_leaves'] at h ⊢
  rw [flattenT_of_not_union hmu] at h
  rw [flattenT_of_not_union htu]
  simp only [List.all_cons, List.all_nil, Bool.and_true] at h ⊢
  rw [List.any_eq_true] at h ⊢
  obtain ⟨y, hy, hs⟩ := h
  refine ⟨y, hy, ?_⟩
  have hyu := flattenT_not_union r y hy
  have hyw := flattenT_wf r hwr y hy
  obtain ⟨cc, hcc⟩ := S_inst_right p hcm hyu hs
  obtain ⟨m2, hm2, A⟩ := (S_inst_iff hok p hwm hyw hcm hcc).1 hs
  rw [S_inst_iff hok p hw hyw hc hcc]
  refine ⟨m.comp m2, hok.sup_trans c (wf_cls hw hc).1 b hb cc (wf_cls hyw hcc).1 m m2 hm hm2, ?_⟩
  intro x z hx hz
  exact A x z (by rw [argTo_mapTo hok hw hc hb hm]; exact hx) hz


/-- mixed transitivity `x ≤(proper) w ≤ z ⇒ x ≤ z` when `builtins.function` does not occur in `x` -/
theorem trans_pf (hok : H.Ok) {x w z : Ty} (hwx : x.wf H = true) (hww : w.wf H = true) (hwz : z.wf H = true)
    (hnf : x.noFunc H = true) (h1 : S H true x w = true) (h2 : S H false w z = true) : S H false x z = true := by
  have := trans_all hok _ true false x w z (Nat.le_refl _) ⟨Or.inl rfl, Or.inr hnf⟩ hwx hww hwz h1 h2
  simpa using this

/-- mixed transitivity `x ≤ w ≤(proper) z ⇒ x ≤ z` when `builtins.function` does not occur in `z` -/
theorem trans_fp (hok : H.Ok) {x w z : Ty} (hwx : x.wf H = true) (hww : w.wf H = true) (hwz : z.wf H = true)
    (hnf : z.noFunc H = true) (h1 : S H false x w = true) (h2 : S H true w z = true) : S H false x z = true := by
  have := trans_all hok _ false true x w z (Nat.le_refl _) ⟨Or.inr hnf, Or.inl rfl⟩ hwx hww hwz h1 h2
  simpa using this

theorem S_leaf_intro (p : Bool) {l r : Ty} (h : ∀ x ∈ flattenT l, ∃ y ∈ flattenT r, S H p x y = true) :
    S H p l r = true := by
  rw [S_leaves', List.all_eq_true]
  intro x hx
  rw [List.any_eq_true]
  exact h x hx

theorem S_leaf_elim (p : Bool) {l r : Ty} (h : S H p l r = true) :
    ∀ x ∈ flattenT l, ∃ y ∈ flattenT r, S H p x y = true := by
  rw [S_leaves', List.all_eq_true] at h
  intro x hx
  have := h x hx
  rwa [List.any_eq_true] at this

mutual
theorem flattenT_noFunc : ∀ (t : Ty), t.noFunc H = true → ∀ x ∈ flattenT t, x.noFunc H = true
  | .union is, hw, x, hx => by
    simp only [flattenT] at hx
    exact flattenL_noFunc is (by simpa [Ty.noFunc] using hw) x hx
  | .never, hw, x, hx | .none, hw, x, hx | .inst _, hw, x, hx | .gen _ _, hw, x, hx | .tuple _, hw, x, hx
  | .callable _ _, hw, x, hx | .lit _ _, hw, x, hx | .typeType _, hw, x, hx => by
    simp [flattenT] at hx; subst hx; exact hw
theorem flattenL_noFunc : ∀ (ts : List Ty), noFuncL H ts = true → ∀ x ∈ flattenL ts, x.noFunc H = true
  | [], _, x, hx => by simp [flattenL] at hx
  | t :: ts, hw, x, hx => by
    simp only [flattenL, List.mem_append] at hx
    simp [noFuncL] at hw
    rcases hx with hx | hx
    · exact flattenT_noFunc t hw.1 x hx
    · exact flattenL_noFunc ts hw.2 x hx
end

/-- `l ≤(proper, leafwise cover) u ≤ z ⇒ l ≤ z` -/
theorem cover_trans (hok : H.Ok) {l u z : Ty} (hwl : l.wf H = true) (hwu : u.wf H = true) (hwz : z.wf H = true)
    (hnf : l.noFunc H = true)
    (hcov : ∀ x ∈ flattenT l, ∃ w ∈ flattenT u, S H true x w = true) (h2 : S H false u z = true) :
    S H false l z = true := by
  apply S_leaf_intro
  intro x hx
  obtain ⟨w, hw, hxw⟩ := hcov x hx
  obtain ⟨y, hy, hwy⟩ := S_leaf_elim false h2 w hw
  exact ⟨y, hy, trans_pf hok (flattenT_wf l hwl x hx) (flattenT_wf u hwu w hw) (flattenT_wf z hwz y hy)
    (flattenT_noFunc l hnf x hx) hxw hwy⟩

/-- every item of a tuple is (leafwise, properly) covered by the simplified union of the items -/
theorem item_cover (hok : H.Ok) {ts : List Ty} (hw : wfL H ts = true) {li : Ty} (hli : li ∈ ts) :
    ∀ x ∈ flattenT li, ∃ w ∈ flattenT (simplifyUnion H ts), S H true x w = true := by
  intro x hx
  exact (simplify_spec hok ts hw).2.2 x (mem_flattenL_iff.2 ⟨li, hli, hx⟩)

/-- a fixed tuple is below whatever its fallback `tuple[Union[items]]` is below -/
theorem tuple_le_fallback (hok : H.Ok) {ts : List Ty} (hwt : (Ty.tuple ts).wf H = true)
    (hnf : (Ty.tuple ts).noFunc H = true) {r : Ty} (hwr : r.wf H = true)
    (h : S H false (tupleFallback H ts) r = true) : S H false (.tuple ts) r = true := by
  have hwts : wfL H ts = true := by simpa [Ty.wf] using hwt
  have hwf := tupleFallback_wf hok hwt
  have hwu : (simplifyUnion H ts).wf H = true := simplify_wf hok ts hwts
  apply S_leaf_intro
  intro x hx
  simp only [flattenT, List.mem_singleton] at hx
  subst hx
  obtain ⟨y, hy, hs⟩ := S_leaf_elim false h (tupleFallback H ts) (by simp [tupleFallback, flattenT])
  refine ⟨y, hy, ?_⟩
  have hyu := flattenT_not_union r y hy
  have hyw := flattenT_wf r hwr y hy
  obtain ⟨cc, hcc⟩ := S_inst_right false (a := tupleFallback H ts) (ca := H.tupleC) rfl hyu hs
  obtain ⟨m, hm, A⟩ := (S_inst_iff hok false hwf hyw (c := H.tupleC) rfl hcc).1 hs
  have hccm := (wf_cls hyw hcc).1
  rw [S_atom H false _ _ rfl hyu]
  simp only [Bool.or_eq_true]
  right
  rcases hok.tl_up H.tupleC hok.tup_mem hok.tup_tl cc hccm m hm with ⟨_, hco⟩ | ⟨hmp, htl⟩
  · subst hco
    have : y = .inst H.objectC := ((wf_cls hyw hcc).2.2).1 hok.obj_ng
    subst this
    simp [subAtom, subFromTuple]
  · subst hmp
    obtain ⟨z, hz⟩ := ((wf_cls hyw hcc).2.1).1 (hok.tl_generic cc hccm htl).1
    subst hz
    have hA := A (simplifyUnion H ts) z (by simp [argTo, tupleFallback, Ty.arg?]) rfl
    rw [(hok.tl_generic cc hccm htl).2] at hA
    simp only [varCheck] at hA
    simp only [subAtom, subFromTuple, htl, if_true]
    rw [List.all_eq_true]
    intro li hli
    exact cover_trans hok (wfL_mem hwts li hli) hwu (wf_gen hyw).2.2 (noFunc_tuple hnf li hli)
      (item_cover hok hwts hli) hA

/-! ### `Type[...]` normalisation -/

theorem normType_upper (p : Bool) {x j : Ty} (hx : x.isUnion = false) (h : S H p x j = true) :
    S H p (.typeType x) (normType j) = true := by
  cases j with
  | union js =>
    simp only [normType]
    rw [S_union_right H p x js hx, List.any_eq_true] at h
    obtain ⟨ji, hji, hs⟩ := h
    have hmem : Ty.typeType ji ∈ js.map Ty.typeType := List.mem_map.2 ⟨ji, hji, rfl⟩
    have hstep : S H p (.typeType x) (.typeType ji) = true := by
      rw [S_atom H p _ _ rfl rfl]; simp [subAtom, subFromTypeType, hs]
    match hl : js.map Ty.typeType, hmem with
    | [a], hmem => simp at hmem; subst hmem; simpa [makeUnion] using hstep
    | a :: b :: cs, hmem =>
      simp only [makeUnion]
      rw [S_union_right H p _ _ rfl, List.any_eq_true]
      exact ⟨_, hmem, hstep⟩
  | never | none | inst _ | gen _ _ | tuple _ | callable _ _ | lit _ _ | typeType _ =>
    simp only [normType]
    rw [S_atom H p _ _ rfl rfl]; simp [subAtom, subFromTypeType, h]

theorem normType_lower (p : Bool) {x j : Ty} (h : S H p j x = true) :
    S H p (normType j) (.typeType x) = true := by
  have hstep : ∀ ji, S H p ji x = true → S H p (.typeType ji) (.typeType x) = true := by
    intro ji hs
    rw [S_atom H p _ _ rfl rfl]; simp [subAtom, subFromTypeType, hs]
  cases j with
  | union js =>
    simp only [normType]
    rw [S_union_left, List.all_eq_true] at h
    match hl : js.map Ty.typeType with
    | [] => simp only [makeUnion]; exact S_never_atom p rfl
    | [a] =>
      simp only [makeUnion]
      have : a ∈ js.map Ty.typeType := by rw [hl]; simp
      obtain ⟨ji, hji, rfl⟩ := List.mem_map.1 this
      exact hstep ji (h ji hji)
    | a :: b :: cs =>
      simp only [makeUnion]
      rw [S_union_left, List.all_eq_true]
      intro t ht
      rw [← hl] at ht
      obtain ⟨ji, hji, rfl⟩ := List.mem_map.1 ht
      exact hstep ji (h ji hji)
  | never | none | inst _ | gen _ _ | tuple _ | callable _ _ | lit _ _ | typeType _ =>
    simp only [normType]; exact hstep _ h

theorem normType_wf {j : Ty} (h : j.wf H = true) : (normType j).wf H = true := by
  cases j with
  | union js =>
    simp only [normType]
    obtain ⟨h1, h2, _⟩ := wf_union h
    apply makeUnion_wf
    intro t ht
    obtain ⟨ji, hji, rfl⟩ := List.mem_map.1 ht
    have := h2 ji hji
    refine ⟨?_, rfl⟩
    show (Ty.wf H ji && !Ty.isUnion ji) = true
    rw [wfL_mem h1 ji hji, this]; rfl
  | never | none | inst _ | gen _ _ | tuple _ | callable _ _ | lit _ _ | typeType _ =>
    simp only [normType]
    show (Ty.wf H _ && !Ty.isUnion _) = true
    rw [h]; rfl


/-- what the laws need from a join `j` of `x` and `y` -/
structure Good (H : Hier) (x y j : Ty) : Prop where
  wf : j.wf H = true
  left : S H false x j = true
  right : S H false y j = true
  equiv : S H false x y = true → S H false y x = true → S H false j x = true ∧ S H false j y = true

theorem isEquivalent_iff (a b : Ty) : isEquivalent H a b = true ↔ S H false a b = true ∧ S H false b a = true := by
  simp [isEquivalent, isSubtype_eq]

theorem pickBest_mem (H : Hier) : ∀ (xs : List Ty) (b : Option Ty),
    (∃ b', b = some b' ∧ (pickBest H b xs = b' ∨ pickBest H b xs ∈ xs)) ∨
    (b = Option.none ∧ (pickBest H b xs ∈ xs ∨ (xs = [] ∧ pickBest H b xs = .inst H.objectC))) := by
  intro xs
  induction xs with
  | nil => intro b; cases b <;> simp [pickBest]
  | cons r rs ih =>
    intro b
    cases b with
    | none =>
      right
      refine ⟨rfl, Or.inl ?_⟩
      simp only [pickBest]
      rcases ih (some r) with ⟨b', hb', h⟩ | ⟨h, _⟩
      · cases hb'
        rcases h with h | h
        · simp [h]
        · simp [h]
      · cases h
    | some b0 =>
      left
      refine ⟨b0, rfl, ?_⟩
      simp only [pickBest]
      split
      · rcases ih (some r) with ⟨b', hb', h⟩ | ⟨h, _⟩
        · cases hb'
          rcases h with h | h
          · right; simp [h]
          · right; simp [h]
        · cases h
      · rcases ih (some b0) with ⟨b', hb', h⟩ | ⟨h, _⟩
        · cases hb'
          rcases h with h | h
          · left; exact h
          · right; simp [h]
        · cases h

theorem pickBest_prop (H : Hier) (P : Ty → Prop) (xs : List Ty) (hobj : P (.inst H.objectC))
    (h : ∀ x ∈ xs, P x) : P (pickBest H Option.none xs) := by
  rcases pickBest_mem H xs Option.none with ⟨b', hb', _⟩ | ⟨_, h1 | ⟨_, h2⟩⟩
  · cases hb'
  · exact h _ h1
  · rw [h2]; exact hobj

/-- the instance walk yields a well-formed instance above both operands -/
theorem joinInstF_upper (hok : H.Ok) (J : Ty → Ty → Ty) : ∀ (k : Nat) (t s : Ty) (c d : Nat),
    t.wf H = true → s.wf H = true → t.cls = some c → s.cls = some d →
    (∀ x y, (ArgOf H t x ∧ ArgOf H s y) ∨ (ArgOf H s x ∧ ArgOf H t y) → Good H x y (J x y)) →
    (joinInstF H J k t s).wf H = true ∧ (∃ e, (joinInstF H J k t s).cls = some e) ∧
    S H false t (joinInstF H J k t s) = true ∧ S H false s (joinInstF H J k t s) = true := by
  intro k
  induction k with
  | zero =>
    intro t s c d hwt hws hct hcs _
    exact ⟨wf_obj hok, ⟨_, rfl⟩, S_inst_obj hok false hwt hct, S_inst_obj hok false hws hcs⟩
  | succ k ih =>
    intro t s c d hwt hws hct hcs hJ
    have hcm := (wf_cls hwt hct).1
    have hdm := (wf_cls hws hcs).1
    have hobj : (Ty.inst H.objectC).wf H = true ∧ (∃ e, (Ty.inst H.objectC).cls = some e) ∧
        S H false t (.inst H.objectC) = true ∧ S H false s (.inst H.objectC) = true :=
      ⟨wf_obj hok, ⟨_, rfl⟩, S_inst_obj hok false hwt hct, S_inst_obj hok false hws hcs⟩
    simp only [joinInstF, joinInstStep, hct, hcs]
    split
    · -- same class
      rename_i hcd
      have hcd : c = d := by simpa using hcd
      subst hcd
      split
      · rename_i c1 x c2 y
        have e1 : c1 = c := by simpa [Ty.cls] using hct
        have e2 : c2 = c := by simpa [Ty.cls] using hcs
        subst e1
        have e2' := e2.symm
        subst e2'
        have hg := (wf_gen hwt).2.1
        have g := hJ x y (Or.inl ⟨Or.inl rfl, Or.inl rfl⟩)
        have hsr := hok.sup_refl c1 hcm
        rw [hg] at hsr
        simp only [if_true] at hsr
        have mk : ∀ (j : Ty), j.wf H = true →
            varCheck (H.variance c1) (S H false) x j = true → varCheck (H.variance c1) (S H false) y j = true →
            (Ty.gen c1 j).wf H = true ∧ (∃ e, (Ty.gen c1 j).cls = some e) ∧
            S H false (.gen c1 x) (.gen c1 j) = true ∧ S H false (.gen c1 y) (.gen c1 j) = true := by
          intro j hwj h1 h2
          have hwr : (Ty.gen c1 j).wf H = true := by simp [Ty.wf, hcm, hg, hwj]
          refine ⟨hwr, ⟨_, rfl⟩, ?_, ?_⟩
          · rw [S_inst_iff hok false hwt hwr rfl rfl]
            refine ⟨_, hsr, ?_⟩
            intro x' y' hx' hy'
            simp [argTo, Ty.arg?] at hx' hy'; subst hx' hy'; exact h1
          · rw [S_inst_iff hok false hws hwr rfl rfl]
            refine ⟨_, hsr, ?_⟩
            intro x' y' hx' hy'
            simp [argTo, Ty.arg?] at hx' hy'; subst hx' hy'; exact h2
        cases hv : H.variance c1 with
        | co =>
          simp only
          exact mk _ g.wf (by rw [hv]; exact g.left) (by rw [hv]; exact g.right)
        | inv =>
          simp only
          split
          · rename_i heq
            obtain ⟨e1, e2⟩ := (isEquivalent_iff x y).1 heq
            obtain ⟨q1, q2⟩ := g.equiv e1 e2
            exact mk _ g.wf (by rw [hv]; simp [varCheck, g.left, q1]) (by rw [hv]; simp [varCheck, g.right, q2])
          · exact hobj
        | contra =>
          simp only
          split
          · rename_i heq
            obtain ⟨e1, e2⟩ := (isEquivalent_iff x y).1 heq
            obtain ⟨q1, q2⟩ := g.equiv e1 e2
            exact mk _ g.wf (by rw [hv]; simp [varCheck, q1]) (by rw [hv]; simp [varCheck, q2])
          · exact hobj
      · -- not two generic instances: both are the plain instance of the class
        rename_i hnot
        have hts : s = t := by
          by_cases hg : H.generic c = true
          · obtain ⟨x, hx⟩ := ((wf_cls hwt hct).2.1).1 hg
            obtain ⟨y, hy⟩ := ((wf_cls hws hcs).2.1).1 hg
            exact (hnot _ _ _ _ hx hy).elim
          · have hg : H.generic c = false := by simpa using hg
            rw [((wf_cls hwt hct).2.2).1 hg, ((wf_cls hws hcs).2.2).1 hg]
        subst hts
        exact ⟨hwt, ⟨_, hct⟩, S_refl H false _, S_refl H false _⟩
    · split
      · -- via the bases of t
        apply pickBest_prop H (fun r => r.wf H = true ∧ (∃ e, r.cls = some e) ∧ S H false t r = true ∧ S H false s r = true)
          _ hobj
        intro r hr
        obtain ⟨b, hb, rfl⟩ := List.mem_map.1 hr
        obtain ⟨hbm, _, hsb⟩ := hok.bases_ok c hcm b hb
        obtain ⟨m, hm⟩ := Option.isSome_iff_exists.1 hsb
        obtain ⟨hwm, hcmm⟩ := mapTo_wf hok hwt hct hbm hm
        obtain ⟨r1, r2, r3, r4⟩ := ih (H.mapTo t b) s b d hwm hws hcmm hcs (by
          intro x y hxy
          apply hJ
          rcases hxy with ⟨h1, h2⟩ | ⟨h1, h2⟩
          · exact Or.inl ⟨argOf_mapTo hok hwt hct hbm hm h1, h2⟩
          · exact Or.inr ⟨h1, argOf_mapTo hok hwt hct hbm hm h2⟩)
        exact ⟨r1, r2, nominal_step hok false hwt hct hbm hm r1 r3, r4⟩
      · apply pickBest_prop H (fun r => r.wf H = true ∧ (∃ e, r.cls = some e) ∧ S H false t r = true ∧ S H false s r = true)
          _ hobj
        intro r hr
        obtain ⟨b, hb, rfl⟩ := List.mem_map.1 hr
        obtain ⟨hbm, _, hsb⟩ := hok.bases_ok d hdm b hb
        obtain ⟨m, hm⟩ := Option.isSome_iff_exists.1 hsb
        obtain ⟨hwm, hcmm⟩ := mapTo_wf hok hws hcs hbm hm
        obtain ⟨r1, r2, r3, r4⟩ := ih (H.mapTo s b) t b c hwm hwt hcmm hct (by
          intro x y hxy
          apply hJ
          rcases hxy with ⟨h1, h2⟩ | ⟨h1, h2⟩
          · exact Or.inr ⟨argOf_mapTo hok hws hcs hbm hm h1, h2⟩
          · exact Or.inl ⟨h1, argOf_mapTo hok hws hcs hbm hm h2⟩)
        exact ⟨r1, r2, r4, nominal_step hok false hws hcs hbm hm r1 r3⟩


theorem same_class_of_equiv (hok : H.Ok) {t s : Ty} (hwt : t.wf H = true) (hws : s.wf H = true)
    {c d : Nat} (hct : t.cls = some c) (hcs : s.cls = some d)
    (h1 : S H false t s = true) (h2 : S H false s t = true) : c = d := by
  obtain ⟨m1, hm1, _⟩ := (S_inst_iff hok false hwt hws hct hcs).1 h1
  obtain ⟨m2, hm2, _⟩ := (S_inst_iff hok false hws hwt hcs hct).1 h2
  exact hok.antisym c (wf_cls hwt hct).1 d (wf_cls hws hcs).1 m1 m2 hm1 hm2

/-- `join_instances(t, s)` is a good join, provided the argument join is good on the argument pairs -/
theorem joinInstances_good (hok : H.Ok) (J : Ty → Ty → Ty) {t s : Ty} {c d : Nat}
    (hwt : t.wf H = true) (hws : s.wf H = true) (hct : t.cls = some c) (hcs : s.cls = some d)
    (hJ : ∀ x y, (ArgOf H t x ∧ ArgOf H s y) ∨ (ArgOf H s x ∧ ArgOf H t y) → Good H x y (J x y)) :
    Good H t s (joinInstances H J t s) ∧ ∃ e, (joinInstances H J t s).cls = some e := by
  obtain ⟨r1, r2, r3, r4⟩ := joinInstF_upper hok J (H.mroLen (t.cls.getD 0) + H.mroLen (s.cls.getD 0) + 1) t s c d
    hwt hws hct hcs hJ
  refine ⟨⟨r1, r3, r4, ?_⟩, r2⟩
  intro e1 e2
  have hcd := same_class_of_equiv hok hwt hws hct hcs e1 e2
  subst hcd
  have hcm := (wf_cls hwt hct).1
  unfold joinInstances
  simp only [joinInstF, joinInstStep, hct, hcs, beq_self_eq_true, if_true]
  split
  · rename_i c1 x c2 y
    have q1 : c1 = c := by simpa [Ty.cls] using hct
    have q2 : c2 = c := by simpa [Ty.cls] using hcs
    subst q1
    have q2' := q2.symm
    subst q2'
    have hg := (wf_gen hwt).2.1
    have g := hJ x y (Or.inl ⟨Or.inl rfl, Or.inl rfl⟩)
    have hsr := hok.sup_refl c1 hcm
    rw [hg] at hsr
    simp only [if_true] at hsr
    -- the argument relations given by t ≡ s
    obtain ⟨m1, hm1, A1⟩ := (S_inst_iff hok false hwt hws rfl rfl).1 e1
    obtain ⟨m2, hm2, A2⟩ := (S_inst_iff hok false hws hwt rfl rfl).1 e2
    rw [hsr] at hm1 hm2
    cases hm1; cases hm2
    have a1 := A1 x y (by simp [argTo, Ty.arg?]) rfl
    have a2 := A2 y x (by simp [argTo, Ty.arg?]) rfl
    have mk : ∀ (j : Ty), j.wf H = true →
        varCheck (H.variance c1) (S H false) j x = true → varCheck (H.variance c1) (S H false) j y = true →
        S H false (.gen c1 j) (.gen c1 x) = true ∧ S H false (.gen c1 j) (.gen c1 y) = true := by
      intro j hwj h1 h2
      have hwr : (Ty.gen c1 j).wf H = true := by simp [Ty.wf, hcm, hg, hwj]
      constructor
      · rw [S_inst_iff hok false hwr hwt rfl rfl]
        refine ⟨_, hsr, ?_⟩
        intro x' y' hx' hy'
        simp [argTo, Ty.arg?] at hx' hy'; subst hx' hy'; exact h1
      · rw [S_inst_iff hok false hwr hws rfl rfl]
        refine ⟨_, hsr, ?_⟩
        intro x' y' hx' hy'
        simp [argTo, Ty.arg?] at hx' hy'; subst hx' hy'; exact h2
    cases hv : H.variance c1 with
    | co =>
      rw [hv] at a1 a2
      simp only [varCheck] at a1 a2
      obtain ⟨q1, q2⟩ := g.equiv a1 a2
      simp only
      exact mk _ g.wf (by rw [hv]; exact q1) (by rw [hv]; exact q2)
    | inv =>
      rw [hv] at a1
      simp only [varCheck, Bool.and_eq_true] at a1
      obtain ⟨q1, q2⟩ := g.equiv a1.1 a1.2
      simp only
      rw [if_pos ((isEquivalent_iff x y).2 a1)]
      exact mk _ g.wf (by rw [hv]; simp [varCheck, q1, g.left]) (by rw [hv]; simp [varCheck, q2, g.right])
    | contra =>
      rw [hv] at a1 a2
      simp only [varCheck] at a1 a2
      obtain ⟨q1, q2⟩ := g.equiv a2 a1
      simp only
      rw [if_pos ((isEquivalent_iff x y).2 ⟨a2, a1⟩)]
      exact mk _ g.wf (by rw [hv]; simp [varCheck, g.left]) (by rw [hv]; simp [varCheck, g.right])
  · exact ⟨S_refl H false _, e1⟩


end Types
