import MypyVerif.Model.ExitStatus
/-!
Helper definitions and lemmas for Props/C13.lean.

* exit status: a note-severity line always contains ": note:", counting lemma;
* the sink without its three history-dependent mechanisms (`Lite`): under `Quiet` (no error-code links,
  many-errors threshold off, only_once messages pairwise distinct) the sink's `used_ignored_lines`,
  `error_info_map` and `has_blockers` evolve as a fold of *stateless* per-report decisions (`run_lite`);
* position invariants, `lookup` facts.
-/

/-! ## exit status -/
namespace ExitStatus
open Errors (Sev)

theorem isPrefix_append (p s : List Char) : isPrefix p (p ++ s) = true := by
  induction p with
  | nil => simp [isPrefix]
  | cons c cs ih => simp [isPrefix, ih]

theorem isInfix_of_isPrefix (p s : List Char) (h : isPrefix p s = true) : isInfix p s = true := by
  cases s with
  | nil => simpa [isInfix] using h
  | cons c cs => simp [isInfix, h]

theorem isInfix_append_left (p a b : List Char) (h : isInfix p b = true) : isInfix p (a ++ b) = true := by
  induction a with
  | nil => simpa using h
  | cons c cs ih => simp [isInfix, ih]

theorem isInfix_mid (p a b : List Char) : isInfix p (a ++ (p ++ b)) = true :=
  isInfix_append_left p a (p ++ b) (isInfix_of_isPrefix p _ (isPrefix_append p b))

/-- a line formatted from a note-severity tuple always contains `": note:"` -/
theorem format_note_has_marker (l : Line) (h : l.sev = .note) : isInfix noteMarker (format l) = true := by
  have : format l = l.srcloc ++ (noteMarker ++ (' ' :: (l.message ++ l.codeSuffix))) := by
    simp [format, h, sevText, noteMarker, List.append_assoc]
  rw [this]
  exact isInfix_mid _ _ _

theorem filter_length_lt_iff {α : Type} (p : α → Bool) (l : List α) :
    (l.filter p).length < l.length ↔ ∃ x ∈ l, p x = false := by
  induction l with
  | nil => simp
  | cons a as ih =>
    have hle : (as.filter p).length ≤ as.length := List.length_filter_le p as
    by_cases hp : p a = true
    · simp [hp, ih]
    · have hp' : p a = false := by simpa using hp
      simp [hp']
      omega

/-- if the rule recognises exactly the note-severity lines as notes, `n_notes < len(messages)` iff some tuple
    has severity error -/
theorem notes_counted (r : Rule) (ls : List Line)
    (h : ∀ l ∈ ls, isNoteLine r (format l) = true ↔ l.sev = .note) :
    (countStats r (ls.map format)).2 < (ls.map format).length ↔ ∃ l ∈ ls, l.sev = .error := by
  simp only [countStats]
  rw [filter_length_lt_iff]
  constructor
  · rintro ⟨x, hx, hf⟩
    obtain ⟨l, hl, rfl⟩ := List.mem_map.1 hx
    refine ⟨l, hl, ?_⟩
    cases hs : l.sev with
    | error => rfl
    | note => rw [(h l hl).2 hs] at hf; cases hf
  · rintro ⟨l, hl, he⟩
    refine ⟨format l, List.mem_map.2 ⟨l, hl, rfl⟩, ?_⟩
    cases hn : isNoteLine r (format l) with
    | false => rfl
    | true => have := (h l hl).1 hn; rw [he] at this; cases this

/-- the status is the truth whenever the rule classifies every line by its severity field -/
theorem exit_of_classifier (r : Rule) (ls : List Line) (blockers : Bool)
    (hcls : ∀ l ∈ ls, isNoteLine r (format l) = true ↔ l.sev = .note)
    (hshown : blockers = true → ∃ l ∈ ls, l.sev = .error) :
    exitCode r (ls.map format) blockers = truth ls blockers := by
  have hcount := notes_counted r ls hcls
  unfold exitCode truth
  by_cases hex : ∃ l ∈ ls, l.sev = .error
  · have hlt := hcount.2 hex
    have hne : (ls.map format).isEmpty = false := by
      obtain ⟨l, hl, _⟩ := hex
      cases ls with
      | nil => cases hl
      | cons _ _ => rfl
    have hany : ls.any (fun l => decide (l.sev = .error)) = true := by
      obtain ⟨l, hl, he⟩ := hex
      exact List.any_eq_true.2 ⟨l, hl, by simp [he]⟩
    have hcond : (!(ls.map format).isEmpty && decide ((countStats r (ls.map format)).2 < (ls.map format).length)) = true := by
      rw [hne, decide_eq_true hlt]; rfl
    rw [if_pos hcond]
    cases blockers <;> simp [hany]
  · have hnlt : ¬ (countStats r (ls.map format)).2 < (ls.map format).length := fun h => hex (hcount.1 h)
    have hb : blockers = false := by
      cases hbl : blockers with
      | false => rfl
      | true => exact absurd (hshown hbl) hex
    have hany : ls.any (fun l => decide (l.sev = .error)) = false := by
      cases h : ls.any (fun l => decide (l.sev = .error)) with
      | false => rfl
      | true =>
        obtain ⟨l, hl, he⟩ := List.any_eq_true.1 h
        exact absurd ⟨l, hl, by simpa using he⟩ hex
    have hcond : ¬ (!(ls.map format).isEmpty && decide ((countStats r (ls.map format)).2 < (ls.map format).length)) = true := by
      simp only [Bool.and_eq_true, decide_eq_true_eq, not_and]
      intro _; exact hnlt
    rw [if_neg hcond]
    simp [hb, hany]

/-! ### the `firstMarker` rule -/

def startsMarker (s : List Char) : Bool := isPrefix errorMarker s || isPrefix noteMarker s

/-- no marker starts inside `loc` when it is followed by `tail` -/
def cleanBefore (tail : List Char) : List Char → Bool
  | [] => true
  | c :: cs => !startsMarker (c :: cs ++ tail) && cleanBefore tail cs

/-- everything of a formatted line after the location -/
def lineTail (l : Line) : List Char := [':', ' '] ++ sevText l.sev ++ [':', ' '] ++ l.message ++ l.codeSuffix

/-- the location part (`file:line`) of the line does not itself start `": error:"` / `": note:"` -/
def CleanLoc (l : Line) : Prop := cleanBefore (lineTail l) l.srcloc = true
instance (l : Line) : Decidable (CleanLoc l) := by unfold CleanLoc; infer_instance

theorem firstMarker_append (tail : List Char) : ∀ loc, cleanBefore tail loc = true →
    firstMarker (loc ++ tail) = firstMarker tail := by
  intro loc
  induction loc with
  | nil => intro _; rfl
  | cons c cs ih =>
    intro h
    simp only [cleanBefore, Bool.and_eq_true, Bool.not_eq_true', startsMarker, Bool.or_eq_false_iff] at h
    obtain ⟨⟨h1, h2⟩, h3⟩ := h
    show firstMarker (c :: (cs ++ tail)) = firstMarker tail
    have h1' : isPrefix errorMarker (c :: (cs ++ tail)) = false := h1
    have h2' : isPrefix noteMarker (c :: (cs ++ tail)) = false := h2
    simp only [firstMarker, h1', h2', Bool.false_eq_true, if_false]
    exact ih h3

theorem firstMarker_lineTail (l : Line) : firstMarker (lineTail l) = some l.sev := by
  cases hs : l.sev <;> simp [lineTail, hs, sevText, firstMarker, isPrefix, errorMarker, noteMarker]

theorem firstMarker_format (l : Line) (h : CleanLoc l) : firstMarker (format l) = some l.sev := by
  have : format l = l.srcloc ++ lineTail l := by simp [format, lineTail, List.append_assoc]
  rw [this, firstMarker_append _ _ h, firstMarker_lineTail]

end ExitStatus

namespace Errors

/-! ## quiet options: the history-dependent stages are the identity -/

/-- no error-code links, many-errors threshold switched off (the defaults) -/
def QuietOpts (o : Opts) : Prop := o.showLinks = false ∧ o.manyThreshold < 0
instance (o : Opts) : Decidable (QuietOpts o) := by unfold QuietOpts; infer_instance

theorem hasManyErrors_quiet (o : Opts) (d : Dyn) (h : QuietOpts o) : hasManyErrors o d = false := by
  simp [hasManyErrors, h.2]

theorem hideStage_quiet (env : Env) (cfg : Cfg) (d : Dyn) (file : FileId) (i : Info) (h : QuietOpts cfg.opts) :
    hideStage env cfg d file i = (d, i) := by
  simp [hideStage, shouldHide, hasManyErrors_quiet _ _ h]

theorem linkStage_quiet (env : Env) (cfg : Cfg) (d : Dyn) (file : FileId) (i : Info) (h : QuietOpts cfg.opts) :
    linkStage env cfg d file i = d := by
  unfold linkStage
  cases i.code <;> simp [h.1]

theorem afterOnlyOnce_quiet (env : Env) (cfg : Cfg) (d : Dyn) (file : FileId) (i : Info) (h : QuietOpts cfg.opts) :
    afterOnlyOnce env cfg d file i = addNote env (rawAdd env d file i) file (notCoveredNote env cfg file i) := by
  simp [afterOnlyOnce, hideStage_quiet _ _ _ _ _ h, linkStage_quiet _ _ _ _ _ h]

/-! ## the sink without history: `Lite` -/

structure Lite where
  used : List (FileId × Int × CodeName)
  infos : List (FileId × Info)
  hasBlockers : List FileId
deriving Repr, DecidableEq

def Dyn.lite (d : Dyn) : Lite := { used := d.used, infos := d.infos, hasBlockers := d.hasBlockers }

/-- the "not covered" note as a list of `error_info_map` entries -/
def noteList (env : Env) (cfg : Cfg) (file : FileId) (i : Info) : List (FileId × Info) :=
  match notCoveredNote env cfg file i with
  | some n => [(file, n)]
  | none => []

def liteOutcome (l : Lite) (file : FileId) (i : Info) (notes : List (FileId × Info)) : Outcome → Lite
  | .dropped => l
  | .ignoredAt ln c => { l with used := l.used ++ [(file, ln, c)] }
  | .pass => { l with infos := l.infos ++ (file, i) :: notes,
                      hasBlockers := if i.blocker then l.hasBlockers ++ [file] else l.hasBlockers }

/-- `add_error_info` as a stateless decision: everything is determined by the configuration and the info -/
def liteAdd (env : Env) (cfg : Cfg) (l : Lite) (i : Info) (f : Option FileId) : Lite :=
  liteOutcome l (f.getD cfg.file) i (noteList env cfg (f.getD cfg.file) i) (ignoreStage env cfg (f.getD cfg.file) i)

def liteAddAll (l : Lite) (file : FileId) (news : List Info) : Lite :=
  { l with infos := l.infos ++ news.map (fun n => (file, n)) }

def liteStep (env : Env) (c : Cfg) (l : Lite) : Ev → Lite
  | .report a => liteAdd env c l (mkInfo env c a) none
  | .add i f => liteAdd env c l i f
  | .genUnused f ts => if ts || f ∈ c.ignoredFiles then l else liteAddAll l f (unusedNews env c l.used f)
  | .genNoCode f w ts => if ts || f ∈ c.ignoredFiles then l else liteAddAll l f (noCodeNews env c l.used f w)
  | _ => l

def liteRun (env : Env) : Cfg → Lite → List Ev → Cfg × Lite
  | c, l, [] => (c, l)
  | c, l, e :: es => liteRun env (stepCfg c e) (liteStep env c l e) es

/-- the only_once message an event submits -/
def onceMsg : Ev → List Msg
  | .report a => if a.onlyOnce then [.user a.msgId a.offset] else []
  | .add i _ => if i.onlyOnce then [i.msg] else []
  | _ => []

def evQuiet : Ev → Prop
  | .setFile _ o => QuietOpts o
  | _ => True
instance (e : Ev) : Decidable (evQuiet e) := by cases e <;> (unfold evQuiet; infer_instance)

/-- `NoOnlyOnceCollision` ∧ `BelowManyErrorsThreshold` ∧ no error-code links, as a decidable predicate on the
    starting state and the event stream -/
def Quiet (s : St) (evs : List Ev) : Prop :=
  QuietOpts s.cfg.opts ∧ (∀ e ∈ evs, evQuiet e) ∧ (s.dyn.onlyOnce ++ evs.flatMap onceMsg).Nodup
instance (s : St) (evs : List Ev) : Decidable (Quiet s evs) := by unfold Quiet; infer_instance

theorem rawAdd_lite (env : Env) (d : Dyn) (file : FileId) (i : Info) :
    (rawAdd env d file i).lite =
      { d.lite with infos := d.lite.infos ++ [(file, i)],
                    hasBlockers := if i.blocker then d.lite.hasBlockers ++ [file] else d.lite.hasBlockers } := by
  simp [rawAdd, Dyn.lite]

theorem rawAdd_onlyOnce (env : Env) (d : Dyn) (file : FileId) (i : Info) :
    (rawAdd env d file i).onlyOnce = d.onlyOnce := rfl

theorem notCoveredNote_blocker (env : Env) (cfg : Cfg) (file : FileId) (i n : Info)
    (h : notCoveredNote env cfg file i = some n) : n.blocker = false := by
  unfold notCoveredNote at h
  split at h
  · cases h
  · split at h
    · cases h
    · cases h
    · injection h with h; rw [← h]; rfl

theorem addNote_lite (env : Env) (cfg : Cfg) (d : Dyn) (file : FileId) (i : Info) :
    (addNote env d file (notCoveredNote env cfg file i)).lite =
      { d.lite with infos := d.lite.infos ++ noteList env cfg file i } ∧
    (addNote env d file (notCoveredNote env cfg file i)).onlyOnce = d.onlyOnce := by
  unfold noteList
  cases h : notCoveredNote env cfg file i with
  | none => simp [addNote, Dyn.lite]
  | some n =>
    have hb := notCoveredNote_blocker env cfg file i n h
    simp [addNote, rawAdd, Dyn.lite, hb]

theorem afterOnlyOnce_lite (env : Env) (cfg : Cfg) (d : Dyn) (file : FileId) (i : Info) (h : QuietOpts cfg.opts) :
    (afterOnlyOnce env cfg d file i).lite = liteOutcome d.lite file i (noteList env cfg file i) .pass ∧
    (afterOnlyOnce env cfg d file i).onlyOnce = d.onlyOnce := by
  rw [afterOnlyOnce_quiet _ _ _ _ _ h]
  obtain ⟨h1, h2⟩ := addNote_lite env cfg (rawAdd env d file i) file i
  refine ⟨?_, ?_⟩
  · rw [h1, rawAdd_lite]
    simp [liteOutcome, List.append_assoc]
  · rw [h2]; rfl

/-- the only_once messages a stored info adds to `only_once_messages` -/
def onceOf (i : Info) : List Msg := if i.onlyOnce then [i.msg] else []

theorem storeStage_lite (env : Env) (cfg : Cfg) (d : Dyn) (file : FileId) (i : Info) (h : QuietOpts cfg.opts)
    (hfresh : i.onlyOnce = true → i.msg ∉ d.onlyOnce) :
    (storeStage env cfg d file i).lite = liteOutcome d.lite file i (noteList env cfg file i) .pass ∧
    (storeStage env cfg d file i).onlyOnce = d.onlyOnce ++ onceOf i := by
  unfold storeStage onceOf
  by_cases ho : i.onlyOnce = true
  · have hn := hfresh ho
    simp only [ho, if_true, hn, if_false]
    obtain ⟨h1, h2⟩ := afterOnlyOnce_lite env cfg { d with onlyOnce := d.onlyOnce ++ [i.msg] } file i h
    exact ⟨h1, h2⟩
  · have ho' : i.onlyOnce = false := by simpa using ho
    simp only [ho', Bool.false_eq_true, if_false]
    obtain ⟨h1, h2⟩ := afterOnlyOnce_lite env cfg d file i h
    exact ⟨h1, by simpa using h2⟩

theorem addErrorInfo_lite (env : Env) (cfg : Cfg) (d : Dyn) (i : Info) (f : Option FileId) (h : QuietOpts cfg.opts)
    (hfresh : i.onlyOnce = true → i.msg ∉ d.onlyOnce) :
    (addErrorInfo env cfg d i f).lite = liteAdd env cfg d.lite i f ∧
    ((addErrorInfo env cfg d i f).onlyOnce = d.onlyOnce ∨
     (addErrorInfo env cfg d i f).onlyOnce = d.onlyOnce ++ onceOf i) := by
  unfold addErrorInfo liteAdd
  cases ignoreStage env cfg (f.getD cfg.file) i with
  | dropped => exact ⟨rfl, Or.inl rfl⟩
  | ignoredAt l c => exact ⟨rfl, Or.inl rfl⟩
  | pass =>
    obtain ⟨h1, h2⟩ := storeStage_lite env cfg d (f.getD cfg.file) i h hfresh
    exact ⟨h1, Or.inr h2⟩

theorem simpleError_blocker (cfg : Cfg) (line : Int) (m : Msg) (c : Code) : (simpleError cfg line m c).blocker = false := rfl

theorem addAll_lite (env : Env) (file : FileId) (news : List Info) (hb : ∀ n ∈ news, n.blocker = false) :
    ∀ d : Dyn, (addAll env d file news).lite = liteAddAll d.lite file news ∧ (addAll env d file news).onlyOnce = d.onlyOnce := by
  induction news with
  | nil => intro d; simp [addAll, liteAddAll]
  | cons n ns ih =>
    intro d
    have hn : n.blocker = false := hb n (by simp)
    obtain ⟨h1, h2⟩ := ih (fun m hm => hb m (by simp [hm])) (rawAdd env d file n)
    simp only [addAll, List.foldl_cons] at h1 h2 ⊢
    refine ⟨?_, ?_⟩
    · rw [h1, rawAdd_lite]
      simp [liteAddAll, hn, List.append_assoc]
    · rw [h2]; rfl

theorem unusedNews_blocker (env : Env) (cfg : Cfg) (used : List (FileId × Int × CodeName)) (file : FileId) :
    ∀ n ∈ unusedNews env cfg used file, n.blocker = false := by
  intro n hn
  simp only [unusedNews, List.mem_filterMap] at hn
  obtain ⟨lc, _, h⟩ := hn
  cases hm : unusedMsg env ((lookup file cfg.skippedLines).getD []) (usedCodesOf used file lc.1) lc.1 lc.2 with
  | none => simp [hm] at h
  | some m => simp [hm] at h; rw [← h]; rfl

theorem noCodeNews_blocker (env : Env) (cfg : Cfg) (used : List (FileId × Int × CodeName)) (file : FileId) (w : Bool) :
    ∀ n ∈ noCodeNews env cfg used file w, n.blocker = false := by
  intro n hn
  simp only [noCodeNews, List.mem_filterMap] at hn
  obtain ⟨lc, _, h⟩ := hn
  cases hm : noCodeMsg ((lookup file cfg.skippedLines).getD []) (usedCodesOf used file lc.1) w lc.1 lc.2 with
  | none => simp [hm] at h
  | some m => simp [hm] at h; rw [← h]; rfl

theorem genUnused_lite (env : Env) (cfg : Cfg) (d : Dyn) (f : FileId) (ts : Bool) :
    (genUnused env cfg d f ts).lite =
      (if ts || f ∈ cfg.ignoredFiles then d.lite else liteAddAll d.lite f (unusedNews env cfg d.lite.used f)) ∧
    (genUnused env cfg d f ts).onlyOnce = d.onlyOnce := by
  unfold genUnused
  split
  · exact ⟨rfl, rfl⟩
  · exact addAll_lite env f _ (unusedNews_blocker env cfg d.used f) d

theorem genNoCode_lite (env : Env) (cfg : Cfg) (d : Dyn) (f : FileId) (w ts : Bool) :
    (genNoCode env cfg d f w ts).lite =
      (if ts || f ∈ cfg.ignoredFiles then d.lite else liteAddAll d.lite f (noCodeNews env cfg d.lite.used f w)) ∧
    (genNoCode env cfg d f w ts).onlyOnce = d.onlyOnce := by
  unfold genNoCode
  split
  · exact ⟨rfl, rfl⟩
  · exact addAll_lite env f _ (noCodeNews_blocker env cfg d.used f w) d

theorem mkInfo_once (env : Env) (cfg : Cfg) (a : ReportArgs) : onceOf (mkInfo env cfg a) = onceMsg (.report a) := by
  simp [onceOf, onceMsg, mkInfo]

/-- one step of the sink agrees with the stateless step, and `Quiet` is preserved -/
theorem step_lite (env : Env) (s : St) (e : Ev) (evs : List Ev) (h : Quiet s (e :: evs)) :
    Quiet (step env s e) evs ∧ (step env s e).dyn.lite = liteStep env s.cfg s.dyn.lite e := by
  obtain ⟨hq, hev, hnd⟩ := h
  have hev' : ∀ x ∈ evs, evQuiet x := fun x hx => hev x (by simp [hx])
  have he : evQuiet e := hev e (by simp)
  rw [List.flatMap_cons] at hnd
  -- facts from Nodup
  have hnd_skip : (s.dyn.onlyOnce ++ evs.flatMap onceMsg).Nodup := by
    refine List.Nodup.sublist ?_ hnd
    exact List.Sublist.append (List.Sublist.refl _) (List.sublist_append_right _ _)
  have hnd_keep : ((s.dyn.onlyOnce ++ onceMsg e) ++ evs.flatMap onceMsg).Nodup := by
    simpa [List.append_assoc] using hnd
  have hfresh : ∀ m ∈ onceMsg e, m ∉ s.dyn.onlyOnce := by
    intro m hm hin
    have := (List.nodup_append.1 hnd).2.2 m hin m (by simp [hm])
    exact this rfl
  have hqopts : ∀ c' : Cfg, c'.opts = s.cfg.opts → QuietOpts c'.opts := fun c' hc => hc ▸ hq
  cases e with
  | setFile f o =>
    exact ⟨⟨he, hev', by simpa [step, stepDyn, onceMsg] using hnd_skip⟩, rfl⟩
  | setImportCtx x => exact ⟨⟨hq, hev', by simpa [step, stepDyn, onceMsg] using hnd_skip⟩, rfl⟩
  | setIgnored f ign a => exact ⟨⟨hq, hev', by simpa [step, stepDyn, onceMsg] using hnd_skip⟩, rfl⟩
  | setSkipped f ls => exact ⟨⟨hq, hev', by simpa [step, stepDyn, onceMsg] using hnd_skip⟩, rfl⟩
  | ignoreFile f => exact ⟨⟨hq, hev', by simpa [step, stepDyn, onceMsg] using hnd_skip⟩, rfl⟩
  | report a =>
    have hf : (mkInfo env s.cfg a).onlyOnce = true → (mkInfo env s.cfg a).msg ∉ s.dyn.onlyOnce := by
      intro ho
      apply hfresh
      have : onceOf (mkInfo env s.cfg a) = [(mkInfo env s.cfg a).msg] := by simp [onceOf, ho]
      rw [← mkInfo_once env s.cfg a, this]; simp
    obtain ⟨h1, h2⟩ := addErrorInfo_lite env s.cfg s.dyn (mkInfo env s.cfg a) none hq hf
    refine ⟨⟨hq, hev', ?_⟩, h1⟩
    simp only [step, stepDyn]
    rcases h2 with h2 | h2
    · rw [h2]; exact hnd_skip
    · rw [h2, mkInfo_once]; exact hnd_keep
  | add i f =>
    have hf : i.onlyOnce = true → i.msg ∉ s.dyn.onlyOnce := by
      intro ho
      apply hfresh
      simp [onceMsg, ho]
    obtain ⟨h1, h2⟩ := addErrorInfo_lite env s.cfg s.dyn i f hq hf
    refine ⟨⟨hq, hev', ?_⟩, h1⟩
    simp only [step, stepDyn]
    rcases h2 with h2 | h2
    · rw [h2]; exact hnd_skip
    · rw [h2]; simpa [onceOf, onceMsg] using hnd_keep
  | genUnused f ts =>
    obtain ⟨h1, h2⟩ := genUnused_lite env s.cfg s.dyn f ts
    refine ⟨⟨hq, hev', ?_⟩, h1⟩
    simp only [step, stepDyn]
    rw [h2]; exact hnd_skip
  | genNoCode f w ts =>
    obtain ⟨h1, h2⟩ := genNoCode_lite env s.cfg s.dyn f w ts
    refine ⟨⟨hq, hev', ?_⟩, h1⟩
    simp only [step, stepDyn]
    rw [h2]; exact hnd_skip

/-- **the sink is stateless under `Quiet`**: configuration, used-ignore log, stored infos and blocker files of
    the real state machine are those of the history-free fold -/
theorem run_lite (env : Env) : ∀ (evs : List Ev) (s : St), Quiet s evs →
    ((run env s evs).cfg, (run env s evs).dyn.lite) = liteRun env s.cfg s.dyn.lite evs := by
  intro evs
  induction evs with
  | nil => intro s _; rfl
  | cons e es ih =>
    intro s h
    obtain ⟨hq, hl⟩ := step_lite env s e es h
    have := ih (step env s e) hq
    simp only [run, List.foldl_cons] at this ⊢
    rw [this, hl]
    rfl

set_option linter.unusedSimpArgs false

theorem lookup_append_fresh {ν : Type} (l k : Int) (v : ν) (ign : List (Int × ν)) (h : lookup k ign = none) :
    lookup l (ign ++ [(k, v)]) = if l = k then some v else lookup l ign := by
  induction ign with
  | nil => simp [lookup]
  | cons p ps ih =>
    obtain ⟨k', v'⟩ := p
    simp only [lookup, List.cons_append] at h ⊢
    by_cases hk : k = k'
    · simp [hk] at h
    · simp only [hk, if_false] at h
      by_cases hl : l = k'
      · subst hl
        have : ¬ l = k := fun e => hk e.symm
        simp [this]
      · simp only [hl, if_false]
        exact ih h

def hitNew (o : Opts) (i : Info) (C : List CodeName) : Bool :=
  !i.blocker && (codeDisabled o i.code || lineMatches o i.code (some C))

def firstNew (p : Int → Bool) (hit : Bool) (L : Int) : List Int → Bool
  | [] => false
  | l :: ls => if p l then false else if l = L ∧ hit then true else firstNew p hit L ls

theorem find_firstNew (p p' : Int → Bool) (hit : Bool) (L : Int)
    (hoff : ∀ l, l ≠ L → p' l = p l) (hL : p' L = hit) (himp : p L = true → hit = true) :
    ∀ span : List Int, span.find? p' = if firstNew p hit L span then some L else span.find? p := by
  intro span
  induction span with
  | nil => simp [firstNew]
  | cons l ls ih =>
    by_cases hp : p l = true
    · have hp' : p' l = true := by
        by_cases hl : l = L
        · subst hl; rw [hL]; exact himp hp
        · rw [hoff l hl]; exact hp
      simp [firstNew, hp, hp', List.find?_cons]
    · have hpf : p l = false := by simpa using hp
      by_cases hl : l = L ∧ hit = true
      · obtain ⟨hl1, hl2⟩ := hl
        subst hl1
        have hp' : p' l = true := by rw [hL]; exact hl2
        simp [firstNew, hpf, hl2, hp', List.find?_cons]
      · have hp' : p' l = false := by
          by_cases hl1 : l = L
          · subst hl1
            rw [hL]
            cases hh : hit with
            | false => rfl
            | true => exact absurd ⟨rfl, hh⟩ hl
          · rw [hoff l hl1]; exact hpf
        simp only [firstNew, hpf, hl, List.find?_cons, hp']
        simpa using ih

/-- `c'` is `c` with the entry `(L, C)` appended to file `f`'s ignore map (which has no entry for `L`) -/
structure IgnExt (f : FileId) (L : Int) (C : List CodeName) (c c' : Cfg) : Prop where
  file : c'.file = c.file
  importCtx : c'.importCtx = c.importCtx
  opts : c'.opts = c.opts
  skipped : c'.skippedLines = c.skippedLines
  ignoredFiles : c'.ignoredFiles = c.ignoredFiles
  other : ∀ g, g ≠ f → lookup g c'.ignoredLines = lookup g c.ignoredLines
  here : lookup f c'.ignoredLines = (lookup f c.ignoredLines).map (· ++ [(L, C)])
  fresh : ∀ ign, lookup f c.ignoredLines = some ign → lookup L ign = none

/-- the report is now ignored by the new entry: it is for file `f`, not a blocker, and the scan of its origin
    span reaches `L` with a match before any line that ignored it already -/
def newlyFirst (c : Cfg) (f : FileId) (L : Int) (C : List CodeName) (file : FileId) (i : Info) : Bool :=
  decide (file = f) && !i.blocker &&
    match lookup f c.ignoredLines with
    | some ign => firstNew (fun l => isIgnoredError c.opts l i ign) (hitNew c.opts i C) L i.span
    | none => false

/-- the "not covered" note the new entry causes: the info sits on line `L`, has a code, and `C` is not bare -/
def extraNote (env : Env) (c : Cfg) (f : FileId) (L : Int) (C : List CodeName) (file : FileId) (i : Info) :
    List (FileId × Info) :=
  if file = f ∧ i.line = L ∧ (lookup f c.ignoredLines).isSome then
    match i.code, C with
    | some k, _ :: _ => [(file, noteFor i (notCoveredMsg env k C) none false 0)]
    | _, _ => []
  else []

theorem isIgnoredError_ext (o : Opts) (i : Info) (ign : List (Int × List CodeName)) (L : Int) (C : List CodeName)
    (hf : lookup L ign = none) (l : Int) :
    isIgnoredError o l i (ign ++ [(L, C)]) = if l = L then hitNew o i C else isIgnoredError o l i ign := by
  unfold isIgnoredError hitNew
  rw [lookup_append_fresh l L C ign hf]
  by_cases hl : l = L
  · simp only [hl, if_true]
    cases i.blocker <;> cases codeDisabled o i.code <;> simp
  · simp [hl]

theorem isIgnoredError_fresh (o : Opts) (i : Info) (ign : List (Int × List CodeName)) (L : Int) (C : List CodeName)
    (hf : lookup L ign = none) (h : isIgnoredError o L i ign = true) : hitNew o i C = true := by
  unfold isIgnoredError at h
  unfold hitNew
  rw [hf] at h
  cases hb : i.blocker <;> cases hd : codeDisabled o i.code <;> simp [hb, hd, lineMatches] at h ⊢

theorem ignoreStage_ext (env : Env) (f : FileId) (L : Int) (C : List CodeName) (c c' : Cfg)
    (h : IgnExt f L C c c') (file : FileId) (i : Info) :
    ignoreStage env c' file i =
      if newlyFirst c f L C file i then markOrDrop env c.opts i L else ignoreStage env c file i := by
  unfold ignoreStage newlyFirst
  cases hb : i.blocker with
  | true => simp
  | false =>
    simp only [Bool.false_eq_true, if_false, Bool.not_false, Bool.and_true]
    by_cases hfile : file = f
    · subst hfile
      rw [h.here]
      cases hm : lookup file c.ignoredLines with
      | none => simp [afterLoop, h.ignoredFiles]
      | some ign =>
        have hfr := h.fresh ign hm
        simp only [Option.map_some, decide_true, Bool.true_and]
        unfold scanSpan
        rw [h.opts]
        have hfind := find_firstNew (fun l => isIgnoredError c.opts l i ign)
          (fun l => isIgnoredError c.opts l i (ign ++ [(L, C)])) (hitNew c.opts i C) L
          (fun l hl => by simp [isIgnoredError_ext c.opts i ign L C hfr l, hl])
          (by simp [isIgnoredError_ext c.opts i ign L C hfr L])
          (fun hp => isIgnoredError_fresh c.opts i ign L C hfr hp) i.span
        rw [hfind]
        cases hfn : firstNew (fun l => isIgnoredError c.opts l i ign) (hitNew c.opts i C) L i.span with
        | true => simp
        | false =>
          simp only [Bool.false_eq_true, if_false]
          cases List.find? (fun l => isIgnoredError c.opts l i ign) i.span with
          | some l => rfl
          | none => simp [afterLoop, h.ignoredFiles]
    · rw [h.other file hfile]
      have : decide (file = f) = false := by simp [hfile]
      simp only [this, Bool.false_and, Bool.false_eq_true, if_false]
      cases lookup file c.ignoredLines with
      | none => simp [afterLoop, h.ignoredFiles]
      | some ign =>
        simp only [scanSpan, h.opts]
        cases List.find? (fun l => isIgnoredError c.opts l i ign) i.span with
        | some l => rfl
        | none => simp [afterLoop, h.ignoredFiles]

theorem noteList_ext (env : Env) (f : FileId) (L : Int) (C : List CodeName) (c c' : Cfg)
    (h : IgnExt f L C c c') (file : FileId) (i : Info) :
    noteList env c' file i = noteList env c file i ++ extraNote env c f L C file i := by
  unfold noteList notCoveredNote extraNote
  cases hc : i.code with
  | none => simp
  | some k =>
    by_cases hfile : file = f
    · subst hfile
      rw [h.here]
      cases hm : lookup file c.ignoredLines with
      | none => simp [lookup]
      | some ign =>
        have hfr := h.fresh ign hm
        simp only [Option.map_some, Option.getD_some, Option.isSome_some, and_true, true_and]
        rw [lookup_append_fresh i.line L C ign hfr]
        by_cases hl : i.line = L
        · simp only [hl, if_true]
          rw [hfr]
          cases C with
          | nil => simp
          | cons x xs => simp
        · simp only [hl, if_false]
          cases lookup i.line ign with
          | none => simp
          | some cs => cases cs <;> simp
    · rw [h.other file hfile]
      simp [hfile]

/-- append the entry to every binding of `f` in the ignore maps -/
def extMaps (f : FileId) (L : Int) (C : List CodeName) :
    List (FileId × List (Int × List CodeName)) → List (FileId × List (Int × List CodeName))
  | [] => []
  | (g, ign) :: rest => (g, if g = f then ign ++ [(L, C)] else ign) :: extMaps f L C rest

/-- the configuration with `# type: ignore[C]` added on line `L` of file `f` -/
def Cfg.ext (f : FileId) (L : Int) (C : List CodeName) (c : Cfg) : Cfg :=
  { c with ignoredLines := extMaps f L C c.ignoredLines }

theorem lookup_extMaps (f : FileId) (L : Int) (C : List CodeName) (g : FileId) :
    ∀ m, lookup g (extMaps f L C m) =
      if g = f then (lookup f m).map (· ++ [(L, C)]) else lookup g m := by
  intro m
  induction m with
  | nil => simp [extMaps, lookup]
  | cons p ps ih =>
    obtain ⟨g', ign⟩ := p
    simp only [extMaps, lookup]
    by_cases hg : g = g'
    · subst hg
      by_cases hf : g = f
      · simp [hf]
      · simp [hf]
    · simp only [hg, if_false]
      rw [ih]
      by_cases hf : g = f
      · subst hf
        have : ¬ g' = g := fun e => hg e.symm
        simp [hg]
      · simp [hf]

theorem ignExt_ext (f : FileId) (L : Int) (C : List CodeName) (c : Cfg)
    (hfresh : ∀ ign, lookup f c.ignoredLines = some ign → lookup L ign = none) :
    IgnExt f L C c (c.ext f L C) :=
  { file := rfl, importCtx := rfl, opts := rfl, skipped := rfl, ignoredFiles := rfl,
    other := fun g hg => by simp [Cfg.ext, lookup_extMaps, hg],
    here := by simp [Cfg.ext, lookup_extMaps],
    fresh := hfresh }

/-- the same stream for the program with the extra ignore comment -/
def addIgnoreEv (f : FileId) (L : Int) (C : List CodeName) : Ev → Ev
  | .setIgnored g ign a => .setIgnored g (if g = f then ign ++ [(L, C)] else ign) a
  | e => e

/-- the event does not itself bind line `L` of file `f` -/
def freshEv (f : FileId) (L : Int) : Ev → Prop
  | .setIgnored g ign _ => g = f → lookup L ign = none
  | _ => True
instance (f : FileId) (L : Int) (e : Ev) : Decidable (freshEv f L e) := by cases e <;> (unfold freshEv; infer_instance)

def FreshCfg (f : FileId) (L : Int) (c : Cfg) : Prop :=
  ∀ ign, lookup f c.ignoredLines = some ign → lookup L ign = none

theorem stepCfg_ext (f : FileId) (L : Int) (C : List CodeName) (c : Cfg) (e : Ev) :
    stepCfg (c.ext f L C) (addIgnoreEv f L C e) = (stepCfg c e).ext f L C := by
  cases e <;> simp [stepCfg, addIgnoreEv, Cfg.ext, extMaps]

theorem freshCfg_step (f : FileId) (L : Int) (c : Cfg) (e : Ev) (hc : FreshCfg f L c) (he : freshEv f L e) :
    FreshCfg f L (stepCfg c e) := by
  cases e with
  | setIgnored g ign a =>
    intro ign' h
    simp only [stepCfg, lookup] at h
    by_cases hg : f = g
    · simp only [hg, if_true] at h
      injection h with h
      rw [← h]
      exact he hg.symm
    · simp only [hg, if_false] at h
      exact hc ign' h
  | _ => exact hc

/-- **the delta rule**: what the sink does with a submitted info when `(L, C)` is added, expressed with the
    *original* configuration `c` -/
def deltaAdd (env : Env) (f : FileId) (L : Int) (C : List CodeName) (c : Cfg) (l : Lite) (i : Info)
    (g : Option FileId) : Lite :=
  liteOutcome l (g.getD c.file) i
    (noteList env c (g.getD c.file) i ++ extraNote env c f L C (g.getD c.file) i)
    (if newlyFirst c f L C (g.getD c.file) i then markOrDrop env c.opts i L
     else ignoreStage env c (g.getD c.file) i)

def deltaStep (env : Env) (f : FileId) (L : Int) (C : List CodeName) (c : Cfg) (l : Lite) : Ev → Lite
  | .report a => deltaAdd env f L C c l (mkInfo env c a) none
  | .add i g => deltaAdd env f L C c l i g
  | e => liteStep env (c.ext f L C) l e

def deltaRun (env : Env) (f : FileId) (L : Int) (C : List CodeName) : Cfg → Lite → List Ev → Lite
  | _, l, [] => l
  | c, l, e :: es => deltaRun env f L C (stepCfg c e) (deltaStep env f L C c l e) es

theorem mkInfo_ext (env : Env) (f : FileId) (L : Int) (C : List CodeName) (c : Cfg) (a : ReportArgs) :
    mkInfo env (c.ext f L C) a = mkInfo env c a := rfl

theorem liteAdd_ext (env : Env) (f : FileId) (L : Int) (C : List CodeName) (c : Cfg) (hc : FreshCfg f L c)
    (l : Lite) (i : Info) (g : Option FileId) :
    liteAdd env (c.ext f L C) l i g = deltaAdd env f L C c l i g := by
  have h := ignExt_ext f L C c hc
  unfold liteAdd deltaAdd
  have hfile : (c.ext f L C).file = c.file := rfl
  rw [hfile, ignoreStage_ext env f L C c _ h, noteList_ext env f L C c _ h]

theorem liteStep_ext (env : Env) (f : FileId) (L : Int) (C : List CodeName) (c : Cfg) (hc : FreshCfg f L c)
    (l : Lite) (e : Ev) :
    liteStep env (c.ext f L C) l (addIgnoreEv f L C e) = deltaStep env f L C c l e := by
  cases e with
  | report a => simp only [addIgnoreEv, liteStep, deltaStep, mkInfo_ext]; exact liteAdd_ext env f L C c hc l _ none
  | add i g => simp only [addIgnoreEv, liteStep, deltaStep]; exact liteAdd_ext env f L C c hc l i g
  | setIgnored g ign a => rfl
  | _ => rfl

/-- the configuration after the events (independent of what was reported) -/
def cfgRun (c : Cfg) (evs : List Ev) : Cfg := evs.foldl stepCfg c

theorem liteRun_cfg (env : Env) : ∀ (evs : List Ev) (c : Cfg) (l : Lite), (liteRun env c l evs).1 = cfgRun c evs := by
  intro evs
  induction evs with
  | nil => intro c l; rfl
  | cons e es ih => intro c l; simp only [liteRun, cfgRun, List.foldl_cons]; exact ih _ _

theorem liteRun_ext (env : Env) (f : FileId) (L : Int) (C : List CodeName) :
    ∀ (evs : List Ev) (c : Cfg) (l : Lite), FreshCfg f L c → (∀ e ∈ evs, freshEv f L e) →
      liteRun env (c.ext f L C) l (evs.map (addIgnoreEv f L C)) =
        ((cfgRun c evs).ext f L C, deltaRun env f L C c l evs) := by
  intro evs
  induction evs with
  | nil => intro c l _ _; rfl
  | cons e es ih =>
    intro c l hc hev
    have he := hev e (by simp)
    simp only [List.map_cons, liteRun, deltaRun, cfgRun, List.foldl_cons]
    rw [stepCfg_ext, liteStep_ext env f L C c hc]
    exact ih (stepCfg c e) _ (freshCfg_step f L c e hc he) (fun x hx => hev x (by simp [hx]))

/-! ## disabling one error code -/

/-- the diagnostic carries code `k`: its code is `k`, or a sub-code of `k` that is not enabled explicitly -/
def carries (o : Opts) (k : CodeName) (code : Code) : Bool :=
  decide (code.name = k) || (decide (code.subOf = some k) && !decide (code.name ∈ o.enabled))

def Opts.dis (k : CodeName) (o : Opts) : Opts := { o with disabled := k :: o.disabled }

theorem isEnabled_dis (o : Opts) (k : CodeName) (code : Code) :
    isEnabled (o.dis k) code = (isEnabled o code && !carries o k code) := by
  unfold isEnabled carries Opts.dis subDisabled
  by_cases h1 : code.name = k
  · simp [h1]
  · by_cases h2 : code.name ∈ o.disabled
    · simp [h1, h2]
    · by_cases h3 : code.name ∈ o.enabled
      · simp [h1, h2, h3]
      · cases hs : code.subOf with
        | none => simp [h1, h2, h3]
        | some p =>
          by_cases h4 : p = k
          · simp [h1, h2, h3, h4]
          · by_cases h5 : p ∈ o.disabled
            · simp [h1, h2, h3, h4, h5]
            · simp [h1, h2, h3, h4, h5]

def Cfg.dis (k : CodeName) (c : Cfg) : Cfg := { c with opts := c.opts.dis k }

def addDisabledEv (k : CodeName) : Ev → Ev
  | .setFile f o => .setFile f (o.dis k)
  | e => e

theorem stepCfg_dis (k : CodeName) (c : Cfg) (e : Ev) :
    stepCfg (c.dis k) (addDisabledEv k e) = (stepCfg c e).dis k := by
  cases e <;> rfl

/-- the report is dropped because its code is now disabled (`add_error_info` only looks when the file has an
    ignore map and the origin span is not empty — both always true inside a build) -/
def carrierDropped (c : Cfg) (k : CodeName) (file : FileId) (i : Info) : Bool :=
  !i.blocker && (lookup file c.ignoredLines).isSome && !i.span.isEmpty &&
    match i.code with
    | some code => carries c.opts k code
    | none => false

theorem isIgnoredError_congr (o o' : Opts) (i : Info) (code : Code) (hc : i.code = some code)
    (h : isEnabled o' code = isEnabled o code) (l : Int) (ign : List (Int × List CodeName)) :
    isIgnoredError o' l i ign = isIgnoredError o l i ign := by
  unfold isIgnoredError codeDisabled lineMatches codeMatches
  simp only [hc, h]

theorem markOrDrop_congr (env : Env) (o o' : Opts) (i : Info) (code : Code) (hc : i.code = some code)
    (h : isEnabled o' code = isEnabled o code) (l : Int) :
    markOrDrop env o' i l = markOrDrop env o i l := by
  unfold markOrDrop
  simp only [hc, Option.getD_some, h]

theorem ignoreStage_dis (env : Env) (c : Cfg) (k : CodeName) (file : FileId) (i : Info)
    (hcode : i.blocker = false → i.code.isSome = true) :
    ignoreStage env (c.dis k) file i =
      if carrierDropped c k file i then .dropped else ignoreStage env c file i := by
  unfold ignoreStage carrierDropped
  cases hb : i.blocker with
  | true => simp
  | false =>
    have hsome := hcode hb
    cases hc : i.code with
    | none => rw [hc] at hsome; cases hsome
    | some code =>
      simp only [Bool.false_eq_true, if_false, Bool.not_false, Bool.true_and]
      have hign : (c.dis k).ignoredLines = c.ignoredLines := rfl
      rw [hign]
      cases hm : lookup file c.ignoredLines with
      | none => simp [afterLoop, Cfg.dis] <;> rfl
      | some ign =>
        simp only [Option.isSome_some, Bool.true_and]
        have hopts : (c.dis k).opts = c.opts.dis k := rfl
        have hen := isEnabled_dis c.opts k code
        cases hcar : carries c.opts k code with
        | false =>
          have heq : isEnabled (c.opts.dis k) code = isEnabled c.opts code := by rw [hen, hcar]; simp
          simp only [Bool.and_false, Bool.false_eq_true, if_false]
          unfold scanSpan
          rw [hopts]
          have : (fun l => isIgnoredError (c.opts.dis k) l i ign) = (fun l => isIgnoredError c.opts l i ign) := by
            funext l; exact isIgnoredError_congr _ _ i code hc heq l ign
          rw [this]
          cases List.find? (fun l => isIgnoredError c.opts l i ign) i.span with
          | some l => exact markOrDrop_congr env _ _ i code hc heq l
          | none => simp [afterLoop, Cfg.dis] <;> rfl
        | true =>
          have hdis : isEnabled (c.opts.dis k) code = false := by rw [hen, hcar]; simp
          unfold scanSpan
          rw [hopts]
          have hall : ∀ l, isIgnoredError (c.opts.dis k) l i ign = true := by
            intro l; simp [isIgnoredError, hb, codeDisabled, hc, hdis]
          cases hsp : i.span with
          | nil =>
            simp [afterLoop, Cfg.dis] <;> rfl
          | cons l ls =>
            simp [List.find?_cons, hall, markOrDrop, hc, hdis]

theorem noteList_dis (env : Env) (c : Cfg) (k : CodeName) (file : FileId) (i : Info) :
    noteList env (c.dis k) file i = noteList env c file i := rfl

/-- **the delta rule for a disabled code**, expressed with the original configuration -/
def disAdd (env : Env) (k : CodeName) (c : Cfg) (l : Lite) (i : Info) (g : Option FileId) : Lite :=
  if carrierDropped c k (g.getD c.file) i then l else liteAdd env c l i g

def disStep (env : Env) (k : CodeName) (c : Cfg) (l : Lite) : Ev → Lite
  | .report a => disAdd env k c l (mkInfo env c a) none
  | .add i g => disAdd env k c l i g
  | e => liteStep env c l e

def disRun (env : Env) (k : CodeName) : Cfg → Lite → List Ev → Lite
  | _, l, [] => l
  | c, l, e :: es => disRun env k (stepCfg c e) (disStep env k c l e) es

/-- every non-blocking info submitted by the event has an error code (`Errors.report` guarantees it) -/
def codedEv : Ev → Prop
  | .add i _ => i.blocker = false → i.code.isSome = true
  | _ => True
instance (e : Ev) : Decidable (codedEv e) := by cases e <;> (unfold codedEv; infer_instance)

theorem mkInfo_coded (env : Env) (c : Cfg) (a : ReportArgs) :
    (mkInfo env c a).blocker = false → (mkInfo env c a).code.isSome = true := by
  intro hb
  have hb' : a.blocker = false := hb
  simp only [mkInfo, defaultCode]
  cases a.code with
  | some x => rfl
  | none =>
    cases parentCode a.parent with
    | some x => rfl
    | none => simp [hb']

theorem liteAdd_dis (env : Env) (k : CodeName) (c : Cfg) (l : Lite) (i : Info) (g : Option FileId)
    (hcode : i.blocker = false → i.code.isSome = true) :
    liteAdd env (c.dis k) l i g = disAdd env k c l i g := by
  unfold liteAdd disAdd
  have hfile : (c.dis k).file = c.file := rfl
  rw [hfile, ignoreStage_dis env c k _ i hcode, noteList_dis]
  cases carrierDropped c k (g.getD c.file) i with
  | true => rfl
  | false => rfl

theorem liteStep_dis (env : Env) (k : CodeName) (c : Cfg) (l : Lite) (e : Ev) (he : codedEv e) :
    liteStep env (c.dis k) l (addDisabledEv k e) = disStep env k c l e := by
  cases e with
  | report a =>
    simp only [addDisabledEv, liteStep, disStep]
    exact liteAdd_dis env k c l (mkInfo env c a) none (mkInfo_coded env c a)
  | add i g => simp only [addDisabledEv, liteStep, disStep]; exact liteAdd_dis env k c l i g he
  | setFile f o => rfl
  | _ => rfl

theorem liteRun_dis (env : Env) (k : CodeName) :
    ∀ (evs : List Ev) (c : Cfg) (l : Lite), (∀ e ∈ evs, codedEv e) →
      liteRun env (c.dis k) l (evs.map (addDisabledEv k)) = ((cfgRun c evs).dis k, disRun env k c l evs) := by
  intro evs
  induction evs with
  | nil => intro c l _; rfl
  | cons e es ih =>
    intro c l hev
    simp only [List.map_cons, liteRun, disRun, cfgRun, List.foldl_cons]
    rw [stepCfg_dis, liteStep_dis env k c l e (hev e (by simp))]
    exact ih (stepCfg c e) _ (fun x hx => hev x (by simp [hx]))

/-! ## unused ignores -/

theorem filter_notin_isEmpty (codes used : List CodeName) :
    (codes.filter (fun x => decide (x ∉ used))).isEmpty = true ↔ ∀ x ∈ codes, x ∈ used := by
  rw [List.isEmpty_iff, List.filter_eq_nil_iff]
  constructor
  · intro h x hx
    have := h x hx
    simpa using this
  · intro h x hx
    have := h x hx
    simpa using this

/-- `generate_unused_ignore_errors` produces a message for the entry `(line, codes)` exactly when a bare ignore
    suppressed nothing, or some listed code suppressed nothing -/
theorem unusedMsg_isSome_iff (env : Env) (skipped : List Int) (used : List CodeName) (line : Int)
    (codes : List CodeName) (hs : line ∉ skipped) (hu : env.unusedIgnore.name ∉ codes) :
    (unusedMsg env skipped used line codes).isSome = true ↔
      (codes = [] ∧ used = []) ∨ (∃ c ∈ codes, c ∉ used) := by
  unfold unusedMsg
  simp only [hs, hu, if_false]
  cases hcodes : codes with
  | nil =>
    cases used with
    | nil => simp
    | cons u us => simp
  | cons c cs =>
    rw [← hcodes]
    have hne : codes ≠ [] := by rw [hcodes]; simp
    have hne' : codes.isEmpty = false := by cases codes with | nil => exact absurd rfl hne | cons _ _ => rfl
    simp only [hne', Bool.false_and, Bool.false_eq_true, if_false, Bool.not_false, Bool.true_and]
    by_cases hex : ∃ x ∈ codes, x ∉ used
    · have hf : (codes.filter (fun x => decide (x ∉ used))).isEmpty = false := by
        cases hh : (codes.filter (fun x => decide (x ∉ used))).isEmpty with
        | false => rfl
        | true =>
          obtain ⟨x, hx, hxu⟩ := hex
          exact absurd ((filter_notin_isEmpty codes used).1 hh x hx) hxu
      simp only [hf, Bool.false_eq_true, if_false, Option.isSome_some, true_iff]
      exact Or.inr hex
    · have hall : ∀ x ∈ codes, x ∈ used := by
        intro x hx
        by_cases hxu : x ∈ used
        · exact hxu
        · exact absurd ⟨x, hx, hxu⟩ hex
      have hf := (filter_notin_isEmpty codes used).2 hall
      simp only [hf, if_true, Option.isSome_none, Bool.false_eq_true, false_iff]
      rintro (⟨h1, _⟩ | h2)
      · exact hne h1
      · exact hex h2

/-! ## the used-ignore log is the list of marks -/

def markOf (env : Env) (c : Cfg) (i : Info) (g : Option FileId) : List (FileId × Int × CodeName) :=
  match ignoreStage env c (g.getD c.file) i with
  | .ignoredAt ln k => [(g.getD c.file, ln, k)]
  | _ => []

def evMarks (env : Env) (c : Cfg) : Ev → List (FileId × Int × CodeName)
  | .report a => markOf env c (mkInfo env c a) none
  | .add i g => markOf env c i g
  | _ => []

/-- all `used_ignored_lines` appends of a stream: (file, line, code) for every submitted info that an ignore suppressed -/
def marksOf (env : Env) : Cfg → List Ev → List (FileId × Int × CodeName)
  | _, [] => []
  | c, e :: es => evMarks env c e ++ marksOf env (stepCfg c e) es

theorem liteAdd_used (env : Env) (c : Cfg) (l : Lite) (i : Info) (g : Option FileId) :
    (liteAdd env c l i g).used = l.used ++ markOf env c i g := by
  unfold liteAdd markOf
  cases ignoreStage env c (g.getD c.file) i <;> simp [liteOutcome]

theorem liteStep_used (env : Env) (c : Cfg) (l : Lite) (e : Ev) :
    (liteStep env c l e).used = l.used ++ evMarks env c e := by
  cases e with
  | report a => exact liteAdd_used env c l _ none
  | add i g => exact liteAdd_used env c l i g
  | genUnused f ts => simp only [liteStep, evMarks]; split <;> simp [liteAddAll]
  | genNoCode f w ts => simp only [liteStep, evMarks]; split <;> simp [liteAddAll]
  | _ => simp [liteStep, evMarks]

theorem liteRun_used (env : Env) : ∀ (evs : List Ev) (c : Cfg) (l : Lite),
    (liteRun env c l evs).2.used = l.used ++ marksOf env c evs := by
  intro evs
  induction evs with
  | nil => intro c l; simp [liteRun, marksOf]
  | cons e es ih =>
    intro c l
    simp only [liteRun, marksOf]
    rw [ih, liteStep_used, List.append_assoc]

/-! ## monotonicity: later stages only add -/

def Dyn.le (d d' : Dyn) : Prop :=
  d'.used = d.used ∧ (∀ x ∈ d.infos, x ∈ d'.infos) ∧ (∀ x ∈ d.hasBlockers, x ∈ d'.hasBlockers)

theorem Dyn.le_refl (d : Dyn) : d.le d := ⟨rfl, fun _ h => h, fun _ h => h⟩
theorem Dyn.le_trans {a b c : Dyn} (h1 : a.le b) (h2 : b.le c) : a.le c :=
  ⟨h2.1.trans h1.1, fun x hx => h2.2.1 x (h1.2.1 x hx), fun x hx => h2.2.2 x (h1.2.2 x hx)⟩

theorem rawAdd_le (env : Env) (d : Dyn) (file : FileId) (i : Info) : d.le (rawAdd env d file i) := by
  refine ⟨rfl, fun x hx => by simp [rawAdd, hx], fun x hx => ?_⟩
  simp only [rawAdd]
  split <;> simp [hx]

theorem onlyOnce_le (d : Dyn) (m : List Msg) : d.le { d with onlyOnce := m } := ⟨rfl, fun _ h => h, fun _ h => h⟩

theorem addNote_le (env : Env) (d : Dyn) (file : FileId) (n : Option Info) : d.le (addNote env d file n) := by
  cases n with
  | none => exact Dyn.le_refl d
  | some n => exact rawAdd_le env d file n

theorem linkStage_le (env : Env) (cfg : Cfg) (d : Dyn) (file : FileId) (i : Info) : d.le (linkStage env cfg d file i) := by
  unfold linkStage
  cases i.code with
  | none => exact Dyn.le_refl d
  | some c =>
    simp only
    split
    · split
      · exact Dyn.le_refl d
      · exact Dyn.le_trans (onlyOnce_le d _) (rawAdd_le env _ file _)
    · exact Dyn.le_refl d

theorem reportHidden_le (env : Env) (d : Dyn) (file : FileId) (i : Info) : d.le (reportHidden env d file i) := by
  unfold reportHidden
  split
  · exact Dyn.le_refl d
  · exact Dyn.le_trans (onlyOnce_le d _) (rawAdd_le env _ file _)

theorem storeStage_not_once (env : Env) (cfg : Cfg) (d : Dyn) (file : FileId) (i : Info) (ho : i.onlyOnce = false) :
    storeStage env cfg d file i = afterOnlyOnce env cfg d file i := by
  unfold storeStage
  simp [ho]

/-- **a blocking error is never ignored**: whatever the ignore maps, disabled codes and `ignore_errors` files
    say, a blocker (not only_once) is stored — possibly marked hidden by the many-errors limit — its file is
    marked as having blockers, and no ignore is marked used -/
theorem addErrorInfo_blocker (env : Env) (cfg : Cfg) (d : Dyn) (i : Info) (g : Option FileId)
    (hb : i.blocker = true) (ho : i.onlyOnce = false) :
    (addErrorInfo env cfg d i g).used = d.used ∧
    (g.getD cfg.file) ∈ (addErrorInfo env cfg d i g).hasBlockers ∧
    (((g.getD cfg.file), i) ∈ (addErrorInfo env cfg d i g).infos ∨
     ((g.getD cfg.file), { i with hidden := true }) ∈ (addErrorInfo env cfg d i g).infos) := by
  have hst : ignoreStage env cfg (g.getD cfg.file) i = .pass := by simp [ignoreStage, hb]
  simp only [addErrorInfo, hst, applyOutcome]
  generalize g.getD cfg.file = file
  rw [storeStage_not_once env cfg d file i ho]
  unfold afterOnlyOnce
  have key : ∀ (d0 : Dyn) (j : Info), j.blocker = true →
      let d3 := linkStage env cfg (addNote env (rawAdd env d0 file j) file (notCoveredNote env cfg file j)) file j
      d3.used = d0.used ∧ file ∈ d3.hasBlockers ∧ (file, j) ∈ d3.infos := by
    intro d0 j hj
    have h1 := rawAdd_le env d0 file j
    have h2 := addNote_le env (rawAdd env d0 file j) file (notCoveredNote env cfg file j)
    have h3 := linkStage_le env cfg (addNote env (rawAdd env d0 file j) file (notCoveredNote env cfg file j)) file j
    have h := Dyn.le_trans h2 h3
    refine ⟨h.1.trans h1.1, h.2.2 file ?_, h.2.1 (file, j) ?_⟩
    · simp [rawAdd, hj]
    · simp [rawAdd]
  unfold hideStage
  split
  · obtain ⟨k1, k2, k3⟩ := key (reportHidden env d file { i with hidden := true }) { i with hidden := true } hb
    exact ⟨k1.trans (reportHidden_le env d file _).1, k2, Or.inr k3⟩
  · obtain ⟨k1, k2, k3⟩ := key d i hb
    exact ⟨k1, k2, Or.inl k3⟩

/-! ## positions -/

/-- a stored span is valid: `end_line ≥ line`, and on one line `end_column > column` — or both columns
    unknown (`-1`), which is what `report_simple_error` stores -/
def PosOk (i : Info) : Prop :=
  i.line ≤ i.endLine ∧ (i.endLine = i.line → i.column < i.endColumn ∨ (i.column = -1 ∧ i.endColumn = -1))
instance (i : Info) : Decidable (PosOk i) := by unfold PosOk; infer_instance

/-! ## positions of stored infos -/

def AllPos (d : Dyn) : Prop := ∀ p ∈ d.infos, PosOk p.2

theorem rawAdd_pos (env : Env) (d : Dyn) (file : FileId) (i : Info) (h : AllPos d) (hi : PosOk i) :
    AllPos (rawAdd env d file i) := by
  intro p hp
  simp only [rawAdd, List.mem_append, List.mem_singleton] at hp
  rcases hp with hp | hp
  · exact h p hp
  · rw [hp]; exact hi

theorem noteFor_pos (i : Info) (m : Msg) (c : Option Code) (o : Bool) (p : Int) (hi : PosOk i) :
    PosOk (noteFor i m c o p) := hi

theorem hidden_pos (i : Info) (hi : PosOk i) : PosOk { i with hidden := true } := hi

theorem notCoveredNote_pos (env : Env) (cfg : Cfg) (file : FileId) (i n : Info) (hi : PosOk i)
    (h : notCoveredNote env cfg file i = some n) : PosOk n := by
  unfold notCoveredNote at h
  split at h
  · cases h
  · split at h
    · cases h
    · cases h
    · injection h with h; rw [← h]; exact hi

theorem addNote_pos (env : Env) (cfg : Cfg) (d : Dyn) (file : FileId) (i : Info) (h : AllPos d) (hi : PosOk i) :
    AllPos (addNote env d file (notCoveredNote env cfg file i)) := by
  cases hn : notCoveredNote env cfg file i with
  | none => exact h
  | some n => exact rawAdd_pos env d file n h (notCoveredNote_pos env cfg file i n hi hn)

theorem onlyOnce_pos (d : Dyn) (m : List Msg) (h : AllPos d) : AllPos { d with onlyOnce := m } := h

theorem linkStage_pos (env : Env) (cfg : Cfg) (d : Dyn) (file : FileId) (i : Info) (h : AllPos d) (hi : PosOk i) :
    AllPos (linkStage env cfg d file i) := by
  unfold linkStage
  cases i.code with
  | none => exact h
  | some c =>
    simp only
    split
    · split
      · exact h
      · exact rawAdd_pos env _ file _ (onlyOnce_pos d _ h) hi
    · exact h

theorem reportHidden_pos (env : Env) (d : Dyn) (file : FileId) (i : Info) (h : AllPos d) (hi : PosOk i) :
    AllPos (reportHidden env d file i) := by
  unfold reportHidden
  split
  · exact h
  · exact rawAdd_pos env _ file _ (onlyOnce_pos d _ h) hi

theorem afterOnlyOnce_pos (env : Env) (cfg : Cfg) (d : Dyn) (file : FileId) (i : Info) (h : AllPos d) (hi : PosOk i) :
    AllPos (afterOnlyOnce env cfg d file i) := by
  unfold afterOnlyOnce hideStage
  split
  · exact linkStage_pos env cfg _ file _
      (addNote_pos env cfg _ file _ (rawAdd_pos env _ file _ (reportHidden_pos env d file _ h hi) hi) hi) hi
  · exact linkStage_pos env cfg _ file _ (addNote_pos env cfg _ file _ (rawAdd_pos env _ file _ h hi) hi) hi

theorem addErrorInfo_pos (env : Env) (cfg : Cfg) (d : Dyn) (i : Info) (g : Option FileId) (h : AllPos d) (hi : PosOk i) :
    AllPos (addErrorInfo env cfg d i g) := by
  unfold addErrorInfo
  cases ignoreStage env cfg (g.getD cfg.file) i with
  | dropped => exact h
  | ignoredAt l c => exact h
  | pass =>
    simp only [applyOutcome, storeStage]
    split
    · split
      · exact h
      · exact afterOnlyOnce_pos env cfg _ _ i (onlyOnce_pos d _ h) hi
    · exact afterOnlyOnce_pos env cfg d _ i h hi

theorem simpleError_pos (cfg : Cfg) (line : Int) (m : Msg) (c : Code) : PosOk (simpleError cfg line m c) := by
  simp [PosOk, simpleError]

theorem addAll_pos (env : Env) (file : FileId) (news : List Info) (hn : ∀ n ∈ news, PosOk n) :
    ∀ d, AllPos d → AllPos (addAll env d file news) := by
  induction news with
  | nil => intro d h; exact h
  | cons n ns ih =>
    intro d h
    simp only [addAll, List.foldl_cons]
    exact ih (fun m hm => hn m (by simp [hm])) _ (rawAdd_pos env d file n h (hn n (by simp)))

theorem unusedNews_pos (env : Env) (cfg : Cfg) (used : List (FileId × Int × CodeName)) (file : FileId) :
    ∀ n ∈ unusedNews env cfg used file, PosOk n := by
  intro n hn
  simp only [unusedNews, List.mem_filterMap] at hn
  obtain ⟨lc, _, h⟩ := hn
  cases hm : unusedMsg env ((lookup file cfg.skippedLines).getD []) (usedCodesOf used file lc.1) lc.1 lc.2 with
  | none => simp [hm] at h
  | some m => simp [hm] at h; rw [← h]; exact simpleError_pos _ _ _ _

theorem noCodeNews_pos (env : Env) (cfg : Cfg) (used : List (FileId × Int × CodeName)) (file : FileId) (w : Bool) :
    ∀ n ∈ noCodeNews env cfg used file w, PosOk n := by
  intro n hn
  simp only [noCodeNews, List.mem_filterMap] at hn
  obtain ⟨lc, _, h⟩ := hn
  cases hm : noCodeMsg ((lookup file cfg.skippedLines).getD []) (usedCodesOf used file lc.1) w lc.1 lc.2 with
  | none => simp [hm] at h
  | some m => simp [hm] at h; rw [← h]; exact simpleError_pos _ _ _ _

theorem clamp_line_le (line : Int) (c el ec : Option Int) :
    (ErrPos.clamp line c el ec).line ≤ (ErrPos.clamp line c el ec).endLine := by
  simp only [ErrPos.clamp, ErrPos.clampEndLine]
  cases el with
  | none => simp
  | some e => simp only; split <;> omega

theorem clamp_col_lt (line : Int) (c el ec : Option Int) :
    (ErrPos.clamp line c el ec).endLine = (ErrPos.clamp line c el ec).line →
    (ErrPos.clamp line c el ec).column < (ErrPos.clamp line c el ec).endColumn := by
  intro h
  simp only [ErrPos.clamp] at h ⊢
  simp only [ErrPos.clampEndColumn]
  split
  · omega
  · rename_i hn
    have : ¬ (ErrPos.defaultEndColumn (ErrPos.clampColumn c) ec ≤ ErrPos.clampColumn c) := fun hle => hn ⟨h.symm, hle⟩
    omega

theorem mkInfo_pos (env : Env) (cfg : Cfg) (a : ReportArgs) : PosOk (mkInfo env cfg a) :=
  ⟨clamp_line_le a.line a.column a.endLine a.endColumn,
   fun h => Or.inl (clamp_col_lt a.line a.column a.endLine a.endColumn h)⟩

/-- the infos handed to `add_error_info` directly have valid spans -/
def posEv : Ev → Prop
  | .add i _ => PosOk i
  | _ => True
instance (e : Ev) : Decidable (posEv e) := by cases e <;> (unfold posEv; infer_instance)

theorem step_pos (env : Env) (s : St) (e : Ev) (h : AllPos s.dyn) (he : posEv e) : AllPos (step env s e).dyn := by
  cases e with
  | report a => exact addErrorInfo_pos env s.cfg s.dyn _ none h (mkInfo_pos env s.cfg a)
  | add i g => exact addErrorInfo_pos env s.cfg s.dyn i g h he
  | genUnused f ts =>
    simp only [step, stepDyn, genUnused]
    split
    · exact h
    · exact addAll_pos env f _ (unusedNews_pos env s.cfg s.dyn.used f) _ h
  | genNoCode f w ts =>
    simp only [step, stepDyn, genNoCode]
    split
    · exact h
    · exact addAll_pos env f _ (noCodeNews_pos env s.cfg s.dyn.used f w) _ h
  | _ => exact h

theorem run_pos (env : Env) : ∀ (evs : List Ev) (s : St), AllPos s.dyn → (∀ e ∈ evs, posEv e) →
    AllPos (run env s evs).dyn := by
  intro evs
  induction evs with
  | nil => intro s h _; exact h
  | cons e es ih =>
    intro s h hev
    simp only [run, List.foldl_cons]
    exact ih (step env s e) (step_pos env s e h (hev e (by simp))) (fun x hx => hev x (by simp [hx]))

/-! ## file_messages only rearranges and drops -/

theorem mem_insertBy {α : Type} (le : α → α → Bool) (a x : α) : ∀ l, x ∈ insertBy le a l ↔ x = a ∨ x ∈ l := by
  intro l
  induction l with
  | nil => simp [insertBy]
  | cons y ys ih =>
    simp only [insertBy]
    split
    · simp
    · simp only [List.mem_cons, ih]
      constructor
      · rintro (h | h | h)
        · exact Or.inr (Or.inl h)
        · exact Or.inl h
        · exact Or.inr (Or.inr h)
      · rintro (h | h | h)
        · exact Or.inr (Or.inl h)
        · exact Or.inl h
        · exact Or.inr (Or.inr h)

theorem mem_sortBy {α : Type} (le : α → α → Bool) (x : α) : ∀ l, x ∈ sortBy le l ↔ x ∈ l := by
  intro l
  induction l with
  | nil => simp [sortBy]
  | cons y ys ih =>
    simp only [sortBy, List.foldr_cons] at ih ⊢
    rw [mem_insertBy, ih]
    simp

theorem runs_flatten {α : Type} (same : α → α → Bool) : ∀ l, (runs same l).flatten = l
  | [] => by simp [runs]
  | [x] => by simp [runs]
  | x :: y :: ys => by
    have ih := runs_flatten same (y :: ys)
    simp only [runs]
    cases hr : runs same (y :: ys) with
    | nil => rw [hr] at ih; simp at ih
    | cons r rs =>
      rw [hr] at ih
      simp only
      split
      · simp only [List.flatten_cons, List.cons_append] at ih ⊢; rw [ih]
      · simp only [List.flatten_cons, List.cons_append, List.nil_append] at ih ⊢; rw [ih]

theorem mem_flatten_map_runs {α : Type} (same : α → α → Bool) (g : List α → List α)
    (hg : ∀ r x, x ∈ g r ↔ x ∈ r) (l : List α) (x : α) :
    x ∈ ((runs same l).map g).flatten ↔ x ∈ l := by
  constructor
  · intro h
    obtain ⟨r', hr', hx⟩ := List.mem_flatten.1 h
    obtain ⟨r, hr, rfl⟩ := List.mem_map.1 hr'
    have : x ∈ (runs same l).flatten := List.mem_flatten.2 ⟨r, hr, (hg r x).1 hx⟩
    rwa [runs_flatten] at this
  · intro h
    rw [← runs_flatten same l] at h
    obtain ⟨r, hr, hx⟩ := List.mem_flatten.1 h
    exact List.mem_flatten.2 ⟨g r, List.mem_map.2 ⟨r, hr, rfl⟩, (hg r x).2 hx⟩

theorem mem_sortWithinContext (l : List Info) (x : Info) : x ∈ sortWithinContext l ↔ x ∈ l :=
  mem_flatten_map_runs _ _ (fun r y => mem_sortBy _ y r) l x

theorem mem_sortMessages (l : List Info) (x : Info) : x ∈ sortMessages l ↔ x ∈ l :=
  mem_flatten_map_runs _ _ (fun r y => by rw [mem_sortWithinContext, mem_sortBy]) l x

theorem dedupScan_sub : ∀ (l : List Info) (seen : List (Int × Sev × Msg)) (x : Info),
    x ∈ (dedupScan l seen).1 → x ∈ l := by
  intro l
  induction l with
  | nil => intro seen x h; simp [dedupScan] at h
  | cons e es ih =>
    intro seen x h
    simp only [dedupScan] at h
    split at h
    · simp only [List.mem_cons] at h ⊢
      rcases h with h | h
      · exact Or.inl h
      · exact Or.inr (ih _ x h)
    · split at h
      · exact List.mem_cons_of_mem _ (ih _ x h)
      · simp only [List.mem_cons] at h ⊢
        rcases h with h | h
        · exact Or.inl h
        · exact Or.inr (ih _ x h)

theorem removeDuplicates_sub (l : List Info) (x : Info) (h : x ∈ removeDuplicates l) : x ∈ l := by
  simp only [removeDuplicates, List.mem_filter] at h
  exact dedupScan_sub l [] x h.1

/-- **no message is invented**: every tuple `file_messages` returns renders a stored, non-hidden ErrorInfo of that file -/
theorem fileMessages_sub (d : Dyn) (path : FileId) (t : Tuple) (h : t ∈ fileMessages d path) :
    ∃ i, (path, i) ∈ d.infos ∧ i.hidden = false ∧ t = render i := by
  simp only [fileMessages, List.mem_map] at h
  obtain ⟨i, hi, rfl⟩ := h
  have h1 := removeDuplicates_sub _ i hi
  rw [mem_sortMessages] at h1
  simp only [List.mem_filter, fileInfos, List.mem_map] at h1
  obtain ⟨⟨p, hp, rfl⟩, hh⟩ := h1
  refine ⟨p.2, ?_, by simpa using hh, rfl⟩
  have : p.1 = path := by simpa using hp.2
  rw [← this]
  exact hp.1

/-- first loop of remove_duplicates: a parentless element is kept or has its key in `seen`/kept earlier -/
theorem dedupScan_repr : ∀ (l : List Info) (seen : List (Int × Sev × Msg)) (x : Info),
    x ∈ l → x.parent = none →
    (x.line, x.sev, x.msg) ∈ seen ∨
    ∃ y ∈ (dedupScan l seen).1, y.parent = none ∧ (y.line, y.sev, y.msg) = (x.line, x.sev, x.msg) := by
  intro l
  induction l with
  | nil => intro seen x h; cases h
  | cons e es ih =>
    intro seen x hx hp
    simp only [dedupScan]
    rcases List.mem_cons.1 hx with rfl | hx'
    · simp only [hp, Option.isSome_none, Bool.false_eq_true, if_false]
      split
      · rename_i hs; exact Or.inl hs
      · exact Or.inr ⟨x, by simp, hp, rfl⟩
    · split
      · rcases ih seen x hx' hp with h | ⟨y, hy, hy2⟩
        · exact Or.inl h
        · exact Or.inr ⟨y, by simp [hy], hy2⟩
      · split
        · rcases ih seen x hx' hp with h | ⟨y, hy, hy2⟩
          · exact Or.inl h
          · exact Or.inr ⟨y, hy, hy2⟩
        · rename_i hpe hns
          rcases ih ((e.line, e.sev, e.msg) :: seen) x hx' hp with h | ⟨y, hy, hy2⟩
          · rcases List.mem_cons.1 h with h | h
            · refine Or.inr ⟨e, by simp, ?_, h.symm⟩
              cases hpar : e.parent with
              | none => rfl
              | some p => simp [hpar] at hpe
            · exact Or.inl h
          · exact Or.inr ⟨y, by simp [hy], hy2⟩

/-- **nothing is lost but duplicates**: a parentless element of the input has a representative with the same
    (line, severity, message) in the output of `remove_duplicates` -/
theorem removeDuplicates_repr (l : List Info) (x : Info) (hx : x ∈ l) (hp : x.parent = none) :
    ∃ y ∈ removeDuplicates l, (y.line, y.sev, y.msg) = (x.line, x.sev, x.msg) := by
  rcases dedupScan_repr l [] x hx hp with h | ⟨y, hy, hyp, hk⟩
  · cases h
  · refine ⟨y, ?_, hk⟩
    simp only [removeDuplicates, List.mem_filter]
    exact ⟨hy, by simp [parentRemoved, hyp]⟩

/-- a stored, visible, parentless info is shown by `file_messages` (itself or an identical-looking earlier one) -/
theorem fileMessages_shows (d : Dyn) (path : FileId) (i : Info) (h : (path, i) ∈ d.infos)
    (hh : i.hidden = false) (hp : i.parent = none) :
    ∃ t ∈ fileMessages d path, t.line = i.line ∧ t.sev = i.sev ∧ t.msg = i.msg := by
  have h1 : i ∈ sortMessages ((fileInfos d path).filter fun i => !i.hidden) := by
    rw [mem_sortMessages]
    simp only [List.mem_filter, fileInfos, List.mem_map]
    exact ⟨⟨(path, i), by simp [h], rfl⟩, by simp [hh]⟩
  obtain ⟨y, hy, hk⟩ := removeDuplicates_repr _ i h1 hp
  refine ⟨render y, List.mem_map.2 ⟨y, hy, rfl⟩, ?_⟩
  simp only [Prod.mk.injEq] at hk
  exact ⟨hk.1, hk.2.1, hk.2.2⟩

/-! ## small facts used by Props/C13 -/

/-- `Quiet` is not affected by adding an ignore entry -/
theorem quiet_addIgnore (f : FileId) (L : Int) (C : List CodeName) (s : St) (evs : List Ev) (h : Quiet s evs) :
    Quiet { cfg := s.cfg.ext f L C, dyn := s.dyn } (evs.map (addIgnoreEv f L C)) := by
  obtain ⟨h1, h2, h3⟩ := h
  refine ⟨h1, ?_, ?_⟩
  · intro e he
    obtain ⟨e0, he0, rfl⟩ := List.mem_map.1 he
    have := h2 e0 he0
    cases e0 <;> simpa [addIgnoreEv, evQuiet] using this
  · have : (evs.map (addIgnoreEv f L C)).flatMap onceMsg = evs.flatMap onceMsg := by
      rw [List.flatMap_map]
      congr 1
      funext e
      cases e <;> rfl
    rw [this]; exact h3

/-- `firstNew` implies the new entry matches and `L` is in the span -/
theorem firstNew_spec (p : Int → Bool) (hit : Bool) (L : Int) : ∀ span : List Int,
    firstNew p hit L span = true → hit = true ∧ L ∈ span := by
  intro span
  induction span with
  | nil => intro h; simp [firstNew] at h
  | cons l ls ih =>
    intro h
    simp only [firstNew] at h
    split at h
    · cases h
    · split at h
      · rename_i hl; exact ⟨hl.2, by simp [hl.1]⟩
      · obtain ⟨a, b⟩ := ih h; exact ⟨a, by simp [b]⟩

end Errors
