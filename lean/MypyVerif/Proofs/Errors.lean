import MypyVerif.Model.ExitStatus
/-!
Helper definitions and lemmas for Props/C13.lean.

* exit status: a note-severity line always contains ": note:", counting lemma;
* the sink without its three history-dependent mechanisms (`Lite`): under `Quiet` (no error-code links,
  many-errors threshold off, only_once messages pairwise distinct) the sink's `used_ignored_lines`,
  `error_info_map` and `has_blockers` evolve as a fold of *stateless* per-report decisions (`run_lite`);
* position invariants, `lookup` facts.
-/

/-! ## exit status -/
namespace ExitStatus
open Errors (Sev)

theorem isPrefix_append (p s : List Char) : isPrefix p (p ++ s) = true := by
  induction p with
  | nil => simp [isPrefix]
  | cons c cs ih => simp [isPrefix, ih]

theorem isInfix_of_isPrefix (p s : List Char) (h : isPrefix p s = true) : isInfix p s = true := by
  cases s with
  | nil => simpa [isInfix] using h
  | cons c cs => simp [isInfix, h]

theorem isInfix_append_left (p a b : List Char) (h : isInfix p b = true) : isInfix p (a ++ b) = true := by
  induction a with
  | nil => simpa using h
  | cons c cs ih => simp [isInfix, ih]

theorem isInfix_mid (p a b : List Char) : isInfix p (a ++ (p ++ b)) = true :=
  isInfix_append_left p a (p ++ b) (isInfix_of_isPrefix p _ (isPrefix_append p b))

/-- a line formatted from a note-severity tuple always contains `": note:"` -/
theorem format_note_has_marker (l : Line) (h : l.sev = .note) : isInfix noteMarker (format l) = true := by
  have : format l = l.srcloc ++ (noteMarker ++ (' ' :: (l.message ++ l.codeSuffix))) := by
    simp [format, h, sevText, noteMarker, List.append_assoc]
  rw [this]
  exact isInfix_mid _ _ _

theorem filter_length_lt_iff {α : Type} (p : α → Bool) (l : List α) :
    (l.filter p).length < l.length ↔ ∃ x ∈ l, p x = false := by
  induction l with
  | nil => simp
  | cons a as ih =>
    have hle : (as.filter p).length ≤ as.length := List.length_filter_le p as
    by_cases hp : p a = true
    · simp [hp, ih]
    · have hp' : p a = false := by simpa using hp
      simp [hp']
      omega

/-- `n_notes < len(messages)` iff some tuple has severity error — provided no error line contains the marker -/
theorem notes_counted (ls : List Line)
    (h : ∀ l ∈ ls, l.sev = .error → isInfix noteMarker (format l) = false) :
    (countStats (ls.map format)).2 < (ls.map format).length ↔ ∃ l ∈ ls, l.sev = .error := by
  simp only [countStats]
  rw [filter_length_lt_iff]
  constructor
  · rintro ⟨x, hx, hf⟩
    obtain ⟨l, hl, rfl⟩ := List.mem_map.1 hx
    refine ⟨l, hl, ?_⟩
    cases hs : l.sev with
    | error => rfl
    | note => rw [format_note_has_marker l hs] at hf; cases hf
  · rintro ⟨l, hl, he⟩
    exact ⟨format l, List.mem_map.2 ⟨l, hl, rfl⟩, h l hl he⟩

end ExitStatus

namespace Errors

/-! ## quiet options: the history-dependent stages are the identity -/

/-- no error-code links, many-errors threshold switched off (the defaults) -/
def QuietOpts (o : Opts) : Prop := o.showLinks = false ∧ o.manyThreshold < 0
instance (o : Opts) : Decidable (QuietOpts o) := by unfold QuietOpts; infer_instance

theorem hasManyErrors_quiet (o : Opts) (d : Dyn) (h : QuietOpts o) : hasManyErrors o d = false := by
  simp [hasManyErrors, h.2]

theorem hideStage_quiet (env : Env) (cfg : Cfg) (d : Dyn) (file : FileId) (i : Info) (h : QuietOpts cfg.opts) :
    hideStage env cfg d file i = (d, i) := by
  simp [hideStage, shouldHide, hasManyErrors_quiet _ _ h]

theorem linkStage_quiet (env : Env) (cfg : Cfg) (d : Dyn) (file : FileId) (i : Info) (h : QuietOpts cfg.opts) :
    linkStage env cfg d file i = d := by
  unfold linkStage
  cases i.code <;> simp [h.1]

theorem afterOnlyOnce_quiet (env : Env) (cfg : Cfg) (d : Dyn) (file : FileId) (i : Info) (h : QuietOpts cfg.opts) :
    afterOnlyOnce env cfg d file i = addNote env (rawAdd env d file i) file (notCoveredNote env cfg file i) := by
  simp [afterOnlyOnce, hideStage_quiet _ _ _ _ _ h, linkStage_quiet _ _ _ _ _ h]

/-! ## the sink without history: `Lite` -/

structure Lite where
  used : List (FileId × Int × CodeName)
  infos : List (FileId × Info)
  hasBlockers : List FileId
deriving Repr, DecidableEq

def Dyn.lite (d : Dyn) : Lite := { used := d.used, infos := d.infos, hasBlockers := d.hasBlockers }

/-- the "not covered" note as a list of `error_info_map` entries -/
def noteList (env : Env) (cfg : Cfg) (file : FileId) (i : Info) : List (FileId × Info) :=
  match notCoveredNote env cfg file i with
  | some n => [(file, n)]
  | none => []

def liteOutcome (l : Lite) (file : FileId) (i : Info) (notes : List (FileId × Info)) : Outcome → Lite
  | .dropped => l
  | .ignoredAt ln c => { l with used := l.used ++ [(file, ln, c)] }
  | .pass => { l with infos := l.infos ++ (file, i) :: notes,
                      hasBlockers := if i.blocker then l.hasBlockers ++ [file] else l.hasBlockers }

/-- `add_error_info` as a stateless decision: everything is determined by the configuration and the info -/
def liteAdd (env : Env) (cfg : Cfg) (l : Lite) (i : Info) (f : Option FileId) : Lite :=
  liteOutcome l (f.getD cfg.file) i (noteList env cfg (f.getD cfg.file) i) (ignoreStage env cfg (f.getD cfg.file) i)

def liteAddAll (l : Lite) (file : FileId) (news : List Info) : Lite :=
  { l with infos := l.infos ++ news.map (fun n => (file, n)) }

def liteStep (env : Env) (c : Cfg) (l : Lite) : Ev → Lite
  | .report a => liteAdd env c l (mkInfo env c a) none
  | .add i f => liteAdd env c l i f
  | .genUnused f ts => if ts || f ∈ c.ignoredFiles then l else liteAddAll l f (unusedNews env c l.used f)
  | .genNoCode f w ts => if ts || f ∈ c.ignoredFiles then l else liteAddAll l f (noCodeNews env c l.used f w)
  | _ => l

def liteRun (env : Env) : Cfg → Lite → List Ev → Cfg × Lite
  | c, l, [] => (c, l)
  | c, l, e :: es => liteRun env (stepCfg c e) (liteStep env c l e) es

/-- the only_once message an event submits -/
def onceMsg : Ev → List Msg
  | .report a => if a.onlyOnce then [.user a.msgId a.offset] else []
  | .add i _ => if i.onlyOnce then [i.msg] else []
  | _ => []

def evQuiet : Ev → Prop
  | .setFile _ o => QuietOpts o
  | _ => True
instance (e : Ev) : Decidable (evQuiet e) := by cases e <;> (unfold evQuiet; infer_instance)

/-- `NoOnlyOnceCollision` ∧ `BelowManyErrorsThreshold` ∧ no error-code links, as a decidable predicate on the
    starting state and the event stream -/
def Quiet (s : St) (evs : List Ev) : Prop :=
  QuietOpts s.cfg.opts ∧ (∀ e ∈ evs, evQuiet e) ∧ (s.dyn.onlyOnce ++ evs.flatMap onceMsg).Nodup
instance (s : St) (evs : List Ev) : Decidable (Quiet s evs) := by unfold Quiet; infer_instance

theorem rawAdd_lite (env : Env) (d : Dyn) (file : FileId) (i : Info) :
    (rawAdd env d file i).lite =
      { d.lite with infos := d.lite.infos ++ [(file, i)],
                    hasBlockers := if i.blocker then d.lite.hasBlockers ++ [file] else d.lite.hasBlockers } := by
  simp [rawAdd, Dyn.lite]

theorem rawAdd_onlyOnce (env : Env) (d : Dyn) (file : FileId) (i : Info) :
    (rawAdd env d file i).onlyOnce = d.onlyOnce := rfl

theorem notCoveredNote_blocker (env : Env) (cfg : Cfg) (file : FileId) (i n : Info)
    (h : notCoveredNote env cfg file i = some n) : n.blocker = false := by
  unfold notCoveredNote at h
  split at h
  · cases h
  · split at h
    · cases h
    · cases h
    · injection h with h; rw [← h]; rfl

theorem addNote_lite (env : Env) (cfg : Cfg) (d : Dyn) (file : FileId) (i : Info) :
    (addNote env d file (notCoveredNote env cfg file i)).lite =
      { d.lite with infos := d.lite.infos ++ noteList env cfg file i } ∧
    (addNote env d file (notCoveredNote env cfg file i)).onlyOnce = d.onlyOnce := by
  unfold noteList
  cases h : notCoveredNote env cfg file i with
  | none => simp [addNote, Dyn.lite]
  | some n =>
    have hb := notCoveredNote_blocker env cfg file i n h
    simp [addNote, rawAdd, Dyn.lite, hb]

theorem afterOnlyOnce_lite (env : Env) (cfg : Cfg) (d : Dyn) (file : FileId) (i : Info) (h : QuietOpts cfg.opts) :
    (afterOnlyOnce env cfg d file i).lite = liteOutcome d.lite file i (noteList env cfg file i) .pass ∧
    (afterOnlyOnce env cfg d file i).onlyOnce = d.onlyOnce := by
  rw [afterOnlyOnce_quiet _ _ _ _ _ h]
  obtain ⟨h1, h2⟩ := addNote_lite env cfg (rawAdd env d file i) file i
  refine ⟨?_, ?_⟩
  · rw [h1, rawAdd_lite]
    simp [liteOutcome, List.append_assoc]
  · rw [h2]; rfl

/-- the only_once messages a stored info adds to `only_once_messages` -/
def onceOf (i : Info) : List Msg := if i.onlyOnce then [i.msg] else []

theorem storeStage_lite (env : Env) (cfg : Cfg) (d : Dyn) (file : FileId) (i : Info) (h : QuietOpts cfg.opts)
    (hfresh : i.onlyOnce = true → i.msg ∉ d.onlyOnce) :
    (storeStage env cfg d file i).lite = liteOutcome d.lite file i (noteList env cfg file i) .pass ∧
    (storeStage env cfg d file i).onlyOnce = d.onlyOnce ++ onceOf i := by
  unfold storeStage onceOf
  by_cases ho : i.onlyOnce = true
  · have hn := hfresh ho
    simp only [ho, if_true, hn, if_false]
    obtain ⟨h1, h2⟩ := afterOnlyOnce_lite env cfg { d with onlyOnce := d.onlyOnce ++ [i.msg] } file i h
    exact ⟨h1, h2⟩
  · have ho' : i.onlyOnce = false := by simpa using ho
    simp only [ho', Bool.false_eq_true, if_false]
    obtain ⟨h1, h2⟩ := afterOnlyOnce_lite env cfg d file i h
    exact ⟨h1, by simpa using h2⟩

theorem addErrorInfo_lite (env : Env) (cfg : Cfg) (d : Dyn) (i : Info) (f : Option FileId) (h : QuietOpts cfg.opts)
    (hfresh : i.onlyOnce = true → i.msg ∉ d.onlyOnce) :
    (addErrorInfo env cfg d i f).lite = liteAdd env cfg d.lite i f ∧
    ((addErrorInfo env cfg d i f).onlyOnce = d.onlyOnce ∨
     (addErrorInfo env cfg d i f).onlyOnce = d.onlyOnce ++ onceOf i) := by
  unfold addErrorInfo liteAdd
  cases ignoreStage env cfg (f.getD cfg.file) i with
  | dropped => exact ⟨rfl, Or.inl rfl⟩
  | ignoredAt l c => exact ⟨rfl, Or.inl rfl⟩
  | pass =>
    obtain ⟨h1, h2⟩ := storeStage_lite env cfg d (f.getD cfg.file) i h hfresh
    exact ⟨h1, Or.inr h2⟩

theorem simpleError_blocker (cfg : Cfg) (line : Int) (m : Msg) (c : Code) : (simpleError cfg line m c).blocker = false := rfl

theorem addAll_lite (env : Env) (file : FileId) (news : List Info) (hb : ∀ n ∈ news, n.blocker = false) :
    ∀ d : Dyn, (addAll env d file news).lite = liteAddAll d.lite file news ∧ (addAll env d file news).onlyOnce = d.onlyOnce := by
  induction news with
  | nil => intro d; simp [addAll, liteAddAll]
  | cons n ns ih =>
    intro d
    have hn : n.blocker = false := hb n (by simp)
    obtain ⟨h1, h2⟩ := ih (fun m hm => hb m (by simp [hm])) (rawAdd env d file n)
    simp only [addAll, List.foldl_cons] at h1 h2 ⊢
    refine ⟨?_, ?_⟩
    · rw [h1, rawAdd_lite]
      simp [liteAddAll, hn, List.append_assoc]
    · rw [h2]; rfl

theorem unusedNews_blocker (env : Env) (cfg : Cfg) (used : List (FileId × Int × CodeName)) (file : FileId) :
    ∀ n ∈ unusedNews env cfg used file, n.blocker = false := by
  intro n hn
  simp only [unusedNews, List.mem_filterMap] at hn
  obtain ⟨lc, _, h⟩ := hn
  cases hm : unusedMsg env ((lookup file cfg.skippedLines).getD []) (usedCodesOf used file lc.1) lc.1 lc.2 with
  | none => simp [hm] at h
  | some m => simp [hm] at h; rw [← h]; rfl

theorem noCodeNews_blocker (env : Env) (cfg : Cfg) (used : List (FileId × Int × CodeName)) (file : FileId) (w : Bool) :
    ∀ n ∈ noCodeNews env cfg used file w, n.blocker = false := by
  intro n hn
  simp only [noCodeNews, List.mem_filterMap] at hn
  obtain ⟨lc, _, h⟩ := hn
  cases hm : noCodeMsg ((lookup file cfg.skippedLines).getD []) (usedCodesOf used file lc.1) w lc.1 lc.2 with
  | none => simp [hm] at h
  | some m => simp [hm] at h; rw [← h]; rfl

theorem genUnused_lite (env : Env) (cfg : Cfg) (d : Dyn) (f : FileId) (ts : Bool) :
    (genUnused env cfg d f ts).lite =
      (if ts || f ∈ cfg.ignoredFiles then d.lite else liteAddAll d.lite f (unusedNews env cfg d.lite.used f)) ∧
    (genUnused env cfg d f ts).onlyOnce = d.onlyOnce := by
  unfold genUnused
  split
  · exact ⟨rfl, rfl⟩
  · exact addAll_lite env f _ (unusedNews_blocker env cfg d.used f) d

theorem genNoCode_lite (env : Env) (cfg : Cfg) (d : Dyn) (f : FileId) (w ts : Bool) :
    (genNoCode env cfg d f w ts).lite =
      (if ts || f ∈ cfg.ignoredFiles then d.lite else liteAddAll d.lite f (noCodeNews env cfg d.lite.used f w)) ∧
    (genNoCode env cfg d f w ts).onlyOnce = d.onlyOnce := by
  unfold genNoCode
  split
  · exact ⟨rfl, rfl⟩
  · exact addAll_lite env f _ (noCodeNews_blocker env cfg d.used f w) d

theorem mkInfo_once (env : Env) (cfg : Cfg) (a : ReportArgs) : onceOf (mkInfo env cfg a) = onceMsg (.report a) := by
  simp [onceOf, onceMsg, mkInfo]

/-- one step of the sink agrees with the stateless step, and `Quiet` is preserved -/
theorem step_lite (env : Env) (s : St) (e : Ev) (evs : List Ev) (h : Quiet s (e :: evs)) :
    Quiet (step env s e) evs ∧ (step env s e).dyn.lite = liteStep env s.cfg s.dyn.lite e := by
  obtain ⟨hq, hev, hnd⟩ := h
  have hev' : ∀ x ∈ evs, evQuiet x := fun x hx => hev x (by simp [hx])
  have he : evQuiet e := hev e (by simp)
  rw [List.flatMap_cons] at hnd
  -- facts from Nodup
  have hnd_skip : (s.dyn.onlyOnce ++ evs.flatMap onceMsg).Nodup := by
    refine List.Nodup.sublist ?_ hnd
    exact List.Sublist.append (List.Sublist.refl _) (List.sublist_append_right _ _)
  have hnd_keep : ((s.dyn.onlyOnce ++ onceMsg e) ++ evs.flatMap onceMsg).Nodup := by
    simpa [List.append_assoc] using hnd
  have hfresh : ∀ m ∈ onceMsg e, m ∉ s.dyn.onlyOnce := by
    intro m hm hin
    have := (List.nodup_append.1 hnd).2.2 m hin m (by simp [hm])
    exact this rfl
  have hqopts : ∀ c' : Cfg, c'.opts = s.cfg.opts → QuietOpts c'.opts := fun c' hc => hc ▸ hq
  cases e with
  | setFile f o =>
    exact ⟨⟨he, hev', by simpa [step, stepDyn, onceMsg] using hnd_skip⟩, rfl⟩
  | setImportCtx x => exact ⟨⟨hq, hev', by simpa [step, stepDyn, onceMsg] using hnd_skip⟩, rfl⟩
  | setIgnored f ign a => exact ⟨⟨hq, hev', by simpa [step, stepDyn, onceMsg] using hnd_skip⟩, rfl⟩
  | setSkipped f ls => exact ⟨⟨hq, hev', by simpa [step, stepDyn, onceMsg] using hnd_skip⟩, rfl⟩
  | ignoreFile f => exact ⟨⟨hq, hev', by simpa [step, stepDyn, onceMsg] using hnd_skip⟩, rfl⟩
  | report a =>
    have hf : (mkInfo env s.cfg a).onlyOnce = true → (mkInfo env s.cfg a).msg ∉ s.dyn.onlyOnce := by
      intro ho
      apply hfresh
      have : onceOf (mkInfo env s.cfg a) = [(mkInfo env s.cfg a).msg] := by simp [onceOf, ho]
      rw [← mkInfo_once env s.cfg a, this]; simp
    obtain ⟨h1, h2⟩ := addErrorInfo_lite env s.cfg s.dyn (mkInfo env s.cfg a) none hq hf
    refine ⟨⟨hq, hev', ?_⟩, h1⟩
    simp only [step, stepDyn]
    rcases h2 with h2 | h2
    · rw [h2]; exact hnd_skip
    · rw [h2, mkInfo_once]; exact hnd_keep
  | add i f =>
    have hf : i.onlyOnce = true → i.msg ∉ s.dyn.onlyOnce := by
      intro ho
      apply hfresh
      simp [onceMsg, ho]
    obtain ⟨h1, h2⟩ := addErrorInfo_lite env s.cfg s.dyn i f hq hf
    refine ⟨⟨hq, hev', ?_⟩, h1⟩
    simp only [step, stepDyn]
    rcases h2 with h2 | h2
    · rw [h2]; exact hnd_skip
    · rw [h2]; simpa [onceOf, onceMsg] using hnd_keep
  | genUnused f ts =>
    obtain ⟨h1, h2⟩ := genUnused_lite env s.cfg s.dyn f ts
    refine ⟨⟨hq, hev', ?_⟩, h1⟩
    simp only [step, stepDyn]
    rw [h2]; exact hnd_skip
  | genNoCode f w ts =>
    obtain ⟨h1, h2⟩ := genNoCode_lite env s.cfg s.dyn f w ts
    refine ⟨⟨hq, hev', ?_⟩, h1⟩
    simp only [step, stepDyn]
    rw [h2]; exact hnd_skip

/-- **the sink is stateless under `Quiet`**: configuration, used-ignore log, stored infos and blocker files of
    the real state machine are those of the history-free fold -/
theorem run_lite (env : Env) : ∀ (evs : List Ev) (s : St), Quiet s evs →
    ((run env s evs).cfg, (run env s evs).dyn.lite) = liteRun env s.cfg s.dyn.lite evs := by
  intro evs
  induction evs with
  | nil => intro s _; rfl
  | cons e es ih =>
    intro s h
    obtain ⟨hq, hl⟩ := step_lite env s e es h
    have := ih (step env s e) hq
    simp only [run, List.foldl_cons] at this ⊢
    rw [this, hl]
    rfl

end Errors
