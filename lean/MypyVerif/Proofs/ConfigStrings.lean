import MypyVerif.Proofs.ConfigChain
/-!
The component-level reading of section names (Model/Config.lean works on lists of components) is faithful to
the strings `options.py` handles: names determine their components (`pat_str_inj`: dict look-ups by string
are look-ups by component list), `"*" in k[:-1]` is `Pat.unstructured`, `k.endswith(".*")` is
`Pat.endsDotStar`.
-/
namespace Config

/-! ## the component-level reading of section names is faithful to the strings the code handles -/

/-- no dot and no star inside -/
def Plain (s : Str) : Prop := ∀ x ∈ s, x ≠ '.' ∧ x ≠ '*'

theorem ValidComp.plain {c : Str} (h : ValidComp c) : Plain c := by
  intro x hx
  refine ⟨h.ne_dot x hx, ?_⟩
  intro e
  have := h.2 x hx
  rw [e] at this
  revert this; decide

theorem part_str_nodot (x : Part) (hx : ValidPart x) : ∀ ch ∈ x.str, ch ≠ '.' := by
  cases x with
  | star => intro ch hch; simp [Part.str] at hch; rw [hch]; decide
  | lit c => exact fun ch hch => (ValidComp.plain hx ch hch).1

theorem part_str_ne_nil (x : Part) (hx : ValidPart x) : x.str ≠ [] := by
  cases x with
  | star => simp [Part.str]
  | lit c => exact hx.1

theorem part_str_inj (x y : Part) (hx : ValidPart x) (hy : ValidPart y) (h : x.str = y.str) : x = y := by
  cases x with
  | star =>
    cases y with
    | star => rfl
    | lit c =>
      exfalso
      simp only [Part.str] at h
      have := (ValidComp.plain hy) '*' (by rw [← h]; simp)
      exact this.2 rfl
  | lit c =>
    cases y with
    | star =>
      exfalso
      simp only [Part.str] at h
      have := (ValidComp.plain hx) '*' (by rw [h]; simp)
      exact this.2 rfl
    | lit d => simp only [Part.str] at h; rw [h]

/-- splitting at the first dot is unique -/
theorem dotfree_split (a b s t : Str) (ha : ∀ x ∈ a, x ≠ '.') (hb : ∀ x ∈ b, x ≠ '.')
    (h : a ++ '.' :: s = b ++ '.' :: t) : a = b ∧ s = t := by
  induction a generalizing b with
  | nil =>
    cases b with
    | nil => simpa using h
    | cons y b =>
      simp at h
      exact absurd h.1.symm (hb y (by simp))
  | cons x a ih =>
    cases b with
    | nil =>
      simp at h
      exact absurd h.1 (ha x (by simp))
    | cons y b =>
      simp at h
      obtain ⟨h1, h2⟩ := h
      have := ih b (fun z hz => ha z (by simp [hz])) (fun z hz => hb z (by simp [hz])) h2
      exact ⟨by rw [h1, this.1], this.2⟩

theorem dotfree_ne_split (a b t : Str) (ha : ∀ x ∈ a, x ≠ '.') : a ≠ b ++ '.' :: t := by
  intro h
  have : '.' ∈ a := by rw [h]; simp
  exact ha '.' this rfl

theorem joinDots_inj (l1 : List Str) : ∀ l2 : List Str, l1 ≠ [] → l2 ≠ [] →
    (∀ s ∈ l1, ∀ x ∈ s, x ≠ '.') → (∀ s ∈ l2, ∀ x ∈ s, x ≠ '.') →
    joinDots l1 = joinDots l2 → l1 = l2 := by
  induction l1 with
  | nil => intro l2 h; exact absurd rfl h
  | cons a l1 ih =>
    intro l2 _ h2 hd1 hd2 h
    cases l2 with
    | nil => exact absurd rfl h2
    | cons b l2 =>
      rw [joinDots_cons, joinDots_cons] at h
      cases l1 with
      | nil =>
        cases l2 with
        | nil => simp [joinTail] at h; rw [h]
        | cons c l2 =>
          simp only [joinTail, List.append_nil] at h
          exact absurd h (dotfree_ne_split a b _ (hd1 a (by simp)))
      | cons a' l1 =>
        cases l2 with
        | nil =>
          simp only [joinTail, List.append_nil] at h
          exact absurd h.symm (dotfree_ne_split b a _ (hd2 b (by simp)))
        | cons c l2 =>
          simp only [joinTail] at h
          have hs := dotfree_split a b _ _ (hd1 a (by simp)) (hd2 b (by simp)) h
          have h' : joinDots (a' :: l1) = joinDots (c :: l2) := by
            rw [joinDots_cons, joinDots_cons]; exact hs.2
          have := ih (c :: l2) (by simp) (by simp) (fun s hs' => hd1 s (by simp [hs']))
            (fun s hs' => hd2 s (by simp [hs'])) h'
          rw [hs.1, this]

/-- **section names determine their components**: the dict look-ups of the code (string equality) are the
    component-wise look-ups of the model -/
theorem pat_str_inj (p q : Pat) (hp : ValidPat p) (hq : ValidPat q) (h : p.str = q.str) : p = q := by
  unfold Pat.str at h
  have hl := joinDots_inj (p.map Part.str) (q.map Part.str) (by simpa using hp.1) (by simpa using hq.1)
    (by
      intro s hs
      obtain ⟨x, hx, rfl⟩ := List.mem_map.mp hs
      exact part_str_nodot x (hp.2 x hx))
    (by
      intro s hs
      obtain ⟨x, hx, rfl⟩ := List.mem_map.mp hs
      exact part_str_nodot x (hq.2 x hx)) h
  -- map Part.str injective on valid parts
  clear h
  induction p generalizing q with
  | nil => cases q with
    | nil => rfl
    | cons y q => simp at hl
  | cons x p ih =>
    cases q with
    | nil => simp at hl
    | cons y q =>
      simp only [List.map_cons, List.cons.injEq] at hl
      have hxy := part_str_inj x y (hp.2 x (by simp)) (hq.2 y (by simp)) hl.1
      by_cases hpe : p = []
      · subst hpe
        cases q with
        | nil => rw [hxy]
        | cons z q => simp at hl
      · cases q with
        | nil => cases p <;> simp at hl hpe
        | cons z q =>
          have := ih (z :: q) ⟨hpe, fun w hw => hp.2 w (by simp [hw])⟩
            ⟨by simp, fun w hw => hq.2 w (by simp [hw])⟩ hl.2
          rw [hxy, this]

/-- `"*" in k[:-1]` on the section name as the code sees it -/
def strUnstructured (s : Str) : Bool := decide ('*' ∈ s.dropLast)
/-- `k.endswith(".*")` -/
def strEndsDotStar (s : Str) : Bool := ['.', '*'].isSuffixOf s

theorem star_mem_joinDots (l : List Str) : '*' ∈ joinDots l ↔ ∃ s ∈ l, '*' ∈ s := by
  induction l with
  | nil => simp [joinDots]
  | cons a l ih =>
    cases l with
    | nil => simp [joinDots]
    | cons b l =>
      simp only [joinDots, List.mem_append, List.mem_cons] at ih ⊢
      constructor
      · rintro (h | h | h)
        · exact ⟨a, by simp, h⟩
        · exact absurd h (by decide)
        · obtain ⟨s, hs, hm⟩ := ih.mp h
          exact ⟨s, by simp [hs], hm⟩
      · rintro ⟨s, hs, hm⟩
        rcases hs with rfl | hs
        · left; exact hm
        · right; right; exact ih.mpr ⟨s, hs, hm⟩

theorem star_mem_part_str (x : Part) (hx : ValidPart x) : '*' ∈ x.str ↔ x.isStar = true := by
  cases x with
  | star => simp [Part.str, Part.isStar]
  | lit c =>
    simp only [Part.str, Part.isStar]
    constructor
    · intro h
      have := hx.2 '*' h
      revert this; decide
    · intro h; cases h

theorem unstructured_str (p : Pat) (hp : ValidPat p) : strUnstructured p.str = p.unstructured := by
  obtain ⟨hne, hv⟩ := hp
  rcases List.eq_nil_or_concat p with h | ⟨init, last, h⟩
  · exact absurd h hne
  · rw [List.concat_eq_append] at h
    subst h
    have hlast : ValidPart last := hv last (by simp)
    have hL : '*' ∉ last.str.dropLast := by
      cases last with
      | star => simp [Part.str]
      | lit c =>
        intro h
        have := hlast.2 '*' ((List.dropLast_sublist c).subset h)
        revert this; decide
    unfold strUnstructured Pat.unstructured
    rw [List.dropLast_concat]
    have hinit : ('*' ∈ joinDots (init.map Part.str)) ↔ init.any Part.isStar = true := by
      rw [star_mem_joinDots, List.any_eq_true]
      constructor
      · rintro ⟨s, hs, hm⟩
        obtain ⟨x, hx, rfl⟩ := List.mem_map.mp hs
        exact ⟨x, hx, (star_mem_part_str x (hv x (by simp [hx]))).mp hm⟩
      · rintro ⟨x, hx, hs⟩
        exact ⟨x.str, List.mem_map.mpr ⟨x, hx, rfl⟩, (star_mem_part_str x (hv x (by simp [hx]))).mpr hs⟩
    cases init with
    | nil =>
      simp only [Pat.str, List.nil_append, List.map_cons, List.map_nil, joinDots, List.any_nil]
      exact decide_eq_false hL
    | cons a init =>
      have e : Pat.str (a :: init ++ [last]) =
          joinDots ((a :: init).map Part.str) ++ '.' :: last.str := by
        unfold Pat.str
        rw [List.map_append, joinDots_append _ _ (by simp) (by simp)]
        simp [joinDots]
      rw [e, List.dropLast_append_of_ne_nil (by simp),
        List.dropLast_cons_of_ne_nil (part_str_ne_nil_aux last hlast)]
      by_cases hs : (a :: init).any Part.isStar = true
      · rw [hs]
        exact decide_eq_true (List.mem_append_left _ (hinit.mpr hs))
      · have hs' : (a :: init).any Part.isStar = false := by simpa using hs
        rw [hs']
        apply decide_eq_false
        intro hm
        rcases List.mem_append.mp hm with h | h
        · exact hs (hinit.mp h)
        · rcases List.mem_cons.mp h with h | h
          · exact absurd h (by decide)
          · exact hL h
where
  part_str_ne_nil_aux (x : Part) (hx : ValidPart x) : x.str ≠ [] := by
    cases x with
    | star => simp [Part.str]
    | lit c => exact hx.1


theorem not_suffix_of_last_in (X c : Str) (hc : c ≠ []) (hstar : '*' ∉ c) : ¬ (['.', '*'] <:+ X ++ c) := by
  rintro ⟨t, ht⟩
  have h1 : (t ++ ['.', '*']).getLast? = some '*' := by simp
  rw [ht, List.getLast?_append] at h1
  cases hl : c.getLast? with
  | none => exact hc (List.getLast?_eq_none_iff.mp hl)
  | some x =>
    rw [hl] at h1
    simp only [Option.some_or, Option.some.injEq] at h1
    subst h1
    exact hstar (List.mem_of_getLast? hl)

theorem endsDotStar_str (p : Pat) (hp : ValidPat p) : strEndsDotStar p.str = p.endsDotStar := by
  obtain ⟨hne, hv⟩ := hp
  rcases List.eq_nil_or_concat p with h | ⟨init, last, h⟩
  · exact absurd h hne
  · rw [List.concat_eq_append] at h
    subst h
    have hlast : ValidPart last := hv last (by simp)
    unfold strEndsDotStar
    cases init with
    | nil =>
      have hR : Pat.endsDotStar ([] ++ [last]) = false := by simp [Pat.endsDotStar]
      rw [hR]
      apply Bool.eq_false_iff.mpr
      intro hs
      have hsuf := List.isSuffixOf_iff_suffix.mp hs
      cases last with
      | star =>
        obtain ⟨t, ht⟩ := hsuf
        have := congrArg List.length ht
        simp [Pat.str, Part.str, joinDots] at this
      | lit c =>
        have hc : '*' ∉ c := fun h => by
          have := hlast.2 '*' h
          revert this; decide
        have := not_suffix_of_last_in [] c hlast.1 hc
        simp only [List.nil_append] at this
        exact this (by simpa [Pat.str, Part.str, joinDots] using hsuf)
    | cons a init =>
      have e : Pat.str (a :: init ++ [last]) =
          joinDots ((a :: init).map Part.str) ++ '.' :: last.str := by
        unfold Pat.str
        rw [List.map_append, joinDots_append _ _ (by simp) (by simp)]
        simp [joinDots]
      rw [e]
      cases last with
      | star =>
        have hR : Pat.endsDotStar (a :: init ++ [Part.star]) = true := wild_endsDotStar _ (by simp)
        rw [hR]
        apply List.isSuffixOf_iff_suffix.mpr
        exact ⟨joinDots ((a :: init).map Part.str), by simp [Part.str]⟩
      | lit c =>
        have hR : Pat.endsDotStar (a :: init ++ [Part.lit c]) = false := by
          have hg : (a :: init ++ [Part.lit c]).getLast? = some (Part.lit c) := List.getLast?_concat
          unfold Pat.endsDotStar
          rw [hg]
          simp
        rw [hR]
        apply Bool.eq_false_iff.mpr
        intro hs
        have hsuf := List.isSuffixOf_iff_suffix.mp hs
        have hc : '*' ∉ c := fun h => by
          have := hlast.2 '*' h
          revert this; decide
        have := not_suffix_of_last_in (joinDots ((a :: init).map Part.str) ++ ['.']) c hlast.1 hc
        apply this
        simpa [Part.str, List.append_assoc] using hsuf

end Config
