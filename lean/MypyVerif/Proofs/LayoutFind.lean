import MypyVerif.Proofs.LayoutCrawl
/-!
Lemmas about the module → path direction (`candidates`, `scanDir`, `findLoop`, `findModule`) of the C18 model.
-/
namespace Layout

variable (fs : FS)

/-! ### well-formed file systems -/

theorem isDir_prefix (wf : fs.WF) (p : Path) : ∀ (n : Nat) (q : Path), q.length = n → fs.isDir (p ++ q) = true → fs.isDir p = true := by
  intro n
  induction n with
  | zero =>
    intro q hq h
    have : q = [] := List.eq_nil_of_length_eq_zero hq
    subst this; simpa using h
  | succ n ih =>
    intro q hq h
    have hne : q ≠ [] := by intro he; subst he; simp at hq
    have hsplit := List.dropLast_concat_getLast hne
    rw [← hsplit, ← List.append_assoc] at h
    have := wf.dirParent _ _ h
    exact ih q.dropLast (by simp [hq]) this

theorem isDir_of_prefix (wf : fs.WF) {p q : Path} (h : fs.isDir (p ++ q) = true) : fs.isDir p = true :=
  isDir_prefix fs wf p q.length q rfl h

/-! ### pickBest -/

theorem pickBest_none {l : List (Path × Nat)} : pickBest l = none ↔ l = [] := by
  cases l with
  | nil => simp [pickBest]
  | cons x xs =>
    simp only [pickBest]
    cases pickBest xs with
    | none => simp
    | some y => by_cases h : x.2 < y.2 <;> simp [h]

theorem pickBest_spec : ∀ {l : List (Path × Nat)} {x : Path × Nat}, pickBest l = some x →
    x ∈ l ∧ ∀ y ∈ l, y.2 ≤ x.2 := by
  intro l
  induction l with
  | nil => intro x h; simp [pickBest] at h
  | cons a as ih =>
    intro x h
    simp only [pickBest] at h
    cases hp : pickBest as with
    | none =>
      rw [hp] at h
      cases h
      have : as = [] := pickBest_none.mp hp
      subst this
      simp
    | some y =>
      rw [hp] at h
      obtain ⟨hy, hmax⟩ := ih hp
      by_cases hlt : a.2 < y.2
      · simp only [hlt, if_true] at h
        cases h
        refine ⟨by simp [hy], ?_⟩
        intro z hz
        cases hz with
        | head => omega
        | tail _ hz => exact hmax z hz
      · simp only [hlt, if_false] at h
        cases h
        refine ⟨by simp, ?_⟩
        intro z hz
        cases hz with
        | head => omega
        | tail _ hz => have := hmax z hz; omega

/-! ### scanDir -/

theorem startOf_of_ne {bd : Path} {last : Name} (h : last ≠ sInit) (b : Bool) : startOf bd last b = bd := by
  simp [startOf, h]

theorem verifyAt_of_ne {bd : Path} {last : Name} {nlev : Nat} (h : last ≠ sInit) (b : Bool) :
    verifyAt fs bd last nlev b = verifyFrom fs bd.reverse nlev := by
  simp [verifyAt, startOf_of_ne h]

theorem levelOf_of_ne {bd : Path} {last : Name} {nlev : Nat} (h : last ≠ sInit) (p : Path) :
    levelOf fs bd last nlev p = initLevel fs bd nlev := by
  simp [levelOf, startOf_of_ne h]

theorem mem_scanCands {bd : Path} {last : Name} {c : Path × Bool} (h : c ∈ scanCands bd last) :
    c.1 ∈ pkgFiles bd last ++ modFiles bd last := by
  simp only [scanCands, List.mem_append, List.mem_map] at h ⊢
  rcases h with ⟨p, hp, rfl⟩ | ⟨p, hp, rfl⟩
  · exact Or.inl hp
  · exact Or.inr hp

theorem scanCands_of_mem {bd : Path} {last : Name} {p : Path} (h : p ∈ pkgFiles bd last ++ modFiles bd last) :
    ∃ b, (p, b) ∈ scanCands bd last := by
  simp only [scanCands, List.mem_append, List.mem_map] at h ⊢
  rcases h with h | h
  · exact ⟨false, Or.inl ⟨p, h, rfl⟩⟩
  · exact ⟨true, Or.inr ⟨p, h, rfl⟩⟩

theorem scanDir_found {ns : Bool} {bd : Path} {last : Name} {nlev : Nat} {g : Path} (hl : last ≠ sInit)
    (h : scanDir fs ns bd last nlev = .found g) :
    verifyFrom fs bd.reverse nlev = true ∧ g ∈ pkgFiles bd last ++ modFiles bd last ∧ fs.isFile g = true := by
  unfold scanDir at h
  split at h
  · next c hc =>
    simp only [Scan.found.injEq] at h
    subst h
    have hp := List.find?_some hc
    have hm := List.mem_of_find?_eq_some hc
    simp only [Bool.and_eq_true, verifyAt_of_ne fs hl] at hp
    exact ⟨hp.2, mem_scanCands hm, hp.1⟩
  · cases h

theorem scanDir_misses {ns : Bool} {bd : Path} {last : Name} {nlev : Nat} {l : List Path}
    (h : scanDir fs ns bd last nlev = .misses l) :
    ∀ p ∈ l, (p ∈ pkgFiles bd last ++ modFiles bd last ∧ fs.isFile p = true) ∨ p ∈ nsDir fs ns bd last := by
  unfold scanDir at h
  split at h
  · cases h
  · simp only [Scan.misses.injEq] at h
    subst h
    intro p hp
    simp only [List.mem_append, List.mem_filter] at hp
    rcases hp with (hp | hp) | hp
    · exact Or.inl ⟨by simp [hp.1], hp.2⟩
    · exact Or.inr hp
    · exact Or.inl ⟨by simp [hp.1], hp.2⟩

theorem scanDir_of_verified {ns : Bool} {bd : Path} {last : Name} {nlev : Nat} {p : Path} (hl : last ≠ sInit)
    (hv : verifyFrom fs bd.reverse nlev = true) (hp : p ∈ pkgFiles bd last ++ modFiles bd last)
    (hf : fs.isFile p = true) : ∃ g, scanDir fs ns bd last nlev = .found g := by
  unfold scanDir
  obtain ⟨b, hb⟩ := scanCands_of_mem hp
  cases hfind : (scanCands bd last).find? (fun c => fs.isFile c.1 && verifyAt fs bd last nlev c.2) with
  | some c => exact ⟨c.1, rfl⟩
  | none =>
    have := List.find?_eq_none.mp hfind (p, b) hb
    simp [hf, verifyAt_of_ne fs hl, hv] at this

theorem scanDir_of_unverified {ns : Bool} {bd : Path} {last : Name} {nlev : Nat} {p : Path} (hl : last ≠ sInit)
    (hv : verifyFrom fs bd.reverse nlev = false) (hp : p ∈ pkgFiles bd last ++ modFiles bd last)
    (hf : fs.isFile p = true) : ∃ l, scanDir fs ns bd last nlev = .misses l ∧ p ∈ l := by
  unfold scanDir
  have hnone : (scanCands bd last).find? (fun c => fs.isFile c.1 && verifyAt fs bd last nlev c.2) = none := by
    apply List.find?_eq_none.mpr
    intro c _
    simp [verifyAt_of_ne fs hl, hv]
  rw [hnone]
  refine ⟨_, rfl, ?_⟩
  simp only [List.mem_append, List.mem_filter] at hp ⊢
  rcases hp with hp | hp
  · exact Or.inl (Or.inl ⟨hp, hf⟩)
  · exact Or.inr ⟨hp, hf⟩

/-- **`_find_module` returns the first candidate in its fixed order** — stub-only package, package `__init__.pyi`,
    package `__init__.py`, module `.pyi`, module `.py`: everything before the file it returns does not exist
    (for a verified candidate directory and a last component other than `__init__`). -/
theorem scanDir_found_first {ns : Bool} {bd : Path} {last : Name} {nlev : Nat} {g : Path} (hl : last ≠ sInit)
    (h : scanDir fs ns bd last nlev = .found g) :
    ∃ pre post, pkgFiles bd last ++ modFiles bd last = pre ++ g :: post ∧ ∀ p ∈ pre, fs.isFile p = false := by
  unfold scanDir at h
  split at h
  · next c hc =>
    simp only [Scan.found.injEq] at h
    subst h
    obtain ⟨hpred, as, bs, heq, hnot⟩ := List.find?_eq_some_iff_append.mp hc
    have hmap : (scanCands bd last).map (·.1) = pkgFiles bd last ++ modFiles bd last := by
      simp [scanCands, List.map_map, Function.comp_def]
    refine ⟨as.map (·.1), bs.map (·.1), ?_, ?_⟩
    · rw [← hmap, heq]; simp
    · intro p hp
      rw [List.mem_map] at hp
      obtain ⟨a, ha, rfl⟩ := hp
      have := hnot a ha
      have hv : verifyFrom fs bd.reverse nlev = true := by
        simp only [Bool.and_eq_true, verifyAt_of_ne fs hl] at hpred
        exact hpred.2
      simpa [verifyAt_of_ne fs hl, hv] using this
  · cases h

/-! ### findLoop -/

/-- the near misses contributed by a list of candidate directories (when none of them has a verified hit) -/
def missesOf (ns : Bool) (last : Name) (nlev : Nat) : List (Path × Path) → List (Path × Nat)
  | [] => []
  | (bd, _) :: rest =>
    (match scanDir fs ns bd last nlev with
     | .found _ => []
     | .misses l => l.map (fun p => (p, levelOf fs bd last nlev p))) ++ missesOf ns last nlev rest

theorem findLoop_spec {ns : Bool} {last : Name} {nlev : Nat} : ∀ (cands : List (Path × Path)) (near : List (Path × Nat)) (g : Path),
    findLoop fs ns last nlev cands near = some g →
    (∃ c ∈ cands, scanDir fs ns c.1 last nlev = .found g) ∨
    (ns = true ∧ (∀ c ∈ cands, ∃ l, scanDir fs ns c.1 last nlev = .misses l) ∧
      ∃ lvl, (g, lvl) ∈ near ++ missesOf fs ns last nlev cands ∧
        ∀ e ∈ near ++ missesOf fs ns last nlev cands, e.2 ≤ lvl) := by
  intro cands
  induction cands with
  | nil =>
    intro near g h
    simp only [findLoop] at h
    split at h
    · next hns =>
      right
      refine ⟨hns, ?_, ?_⟩
      · intro c hc; cases hc
      cases hp : pickBest near with
      | none => rw [hp] at h; cases h
      | some x =>
        rw [hp] at h
        simp only [Option.map_some, Option.some.injEq] at h
        obtain ⟨hx, hmax⟩ := pickBest_spec hp
        refine ⟨x.2, ?_, ?_⟩
        · simp only [missesOf, List.append_nil]
          rw [← h]; exact hx
        · simpa [missesOf] using hmax
    · cases h
  | cons c rest ih =>
    intro near g h
    obtain ⟨bd, R⟩ := c
    simp only [findLoop] at h
    cases hs : scanDir fs ns bd last nlev with
    | found p =>
      rw [hs] at h
      simp only [Option.some.injEq] at h
      left
      exact ⟨(bd, R), by simp, by rw [hs, h]⟩
    | misses l =>
      rw [hs] at h
      simp only at h
      rcases ih _ g h with ⟨c, hc, hf⟩ | ⟨hns, hall, lvl, hmem, hmax⟩
      · left; exact ⟨c, by simp [hc], hf⟩
      · right
        refine ⟨hns, ?_, lvl, ?_, ?_⟩
        · intro c hc
          cases hc with
          | head => exact ⟨l, hs⟩
          | tail _ hc => exact hall c hc
        · simpa [missesOf, hs, List.append_assoc] using hmem
        · simpa [missesOf, hs, List.append_assoc] using hmax

theorem findLoop_some_of_found {ns : Bool} {last : Name} {nlev : Nat} : ∀ (cands : List (Path × Path)) (near : List (Path × Nat)),
    (∃ c ∈ cands, ∃ g, scanDir fs ns c.1 last nlev = .found g) →
    ∃ g, findLoop fs ns last nlev cands near = some g := by
  intro cands
  induction cands with
  | nil => intro near h; obtain ⟨c, hc, _⟩ := h; cases hc
  | cons c rest ih =>
    intro near h
    obtain ⟨bd, R⟩ := c
    simp only [findLoop]
    cases hs : scanDir fs ns bd last nlev with
    | found p => exact ⟨p, rfl⟩
    | misses l =>
      simp only
      apply ih
      obtain ⟨c, hc, g, hg⟩ := h
      cases hc with
      | head => rw [hs] at hg; cases hg
      | tail _ hc => exact ⟨c, hc, g, hg⟩

theorem findLoop_some_of_near {last : Name} {nlev : Nat} : ∀ (cands : List (Path × Path)) (near : List (Path × Nat)),
    near ++ missesOf fs true last nlev cands ≠ [] →
    ∃ g, findLoop fs true last nlev cands near = some g := by
  intro cands
  induction cands with
  | nil =>
    intro near h
    simp only [missesOf, List.append_nil] at h
    simp only [findLoop, if_true]
    cases hp : pickBest near with
    | none => exact absurd (pickBest_none.mp hp) h
    | some x => exact ⟨x.1, rfl⟩
  | cons c rest ih =>
    intro near h
    obtain ⟨bd, R⟩ := c
    simp only [findLoop]
    cases hs : scanDir fs true bd last nlev with
    | found p => exact ⟨p, rfl⟩
    | misses l =>
      simp only
      apply ih
      simpa [missesOf, hs, List.append_assoc] using h

theorem mem_missesOf {ns : Bool} {last : Name} {nlev : Nat} : ∀ {cands : List (Path × Path)} {e : Path × Nat},
    e ∈ missesOf fs ns last nlev cands ↔
      ∃ c ∈ cands, ∃ l, scanDir fs ns c.1 last nlev = .misses l ∧ e.1 ∈ l ∧ e.2 = levelOf fs c.1 last nlev e.1 := by
  intro cands
  induction cands with
  | nil => intro e; simp [missesOf]
  | cons c rest ih =>
    intro e
    obtain ⟨bd, R⟩ := c
    simp only [missesOf, List.mem_append, ih, List.mem_cons, exists_eq_or_imp]
    constructor
    · rintro (h | h)
      · left
        cases hs : scanDir fs ns bd last nlev with
        | found p => rw [hs] at h; cases h
        | misses l =>
          rw [hs] at h
          simp only [List.mem_map] at h
          obtain ⟨p, hp, rfl⟩ := h
          exact ⟨l, rfl, hp, rfl⟩
      · right; exact h
    · rintro (⟨l, hs, hp, hl⟩ | h)
      · left
        rw [hs]
        simp only [List.mem_map]
        exact ⟨e.1, hp, by rw [← hl]⟩
      · right; exact h

/-! ### candidates -/

theorem mem_candidates {roots : List Path} {comps : List Name} {bd R : Path} :
    (bd, R) ∈ candidates fs roots comps ↔
      R ∈ roots ∧ topLevelOk fs R (comps.headD []) = true ∧ fs.isDir (R ++ comps.dropLast) = true ∧ bd = R ++ comps.dropLast := by
  unfold candidates
  rw [List.mem_filterMap]
  constructor
  · rintro ⟨r, hr, h⟩
    split at h
    · next hc =>
      simp only [Option.some.injEq, Prod.mk.injEq] at h
      obtain ⟨h1, h2⟩ := h
      subst h2
      simp only [Bool.and_eq_true] at hc
      exact ⟨hr, hc.1, hc.2, h1.symm⟩
    · cases h
  · rintro ⟨hr, ht, hd, rfl⟩
    exact ⟨R, hr, by rw [if_pos (by rw [ht, hd]; rfl)]⟩

end Layout
