import MypyVerif.Model.StubDefault
/-!
Helper lemmas for C19 (b): the rendered default is derivable in the expression grammar / is closed;
a sufficient condition for bytes literals.  Core Lean only.
-/
namespace StubDefault

theorem floatTok_isExpr (t : String) (f : Bool) : IsExpr [floatTok t f] := by
  unfold floatTok; cases f
  · exact IsExpr.name t
  · exact IsExpr.num t

theorem unaryToks_isExpr (c : DCfg) (o : UOp) (t : String) (f : Bool) (h : (c.notSpaced || o != .not) = true) :
    IsExpr (unaryToks c o t f) := by
  cases o <;> simp only [unaryToks]
  case not =>
    cases hn : c.notSpaced
    · simp [hn] at h
    · simp only [↓reduceIte]; exact IsExpr.unary _ _ (floatTok_isExpr _ _)
  all_goals exact IsExpr.unary _ _ (floatTok_isExpr _ _)

theorem unaryToks_lexOk (c : DCfg) (o : UOp) (t : String) (f : Bool) (h : (c.notSpaced || o != .not) = true) :
    LexOk (unaryToks c o t f) = true := by
  cases o <;> simp only [unaryToks]
  case not =>
    cases hn : c.notSpaced
    · simp [hn] at h
    · cases f <;> rfl
  all_goals (cases f <;> rfl)

theorem unaryToks_closed (c : DCfg) (o : UOp) (t : String) (h : (c.notSpaced || o != .not) = true) :
    Closed (unaryToks c o t true) = true := by
  cases o <;> simp only [unaryToks]
  case not =>
    cases hn : c.notSpaced
    · simp [hn] at h
    · rfl
  all_goals rfl

theorem render_float (c : DCfg) (t : String) (f : Bool) (toks : List DTok) (h : render c (.float t f) = some toks) :
    floatOk c f = true ∧ toks = [floatTok t f] := by
  simp only [render] at h
  split at h
  · rename_i hf; simp at h; exact ⟨hf, h.symm⟩
  · cases h

theorem render_unary_float (c : DCfg) (o : UOp) (t : String) (f : Bool) (toks : List DTok)
    (h : render c (.unary o (.float t f)) = some toks) : floatOk c f = true ∧ toks = unaryToks c o t f := by
  simp only [render] at h
  split at h
  · rename_i hf; simp at h; exact ⟨hf, h.symm⟩
  · cases h

/-- a rendered float is finite when the tree drops the others, or by hypothesis -/
theorem finite_of (c : DCfg) (f : Bool) (hok : floatOk c f = true) (hf : (c.nonFiniteEllipsis || f) = true) : f = true := by
  cases f <;> cases hn : c.nonFiniteEllipsis <;> simp_all [floatOk]

mutual
theorem render_isExpr (c : DCfg) : ∀ (e : DExpr) (toks : List DTok), render c e = some toks → e.good c = true → IsExpr toks
  | .const k0, toks, h, _ => by simp [render] at h; subst h; exact IsExpr.kw k0
  | .name _, _, h, _ => by simp [render] at h
  | .int n, toks, h, _ => by simp [render] at h; subst h; exact IsExpr.num _
  | .float t f, toks, h, _ => by
      obtain ⟨_, rfl⟩ := render_float c t f toks h; exact floatTok_isExpr t f
  | .complex, _, h, _ => by simp [render] at h
  | .complexSum, _, h, _ => by simp [render] at h
  | .str i, toks, h, _ => by simp [render] at h; subst h; exact IsExpr.str i
  | .bytes b, toks, h, hg => by
      simp [render] at h; subst h
      exact IsExpr.bytes _ (by simpa [DExpr.good] using hg)
  | .unary o e, toks, h, hg => by
      simp only [DExpr.good, Bool.and_eq_true] at hg
      cases e with
      | int n =>
        simp only [render, Option.some.injEq] at h; subst h
        exact unaryToks_isExpr c o _ _ hg.1
      | float t f =>
        obtain ⟨_, rfl⟩ := render_unary_float c o t f toks h
        exact unaryToks_isExpr c o _ _ hg.1
      | _ => simp [render] at h
  | .tuple xs, toks, h, hg => by
      cases xs with
      | nil => simp [render] at h; subst h; exact IsExpr.tuple0
      | cons x r =>
        cases r with
        | nil =>
          simp only [render, Option.map_eq_some_iff] at h
          obtain ⟨t, ht, rfl⟩ := h
          have hx : x.good c = true := by simp [DExpr.good, DList.good] at hg; exact hg
          exact IsExpr.tuple1 t (render_isExpr c x t ht hx)
        | cons y r' =>
          simp only [render, Option.map_eq_some_iff] at h
          obtain ⟨t, ht, rfl⟩ := h
          exact IsExpr.paren t (renderList_isSeq c (.cons x (.cons y r')) t ht (by simp) (by simpa [DExpr.good] using hg))
  | .list xs, toks, h, hg => by
      cases xs with
      | nil => simp [render] at h; subst h; exact IsExpr.list0
      | cons x r =>
        simp only [render, Option.map_eq_some_iff] at h
        obtain ⟨t, ht, rfl⟩ := h
        exact IsExpr.list t (renderList_isSeq c (.cons x r) t ht (by simp) (by simpa [DExpr.good] using hg))
  | .set xs, toks, h, hg => by
      cases xs with
      | nil => simp [render] at h
      | cons x r =>
        simp only [render, Option.map_eq_some_iff] at h
        obtain ⟨t, ht, rfl⟩ := h
        exact IsExpr.set t (renderList_isSeq c (.cons x r) t ht (by simp) (by simpa [DExpr.good] using hg))
  | .dict kvs, toks, h, hg => by
      cases kvs with
      | nil => simp [render] at h; subst h; exact IsExpr.dict0
      | cons k v r =>
        simp only [render, Option.map_eq_some_iff] at h
        obtain ⟨t, ht, rfl⟩ := h
        exact IsExpr.dict t (renderPairs_isKVs c (.cons k v r) t ht (by simp) (by simpa [DExpr.good] using hg))
      | spread v r => simp [render, renderPairs] at h
  | .other, _, h, _ => by simp [render] at h
theorem renderList_isSeq (c : DCfg) : ∀ (xs : DList) (toks : List DTok), renderList c xs = some toks → xs ≠ .nil →
    xs.good c = true → IsSeq toks
  | .nil, _, _, hne, _ => absurd rfl hne
  | .cons x .nil, toks, h, _, hg => by
      simp only [renderList] at h
      have hx : x.good c = true := by simp [DList.good] at hg; exact hg
      exact IsSeq.one toks (render_isExpr c x toks h hx)
  | .cons x (.cons y r), toks, h, _, hg => by
      simp only [renderList, Option.bind_eq_some_iff, Option.map_eq_some_iff] at h
      obtain ⟨t, ht, ts, hts, rfl⟩ := h
      simp only [DList.good, Bool.and_eq_true] at hg
      exact IsSeq.cons t ts (render_isExpr c x t ht hg.1)
        (renderList_isSeq c (.cons y r) ts hts (by simp) (by simp [DList.good, hg.2]))
theorem renderPairs_isKVs (c : DCfg) : ∀ (kvs : DPairs) (toks : List DTok), renderPairs c kvs = some toks → kvs ≠ .nil →
    kvs.good c = true → IsKVs toks
  | .nil, _, _, hne, _ => absurd rfl hne
  | .spread _ _, _, h, _, _ => by simp [renderPairs] at h
  | .cons k v .nil, toks, h, _, hg => by
      simp only [renderPairs, Option.bind_eq_some_iff, Option.map_eq_some_iff] at h
      obtain ⟨tk, htk, tv, htv, rfl⟩ := h
      simp only [DPairs.good, Bool.and_eq_true] at hg
      exact IsKVs.one tk tv (render_isExpr c k tk htk hg.1.1) (render_isExpr c v tv htv hg.1.2)
  | .cons k v (.cons k2 v2 r), toks, h, _, hg => by
      simp only [renderPairs, Option.bind_eq_some_iff, Option.map_eq_some_iff] at h
      obtain ⟨tk, htk, tv, htv, ts, hts, rfl⟩ := h
      simp only [DPairs.good, Bool.and_eq_true] at hg
      have := renderPairs_isKVs c (.cons k2 v2 r) ts hts (by simp) (by simp [DPairs.good, hg.2])
      have e : tk ++ DTok.colon :: tv ++ DTok.comma :: ts = tk ++ DTok.colon :: (tv ++ DTok.comma :: ts) := by simp
      exact IsKVs.cons tk tv ts (render_isExpr c k tk htk hg.1.1) (render_isExpr c v tv htv hg.1.2) this
  | .cons k v (.spread v2 r), toks, h, _, _ => by
      simp [renderPairs] at h
end

theorem closed_append (a b : List DTok) : Closed (a ++ b) = (Closed a && Closed b) := by
  simp [Closed, List.all_append]

theorem closed_cons (t : DTok) (a : List DTok) : Closed (t :: a) = (Closed [t] && Closed a) := by
  simp [Closed]

mutual
theorem render_closed (c : DCfg) : ∀ (e : DExpr) (toks : List DTok), render c e = some toks → e.good c = true →
    e.finite c = true → Closed toks = true
  | .const k0, toks, h, _, _ => by simp [render] at h; subst h; rfl
  | .name _, _, h, _, _ => by simp [render] at h
  | .int n, toks, h, _, _ => by simp [render] at h; subst h; rfl
  | .float t f, toks, h, _, hf => by
      obtain ⟨hok, rfl⟩ := render_float c t f toks h
      simp only [DExpr.finite] at hf
      have := finite_of c f hok hf; subst this; rfl
  | .complex, _, h, _, _ => by simp [render] at h
  | .complexSum, _, h, _, _ => by simp [render] at h
  | .str i, toks, h, _, _ => by simp [render] at h; subst h; rfl
  | .bytes b, toks, h, _, _ => by simp [render] at h; subst h; rfl
  | .unary o e, toks, h, hg, hf => by
      simp only [DExpr.good, Bool.and_eq_true] at hg
      cases e with
      | int n =>
        simp only [render, Option.some.injEq] at h; subst h
        exact unaryToks_closed c o _ hg.1
      | float t f =>
        obtain ⟨hok, rfl⟩ := render_unary_float c o t f toks h
        simp only [DExpr.finite] at hf
        have := finite_of c f hok hf; subst this
        exact unaryToks_closed c o _ hg.1
      | _ => simp [render] at h
  | .tuple xs, toks, h, hg, hf => by
      cases xs with
      | nil => simp [render] at h; subst h; rfl
      | cons x r =>
        cases r with
        | nil =>
          simp only [render, Option.map_eq_some_iff] at h
          obtain ⟨t, ht, rfl⟩ := h
          have hx : x.good c = true := by simp [DExpr.good, DList.good] at hg; exact hg
          have hxf : x.finite c = true := by simp [DExpr.finite, DList.finite] at hf; exact hf
          rw [closed_append, closed_cons, render_closed c x t ht hx hxf]; rfl
        | cons y r' =>
          simp only [render, Option.map_eq_some_iff] at h
          obtain ⟨t, ht, rfl⟩ := h
          rw [closed_append, closed_cons, renderList_closed c (.cons x (.cons y r')) t ht
            (by simpa [DExpr.good] using hg) (by simpa [DExpr.finite] using hf)]; rfl
  | .list xs, toks, h, hg, hf => by
      cases xs with
      | nil => simp [render] at h; subst h; rfl
      | cons x r =>
        simp only [render, Option.map_eq_some_iff] at h
        obtain ⟨t, ht, rfl⟩ := h
        rw [closed_append, closed_cons, renderList_closed c (.cons x r) t ht
          (by simpa [DExpr.good] using hg) (by simpa [DExpr.finite] using hf)]; rfl
  | .set xs, toks, h, hg, hf => by
      cases xs with
      | nil => simp [render] at h
      | cons x r =>
        simp only [render, Option.map_eq_some_iff] at h
        obtain ⟨t, ht, rfl⟩ := h
        rw [closed_append, closed_cons, renderList_closed c (.cons x r) t ht
          (by simpa [DExpr.good] using hg) (by simpa [DExpr.finite] using hf)]; rfl
  | .dict kvs, toks, h, hg, hf => by
      cases kvs with
      | nil => simp [render] at h; subst h; rfl
      | cons k v r =>
        simp only [render, Option.map_eq_some_iff] at h
        obtain ⟨t, ht, rfl⟩ := h
        rw [closed_append, closed_cons, renderPairs_closed c (.cons k v r) t ht
          (by simpa [DExpr.good] using hg) (by simpa [DExpr.finite] using hf)]; rfl
      | spread v r => simp [render, renderPairs] at h
  | .other, _, h, _, _ => by simp [render] at h
theorem renderList_closed (c : DCfg) : ∀ (xs : DList) (toks : List DTok), renderList c xs = some toks →
    xs.good c = true → xs.finite c = true → Closed toks = true
  | .nil, toks, h, _, _ => by simp [renderList] at h; subst h; rfl
  | .cons x .nil, toks, h, hg, hf => by
      simp only [renderList] at h
      have hx : x.good c = true := by simp [DList.good] at hg; exact hg
      have hxf : x.finite c = true := by simp [DList.finite] at hf; exact hf
      exact render_closed c x toks h hx hxf
  | .cons x (.cons y r), toks, h, hg, hf => by
      simp only [renderList, Option.bind_eq_some_iff, Option.map_eq_some_iff] at h
      obtain ⟨t, ht, ts, hts, rfl⟩ := h
      simp only [DList.good, Bool.and_eq_true] at hg
      simp only [DList.finite, Bool.and_eq_true] at hf
      rw [closed_append, closed_cons, render_closed c x t ht hg.1 hf.1,
        renderList_closed c (.cons y r) ts hts (by simp [DList.good, hg.2]) (by simp [DList.finite, hf.2])]; rfl
theorem renderPairs_closed (c : DCfg) : ∀ (kvs : DPairs) (toks : List DTok), renderPairs c kvs = some toks →
    kvs.good c = true → kvs.finite c = true → Closed toks = true
  | .nil, toks, h, _, _ => by simp [renderPairs] at h; subst h; rfl
  | .spread _ _, _, h, _, _ => by simp [renderPairs] at h
  | .cons k v .nil, toks, h, hg, hf => by
      simp only [renderPairs, Option.bind_eq_some_iff, Option.map_eq_some_iff] at h
      obtain ⟨tk, htk, tv, htv, rfl⟩ := h
      simp only [DPairs.good, Bool.and_eq_true] at hg
      simp only [DPairs.finite, Bool.and_eq_true] at hf
      rw [closed_append, closed_cons, render_closed c k tk htk hg.1.1 hf.1.1, render_closed c v tv htv hg.1.2 hf.1.2]; rfl
  | .cons k v (.cons k2 v2 r), toks, h, hg, hf => by
      simp only [renderPairs, Option.bind_eq_some_iff, Option.map_eq_some_iff] at h
      obtain ⟨tk, htk, tv, htv, ts, hts, rfl⟩ := h
      simp only [DPairs.good, Bool.and_eq_true] at hg
      simp only [DPairs.finite, Bool.and_eq_true] at hf
      rw [closed_append, closed_cons, closed_append, closed_cons, render_closed c k tk htk hg.1.1 hf.1.1,
        render_closed c v tv htv hg.1.2 hf.1.2,
        renderPairs_closed c (.cons k2 v2 r) ts hts (by simp [DPairs.good, hg.2]) (by simp [DPairs.finite, hf.2])]; rfl
  | .cons k v (.spread v2 r), toks, h, _, _ => by
      simp [renderPairs] at h
end

theorem lexOk_append (a b : List DTok) : LexOk (a ++ b) = (LexOk a && LexOk b) := by
  simp [LexOk, List.all_append]

theorem lexOk_cons (t : DTok) (a : List DTok) : LexOk (t :: a) = (LexOk [t] && LexOk a) := by
  simp [LexOk]

mutual
theorem render_lexOk (c : DCfg) : ∀ (e : DExpr) (toks : List DTok), render c e = some toks → e.good c = true →
    LexOk toks = true
  | .const k0, toks, h, _ => by simp [render] at h; subst h; rfl
  | .name _, _, h, _ => by simp [render] at h
  | .int n, toks, h, _ => by simp [render] at h; subst h; rfl
  | .float t f, toks, h, _ => by
      obtain ⟨_, rfl⟩ := render_float c t f toks h; cases f <;> rfl
  | .complex, _, h, _ => by simp [render] at h
  | .complexSum, _, h, _ => by simp [render] at h
  | .str i, toks, h, _ => by simp [render] at h; subst h; rfl
  | .bytes b, toks, h, hg => by
      simp [render] at h; subst h; simpa [LexOk, tokOk, DExpr.good] using hg
  | .unary o e, toks, h, hg => by
      simp only [DExpr.good, Bool.and_eq_true] at hg
      cases e with
      | int n =>
        simp only [render, Option.some.injEq] at h; subst h
        exact unaryToks_lexOk c o _ _ hg.1
      | float t f =>
        obtain ⟨_, rfl⟩ := render_unary_float c o t f toks h
        exact unaryToks_lexOk c o _ _ hg.1
      | _ => simp [render] at h
  | .tuple xs, toks, h, hg => by
      cases xs with
      | nil => simp [render] at h; subst h; rfl
      | cons x r =>
        cases r with
        | nil =>
          simp only [render, Option.map_eq_some_iff] at h
          obtain ⟨t, ht, rfl⟩ := h
          have hx : x.good c = true := by simp [DExpr.good, DList.good] at hg; exact hg
          rw [lexOk_append, lexOk_cons, render_lexOk c x t ht hx]; rfl
        | cons y r' =>
          simp only [render, Option.map_eq_some_iff] at h
          obtain ⟨t, ht, rfl⟩ := h
          rw [lexOk_append, lexOk_cons, renderList_lexOk c (.cons x (.cons y r')) t ht (by simpa [DExpr.good] using hg)]; rfl
  | .list xs, toks, h, hg => by
      cases xs with
      | nil => simp [render] at h; subst h; rfl
      | cons x r =>
        simp only [render, Option.map_eq_some_iff] at h
        obtain ⟨t, ht, rfl⟩ := h
        rw [lexOk_append, lexOk_cons, renderList_lexOk c (.cons x r) t ht
          (by simpa [DExpr.good] using hg)]; rfl
  | .set xs, toks, h, hg => by
      cases xs with
      | nil => simp [render] at h
      | cons x r =>
        simp only [render, Option.map_eq_some_iff] at h
        obtain ⟨t, ht, rfl⟩ := h
        rw [lexOk_append, lexOk_cons, renderList_lexOk c (.cons x r) t ht
          (by simpa [DExpr.good] using hg)]; rfl
  | .dict kvs, toks, h, hg => by
      cases kvs with
      | nil => simp [render] at h; subst h; rfl
      | cons k v r =>
        simp only [render, Option.map_eq_some_iff] at h
        obtain ⟨t, ht, rfl⟩ := h
        rw [lexOk_append, lexOk_cons, renderPairs_lexOk c (.cons k v r) t ht
          (by simpa [DExpr.good] using hg)]; rfl
      | spread v r => simp [render, renderPairs] at h
  | .other, _, h, _ => by simp [render] at h
theorem renderList_lexOk (c : DCfg) : ∀ (xs : DList) (toks : List DTok), renderList c xs = some toks →
    xs.good c = true → LexOk toks = true
  | .nil, toks, h, _ => by simp [renderList] at h; subst h; rfl
  | .cons x .nil, toks, h, hg => by
      simp only [renderList] at h
      have hx : x.good c = true := by simp [DList.good] at hg; exact hg
      exact render_lexOk c x toks h hx
  | .cons x (.cons y r), toks, h, hg => by
      simp only [renderList, Option.bind_eq_some_iff, Option.map_eq_some_iff] at h
      obtain ⟨t, ht, ts, hts, rfl⟩ := h
      simp only [DList.good, Bool.and_eq_true] at hg
      rw [lexOk_append, lexOk_cons, render_lexOk c x t ht hg.1,
        renderList_lexOk c (.cons y r) ts hts (by simp [DList.good, hg.2])]; rfl
theorem renderPairs_lexOk (c : DCfg) : ∀ (kvs : DPairs) (toks : List DTok), renderPairs c kvs = some toks →
    kvs.good c = true → LexOk toks = true
  | .nil, toks, h, _ => by simp [renderPairs] at h; subst h; rfl
  | .spread _ _, _, h, _ => by simp [renderPairs] at h
  | .cons k v .nil, toks, h, hg => by
      simp only [renderPairs, Option.bind_eq_some_iff, Option.map_eq_some_iff] at h
      obtain ⟨tk, htk, tv, htv, rfl⟩ := h
      simp only [DPairs.good, Bool.and_eq_true] at hg
      rw [lexOk_append, lexOk_cons, render_lexOk c k tk htk hg.1.1, render_lexOk c v tv htv hg.1.2]; rfl
  | .cons k v (.cons k2 v2 r), toks, h, hg => by
      simp only [renderPairs, Option.bind_eq_some_iff, Option.map_eq_some_iff] at h
      obtain ⟨tk, htk, tv, htv, ts, hts, rfl⟩ := h
      simp only [DPairs.good, Bool.and_eq_true] at hg
      rw [lexOk_append, lexOk_cons, lexOk_append, lexOk_cons, render_lexOk c k tk htk hg.1.1,
        render_lexOk c v tv htv hg.1.2,
        renderPairs_lexOk c (.cons k2 v2 r) ts hts (by simp [DPairs.good, hg.2])]; rfl
  | .cons k v (.spread v2 r), toks, h, _ => by
      simp [renderPairs] at h
end

theorem defaultToks_lexOk (c : DCfg) (sl : Nat → Nat) (e : DExpr) (hg : e.good c = true) : LexOk (defaultToks c sl e) = true := by
  unfold defaultToks
  cases h : render c e with
  | none => rfl
  | some t =>
    simp only
    split
    · exact render_lexOk c e t h hg
    · rfl

theorem raw_not_expr (t : String) : ¬ IsExpr [.raw t] := by
  intro h; cases h

theorem bad_bytes_not_expr (t : List Char) (h : lexOk t = false) : ¬ IsExpr [.bytes t] := by
  intro h'; cases h' with
  | bytes _ hl => rw [h] at hl; cases hl

theorem dedouble_id (l : List Char) (h : ∀ c ∈ l, c ≠ '\\') : dedouble l = l := by
  match l with
  | [] => rfl
  | [c] => rfl
  | c :: d :: r =>
    have hc : c ≠ '\\' := h c (by simp)
    have ih := dedouble_id (d :: r) (fun x hx => h x (by simp [hx]))
    simp only [dedouble]
    have : (c == '\\' && d == '\\') = false := by simp [hc]
    simp [this, ih]

theorem escapeFor_id (q : Char) (l : List Char) (h : ∀ c ∈ l, c ≠ '\\' ∧ c ≠ q) : escapeFor q l = l := by
  induction l with
  | nil => rfl
  | cons c r ih =>
    have hc := h c (by simp)
    simp only [escapeFor]
    have h1 : (c == '\\') = false := by simp [hc.1]
    have h2 : (c == q) = false := by simp [hc.2]
    simp [h1, h2, ih (fun x hx => h x (by simp [hx]))]

theorem scanLit_plain (q : Char) (l : List Char) (h : ∀ c ∈ l, c ≠ '\\' ∧ c ≠ q) :
    scanLit q (l ++ [q]) = true := by
  induction l with
  | nil => simp [scanLit]
  | cons c r ih =>
    have hc := h c (by simp)
    have ihr := ih (fun x hx => h x (by simp [hx]))
    cases hr : r ++ [q] with
    | nil => simp at hr
    | cons d r' =>
      rw [hr] at ihr
      simp only [List.cons_append, hr, scanLit]
      have h1 : (c == '\\') = false := by simp [hc.1]
      have h2 : (c == q) = false := by simp [hc.2]
      simp [h1, h2, ihr]


/-! ### `get_str_type_of_node` names the run-time type of the literal -/

def isNumAtom : DExpr → Bool
  | .int _ | .float _ _ | .complex => true
  | _ => false

theorem unwrapMath_sound : ∀ (e : DExpr), isNumAtom (unwrapMath e) = true → typeOf e = typeOf (unwrapMath e)
  | .unary o inner, h => by
      simp only [unwrapMath] at h ⊢
      by_cases hc : (o.isMath && isNumOrUnary inner) = true
      · simp only [hc, ↓reduceIte] at h ⊢
        have ih := unwrapMath_sound inner h
        have hm : o.isMath = true := by simp only [Bool.and_eq_true] at hc; exact hc.1
        -- the inner expression has a numeric type
        have hnum : typeOf inner = some "int" ∨ typeOf inner = some "float" ∨ typeOf inner = some "complex" := by
          rw [ih]
          cases hr : unwrapMath inner <;> simp_all [isNumAtom, typeOf]
        have hnb : typeOf inner ≠ some "bool" := by
          rcases hnum with h1 | h1 | h1 <;> rw [h1] <;> decide
        cases o <;> simp_all [UOp.isMath, typeOf]
      · simp only [hc] at h
        simp [isNumAtom] at h
  | .const _, h => by simp [unwrapMath, isNumAtom] at h
  | .name _, h => by simp [unwrapMath, isNumAtom] at h
  | .int _, _ => rfl
  | .float _ _, _ => rfl
  | .complex, _ => rfl
  | .complexSum, h => by simp [unwrapMath, isNumAtom] at h
  | .str _, h => by simp [unwrapMath, isNumAtom] at h
  | .bytes _, h => by simp [unwrapMath, isNumAtom] at h
  | .tuple _, h => by simp [unwrapMath, isNumAtom] at h
  | .list _, h => by simp [unwrapMath, isNumAtom] at h
  | .set _, h => by simp [unwrapMath, isNumAtom] at h
  | .dict _, h => by simp [unwrapMath, isNumAtom] at h
  | .other, h => by simp [unwrapMath, isNumAtom] at h

def isBoolConst : DExpr → Bool
  | .const .true | .const .false => true
  | _ => false

theorem unwrapNot_sound : ∀ (e : DExpr), isBoolConst (unwrapNot e) = true → typeOf e = some "bool"
  | .unary o inner, h => by
      simp only [unwrapNot] at h
      by_cases hc : (o == UOp.not && isBoolOrUnary inner) = true
      · have ho : o = .not := by simp only [Bool.and_eq_true, beq_iff_eq] at hc; exact hc.1
        subst ho; simp [typeOf]
      · simp only [hc] at h
        simp [isBoolConst] at h
  | .const c, h => by cases c <;> simp_all [unwrapNot, isBoolConst, typeOf]
  | .name _, h => by simp [unwrapNot, isBoolConst] at h
  | .int _, h => by simp [unwrapNot, isBoolConst] at h
  | .float _ _, h => by simp [unwrapNot, isBoolConst] at h
  | .complex, h => by simp [unwrapNot, isBoolConst] at h
  | .complexSum, h => by simp [unwrapNot, isBoolConst] at h
  | .str _, h => by simp [unwrapNot, isBoolConst] at h
  | .bytes _, h => by simp [unwrapNot, isBoolConst] at h
  | .tuple _, h => by simp [unwrapNot, isBoolConst] at h
  | .list _, h => by simp [unwrapNot, isBoolConst] at h
  | .set _, h => by simp [unwrapNot, isBoolConst] at h
  | .dict _, h => by simp [unwrapNot, isBoolConst] at h
  | .other, h => by simp [unwrapNot, isBoolConst] at h


theorem unwrapMath_shape : ∀ (e : DExpr), (∃ o i, e = .unary o i) →
    isNumAtom (unwrapMath e) = true ∨ ∃ o' e', unwrapMath e = .unary o' e'
  | .unary o inner, _ => by
      simp only [unwrapMath]
      by_cases hc : (o.isMath && isNumOrUnary inner) = true
      · simp only [hc, ↓reduceIte]
        cases inner with
        | unary o2 i2 => exact unwrapMath_shape (.unary o2 i2) ⟨o2, i2, rfl⟩
        | int n => left; rfl
        | float a b => left; rfl
        | complex => left; rfl
        | _ => simp [isNumOrUnary] at hc
      · simp only [hc]; right; exact ⟨o, inner, rfl⟩
  | .const _, h => by obtain ⟨_, _, h⟩ := h; cases h
  | .name _, h => by obtain ⟨_, _, h⟩ := h; cases h
  | .int _, h => by obtain ⟨_, _, h⟩ := h; cases h
  | .float _ _, h => by obtain ⟨_, _, h⟩ := h; cases h
  | .complex, h => by obtain ⟨_, _, h⟩ := h; cases h
  | .complexSum, h => by obtain ⟨_, _, h⟩ := h; cases h
  | .str _, h => by obtain ⟨_, _, h⟩ := h; cases h
  | .bytes _, h => by obtain ⟨_, _, h⟩ := h; cases h
  | .tuple _, h => by obtain ⟨_, _, h⟩ := h; cases h
  | .list _, h => by obtain ⟨_, _, h⟩ := h; cases h
  | .set _, h => by obtain ⟨_, _, h⟩ := h; cases h
  | .dict _, h => by obtain ⟨_, _, h⟩ := h; cases h
  | .other, h => by obtain ⟨_, _, h⟩ := h; cases h

theorem unwrapNot_shape : ∀ (e : DExpr), (∃ o i, e = .unary o i) →
    isBoolConst (unwrapNot e) = true ∨ ∃ o' e', unwrapNot e = .unary o' e'
  | .unary o inner, _ => by
      simp only [unwrapNot]
      by_cases hc : (o == UOp.not && isBoolOrUnary inner) = true
      · simp only [hc, ↓reduceIte]
        cases inner with
        | unary o2 i2 => exact unwrapNot_shape (.unary o2 i2) ⟨o2, i2, rfl⟩
        | const c => cases c <;> first | (left; rfl) | simp [isBoolOrUnary] at hc
        | _ => simp [isBoolOrUnary] at hc
      · simp only [hc]; right; exact ⟨o, inner, rfl⟩
  | .const _, h => by obtain ⟨_, _, h⟩ := h; cases h
  | .name _, h => by obtain ⟨_, _, h⟩ := h; cases h
  | .int _, h => by obtain ⟨_, _, h⟩ := h; cases h
  | .float _ _, h => by obtain ⟨_, _, h⟩ := h; cases h
  | .complex, h => by obtain ⟨_, _, h⟩ := h; cases h
  | .complexSum, h => by obtain ⟨_, _, h⟩ := h; cases h
  | .str _, h => by obtain ⟨_, _, h⟩ := h; cases h
  | .bytes _, h => by obtain ⟨_, _, h⟩ := h; cases h
  | .tuple _, h => by obtain ⟨_, _, h⟩ := h; cases h
  | .list _, h => by obtain ⟨_, _, h⟩ := h; cases h
  | .set _, h => by obtain ⟨_, _, h⟩ := h; cases h
  | .dict _, h => by obtain ⟨_, _, h⟩ := h; cases h
  | .other, h => by obtain ⟨_, _, h⟩ := h; cases h


/-! ### the repaired rules: every well-formed initializer is `good`, every float `finite` -/

theorem scanLit_of_scanBody (q : Char) : ∀ (v : List Char), scanBody q v = true → scanLit q (v ++ [q]) = true
  | [], _ => by simp [scanLit]
  | [c], h => by
      simp only [scanBody, Bool.and_eq_true, bne_iff_ne, ne_eq] at h
      have h1 : (c == '\\') = false := by simp [h.1]
      have h2 : (c == q) = false := by simp [h.2]
      simp [scanLit, h1, h2]
  | c :: d :: r, h => by
      simp only [scanBody] at h
      by_cases hc : (c == '\\') = true
      · simp only [hc, ↓reduceIte] at h
        have ih := scanLit_of_scanBody q r h
        simp only [List.cons_append, scanLit, hc, ↓reduceIte]
        exact ih
      · have hc' : (c == '\\') = false := by simpa using hc
        simp only [hc', Bool.false_eq_true, ↓reduceIte] at h
        by_cases hq : (c == q) = true
        · simp [hq] at h
        · have hq' : (c == q) = false := by simpa using hq
          simp only [hq', Bool.false_eq_true, ↓reduceIte] at h
          have ih := scanLit_of_scanBody q (d :: r) h
          simp only [List.cons_append] at ih
          simp only [List.cons_append, scanLit, hc', hq', Bool.false_eq_true, ↓reduceIte]
          exact ih

theorem reprQuote_isQuote (b : List Char) : (reprQuote b == '\'' || reprQuote b == '"') = true := by
  unfold reprQuote; split <;> decide

theorem bytes_ok_repaired (c : DCfg) (hb : c.bytesQuote = true) (b : List Char)
    (h : scanBody (reprQuote b) b = true) : lexOk (renderBytesC c b) = true := by
  simp only [renderBytesC, hb, ↓reduceIte, List.cons_append, lexOk, reprQuote_isQuote, Bool.true_and]
  exact scanLit_of_scanBody _ b h

mutual
theorem good_of_wf (c : DCfg) (hn : c.notSpaced = true) (hb : c.bytesQuote = true) :
    ∀ (e : DExpr), e.wf = true → e.good c = true
  | .bytes b, h => by simp only [DExpr.good]; exact bytes_ok_repaired c hb b (by simpa [DExpr.wf] using h)
  | .unary o e, h => by
      simp only [DExpr.good, hn, Bool.true_or, Bool.true_and]
      exact good_of_wf c hn hb e (by simpa [DExpr.wf] using h)
  | .tuple xs, h => by simp only [DExpr.good]; exact goodL_of_wf c hn hb xs (by simpa [DExpr.wf] using h)
  | .list xs, h => by simp only [DExpr.good]; exact goodL_of_wf c hn hb xs (by simpa [DExpr.wf] using h)
  | .set xs, h => by simp only [DExpr.good]; exact goodL_of_wf c hn hb xs (by simpa [DExpr.wf] using h)
  | .dict kvs, h => by simp only [DExpr.good]; exact goodP_of_wf c hn hb kvs (by simpa [DExpr.wf] using h)
  | .const _, _ => rfl
  | .name _, _ => rfl
  | .int _, _ => rfl
  | .float _ _, _ => rfl
  | .complex, _ => rfl
  | .complexSum, _ => rfl
  | .str _, _ => rfl
  | .other, _ => rfl
theorem goodL_of_wf (c : DCfg) (hn : c.notSpaced = true) (hb : c.bytesQuote = true) :
    ∀ (xs : DList), xs.wf = true → xs.good c = true
  | .nil, _ => rfl
  | .cons x xs, h => by
      simp only [DList.wf, Bool.and_eq_true] at h
      simp only [DList.good, Bool.and_eq_true]
      exact ⟨good_of_wf c hn hb x h.1, goodL_of_wf c hn hb xs h.2⟩
theorem goodP_of_wf (c : DCfg) (hn : c.notSpaced = true) (hb : c.bytesQuote = true) :
    ∀ (kvs : DPairs), kvs.wf = true → kvs.good c = true
  | .nil, _ => rfl
  | .cons k v rest, h => by
      simp only [DPairs.wf, Bool.and_eq_true] at h
      simp only [DPairs.good, Bool.and_eq_true]
      exact ⟨⟨good_of_wf c hn hb k h.1.1, good_of_wf c hn hb v h.1.2⟩, goodP_of_wf c hn hb rest h.2⟩
  | .spread v rest, h => by
      simp only [DPairs.wf, Bool.and_eq_true] at h
      simp only [DPairs.good, Bool.and_eq_true]
      exact ⟨good_of_wf c hn hb v h.1, goodP_of_wf c hn hb rest h.2⟩
end

mutual
theorem finite_repaired (c : DCfg) (hf : c.nonFiniteEllipsis = true) : ∀ (e : DExpr), e.finite c = true
  | .float _ _ => by simp [DExpr.finite, hf]
  | .unary _ e => by simp only [DExpr.finite]; exact finite_repaired c hf e
  | .tuple xs => by simp only [DExpr.finite]; exact finiteL_repaired c hf xs
  | .list xs => by simp only [DExpr.finite]; exact finiteL_repaired c hf xs
  | .set xs => by simp only [DExpr.finite]; exact finiteL_repaired c hf xs
  | .dict kvs => by simp only [DExpr.finite]; exact finiteP_repaired c hf kvs
  | .const _ => rfl
  | .name _ => rfl
  | .int _ => rfl
  | .complex => rfl
  | .complexSum => rfl
  | .str _ => rfl
  | .bytes _ => rfl
  | .other => rfl
theorem finiteL_repaired (c : DCfg) (hf : c.nonFiniteEllipsis = true) : ∀ (xs : DList), xs.finite c = true
  | .nil => rfl
  | .cons x xs => by simp only [DList.finite, Bool.and_eq_true]; exact ⟨finite_repaired c hf x, finiteL_repaired c hf xs⟩
theorem finiteP_repaired (c : DCfg) (hf : c.nonFiniteEllipsis = true) : ∀ (kvs : DPairs), kvs.finite c = true
  | .nil => rfl
  | .cons k v rest => by
      simp only [DPairs.finite, Bool.and_eq_true]
      exact ⟨⟨finite_repaired c hf k, finite_repaired c hf v⟩, finiteP_repaired c hf rest⟩
  | .spread v rest => by
      simp only [DPairs.finite, Bool.and_eq_true]; exact ⟨finite_repaired c hf v, finiteP_repaired c hf rest⟩
end

end StubDefault
