import MypyVerif.Model.ForZip
namespace ForZip

def ones (l : List Nat) : List Nat := l.map (fun _ => 1)
def pred (l : List Nat) : List Nat := l.map (· - 1)
def AllPos (l : List Nat) : Prop := ∀ a ∈ l, 0 < a

theorem condPass_pos : ∀ (l : List Nat), AllPos l → condPass l = (ones l, true) := by
  intro l
  induction l with
  | nil => intro _; rfl
  | cons a rest ih =>
    intro h
    have ha : 0 < a := h a (by simp)
    have hr : AllPos rest := fun x hx => h x (by simp [hx])
    obtain ⟨k, hk⟩ : ∃ k, a = k + 1 := ⟨a - 1, by omega⟩
    subst hk
    simp [condPass, ih hr, ones]

theorem condPass_zero : ∀ (l : List Nat), ¬ AllPos l → condPass l = (closedFrom 0 l, false) := by
  intro l
  induction l with
  | nil => intro h; exact absurd (fun a ha => by cases ha) h
  | cons a rest ih =>
    intro h
    cases a with
    | zero => simp [condPass, closedFrom]
    | succ k =>
      have hr : ¬ AllPos rest := by
        intro hr
        apply h
        intro x hx
        cases List.mem_cons.mp hx with
        | inl e => omega
        | inr m => exact hr x m
      simp [condPass, closedFrom, ih hr]

theorem subEach_ones : ∀ (l : List Nat), subEach l (ones l) = pred l := by
  intro l
  induction l with
  | nil => rfl
  | cons a rest ih => simp only [ones, List.map_cons, subEach, pred] at ih ⊢; rw [ih]

theorem minLen_pos_iff : ∀ (l : List Nat), l ≠ [] → (0 < minLen l ↔ AllPos l) := by
  intro l
  induction l with
  | nil => intro h; exact absurd rfl h
  | cons a rest ih =>
    intro _
    cases rest with
    | nil =>
      simp only [minLen]
      constructor
      · intro h x hx; simp at hx; omega
      · intro h; exact h a (by simp)
    | cons b rest' =>
      have ih' := ih (by simp)
      simp only [minLen] at ih' ⊢
      constructor
      · intro h x hx
        cases List.mem_cons.mp hx with
        | inl e => omega
        | inr m => exact (ih'.mp (by omega)) x m
      · intro h
        have h1 : 0 < a := h a (by simp)
        have h2 := ih'.mpr (fun x hx => h x (by simp [hx]))
        omega

theorem minLen_pred : ∀ (l : List Nat), l ≠ [] → AllPos l → minLen (pred l) = minLen l - 1 := by
  intro l
  induction l with
  | nil => intro h; exact absurd rfl h
  | cons a rest ih =>
    intro _ hp
    cases rest with
    | nil => simp [pred, minLen]
    | cons b rest' =>
      have ih' := ih (by simp) (fun x hx => hp x (by simp [hx]))
      have ha : 0 < a := hp a (by simp)
      have hm : 0 < minLen (b :: rest') := (minLen_pos_iff (b :: rest') (by simp)).mpr (fun x hx => hp x (by simp [hx]))
      simp only [pred, List.map_cons, minLen] at ih' ⊢
      omega

theorem map_const_len (l : List Nat) (f : Nat → Nat) (g : Nat → Nat) :
    (l.map f).map g = l.map (fun x => g (f x)) := by simp

/-- taking one item from every operand shifts the closed form by one -/
theorem closedFrom_succ (m : Nat) : ∀ (l : List Nat), AllPos l →
    closedFrom (m + 1) l = addEach (ones l) (closedFrom m (pred l)) := by
  intro l
  induction l with
  | nil => intro _; rfl
  | cons a rest ih =>
    intro hp
    have ha : 0 < a := hp a (by simp)
    have hr : AllPos rest := fun x hx => hp x (by simp [hx])
    show closedFrom (m + 1) (a :: rest) = addEach (1 :: ones rest) (closedFrom m ((a - 1) :: pred rest))
    by_cases h : a = m + 1
    · have h' : a - 1 = m := by omega
      have e1 : closedFrom (m + 1) (a :: rest) = (m + 1) :: rest.map (fun _ => m + 1) := by simp [closedFrom, h]
      have e2 : closedFrom m ((a - 1) :: pred rest) = m :: (pred rest).map (fun _ => m) := by simp [closedFrom, h']
      rw [e1, e2]
      simp only [addEach]
      congr 1
      · omega
      · clear ih hp hr e1 e2
        induction rest with
        | nil => rfl
        | cons b rest' ih2 =>
          simp only [List.map_cons, ones, pred, addEach] at ih2 ⊢
          rw [ih2]; congr 1; omega
    · have h' : ¬ a - 1 = m := by omega
      have e1 : closedFrom (m + 1) (a :: rest) = (m + 1 + 1) :: closedFrom (m + 1) rest := by simp [closedFrom, h]
      have e2 : closedFrom m ((a - 1) :: pred rest) = (m + 1) :: closedFrom m (pred rest) := by simp [closedFrom, h']
      rw [e1, e2, ih hr]
      simp only [addEach]
      congr 1
      omega

theorem pred_ne_nil (l : List Nat) (h : l ≠ []) : pred l ≠ [] := by
  cases l with
  | nil => exact absurd rfl h
  | cons a rest => simp [pred]

theorem run_eq_closed_aux : ∀ (fuel : Nat) (l : List Nat), l ≠ [] → minLen l < fuel → run fuel l = closed l := by
  intro fuel
  induction fuel with
  | zero => intro l _ h; omega
  | succ fuel ih =>
    intro l hne hlt
    simp only [run]
    by_cases hp : AllPos l
    · rw [condPass_pos l hp]
      simp only [if_true]
      rw [subEach_ones]
      have hm : 0 < minLen l := (minLen_pos_iff l hne).mpr hp
      have hmp := minLen_pred l hne hp
      rw [ih (pred l) (pred_ne_nil l hne) (by omega)]
      simp only [closed, hmp]
      obtain ⟨k, hk⟩ : ∃ k, minLen l = k + 1 := ⟨minLen l - 1, by omega⟩
      rw [hk]
      simp only [Nat.add_sub_cancel]
      rw [closedFrom_succ k l hp]
    · rw [condPass_zero l hp]
      simp only [Bool.false_eq_true, if_false]
      have hm : minLen l = 0 := by
        have := (minLen_pos_iff l hne)
        by_cases h0 : 0 < minLen l
        · exact absurd (this.mp h0) hp
        · omega
      simp [closed, hm]

end ForZip
