import MypyVerif.Model.PyBind
/-! Helper lemmas for the call-binding models (property theorems are in Props/C12Bind.lean). -/
namespace PyBind
open ArgMap

end PyBind
