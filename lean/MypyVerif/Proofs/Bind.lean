import MypyVerif.Model.PyBind
/-!
Helper lemmas for the call-binding models (property theorems are in Props/C12Bind.lean).

Plan: both models are reduced, for calls made of `npos` positional actuals followed by distinct keywords
`kws`, to the same declarative condition `CoreOk`:
  `pyBind_none_iff`     CPython's `initialize_locals` model binds the call ⇔ `CoreOk`
  `mypy_ok_iff`         mypy's mapper + `check_argument_count` model reports nothing ⇔ `CoreOk`
-/
namespace PyBind
open ArgMap

/-- the call `f(e₁, …, e_npos, k₁=…, …, k_m=…)` as mypy sees it -/
def coreCall (npos : Nat) (kws : List Name) : List Actual :=
  List.replicate npos .pos ++ kws.map .named

/-- the declarative binding condition, phrased with CPython's slot search -/
structure CoreOk (s : Sig) (npos : Nat) (kws : List Name) : Prop where
  /-- no surplus positional arguments -/
  a : npos ≤ s.nargs ∨ s.varargs.isSome
  /-- every keyword names a parameter, or there is `**kwargs` -/
  b : ∀ x ∈ kws, findSlot s x = none → s.varkw.isSome
  /-- no keyword names a parameter already filled positionally -/
  c : ∀ x ∈ kws, ∀ j, findSlot s x = some j → min npos s.nargs ≤ j
  /-- every positional parameter without default gets a value -/
  d : ∀ i, i < s.nargs - s.ndef → i < npos ∨ ∃ x ∈ kws, findSlot s x = some i
  /-- every keyword-only parameter without default gets a value -/
  e : ∀ j (h : j < s.kwonly.length), (s.kwonly[j]).2 = false → ∃ x ∈ kws, findSlot s x = some (s.nargs + j)

/-! ### indexOf / findSlot -/

theorem indexOf_some {l : List Name} {x : Name} {j : Nat} (h : indexOf l x = some j) :
    l[j]? = some x := by
  induction l generalizing j with
  | nil => simp [indexOf] at h
  | cons y ys ih =>
    simp only [indexOf] at h
    split at h
    · rename_i hy; injection h with h; subst h; simp [hy]
    · cases h' : indexOf ys x with
      | none => simp [h'] at h
      | some k =>
        simp [h'] at h; subst h
        simpa using ih h'

theorem indexOf_lt {l : List Name} {x : Name} {j : Nat} (h : indexOf l x = some j) : j < l.length := by
  have := indexOf_some h
  exact (List.getElem?_eq_some_iff.1 this).1

theorem indexOf_none {l : List Name} {x : Name} : indexOf l x = none ↔ x ∉ l := by
  induction l with
  | nil => simp [indexOf]
  | cons y ys ih =>
    simp only [indexOf]
    split
    · rename_i hy; simp [hy]
    · rename_i hy
      simp only [Option.map_eq_none_iff, ih, List.mem_cons, not_or]
      exact ⟨fun h => ⟨fun e => hy e.symm, h⟩, fun h => h.2⟩

theorem indexOf_mem {l : List Name} {x : Name} (h : x ∈ l) : ∃ j, indexOf l x = some j := by
  cases h' : indexOf l x with
  | none => exact absurd h (indexOf_none.1 h')
  | some j => exact ⟨j, rfl⟩

theorem indexOf_inj {l : List Name} {x y : Name} {j : Nat}
    (hx : indexOf l x = some j) (hy : indexOf l y = some j) : x = y := by
  have h1 := indexOf_some hx
  have h2 := indexOf_some hy
  rw [h1] at h2; injection h2

/-- in a duplicate-free list the element at position `j` is found at `j` -/
theorem indexOf_of_getElem {l : List Name} (hn : l.Nodup) {x : Name} {j : Nat} (h : l[j]? = some x) :
    indexOf l x = some j := by
  induction l generalizing j with
  | nil => simp at h
  | cons y ys ih =>
    rw [List.nodup_cons] at hn
    cases j with
    | zero => simp at h; simp [indexOf, h]
    | succ k =>
      simp at h
      have hmem : x ∈ ys := List.mem_iff_getElem?.2 ⟨k, h⟩
      have hne : y ≠ x := fun e => hn.1 (e ▸ hmem)
      simp [indexOf, hne, ih hn.2 h]

theorem findSlot_poskw {s : Sig} {x : Name} {j : Nat} (h : indexOf s.poskw x = some j) :
    findSlot s x = some (s.posonly.length + j) := by
  simp [findSlot, h]

theorem findSlot_cases {s : Sig} {x : Name} {j : Nat} (h : findSlot s x = some j) :
    (∃ i, indexOf s.poskw x = some i ∧ j = s.posonly.length + i ∧ j < s.nargs) ∨
    (∃ i, indexOf s.poskw x = none ∧ indexOf (s.kwonly.map (·.1)) x = some i ∧ j = s.nargs + i ∧
          i < s.kwonly.length) := by
  unfold findSlot at h
  cases h1 : indexOf s.poskw x with
  | some i =>
    simp [h1] at h
    have := indexOf_lt h1
    exact Or.inl ⟨i, rfl, h.symm, by unfold Sig.nargs; omega⟩
  | none =>
    simp only [h1] at h
    cases h2 : indexOf (s.kwonly.map (·.1)) x with
    | none => simp [h2] at h
    | some i =>
      simp [h2] at h
      have := indexOf_lt h2
      exact Or.inr ⟨i, rfl, rfl, h.symm, by simpa using this⟩

theorem findSlot_none {s : Sig} {x : Name} :
    findSlot s x = none ↔ x ∉ s.poskw ∧ x ∉ s.kwonly.map (·.1) := by
  unfold findSlot
  cases h1 : indexOf s.poskw x with
  | some i =>
    have : x ∈ s.poskw := by
      by_cases hm : x ∈ s.poskw
      · exact hm
      · rw [indexOf_none.2 hm] at h1; cases h1
    simp [this]
  | none =>
    have h1' := indexOf_none.1 h1
    cases h2 : indexOf (s.kwonly.map (·.1)) x with
    | none => simp only [true_iff]; exact ⟨h1', indexOf_none.1 h2⟩
    | some i =>
      have : x ∈ s.kwonly.map (·.1) := by
        by_cases hm : x ∈ s.kwonly.map (·.1)
        · exact hm
        · rw [indexOf_none.2 hm] at h2; cases h2
      simp [this]

theorem findSlot_inj {s : Sig} {x y : Name} {j : Nat}
    (hx : findSlot s x = some j) (hy : findSlot s y = some j) : x = y := by
  rcases findSlot_cases hx with ⟨i, h1, e1, l1⟩ | ⟨i, _, h1, e1, _⟩ <;>
  rcases findSlot_cases hy with ⟨i', h2, e2, l2⟩ | ⟨i', _, h2, e2, _⟩
  · have : i = i' := by omega
    subst this; exact indexOf_inj h1 h2
  · omega
  · omega
  · have : i = i' := by omega
    subst this; exact indexOf_inj h1 h2

/-! ### the keyword loop -/

/-- each new slot is not yet filled -/
def Fresh : List Nat → List Nat → Prop
  | _, [] => True
  | filled, j :: js => j ∉ filled ∧ Fresh (filled ++ [j]) js

theorem fresh_iff (js : List Nat) : ∀ filled, Fresh filled js ↔ (∀ j ∈ js, j ∉ filled) ∧ js.Nodup := by
  induction js with
  | nil => intro filled; simp [Fresh]
  | cons j js ih =>
    intro filled
    unfold Fresh
    rw [ih, List.nodup_cons]
    constructor
    · rintro ⟨h1, h2, h3⟩
      refine ⟨?_, ?_, h3⟩
      · intro k hk
        rcases List.mem_cons.1 hk with rfl | hk
        · exact h1
        · intro hkf; exact h2 k hk (List.mem_append_left _ hkf)
      · intro hj; exact h2 j hj (List.mem_append_right _ (List.mem_singleton.2 rfl))
    · rintro ⟨h1, h2, h3⟩
      refine ⟨h1 j (List.mem_cons_self ..), ?_, h3⟩
      intro k hk hkf
      rcases List.mem_append.1 hkf with h | h
      · exact h1 k (List.mem_cons_of_mem _ hk) h
      · have : k = j := by simpa using h
        exact h2 (this ▸ hk)

theorem kwLoop_ok_iff (s : Sig) (all : List Name) : ∀ (kws : List Name) (filled r : List Nat),
    kwLoop s all kws filled = .ok r ↔
      ((∀ x ∈ kws, findSlot s x = none → s.varkw.isSome) ∧
       Fresh filled (kws.filterMap (findSlot s)) ∧ r = filled ++ kws.filterMap (findSlot s)) := by
  intro kws
  induction kws with
  | nil =>
    intro filled r
    simp only [kwLoop, List.filterMap_nil, Fresh, List.append_nil]
    constructor
    · intro h; injection h with h; exact ⟨by simp, trivial, h.symm⟩
    · rintro ⟨_, _, h⟩; rw [h]
  | cons x xs ih =>
    intro filled r
    simp only [kwLoop]
    cases hx : findSlot s x with
    | some j =>
      simp only [List.filterMap_cons, hx, Fresh]
      by_cases hc : filled.contains j = true
      · rw [if_pos hc]
        have hm : j ∈ filled := by simpa using hc
        constructor
        · intro h; cases h
        · rintro ⟨_, ⟨h, _⟩, _⟩; exact absurd hm h
      · rw [if_neg hc]
        have hm : j ∉ filled := by simpa using hc
        rw [ih]
        constructor
        · rintro ⟨h1, h2, h3⟩
          refine ⟨?_, ⟨hm, h2⟩, by simpa using h3⟩
          intro y hy
          rcases List.mem_cons.1 hy with rfl | hy
          · intro h; rw [hx] at h; cases h
          · exact h1 y hy
        · rintro ⟨h1, ⟨_, h2⟩, h3⟩
          exact ⟨fun y hy => h1 y (List.mem_cons_of_mem _ hy), h2, by simpa using h3⟩
    | none =>
      simp only [List.filterMap_cons, hx]
      by_cases hv : s.varkw.isSome = true
      · rw [if_pos hv]
        rw [ih]
        constructor
        · rintro ⟨h1, h2, h3⟩
          refine ⟨?_, h2, h3⟩
          intro y hy
          rcases List.mem_cons.1 hy with rfl | hy
          · intro _; exact hv
          · exact h1 y hy
        · rintro ⟨h1, h2, h3⟩
          exact ⟨fun y hy => h1 y (List.mem_cons_of_mem _ hy), h2, h3⟩
      · rw [if_neg hv]
        constructor
        · intro h; split at h <;> cases h
        · rintro ⟨h1, _, _⟩
          exact absurd (h1 x (List.mem_cons_self ..) hx) hv

theorem slots_nodup (s : Sig) : ∀ (kws : List Name), kws.Nodup → (kws.filterMap (findSlot s)).Nodup := by
  intro kws
  induction kws with
  | nil => intro _; simp
  | cons x xs ih =>
    intro h
    rw [List.nodup_cons] at h
    rw [List.filterMap_cons]
    cases hx : findSlot s x with
    | none => exact ih h.2
    | some j =>
      simp only
      rw [List.nodup_cons]
      refine ⟨?_, ih h.2⟩
      intro hm
      obtain ⟨y, hy, hy'⟩ := List.mem_filterMap.1 hm
      have := findSlot_inj hx hy'
      exact h.1 (this ▸ hy)

/-! ### `pyBind` binds ⇔ `CoreOk` -/

theorem pyBind_none_iff (s : Sig) (npos : Nat) (kws : List Name) (hk : kws.Nodup) :
    pyBind s npos kws = none ↔ CoreOk s npos kws := by
  unfold pyBind
  simp only
  have hnd := slots_nodup s kws hk
  cases hl : kwLoop s kws kws (List.range (min npos s.nargs)) with
  | error e =>
    simp only
    constructor
    · intro h; cases h
    · intro ok
      exfalso
      have : ¬ ∃ r, kwLoop s kws kws (List.range (min npos s.nargs)) = .ok r := by
        rintro ⟨r, hr⟩; rw [hl] at hr; cases hr
      apply this
      refine ⟨_, (kwLoop_ok_iff s kws kws _ _).2 ⟨ok.b, ?_, rfl⟩⟩
      rw [fresh_iff]
      refine ⟨?_, hnd⟩
      intro j hj
      obtain ⟨x, hx, hx'⟩ := List.mem_filterMap.1 hj
      have := ok.c x hx j hx'
      simp only [List.mem_range]; omega
  | ok filled =>
    obtain ⟨hb, hfresh, hfilled⟩ := (kwLoop_ok_iff s kws kws _ _).1 hl
    rw [fresh_iff] at hfresh
    have hmem : ∀ i, i ∈ filled ↔ (i < min npos s.nargs ∨ ∃ x ∈ kws, findSlot s x = some i) := by
      intro i
      rw [hfilled, List.mem_append, List.mem_range, List.mem_filterMap]
    have hc : ∀ x ∈ kws, ∀ j, findSlot s x = some j → min npos s.nargs ≤ j := by
      intro x hx j hj
      have := hfresh.1 j (List.mem_filterMap.2 ⟨x, hx, hj⟩)
      simp only [List.mem_range] at this; omega
    simp only
    constructor
    · intro h
      split at h
      · cases h
      · rename_i hA
        split at h
        · cases h
        · rename_i hD
          split at h
          · cases h
          · rename_i hE
            refine ⟨?_, hb, hc, ?_, ?_⟩
            · by_cases hv : s.varargs.isSome = true
              · exact Or.inr hv
              · left
                have hv' : s.varargs.isNone = true := by
                  cases hvv : s.varargs <;> simp [hvv] at hv ⊢
                apply Nat.le_of_not_lt
                intro hgt; exact hA ⟨hgt, hv'⟩
            · intro i hi
              have hD' : ∀ i, i < s.nargs - s.ndef → i ∈ filled := by
                simpa [List.any_eq_true] using hD
              rcases (hmem i).1 (hD' i hi) with h1 | h1
              · left; omega
              · exact Or.inr h1
            · intro j hj hreq
              have hE' := hE
              rw [Bool.not_eq_true, List.any_eq_false] at hE'
              have := hE' (s.kwonly[j], j) (List.mk_mem_zipIdx_iff_getElem?.2 (by simp [hj]))
              simp only [hreq, Bool.not_false, Bool.true_and, Bool.not_eq_true', Bool.not_eq_false] at this
              have hin : (s.nargs + j) ∈ filled := by simpa using this
              rcases (hmem _).1 hin with h1 | h1
              · omega
              · exact h1
    · intro ok
      have hA : ¬ (npos > s.nargs ∧ s.varargs.isNone = true) := by
        rintro ⟨h1, h2⟩
        rcases ok.a with h | h
        · omega
        · cases hvv : s.varargs <;> simp [hvv] at h h2
      have hD : ¬ ((List.range (s.nargs - s.ndef)).any fun i => !filled.contains i) = true := by
        rw [Bool.not_eq_true, List.any_eq_false]
        intro i hi
        rw [List.mem_range] at hi
        have : i ∈ filled := by
          rw [hmem]
          rcases ok.d i hi with h | h
          · left; omega
          · exact Or.inr h
        simp [this]
      have hE : ¬ (s.kwonly.zipIdx.any fun x => !x.1.2 && !filled.contains (s.nargs + x.2)) = true := by
        rw [Bool.not_eq_true, List.any_eq_false]
        rintro ⟨k, j⟩ hkj
        have hget := List.mk_mem_zipIdx_iff_getElem?.1 hkj
        obtain ⟨hj, hkj'⟩ := List.getElem?_eq_some_iff.1 hget
        cases hdef : k.2 with
        | true => simp
        | false =>
          have := ok.e j hj (by rw [hkj']; exact hdef)
          have : (s.nargs + j) ∈ filled := (hmem _).2 (Or.inr this)
          simp [this]
      rw [if_neg hA, if_neg hD, if_neg hE]

/-! ### the shape of `Sig.toFormals` -/

def Sig.sv (s : Sig) : Nat := if s.varargs.isSome then 1 else 0

theorem posFormals_length (s : Sig) (xs : List Name) (i : Nat) (named : Bool) :
    (posFormals s xs i named).length = xs.length := by
  induction xs generalizing i with
  | nil => rfl
  | cons x xs ih => simp [posFormals, ih]

theorem posFormals_getElem? (s : Sig) (xs : List Name) (i : Nat) (named : Bool) (j : Nat) :
    (posFormals s xs i named)[j]? =
      (xs[j]?).map fun x => { kind := s.posKind (i + j), name := if named then some x else none } := by
  induction xs generalizing i j with
  | nil => simp [posFormals]
  | cons x xs ih =>
    cases j with
    | zero => simp [posFormals]
    | succ j =>
      simp only [posFormals, List.getElem?_cons_succ, ih]
      congr 1
      funext y
      have : i + 1 + j = i + (j + 1) := by omega
      rw [this]

theorem toFormals_eq (s : Sig) : s.toFormals =
    posFormals s s.posonly 0 false ++ (posFormals s s.poskw s.posonly.length true ++
      (starFormals s ++ (kwFormals s ++ star2Formals s))) := rfl

theorem starFormals_length (s : Sig) : (starFormals s).length = s.sv := by
  unfold starFormals Sig.sv; cases s.varargs <;> simp

theorem kwFormals_length (s : Sig) : (kwFormals s).length = s.kwonly.length := by
  simp [kwFormals]

theorem posKind_cases (s : Sig) (i : Nat) : s.posKind i = .pos ∨ s.posKind i = .opt := by
  unfold Sig.posKind; split <;> simp

/-- positional formals -/
theorem formal_pos (s : Sig) {i : Nat} (h : i < s.nargs) :
    ∃ f, s.toFormals[i]? = some f ∧ f.kind = s.posKind i ∧
      f.name = (if i < s.posonly.length then none else s.poskw[i - s.posonly.length]?) := by
  rw [toFormals_eq]
  by_cases h1 : i < s.posonly.length
  · rw [List.getElem?_append_left (by rw [posFormals_length]; exact h1), posFormals_getElem?]
    obtain ⟨x, hx⟩ : ∃ x, s.posonly[i]? = some x := ⟨s.posonly[i], by simp [h1]⟩
    simp [hx, h1]
  · rw [List.getElem?_append_right (by rw [posFormals_length]; omega), posFormals_length,
      List.getElem?_append_left (by rw [posFormals_length]; unfold Sig.nargs at h; omega), posFormals_getElem?]
    have h2 : i - s.posonly.length < s.poskw.length := by unfold Sig.nargs at h; omega
    obtain ⟨x, hx⟩ : ∃ x, s.poskw[i - s.posonly.length]? = some x := ⟨s.poskw[i - s.posonly.length], by simp [h2]⟩
    have : s.posonly.length + (i - s.posonly.length) = i := by omega
    simp [hx, h1, this]

theorem toFormals_drop_pos (s : Sig) (j : Nat) :
    s.toFormals[s.nargs + j]? = (starFormals s ++ (kwFormals s ++ star2Formals s))[j]? := by
  rw [toFormals_eq, ← List.append_assoc]
  rw [List.getElem?_append_right (by simp [posFormals_length, Sig.nargs])]
  congr 1
  simp [posFormals_length, Sig.nargs]

theorem formal_star (s : Sig) {v : Name} (h : s.varargs = some v) :
    s.toFormals[s.nargs]? = some { kind := .star, name := some v } := by
  have := toFormals_drop_pos s 0
  simp only [Nat.add_zero] at this
  rw [this]; simp [starFormals, h]

theorem formal_kw (s : Sig) {j : Nat} (h : j < s.kwonly.length) :
    s.toFormals[s.nargs + s.sv + j]? =
      some { kind := if (s.kwonly[j]).2 then .namedOpt else .named, name := some (s.kwonly[j]).1 } := by
  rw [Nat.add_assoc, toFormals_drop_pos]
  rw [List.getElem?_append_right (by rw [starFormals_length]; omega), starFormals_length]
  rw [List.getElem?_append_left (by rw [kwFormals_length]; omega)]
  simp [kwFormals, h]

theorem formal_star2 (s : Sig) :
    s.toFormals[s.nargs + s.sv + s.kwonly.length]? =
      (match s.varkw with | some w => some { kind := .star2, name := some w } | none => none) := by
  rw [Nat.add_assoc, toFormals_drop_pos]
  rw [List.getElem?_append_right (by rw [starFormals_length]; omega), starFormals_length]
  rw [List.getElem?_append_right (by rw [kwFormals_length]; omega), kwFormals_length]
  have : s.sv + s.kwonly.length - s.sv - s.kwonly.length = 0 := by omega
  rw [this]
  unfold star2Formals; cases s.varkw <;> simp

theorem toFormals_length (s : Sig) :
    s.toFormals.length = s.nargs + s.sv + s.kwonly.length + (if s.varkw.isSome then 1 else 0) := by
  rw [toFormals_eq]
  simp only [List.length_append, posFormals_length, starFormals_length, kwFormals_length]
  unfold star2Formals Sig.nargs
  cases s.varkw <;> simp <;> omega

/-! ### name lookup in `Sig.toFormals` -/

theorem nameIndex_append (A B : List Formal) (x : Name) :
    nameIndex (A ++ B) x = match nameIndex A x with
      | some j => some j
      | none => (nameIndex B x).map (· + A.length) := by
  induction A with
  | nil => simp [nameIndex]
  | cons f fs ih =>
    simp only [List.cons_append, nameIndex]
    split
    · rfl
    · rw [ih]
      cases nameIndex fs x with
      | some j => rfl
      | none =>
        cases nameIndex B x with
        | none => rfl
        | some k => simp; omega

theorem star2Index_append (A B : List Formal) :
    star2Index (A ++ B) = match star2Index A with
      | some j => some j
      | none => (star2Index B).map (· + A.length) := by
  induction A with
  | nil => simp [star2Index]
  | cons f fs ih =>
    simp only [List.cons_append, star2Index]
    split
    · rfl
    · rw [ih]
      cases star2Index fs with
      | some j => rfl
      | none =>
        cases star2Index B with
        | none => rfl
        | some k => simp; omega

theorem nameIndex_posFormals_unnamed (s : Sig) (xs : List Name) (i : Nat) (x : Name) :
    nameIndex (posFormals s xs i false) x = none := by
  induction xs generalizing i with
  | nil => rfl
  | cons y ys ih => simp [posFormals, nameIndex, ih]

theorem nameIndex_posFormals_named (s : Sig) (xs : List Name) (i : Nat) (x : Name) :
    nameIndex (posFormals s xs i true) x = indexOf xs x := by
  induction xs generalizing i with
  | nil => rfl
  | cons y ys ih =>
    simp only [posFormals, nameIndex, indexOf, ih]
    simp

theorem star2Index_posFormals (s : Sig) (xs : List Name) (i : Nat) (named : Bool) :
    star2Index (posFormals s xs i named) = none := by
  induction xs generalizing i with
  | nil => rfl
  | cons y ys ih =>
    simp only [posFormals, star2Index, ih]
    rcases posKind_cases s i with h | h <;> simp [h]

theorem nameIndex_kwFormals (s : Sig) (x : Name) :
    nameIndex (kwFormals s) x = indexOf (s.kwonly.map (·.1)) x := by
  unfold kwFormals
  induction s.kwonly with
  | nil => rfl
  | cons k ks ih => simp only [List.map_cons, nameIndex, indexOf, ih]; simp

theorem star2Index_kwFormals (s : Sig) : star2Index (kwFormals s) = none := by
  unfold kwFormals
  induction s.kwonly with
  | nil => rfl
  | cons k ks ih =>
    simp only [List.map_cons, star2Index, ih]
    cases k.2 <;> simp

/-- `formal_kinds.index(ARG_STAR2)` -/
theorem star2Index_toFormals (s : Sig) :
    star2Index s.toFormals =
      if s.varkw.isSome then some (s.nargs + s.sv + s.kwonly.length) else none := by
  rw [toFormals_eq]
  simp only [star2Index_append, star2Index_posFormals, star2Index_kwFormals, posFormals_length,
    starFormals_length, kwFormals_length]
  have hs : star2Index (starFormals s) = none := by
    unfold starFormals; cases s.varargs <;> simp [star2Index]
  rw [hs]
  unfold star2Formals Sig.nargs
  cases s.varkw with
  | none => simp [star2Index]
  | some w => simp [star2Index]; omega

/-- where `stepNamed` puts keyword `x` -/
def kwTarget (F : List Formal) (x : Name) : Option Nat :=
  match nameIndex F x with
  | some j => if kindAt F j ≠ some .star then some j else star2Index F
  | none => star2Index F

theorem stepNamed_eq (F : List Formal) (st : St) (ai : Nat) (x : Name) :
    stepNamed F st ai x = match kwTarget F x with
      | some t => st.add t ai
      | none => st := by
  unfold stepNamed kwTarget
  cases nameIndex F x with
  | none => rfl
  | some j =>
    simp only
    split <;> rfl

/-- the slot number as a formal index: the `*args` formal sits between the two groups -/
def Sig.formalOfSlot (s : Sig) (j : Nat) : Nat := if j < s.nargs then j else j + s.sv

theorem kwTarget_eq (s : Sig) (hwf : s.WF) (x : Name) :
    kwTarget s.toFormals x = match findSlot s x with
      | some j => some (s.formalOfSlot j)
      | none => star2Index s.toFormals := by
  have hnd := hwf.1
  unfold Sig.allNames at hnd
  unfold kwTarget
  have hni : nameIndex s.toFormals x =
      match indexOf s.poskw x with
      | some j => some (s.posonly.length + j)
      | none =>
        match nameIndex (starFormals s) x with
        | some j => some (j + s.nargs)
        | none =>
          match indexOf (s.kwonly.map (·.1)) x with
          | some j => some (j + s.sv + s.nargs)
          | none => (nameIndex (star2Formals s) x).map (· + s.kwonly.length + s.sv + s.nargs) := by
    rw [toFormals_eq]
    simp only [nameIndex_append, nameIndex_posFormals_unnamed, nameIndex_posFormals_named,
      nameIndex_kwFormals, posFormals_length, starFormals_length, kwFormals_length]
    cases indexOf s.poskw x with
    | some j => simp; omega
    | none =>
      simp only [Option.map_none]
      cases nameIndex (starFormals s) x with
      | some j => simp [Sig.nargs]; omega
      | none =>
        cases indexOf (s.kwonly.map (·.1)) x with
        | some j => simp [Sig.nargs]; omega
        | none =>
          cases nameIndex (star2Formals s) x with
          | none => simp
          | some j => simp [Sig.nargs]; omega
  rw [hni]
  unfold findSlot
  cases h1 : indexOf s.poskw x with
  | some j =>
    have hj := indexOf_lt h1
    have hlt : s.posonly.length + j < s.nargs := by unfold Sig.nargs; omega
    obtain ⟨f, hf, hk, _⟩ := formal_pos s hlt
    have hkind : kindAt s.toFormals (s.posonly.length + j) ≠ some .star := by
      unfold kindAt; rw [hf]
      rcases posKind_cases s (s.posonly.length + j) with h | h <;> simp [hk, h]
    simp [hkind, Sig.formalOfSlot, hlt]
  | none =>
    have hx1 : x ∉ s.poskw := indexOf_none.1 h1
    simp only
    cases hv : s.varargs with
    | some v =>
      by_cases hxv : v = x
      · -- the keyword is the name of `*args`: falls through to `**kwargs`
        have : nameIndex (starFormals s) x = some 0 := by simp [starFormals, hv, nameIndex, hxv]
        rw [this]
        have hstar : kindAt s.toFormals s.nargs = some .star := by
          unfold kindAt; rw [formal_star s hv]; rfl
        have hnot : x ∉ s.kwonly.map (·.1) := by
          intro hm
          rw [hv] at hnd
          simp only [Option.toList_some] at hnd
          have := (List.nodup_append.1 (List.nodup_append.1 hnd).1).2.2
          exact this x (List.mem_append_right _ (by simp [hxv])) x hm rfl
        rw [indexOf_none.2 hnot]
        simp [hstar]
      · have : nameIndex (starFormals s) x = none := by simp [starFormals, hv, nameIndex, hxv]
        rw [this]
        simp only
        cases h2 : indexOf (s.kwonly.map (·.1)) x with
        | some j =>
          have hj := indexOf_lt h2
          simp only [List.length_map] at hj
          have hsv : s.sv = 1 := by simp [Sig.sv, hv]
          have hf := formal_kw s hj
          have hkind : kindAt s.toFormals (j + s.sv + s.nargs) ≠ some .star := by
            unfold kindAt
            have : j + s.sv + s.nargs = s.nargs + s.sv + j := by omega
            rw [this, hf]
            cases (s.kwonly[j]).2 <;> simp
          simp only [hkind, ne_eq, not_false_eq_true, if_true]
          have hge : ¬ (s.nargs + j < s.nargs) := by omega
          simp [Sig.formalOfSlot, hge]; omega
        | none =>
          simp only
          rw [star2Index_toFormals]
          unfold star2Formals
          cases hw : s.varkw with
          | none => simp [nameIndex]
          | some w =>
            by_cases hxw : w = x
            · have hf := formal_star2 s
              rw [hw] at hf
              have hkind : kindAt s.toFormals (0 + s.kwonly.length + s.sv + s.nargs) ≠ some .star := by
                unfold kindAt
                have : 0 + s.kwonly.length + s.sv + s.nargs = s.nargs + s.sv + s.kwonly.length := by omega
                rw [this, hf]; simp
              simp [nameIndex, hxw, hkind]; omega
            · simp [nameIndex, hxw]
    | none =>
      have : nameIndex (starFormals s) x = none := by simp [starFormals, hv, nameIndex]
      rw [this]
      simp only
      cases h2 : indexOf (s.kwonly.map (·.1)) x with
      | some j =>
        have hj := indexOf_lt h2
        simp only [List.length_map] at hj
        have hsv : s.sv = 0 := by simp [Sig.sv, hv]
        have hf := formal_kw s hj
        have hkind : kindAt s.toFormals (j + s.sv + s.nargs) ≠ some .star := by
          unfold kindAt
          have : j + s.sv + s.nargs = s.nargs + s.sv + j := by omega
          rw [this, hf]
          cases (s.kwonly[j]).2 <;> simp
        simp only [hkind, ne_eq, not_false_eq_true, if_true]
        have hge : ¬ (s.nargs + j < s.nargs) := by omega
        simp [Sig.formalOfSlot, hge]; omega
      | none =>
        simp only
        rw [star2Index_toFormals]
        unfold star2Formals
        cases hw : s.varkw with
        | none => simp [nameIndex]
        | some w =>
          by_cases hxw : w = x
          · have hf := formal_star2 s
            rw [hw] at hf
            have hkind : kindAt s.toFormals (0 + s.kwonly.length + s.sv + s.nargs) ≠ some .star := by
              unfold kindAt
              have : 0 + s.kwonly.length + s.sv + s.nargs = s.nargs + s.sv + s.kwonly.length := by omega
              rw [this, hf]; simp
            simp [nameIndex, hxw, hkind]; omega
          · simp [nameIndex, hxw]

/-! ### the mapping loop on core calls -/

/-- number of leading non-star formals -/
def Sig.lns (s : Sig) : Nat := if s.varargs.isSome then s.nargs else s.nargs + s.kwonly.length

/-- the formal a positional actual number `a` is mapped to -/
def posTarget (s : Sig) (a : Nat) : Option Nat :=
  if a < s.lns then some a else if s.varargs.isSome then some s.nargs else none

def posPairs (s : Sig) : Nat → Nat → Pairs
  | _, 0 => []
  | a, k + 1 => (match posTarget s a with | some t => [(t, a)] | none => []) ++ posPairs s (a + 1) k

def kwPairs (F : List Formal) : Nat → List Name → Pairs
  | _, [] => []
  | a, x :: xs => (match kwTarget F x with | some t => [(t, a)] | none => []) ++ kwPairs F (a + 1) xs

theorem kindAt_lt_lns (s : Sig) {i : Nat} (h : i < s.lns) :
    ∃ k, kindAt s.toFormals i = some k ∧ k.isStar = false := by
  unfold kindAt
  by_cases h1 : i < s.nargs
  · obtain ⟨f, hf, hk, _⟩ := formal_pos s h1
    refine ⟨f.kind, by rw [hf]; rfl, ?_⟩
    rcases posKind_cases s i with h | h <;> simp [hk, h, FK.isStar]
  · unfold Sig.lns at h
    cases hv : s.varargs with
    | some v => simp [hv] at h; omega
    | none =>
      simp [hv] at h
      have hsv : s.sv = 0 := by simp [Sig.sv, hv]
      have hj : i - s.nargs < s.kwonly.length := by omega
      have hf := formal_kw s hj
      have : s.nargs + s.sv + (i - s.nargs) = i := by omega
      rw [this] at hf
      rw [hf]
      refine ⟨_, rfl, ?_⟩
      cases (s.kwonly[i - s.nargs]).2 <;> simp [FK.isStar]

theorem kindAt_lns (s : Sig) :
    kindAt s.toFormals s.lns =
      if s.varargs.isSome then some .star else if s.varkw.isSome then some .star2 else none := by
  unfold kindAt Sig.lns
  cases hv : s.varargs with
  | some v => simp [formal_star s hv]
  | none =>
    have hsv : s.sv = 0 := by simp [Sig.sv, hv]
    have hf := formal_star2 s
    rw [hsv] at hf
    simp only [Option.isSome_none, Bool.false_eq_true, if_false, Nat.add_zero] at hf ⊢
    rw [hf]
    cases s.varkw <;> simp

theorem stepPos_core (s : Sig) (a : Nat) (ps : Pairs) (amb : List Nat) :
    stepPos s.toFormals { fi := min a s.lns, pairs := ps, ambiguous := amb } a =
      { fi := min (a + 1) s.lns,
        pairs := ps ++ (match posTarget s a with | some t => [(t, a)] | none => []),
        ambiguous := amb } := by
  unfold stepPos posTarget
  by_cases h : a < s.lns
  · obtain ⟨k, hk, hs⟩ := kindAt_lt_lns s h
    have hm : min a s.lns = a := by omega
    have hm' : min (a + 1) s.lns = a + 1 := by omega
    simp [hm, hm', hk, hs, h, St.add]
  · have hm : min a s.lns = s.lns := by omega
    have hm' : min (a + 1) s.lns = s.lns := by omega
    simp only [hm, hm', kindAt_lns, h, if_false]
    cases hv : s.varargs with
    | some v => simp [FK.isStar, St.add, Sig.lns, hv]
    | none =>
      cases hw : s.varkw with
      | some w => simp [FK.isStar]
      | none => simp

theorem mapLoop_pos (s : Sig) (rest : List Actual) : ∀ (k a : Nat) (ps : Pairs) (amb : List Nat),
    mapLoop s.toFormals (List.replicate k .pos ++ rest) a { fi := min a s.lns, pairs := ps, ambiguous := amb } =
      mapLoop s.toFormals rest (a + k)
        { fi := min (a + k) s.lns, pairs := ps ++ posPairs s a k, ambiguous := amb } := by
  intro k
  induction k with
  | zero => intro a ps amb; simp [posPairs]
  | succ k ih =>
    intro a ps amb
    simp only [List.replicate_succ, List.cons_append, mapLoop, step, stepPos_core]
    rw [ih]
    simp only [posPairs, List.append_assoc]
    have : a + 1 + k = a + (k + 1) := by omega
    rw [this]

theorem mapLoop_kw (F : List Formal) : ∀ (kws : List Name) (a fi : Nat) (ps : Pairs) (amb : List Nat),
    mapLoop F (kws.map .named) a { fi := fi, pairs := ps, ambiguous := amb } =
      { fi := fi, pairs := ps ++ kwPairs F a kws, ambiguous := amb } := by
  intro kws
  induction kws with
  | nil => intro a fi ps amb; simp [mapLoop, kwPairs]
  | cons x xs ih =>
    intro a fi ps amb
    simp only [List.map_cons, mapLoop, step, stepNamed_eq]
    cases hk : kwTarget F x with
    | none => simp only [ih, kwPairs, hk, List.nil_append]
    | some t => simp only [St.add, ih, kwPairs, hk, List.append_assoc]

/-- `map_actuals_to_formals` on a core call, in closed form -/
theorem map_core (s : Sig) (npos : Nat) (kws : List Name) :
    mapActualsToFormals s.toFormals (coreCall npos kws) =
      posPairs s 0 npos ++ kwPairs s.toFormals npos kws := by
  unfold mapActualsToFormals coreCall
  have h0 : (0 : Nat) = min 0 s.lns := by omega
  simp only
  rw [show ({ fi := 0, pairs := [], ambiguous := [] } : St) = { fi := min 0 s.lns, pairs := [], ambiguous := [] } by rw [← h0]]
  rw [mapLoop_pos, mapLoop_kw]
  simp

/-! ### what the pairs of a core call contain -/

theorem mapped_append (p q : Pairs) (i : Nat) : mapped (p ++ q) i = mapped p i ++ mapped q i := by
  simp [mapped, List.filterMap_append]

theorem mapped_nil (i : Nat) : mapped [] i = [] := rfl

theorem mapped_single (t a i : Nat) : mapped [(t, a)] i = if t = i then [a] else [] := by
  simp only [mapped, List.filterMap_cons, List.filterMap_nil]
  split <;> rename_i h <;> split <;> simp_all

theorem mem_mapped {ps : Pairs} {i b : Nat} : b ∈ mapped ps i ↔ (i, b) ∈ ps := by
  simp only [mapped, List.mem_filterMap]
  constructor
  · rintro ⟨⟨t, c⟩, hm, h⟩
    simp only at h
    split at h
    · rename_i ht; injection h with h; subst h; subst ht; exact hm
    · cases h
  · intro h; exact ⟨(i, b), h, by simp⟩

theorem countActual_eq_zero {ps : Pairs} {b : Nat} : countActual ps b = 0 ↔ ∀ t, (t, b) ∉ ps := by
  unfold countActual
  rw [List.length_eq_zero_iff, List.filter_eq_nil_iff]
  constructor
  · intro h t hm; have := h (t, b) hm; simp at this
  · rintro h ⟨t, c⟩ hm
    simp only [decide_eq_true_eq]
    intro hc; subst hc; exact h t hm

theorem mem_posPairs (s : Sig) : ∀ (k a t b : Nat),
    (t, b) ∈ posPairs s a k ↔ (a ≤ b ∧ b < a + k ∧ posTarget s b = some t) := by
  intro k
  induction k with
  | zero => intro a t b; simp [posPairs]; omega
  | succ k ih =>
    intro a t b
    simp only [posPairs, List.mem_append, ih]
    constructor
    · rintro (h | ⟨h1, h2, h3⟩)
      · cases hp : posTarget s a with
        | none => simp [hp] at h
        | some t' =>
          simp [hp] at h
          obtain ⟨rfl, rfl⟩ := h
          exact ⟨Nat.le_refl _, by omega, hp⟩
      · exact ⟨by omega, by omega, h3⟩
    · rintro ⟨h1, h2, h3⟩
      by_cases hb : b = a
      · subst hb; left; simp [h3]
      · right; exact ⟨by omega, by omega, h3⟩

theorem mem_kwPairs (F : List Formal) : ∀ (kws : List Name) (a t b : Nat),
    (t, b) ∈ kwPairs F a kws ↔ ∃ x, kws[b - a]? = some x ∧ a ≤ b ∧ kwTarget F x = some t := by
  intro kws
  induction kws with
  | nil => intro a t b; simp [kwPairs]
  | cons y ys ih =>
    intro a t b
    simp only [kwPairs, List.mem_append, ih]
    constructor
    · rintro (h | ⟨x, h1, h2, h3⟩)
      · cases hp : kwTarget F y with
        | none => simp [hp] at h
        | some t' =>
          simp [hp] at h
          obtain ⟨rfl, rfl⟩ := h
          exact ⟨y, by simp, Nat.le_refl _, hp⟩
      · refine ⟨x, ?_, by omega, h3⟩
        have : b - a = (b - (a + 1)) + 1 := by omega
        rw [this]; simpa using h1
    · rintro ⟨x, h1, h2, h3⟩
      by_cases hb : b = a
      · subst hb; left
        simp at h1; subst h1; simp [h3]
      · right
        refine ⟨x, ?_, by omega, h3⟩
        have : b - a = (b - (a + 1)) + 1 := by omega
        rw [this] at h1; simpa using h1

theorem posTarget_eq_some_lt (s : Sig) {a i : Nat} (hi : i < s.lns) : posTarget s a = some i ↔ a = i := by
  unfold posTarget
  by_cases h : a < s.lns
  · simp [h]
  · simp only [h, if_false]
    unfold Sig.lns at hi h
    cases hv : s.varargs with
    | some v => simp [hv] at hi h ⊢; omega
    | none => simp [hv] at hi h ⊢; omega

theorem posTarget_ne_gt (s : Sig) {a i : Nat} (hi : s.lns < i) : posTarget s a ≠ some i := by
  unfold posTarget
  by_cases h : a < s.lns
  · simp [h]; omega
  · simp only [h, if_false]
    unfold Sig.lns at hi h
    cases hv : s.varargs with
    | some v => simp [hv] at hi h ⊢; omega
    | none => simp

theorem mapped_posPairs_lt (s : Sig) {i : Nat} (hi : i < s.lns) : ∀ (k a : Nat),
    mapped (posPairs s a k) i = if a ≤ i ∧ i < a + k then [i] else [] := by
  intro k
  induction k with
  | zero => intro a; simp [posPairs, mapped]
  | succ k ih =>
    intro a
    simp only [posPairs, mapped_append, ih]
    cases hp : posTarget s a with
    | none =>
      have : a ≠ i := fun e => by rw [(posTarget_eq_some_lt s hi).2 e] at hp; cases hp
      simp only [mapped_nil, List.nil_append]
      split <;> split <;> first | rfl | omega
    | some t =>
      simp only [mapped_single]
      by_cases hti : t = i
      · subst hti
        have : a = t := (posTarget_eq_some_lt s hi).1 hp
        subst this
        simp
        intro h; omega
      · have : a ≠ i := fun e => hti (by rw [(posTarget_eq_some_lt s hi).2 e] at hp; injection hp with hp; exact hp.symm)
        simp only [hti, if_false, List.nil_append]
        split <;> split <;> first | rfl | omega

theorem mapped_posPairs_gt (s : Sig) {i : Nat} (hi : s.lns < i) (k a : Nat) :
    mapped (posPairs s a k) i = [] := by
  apply List.eq_nil_iff_forall_not_mem.2
  intro b hb
  rw [mem_mapped, mem_posPairs] at hb
  exact posTarget_ne_gt s hi hb.2.2

/-- shape of the keyword part of `formal_to_actual[i]` when at most one keyword can target `i` -/
theorem mapped_kwPairs_shape (F : List Formal) (i : Nat)
    (hinj : ∀ x y, kwTarget F x = some i → kwTarget F y = some i → x = y) :
    ∀ (kws : List Name) (a : Nat), kws.Nodup →
      (mapped (kwPairs F a kws) i = [] ∧ ∀ x ∈ kws, kwTarget F x ≠ some i) ∨
      (∃ b x, mapped (kwPairs F a kws) i = [b] ∧ a ≤ b ∧ b < a + kws.length ∧ x ∈ kws ∧
        kwTarget F x = some i) := by
  intro kws
  induction kws with
  | nil => intro a _; left; simp [kwPairs, mapped]
  | cons y ys ih =>
    intro a hnd
    rw [List.nodup_cons] at hnd
    simp only [kwPairs, mapped_append]
    by_cases hy : kwTarget F y = some i
    · right
      have htail : ∀ x ∈ ys, kwTarget F x ≠ some i := by
        intro x hx hxi
        have := hinj x y hxi hy
        exact hnd.1 (this ▸ hx)
      have : mapped (kwPairs F (a + 1) ys) i = [] := by
        apply List.eq_nil_iff_forall_not_mem.2
        intro b hb
        rw [mem_mapped, mem_kwPairs] at hb
        obtain ⟨x, hx, _, hxi⟩ := hb
        exact htail x (List.mem_iff_getElem?.2 ⟨_, hx⟩) hxi
      refine ⟨a, y, ?_, Nat.le_refl _, by simp, List.mem_cons_self .., hy⟩
      simp [hy, mapped_single, this]
    · have hhead : ∀ r, mapped ((match kwTarget F y with | some t => [(t, a)] | none => []) ++ r) i = mapped r i := by
        intro r
        cases hk : kwTarget F y with
        | none => rfl
        | some t =>
          have : t ≠ i := fun e => hy (by rw [hk, e])
          show mapped ([(t, a)] ++ r) i = mapped r i
          rw [mapped_append, mapped_single]; simp [this]
      have hm : mapped (kwPairs F a (y :: ys)) i = mapped (kwPairs F (a + 1) ys) i := by
        simp only [kwPairs]; exact hhead _
      rw [← mapped_append, ← kwPairs.eq_2 F a y ys, hm]
      rcases ih (a + 1) hnd.2 with ⟨h1, h2⟩ | ⟨b, x, h1, h2, h3, h4, h5⟩
      · left
        refine ⟨h1, ?_⟩
        intro x hx
        rcases List.mem_cons.1 hx with rfl | hx
        · exact hy
        · exact h2 x hx
      · right
        exact ⟨b, x, h1, by omega, by simp; omega, List.mem_cons_of_mem _ h4, h5⟩

/-! ### the actuals of a core call -/

theorem coreCall_pos {npos : Nat} {kws : List Name} {b : Nat} (h : b < npos) :
    (coreCall npos kws)[b]? = some .pos := by
  unfold coreCall
  rw [List.getElem?_append_left (by simpa using h)]
  simp [h]

theorem coreCall_kw {npos : Nat} {kws : List Name} {b : Nat} (h : npos ≤ b) :
    (coreCall npos kws)[b]? = (kws[b - npos]?).map .named := by
  unfold coreCall
  rw [List.getElem?_append_right (by simpa using h)]
  simp

theorem coreCall_cases {npos : Nat} {kws : List Name} {b : Nat} {act : Actual}
    (h : (coreCall npos kws)[b]? = some act) :
    (b < npos ∧ act = .pos) ∨ (npos ≤ b ∧ ∃ x, kws[b - npos]? = some x ∧ act = .named x) := by
  by_cases hb : b < npos
  · rw [coreCall_pos hb] at h; injection h with h; exact Or.inl ⟨hb, h.symm⟩
  · rw [coreCall_kw (by omega)] at h
    cases hx : kws[b - npos]? with
    | none => simp [hx] at h
    | some x => simp [hx] at h; exact Or.inr ⟨by omega, x, rfl, h.symm⟩

/-! ### the diagnostics loops -/

theorem checkFormalsLoop_nil_iff (acts : List Actual) (ps : Pairs) (u : Bool) :
    ∀ (fs : List Formal) (i : Nat),
      checkFormalsLoop acts ps u fs i = [] ↔
        ∀ j f, fs[j]? = some f → checkFormal acts ps u (i + j) f = [] := by
  intro fs
  induction fs with
  | nil => intro i; simp [checkFormalsLoop]
  | cons g gs ih =>
    intro i
    simp only [checkFormalsLoop, List.append_eq_nil_iff, ih]
    constructor
    · rintro ⟨h1, h2⟩ j f hj
      cases j with
      | zero => simp at hj; subst hj; simpa using h1
      | succ j =>
        simp at hj
        have := h2 j f hj
        have e : i + 1 + j = i + (j + 1) := by omega
        rw [e] at this; exact this
    · intro h
      refine ⟨by simpa using h 0 g (by simp), ?_⟩
      intro j f hj
      have := h (j + 1) f (by simpa using hj)
      have e : i + 1 + j = i + (j + 1) := by omega
      rw [e]; exact this

theorem checkExtraOne_flag (F : List Formal) (ps : Pairs) (i : Nat) (a : Actual)
    (h : (checkExtraOne F ps i a).1 = []) : (checkExtraOne F ps i a).2 = false := by
  unfold checkExtraOne at h ⊢
  simp only at h ⊢
  split
  · rename_i hc
    rw [if_pos hc] at h
    cases a <;> simp at h
  · rename_i hc
    rw [if_neg hc] at h
    split
    · rename_i hc2
      rw [if_pos hc2] at h
      cases a with
      | pos => rfl
      | named x => rfl
      | star len =>
        cases len with
        | none => rfl
        | some l =>
          simp only at h ⊢
          split
          · rfl
          · rfl
      | star2 keys =>
        cases keys with
        | none => rfl
        | some ks =>
          simp only at h ⊢
          split
          · rename_i hl; rw [if_pos hl] at h; simp at h
          · rfl
    · rfl

theorem checkExtraLoop_nil_iff (F : List Formal) (ps : Pairs) : ∀ (acts : List Actual) (a : Nat),
    (checkExtraLoop F ps acts a).1 = [] ↔
      ∀ j act, acts[j]? = some act → (checkExtraOne F ps (a + j) act).1 = [] := by
  intro acts
  induction acts with
  | nil => intro a; simp [checkExtraLoop]
  | cons x xs ih =>
    intro a
    simp only [checkExtraLoop, List.append_eq_nil_iff, ih]
    constructor
    · rintro ⟨h1, h2⟩ j act hj
      cases j with
      | zero => simp at hj; subst hj; simpa using h1
      | succ j =>
        simp at hj
        have := h2 j act hj
        have e : a + 1 + j = a + (j + 1) := by omega
        rw [e] at this; exact this
    · intro h
      refine ⟨by simpa using h 0 x (by simp), ?_⟩
      intro j act hj
      have := h (j + 1) act (by simpa using hj)
      have e : a + 1 + j = a + (j + 1) := by omega
      rw [e]; exact this

theorem checkExtraLoop_flag (F : List Formal) (ps : Pairs) : ∀ (acts : List Actual) (a : Nat),
    (checkExtraLoop F ps acts a).1 = [] → (checkExtraLoop F ps acts a).2 = false := by
  intro acts
  induction acts with
  | nil => intro a _; rfl
  | cons x xs ih =>
    intro a h
    simp only [checkExtraLoop, List.append_eq_nil_iff] at h ⊢
    rw [checkExtraOne_flag F ps a x h.1, ih (a + 1) h.2]; rfl

theorem mypyErrors_nil_iff (F : List Formal) (acts : List Actual) :
    mypyErrors F acts = [] ↔
      (∀ j act, acts[j]? = some act →
          (checkExtraOne F (mapActualsToFormals F acts) j act).1 = []) ∧
      (∀ i f, F[i]? = some f → checkFormal acts (mapActualsToFormals F acts) false i f = []) := by
  unfold mypyErrors checkArgumentCount checkExtra
  simp only [List.append_eq_nil_iff]
  constructor
  · rintro ⟨h1, h2⟩
    have hf := checkExtraLoop_flag F _ acts 0 h1
    rw [hf] at h2
    refine ⟨?_, ?_⟩
    · intro j act hj
      have := (checkExtraLoop_nil_iff F _ acts 0).1 h1 j act hj
      simpa using this
    · intro i f hi
      have := (checkFormalsLoop_nil_iff acts _ false F 0).1 h2 i f hi
      simpa using this
  · rintro ⟨h1, h2⟩
    have e1 : (checkExtraLoop F (mapActualsToFormals F acts) acts 0).1 = [] := by
      rw [checkExtraLoop_nil_iff]
      intro j act hj; simpa using h1 j act hj
    refine ⟨e1, ?_⟩
    rw [checkExtraLoop_flag F _ acts 0 e1, checkFormalsLoop_nil_iff]
    intro i f hi; simpa using h2 i f hi

theorem extra_pos_nil_iff (F : List Formal) (ps : Pairs) (b : Nat) :
    (checkExtraOne F ps b .pos).1 = [] ↔ countActual ps b ≠ 0 := by
  unfold checkExtraOne
  by_cases h : countActual ps b = 0
  · simp [h, Actual.kind]
  · simp [h, Actual.kind]

theorem extra_named_nil_iff (F : List Formal) (ps : Pairs) (b : Nat) (x : Name) :
    (checkExtraOne F ps b (.named x)).1 = [] ↔ countActual ps b ≠ 0 := by
  unfold checkExtraOne
  by_cases h : countActual ps b = 0
  · simp [h, Actual.kind]
  · simp [h, Actual.kind]

theorem checkFormal_nil_iff (acts : List Actual) (ps : Pairs) (u : Bool) (i : Nat) (f : Formal) :
    checkFormal acts ps u i f = [] ↔
      ¬ (f.kind.isRequired = true ∧ mapped ps i = [] ∧ u = false) ∧
      ¬ (f.kind.isStar = false ∧ isDuplicateMapping acts (mapped ps i) = true) ∧
      ¬ (f.kind.isNamed = true ∧ mapped ps i ≠ [] ∧ firstNotKeyword acts (mapped ps i) = true) := by
  unfold checkFormal
  simp only
  by_cases c1 : (f.kind.isRequired && (mapped ps i).isEmpty && !u) = true
  · rw [if_pos c1]
    have : f.kind.isRequired = true ∧ mapped ps i = [] ∧ u = false := by
      simpa [Bool.and_eq_true, List.isEmpty_iff, and_assoc] using c1
    constructor
    · intro h; split at h <;> simp at h
    · intro h; exact absurd this h.1
  · rw [if_neg c1]
    have n1 : ¬ (f.kind.isRequired = true ∧ mapped ps i = [] ∧ u = false) := by
      intro h; apply c1; simpa [Bool.and_eq_true, List.isEmpty_iff, and_assoc] using h
    by_cases c2 : (!f.kind.isStar && isDuplicateMapping acts (mapped ps i)) = true
    · rw [if_pos c2]
      have : f.kind.isStar = false ∧ isDuplicateMapping acts (mapped ps i) = true := by
        simpa [Bool.and_eq_true] using c2
      constructor
      · intro h; simp at h
      · intro h; exact absurd this h.2.1
    · rw [if_neg c2]
      have n2 : ¬ (f.kind.isStar = false ∧ isDuplicateMapping acts (mapped ps i) = true) := by
        intro h; apply c2; simpa [Bool.and_eq_true] using h
      by_cases c3 : (f.kind.isNamed && !(mapped ps i).isEmpty && firstNotKeyword acts (mapped ps i)) = true
      · rw [if_pos c3]
        have : f.kind.isNamed = true ∧ mapped ps i ≠ [] ∧ firstNotKeyword acts (mapped ps i) = true := by
          simpa [Bool.and_eq_true, List.isEmpty_iff, and_assoc] using c3
        constructor
        · intro h; simp at h
        · intro h; exact absurd this h.2.2
      · rw [if_neg c3]
        have n3 : ¬ (f.kind.isNamed = true ∧ mapped ps i ≠ [] ∧ firstNotKeyword acts (mapped ps i) = true) := by
          intro h; apply c3; simpa [Bool.and_eq_true, List.isEmpty_iff, and_assoc] using h
        exact ⟨fun _ => ⟨n1, n2, n3⟩, fun _ => rfl⟩

/-! ### duplicates / first-actual tests on the shapes that occur -/

theorem dup_nil (acts : List Actual) : isDuplicateMapping acts [] = false := by
  simp [isDuplicateMapping]

theorem dup_single (acts : List Actual) (b : Nat) : isDuplicateMapping acts [b] = false := by
  simp [isDuplicateMapping]

theorem dup_pair (acts : List Actual) (i b : Nat) (hi : acts[i]? = some .pos) :
    isDuplicateMapping acts [i, b] = true := by
  simp [isDuplicateMapping, actualKindAt, hi, Actual.kind]

theorem fnk_pos (acts : List Actual) (i : Nat) (r : List Nat) (hi : acts[i]? = some .pos) :
    firstNotKeyword acts (i :: r) = true := by
  simp [firstNotKeyword, actualKindAt, hi, Actual.kind]

theorem fnk_named (acts : List Actual) (b : Nat) (x : Name) (r : List Nat)
    (hb : acts[b]? = some (.named x)) : firstNotKeyword acts (b :: r) = false := by
  simp [firstNotKeyword, actualKindAt, hb, Actual.kind]

/-! ### formals of a signature, by class -/

theorem lns_ge (s : Sig) : s.nargs ≤ s.lns := by
  unfold Sig.lns; split <;> omega

theorem formal_classify (s : Sig) {i : Nat} {f : Formal} (h : s.toFormals[i]? = some f) :
    (i < s.nargs ∧ f.kind = s.posKind i) ∨
    (i = s.nargs ∧ s.varargs.isSome = true ∧ f.kind = .star) ∨
    (∃ j, ∃ hj : j < s.kwonly.length, i = s.nargs + s.sv + j ∧
        f.kind = (if (s.kwonly[j]).2 then .namedOpt else .named)) ∨
    (i = s.nargs + s.sv + s.kwonly.length ∧ f.kind = .star2) := by
  have hlen : i < s.toFormals.length := (List.getElem?_eq_some_iff.1 h).1
  rw [toFormals_length] at hlen
  by_cases h1 : i < s.nargs
  · obtain ⟨g, hg, hk, _⟩ := formal_pos s h1
    rw [hg] at h; injection h with h; subst h
    exact Or.inl ⟨h1, hk⟩
  · by_cases h2 : i < s.nargs + s.sv
    · -- the *args formal
      have hsv : s.sv = 1 := by unfold Sig.sv at h2 ⊢; split at h2 <;> simp_all; omega
      have hi : i = s.nargs := by omega
      cases hv : s.varargs with
      | none => simp [Sig.sv, hv] at hsv
      | some v =>
        have := formal_star s hv
        rw [← hi, h] at this; injection this with this; subst this
        exact Or.inr (Or.inl ⟨hi, by simp, rfl⟩)
    · by_cases h3 : i < s.nargs + s.sv + s.kwonly.length
      · have hj : i - (s.nargs + s.sv) < s.kwonly.length := by omega
        have := formal_kw s hj
        have e : s.nargs + s.sv + (i - (s.nargs + s.sv)) = i := by omega
        rw [e, h] at this; injection this with this; subst this
        exact Or.inr (Or.inr (Or.inl ⟨_, hj, e.symm, rfl⟩))
      · have hi : i = s.nargs + s.sv + s.kwonly.length := by
          cases hw : s.varkw <;> simp [hw] at hlen <;> omega
        have := formal_star2 s
        rw [← hi, h] at this
        cases hw : s.varkw with
        | none => simp [hw] at this
        | some w =>
          simp [hw] at this; subst this
          exact Or.inr (Or.inr (Or.inr ⟨hi, rfl⟩))

/-! ### keyword targets and CPython's slots -/

theorem star2Index_isSome (s : Sig) : (star2Index s.toFormals).isSome = s.varkw.isSome := by
  rw [star2Index_toFormals]; cases s.varkw <;> simp

theorem kwTarget_ne_none (s : Sig) (hwf : s.WF) (x : Name) :
    kwTarget s.toFormals x ≠ none ↔ (findSlot s x = none → s.varkw.isSome = true) := by
  rw [kwTarget_eq s hwf]
  cases h : findSlot s x with
  | some j => simp
  | none =>
    simp only [forall_const]
    rw [← star2Index_isSome]
    cases star2Index s.toFormals <;> simp

theorem kwTarget_pos_iff (s : Sig) (hwf : s.WF) (x : Name) {i : Nat} (hi : i < s.nargs) :
    kwTarget s.toFormals x = some i ↔ findSlot s x = some i := by
  rw [kwTarget_eq s hwf]
  cases h : findSlot s x with
  | some j =>
    have e : s.formalOfSlot j = if j < s.nargs then j else j + s.sv := rfl
    simp only [Option.some.injEq, e]
    by_cases hlt : j < s.nargs <;> simp only [hlt, if_true, if_false] <;> constructor <;> intro e' <;> omega
  | none =>
    dsimp only
    rw [star2Index_toFormals]
    by_cases hw : s.varkw.isSome = true <;> simp [hw] <;> omega

theorem kwTarget_kw_iff (s : Sig) (hwf : s.WF) (x : Name) {j : Nat} (hj : j < s.kwonly.length) :
    kwTarget s.toFormals x = some (s.nargs + s.sv + j) ↔ findSlot s x = some (s.nargs + j) := by
  rw [kwTarget_eq s hwf]
  cases h : findSlot s x with
  | some j' =>
    have e : s.formalOfSlot j' = if j' < s.nargs then j' else j' + s.sv := rfl
    simp only [Option.some.injEq, e]
    by_cases hlt : j' < s.nargs <;> simp only [hlt, if_true, if_false] <;> constructor <;> intro e' <;> omega
  | none =>
    dsimp only
    rw [star2Index_toFormals]
    by_cases hw : s.varkw.isSome = true <;> simp [hw] <;> omega

/-! ### `formal_to_actual[i]` for the two classes of slot formals -/

theorem mapped_core_pos (s : Sig) (npos : Nat) (kws : List Name) {i : Nat} (hi : i < s.nargs) :
    mapped (posPairs s 0 npos ++ kwPairs s.toFormals npos kws) i =
      (if i < npos then [i] else []) ++ mapped (kwPairs s.toFormals npos kws) i := by
  rw [mapped_append, mapped_posPairs_lt s (Nat.lt_of_lt_of_le hi (lns_ge s))]
  simp

theorem mapped_core_kwf (s : Sig) (npos : Nat) (kws : List Name) {j : Nat} (hj : j < s.kwonly.length) :
    mapped (posPairs s 0 npos ++ kwPairs s.toFormals npos kws) (s.nargs + s.sv + j) =
      (if s.varargs.isSome = false ∧ s.nargs + j < npos then [s.nargs + j] else []) ++
        mapped (kwPairs s.toFormals npos kws) (s.nargs + s.sv + j) := by
  rw [mapped_append]
  congr 1
  cases hv : s.varargs with
  | some v =>
    have hsv : s.sv = 1 := by simp [Sig.sv, hv]
    have : s.lns < s.nargs + s.sv + j := by simp [Sig.lns, hv]; omega
    rw [mapped_posPairs_gt s this]; simp
  | none =>
    have hsv : s.sv = 0 := by simp [Sig.sv, hv]
    have : s.nargs + s.sv + j < s.lns := by simp [Sig.lns, hv]; omega
    rw [mapped_posPairs_lt s this, hsv]; simp

theorem count_core_pos (s : Sig) (npos : Nat) (kws : List Name) {b : Nat} (hb : b < npos) :
    countActual (posPairs s 0 npos ++ kwPairs s.toFormals npos kws) b ≠ 0 ↔ posTarget s b ≠ none := by
  rw [Ne, countActual_eq_zero]
  constructor
  · intro h hn
    apply h
    intro t hm
    rcases List.mem_append.1 hm with hm | hm
    · rw [mem_posPairs] at hm; rw [hn] at hm; cases hm.2.2
    · rw [mem_kwPairs] at hm; obtain ⟨_, _, h2, _⟩ := hm; omega
  · intro h hall
    cases hp : posTarget s b with
    | none => exact h hp
    | some t =>
      exact hall t (List.mem_append_left _ ((mem_posPairs s npos 0 t b).2 ⟨by omega, by omega, hp⟩))

theorem count_core_kw (s : Sig) (npos : Nat) (kws : List Name) {b : Nat} {x : Name} (hb : npos ≤ b)
    (hx : kws[b - npos]? = some x) :
    countActual (posPairs s 0 npos ++ kwPairs s.toFormals npos kws) b ≠ 0 ↔
      kwTarget s.toFormals x ≠ none := by
  rw [Ne, countActual_eq_zero]
  constructor
  · intro h hn
    apply h
    intro t hm
    rcases List.mem_append.1 hm with hm | hm
    · rw [mem_posPairs] at hm; omega
    · rw [mem_kwPairs] at hm
      obtain ⟨y, h1, _, h3⟩ := hm
      rw [hx] at h1; injection h1 with h1; subst h1
      rw [hn] at h3; cases h3
  · intro h hall
    cases hp : kwTarget s.toFormals x with
    | none => exact h hp
    | some t =>
      exact hall t (List.mem_append_right _ ((mem_kwPairs _ kws npos t b).2 ⟨x, hx, hb, hp⟩))

/-! ### mypy's model reports nothing ⇔ `CoreOk` -/

/-- shape of the keyword part for a positional formal -/
theorem kwM_pos (s : Sig) (hwf : s.WF) (npos : Nat) (kws : List Name) (hk : kws.Nodup) {i : Nat}
    (hi : i < s.nargs) :
    (mapped (kwPairs s.toFormals npos kws) i = [] ∧ ∀ x ∈ kws, findSlot s x ≠ some i) ∨
    (∃ b x, mapped (kwPairs s.toFormals npos kws) i = [b] ∧ npos ≤ b ∧ b < npos + kws.length ∧
      x ∈ kws ∧ findSlot s x = some i) := by
  have hinj : ∀ x y, kwTarget s.toFormals x = some i → kwTarget s.toFormals y = some i → x = y := by
    intro x y hx hy
    rw [kwTarget_pos_iff s hwf x hi] at hx
    rw [kwTarget_pos_iff s hwf y hi] at hy
    exact findSlot_inj hx hy
  rcases mapped_kwPairs_shape s.toFormals i hinj kws npos hk with ⟨h1, h2⟩ | ⟨b, x, h1, h2, h3, h4, h5⟩
  · left
    refine ⟨h1, fun x hx hs => h2 x hx ((kwTarget_pos_iff s hwf x hi).2 hs)⟩
  · right
    exact ⟨b, x, h1, h2, h3, h4, (kwTarget_pos_iff s hwf x hi).1 h5⟩

/-- shape of the keyword part for a keyword-only formal -/
theorem kwM_kwf (s : Sig) (hwf : s.WF) (npos : Nat) (kws : List Name) (hk : kws.Nodup) {j : Nat}
    (hj : j < s.kwonly.length) :
    (mapped (kwPairs s.toFormals npos kws) (s.nargs + s.sv + j) = [] ∧
        ∀ x ∈ kws, findSlot s x ≠ some (s.nargs + j)) ∨
    (∃ b x, mapped (kwPairs s.toFormals npos kws) (s.nargs + s.sv + j) = [b] ∧ npos ≤ b ∧
      b < npos + kws.length ∧ x ∈ kws ∧ findSlot s x = some (s.nargs + j)) := by
  have hinj : ∀ x y, kwTarget s.toFormals x = some (s.nargs + s.sv + j) →
      kwTarget s.toFormals y = some (s.nargs + s.sv + j) → x = y := by
    intro x y hx hy
    rw [kwTarget_kw_iff s hwf x hj] at hx
    rw [kwTarget_kw_iff s hwf y hj] at hy
    exact findSlot_inj hx hy
  rcases mapped_kwPairs_shape s.toFormals _ hinj kws npos hk with ⟨h1, h2⟩ | ⟨b, x, h1, h2, h3, h4, h5⟩
  · left
    refine ⟨h1, fun x hx hs => h2 x hx ((kwTarget_kw_iff s hwf x hj).2 hs)⟩
  · right
    exact ⟨b, x, h1, h2, h3, h4, (kwTarget_kw_iff s hwf x hj).1 h5⟩

theorem coreCall_named_at {npos : Nat} {kws : List Name} {b : Nat} (h1 : npos ≤ b)
    (h2 : b < npos + kws.length) : ∃ x, (coreCall npos kws)[b]? = some (.named x) := by
  rw [coreCall_kw h1]
  have : b - npos < kws.length := by omega
  exact ⟨kws[b - npos], by simp [this]⟩

theorem posKind_required (s : Sig) (i : Nat) : (s.posKind i).isRequired = true ↔ i + s.ndef < s.nargs := by
  unfold Sig.posKind; split <;> simp [FK.isRequired, *]

theorem mypy_ok_of_coreOk (s : Sig) (hwf : s.WF) (npos : Nat) (kws : List Name) (hk : kws.Nodup)
    (ok : CoreOk s npos kws) : mypyErrors s.toFormals (coreCall npos kws) = [] := by
  rw [mypyErrors_nil_iff, map_core]
  constructor
  · -- no extra actuals
    intro b act hb
    rcases coreCall_cases hb with ⟨hlt, rfl⟩ | ⟨hge, x, hx, rfl⟩
    · rw [extra_pos_nil_iff, count_core_pos s npos kws hlt]
      unfold posTarget
      rcases ok.a with h | h
      · have := lns_ge s
        have : b < s.lns := by omega
        simp [this]
      · split <;> simp [h]
    · rw [extra_named_nil_iff, count_core_kw s npos kws hge hx, kwTarget_ne_none s hwf]
      exact ok.b x (List.mem_iff_getElem?.2 ⟨_, hx⟩)
  · -- every formal is fine
    intro i f hf
    rw [checkFormal_nil_iff]
    rcases formal_classify s hf with ⟨hi, hkind⟩ | ⟨_, _, hkind⟩ | ⟨j, hj, hi, hkind⟩ | ⟨_, hkind⟩
    · -- positional formal
      have hpos : ∀ {c : Nat}, c < npos → (coreCall npos kws)[c]? = some .pos := fun h => coreCall_pos h
      rw [mapped_core_pos s npos kws hi]
      have hns : f.kind.isStar = false := by
        rcases posKind_cases s i with h | h <;> simp [hkind, h, FK.isStar]
      have hnn : f.kind.isNamed = false := by
        rcases posKind_cases s i with h | h <;> simp [hkind, h, FK.isNamed]
      rcases kwM_pos s hwf npos kws hk hi with ⟨hm, hno⟩ | ⟨b, x, hm, hb1, hb2, hx, hxs⟩
      · rw [hm]
        refine ⟨?_, ?_, by simp [hnn]⟩
        · rintro ⟨hreq, hemp, _⟩
          rw [hkind, posKind_required] at hreq
          rcases ok.d i (by omega) with h | ⟨x, hx, hxs⟩
          · simp [h] at hemp
          · exact hno x hx hxs
        · rintro ⟨_, hdup⟩
          split at hdup <;> simp [dup_nil, dup_single] at hdup
      · rw [hm]
        have hci := ok.c x hx i hxs
        have hnot : ¬ i < npos := by omega
        simp only [hnot, if_false, List.nil_append]
        refine ⟨by simp, by simp [dup_single], by simp [hnn]⟩
    · -- *args
      simp [hkind, FK.isRequired, FK.isStar, FK.isNamed]
    · -- keyword-only formal
      subst hi
      rw [mapped_core_kwf s npos kws hj]
      have hposM : ¬ (s.varargs.isSome = false ∧ s.nargs + j < npos) := by
        rintro ⟨h1, h2⟩
        rcases ok.a with h | h
        · omega
        · rw [h] at h1; cases h1
      simp only [hposM, if_false, List.nil_append]
      have hns : f.kind.isStar = false := by rw [hkind]; split <;> simp [FK.isStar]
      rcases kwM_kwf s hwf npos kws hk hj with ⟨hm, hno⟩ | ⟨b, x, hm, hb1, hb2, hx, hxs⟩
      · rw [hm]
        refine ⟨?_, by simp [dup_nil], by simp⟩
        rintro ⟨hreq, _, _⟩
        have hnd : (s.kwonly[j]).2 = false := by
          rw [hkind] at hreq
          cases hd : (s.kwonly[j]).2 <;> simp [hd, FK.isRequired] at hreq ⊢
        obtain ⟨x, hx, hxs⟩ := ok.e j hj hnd
        exact hno x hx hxs
      · rw [hm]
        obtain ⟨y, hy⟩ := coreCall_named_at hb1 hb2
        refine ⟨by simp, by simp [dup_single], ?_⟩
        rintro ⟨_, _, hfn⟩
        rw [fnk_named _ b y [] hy] at hfn; cases hfn
    · -- **kwargs
      simp [hkind, FK.isRequired, FK.isStar, FK.isNamed]

theorem coreOk_of_mypy_ok (s : Sig) (hwf : s.WF) (npos : Nat) (kws : List Name) (hk : kws.Nodup)
    (h : mypyErrors s.toFormals (coreCall npos kws) = []) : CoreOk s npos kws := by
  rw [mypyErrors_nil_iff, map_core] at h
  obtain ⟨hex, hfo⟩ := h
  have hposAt : ∀ {c : Nat}, c < npos → (coreCall npos kws)[c]? = some .pos := fun h => coreCall_pos h
  -- (a) first: it is used by the other clauses
  have ha : npos ≤ s.nargs ∨ s.varargs.isSome = true := by
    by_cases hv : s.varargs.isSome = true
    · exact Or.inr hv
    · left
      apply Nat.le_of_not_lt
      intro hgt
      have hvn : s.varargs = none := by cases hvv : s.varargs <;> simp [hvv] at hv ⊢
      have hsv : s.sv = 0 := by simp [Sig.sv, hvn]
      by_cases hK : s.kwonly.length = 0
      · -- the positional actual number nargs is mapped nowhere
        have h1 := hex s.nargs .pos (hposAt hgt)
        rw [extra_pos_nil_iff, count_core_pos s npos kws hgt] at h1
        apply h1
        simp [posTarget, Sig.lns, hvn, hK]
      · -- it lands on the first keyword-only formal
        have hj : 0 < s.kwonly.length := by omega
        have hf := formal_kw s hj
        have h1 := hfo _ _ hf
        rw [checkFormal_nil_iff, mapped_core_kwf s npos kws hj] at h1
        have hc : s.varargs.isSome = false ∧ s.nargs + 0 < npos := ⟨by simp [hvn], by omega⟩
        simp only [hc, and_self, if_true] at h1
        have hnamed : (if (s.kwonly[0]).2 = true then FK.namedOpt else FK.named).isNamed = true := by
          split <;> rfl
        have hnstar : (if (s.kwonly[0]).2 = true then FK.namedOpt else FK.named).isStar = false := by
          split <;> rfl
        have hp0 : (coreCall npos kws)[s.nargs + 0]? = some .pos := hposAt (by omega)
        rcases kwM_kwf s hwf npos kws hk hj with ⟨hm, _⟩ | ⟨b, x, hm, _, _, _, _⟩
        · rw [hm] at h1
          apply h1.2.2
          exact ⟨hnamed, by simp, fnk_pos _ _ _ hp0⟩
        · rw [hm] at h1
          apply h1.2.1
          exact ⟨hnstar, dup_pair _ _ _ hp0⟩
  refine ⟨ha, ?_, ?_, ?_, ?_⟩
  · -- (b)
    intro x hx
    obtain ⟨c, hc⟩ := List.mem_iff_getElem?.1 hx
    have hact : (coreCall npos kws)[npos + c]? = some (.named x) := by
      rw [coreCall_kw (by omega)]; simp [hc]
    have h1 := hex _ _ hact
    rw [extra_named_nil_iff, count_core_kw s npos kws (by omega) (by simpa using hc),
      kwTarget_ne_none s hwf] at h1
    exact h1
  · -- (c)
    intro x hx j hjs
    apply Nat.le_of_not_lt
    intro hlt
    have hj : j < s.nargs := by omega
    obtain ⟨f, hf, hkind, _⟩ := formal_pos s hj
    have h1 := hfo _ _ hf
    rw [checkFormal_nil_iff, mapped_core_pos s npos kws hj] at h1
    have hjn : j < npos := by omega
    simp only [hjn, if_true] at h1
    have hns : f.kind.isStar = false := by
      rcases posKind_cases s j with h | h <;> simp [hkind, h, FK.isStar]
    rcases kwM_pos s hwf npos kws hk hj with ⟨_, hno⟩ | ⟨b, y, hm, _, _, _, _⟩
    · exact hno x hx hjs
    · rw [hm] at h1
      exact h1.2.1 ⟨hns, dup_pair _ _ _ (hposAt hjn)⟩
  · -- (d)
    intro i hi
    have hin : i < s.nargs := by omega
    obtain ⟨f, hf, hkind, _⟩ := formal_pos s hin
    have h1 := hfo _ _ hf
    rw [checkFormal_nil_iff, mapped_core_pos s npos kws hin] at h1
    by_cases hlt : i < npos
    · exact Or.inl hlt
    · right
      simp only [hlt, if_false, List.nil_append] at h1
      rcases kwM_pos s hwf npos kws hk hin with ⟨hm, _⟩ | ⟨b, x, _, _, _, hx, hxs⟩
      · exfalso
        apply h1.1
        refine ⟨?_, hm, by simp⟩
        rw [hkind, posKind_required]; omega
      · exact ⟨x, hx, hxs⟩
  · -- (e)
    intro j hj hreq
    have hf := formal_kw s hj
    have h1 := hfo _ _ hf
    rw [checkFormal_nil_iff, mapped_core_kwf s npos kws hj] at h1
    have hposM : ¬ (s.varargs.isSome = false ∧ s.nargs + j < npos) := by
      rintro ⟨h1', h2⟩
      rcases ha with h | h
      · omega
      · rw [h] at h1'; cases h1'
    simp only [hposM, if_false, List.nil_append] at h1
    rcases kwM_kwf s hwf npos kws hk hj with ⟨hm, _⟩ | ⟨b, x, _, _, _, hx, hxs⟩
    · exfalso
      apply h1.1
      refine ⟨?_, hm, by simp⟩
      simp [hreq, FK.isRequired]
    · exact ⟨x, hx, hxs⟩

theorem mypy_ok_iff (s : Sig) (hwf : s.WF) (npos : Nat) (kws : List Name) (hk : kws.Nodup) :
    mypyErrors s.toFormals (coreCall npos kws) = [] ↔ CoreOk s npos kws :=
  ⟨coreOk_of_mypy_ok s hwf npos kws hk, mypy_ok_of_coreOk s hwf npos kws hk⟩

/-! ### the call site on core calls -/

theorem evalCall_pos (rest : List Actual) : ∀ (k n : Nat) (acc : List Name),
    evalCall (List.replicate k .pos ++ rest) n acc = evalCall rest (n + k) acc := by
  intro k
  induction k with
  | zero => intro n acc; simp
  | succ k ih =>
    intro n acc
    simp only [List.replicate_succ, List.cons_append, evalCall, ih]
    congr 1; omega

theorem evalCall_kws : ∀ (kws : List Name) (n : Nat) (acc : List Name), (acc ++ kws).Nodup →
    evalCall (kws.map .named) n acc = some (.ok (n, acc ++ kws)) := by
  intro kws
  induction kws with
  | nil => intro n acc _; simp [evalCall]
  | cons x xs ih =>
    intro n acc hnd
    have hx : acc.contains x = false := by
      have := (List.nodup_append.1 hnd).2.2
      cases hc : acc.contains x with
      | false => rfl
      | true =>
        have hm : x ∈ acc := by simpa using hc
        exact absurd rfl (this x hm x (List.mem_cons_self ..))
    simp only [List.map_cons, evalCall, mergeKeys, hx]
    have : (acc ++ [x] ++ xs).Nodup := by simpa using hnd
    rw [show (if false = true then Except.error (PyErr.kwDup x) else Except.ok (acc ++ [x]))
          = (Except.ok (acc ++ [x]) : Except PyErr (List Name)) from rfl]
    simp only
    rw [ih n (acc ++ [x]) this]
    simp

theorem pyCall_core (s : Sig) (npos : Nat) (kws : List Name) (hk : kws.Nodup) :
    pyCall s (coreCall npos kws) = some (pyBind s npos kws) := by
  unfold pyCall coreCall
  rw [evalCall_pos, evalCall_kws kws _ [] (by simpa using hk)]
  simp

end PyBind
