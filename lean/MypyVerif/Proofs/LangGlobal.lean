import MypyVerif.Proofs.LangOps
/-
What `tc P = ok tm` says about every definition of the program (`Typed`), and dynamic dispatch: the method
found at run time along the MRO of the receiver's class is an override — transitively checked by
`check_method_override` — of the one the checker looked up from the static type.
-/
namespace Lang

/-- the body of a function / method has been checked, its probe records are in `tm`, and it can fall off the
    end only when it is declared `-> None` -/
def FuncOK (P : Prog) (tm : Recs) (self : Option Nat) (fd : FuncDef) : Prop :=
  ∃ r, tcS tcFuel { P := P, decl := selfTys self ++ fd.params ++ fd.locals, ret := fd.ret, self := self } (some []) fd.body = .ok r
    ∧ (∀ x ∈ r.recs, x ∈ tm) ∧ (r.out.isSome = true → fd.ret = [.none]) ∧ r.brks = [] ∧ r.conts = []

theorem FuncOK.mono {P : Prog} {tm tm' : Recs} {self : Option Nat} {fd : FuncDef} (h : FuncOK P tm self fd)
    (hs : ∀ x ∈ tm, x ∈ tm') : FuncOK P tm' self fd := by
  obtain ⟨r, h1, h2, h3⟩ := h
  exact ⟨r, h1, fun x hx => hs x (h2 x hx), h3⟩

theorem tcFunc_ok {P : Prog} {self : Option Nat} {fd : FuncDef} {recs : Recs} (h : tcFunc P self fd = .ok recs) :
    FuncOK P recs self fd := by
  unfold tcFunc at h
  simp only [bind_ok, req_ok] at h
  obtain ⟨r, hr, _, _, _, hbc, h2⟩ := h
  simp only [Bool.and_eq_true, List.isEmpty_iff] at hbc
  refine ⟨r, hr, ?_, ?_, hbc.1, hbc.2⟩
  · cases h1 : r.out with
    | none => rw [h1] at h2; simp only [pure_ok] at h2; subst h2; exact fun x hx => hx
    | some _ =>
      rw [h1] at h2; simp only [bind_ok, req_ok, pure_ok] at h2
      obtain ⟨_, _, h3⟩ := h2; subst h3; exact fun x hx => hx
  · intro hs
    cases h1 : r.out with
    | none => rw [h1] at hs; simp at hs
    | some _ =>
      rw [h1] at h2; simp only [bind_ok, req_ok, pure_ok] at h2
      obtain ⟨_, h3, _⟩ := h2
      simpa using h3

theorem tcFuncs_ok {P : Prog} : ∀ (l : List FuncDef) (recs : Recs), tcFuncs P l = .ok recs →
    ∀ (i : Nat) (fd : FuncDef), l[i]? = some fd → FuncOK P recs none fd := by
  intro l
  induction l with
  | nil => intro recs _ i fd h; simp at h
  | cons d r ih =>
    intro recs h i fd hi
    simp only [tcFuncs, bind_ok, pure_ok] at h
    obtain ⟨a, ha, rest, hrest, hr⟩ := h
    subst hr
    cases i with
    | zero => simp at hi; subst hi; exact (tcFunc_ok ha).mono (fun x hx => List.mem_append_left _ hx)
    | succ j =>
      simp at hi
      exact (ih rest hrest j fd hi).mono (fun x hx => List.mem_append_right _ hx)

theorem tcMethods_ok {P : Prog} {c : Nat} {tail : List Nat} : ∀ (l : List (Nat × FuncDef)) (recs : Recs),
    tcMethods P c tail l = .ok recs → ∀ m fd, (m, fd) ∈ l →
      FuncOK P recs (some c) fd ∧ overrideCheck P tail m fd = true := by
  intro l
  induction l with
  | nil => intro recs _ m fd h; simp at h
  | cons p r ih =>
    intro recs h m fd hm
    obtain ⟨m0, fd0⟩ := p
    simp only [tcMethods, bind_ok, pure_ok] at h
    simp only [req_ok] at h
    obtain ⟨rs, hrs, u, hu, rest, hrest, hr⟩ := h
    subst hr
    simp at hm
    rcases hm with ⟨rfl, rfl⟩ | hm
    · exact ⟨(tcFunc_ok hrs).mono (fun x hx => List.mem_append_left _ hx), hu⟩
    · obtain ⟨h1, h2⟩ := ih rest hrest m fd hm
      exact ⟨h1.mono (fun x hx => List.mem_append_right _ hx), h2⟩

/-- what `tcClass` establishes for one class -/
structure ClassTyped (P : Prog) (tm : Recs) (c : Nat) (cd : ClassDef) : Prop where
  init : ∃ recs, tcInit P c cd.init.params cd.init.assigns = .ok recs ∧ ∀ x ∈ recs, x ∈ tm
  meth : ∀ m fd, (m, fd) ∈ cd.methods → FuncOK P tm (some c) fd
  /-- own methods against every definition in `mro[1:]` -/
  over : ∀ m fd, (m, fd) ∈ cd.methods → overrideCheck P (cd.mro.drop 1) m fd = true
  /-- names the class does not define: first definer against the later ones (multiple inheritance) -/
  mi : ∀ m, m ∈ methNames P (cd.mro.drop 1) → miMethOk P cd.methods (cd.mro.drop 1) m = true
  /-- a `__bool__` method takes no argument and returns bool -/
  boolSig : ∀ fd, (boolMeth, fd) ∈ cd.methods → fd.params = [] ∧ fd.ret = [.bool]

theorem ClassTyped.mono {P : Prog} {tm tm' : Recs} {c : Nat} {cd : ClassDef} (h : ClassTyped P tm c cd)
    (hs : ∀ x ∈ tm, x ∈ tm') : ClassTyped P tm' c cd := by
  obtain ⟨⟨r, h1, h2⟩, hm, ho, hmi, hb⟩ := h
  exact ⟨⟨r, h1, fun x hx => hs x (h2 x hx)⟩, fun m fd h => (hm m fd h).mono hs, ho, hmi, hb⟩

theorem tcClass_ok {P : Prog} {c : Nat} {cd : ClassDef} {recs : Recs} (h : tcClass P c cd = .ok recs) :
    ClassTyped P recs c cd := by
  unfold tcClass at h
  simp only [bind_ok, pure_ok, req_ok] at h
  obtain ⟨_, hbs, _, _, _, hmi, _, _, r1, h1, r2, h2, hr⟩ := h
  subst hr
  refine ⟨⟨r1, h1, fun x hx => List.mem_append_left _ hx⟩, ?_, ?_, ?_, ?_⟩
  rotate_left 3
  · intro fd hfd
    simp only [boolSigOk, List.all_eq_true] at hbs
    have := hbs (boolMeth, fd) hfd
    simp at this
    exact ⟨this.1, this.2⟩
  · intro m fd hm
    exact (tcMethods_ok _ _ h2 m fd hm).1.mono (fun x hx => List.mem_append_right _ hx)
  · intro m fd hm
    exact (tcMethods_ok _ _ h2 m fd hm).2
  · intro m hm
    simp only [List.all_eq_true] at hmi
    exact hmi m hm

theorem tcClasses_ok {P : Prog} : ∀ (l : List ClassDef) (c0 : Nat) (recs : Recs), tcClasses P c0 l = .ok recs →
    ∀ (i : Nat) (cd : ClassDef), l[i]? = some cd → ClassTyped P recs (c0 + i) cd := by
  intro l
  induction l with
  | nil => intro c0 recs _ i cd h; simp at h
  | cons d r ih =>
    intro c0 recs h i cd hi
    simp only [tcClasses, bind_ok, pure_ok] at h
    obtain ⟨a, ha, rest, hrest, hr⟩ := h
    subst hr
    cases i with
    | zero => simp at hi; subst hi; exact (tcClass_ok ha).mono (fun x hx => List.mem_append_left _ hx)
    | succ j =>
      simp at hi
      have := (ih (c0 + 1) rest hrest j cd hi).mono (tm' := a ++ rest) (fun x hx => List.mem_append_right _ hx)
      have e : c0 + 1 + j = c0 + (j + 1) := by omega
      rw [e] at this; exact this

/-- everything the soundness proof needs to know about the program -/
structure Typed (P : Prog) (tm : Recs) : Prop where
  wf : WF P
  func : ∀ (f : Nat) (fd : FuncDef), P.funcs[f]? = some fd → FuncOK P tm none fd
  cls : ∀ (c : Nat) (cd : ClassDef), P.classes[c]? = some cd → ClassTyped P tm c cd

theorem typed_of_tc {P : Prog} {tm : Recs} (w : WF P) (h : tc P = .ok tm) : Typed P tm := by
  unfold tc at h
  simp only [bind_ok, pure_ok] at h
  obtain ⟨a, ha, b, hb, hr⟩ := h
  subst hr
  refine ⟨w, ?_, ?_⟩
  · intro f fd hf
    exact (tcFuncs_ok _ _ hb f fd hf).mono (fun x hx => List.mem_append_right _ hx)
  · intro c cd hc
    have := (tcClasses_ok _ 0 _ ha c cd hc).mono (tm' := a ++ b) (fun x hx => List.mem_append_left _ hx)
    simpa using this

theorem Typed.meth {P : Prog} {tm : Recs} (t : Typed P tm) {c m : Nat} {fd : FuncDef} (h : ownMeth P c m = some fd) :
    FuncOK P tm (some c) fd := by
  unfold ownMeth at h
  cases hc : P.classes[c]? with
  | none => simp [hc] at h
  | some cd =>
    simp [hc] at h
    exact (t.cls c cd hc).meth m fd (lookup_mem h)

/-! ## Method override compatibility and dispatch -/

theorem argsFit_sound {P : Prog} (w : WF P) {h : Heap} : ∀ {Ts Us : List Ty} {vs : List Val},
    argsFit P Ts Us = true → ArgsOK P h vs Ts → ArgsOK P h vs Us := by
  intro Ts
  induction Ts with
  | nil =>
    intro Us vs hf ha
    cases Us with
    | nil => exact ha
    | cons _ _ => simp [argsFit] at hf
  | cons T Ts ih =>
    intro Us vs hf ha
    cases Us with
    | nil => simp [argsFit] at hf
    | cons U Us =>
      cases vs with
      | nil => simp [ArgsOK] at ha
      | cons v vs =>
        simp only [argsFit, Bool.and_eq_true] at hf
        simp only [ArgsOK] at ha ⊢
        exact ⟨subTy_sound w hf.1 ha.1, ih hf.2 ha.2⟩

/-- semantic reading of `check_method_override` -/
def SemCompat (P : Prog) (sub sup : FuncDef) : Prop :=
  (∀ h vs, ArgsOK P h vs sup.params → ArgsOK P h vs sub.params) ∧ (∀ h v, hasTy P h v sub.ret → hasTy P h v sup.ret)

theorem SemCompat.refl (P : Prog) (fd : FuncDef) : SemCompat P fd fd := ⟨fun _ _ h => h, fun _ _ h => h⟩

theorem SemCompat.trans {P : Prog} {a b c : FuncDef} (h1 : SemCompat P a b) (h2 : SemCompat P b c) : SemCompat P a c :=
  ⟨fun h vs x => h1.1 h vs (h2.1 h vs x), fun h v x => h2.2 h v (h1.2 h v x)⟩

theorem overrideOk_sem {P : Prog} (w : WF P) {sub sup : FuncDef} (h : overrideOk P sub sup = true) : SemCompat P sub sup := by
  simp only [overrideOk, Bool.and_eq_true] at h
  exact ⟨fun _ _ x => argsFit_sound w h.1 x, fun _ _ x => subTy_sound w h.2 x⟩

theorem mem_definers {P : Prog} {m : Nat} : ∀ {l : List Nat} {k : Nat} {fd : FuncDef},
    (k, fd) ∈ definers P m l ↔ k ∈ l ∧ ownMeth P k m = some fd := by
  intro l
  induction l with
  | nil => intro k fd; simp [definers]
  | cons k0 r ih =>
    intro k fd
    simp only [definers]
    cases ho : ownMeth P k0 m with
    | none =>
      rw [ih]
      constructor
      · rintro ⟨h1, h2⟩; exact ⟨List.mem_cons_of_mem _ h1, h2⟩
      · rintro ⟨h1, h2⟩
        simp at h1
        rcases h1 with rfl | h1
        · rw [ho] at h2; cases h2
        · exact ⟨h1, h2⟩
    | some fd0 =>
      simp only [List.mem_cons, Prod.mk.injEq]
      rw [ih]
      constructor
      · rintro (⟨rfl, rfl⟩ | ⟨h1, h2⟩)
        · exact ⟨Or.inl rfl, ho⟩
        · exact ⟨Or.inr h1, h2⟩
      · rintro ⟨h1 | h1, h2⟩
        · subst h1; rw [ho] at h2; cases h2; exact Or.inl ⟨rfl, rfl⟩
        · exact Or.inr ⟨h1, h2⟩

theorem findMeth_definers {P : Prog} {m : Nat} : ∀ (l : List Nat), findMeth P m l = (definers P m l).head? := by
  intro l
  induction l with
  | nil => rfl
  | cons k r ih =>
    simp only [findMeth, definers]
    cases ownMeth P k m with
    | none => exact ih
    | some fd => rfl

theorem methNames_mem {P : Prog} {m k : Nat} {fd : FuncDef} {l : List Nat} (hk : k ∈ l) (ho : ownMeth P k m = some fd) :
    m ∈ methNames P l := by
  unfold methNames
  rw [List.mem_flatten]
  unfold ownMeth at ho
  cases hkc : P.classes[k]? with
  | none => simp [hkc] at ho
  | some kd =>
    simp [hkc] at ho
    refine ⟨kd.methods.map (·.1), List.mem_map.mpr ⟨k, hk, by simp [hkc]⟩, ?_⟩
    exact List.mem_map.mpr ⟨(m, fd), lookup_mem ho, rfl⟩

/-- dynamic dispatch: the method found along the MRO of the runtime class `c` is compatible with the one the
    checker found from the static class `d` — by the override check of the defining class or the
    multiple-inheritance compatibility check of `c` -/
theorem dispatch {P : Prog} {tm : Recs} (t : Typed P tm) (c d m k0 : Nat) (fd0 : FuncDef) (hs : isSub P c d = true)
    (hl : lookupMeth P d m = some (k0, fd0)) :
    ∃ k fd, lookupMeth P c m = some (k, fd) ∧ isSub P c k = true ∧ ownMeth P k m = some fd ∧ SemCompat P fd fd0 := by
  have w := t.wf
  rw [isSub_iff] at hs
  obtain ⟨hk0d, hown0⟩ := findMeth_some_mem _ _ _ hl
  have hk0c : k0 ∈ mroOf P c := (mro_closed w hs).2 k0 hk0d
  cases hc : P.classes[c]? with
  | none => simp [mroOf_none hc] at hs
  | some cd =>
    obtain ⟨tail, htail⟩ := mro_head w hc
    have hdrop : cd.mro.drop 1 = tail := by rw [← mroOf_eq hc, htail]; rfl
    have ct := t.cls c cd hc
    -- a definer that is an ancestor of another definer was checked by that class's own override check
    have anc : ∀ k fd, ownMeth P k m = some fd → k0 ∈ mroOf P k → SemCompat P fd fd0 := by
      intro k fd hown hk0k
      by_cases hkk : k0 = k
      · subst hkk; rw [hown0] at hown; cases hown; exact SemCompat.refl _ _
      · obtain ⟨kd, hkc⟩ : ∃ kd, P.classes[k]? = some kd := by
          cases hkc : P.classes[k]? with
          | none => simp [ownMeth, hkc] at hown
          | some kd => exact ⟨kd, rfl⟩
        obtain ⟨tk, htk⟩ := mro_head w hkc
        have hdk : kd.mro.drop 1 = tk := by rw [← mroOf_eq hkc, htk]; rfl
        have hmem : (m, fd) ∈ kd.methods := by
          unfold ownMeth at hown; rw [hkc] at hown; exact lookup_mem hown
        have ho := (t.cls k kd hkc).over m fd hmem
        rw [hdk] at ho
        simp only [overrideCheck, List.all_eq_true] at ho
        have hk0t : k0 ∈ tk := by
          rw [htk] at hk0k; simp at hk0k
          rcases hk0k with h | h
          · exact absurd h hkk
          · exact h
        exact overrideOk_sem w (ho (k0, fd0) (mem_definers.mpr ⟨hk0t, hown0⟩))
    unfold lookupMeth
    rw [htail]
    simp only [findMeth]
    cases ho : ownMeth P c m with
    | some fdc =>
      refine ⟨c, fdc, rfl, isSub_refl w hc, ho, ?_⟩
      exact anc c fdc ho hk0c
    | none =>
      simp only
      have hk0t : k0 ∈ tail := by
        rw [htail] at hk0c; simp at hk0c
        rcases hk0c with h | h
        · subst h; rw [ho] at hown0; cases hown0
        · exact h
      have hin : (k0, fd0) ∈ definers P m tail := mem_definers.mpr ⟨hk0t, hown0⟩
      rw [findMeth_definers]
      cases hdef : definers P m tail with
      | nil => rw [hdef] at hin; simp at hin
      | cons p rest =>
        obtain ⟨k, fd⟩ := p
        have hkin : (k, fd) ∈ definers P m tail := by rw [hdef]; simp
        obtain ⟨hkt, hkown⟩ := mem_definers.mp hkin
        have hkc : isSub P c k = true := by rw [isSub_iff, htail]; exact List.mem_cons_of_mem _ hkt
        refine ⟨k, fd, rfl, hkc, hkown, ?_⟩
        rw [hdef] at hin
        simp only [List.mem_cons, Prod.mk.injEq] at hin
        rcases hin with ⟨rfl, rfl⟩ | hin
        · exact SemCompat.refl _ _
        · -- k0 is a later definer: multiple-inheritance check of c, or k0 is an ancestor of k
          have hmi := ct.mi m (by rw [hdrop]; exact methNames_mem hk0t hown0)
          rw [hdrop] at hmi
          simp only [miMethOk, Bool.or_eq_true] at hmi
          rcases hmi with hmi | hmi
          · -- c defines m itself: impossible here
            unfold ownMeth at ho; rw [hc] at ho
            simp only at ho
            rw [ho] at hmi; simp at hmi
          · rw [hdef] at hmi
            simp only [List.all_eq_true, Bool.or_eq_true] at hmi
            rcases hmi (k0, fd0) hin with h1 | h1
            · exact anc k fd hkown (isSub_iff.mp h1)
            · exact overrideOk_sem w h1

end Lang
