import MypyVerif.Proofs.LangOps
/-
What `tc P = ok tm` says about every definition of the program (`Typed`), and dynamic dispatch: the method
found at run time along the MRO of the receiver's class is an override — transitively checked by
`check_method_override` — of the one the checker looked up from the static type.
-/
namespace Lang

/-- the body of a function / method has been checked, its probe records are in `tm`, and it can fall off the
    end only when it is declared `-> None` -/
def FuncOK (P : Prog) (tm : Recs) (self : Option Nat) (fd : FuncDef) : Prop :=
  ∃ r, tcS tcFuel { P := P, decl := selfTys self ++ fd.params ++ fd.locals, ret := fd.ret, self := self } (some []) fd.body = .ok r
    ∧ (∀ x ∈ r.recs, x ∈ tm) ∧ (r.out.isSome = true → fd.ret = [.none]) ∧ r.brks = [] ∧ r.conts = []

theorem FuncOK.mono {P : Prog} {tm tm' : Recs} {self : Option Nat} {fd : FuncDef} (h : FuncOK P tm self fd)
    (hs : ∀ x ∈ tm, x ∈ tm') : FuncOK P tm' self fd := by
  obtain ⟨r, h1, h2, h3⟩ := h
  exact ⟨r, h1, fun x hx => hs x (h2 x hx), h3⟩

theorem tcFunc_ok {P : Prog} {self : Option Nat} {fd : FuncDef} {recs : Recs} (h : tcFunc P self fd = .ok recs) :
    FuncOK P recs self fd := by
  unfold tcFunc at h
  simp only [bind_ok, req_ok] at h
  obtain ⟨r, hr, _, hbc, h2⟩ := h
  simp only [Bool.and_eq_true, List.isEmpty_iff] at hbc
  refine ⟨r, hr, ?_, ?_, hbc.1, hbc.2⟩
  · cases h1 : r.out with
    | none => rw [h1] at h2; simp only [pure_ok] at h2; subst h2; exact fun x hx => hx
    | some _ =>
      rw [h1] at h2; simp only [bind_ok, req_ok, pure_ok] at h2
      obtain ⟨_, _, h3⟩ := h2; subst h3; exact fun x hx => hx
  · intro hs
    cases h1 : r.out with
    | none => rw [h1] at hs; simp at hs
    | some _ =>
      rw [h1] at h2; simp only [bind_ok, req_ok, pure_ok] at h2
      obtain ⟨_, h3, _⟩ := h2
      simpa using h3

theorem tcFuncs_ok {P : Prog} : ∀ (l : List FuncDef) (recs : Recs), tcFuncs P l = .ok recs →
    ∀ (i : Nat) (fd : FuncDef), l[i]? = some fd → FuncOK P recs none fd := by
  intro l
  induction l with
  | nil => intro recs _ i fd h; simp at h
  | cons d r ih =>
    intro recs h i fd hi
    simp only [tcFuncs, bind_ok, pure_ok] at h
    obtain ⟨a, ha, rest, hrest, hr⟩ := h
    subst hr
    cases i with
    | zero => simp at hi; subst hi; exact (tcFunc_ok ha).mono (fun x hx => List.mem_append_left _ hx)
    | succ j =>
      simp at hi
      exact (ih rest hrest j fd hi).mono (fun x hx => List.mem_append_right _ hx)

theorem tcMethods_ok {P : Prog} {c : Nat} {base : Option Nat} : ∀ (l : List (Nat × FuncDef)) (recs : Recs),
    tcMethods P c base l = .ok recs → ∀ m fd, (m, fd) ∈ l →
      FuncOK P recs (some c) fd ∧
      ∀ b k0 fd0, base = some b → lookupMeth P b m = some (k0, fd0) → overrideOk P fd fd0 = true := by
  intro l
  induction l with
  | nil => intro recs _ m fd h; simp at h
  | cons p r ih =>
    intro recs h m fd hm
    obtain ⟨m0, fd0⟩ := p
    simp only [tcMethods, bind_ok, pure_ok] at h
    simp only [req_ok] at h
    obtain ⟨rs, hrs, u, hu, rest, hrest, hr⟩ := h
    subst hr
    simp at hm
    rcases hm with ⟨rfl, rfl⟩ | hm
    · refine ⟨(tcFunc_ok hrs).mono (fun x hx => List.mem_append_left _ hx), ?_⟩
      intro b k0 fd1 hb hl
      subst hb
      simpa [overrideCheck, hl] using hu
    · obtain ⟨h1, h2⟩ := ih rest hrest m fd hm
      exact ⟨h1.mono (fun x hx => List.mem_append_right _ hx), h2⟩

/-- what `tcClass` establishes for one class -/
structure ClassTyped (P : Prog) (tm : Recs) (c : Nat) (cd : ClassDef) : Prop where
  init : ∃ recs, tcInit P c cd.init.params cd.init.assigns = .ok recs ∧ ∀ x ∈ recs, x ∈ tm
  meth : ∀ m fd, (m, fd) ∈ cd.methods → FuncOK P tm (some c) fd
  over : ∀ m fd b k0 fd0, (m, fd) ∈ cd.methods → cd.base = some b → lookupMeth P b m = some (k0, fd0) →
    overrideOk P fd fd0 = true

theorem ClassTyped.mono {P : Prog} {tm tm' : Recs} {c : Nat} {cd : ClassDef} (h : ClassTyped P tm c cd)
    (hs : ∀ x ∈ tm, x ∈ tm') : ClassTyped P tm' c cd := by
  obtain ⟨⟨r, h1, h2⟩, hm, ho⟩ := h
  exact ⟨⟨r, h1, fun x hx => hs x (h2 x hx)⟩, fun m fd h => (hm m fd h).mono hs, ho⟩

theorem tcClass_ok {P : Prog} {c : Nat} {cd : ClassDef} {recs : Recs} (h : tcClass P c cd = .ok recs) :
    ClassTyped P recs c cd := by
  unfold tcClass at h
  simp only [bind_ok, pure_ok] at h
  obtain ⟨_, _, r1, h1, r2, h2, hr⟩ := h
  subst hr
  refine ⟨⟨r1, h1, fun x hx => List.mem_append_left _ hx⟩, ?_, ?_⟩
  · intro m fd hm
    exact (tcMethods_ok _ _ h2 m fd hm).1.mono (fun x hx => List.mem_append_right _ hx)
  · intro m fd b k0 fd0 hm hb hl
    exact (tcMethods_ok _ _ h2 m fd hm).2 b k0 fd0 hb hl

theorem tcClasses_ok {P : Prog} : ∀ (l : List ClassDef) (c0 : Nat) (recs : Recs), tcClasses P c0 l = .ok recs →
    ∀ (i : Nat) (cd : ClassDef), l[i]? = some cd → ClassTyped P recs (c0 + i) cd := by
  intro l
  induction l with
  | nil => intro c0 recs _ i cd h; simp at h
  | cons d r ih =>
    intro c0 recs h i cd hi
    simp only [tcClasses, bind_ok, pure_ok] at h
    obtain ⟨a, ha, rest, hrest, hr⟩ := h
    subst hr
    cases i with
    | zero => simp at hi; subst hi; exact (tcClass_ok ha).mono (fun x hx => List.mem_append_left _ hx)
    | succ j =>
      simp at hi
      have := (ih (c0 + 1) rest hrest j cd hi).mono (tm' := a ++ rest) (fun x hx => List.mem_append_right _ hx)
      have e : c0 + 1 + j = c0 + (j + 1) := by omega
      rw [e] at this; exact this

/-- everything the soundness proof needs to know about the program -/
structure Typed (P : Prog) (tm : Recs) : Prop where
  wf : WF P
  func : ∀ (f : Nat) (fd : FuncDef), P.funcs[f]? = some fd → FuncOK P tm none fd
  cls : ∀ (c : Nat) (cd : ClassDef), P.classes[c]? = some cd → ClassTyped P tm c cd

theorem typed_of_tc {P : Prog} {tm : Recs} (w : WF P) (h : tc P = .ok tm) : Typed P tm := by
  unfold tc at h
  simp only [bind_ok, pure_ok] at h
  obtain ⟨a, ha, b, hb, hr⟩ := h
  subst hr
  refine ⟨w, ?_, ?_⟩
  · intro f fd hf
    exact (tcFuncs_ok _ _ hb f fd hf).mono (fun x hx => List.mem_append_right _ hx)
  · intro c cd hc
    have := (tcClasses_ok _ 0 _ ha c cd hc).mono (tm' := a ++ b) (fun x hx => List.mem_append_left _ hx)
    simpa using this

theorem Typed.meth {P : Prog} {tm : Recs} (t : Typed P tm) {c m : Nat} {fd : FuncDef} (h : ownMeth P c m = some fd) :
    FuncOK P tm (some c) fd := by
  unfold ownMeth at h
  cases hc : P.classes[c]? with
  | none => simp [hc] at h
  | some cd =>
    simp [hc] at h
    exact (t.cls c cd hc).meth m fd (lookup_mem h)

/-! ## Method override compatibility and dispatch -/

theorem argsFit_sound {P : Prog} (w : WF P) {h : Heap} : ∀ {Ts Us : List Ty} {vs : List Val},
    argsFit P Ts Us = true → ArgsOK P h vs Ts → ArgsOK P h vs Us := by
  intro Ts
  induction Ts with
  | nil =>
    intro Us vs hf ha
    cases Us with
    | nil => exact ha
    | cons _ _ => simp [argsFit] at hf
  | cons T Ts ih =>
    intro Us vs hf ha
    cases Us with
    | nil => simp [argsFit] at hf
    | cons U Us =>
      cases vs with
      | nil => simp [ArgsOK] at ha
      | cons v vs =>
        simp only [argsFit, Bool.and_eq_true] at hf
        simp only [ArgsOK] at ha ⊢
        exact ⟨subTy_sound w hf.1 ha.1, ih hf.2 ha.2⟩

/-- semantic reading of `check_method_override` -/
def SemCompat (P : Prog) (sub sup : FuncDef) : Prop :=
  (∀ h vs, ArgsOK P h vs sup.params → ArgsOK P h vs sub.params) ∧ (∀ h v, hasTy P h v sub.ret → hasTy P h v sup.ret)

theorem SemCompat.refl (P : Prog) (fd : FuncDef) : SemCompat P fd fd := ⟨fun _ _ h => h, fun _ _ h => h⟩

theorem SemCompat.trans {P : Prog} {a b c : FuncDef} (h1 : SemCompat P a b) (h2 : SemCompat P b c) : SemCompat P a c :=
  ⟨fun h vs x => h1.1 h vs (h2.1 h vs x), fun h v x => h2.2 h v (h1.2 h v x)⟩

theorem overrideOk_sem {P : Prog} (w : WF P) {sub sup : FuncDef} (h : overrideOk P sub sup = true) : SemCompat P sub sup := by
  simp only [overrideOk, Bool.and_eq_true] at h
  exact ⟨fun _ _ x => argsFit_sound w h.1 x, fun _ _ x => subTy_sound w h.2 x⟩

theorem dispatch {P : Prog} {tm : Recs} (t : Typed P tm) : ∀ (c d m k0 : Nat) (fd0 : FuncDef), isSub P c d = true →
    lookupMeth P d m = some (k0, fd0) →
    ∃ k fd, lookupMeth P c m = some (k, fd) ∧ isSub P c k = true ∧ ownMeth P k m = some fd ∧ SemCompat P fd fd0 := by
  intro c
  induction c using Nat.strongRecOn with
  | _ c ih =>
    intro d m k0 fd0 hs hl
    have w := t.wf
    rw [isSub_iff] at hs
    cases hc : P.classes[c]? with
    | none => simp [mroOf_none hc] at hs
    | some cd =>
      have self_case : lookupMeth P c m = some (k0, fd0) →
          ∃ k fd, lookupMeth P c m = some (k, fd) ∧ isSub P c k = true ∧ ownMeth P k m = some fd ∧ SemCompat P fd fd0 := by
        intro hl
        obtain ⟨hk, ho⟩ := findMeth_some_mem _ _ _ hl
        exact ⟨k0, fd0, hl, isSub_iff.mpr hk, ho, SemCompat.refl _ _⟩
      rcases mro_unfold w hc with ⟨_, e⟩ | ⟨b, hb, hlt, e⟩
      · rw [e] at hs; simp at hs; subst hs; exact self_case hl
      · rw [e] at hs; simp at hs
        rcases hs with rfl | hs
        · exact self_case hl
        · obtain ⟨k', fd', hl', hsub', hown', hcomp'⟩ := ih b hlt d m k0 fd0 (isSub_iff.mpr hs) hl
          rw [lookupMeth_unfold w hc, hb]
          cases ho : ownMeth P c m with
          | some fdc =>
            refine ⟨c, fdc, rfl, isSub_refl w hc, ho, ?_⟩
            have hmem : (m, fdc) ∈ cd.methods := by
              unfold ownMeth at ho; rw [hc] at ho; exact lookup_mem ho
            exact (overrideOk_sem w ((t.cls c cd hc).over m fdc b k' fd' hmem hb hl')).trans hcomp'
          | none =>
            refine ⟨k', fd', hl', ?_, hown', hcomp'⟩
            rw [isSub_iff, e]
            exact List.mem_cons_of_mem _ (isSub_iff.mp hsub')

end Lang
