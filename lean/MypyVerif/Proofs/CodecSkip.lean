import MypyVerif.Proofs.Codec
/-!
Helper lemmas for C11 (core Lean only): `_skip_object` / `_skip_class` step exactly over what the writers
emit for every codec accepted by `skipOK` — so `extract_symbol` hands the lazy reader exactly one node.
-/
namespace Codec
open K

/-! ### the tag numbers of the C file -/
theorem ct_false : cTag "LITERAL_FALSE" = 0 := by decide
theorem ct_true : cTag "LITERAL_TRUE" = 1 := by decide
theorem ct_none : cTag "LITERAL_NONE" = 2 := by decide
theorem ct_int : cTag "LITERAL_INT" = 3 := by decide
theorem ct_str : cTag "LITERAL_STR" = 4 := by decide
theorem ct_bytes : cTag "LITERAL_BYTES" = 5 := by decide
theorem ct_float : cTag "LITERAL_FLOAT" = 6 := by decide
theorem ct_complex : cTag "LITERAL_COMPLEX" = 7 := by decide
theorem ct_sentinel : cTag "LITERAL_SENTINEL" = 8 := by decide
theorem ct_list_gen : cTag "LIST_GEN" = 20 := by decide
theorem ct_list_int : cTag "LIST_INT" = 21 := by decide
theorem ct_list_str : cTag "LIST_STR" = 22 := by decide
theorem ct_list_bytes : cTag "LIST_BYTES" = 23 := by decide
theorem ct_tuple_gen : cTag "TUPLE_GEN" = 24 := by decide
theorem ct_dict : cTag "DICT_STR_GEN" = 30 := by decide
theorem ct_mypy_file : cTag "MYPY_FILE" = 50 := by decide
theorem ct_instance : cTag "INSTANCE" = 80 := by decide
theorem ct_inst_simple : cTag "INSTANCE_SIMPLE" = 81 := by decide
theorem ct_inst_generic : cTag "INSTANCE_GENERIC" = 82 := by decide
theorem ct_inst_str : cTag "INSTANCE_STR" = 83 := by decide
theorem ct_inst_object : cTag "INSTANCE_OBJECT" = 87 := by decide
theorem ct_reserved : cTag "RESERVED" = 254 := by decide
theorem ct_end : cTag "END_TAG" = 255 := by decide
theorem t_literal_int : T_LITERAL_INT = 3 := rfl

/-! ### primitives -/

theorem skipBytes_append (s tl : Bytes) : skipBytes s.length (s ++ tl) = some tl := by
  unfold skipBytes
  have : ¬ (s ++ tl).length < s.length := by simp [List.length_append]
  simp only [this, if_false, List.drop_left']

theorem readSize_enc (n : Nat) (tl : Bytes) (h : (n : Int) ≤ MAX_FOUR_BYTES_INT) :
    readSize (encInt n ++ tl) = some (n, tl) := by
  have hlo : MIN_FOUR_BYTES_INT ≤ (n : Int) := by simp only [MIN_FOUR_BYTES_INT]; omega
  have hs : inShort (n : Int) = true := by
    simp only [inShort, Bool.and_eq_true, decide_eq_true_eq]; exact ⟨hlo, h⟩
  obtain ⟨f, r, he, hf, hd⟩ := short_rt n tl hlo h
  unfold encInt
  rw [if_pos hs, he]
  simp only [readSize, hf, if_false, hd]
  have : ¬ (n : Int) < 0 := by omega
  simp only [this, if_false, Int.toNat_natCast]

theorem skipStr_enc (s tl : Bytes) (h : StrOk s) : skipStr (encStr s ++ tl) = some tl := by
  unfold skipStr encStr
  have hlo : MIN_FOUR_BYTES_INT ≤ (s.length : Int) := by simp only [MIN_FOUR_BYTES_INT]; omega
  obtain ⟨f, r, he, hf, hd⟩ := short_rt _ (s ++ tl) hlo h
  rw [List.append_assoc, he]
  simp only [readSize, hf, if_false, hd]
  have : ¬ (s.length : Int) < 0 := by omega
  simp only [this, if_false, Int.toNat_natCast, skipBytes_append]

theorem skipInt_enc (v : Int) (tl : Bytes) (hok : IntOk v) : skipInt (encInt v ++ tl) = some tl := by
  unfold encInt
  by_cases hs : inShort v = true
  · rw [if_pos hs]
    have hs' := hs
    simp only [inShort, Bool.and_eq_true, decide_eq_true_eq] at hs'
    -- the three short forms: length of the encoding is announced by the trailer bits of the first byte
    simp only [MIN_FOUR_BYTES_INT, MAX_FOUR_BYTES_INT] at hs'
    unfold encShort
    simp only [MIN_ONE_BYTE_INT, MAX_ONE_BYTE_INT, MIN_TWO_BYTES_INT, MAX_TWO_BYTES_INT, MIN_FOUR_BYTES_INT,
      TWO_BYTES_INT_BIT, FOUR_BYTES_INT_TRAILER]
    by_cases h1 : (-10 : Int) ≤ v ∧ v ≤ 117
    · simp only [h1, and_self, if_true, List.cons_append, List.nil_append, skipInt, LONG_INT_TRAILER]
      have a : (((((v - -10) % 256 * 2 % 256).toNat : Nat) : Int)) ≠ 15 := by omega
      have b : ((v - -10) % 256 * 2 % 256).toNat % 2 = 0 := by omega
      simp only [a, ne_eq, not_false_eq_true, if_true, b]
    · simp only [h1, if_false]
      by_cases h2 : (-100 : Int) ≤ v ∧ v ≤ 16283
      · simp only [h2, and_self, if_true, List.cons_append, List.nil_append, skipInt, LONG_INT_TRAILER]
        have a : ((((((v - -100) % 65536 * 4 + 1) % 65536).toNat % 256 : Nat)) : Int) ≠ 15 := by omega
        have b : ¬ (((v - -100) % 65536 * 4 + 1) % 65536).toNat % 256 % 2 = 0 := by omega
        have c : (((v - -100) % 65536 * 4 + 1) % 65536).toNat % 256 / 2 % 2 = 0 := by omega
        simp only [a, ne_eq, not_false_eq_true, if_true, b, if_false, c, skipBytes]
        simp
      · simp only [h2, if_false, List.cons_append, List.nil_append, skipInt, LONG_INT_TRAILER]
        have a : (((((v - -10000) % 4294967296 * 8 % 4294967296 + 3).toNat % 256 : Nat)) : Int) ≠ 15 := by omega
        have b : ¬ ((v - -10000) % 4294967296 * 8 % 4294967296 + 3).toNat % 256 % 2 = 0 := by omega
        have c : ¬ ((v - -10000) % 4294967296 * 8 % 4294967296 + 3).toNat % 256 / 2 % 2 = 0 := by omega
        simp only [a, ne_eq, not_false_eq_true, if_true, b, if_false, c, skipBytes]
        simp
  · rw [if_neg hs]
    have hes : ((natToLE v.natAbs).length : Int) * 2 + (if v < 0 then 1 else 0) ≤ MAX_FOUR_BYTES_INT := by
      cases hok with
      | inl h => exact absurd h hs
      | inr h => exact h
    have hlo : MIN_FOUR_BYTES_INT ≤ ((natToLE v.natAbs).length : Int) * 2 + (if v < 0 then 1 else 0) := by
      simp only [MIN_FOUR_BYTES_INT]; split <;> omega
    obtain ⟨f, r, he, _, hd⟩ := short_rt _ (natToLE v.natAbs ++ tl) hlo hes
    unfold encLong
    simp only [List.cons_append, List.append_assoc]
    rw [he]
    have h15 : ¬ ((LONG_INT_TRAILER.toNat : Nat) : Int) ≠ LONG_INT_TRAILER := by simp [LONG_INT_TRAILER]
    simp only [skipInt, h15, if_false, hd]
    have hnn : ¬ ((natToLE v.natAbs).length : Int) * 2 + (if v < 0 then 1 else 0) < 0 := by split <;> omega
    have hsz : ((((natToLE v.natAbs).length : Int) * 2 + (if v < 0 then 1 else 0)) / 2).toNat
        = (natToLE v.natAbs).length := by split <;> omega
    simp only [hnn, if_false, hsz, skipBytes_append]

theorem skipN_items (f : Bytes → Option Bytes) (e : Val → Bytes) (p : Val → Bool)
    (h : ∀ x tl, p x = true → f (e x ++ tl) = some tl) :
    ∀ v tl, wtItems p v = true → skipN f v.len (encItems e v ++ tl) = some tl := by
  intro v
  induction v with
  | nil => intro tl _; rfl
  | cons hd t _ ih2 =>
    intro tl hw
    simp only [wtItems, Bool.and_eq_true] at hw
    simp only [Val.len, encItems, skipN, List.append_assoc, h hd _ hw.1, ih2 tl hw.2]
  | _ => intro tl hw; simp [wtItems] at hw

/-- more iterations never hurt `_skip_class` -/
theorem skipClassLoop_step (obj : Byte → Bytes → Option Bytes) (k : Nat) (t : Byte) (r : Bytes) :
    skipClassLoop obj (k + 1) (t :: r) =
      if t = cTag "END_TAG" then some r else match obj t r with
        | none => none
        | some r' => skipClassLoop obj k r' := rfl

def C.size : C → Nat
  | .field _ c => c.size + 1
  | .pair a b => a.size + b.size + 1
  | .list c => c.size + 1
  | .alt _ c r => c.size + r.size + 1
  | _ => 1

theorem skipObject_succ (F : Nat) (t : Byte) (bs : Bytes) :
    skipObject (F + 1) t bs = skipObjectBody (skipObject F) t bs := rfl

theorem skipN_items_bd (f : Bytes → Option Bytes) (e : Val → Bytes) (p : Val → Bool) (B : Nat)
    (h : ∀ x tl, p x = true → (e x).length ≤ B → f (e x ++ tl) = some tl) :
    ∀ v tl, wtItems p v = true → (encItems e v).length ≤ B → skipN f v.len (encItems e v ++ tl) = some tl := by
  intro v
  induction v with
  | nil => intro tl _ _; rfl
  | cons hd t _ ih2 =>
    intro tl hw hb
    simp only [wtItems, Bool.and_eq_true] at hw
    simp only [encItems, List.length_append] at hb
    simp only [Val.len, encItems, skipN, List.append_assoc, h hd _ hw.1 (by omega), ih2 tl hw.2 (by omega)]
  | _ => intro tl hw; simp [wtItems] at hw

section spec
variable (κ : String → Kind) (se : String → Val → Bytes) (sw : String → Val → Bool)

/-- payload position -/
def StP (c : C) : Prop := ∀ t v, skipOK κ (.pay t) c = true → wtBody sw c v = true →
  ∀ F, (encBody se c v).length < F → ∀ tl, skipObject F t (encBody se c v ++ tl) = some tl
/-- exactly one object: a tag that is not END, then its payload -/
def StO (c : C) : Prop := ∀ v, skipOK κ .one c = true → wtBody sw c v = true →
  ∃ t pl, encBody se c v = t :: pl ∧ t ≠ cTag "END_TAG" ∧
    ∀ F, pl.length < F → ∀ tl, skipObject F t (pl ++ tl) = some tl
/-- zero or more objects: the class loop steps over them in `m` iterations -/
def StS (c : C) : Prop := ∀ v, skipOK κ .seq c = true → wtBody sw c v = true →
  ∃ m, m ≤ (encBody se c v).length ∧ ∀ F, (encBody se c v).length < F → ∀ k tl,
    skipClassLoop (skipObject F) (k + m) (encBody se c v ++ tl) = skipClassLoop (skipObject F) k tl
/-- objects, then END_TAG: the class loop ends exactly behind them -/
def StB (c : C) : Prop := ∀ v, skipOK κ .body c = true → wtBody sw c v = true →
  ∃ m, 1 ≤ m ∧ m ≤ (encBody se c v).length ∧ ∀ F, (encBody se c v).length ≤ F → ∀ k tl,
    skipClassLoop (skipObject F) (k + m) (encBody se c v ++ tl) = some tl
def StD (c : C) : Prop := ∀ v, skipOK κ .dictItem c = true → wtBody sw c v = true →
  ∀ F, (encBody se c v).length < F + 1 → ∀ tl,
    (match skipStr (encBody se c v ++ tl) with
      | none => none
      | some b' => skipTagged (skipObject F) b') = some tl
def StE (c : C) : Prop := ∀ t v, skipOK κ (.ent t) c = true → wtBody sw c v = true →
  ∃ m, m ≤ (encBody se c v).length ∧ ∀ F, (encBody se c v).length < F → ∀ k tl, ∃ r,
    skipObject F t (encBody se c v ++ tl) = some r ∧
    skipClassLoop (skipObject F) (k + m) r = skipClassLoop (skipObject F) k tl
def StI (c : C) : Prop := ∀ v, skipOK κ .inst c = true → wtBody sw c v = true →
  ∀ F, (encBody se c v).length < F → ∀ tl, skipObject F (cTag "INSTANCE") (encBody se c v ++ tl) = some tl

def Spec (c : C) : Prop :=
  StP κ se sw c ∧ StO κ se sw c ∧ StS κ se sw c ∧ StB κ se sw c ∧ StD κ se sw c ∧ StE κ se sw c ∧ StI κ se sw c

/-- what is assumed of the referenced entries (one nesting level of `enc` below) -/
structure SelfSkip : Prop where
  body : ∀ n v, κ n = .body → sw n v = true →
    ∃ m, 1 ≤ m ∧ m ≤ (se n v).length ∧ ∀ F, (se n v).length ≤ F → ∀ k tl,
      skipClassLoop (skipObject F) (k + m) (se n v ++ tl) = some tl
  one : ∀ n v, κ n = .one → sw n v = true →
    ∃ t pl, se n v = t :: pl ∧ t ≠ cTag "END_TAG" ∧
      ∀ F, pl.length < F → ∀ tl, skipObject F t (pl ++ tl) = some tl
  inst : ∀ n v, κ n = .inst → sw n v = true →
    ∀ F, (se n v).length < F → ∀ tl, skipObject F (cTag "INSTANCE") (se n v ++ tl) = some tl

end spec

end Codec
