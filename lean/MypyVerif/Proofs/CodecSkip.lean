import MypyVerif.Proofs.Codec
/-!
Helper lemmas for C11 (core Lean only): `_skip_object` / `_skip_class` step exactly over what the writers
emit for every codec accepted by `skipOK` — so `extract_symbol` hands the lazy reader exactly one node.
-/
namespace Codec
open K

/-! ### the tag numbers of the C file -/
theorem ct_false : cTag "LITERAL_FALSE" = 0 := by decide
theorem ct_true : cTag "LITERAL_TRUE" = 1 := by decide
theorem ct_none : cTag "LITERAL_NONE" = 2 := by decide
theorem ct_int : cTag "LITERAL_INT" = 3 := by decide
theorem ct_str : cTag "LITERAL_STR" = 4 := by decide
theorem ct_bytes : cTag "LITERAL_BYTES" = 5 := by decide
theorem ct_float : cTag "LITERAL_FLOAT" = 6 := by decide
theorem ct_complex : cTag "LITERAL_COMPLEX" = 7 := by decide
theorem ct_sentinel : cTag "LITERAL_SENTINEL" = 8 := by decide
theorem ct_list_gen : cTag "LIST_GEN" = 20 := by decide
theorem ct_list_int : cTag "LIST_INT" = 21 := by decide
theorem ct_list_str : cTag "LIST_STR" = 22 := by decide
theorem ct_list_bytes : cTag "LIST_BYTES" = 23 := by decide
theorem ct_tuple_gen : cTag "TUPLE_GEN" = 24 := by decide
theorem ct_dict : cTag "DICT_STR_GEN" = 30 := by decide
theorem ct_mypy_file : cTag "MYPY_FILE" = 50 := by decide
theorem ct_instance : cTag "INSTANCE" = 80 := by decide
theorem ct_inst_simple : cTag "INSTANCE_SIMPLE" = 81 := by decide
theorem ct_inst_generic : cTag "INSTANCE_GENERIC" = 82 := by decide
theorem ct_inst_str : cTag "INSTANCE_STR" = 83 := by decide
theorem ct_inst_object : cTag "INSTANCE_OBJECT" = 87 := by decide
theorem ct_reserved : cTag "RESERVED" = 254 := by decide
theorem ct_end : cTag "END_TAG" = 255 := by decide
theorem t_literal_int : T_LITERAL_INT = 3 := rfl

/-! ### primitives -/

theorem skipBytes_append (s tl : Bytes) : skipBytes s.length (s ++ tl) = some tl := by
  unfold skipBytes
  have : ¬ (s ++ tl).length < s.length := by simp [List.length_append]
  simp only [this, if_false, List.drop_left']

theorem readSize_enc (n : Nat) (tl : Bytes) (h : (n : Int) ≤ MAX_FOUR_BYTES_INT) :
    readSize (encInt n ++ tl) = some (n, tl) := by
  have hlo : MIN_FOUR_BYTES_INT ≤ (n : Int) := by simp only [MIN_FOUR_BYTES_INT]; omega
  have hs : inShort (n : Int) = true := by
    simp only [inShort, Bool.and_eq_true, decide_eq_true_eq]; exact ⟨hlo, h⟩
  obtain ⟨f, r, he, hf, hd⟩ := short_rt n tl hlo h
  unfold encInt
  rw [if_pos hs, he]
  simp only [readSize, hf, if_false, hd]
  have : ¬ (n : Int) < 0 := by omega
  simp only [this, if_false, Int.toNat_natCast]

theorem skipStr_enc (s tl : Bytes) (h : StrOk s) : skipStr (encStr s ++ tl) = some tl := by
  unfold skipStr encStr
  have hlo : MIN_FOUR_BYTES_INT ≤ (s.length : Int) := by simp only [MIN_FOUR_BYTES_INT]; omega
  obtain ⟨f, r, he, hf, hd⟩ := short_rt _ (s ++ tl) hlo h
  rw [List.append_assoc, he]
  simp only [readSize, hf, if_false, hd]
  have : ¬ (s.length : Int) < 0 := by omega
  simp only [this, if_false, Int.toNat_natCast, skipBytes_append]

theorem skipInt_enc (v : Int) (tl : Bytes) (hok : IntOk v) : skipInt (encInt v ++ tl) = some tl := by
  unfold encInt
  by_cases hs : inShort v = true
  · rw [if_pos hs]
    have hs' := hs
    simp only [inShort, Bool.and_eq_true, decide_eq_true_eq] at hs'
    -- the three short forms: length of the encoding is announced by the trailer bits of the first byte
    simp only [MIN_FOUR_BYTES_INT, MAX_FOUR_BYTES_INT] at hs'
    unfold encShort
    simp only [MIN_ONE_BYTE_INT, MAX_ONE_BYTE_INT, MIN_TWO_BYTES_INT, MAX_TWO_BYTES_INT, MIN_FOUR_BYTES_INT,
      TWO_BYTES_INT_BIT, FOUR_BYTES_INT_TRAILER]
    by_cases h1 : (-10 : Int) ≤ v ∧ v ≤ 117
    · simp only [h1, and_self, if_true, List.cons_append, List.nil_append, skipInt, LONG_INT_TRAILER]
      have a : (((((v - -10) % 256 * 2 % 256).toNat : Nat) : Int)) ≠ 15 := by omega
      have b : ((v - -10) % 256 * 2 % 256).toNat % 2 = 0 := by omega
      simp only [a, ne_eq, not_false_eq_true, if_true, b]
    · simp only [h1, if_false]
      by_cases h2 : (-100 : Int) ≤ v ∧ v ≤ 16283
      · simp only [h2, and_self, if_true, List.cons_append, List.nil_append, skipInt, LONG_INT_TRAILER]
        have a : ((((((v - -100) % 65536 * 4 + 1) % 65536).toNat % 256 : Nat)) : Int) ≠ 15 := by omega
        have b : ¬ (((v - -100) % 65536 * 4 + 1) % 65536).toNat % 256 % 2 = 0 := by omega
        have c : (((v - -100) % 65536 * 4 + 1) % 65536).toNat % 256 / 2 % 2 = 0 := by omega
        simp only [a, ne_eq, not_false_eq_true, if_true, b, if_false, c, skipBytes]
        simp
      · simp only [h2, if_false, List.cons_append, List.nil_append, skipInt, LONG_INT_TRAILER]
        have a : (((((v - -10000) % 4294967296 * 8 % 4294967296 + 3).toNat % 256 : Nat)) : Int) ≠ 15 := by omega
        have b : ¬ ((v - -10000) % 4294967296 * 8 % 4294967296 + 3).toNat % 256 % 2 = 0 := by omega
        have c : ¬ ((v - -10000) % 4294967296 * 8 % 4294967296 + 3).toNat % 256 / 2 % 2 = 0 := by omega
        simp only [a, ne_eq, not_false_eq_true, if_true, b, if_false, c, skipBytes]
        simp
  · rw [if_neg hs]
    have hes : ((natToLE v.natAbs).length : Int) * 2 + (if v < 0 then 1 else 0) ≤ MAX_FOUR_BYTES_INT := by
      cases hok with
      | inl h => exact absurd h hs
      | inr h => exact h
    have hlo : MIN_FOUR_BYTES_INT ≤ ((natToLE v.natAbs).length : Int) * 2 + (if v < 0 then 1 else 0) := by
      simp only [MIN_FOUR_BYTES_INT]; split <;> omega
    obtain ⟨f, r, he, _, hd⟩ := short_rt _ (natToLE v.natAbs ++ tl) hlo hes
    unfold encLong
    simp only [List.cons_append, List.append_assoc]
    rw [he]
    have h15 : ¬ ((LONG_INT_TRAILER.toNat : Nat) : Int) ≠ LONG_INT_TRAILER := by simp [LONG_INT_TRAILER]
    simp only [skipInt, h15, if_false, hd]
    have hnn : ¬ ((natToLE v.natAbs).length : Int) * 2 + (if v < 0 then 1 else 0) < 0 := by split <;> omega
    have hsz : ((((natToLE v.natAbs).length : Int) * 2 + (if v < 0 then 1 else 0)) / 2).toNat
        = (natToLE v.natAbs).length := by split <;> omega
    simp only [hnn, if_false, hsz, skipBytes_append]

theorem skipN_items (f : Bytes → Option Bytes) (e : Val → Bytes) (p : Val → Bool)
    (h : ∀ x tl, p x = true → f (e x ++ tl) = some tl) :
    ∀ v tl, wtItems p v = true → skipN f v.len (encItems e v ++ tl) = some tl := by
  intro v
  induction v with
  | nil => intro tl _; rfl
  | cons hd t _ ih2 =>
    intro tl hw
    simp only [wtItems, Bool.and_eq_true] at hw
    simp only [Val.len, encItems, skipN, List.append_assoc, h hd _ hw.1, ih2 tl hw.2]
  | _ => intro tl hw; simp [wtItems] at hw

/-- more iterations never hurt `_skip_class` -/
theorem skipClassLoop_step (obj : Byte → Bytes → Option Bytes) (k : Nat) (t : Byte) (r : Bytes) :
    skipClassLoop obj (k + 1) (t :: r) =
      if t = cTag "END_TAG" then some r else match obj t r with
        | none => none
        | some r' => skipClassLoop obj k r' := rfl

def C.size : C → Nat
  | .field _ c => c.size + 1
  | .pair a b => a.size + b.size + 1
  | .list c => c.size + 1
  | .alt _ c r => c.size + r.size + 1
  | _ => 1

theorem skipObject_succ (F : Nat) (t : Byte) (bs : Bytes) :
    skipObject (F + 1) t bs = skipObjectBody (skipObject F) t bs := rfl

theorem skipN_items_bd (f : Bytes → Option Bytes) (e : Val → Bytes) (p : Val → Bool) (B : Nat)
    (h : ∀ x tl, p x = true → (e x).length ≤ B → f (e x ++ tl) = some tl) :
    ∀ v tl, wtItems p v = true → (encItems e v).length ≤ B → skipN f v.len (encItems e v ++ tl) = some tl := by
  intro v
  induction v with
  | nil => intro tl _ _; rfl
  | cons hd t _ ih2 =>
    intro tl hw hb
    simp only [wtItems, Bool.and_eq_true] at hw
    simp only [encItems, List.length_append] at hb
    simp only [Val.len, encItems, skipN, List.append_assoc, h hd _ hw.1 (by omega), ih2 tl hw.2 (by omega)]
  | _ => intro tl hw; simp [wtItems] at hw

/-! ### `_skip_object` by tag -/
theorem sob_str (self : Byte → Bytes → Option Bytes) (t : Nat) (bs : Bytes) (h : t = 4 ∨ t = 5) : skipObjectBody self t bs = skipStr bs := by
  simp only [skipObjectBody, ct_str, ct_bytes, h, if_true]
theorem sob_empty (self : Byte → Bytes → Option Bytes) (t : Nat) (bs : Bytes) (h : t = 2 ∨ t = 0 ∨ t = 1) : skipObjectBody self t bs = some bs := by
  have h1 : ¬ (t = 4 ∨ t = 5) := by omega
  simp only [skipObjectBody, ct_str, ct_bytes, ct_none, ct_false, ct_true, h1, h, if_false, if_true]
theorem sob_listgen (self : Byte → Bytes → Option Bytes) (t : Nat) (bs : Bytes) (h : t = 20 ∨ t = 24) :
    skipObjectBody self t bs = match readSize bs with
      | none => none
      | some (n, r) => skipN (skipTagged self) n r := by
  have h1 : ¬ (t = 4 ∨ t = 5) := by omega
  have h2 : ¬ (t = 2 ∨ t = 0 ∨ t = 1) := by omega
  simp only [skipObjectBody, ct_str, ct_bytes, ct_none, ct_false, ct_true, ct_list_gen, ct_tuple_gen, h1, h2, h, if_false, if_true]
  rfl
theorem sob_int (self : Byte → Bytes → Option Bytes) (bs : Bytes) : skipObjectBody self 3 bs = skipInt bs := by
  simp [skipObjectBody, ct_str, ct_bytes, ct_none, ct_false, ct_true, ct_list_gen, ct_tuple_gen, ct_int]
theorem sob_inst (self : Byte → Bytes → Option Bytes) (bs : Bytes) : skipObjectBody self 80 bs = match bs with
    | [] => none
    | t2 :: r =>
      if 83 ≤ t2 ∧ t2 ≤ 87 then some r
      else if t2 = 81 then skipStr r
      else if t2 = 82 then skipClassLoop self r.length r
      else none := by
  simp [skipObjectBody, ct_str, ct_bytes, ct_none, ct_false, ct_true, ct_list_gen, ct_tuple_gen, ct_int, ct_instance,
    ct_inst_str, ct_inst_object, ct_inst_simple, ct_inst_generic]
  rfl
theorem sob_class (self : Byte → Bytes → Option Bytes) (t : Nat) (bs : Bytes) (h1 : 50 < t) (h2 : t < 254) (h3 : t ≠ 80) :
    skipObjectBody self t bs = skipClassLoop self bs.length bs := by
  have a1 : ¬ (t = 4 ∨ t = 5) := by omega
  have a2 : ¬ (t = 2 ∨ t = 0 ∨ t = 1) := by omega
  have a3 : ¬ (t = 20 ∨ t = 24) := by omega
  have a4 : ¬ t = 3 := by omega
  simp only [skipObjectBody, ct_str, ct_bytes, ct_none, ct_false, ct_true, ct_list_gen, ct_tuple_gen, ct_int, ct_instance,
    ct_mypy_file, ct_reserved, a1, a2, a3, a4, h3, h1, h2, and_self, if_false, if_true]
theorem sob_listint (self : Byte → Bytes → Option Bytes) (bs : Bytes) : skipObjectBody self 21 bs = match readSize bs with
    | none => none
    | some (n, r) => skipN skipInt n r := by
  simp [skipObjectBody, ct_str, ct_bytes, ct_none, ct_false, ct_true, ct_list_gen, ct_tuple_gen, ct_int, ct_instance,
    ct_mypy_file, ct_reserved, ct_list_int]
  rfl
theorem sob_liststr (self : Byte → Bytes → Option Bytes) (t : Nat) (bs : Bytes) (h : t = 22 ∨ t = 23) : skipObjectBody self t bs = match readSize bs with
    | none => none
    | some (n, r) => skipN skipStr n r := by
  have a1 : ¬ (t = 4 ∨ t = 5) := by omega
  have a2 : ¬ (t = 2 ∨ t = 0 ∨ t = 1) := by omega
  have a3 : ¬ (t = 20 ∨ t = 24) := by omega
  have a4 : ¬ t = 3 := by omega
  have a5 : ¬ t = 80 := by omega
  have a6 : ¬ (50 < t ∧ t < 254) := by omega
  have a7 : ¬ t = 21 := by omega
  simp only [skipObjectBody, ct_str, ct_bytes, ct_none, ct_false, ct_true, ct_list_gen, ct_tuple_gen, ct_int, ct_instance,
    ct_mypy_file, ct_reserved, ct_list_int, ct_list_str, ct_list_bytes, a1, a2, a3, a4, a5, a6, a7, h, if_false, if_true]
  rfl
theorem sob_dict (self : Byte → Bytes → Option Bytes) (bs : Bytes) : skipObjectBody self 30 bs = match readSize bs with
    | none => none
    | some (n, r) => skipN (fun b => match skipStr b with
        | none => none
        | some b' => skipTagged self b') n r := by
  simp [skipObjectBody, ct_str, ct_bytes, ct_none, ct_false, ct_true, ct_list_gen, ct_tuple_gen, ct_int, ct_instance,
    ct_mypy_file, ct_reserved, ct_list_int, ct_list_str, ct_list_bytes, ct_dict]
  rfl
theorem sob_float (self : Byte → Bytes → Option Bytes) (bs : Bytes) : skipObjectBody self 6 bs = skipBytes 8 bs := by
  simp [skipObjectBody, ct_str, ct_bytes, ct_none, ct_false, ct_true, ct_list_gen, ct_tuple_gen, ct_int, ct_instance,
    ct_mypy_file, ct_reserved, ct_list_int, ct_list_str, ct_list_bytes, ct_dict, ct_float]
theorem sob_complex (self : Byte → Bytes → Option Bytes) (bs : Bytes) : skipObjectBody self 7 bs = skipBytes 16 bs := by
  simp [skipObjectBody, ct_str, ct_bytes, ct_none, ct_false, ct_true, ct_list_gen, ct_tuple_gen, ct_int, ct_instance,
    ct_mypy_file, ct_reserved, ct_list_int, ct_list_str, ct_list_bytes, ct_dict, ct_float, ct_complex]
theorem sob_sentinel (self : Byte → Bytes → Option Bytes) (bs : Bytes) : skipObjectBody self 8 bs = (skipStr bs).bind skipStr := by
  simp [skipObjectBody, ct_str, ct_bytes, ct_none, ct_false, ct_true, ct_list_gen, ct_tuple_gen, ct_int, ct_instance,
    ct_mypy_file, ct_reserved, ct_list_int, ct_list_str, ct_list_bytes, ct_dict, ct_float, ct_complex, ct_sentinel]

section spec
variable (κ : String → Kind) (se : String → Val → Bytes) (sw : String → Val → Bool)

/-- payload position -/
def StP (c : C) : Prop := ∀ (t : Nat) v, skipOK κ (.pay t) c = true → wtBody sw c v = true →
  ∀ F, (encBody se c v).length < F → ∀ tl, skipObject F t (encBody se c v ++ tl) = some tl
/-- exactly one object: a tag that is not END, then its payload -/
def StO (c : C) : Prop := ∀ v, skipOK κ .one c = true → wtBody sw c v = true →
  ∃ (t : Nat) (pl : Bytes), encBody se c v = t :: pl ∧ t ≠ cTag "END_TAG" ∧
    ∀ F, pl.length < F → ∀ tl, skipObject F t (pl ++ tl) = some tl
/-- zero or more objects: the class loop steps over them in `m` iterations -/
def StS (c : C) : Prop := ∀ v, skipOK κ .seq c = true → wtBody sw c v = true →
  ∃ m, m ≤ (encBody se c v).length ∧ ∀ F, (encBody se c v).length < F → ∀ k tl,
    skipClassLoop (skipObject F) (k + m) (encBody se c v ++ tl) = skipClassLoop (skipObject F) k tl
/-- objects, then END_TAG: the class loop ends exactly behind them -/
def StB (c : C) : Prop := ∀ v, skipOK κ .body c = true → wtBody sw c v = true →
  ∃ m, 1 ≤ m ∧ m ≤ (encBody se c v).length ∧ ∀ F, (encBody se c v).length ≤ F → ∀ k tl,
    skipClassLoop (skipObject F) (k + m) (encBody se c v ++ tl) = some tl
def StD (c : C) : Prop := ∀ v, skipOK κ .dictItem c = true → wtBody sw c v = true →
  ∀ F, (encBody se c v).length < F + 1 → ∀ tl,
    (match skipStr (encBody se c v ++ tl) with
      | none => none
      | some b' => skipTagged (skipObject F) b') = some tl
def StE (c : C) : Prop := ∀ (t : Nat) v, skipOK κ (.ent t) c = true → wtBody sw c v = true →
  ∃ m, m ≤ (encBody se c v).length ∧ ∀ F, (encBody se c v).length < F → ∀ k tl, ∃ r,
    skipObject F t (encBody se c v ++ tl) = some r ∧
    skipClassLoop (skipObject F) (k + m) r = skipClassLoop (skipObject F) k tl
def StI (c : C) : Prop := ∀ v, skipOK κ .inst c = true → wtBody sw c v = true →
  ∀ F, (encBody se c v).length < F → ∀ tl, skipObject F (cTag "INSTANCE") (encBody se c v ++ tl) = some tl

def Spec (c : C) : Prop :=
  StP κ se sw c ∧ StO κ se sw c ∧ StS κ se sw c ∧ StB κ se sw c ∧ StD κ se sw c ∧ StE κ se sw c ∧ StI κ se sw c

/-- what is assumed of the referenced entries (one nesting level of `enc` below) -/
structure SelfSkip : Prop where
  body : ∀ n v, κ n = .body → sw n v = true →
    ∃ m, 1 ≤ m ∧ m ≤ (se n v).length ∧ ∀ F, (se n v).length ≤ F → ∀ k tl,
      skipClassLoop (skipObject F) (k + m) (se n v ++ tl) = some tl
  one : ∀ n v, κ n = .one → sw n v = true →
    ∃ (t : Nat) (pl : Bytes), se n v = t :: pl ∧ t ≠ cTag "END_TAG" ∧
      ∀ F, pl.length < F → ∀ tl, skipObject F t (pl ++ tl) = some tl
  inst : ∀ n v, κ n = .inst → sw n v = true →
    ∀ F, (se n v).length < F → ∀ tl, skipObject F (cTag "INSTANCE") (se n v ++ tl) = some tl

variable {κ se sw}

theorem size_pos (c : C) : 1 ≤ c.size := by cases c <;> simp [C.size]

theorem encInt_nonempty (v : Int) : 1 ≤ (encInt v).length := by
  unfold encInt encLong encShort
  split
  · split
    · simp
    · split <;> simp
  · simp

theorem intOk_packFlags (bs : List Bool) (h : bs.length ≤ 26) : IntOk (packFlags bs) := by
  have hb := packFlags_bounds bs 26 h
  have h26 : pow2 26 = 67108864 := by decide
  rw [h26] at hb
  left
  simp only [inShort, Bool.and_eq_true, decide_eq_true_eq]
  simp only [MIN_FOUR_BYTES_INT, MAX_FOUR_BYTES_INT]
  omega

theorem skipObject_pos {F : Nat} {n : Nat} (h : n < F) : ∃ F', F = F' + 1 := ⟨F - 1, by omega⟩

/-- an object in the class loop: one iteration -/
theorem loop_one (obj : Byte → Bytes → Option Bytes) (k : Nat) (t : Nat) (pl tl : Bytes)
    (hne : t ≠ cTag "END_TAG") (h : obj t (pl ++ tl) = some tl) :
    skipClassLoop obj (k + 1) (t :: pl ++ tl) = skipClassLoop obj k tl := by
  rw [List.cons_append, skipClassLoop_step]
  simp only [hne, if_false, h]

theorem seq_of_one {e : Bytes}
    (h : ∃ (t : Nat) (pl : Bytes), e = t :: pl ∧ t ≠ cTag "END_TAG" ∧ ∀ F, pl.length < F → ∀ tl, skipObject F t (pl ++ tl) = some tl) :
    ∃ m, m ≤ e.length ∧ ∀ F, e.length < F → ∀ k tl,
      skipClassLoop (skipObject F) (k + m) (e ++ tl) = skipClassLoop (skipObject F) k tl := by
  obtain ⟨t, pl, he, hne, hobj⟩ := h
  refine ⟨1, by rw [he]; simp, fun F hF k tl => ?_⟩
  rw [he] at hF ⊢
  simp only [List.length_cons] at hF
  exact loop_one _ k t pl tl hne (hobj F (by omega) tl)

theorem strlike_skip : ∀ c, isStrLike c = true → ∀ x tl, wtBody sw c x = true →
    skipStr (encBody se c x ++ tl) = some tl := by
  intro c
  induction c with
  | str =>
    intro _ x tl hw
    cases x <;> simp only [wtBody, decide_eq_true_eq] at hw <;> try contradiction
    simp only [encBody]; exact skipStr_enc _ _ hw
  | bytes =>
    intro _ x tl hw
    cases x <;> simp only [wtBody, decide_eq_true_eq] at hw <;> try contradiction
    simp only [encBody]; exact skipStr_enc _ _ hw
  | field n c ih =>
    intro h x tl hw
    simp only [isStrLike] at h
    cases x <;> simp only [wtBody, Bool.and_eq_true] at hw <;> try contradiction
    simp only [encBody]; exact ih h _ tl hw.2
  | _ => intro h; simp [isStrLike] at h

theorem seq_pair_nonlit (a b : C) (h : ∀ t, a ≠ .lit t) :
    skipOK κ .seq (.pair a b) = (skipOK κ .seq a && skipOK κ .seq b) := by
  cases a <;> first | exact absurd rfl (h _) | simp [skipOK]

theorem body_pair_nonlit (a b : C) (h : ∀ t, a ≠ .lit t) :
    skipOK κ .body (.pair a b) = (skipOK κ .seq a && skipOK κ .body b) := by
  cases a <;> first | exact absurd rfl (h _) | simp [skipOK]

/-- closes a statement whose `skipOK` premise is false for this constructor -/
macro "vac" : tactic =>
  `(tactic| first
    | (intro v h; simp [skipOK] at h; done)
    | (intro t v h; simp [skipOK] at h; done))

macro "bomega" : tactic => `(tactic| ((try unfold Byte at *); omega))

theorem spec_all (hs : SelfSkip κ se sw) : ∀ n c, c.size ≤ n → Spec κ se sw c := by
  intro n
  induction n with
  | zero => intro c hc; have := size_pos c; omega
  | succ n ih =>
    intro c hc
    cases c with
    | int =>
      refine ⟨?_, by vac, by vac, by vac, by vac, by vac, by vac⟩
      intro t v h hw F hF tl
      cases v <;> simp only [wtBody, decide_eq_true_eq] at hw <;> try contradiction
      simp only [skipOK, beq_iff_eq, ct_int] at h
      subst h
      obtain ⟨F', rfl⟩ := skipObject_pos hF
      rw [skipObject_succ, sob_int]
      exact skipInt_enc _ _ hw
    | str =>
      refine ⟨?_, by vac, by vac, by vac, by vac, by vac, by vac⟩
      intro t v h hw F hF tl
      cases v <;> simp only [wtBody, decide_eq_true_eq] at hw <;> try contradiction
      simp only [skipOK, Bool.or_eq_true, beq_iff_eq, ct_str, ct_bytes] at h
      obtain ⟨F', rfl⟩ := skipObject_pos hF
      rw [skipObject_succ, sob_str _ _ _ h]
      exact skipStr_enc _ _ hw
    | bytes =>
      refine ⟨?_, by vac, by vac, by vac, by vac, by vac, by vac⟩
      intro t v h hw F hF tl
      cases v <;> simp only [wtBody, decide_eq_true_eq] at hw <;> try contradiction
      simp only [skipOK, Bool.or_eq_true, beq_iff_eq, ct_str, ct_bytes] at h
      obtain ⟨F', rfl⟩ := skipObject_pos hF
      rw [skipObject_succ, sob_str _ _ _ h]
      exact skipStr_enc _ _ hw
    | float =>
      refine ⟨?_, by vac, by vac, by vac, by vac, by vac, by vac⟩
      intro t v h hw F hF tl
      cases v <;> simp only [wtBody, beq_iff_eq] at hw <;> try contradiction
      simp only [skipOK, beq_iff_eq, ct_float] at h
      subst h
      obtain ⟨F', rfl⟩ := skipObject_pos hF
      rw [skipObject_succ, sob_float]
      simp only [encBody]
      rw [← hw]; exact skipBytes_append _ _
    | unit =>
      refine ⟨?_, by vac, ?_, by vac, by vac, by vac, by vac⟩
      · intro t v h hw F hF tl
        cases v <;> simp only [wtBody] at hw <;> try contradiction
        simp only [skipOK, emptyPay, Bool.or_eq_true, beq_iff_eq, ct_none, ct_false, ct_true] at h
        obtain ⟨F', rfl⟩ := skipObject_pos hF
        rw [skipObject_succ, sob_empty _ _ _ (by bomega)]
        simp [encBody]
      · intro v _ hw
        cases v <;> simp only [wtBody] at hw <;> try contradiction
        exact ⟨0, by simp, fun F _ k tl => by simp [encBody]⟩
    | bool =>
      have hO : StO κ se sw .bool := by
        intro v _ hw
        cases v <;> simp only [wtBody] at hw <;> try contradiction
        rename_i b
        refine ⟨if b then 1 else 0, [], by simp [encBody, encBool], by cases b <;> simp [ct_end], fun F hF tl => ?_⟩
        obtain ⟨F', rfl⟩ := skipObject_pos hF
        rw [skipObject_succ, sob_empty _ _ _ (by cases b <;> simp)]
        simp
      refine ⟨by vac, hO, ?_, by vac, by vac, by vac, by vac⟩
      intro v _ hw
      exact seq_of_one (hO v (by simp [skipOK]) hw)
    | flags k =>
      have hO : StO κ se sw (.flags k) := by
        intro v _ hw
        cases v <;> simp only [wtBody, Bool.and_eq_true, beq_iff_eq, decide_eq_true_eq] at hw <;> try contradiction
        rename_i bs
        refine ⟨3, encInt (packFlags bs), by simp [encBody, t_literal_int], by simp [ct_end], fun F hF tl => ?_⟩
        obtain ⟨F', rfl⟩ := skipObject_pos hF
        rw [skipObject_succ, sob_int]
        exact skipInt_enc _ _ (intOk_packFlags bs (by omega))
      refine ⟨by vac, hO, ?_, by vac, by vac, by vac, by vac⟩
      intro v _ hw
      exact seq_of_one (hO v (by simp [skipOK]) hw)
    | lit t0 =>
      refine ⟨by vac, by vac, by vac, ?_, by vac, by vac, by vac⟩
      intro v h hw
      simp only [skipOK, beq_iff_eq] at h
      refine ⟨1, by omega, by simp [encBody], fun F _ k tl => ?_⟩
      simp only [encBody, List.cons_append, List.nil_append, skipClassLoop_step, h, if_true]
    | ref nm =>
      refine ⟨?_, ?_, ?_, by vac, by vac, by vac, by vac⟩
      · intro t v h hw F hF tl
        simp only [wtBody] at hw
        simp only [encBody] at hF ⊢
        simp only [skipOK, Bool.or_eq_true, Bool.and_eq_true, beq_iff_eq, isClassTag, decide_eq_true_eq, bne_iff_ne,
          ct_mypy_file, ct_reserved, ct_instance] at h
        obtain ⟨F', rfl⟩ := skipObject_pos hF
        cases h with
        | inl h =>
          obtain ⟨⟨⟨h1, h2⟩, h3⟩, hk⟩ := h
          obtain ⟨m, _, hm, hb⟩ := hs.body nm v hk hw
          rw [skipObject_succ, sob_class _ _ _ h1 h2 h3]
          have hl : (se nm v ++ tl).length = (tl.length + (se nm v).length - m) + m := by
            simp only [List.length_append]; omega
          rw [hl]
          exact hb F' (by omega) _ tl
        | inr h =>
          obtain ⟨h1, hk⟩ := h
          subst h1
          have := hs.inst nm v hk hw (F' + 1) hF tl
          rw [ct_instance] at this
          exact this
      · intro v h hw
        simp only [skipOK, beq_iff_eq] at h
        simp only [wtBody] at hw
        simp only [encBody]
        exact hs.one nm v h hw
      · intro v h hw
        simp only [skipOK, beq_iff_eq] at h
        simp only [wtBody] at hw
        simp only [encBody]
        exact seq_of_one (hs.one nm v h hw)
    | field name c =>
      have hsz : c.size ≤ n := by simp only [C.size] at hc; omega
      obtain ⟨iP, iO, iS, iB, iD, iE, iI⟩ := ih c hsz
      refine ⟨?_, ?_, ?_, ?_, ?_, ?_, ?_⟩
      · intro t v h hw
        cases v <;> simp only [wtBody, Bool.and_eq_true] at hw <;> try contradiction
        simp only [skipOK] at h
        simp only [encBody]
        exact iP t _ h hw.2
      · intro v h hw
        cases v <;> simp only [wtBody, Bool.and_eq_true] at hw <;> try contradiction
        simp only [skipOK] at h
        simp only [encBody]
        exact iO _ h hw.2
      · intro v h hw
        cases v <;> simp only [wtBody, Bool.and_eq_true] at hw <;> try contradiction
        simp only [skipOK] at h
        simp only [encBody]
        exact iS _ h hw.2
      · intro v h hw
        cases v <;> simp only [wtBody, Bool.and_eq_true] at hw <;> try contradiction
        simp only [skipOK] at h
        simp only [encBody]
        exact iB _ h hw.2
      · intro v h hw
        cases v <;> simp only [wtBody, Bool.and_eq_true] at hw <;> try contradiction
        simp only [skipOK] at h
        simp only [encBody]
        exact iD _ h hw.2
      · intro t v h hw
        cases v <;> simp only [wtBody, Bool.and_eq_true] at hw <;> try contradiction
        simp only [skipOK] at h
        simp only [encBody]
        exact iE t _ h hw.2
      · intro v h hw
        cases v <;> simp only [wtBody, Bool.and_eq_true] at hw <;> try contradiction
        simp only [skipOK] at h
        simp only [encBody]
        exact iI _ h hw.2
    | fail =>
      refine ⟨?_, ?_, ?_, ?_, ?_, ?_, ?_⟩
      all_goals first
        | (intro v _ hw; cases v <;> simp [wtBody] at hw; done)
        | (intro t v _ hw; cases v <;> simp [wtBody] at hw; done)
    | list c' =>
      have hsz : c'.size ≤ n := by simp only [C.size] at hc; omega
      obtain ⟨_, iO, _, _, iD, _, _⟩ := ih c' hsz
      refine ⟨?_, by vac, by vac, by vac, by vac, by vac, by vac⟩
      intro t v h hw F hF tl
      simp only [wtBody, Bool.and_eq_true, decide_eq_true_eq] at hw
      obtain ⟨hlen, hit⟩ := hw
      simp only [encBody, List.length_append] at hF
      simp only [encBody, List.append_assoc]
      obtain ⟨F', rfl⟩ := skipObject_pos hF
      have hne := encInt_nonempty (v.len : Int)
      simp only [skipOK, Bool.or_eq_true, Bool.and_eq_true, beq_iff_eq, ct_list_gen, ct_tuple_gen, ct_list_int,
        ct_list_str, ct_list_bytes, ct_dict] at h
      rcases h with ((h | h) | h) | h
      · obtain ⟨ht, ho⟩ := h
        rw [skipObject_succ, sob_listgen _ _ _ ht, readSize_enc _ _ hlen]
        simp only
        apply skipN_items_bd (skipTagged (skipObject F')) (encBody se c') (wtBody sw c')
          (encItems (encBody se c') v).length
        · intro x tl' hx hb
          obtain ⟨t', pl, he, _, hobj⟩ := iO x ho hx
          rw [he] at hb ⊢
          simp only [List.length_cons] at hb
          simp only [List.cons_append, skipTagged]
          exact hobj F' (by omega) tl'
        · exact hit
        · exact Nat.le_refl _
      · obtain ⟨ht, hc'⟩ := h
        subst ht; subst hc'
        rw [skipObject_succ, sob_listint, readSize_enc _ _ hlen]
        simp only
        refine skipN_items skipInt (encBody se .int) (wtBody sw .int) ?_ v tl hit
        intro x tl' hx
        cases x <;> simp only [wtBody, decide_eq_true_eq] at hx <;> try contradiction
        simp only [encBody]; exact skipInt_enc _ _ hx
      · obtain ⟨ht, hc'⟩ := h
        rw [skipObject_succ, sob_liststr _ _ _ ht, readSize_enc _ _ hlen]
        simp only
        exact skipN_items skipStr _ _ (fun x tl' hx => strlike_skip c' hc' x tl' hx) v tl hit
      · obtain ⟨ht, hd⟩ := h
        subst ht
        rw [skipObject_succ, sob_dict, readSize_enc _ _ hlen]
        simp only
        apply skipN_items_bd _ (encBody se c') (wtBody sw c') (encItems (encBody se c') v).length
        · intro x tl' hx hb
          exact iD x hd hx F' (by omega) tl'
        · exact hit
        · exact Nat.le_refl _
    | alt t0 c' rest =>
      have hsz1 : c'.size ≤ n := by simp only [C.size] at hc; omega
      have hsz2 : rest.size ≤ n := by simp only [C.size] at hc; omega
      obtain ⟨iP, _, iS, iB, _, iE, _⟩ := ih c' hsz1
      obtain ⟨_, rO, rS, _, _, _, rI⟩ := ih rest hsz2
      refine ⟨by vac, ?_, ?_, by vac, by vac, by vac, ?_⟩
      · -- exactly one object
        intro v h hw
        cases v <;> simp only [wtBody] at hw <;> try contradiction
        rename_i t' v'
        simp only [skipOK, Bool.and_eq_true, bne_iff_ne, ne_eq] at h
        obtain ⟨⟨hne, hpay⟩, hrest⟩ := h
        by_cases e : t' = t0
        · subst e
          simp only [if_true] at hw
          refine ⟨t', encBody se c' v', by simp [encBody], hne, fun F hF tl => iP t' v' hpay hw F hF tl⟩
        · simp only [e, if_false, Bool.and_eq_true] at hw
          have := rO (.variant t' v') hrest hw.2
          simpa only [encBody, e, if_false] using this
      · -- objects inside a class body
        intro v h hw
        cases v <;> simp only [wtBody] at hw <;> try contradiction
        rename_i t' v'
        simp only [skipOK, Bool.and_eq_true, Bool.or_eq_true, bne_iff_ne, ne_eq] at h
        obtain ⟨⟨hne, hent⟩, hrest⟩ := h
        by_cases e : t' = t0
        · subst e
          simp only [if_true] at hw
          have henc : encBody se (.alt t' c' rest) (.variant t' v') = t' :: encBody se c' v' := by simp [encBody]
          rw [henc]
          rcases hent with (hpay | hemp) | hE
          · exact seq_of_one ⟨t', encBody se c' v', rfl, hne, fun F hF tl => iP t' v' hpay hw F hF tl⟩
          · obtain ⟨hemp, hseq⟩ := hemp
            obtain ⟨m', hm', hS⟩ := iS v' hseq hw
            refine ⟨m' + 1, by simp only [List.length_cons]; omega, fun F hF k tl => ?_⟩
            simp only [List.length_cons] at hF
            obtain ⟨F', rfl⟩ := skipObject_pos hF
            simp only [emptyPay, Bool.or_eq_true, beq_iff_eq, ct_none, ct_false, ct_true] at hemp
            have h1 := loop_one (skipObject (F' + 1)) (k + m') t' [] (encBody se c' v' ++ tl) hne
              (by rw [skipObject_succ, sob_empty _ _ _ (by bomega)]; simp)
            simp only [List.nil_append, List.cons_append] at h1 ⊢
            rw [show k + (m' + 1) = k + m' + 1 by omega, h1]
            exact hS (F' + 1) (by omega) k tl
          · obtain ⟨m', hm', hEE⟩ := iE t' v' hE hw
            refine ⟨m' + 1, by simp only [List.length_cons]; omega, fun F hF k tl => ?_⟩
            simp only [List.length_cons] at hF
            obtain ⟨r, hr1, hr2⟩ := hEE F (by omega) k tl
            rw [show k + (m' + 1) = k + m' + 1 by omega, List.cons_append, skipClassLoop_step]
            simp only [hne, if_false, hr1, hr2]
        · simp only [e, if_false, Bool.and_eq_true] at hw
          have := rS (.variant t' v') hrest hw.2
          simpa only [encBody, e, if_false] using this
      · -- after INSTANCE
        intro v h hw F hF tl
        cases v <;> simp only [wtBody] at hw <;> try contradiction
        rename_i t' v'
        simp only [skipOK, Bool.and_eq_true, Bool.or_eq_true, beq_iff_eq, decide_eq_true_eq, ct_inst_str, ct_inst_object,
          ct_inst_simple, ct_inst_generic] at h
        obtain ⟨hent, hrest⟩ := h
        by_cases e : t' = t0
        · subst e
          simp only [if_true] at hw
          have henc : encBody se (.alt t' c' rest) (.variant t' v') = t' :: encBody se c' v' := by simp [encBody]
          rw [henc] at hF ⊢
          simp only [List.length_cons] at hF
          obtain ⟨F', rfl⟩ := skipObject_pos hF
          rw [ct_instance, skipObject_succ, sob_inst]
          simp only [List.cons_append]
          rcases hent with (h1 | h2) | h3
          · obtain ⟨⟨ha, hb⟩, hc'⟩ := h1
            subst hc'
            cases v' <;> simp only [wtBody] at hw <;> try contradiction
            have : 83 ≤ t' ∧ t' ≤ 87 := ⟨ha, hb⟩
            simp [this, encBody]
          · obtain ⟨ha, hb⟩ := h2
            subst ha
            simp only [show ¬ (83 ≤ 81 ∧ 81 ≤ 87) by omega, if_false, if_true]
            exact strlike_skip c' hb v' tl hw
          · obtain ⟨ha, hb⟩ := h3
            subst ha
            simp only [show ¬ (83 ≤ 82 ∧ 82 ≤ 87) by omega, show ¬ (82 = 81) by omega, if_false, if_true]
            obtain ⟨m, _, hm, hB⟩ := iB v' hb hw
            have hl : (encBody se c' v' ++ tl).length = (tl.length + (encBody se c' v').length - m) + m := by
              simp only [List.length_append]; omega
            rw [hl]
            exact hB F' (by omega) _ tl
        · simp only [e, if_false, Bool.and_eq_true] at hw
          have := rI (.variant t' v') hrest hw.2 F (by simpa only [encBody, e, if_false] using hF) tl
          simpa only [encBody, e, if_false] using this
    | pair a b =>
      have hsa : a.size ≤ n := by simp only [C.size] at hc; omega
      have hsb : b.size ≤ n := by simp only [C.size] at hc; omega
      obtain ⟨aP, _, aS, _, _, _, _⟩ := ih a hsa
      obtain ⟨_, _, bS, bB, _, _, _⟩ := ih b hsb
      have hlit : (∃ t', a = .lit t') ∨ (∀ t', a ≠ .lit t') := by cases a <;> simp
      refine ⟨?_, ?_, ?_, ?_, ?_, ?_, by vac⟩
      · -- payload made of two parts: complex, sentinel
        intro t v h hw F hF tl
        simp only [skipOK, Bool.or_eq_true, Bool.and_eq_true, beq_iff_eq, ct_complex, ct_sentinel] at h
        obtain ⟨F', rfl⟩ := skipObject_pos hF
        rcases h with ⟨⟨ht, ha⟩, hb⟩ | ⟨⟨ht, ha⟩, hb⟩
        · subst ht; subst ha; subst hb
          cases v <;> simp only [wtBody, Bool.and_eq_true] at hw <;> try contradiction
          rename_i x y
          obtain ⟨hx, hy⟩ := hw
          cases x <;> simp only [wtBody, beq_iff_eq] at hx <;> try contradiction
          cases y <;> simp only [wtBody, Bool.and_eq_true] at hy <;> try contradiction
          rename_i bx y1 y2
          obtain ⟨hy1, hy2⟩ := hy
          cases y1 <;> simp only [wtBody, beq_iff_eq] at hy1 <;> try contradiction
          cases y2 <;> simp only [wtBody] at hy2 <;> try contradiction
          rename_i by'
          rw [skipObject_succ, sob_complex]
          simp only [encBody, List.append_nil]
          have : (bx ++ by').length = 16 := by simp [hx, hy1]
          rw [← this]; exact skipBytes_append _ _
        · subst ht; subst ha; subst hb
          cases v <;> simp only [wtBody, Bool.and_eq_true] at hw <;> try contradiction
          rename_i x y
          obtain ⟨hx, hy⟩ := hw
          cases x <;> simp only [wtBody, decide_eq_true_eq] at hx <;> try contradiction
          cases y <;> simp only [wtBody, Bool.and_eq_true] at hy <;> try contradiction
          rename_i sx y1 y2
          obtain ⟨hy1, hy2⟩ := hy
          cases y1 <;> simp only [wtBody, decide_eq_true_eq] at hy1 <;> try contradiction
          cases y2 <;> simp only [wtBody] at hy2 <;> try contradiction
          rename_i sy
          rw [skipObject_succ, sob_sentinel]
          simp only [encBody, List.append_nil, List.append_assoc, skipStr_enc _ _ hx, Option.bind, skipStr_enc _ _ hy1]
      · -- one object written as `lit t`, payload
        intro v h hw
        cases a with
        | lit t' =>
          cases b with
          | pair p r =>
            cases r with
            | unit =>
              simp only [skipOK, Bool.and_eq_true, bne_iff_ne, ne_eq] at h
              obtain ⟨hne, hpay⟩ := h
              have hsp : p.size ≤ n := by simp only [C.size] at hc; omega
              obtain ⟨pP, _, _, _, _, _, _⟩ := ih p hsp
              cases v <;> simp only [wtBody, Bool.and_eq_true] at hw <;> try contradiction
              rename_i x y
              obtain ⟨_, hy⟩ := hw
              cases y <;> simp only [wtBody, Bool.and_eq_true] at hy <;> try contradiction
              rename_i y1 y2
              cases y2 <;> simp only [wtBody, and_true, Bool.false_eq_true, and_false] at hy <;> try contradiction
              refine ⟨t', encBody se p y1, by simp [encBody], hne, fun F hF tl => pP t' y1 hpay hy F hF tl⟩
            | _ => simp [skipOK] at h
          | _ => simp [skipOK] at h
        | _ => simp [skipOK] at h
      · -- sequence of objects
        intro v h hw
        cases v <;> simp only [wtBody, Bool.and_eq_true] at hw <;> try contradiction
        rename_i x y
        obtain ⟨hx, hy⟩ := hw
        rcases hlit with ⟨t', rfl⟩ | hnl
        · cases x <;> simp only [wtBody] at hx <;> try contradiction
          cases b with
          | pair p r =>
            simp only [skipOK, Bool.and_eq_true, bne_iff_ne, ne_eq] at h
            obtain ⟨⟨hne, hpay⟩, hseq⟩ := h
            have hsp : p.size ≤ n := by simp only [C.size] at hc; omega
            have hsr : r.size ≤ n := by simp only [C.size] at hc; omega
            obtain ⟨pP, _, _, _, _, _, _⟩ := ih p hsp
            obtain ⟨_, _, rS, _, _, _, _⟩ := ih r hsr
            cases y <;> simp only [wtBody, Bool.and_eq_true] at hy <;> try contradiction
            rename_i y1 y2
            obtain ⟨m', hm', hS⟩ := rS y2 hseq hy.2
            refine ⟨m' + 1, by simp [encBody]; omega, fun F hF k tl => ?_⟩
            simp only [encBody, List.length_append, List.length_cons, List.length_nil] at hF
            have h1 := loop_one (skipObject F) (k + m') t' (encBody se p y1) (encBody se r y2 ++ tl) hne
              (pP t' y1 hpay hy.1 F (by omega) _)
            simp only [encBody, List.cons_append, List.nil_append, List.append_assoc] at h1 ⊢
            rw [show k + (m' + 1) = k + m' + 1 by omega, h1]
            exact hS F (by omega) k tl
          | unit =>
            simp only [skipOK, emptyPay, Bool.or_eq_true, beq_iff_eq, ct_none, ct_false, ct_true] at h
            cases y <;> simp only [wtBody] at hy <;> try contradiction
            refine ⟨1, by simp [encBody], fun F hF k tl => ?_⟩
            obtain ⟨F', rfl⟩ := skipObject_pos hF
            have h1 := loop_one (skipObject (F' + 1)) k t' [] tl (by rw [ct_end]; bomega)
              (by rw [skipObject_succ, sob_empty _ _ _ (by bomega)]; simp)
            simpa [encBody] using h1
          | _ => simp [skipOK] at h
        · rw [seq_pair_nonlit a b hnl, Bool.and_eq_true] at h
          obtain ⟨ma, hma, hSa⟩ := aS x h.1 hx
          obtain ⟨mb, hmb, hSb⟩ := bS y h.2 hy
          refine ⟨mb + ma, by simp [encBody]; omega, fun F hF k tl => ?_⟩
          simp only [encBody, List.length_append] at hF
          simp only [encBody, List.append_assoc]
          rw [show k + (mb + ma) = k + mb + ma by omega, hSa F (by omega) (k + mb) _]
          exact hSb F (by omega) k tl
      · -- class body: objects, then END_TAG
        intro v h hw
        cases v <;> simp only [wtBody, Bool.and_eq_true] at hw <;> try contradiction
        rename_i x y
        obtain ⟨hx, hy⟩ := hw
        rcases hlit with ⟨t', rfl⟩ | hnl
        · cases x <;> simp only [wtBody] at hx <;> try contradiction
          cases b with
          | pair p r =>
            simp only [skipOK, beq_iff_eq] at h
            by_cases he : t' = cTag "END_TAG"
            · simp [he] at h
            · simp only [he, if_false, Bool.and_eq_true] at h
              obtain ⟨hpay, hbody⟩ := h
              have hsp : p.size ≤ n := by simp only [C.size] at hc; omega
              have hsr : r.size ≤ n := by simp only [C.size] at hc; omega
              obtain ⟨pP, _, _, _, _, _, _⟩ := ih p hsp
              obtain ⟨_, _, _, rB, _, _, _⟩ := ih r hsr
              cases y <;> simp only [wtBody, Bool.and_eq_true] at hy <;> try contradiction
              rename_i y1 y2
              obtain ⟨m', hm1, hm', hB⟩ := rB y2 hbody hy.2
              refine ⟨m' + 1, by omega, by simp [encBody]; omega, fun F hF k tl => ?_⟩
              simp only [encBody, List.length_append, List.length_cons, List.length_nil] at hF
              have h1 := loop_one (skipObject F) (k + m') t' (encBody se p y1) (encBody se r y2 ++ tl) he
                (pP t' y1 hpay hy.1 F (by omega) _)
              simp only [encBody, List.cons_append, List.nil_append, List.append_assoc] at h1 ⊢
              rw [show k + (m' + 1) = k + m' + 1 by omega, h1]
              exact hB F (by omega) k tl
          | unit =>
            simp only [skipOK, beq_iff_eq] at h
            cases y <;> simp only [wtBody] at hy <;> try contradiction
            refine ⟨1, by omega, by simp [encBody], fun F _ k tl => ?_⟩
            simp only [encBody, List.cons_append, List.nil_append, List.append_nil, skipClassLoop_step, h, if_true]
          | _ => simp [skipOK] at h
        · rw [body_pair_nonlit a b hnl, Bool.and_eq_true] at h
          obtain ⟨ma, hma, hSa⟩ := aS x h.1 hx
          obtain ⟨mb, hmb1, hmb, hBb⟩ := bB y h.2 hy
          refine ⟨mb + ma, by omega, by simp [encBody]; omega, fun F hF k tl => ?_⟩
          simp only [encBody, List.length_append] at hF
          simp only [encBody, List.append_assoc]
          rw [show k + (mb + ma) = k + mb + ma by omega, hSa F (by omega) (k + mb) _]
          exact hBb F (by omega) k tl
      · -- dict item: bare key, one object
        intro v h hw F hF tl
        cases a with
        | str =>
          cases b with
          | pair o r =>
            cases r with
            | unit =>
              simp only [skipOK] at h
              have hso : o.size ≤ n := by simp only [C.size] at hc; omega
              obtain ⟨_, oO, _, _, _, _, _⟩ := ih o hso
              cases v <;> simp only [wtBody, Bool.and_eq_true] at hw <;> try contradiction
              rename_i x y
              obtain ⟨hx, hy⟩ := hw
              cases x <;> simp only [wtBody, decide_eq_true_eq] at hx <;> try contradiction
              cases y <;> simp only [wtBody, Bool.and_eq_true] at hy <;> try contradiction
              rename_i key y1 y2
              cases y2 <;> simp only [wtBody, and_true, Bool.false_eq_true, and_false] at hy <;> try contradiction
              obtain ⟨t', pl, he, _, hobj⟩ := oO y1 h hy
              simp only [encBody, List.append_nil, List.length_append] at hF
              simp only [encBody, List.append_nil, List.append_assoc, skipStr_enc _ _ hx]
              rw [he] at hF ⊢
              simp only [List.length_cons] at hF
              simp only [List.cons_append, skipTagged]
              have : 1 ≤ (encStr key).length := by
                unfold encStr; have := encInt_nonempty (key.length : Int)
                simp only [List.length_append]
                have hs : inShort (key.length : Int) = true := by
                  simp only [inShort, Bool.and_eq_true, decide_eq_true_eq]
                  exact ⟨by simp only [MIN_FOUR_BYTES_INT]; omega, hx⟩
                unfold encInt at this; rw [if_pos hs] at this; omega
              exact hobj F (by omega) tl
            | _ => simp [skipOK] at h
          | _ => simp [skipOK] at h
        | _ => simp [skipOK] at h
      · -- payload, then further objects
        intro t v h hw
        simp only [skipOK, Bool.and_eq_true] at h
        cases v <;> simp only [wtBody, Bool.and_eq_true] at hw <;> try contradiction
        rename_i x y
        obtain ⟨mb, hmb, hSb⟩ := bS y h.2 hw.2
        refine ⟨mb, by simp [encBody]; omega, fun F hF k tl => ?_⟩
        simp only [encBody, List.length_append] at hF
        refine ⟨encBody se b y ++ tl, ?_, hSb F (by omega) k tl⟩
        simp only [encBody, List.append_assoc]
        exact aP t x h.1 hw.1 F (by omega) _

/-- the hypotheses on referenced entries hold at every nesting level of the writer -/
theorem selfSkip_enc (env : Env) (κ : String → Kind) (hk : ∀ n, kindOK κ (κ n) (env n) = true) :
    ∀ f, SelfSkip κ (fun n v => enc env f (env n) v) (fun n v => wt env f (env n) v) := by
  intro f
  induction f with
  | zero =>
    refine ⟨?_, ?_, ?_⟩ <;> intro n v _ hw <;> simp [wt] at hw
  | succ f ih =>
    refine ⟨?_, ?_, ?_⟩
    · intro n v hκ hw
      have hb : skipOK κ .body (env n) = true := by have := hk n; rw [hκ] at this; exact this
      exact (spec_all ih _ (env n) (Nat.le_refl _)).2.2.2.1 v hb hw
    · intro n v hκ hw
      have hb : skipOK κ .one (env n) = true := by have := hk n; rw [hκ] at this; exact this
      exact (spec_all ih _ (env n) (Nat.le_refl _)).2.1 v hb hw
    · intro n v hκ hw
      have hb : skipOK κ .inst (env n) = true := by have := hk n; rw [hκ] at this; exact this
      exact (spec_all ih _ (env n) (Nat.le_refl _)).2.2.2.2.2.2 v hb hw

/-- `extract_symbol` on (the bytes of a class body ++ anything) returns exactly the class body -/
theorem extract_enc_aux (env : Env) (κ : String → Kind) (hk : ∀ n, kindOK κ (κ n) (env n) = true)
    (fuel : Nat) (cls : String) (v : Val) (rest : Bytes) (hκ : κ cls = .body)
    (hw : wt env fuel (env cls) v = true) (F : Nat) (hF : (enc env fuel (env cls) v).length ≤ F) :
    extractSymbol F (enc env fuel (env cls) v ++ rest) = some (enc env fuel (env cls) v, rest) := by
  cases fuel with
  | zero => simp [wt] at hw
  | succ f =>
    have hb : skipOK κ .body (env cls) = true := by have := hk cls; rw [hκ] at this; exact this
    obtain ⟨m, _, hm, hB⟩ := (spec_all (selfSkip_enc env κ hk f) _ (env cls) (Nat.le_refl _)).2.2.2.1 v hb hw
    have hB' := hB F hF (rest.length + (enc env (f + 1) (env cls) v).length - m) rest
    have hl : (enc env (f + 1) (env cls) v ++ rest).length
        = (rest.length + (enc env (f + 1) (env cls) v).length - m) + m := by
      simp only [List.length_append]
      have : m ≤ (enc env (f + 1) (env cls) v).length := hm
      omega
    unfold extractSymbol
    rw [hl]
    have hB'' : skipClassLoop (skipObject F) (rest.length + (enc env (f + 1) (env cls) v).length - m + m)
        (enc env (f + 1) (env cls) v ++ rest) = some rest := hB'
    rw [hB'']
    simp only
    rw [← hl]
    simp [List.length_append, List.take_left']

/-- kinds given as an association list -/
def kindOfL (l : List (String × Kind)) : String → Kind := fun n =>
  match l.find? (fun e => e.1 == n) with
  | some e => e.2
  | none => .other

theorem kinds_ok (l : List (String × C × C)) (ks : List (String × Kind))
    (h : (l.all fun e => kindOK (kindOfL ks) (kindOfL ks e.1) e.2.1) = true)
    (h2 : (ks.all fun k => l.any fun e => e.1 == k.1) = true) :
    ∀ n, kindOK (kindOfL ks) (kindOfL ks n) (envOfW l n) = true := by
  intro n
  unfold envOfW
  cases hf : l.find? (fun e => e.1 == n) with
  | none =>
    simp only
    have hk : kindOfL ks n = .other := by
      unfold kindOfL
      cases hg : ks.find? (fun e => e.1 == n) with
      | none => rfl
      | some k =>
        exfalso
        have hm : k ∈ ks := List.mem_of_find?_eq_some hg
        have hn : k.1 = n := by simpa using List.find?_some hg
        have := List.all_eq_true.mp h2 k hm
        rw [List.any_eq_true] at this
        obtain ⟨e, he, hek⟩ := this
        have hnone := List.find?_eq_none.mp hf e he
        simp only [beq_iff_eq] at hek hnone
        exact hnone (hek.trans hn)
    rw [hk]; rfl
  | some e =>
    have hm : e ∈ l := List.mem_of_find?_eq_some hf
    have hn : e.1 = n := by simpa using List.find?_some hf
    have := List.all_eq_true.mp h e hm
    rw [hn] at this
    exact this

end spec

end Codec
