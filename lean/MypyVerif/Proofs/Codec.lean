import MypyVerif.Model.Codec
/-!
Helper lemmas for C11 (core Lean only): round trips of the byte-level primitives.
-/
namespace Codec
open K

theorem consts_bits : TWO_BYTES_INT_BIT = 1 ∧ FOUR_BYTES_INT_BIT = 2 ∧ LONG_INT_BIT = 4 := by decide

/-- the three fixed-size forms: `_read_short_int` inverts `_write_short_int` on its whole range, and the
    first byte written is never the long-int trailer -/
theorem short_rt (v : Int) (rest : Bytes) (hlo : MIN_FOUR_BYTES_INT ≤ v) (hhi : v ≤ MAX_FOUR_BYTES_INT) :
    ∃ f tl, encShort v ++ rest = f :: tl ∧ (f : Int) ≠ LONG_INT_TRAILER ∧ decShort f tl = some (v, rest) := by
  simp only [MIN_FOUR_BYTES_INT, MAX_FOUR_BYTES_INT] at hlo hhi
  unfold encShort
  simp only [MIN_ONE_BYTE_INT, MAX_ONE_BYTE_INT, MIN_TWO_BYTES_INT, MAX_TWO_BYTES_INT, MIN_FOUR_BYTES_INT,
    TWO_BYTES_INT_BIT, FOUR_BYTES_INT_TRAILER, LONG_INT_TRAILER]
  by_cases h1 : (-10 : Int) ≤ v ∧ v ≤ 117
  · simp only [h1, and_self, if_true]
    refine ⟨_, rest, rfl, ?_, ?_⟩
    · omega
    · unfold decShort
      simp only [MIN_ONE_BYTE_INT]
      have : ((v - -10) % 256 * 2 % 256).toNat % 2 = 0 := by omega
      simp only [this, if_true]
      congr 2
      omega
  · simp only [h1, if_false]
    by_cases h2 : (-100 : Int) ≤ v ∧ v ≤ 16283
    · simp only [h2, and_self, if_true]
      refine ⟨_, _, rfl, ?_, ?_⟩
      · omega
      · unfold decShort
        simp only [MIN_TWO_BYTES_INT]
        have e1 : ¬ (((v - -100) % 65536 * 4 + 1) % 65536).toNat % 256 % 2 = 0 := by omega
        have e2 : (((v - -100) % 65536 * 4 + 1) % 65536).toNat % 256 / 2 % 2 = 0 := by omega
        simp only [e1, e2, if_true, if_false, List.append]
        congr 2
        omega
    · simp only [h2, if_false]
      refine ⟨_, _, rfl, ?_, ?_⟩
      · omega
      · unfold decShort
        simp only [MIN_FOUR_BYTES_INT]
        have e1 : ¬ ((v - -10000) % 4294967296 * 8 % 4294967296 + 3).toNat % 256 % 2 = 0 := by omega
        have e2 : ¬ ((v - -10000) % 4294967296 * 8 % 4294967296 + 3).toNat % 256 / 2 % 2 = 0 := by omega
        simp only [e1, e2, if_false, List.append]
        congr 2
        omega

theorem leToNat_natToLEAux (f : Nat) : ∀ n, n ≤ f → leToNat (natToLEAux f n) = n := by
  induction f with
  | zero => intro n h; have : n = 0 := by omega
            subst this; rfl
  | succ f ih =>
    intro n h
    unfold natToLEAux
    by_cases hn : n = 0
    · simp [hn, leToNat]
    · simp only [hn, if_false, leToNat]
      rw [ih (n / 256) (by omega)]
      omega

theorem leToNat_natToLE (n : Nat) : leToNat (natToLE n) = n := leToNat_natToLEAux n n (Nat.le_refl _)

/-- `read_int` inverts `write_int` on every int the writer accepts (all four forms) -/
theorem decInt_encInt (v : Int) (rest : Bytes) (hok : IntOk v) : decInt (encInt v ++ rest) = some (v, rest) := by
  unfold encInt
  by_cases hs : inShort v = true
  · rw [if_pos hs]
    have hs' := hs
    simp only [inShort, Bool.and_eq_true, decide_eq_true_eq] at hs'
    obtain ⟨f, tl, he, hf, hd⟩ := short_rt v rest hs'.1 hs'.2
    rw [he]
    simp only [decInt, hf, ne_eq, not_false_eq_true, if_true, hd]
  · rw [if_neg hs]
    have hes : ((natToLE v.natAbs).length : Int) * 2 + (if v < 0 then 1 else 0) ≤ MAX_FOUR_BYTES_INT := by
      cases hok with
      | inl h => exact absurd h hs
      | inr h => exact h
    have hlo : MIN_FOUR_BYTES_INT ≤ ((natToLE v.natAbs).length : Int) * 2 + (if v < 0 then 1 else 0) := by
      simp only [MIN_FOUR_BYTES_INT]; split <;> omega
    obtain ⟨f, tl, he, _, hd⟩ := short_rt _ (natToLE v.natAbs ++ rest) hlo hes
    unfold encLong
    simp only [List.cons_append, List.append_assoc]
    rw [he]
    have h15 : ¬ ((LONG_INT_TRAILER.toNat : Nat) : Int) ≠ LONG_INT_TRAILER := by simp [LONG_INT_TRAILER]
    simp only [decInt, h15, if_false, hd]
    have hnn : ¬ ((natToLE v.natAbs).length : Int) * 2 + (if v < 0 then 1 else 0) < 0 := by split <;> omega
    simp only [hnn, if_false]
    have hsz : ((((natToLE v.natAbs).length : Int) * 2 + (if v < 0 then 1 else 0)) / 2).toNat
        = (natToLE v.natAbs).length := by split <;> omega
    rw [hsz]
    have hlen : ¬ (natToLE v.natAbs ++ rest).length < (natToLE v.natAbs).length := by
      simp [List.length_append]
    simp only [hlen, if_false, List.take_left', List.drop_left', leToNat_natToLE]
    congr 2
    by_cases hv : v < 0
    · simp only [hv, if_true]
      have h1 : (((natToLE v.natAbs).length : Int) * 2 + 1) % 2 = 1 := by omega
      simp only [h1, if_true]
      omega
    · simp only [hv, if_false]
      have h1 : ¬ (((natToLE v.natAbs).length : Int) * 2 + 0) % 2 = 1 := by omega
      simp only [h1, if_false]
      omega

/-- `read_str`/`read_bytes` invert `write_str`/`write_bytes` (payload of any length the writer accepts) -/
theorem decStr_encStr (s rest : Bytes) (hok : StrOk s) : decStr (encStr s ++ rest) = some (s, rest) := by
  unfold encStr
  have hlo : MIN_FOUR_BYTES_INT ≤ (s.length : Int) := by simp only [MIN_FOUR_BYTES_INT]; omega
  obtain ⟨f, tl, he, hf, hd⟩ := short_rt _ (s ++ rest) hlo hok
  rw [List.append_assoc, he]
  simp only [decStr, hf, if_false, hd]
  have h1 : ¬ (s.length : Int) < 0 := by omega
  simp only [h1, if_false, Int.toNat_natCast]
  have h2 : ¬ (s ++ rest).length < s.length := by simp [List.length_append]
  simp only [h2, if_false, List.take_left', List.drop_left']

theorem decBool_encBool (b : Bool) (rest : Bytes) : decBool (encBool b ++ rest) = some (b, rest) := by
  cases b <;> rfl

theorem decFloat_enc (b rest : Bytes) (h : b.length = 8) : decFloat (b ++ rest) = some (b, rest) := by
  unfold decFloat
  have : ¬ (b ++ rest).length < 8 := by simp [List.length_append, h]
  simp only [this, if_false]
  rw [List.take_left' h, List.drop_left' h]

def pow2 : Nat → Int
  | 0 => 1
  | k + 1 => 2 * pow2 k

theorem pow2_pos (k : Nat) : 0 < pow2 k := by
  induction k with
  | zero => decide
  | succ k ih => simp only [pow2]; omega

theorem packFlags_bounds (bs : List Bool) : ∀ k, bs.length ≤ k → 0 ≤ packFlags bs ∧ packFlags bs < pow2 k := by
  induction bs with
  | nil => intro k _; exact ⟨by simp [packFlags], by simpa [packFlags] using pow2_pos k⟩
  | cons b bs ih =>
    intro k hk
    cases k with
    | zero => simp at hk
    | succ k =>
      have := ih k (by simpa using hk)
      simp only [packFlags, pow2]
      cases b <;> simp <;> omega

theorem unpack_pack (bs : List Bool) : unpackFlags bs.length (packFlags bs) = bs := by
  induction bs with
  | nil => rfl
  | cons b bs ih =>
    simp only [List.length_cons, unpackFlags, packFlags]
    have h2 : ((if b = true then 1 else 0) + 2 * packFlags bs) / 2 = packFlags bs := by
      cases b <;> simp <;> omega
    rw [h2, ih]
    congr 1
    cases b <;> simp <;> omega

/-! ## the codec algebra -/

theorem intOk_of_len (n : Nat) (h : (n : Int) ≤ MAX_FOUR_BYTES_INT) : IntOk (n : Int) := by
  left
  simp only [inShort, Bool.and_eq_true, decide_eq_true_eq]
  refine ⟨?_, h⟩
  simp only [MIN_FOUR_BYTES_INT]; omega

theorem items_rt (d : Bytes → Option (Val × Bytes)) (e : Val → Bytes) (p : Val → Bool)
    (h : ∀ x rest, p x = true → d (e x ++ rest) = some (x, rest)) :
    ∀ v rest, wtItems p v = true → decItems d v.len (encItems e v ++ rest) = some (v, rest) := by
  intro v
  induction v with
  | nil => intro rest _; rfl
  | cons hd tl _ ih2 =>
    intro rest hw
    simp only [wtItems, Bool.and_eq_true] at hw
    simp only [Val.len, encItems, decItems, List.append_assoc, h hd _ hw.1, ih2 rest hw.2]
  | _ => intro rest hw; simp [wtItems] at hw

/-- a dispatch table writes the tag of the variant first -/
theorem enc_table_head (se : String → Val → Bytes) (sw : String → Val → Bool) :
    ∀ c t v, c.isTable = true → wtBody sw c (.variant t v) = true →
      ∃ tl, encBody se c (.variant t v) = t :: tl := by
  intro c
  induction c with
  | alt t0 c0 rest _ ihr =>
    intro t v ht hw
    simp only [C.isTable] at ht
    simp only [wtBody] at hw
    simp only [encBody]
    by_cases e : t = t0
    · subst e; simp
    · simp only [e, if_false, Bool.and_eq_true] at hw ⊢
      exact ihr t v ht hw.2
  | fail => intro t v _ hw; simp [wtBody] at hw
  | _ => intro t v ht hw; simp [C.isTable] at ht

/-- **one level** of `dec_enc`: if the referenced class bodies round-trip, so does every codec -/
theorem body_rt (se : String → Val → Bytes) (sd : String → Bytes → Option (Val × Bytes))
    (sw : String → Val → Bool)
    (hself : ∀ n v rest, sw n v = true → sd n (se n v ++ rest) = some (v, rest)) :
    ∀ c v rest, wtBody sw c v = true → decBody sd c (encBody se c v ++ rest) = some (v, rest) := by
  intro c
  induction c with
  | int =>
    intro v rest hw
    cases v <;> simp only [wtBody, decide_eq_true_eq] at hw <;> try contradiction
    simp only [encBody, decBody, decInt_encInt _ _ hw, Option.map]
  | str =>
    intro v rest hw
    cases v <;> simp only [wtBody, decide_eq_true_eq] at hw <;> try contradiction
    simp only [encBody, decBody, decStr_encStr _ _ hw, Option.map]
  | bytes =>
    intro v rest hw
    cases v <;> simp only [wtBody, decide_eq_true_eq] at hw <;> try contradiction
    simp only [encBody, decBody, decStr_encStr _ _ hw, Option.map]
  | float =>
    intro v rest hw
    cases v <;> simp only [wtBody, beq_iff_eq] at hw <;> try contradiction
    simp only [encBody, decBody, decFloat_enc _ _ hw, Option.map]
  | bool =>
    intro v rest hw
    cases v <;> simp only [wtBody] at hw <;> try contradiction
    simp only [encBody, decBody, decBool_encBool, Option.map]
  | lit t =>
    intro v rest hw
    cases v <;> simp only [wtBody] at hw <;> try contradiction
    simp [encBody, decBody]
  | flags n =>
    intro v rest hw
    cases v <;> simp only [wtBody, Bool.and_eq_true, beq_iff_eq, decide_eq_true_eq] at hw <;> try contradiction
    rename_i bs
    obtain ⟨hl, hn⟩ := hw
    have hb := packFlags_bounds bs 26 (by omega)
    have h26 : pow2 26 = 67108864 := by decide
    rw [h26] at hb
    have hok : IntOk (packFlags bs) := by
      left
      simp only [inShort, Bool.and_eq_true, decide_eq_true_eq]
      simp only [MIN_FOUR_BYTES_INT, MAX_FOUR_BYTES_INT]
      omega
    simp only [encBody, decBody, List.cons_append, if_true, decInt_encInt _ _ hok, Option.map]
    rw [← hl, unpack_pack]
  | field name c ih =>
    intro v rest hw
    cases v <;> simp only [wtBody, Bool.and_eq_true, beq_iff_eq] at hw <;> try contradiction
    obtain ⟨hn, hw⟩ := hw
    simp only [encBody, decBody, ih _ rest hw, Option.map, hn]
  | unit =>
    intro v rest hw
    cases v <;> simp only [wtBody] at hw <;> try contradiction
    simp [encBody, decBody]
  | pair a b iha ihb =>
    intro v rest hw
    cases v <;> simp only [wtBody, Bool.and_eq_true] at hw <;> try contradiction
    simp only [encBody, decBody, List.append_assoc, iha _ _ hw.1, ihb _ _ hw.2]
  | list c ih =>
    intro v rest hw
    simp only [wtBody, Bool.and_eq_true, decide_eq_true_eq] at hw
    simp only [encBody, decBody, List.append_assoc, decInt_encInt _ _ (intOk_of_len _ hw.1)]
    have : ¬ ((v.len : Nat) : Int) < 0 := by omega
    simp only [this, if_false, Int.toNat_natCast]
    exact items_rt _ _ _ (fun x r hx => ih x r hx) v rest hw.2
  | fail =>
    intro v rest hw
    cases v <;> simp [wtBody] at hw
  | alt t c r ihc ihr =>
    intro v rest hw
    cases v <;> simp only [wtBody] at hw <;> try contradiction
    rename_i t' v'
    by_cases e : t' = t
    · subst e
      simp only [if_true] at hw
      simp only [encBody, if_true, List.cons_append, decBody, ihc _ _ hw, Option.map]
    · simp only [e, if_false, Bool.and_eq_true] at hw
      obtain ⟨tl, htl⟩ := enc_table_head se sw r t' v' hw.1 hw.2
      have := ihr _ rest hw.2
      simp only [encBody, e, if_false]
      rw [htl] at this ⊢
      simp only [List.cons_append, decBody, e, if_false] at this ⊢
      exact this
  | ref n =>
    intro v rest hw
    simp only [wtBody] at hw
    simp only [encBody, decBody, hself n v rest hw]

/-- **dec_enc** for the whole algebra with recursive class references -/
theorem dec_enc_aux (env : Env) : ∀ (fuel : Nat) (c : C) (v : Val) (rest : Bytes),
    wt env fuel c v = true → dec env fuel c (enc env fuel c v ++ rest) = some (v, rest) := by
  intro fuel
  induction fuel with
  | zero => intro c v rest h; simp [wt] at h
  | succ f ih =>
    intro c v rest h
    exact body_rt _ _ _ (fun n v rest hw => ih (env n) v rest hw) c v rest h

/-! ## reader narrower than writer (`sub`) -/

theorem enc_table_lookup (se : String → Val → Bytes) :
    ∀ w t wb v, w.isTable = true → w.lookup t = some wb →
      encBody se w (.variant t v) = t :: encBody se wb v := by
  intro w
  induction w with
  | alt t0 c0 rest _ ihr =>
    intro t wb v ht hl
    simp only [C.isTable] at ht
    simp only [C.lookup] at hl
    by_cases e : t = t0
    · subst e
      simp only [if_true, Option.some.injEq] at hl
      subst hl
      simp [encBody]
    · simp only [e, if_false] at hl
      simp only [encBody, e, if_false]
      exact ihr t wb v ht hl
  | _ => intro t wb v ht hl; simp [C.lookup] at hl

theorem sub_lookup (sw : String → Val → Bool) :
    ∀ r w t v, r.isTable = true → wtBody sw r (.variant t v) = true → sub r w = true →
      ∃ wb, w.lookup t = some wb := by
  intro r
  induction r with
  | alt t0 c0 rest _ ihr =>
    intro w t v ht hw hs
    simp only [C.isTable] at ht
    simp only [sub, Bool.and_eq_true] at hs
    simp only [wtBody] at hw
    by_cases e : t = t0
    · subst e
      cases hl : w.lookup t with
      | none => simp [hl] at hs
      | some wb => exact ⟨wb, rfl⟩
    · simp only [e, if_false, Bool.and_eq_true] at hw
      exact ihr w t v ht hw.2 hs.2
  | fail => intro w t v _ hw _; simp [wtBody] at hw
  | _ => intro w t v ht _ _; simp [C.isTable] at ht

/-- one level of `schema_roundtrip`: the writer uses codec `w`, the reader codec `r`, and `sub r w` -/
theorem body_sub_rt (se : String → Val → Bytes) (sd : String → Bytes → Option (Val × Bytes))
    (sw : String → Val → Bool)
    (hself : ∀ n v rest, sw n v = true → sd n (se n v ++ rest) = some (v, rest)) :
    ∀ r w v rest, sub r w = true → wtBody sw r v = true →
      decBody sd r (encBody se w v ++ rest) = some (v, rest) := by
  intro r
  induction r with
  | int | str | bytes | float | bool | unit =>
    intro w v rest hs hw
    cases w <;> simp only [sub] at hs <;> try contradiction
    exact body_rt se sd sw hself _ v rest hw
  | lit a =>
    intro w v rest hs hw
    cases w <;> simp only [sub, beq_iff_eq] at hs <;> try contradiction
    subst hs
    exact body_rt se sd sw hself _ v rest hw
  | flags a =>
    intro w v rest hs hw
    cases w <;> simp only [sub, beq_iff_eq] at hs <;> try contradiction
    subst hs
    exact body_rt se sd sw hself _ v rest hw
  | field name c ih =>
    intro w v rest hs hw
    cases w <;> simp only [sub, Bool.and_eq_true, beq_iff_eq] at hs <;> try contradiction
    cases v <;> simp only [wtBody, Bool.and_eq_true, beq_iff_eq] at hw <;> try contradiction
    simp only [encBody, decBody, ih _ _ rest hs.2 hw.2, Option.map, hw.1]
  | pair a b iha ihb =>
    intro w v rest hs hw
    cases w <;> simp only [sub, Bool.and_eq_true] at hs <;> try contradiction
    cases v <;> simp only [wtBody, Bool.and_eq_true] at hw <;> try contradiction
    simp only [encBody, decBody, List.append_assoc, iha _ _ _ hs.1 hw.1, ihb _ _ _ hs.2 hw.2]
  | list c ih =>
    intro w v rest hs hw
    cases w <;> simp only [sub] at hs <;> try contradiction
    simp only [wtBody, Bool.and_eq_true, decide_eq_true_eq] at hw
    simp only [encBody, decBody, List.append_assoc, decInt_encInt _ _ (intOk_of_len _ hw.1)]
    have : ¬ ((v.len : Nat) : Int) < 0 := by omega
    simp only [this, if_false, Int.toNat_natCast]
    exact items_rt _ _ _ (fun x r hx => ih _ x r hs hx) v rest hw.2
  | fail =>
    intro w v rest _ hw
    cases v <;> simp [wtBody] at hw
  | alt t c r ihc ihr =>
    intro w v rest hs hw
    simp only [sub, Bool.and_eq_true] at hs
    obtain ⟨⟨hwt, hlk⟩, hrest⟩ := hs
    cases v <;> simp only [wtBody] at hw <;> try contradiction
    rename_i t' v'
    by_cases e : t' = t
    · subst e
      simp only [if_true] at hw
      cases hl : w.lookup t' with
      | none => simp [hl] at hlk
      | some wb =>
        simp only [hl] at hlk
        rw [enc_table_lookup se w t' wb v' hwt hl]
        simp only [List.cons_append, decBody, if_true, ihc _ _ _ hlk hw, Option.map]
    · simp only [e, if_false, Bool.and_eq_true] at hw
      obtain ⟨wb, hl⟩ := sub_lookup sw r w t' v' hw.1 hw.2 hrest
      have := ihr w _ rest hrest hw.2
      rw [enc_table_lookup se w t' wb v' hwt hl] at this ⊢
      simp only [List.cons_append, decBody, e, if_false] at this ⊢
      exact this
  | ref n =>
    intro w v rest hs hw
    cases w <;> simp only [sub, beq_iff_eq] at hs <;> try contradiction
    subst hs
    simp only [wtBody] at hw
    simp only [encBody, decBody, hself n v rest hw]

/-- writer environment `envW`, reader environment `envR`, pointwise `sub` -/
theorem sub_rt_aux (envW envR : Env) (henv : ∀ n, sub (envR n) (envW n) = true) :
    ∀ (fuel : Nat) (r w : C) (v : Val) (rest : Bytes), sub r w = true → wt envR fuel r v = true →
      dec envR fuel r (enc envW fuel w v ++ rest) = some (v, rest) := by
  intro fuel
  induction fuel with
  | zero => intro r w v rest _ h; simp [wt] at h
  | succ f ih =>
    intro r w v rest hs h
    exact body_sub_rt _ _ _ (fun n v rest hw => ih (envR n) (envW n) v rest (henv n) hw) r w v rest hs h

/-! ## environments given as association lists -/

theorem env_sub (l : List (String × C × C)) (h : (l.all fun e => sub e.2.2 e.2.1) = true) :
    ∀ n, sub (envOfR l n) (envOfW l n) = true := by
  intro n
  unfold envOfR envOfW
  cases hf : l.find? (fun e => e.1 == n) with
  | none => rfl
  | some e =>
    have hm : e ∈ l := List.mem_of_find?_eq_some hf
    exact List.all_eq_true.mp h e hm

/-! ## sorted-key maps: bytes do not depend on insertion order -/

theorem bytesLt_irrefl : ∀ a : List Nat, bytesLt a a = false := by
  intro a
  induction a with
  | nil => rfl
  | cons x xs ih => simp [bytesLt, ih]

theorem bytesLt_asymm : ∀ a b : List Nat, bytesLt a b = true → bytesLt b a = false := by
  intro a
  induction a with
  | nil => intro b h; cases b <;> simp [bytesLt] at h ⊢
  | cons x xs ih =>
    intro b h
    cases b with
    | nil => simp [bytesLt] at h
    | cons y ys =>
      simp only [bytesLt] at h ⊢
      by_cases h1 : x < y
      · have : ¬ y < x := by omega
        simp [this, h1]
      · by_cases h2 : y < x
        · simp [h1, h2] at h
        · simp only [h1, h2, if_false] at h ⊢
          exact ih ys h

theorem bytesLt_total : ∀ a b : List Nat, a ≠ b → bytesLt a b = true ∨ bytesLt b a = true := by
  intro a
  induction a with
  | nil => intro b h; cases b with
    | nil => exact absurd rfl h
    | cons y ys => left; rfl
  | cons x xs ih =>
    intro b h
    cases b with
    | nil => right; rfl
    | cons y ys =>
      simp only [bytesLt]
      by_cases h1 : x < y
      · left; simp [h1]
      · by_cases h2 : y < x
        · right; simp [h2]
        · have hxy : x = y := by omega
          subst hxy
          have hne : xs ≠ ys := fun e => h (by rw [e])
          simp only [h1, if_false]
          exact ih ys hne

theorem bytesLt_trans : ∀ a b c : List Nat, bytesLt a b = true → bytesLt b c = true → bytesLt a c = true := by
  intro a
  induction a with
  | nil =>
    intro b c h1 h2
    cases b with
    | nil => simp [bytesLt] at h1
    | cons y ys => cases c with
      | nil => simp [bytesLt] at h2
      | cons z zs => rfl
  | cons x xs ih =>
    intro b c h1 h2
    cases b with
    | nil => simp [bytesLt] at h1
    | cons y ys =>
      cases c with
      | nil => simp [bytesLt] at h2
      | cons z zs =>
        simp only [bytesLt] at h1 h2 ⊢
        by_cases a1 : x < y
        · by_cases b1 : y < z
          · have : x < z := by omega
            simp [this]
          · by_cases b2 : z < y
            · simp [b1, b2] at h2
            · have : y = z := by omega
              subst this; simp [a1]
        · by_cases a2 : y < x
          · simp [a1, a2] at h1
          · have hxy : x = y := by omega
            subst hxy
            simp only [a1, if_false] at h1
            by_cases b1 : x < z
            · simp [b1]
            · by_cases b2 : z < x
              · simp [b1, b2] at h2
              · simp only [b1, b2, if_false] at h2 ⊢
                exact ih ys zs h1 h2

/-- `¬ z < x` means `x ≤ z` -/
theorem bytesLt_of_not (x z y : Bytes) (h1 : bytesLt z x = false) (h2 : bytesLt z y = true) : bytesLt x y = true := by
  by_cases e : x = z
  · subst e; exact h2
  · cases bytesLt_total x z e with
    | inl h => exact bytesLt_trans x z y h h2
    | inr h => rw [h] at h1; cases h1

theorem insertKV_comm (x y : Bytes × Val) (hk : x.1 ≠ y.1) : ∀ l,
    insertKV x (insertKV y l) = insertKV y (insertKV x l) := by
  intro l
  induction l with
  | nil =>
    simp only [insertKV]
    cases hxy : bytesLt x.1 y.1 with
    | true =>
      have := bytesLt_asymm _ _ hxy
      simp [this]
    | false =>
      cases bytesLt_total x.1 y.1 hk with
      | inl h => rw [h] at hxy; cases hxy
      | inr h => simp [h]
  | cons z zs ih =>
    simp only [insertKV]
    cases hzy : bytesLt z.1 y.1 with
    | true =>
      cases hzx : bytesLt z.1 x.1 with
      | true => simp [insertKV, hzx, hzy, ih]
      | false =>
        have hxy : bytesLt x.1 y.1 = true := bytesLt_of_not _ _ _ hzx hzy
        simp [insertKV, hzx, hzy, hxy]
    | false =>
      cases hzx : bytesLt z.1 x.1 with
      | true =>
        have hyx : bytesLt y.1 x.1 = true := bytesLt_of_not _ _ _ hzy hzx
        simp [insertKV, hzx, hzy, hyx]
      | false =>
        cases hxy : bytesLt x.1 y.1 with
        | true =>
          have := bytesLt_asymm _ _ hxy
          simp [insertKV, this, hzy, hzx, hxy]
        | false =>
          cases bytesLt_total x.1 y.1 hk with
          | inl h => rw [h] at hxy; cases hxy
          | inr h => simp [insertKV, h, hzx, hzy, hxy]

/-- distinct keys -/
def KeysNodup (m : List (Bytes × Val)) : Prop := (m.map (·.1)).Nodup

theorem sortKV_perm {m1 m2 : List (Bytes × Val)} (hp : m1.Perm m2) (hd : KeysNodup m1) :
    sortKV m1 = sortKV m2 := by
  induction hp with
  | nil => rfl
  | cons x _ ih =>
    simp only [sortKV]
    rw [ih (by unfold KeysNodup at hd ⊢; simp only [List.map_cons, List.nodup_cons] at hd; exact hd.2)]
  | swap x y l =>
    simp only [sortKV]
    apply insertKV_comm
    unfold KeysNodup at hd
    simp only [List.map_cons, List.nodup_cons, List.mem_cons, not_or] at hd
    exact fun e => hd.1.1 e
  | trans h1 _ ih1 ih2 =>
    rw [ih1 hd]
    apply ih2
    unfold KeysNodup at hd ⊢
    exact (h1.map _).nodup_iff.mp hd

end Codec
