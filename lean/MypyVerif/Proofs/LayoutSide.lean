import MypyVerif.Proofs.LayoutList
/-!
Unpacking the decidable side conditions of the C18 theorems (`importable`, `spells`, `noInnerBase`, …) into the
hypotheses of the lemmas in Proofs/LayoutRound.lean.
-/
namespace Layout

theorem snoc_of_ne_nil {m : List Name} (h : m ≠ []) : ∃ dc x, m = dc ++ [x] :=
  ⟨m.dropLast, m.getLast h, (List.dropLast_concat_getLast h).symm⟩

theorem importable_snoc {dc : List Name} {x : Name} (h : importable (dc ++ [x]) = true) :
    (∀ c ∈ dc, isIdent c = true) ∧ isIdent x = true ∧ x ≠ sInit := by
  simp only [importable, Bool.and_eq_true, List.all_eq_true, List.mem_append, List.mem_singleton,
    bne_iff_ne, ne_eq] at h
  exact ⟨fun c hc => (h.2 c (Or.inl hc)).1, (h.2 x (Or.inr rfl)).1, (h.2 x (Or.inr rfl)).2⟩

theorem spells_snoc {B : Path} {dc : List Name} {x : Name} {f : Path} (h : spells B (dc ++ [x]) f = true) :
    spellsAt (B ++ dc) x f := by
  simp only [spells, getLast?_snoc, List.dropLast_concat, pkgFiles, modFiles, List.tail_cons,
    Bool.or_eq_true, List.contains_eq_mem, List.mem_cons, List.not_mem_nil, or_false, decide_eq_true_eq] at h
  unfold spellsAt
  rcases h with (h | h) | (h | h)
  · exact Or.inl h
  · exact Or.inr (Or.inl h)
  · exact Or.inr (Or.inr (Or.inl h))
  · exact Or.inr (Or.inr (Or.inr h))

theorem noInnerBase_snoc {o : Opts} {roots : List Path} {dc : List Name} {x : Name}
    (h : noInnerBase o roots (dc ++ [x]) = true) :
    ∀ R ∈ roots, noBaseBelow o R (x :: dc.reverse) = true ∧ o.isBase (R ++ dc ++ [x ++ sStubs]) = false := by
  intro R hR
  simp only [noInnerBase, List.all_eq_true, Bool.and_eq_true, Bool.not_eq_true'] at h
  have := h R hR
  simpa using this

theorem isPyArg_candidate {bd : Path} {x : Name} {g : Path} (h : g ∈ pkgFiles bd x ++ modFiles bd x) :
    isPyArg g = true := by
  simp only [pkgFiles, modFiles, List.cons_append, List.nil_append, List.mem_cons, List.mem_nil_iff, or_false] at h
  rcases h with rfl | rfl | rfl | rfl | rfl
  · have : (bd ++ [x ++ sStubs, initPyi]).getLast? = some initPyi := by simp
    simp [isPyArg, this, endsPy_initPyi]
  · have : (bd ++ [x, initPyi]).getLast? = some initPyi := by simp
    simp [isPyArg, this, endsPy_initPyi]
  · have : (bd ++ [x, initPy]).getLast? = some initPy := by simp
    simp [isPyArg, this, endsPy_initPy]
  · simp [isPyArg, endsPy_pyi]
  · simp [isPyArg, endsPy_py]

theorem modId_of_importable {s : Src} (h : importable s.module = true) : s.modId = s.module := by
  have hne : s.module ≠ [] := by
    intro he; rw [he] at h; simp [importable] at h
  have hid : ∀ c ∈ s.module, isIdent c = true := by
    simp only [importable, Bool.and_eq_true, List.all_eq_true] at h
    exact fun c hc => (h.2 c hc).1
  have : s.srcModule = s.module := by
    unfold Src.srcModule
    cases hm : s.module with
    | nil => exact absurd hm hne
    | cons a b => rfl
  rw [Src.modId, this, searchComps_ident hid]


end Layout
