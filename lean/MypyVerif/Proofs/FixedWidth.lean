import MypyVerif.Proofs.CFastW
import MypyVerif.Model.FixedWidth
/-!
# C15 — lemmas about the hand model of the Python-side lowering (`Model/FixedWidth.lean`)
-/
set_option maxRecDepth 4000
set_option linter.unusedSimpArgs false
set_option linter.unusedVariables false
namespace CFastProofs
open CFast Tagged CSem FixedWidth

/-! ## compare_tagged -/

theorem isLongWord_eq (x : BitVec 64) : isLongWord x = decide (¬ isShort x) := by
  unfold isLongWord isShort
  have h : (x &&& 1#64).toNat = x.toNat % 2 := by simp [BitVec.toNat_and, Nat.and_one_is_mod]
  by_cases hs : x.toNat % 2 = 0
  · have : x &&& 1#64 = 0#64 := by apply BitVec.eq_of_toNat_eq; rw [h, hs]; rfl
    simp [this, hs]
  · have : x &&& 1#64 ≠ 0#64 := by
      intro e; apply hs; rw [← h, e]; rfl
    simp [this, hs]

/-- `compare_tagged` with the regenerated `int_comparison_op_mapping` computes Python's comparison, for all
    pairs of words (short or long) — given the specification of `CPyTagged_IsEq_` / `CPyTagged_IsLt_`. -/
theorem compareTagged_total (V : Valuation) (l r : BitVec 64) :
    ∀ row ∈ intComparisonOpMapping,
      denoteBool V (compareTagged row l r) = .bool (pyCmp row.1 (V.val l) (V.val r)) := by
  intro row hrow
  simp only [intComparisonOpMapping, List.mem_cons, List.mem_nil_iff, or_false] at hrow
  by_cases hl : isShort l <;> by_cases hr : isShort r
  all_goals
    rcases hrow with h | h | h | h | h | h <;> subst h <;>
    simp [compareTagged, isLongWord_eq, hl, hr, cmpVariant, pyCmp, denoteBool, denoteCall, slowSpec,
      SlowVal.negate]

  all_goals first
    | (rw [← decide_not]; apply decide_eq_decide.2; omega)
    | exact short_beq_val V l r hl
    | (simp only [bne, short_beq_val V l r hl])
    | (rw [val_short V l hl, val_short V r hr]
       have h1 := short_toInt l hl
       have h2 := short_toInt r hr
       simp only [BitVec.slt_eq_decide, BitVec.sle_eq_decide]
       apply decide_eq_decide.2; omega)

/-- all six comparison operators are in the table -/
theorem comparison_table_complete :
    ["==", "!=", "<", "<=", ">", ">="].all (fun op => intComparisonOpMapping.any (fun row => row.1 == op)) = true := by
  decide

/-! ## IntOp on fixed-width registers (generic in the width) -/

theorem bmod_of_inRange (w : Nat) (n : Int) (h : InRange w true n) : n.bmod (2 ^ w) = n := by
  unfold InRange at h
  simp only [if_true] at h
  exact Int.bmod_eq_of_le_mul_two (by omega) (by omega)

/-! signed `+ - *` and unary `-`: exact whenever the exact result fits -/
theorem signed_add_exact {w : Nat} (a b : BitVec w) (h : InRange w true (a.toInt + b.toInt)) :
    fwVal true (intOp true .add a b) = fwVal true a + fwVal true b := by
  simp only [fwVal, intOp, if_true]
  rw [BitVec.toInt_add, bmod_of_inRange w _ h]

theorem signed_sub_exact {w : Nat} (a b : BitVec w) (h : InRange w true (a.toInt - b.toInt)) :
    fwVal true (intOp true .sub a b) = fwVal true a - fwVal true b := by
  simp only [fwVal, intOp, if_true]
  rw [BitVec.toInt_sub, bmod_of_inRange w _ h]

theorem signed_mul_exact {w : Nat} (a b : BitVec w) (h : InRange w true (a.toInt * b.toInt)) :
    fwVal true (intOp true .mul a b) = fwVal true a * fwVal true b := by
  simp only [fwVal, intOp, if_true]
  rw [BitVec.toInt_mul, bmod_of_inRange w _ h]

theorem signed_neg_exact {w : Nat} (a : BitVec w) (h : InRange w true (-a.toInt)) :
    fwVal true (neg a) = -fwVal true a := by
  simp only [fwVal, neg, if_true]
  rw [BitVec.toInt_sub]
  have : (0#w : BitVec w).toInt = 0 := by simp
  rw [this, Int.zero_sub, bmod_of_inRange w _ h]

/-! unsigned `+ - *`: wrap modulo `2^w` (`u8`: modulo 256) -/
theorem unsigned_add_wrap {w : Nat} (a b : BitVec w) :
    fwVal false (intOp false .add a b) = (fwVal false a + fwVal false b) % ((2 ^ w : Nat) : Int) := by
  simp only [fwVal, intOp, Bool.false_eq_true, if_false]
  rw [BitVec.toNat_add, Int.natCast_emod, Int.natCast_add]

theorem unsigned_mul_wrap {w : Nat} (a b : BitVec w) :
    fwVal false (intOp false .mul a b) = (fwVal false a * fwVal false b) % ((2 ^ w : Nat) : Int) := by
  simp only [fwVal, intOp, Bool.false_eq_true, if_false]
  rw [BitVec.toNat_mul, Int.natCast_emod, Int.natCast_mul]

theorem unsigned_sub_wrap {w : Nat} (a b : BitVec w) :
    fwVal false (intOp false .sub a b) = (fwVal false a - fwVal false b) % ((2 ^ w : Nat) : Int) := by
  simp only [fwVal, intOp, Bool.false_eq_true, if_false]
  rw [BitVec.toNat_sub, Int.natCast_emod]
  have hb := b.isLt
  have : ((2 ^ w - b.toNat + a.toNat : Nat) : Int) = ((a.toNat : Int) - b.toNat) + ((2 ^ w : Nat) : Int) * 1 := by
    omega
  rw [this, Int.add_mul_emod_self_left]

/-! shifts: `<<` exact whenever the product fits; `>>` always exact (floor) -/
theorem signed_shl_exact {w : Nat} (a : BitVec w) (k : Nat)
    (h : InRange w true (a.toInt * ((2 ^ k : Nat) : Int))) :
    (a <<< k).toInt = a.toInt * ((2 ^ k : Nat) : Int) := by
  rw [BitVec.toInt_shiftLeft, Nat.shiftLeft_eq, Int.natCast_mul]
  have h1 := bmod_of_inRange w _ h
  rw [← h1, BitVec.toInt_eq_toNat_bmod, Int.bmod_mul_bmod]

theorem unsigned_shl_exact {w : Nat} (a : BitVec w) (k : Nat) (h : a.toNat * 2 ^ k < 2 ^ w) :
    (a <<< k).toNat = a.toNat * 2 ^ k := by
  rw [BitVec.toNat_shiftLeft, Nat.shiftLeft_eq, Nat.mod_eq_of_lt h]

theorem signed_shr_exact {w : Nat} (a : BitVec w) (k : Nat) :
    (a.sshiftRight k).toInt = a.toInt / ((2 ^ k : Nat) : Int) := by
  rw [BitVec.toInt_sshiftRight, Int.shiftRight_eq_div_pow]

theorem unsigned_shr_exact {w : Nat} (a : BitVec w) (k : Nat) :
    (a >>> k).toNat = a.toNat / 2 ^ k := by
  rw [BitVec.toNat_ushiftRight, Nat.shiftRight_eq_div_pow]

/-! `u8` division and modulo -/
theorem u8Divide_spec (a b : BitVec 8) :
    u8Divide a b = if b.toNat = 0 then .raise "ZeroDivisionError" 239#8 else .fast (a / b) := by
  unfold u8Divide
  by_cases h : b = 0#8
  · subst h; simp
  · have : b.toNat ≠ 0 := fun e => h (BitVec.eq_of_toNat_eq (by simpa using e))
    simp [h, this]

theorem u8Mod_spec (a b : BitVec 8) :
    u8Mod a b = if b.toNat = 0 then .raise "ZeroDivisionError" 239#8 else .fast (a % b) := by
  unfold u8Mod
  by_cases h : b = 0#8
  · subst h; simp
  · have : b.toNat ≠ 0 := fun e => h (BitVec.eq_of_toNat_eq (by simpa using e))
    simp [h, this]

/-! ## inline_fixed_width_divide / inline_fixed_width_mod -/

theorem inlineDivide_exact64 (a c : BitVec 64) (h0 : c.toInt ≠ 0) (h1 : c.toInt ≠ -1) :
    (inlineDivide a c).toInt = a.toInt.fdiv c.toInt := by
  unfold inlineDivide
  simp only [beq_eq, BitVec.slt_eq_decide, lit_zero]
  have hba := toInt_bounds a
  have hbc := toInt_bounds c
  generalize hq' : BitVec.sdiv a c = q
  have hq : q.toInt = a.toInt.tdiv c.toInt := by
    rw [← hq']
    apply BitVec.toInt_sdiv_of_ne_or_ne; right
    intro e; apply h1; rw [e]; decide
  generalize hx : a.toInt = x at *
  generalize hy : c.toInt = y at *
  obtain ⟨hdm, hm0, hm1, hm2, hm3⟩ := tmod_facts x y h0
  have hfd := fdiv_of_tdiv x y h0
  have htb := tdiv_abs_le x y
  have hth : x.tmod y ≠ 0 → 2 * (x.tdiv y).natAbs ≤ x.natAbs := tdiv_abs_half x y h0
  generalize ht : x.tdiv y = t at *
  generalize hmm : x.tmod y = m at *
  have hprod : q.toInt * c.toInt = y * t := by rw [hq, hy]; ac_rfl
  have hqc : (q * c).toInt = y * t := toInt_mul_cases q c _ hprod (by omega)
  have hsub : (q - 1#64).toInt = t - 1 ∨ t = -9223372036854775808 := by
    have := toInt_sub_cases q 1#64
    have := toInt_bounds (q - 1#64)
    rw [lit_one, hq] at *
    omega
  simp only [hqc]
  split
  · rename_i c1; simp at c1
    rw [hq]; split at hfd <;> omega
  · rename_i c1; simp at c1
    split
    · rename_i c2; simp at c2
      rw [hq]; split at hfd <;> omega
    · rename_i c2; simp at c2
      split at hfd <;> omega

theorem inlineMod_exact64 (a c : BitVec 64) (h0 : c.toInt ≠ 0) :
    (inlineMod a c).toInt = a.toInt.fmod c.toInt := by
  unfold inlineMod
  simp only [beq_eq, BitVec.slt_eq_decide, lit_zero]
  have hba := toInt_bounds a
  have hbc := toInt_bounds c
  have hrem : (BitVec.srem a c).toInt = a.toInt.tmod c.toInt := BitVec.toInt_srem a c
  generalize BitVec.srem a c = q at *
  generalize hx : a.toInt = x at *
  generalize hy : c.toInt = y at *
  obtain ⟨hdm, hm0, hm1, hm2, hm3⟩ := tmod_facts x y h0
  have hfm := fmod_of_tmod x y h0
  generalize hmm : x.tmod y = m at *
  have hadd := toInt_add_cases q c
  have hbqc := toInt_bounds (q + c)
  rw [hrem, hy] at hadd
  simp only [hrem]
  split
  · rename_i c1; simp at c1
    rw [hrem]; split at hfm <;> omega
  · rename_i c1; simp at c1
    split
    · rename_i c2; simp at c2
      rw [hrem]; split at hfm <;> omega
    · rename_i c2; simp at c2
      split at hfm <;> omega

/-! ### the same at 32 and 16 bits (literals replaced) -/

theorem inlineDivide_exact32 (a c : BitVec 32) (h0 : c.toInt ≠ 0) (h1 : c.toInt ≠ -1) :
    (inlineDivide a c).toInt = a.toInt.fdiv c.toInt := by
  unfold inlineDivide
  simp only [beq_eq32, BitVec.slt_eq_decide, lit_zero32]
  have hba := toInt_bounds32 a
  have hbc := toInt_bounds32 c
  generalize hq' : BitVec.sdiv a c = q
  have hq : q.toInt = a.toInt.tdiv c.toInt := by
    rw [← hq']
    apply BitVec.toInt_sdiv_of_ne_or_ne; right
    intro e; apply h1; rw [e]; decide
  generalize hx : a.toInt = x at *
  generalize hy : c.toInt = y at *
  obtain ⟨hdm, hm0, hm1, hm2, hm3⟩ := tmod_facts x y h0
  have hfd := fdiv_of_tdiv x y h0
  have htb := tdiv_abs_le x y
  have hth : x.tmod y ≠ 0 → 2 * (x.tdiv y).natAbs ≤ x.natAbs := tdiv_abs_half x y h0
  generalize ht : x.tdiv y = t at *
  generalize hmm : x.tmod y = m at *
  have hprod : q.toInt * c.toInt = y * t := by rw [hq, hy]; ac_rfl
  have hqc : (q * c).toInt = y * t := toInt_mul_cases32 q c _ hprod (by omega)
  have hsub : (q - 1#32).toInt = t - 1 ∨ t = -2147483648 := by
    have := toInt_sub_cases32 q 1#32
    have := toInt_bounds32 (q - 1#32)
    rw [lit_one32, hq] at *
    omega
  simp only [hqc]
  split
  · rename_i c1; simp at c1
    rw [hq]; split at hfd <;> omega
  · rename_i c1; simp at c1
    split
    · rename_i c2; simp at c2
      rw [hq]; split at hfd <;> omega
    · rename_i c2; simp at c2
      split at hfd <;> omega

theorem inlineMod_exact32 (a c : BitVec 32) (h0 : c.toInt ≠ 0) :
    (inlineMod a c).toInt = a.toInt.fmod c.toInt := by
  unfold inlineMod
  simp only [beq_eq32, BitVec.slt_eq_decide, lit_zero32]
  have hba := toInt_bounds32 a
  have hbc := toInt_bounds32 c
  have hrem : (BitVec.srem a c).toInt = a.toInt.tmod c.toInt := BitVec.toInt_srem a c
  generalize BitVec.srem a c = q at *
  generalize hx : a.toInt = x at *
  generalize hy : c.toInt = y at *
  obtain ⟨hdm, hm0, hm1, hm2, hm3⟩ := tmod_facts x y h0
  have hfm := fmod_of_tmod x y h0
  generalize hmm : x.tmod y = m at *
  have hadd := toInt_add_cases32 q c
  have hbqc := toInt_bounds32 (q + c)
  rw [hrem, hy] at hadd
  simp only [hrem]
  split
  · rename_i c1; simp at c1
    rw [hrem]; split at hfm <;> omega
  · rename_i c1; simp at c1
    split
    · rename_i c2; simp at c2
      rw [hrem]; split at hfm <;> omega
    · rename_i c2; simp at c2
      split at hfm <;> omega

theorem toInt_add_cases16 (a b : BitVec 16) :
    (a + b).toInt = a.toInt + b.toInt ∨ (a + b).toInt = a.toInt + b.toInt - 65536
    ∨ (a + b).toInt = a.toInt + b.toInt + 65536 := by
  have h := BitVec.toInt_add a b
  rw [Int.bmod_def] at h
  have ha := toInt_bounds16 a; have hb := toInt_bounds16 b
  split at h <;> omega

theorem toInt_sub_cases16 (a b : BitVec 16) :
    (a - b).toInt = a.toInt - b.toInt ∨ (a - b).toInt = a.toInt - b.toInt - 65536
    ∨ (a - b).toInt = a.toInt - b.toInt + 65536 := by
  have h := @BitVec.toInt_sub 16 a b
  rw [Int.bmod_def] at h
  have ha := toInt_bounds16 a; have hb := toInt_bounds16 b
  split at h <;> omega

theorem beq_eq16 (a b : BitVec 16) : (a == b) = decide (a.toInt = b.toInt) := by
  by_cases h : a = b
  · subst h; simp
  · have : a.toInt ≠ b.toInt := fun e => h (BitVec.toInt_inj.1 e)
    simp [h, this]

theorem toInt_mul_cases16 (a b : BitVec 16) (p : Int) (hp : a.toInt * b.toInt = p)
    (h : -32768 ≤ p ∧ p < 32768) : (a * b).toInt = p := by
  rw [BitVec.toInt_mul, hp, Int.bmod_def]
  split <;> omega

theorem lit_zero16 : (0#16 : BitVec 16).toInt = 0 := by decide
theorem lit_one16 : (1#16 : BitVec 16).toInt = 1 := by decide

theorem inlineDivide_exact16 (a c : BitVec 16) (h0 : c.toInt ≠ 0) (h1 : c.toInt ≠ -1) :
    (inlineDivide a c).toInt = a.toInt.fdiv c.toInt := by
  unfold inlineDivide
  simp only [beq_eq16, BitVec.slt_eq_decide, lit_zero16]
  have hba := toInt_bounds16 a
  have hbc := toInt_bounds16 c
  generalize hq' : BitVec.sdiv a c = q
  have hq : q.toInt = a.toInt.tdiv c.toInt := by
    rw [← hq']
    apply BitVec.toInt_sdiv_of_ne_or_ne; right
    intro e; apply h1; rw [e]; decide
  generalize hx : a.toInt = x at *
  generalize hy : c.toInt = y at *
  obtain ⟨hdm, hm0, hm1, hm2, hm3⟩ := tmod_facts x y h0
  have hfd := fdiv_of_tdiv x y h0
  have htb := tdiv_abs_le x y
  have hth : x.tmod y ≠ 0 → 2 * (x.tdiv y).natAbs ≤ x.natAbs := tdiv_abs_half x y h0
  generalize ht : x.tdiv y = t at *
  generalize hmm : x.tmod y = m at *
  have hprod : q.toInt * c.toInt = y * t := by rw [hq, hy]; ac_rfl
  have hqc : (q * c).toInt = y * t := toInt_mul_cases16 q c _ hprod (by omega)
  have hsub : (q - 1#16).toInt = t - 1 ∨ t = -32768 := by
    have := toInt_sub_cases16 q 1#16
    have := toInt_bounds16 (q - 1#16)
    rw [lit_one16, hq] at *
    omega
  simp only [hqc]
  split
  · rename_i c1; simp at c1
    rw [hq]; split at hfd <;> omega
  · rename_i c1; simp at c1
    split
    · rename_i c2; simp at c2
      rw [hq]; split at hfd <;> omega
    · rename_i c2; simp at c2
      split at hfd <;> omega

theorem inlineMod_exact16 (a c : BitVec 16) (h0 : c.toInt ≠ 0) :
    (inlineMod a c).toInt = a.toInt.fmod c.toInt := by
  unfold inlineMod
  simp only [beq_eq16, BitVec.slt_eq_decide, lit_zero16]
  have hba := toInt_bounds16 a
  have hbc := toInt_bounds16 c
  have hrem : (BitVec.srem a c).toInt = a.toInt.tmod c.toInt := BitVec.toInt_srem a c
  generalize BitVec.srem a c = q at *
  generalize hx : a.toInt = x at *
  generalize hy : c.toInt = y at *
  obtain ⟨hdm, hm0, hm1, hm2, hm3⟩ := tmod_facts x y h0
  have hfm := fmod_of_tmod x y h0
  generalize hmm : x.tmod y = m at *
  have hadd := toInt_add_cases16 q c
  have hbqc := toInt_bounds16 (q + c)
  rw [hrem, hy] at hadd
  simp only [hrem]
  split
  · rename_i c1; simp at c1
    rw [hrem]; split at hfm <;> omega
  · rename_i c1; simp at c1
    split
    · rename_i c2; simp at c2
      rw [hrem]; split at hfm <;> omega
    · rename_i c2; simp at c2
      split at hfm <;> omega

/-! ## conversions -/

theorem tagTest_eq (x : BitVec 64) : ((x &&& 1#64) == 0#64) = decide (isShort x) := by
  unfold isShort
  have h : (x &&& 1#64).toNat = x.toNat % 2 := by simp [BitVec.toNat_and, Nat.and_one_is_mod]
  by_cases hs : x.toNat % 2 = 0
  · have : x &&& 1#64 = 0#64 := by apply BitVec.eq_of_toNat_eq; rw [h, hs]; rfl
    simp [this, hs]
  · have : x &&& 1#64 ≠ 0#64 := by
      intro e; apply hs; rw [← h, e]; rfl
    simp [this, hs]

theorem sval_sshr (x : BitVec 64) : (x.sshiftRight 1).toInt = sval x := (sval_eq_sshr x).symm

/-- `int → i64`: a short operand is converted inline and exactly; a long one goes to `CPyLong_AsInt64`. -/
theorem intToI64_spec (src : BitVec 64) :
    intToI64 src = if isShort src then .fast (src.sshiftRight 1)
                   else .slow ⟨"CPyLong_AsInt64", [src ^^^ 1#64], false⟩ := by
  unfold intToI64; simp only [tagTest_eq, decide_eq_true_eq]

theorem trunc32_toInt (z : BitVec 64) (h : -2147483648 ≤ z.toInt ∧ z.toInt < 2147483648) :
    (BitVec.truncate 32 z).toInt = z.toInt := by
  have h1 : (BitVec.truncate 32 z).toInt = ((z.toNat : Int)).bmod (2 ^ 32) := BitVec.toInt_setWidth z
  rw [h1, Int.bmod_def]
  have := toInt_toNat z
  split <;> omega

theorem trunc16_64_toInt (z : BitVec 64) (h : -32768 ≤ z.toInt ∧ z.toInt < 32768) :
    (BitVec.truncate 16 z).toInt = z.toInt := by
  have h1 : (BitVec.truncate 16 z).toInt = ((z.toNat : Int)).bmod (2 ^ 16) := BitVec.toInt_setWidth z
  rw [h1, Int.bmod_def]
  have := toInt_toNat z
  split <;> omega

theorem trunc8_toNat (z : BitVec 64) (h : 0 ≤ z.toInt ∧ z.toInt < 256) :
    ((BitVec.truncate 8 z).toNat : Int) = z.toInt := by
  have h1 : (BitVec.truncate 8 z).toNat = z.toNat % 2 ^ 8 := BitVec.toNat_setWidth _ _
  have := toInt_toNat z
  omega

/-- `int → i32`: converted exactly iff the operand is short and in range; otherwise an exception (never a
    truncated value). -/
theorem intToI32_spec (src : BitVec 64) :
    (∃ v, intToNarrow 32 true src = .fast v ∧ isShort src ∧ v.toInt = sval src ∧
        -2147483648 ≤ sval src ∧ sval src < 2147483648) ∨
    (intToNarrow 32 true src = .raise "ValueError" 4294967183#32 ∧
        ¬ (isShort src ∧ -2147483648 ≤ sval src ∧ sval src < 2147483648)) := by
  unfold intToNarrow
  have e0 : errValue 32 true = 4294967183#32 := by decide
  simp only [e0, tagTest_eq, decide_eq_true_eq, if_true, BitVec.slt_eq_decide, BitVec.sle_eq_decide]
  have e1 : (BitVec.ofInt 64 (2 * ((2 ^ (32 - 1) : Nat) : Int))).toInt = 4294967296 := by decide
  have e2 : (BitVec.ofInt 64 (2 * -((2 ^ (32 - 1) : Nat) : Int))).toInt = -4294967296 := by decide
  rw [e1, e2]
  by_cases hs : isShort src
  · have h1 := short_toInt src hs
    simp only [hs, if_true, true_and]
    by_cases hu : src.toInt < 4294967296
    · by_cases hl : -4294967296 ≤ src.toInt
      · left
        refine ⟨_, by simp only [hu, hl, if_true]; rfl, ?_, by omega, by omega⟩
        rw [trunc32_toInt _ (by rw [sval_sshr]; omega), sval_sshr]
      · right; simp only [hu, hl, if_true, if_false, true_and]; omega
    · right; simp only [hu, if_false, true_and]; omega
  · right; simp [hs]

theorem intToI16_spec (src : BitVec 64) :
    (∃ v, intToNarrow 16 true src = .fast v ∧ isShort src ∧ v.toInt = sval src ∧
        -32768 ≤ sval src ∧ sval src < 32768) ∨
    (intToNarrow 16 true src = .raise "ValueError" 65423#16 ∧
        ¬ (isShort src ∧ -32768 ≤ sval src ∧ sval src < 32768)) := by
  unfold intToNarrow
  have e0 : errValue 16 true = 65423#16 := by decide
  simp only [e0, tagTest_eq, decide_eq_true_eq, if_true, BitVec.slt_eq_decide, BitVec.sle_eq_decide]
  have e1 : (BitVec.ofInt 64 (2 * ((2 ^ (16 - 1) : Nat) : Int))).toInt = 65536 := by decide
  have e2 : (BitVec.ofInt 64 (2 * -((2 ^ (16 - 1) : Nat) : Int))).toInt = -65536 := by decide
  rw [e1, e2]
  by_cases hs : isShort src
  · have h1 := short_toInt src hs
    simp only [hs, if_true, true_and]
    by_cases hu : src.toInt < 65536
    · by_cases hl : -65536 ≤ src.toInt
      · left
        refine ⟨_, by simp only [hu, hl, if_true]; rfl, ?_, by omega, by omega⟩
        rw [trunc16_64_toInt _ (by rw [sval_sshr]; omega), sval_sshr]
      · right; simp only [hu, hl, if_true, if_false, true_and]; omega
    · right; simp only [hu, if_false, true_and]; omega
  · right; simp [hs]

theorem intToU8_spec (src : BitVec 64) :
    (∃ v, intToNarrow 8 false src = .fast v ∧ isShort src ∧ (v.toNat : Int) = sval src ∧
        0 ≤ sval src ∧ sval src < 256) ∨
    (intToNarrow 8 false src = .raise "ValueError" 239#8 ∧
        ¬ (isShort src ∧ 0 ≤ sval src ∧ sval src < 256)) := by
  unfold intToNarrow
  have e0 : errValue 8 false = 239#8 := by decide
  simp only [e0, tagTest_eq, decide_eq_true_eq, Bool.false_eq_true, if_false, BitVec.slt_eq_decide,
    BitVec.sle_eq_decide]
  have e1 : (BitVec.ofInt 64 (2 * ((2 ^ 8 : Nat) : Int))).toInt = 512 := by decide
  have e2 : (BitVec.ofInt 64 (2 * 0)).toInt = 0 := by decide
  rw [e1, e2]
  by_cases hs : isShort src
  · have h1 := short_toInt src hs
    simp only [hs, if_true, true_and]
    by_cases hu : src.toInt < 512
    · by_cases hl : 0 ≤ src.toInt
      · left
        refine ⟨_, by simp only [hu, hl, if_true]; rfl, ?_, by omega, by omega⟩
        rw [trunc8_toNat _ (by rw [sval_sshr]; omega), sval_sshr]
      · right; simp only [hu, hl, if_true, if_false, true_and]; omega
    · right; simp only [hu, if_false, true_and]; omega
  · right; simp [hs]

/-- `i64 → int`: the inline path is taken exactly when the value fits a short int, and encodes it. -/
theorem i64ToInt_spec (src : BitVec 64) :
    i64ToInt src = if Fits src.toInt then .fast (enc src.toInt)
                   else .slow ⟨"CPyTagged_FromInt64", [src], false⟩ := by
  unfold i64ToInt Fits
  simp only [BitVec.sle_eq_decide, decide_eq_true_eq, lit_tagMin]
  have e : (4611686018427387903#64 : BitVec 64).toInt = 4611686018427387903 := by decide
  rw [e]
  by_cases h1 : src.toInt ≤ 4611686018427387903
  · by_cases h2 : -4611686018427387904 ≤ src.toInt
    · have hf : -4611686018427387904 ≤ src.toInt ∧ src.toInt < 4611686018427387904 := by omega
      simp only [h1, h2, hf, and_self, if_true]
      congr 1
      exact eq_enc_of_toInt _ _ (by unfold Fits; omega) (shl1_toInt src hf)
    · have hf : ¬ (-4611686018427387904 ≤ src.toInt ∧ src.toInt < 4611686018427387904) := by omega
      simp [h1, h2]
  · have hf : ¬ (-4611686018427387904 ≤ src.toInt ∧ src.toInt < 4611686018427387904) := by omega
    simp only [h1, hf, if_false]

/-- `i32/i16 → int`, `u8 → int`: always inline, always exact. -/
theorem i32ToInt_spec (src : BitVec 32) :
    isShort (narrowToInt true src) ∧ sval (narrowToInt true src) = src.toInt := by
  unfold narrowToInt
  simp only [if_true]
  have hb := toInt_bounds32 src
  have he : (BitVec.signExtend 64 src).toInt = src.toInt := BitVec.toInt_signExtend_of_le (by omega)
  have := shl1_toInt (BitVec.signExtend 64 src) (by omega)
  rw [isShort_iff_toInt]; unfold sval; omega

theorem i16ToInt_spec (src : BitVec 16) :
    isShort (narrowToInt true src) ∧ sval (narrowToInt true src) = src.toInt := by
  unfold narrowToInt
  simp only [if_true]
  have hb := toInt_bounds16 src
  have he : (BitVec.signExtend 64 src).toInt = src.toInt := BitVec.toInt_signExtend_of_le (by omega)
  have := shl1_toInt (BitVec.signExtend 64 src) (by omega)
  rw [isShort_iff_toInt]; unfold sval; omega

theorem u8ToInt_spec (src : BitVec 8) :
    isShort (narrowToInt false src) ∧ sval (narrowToInt false src) = (src.toNat : Int) := by
  unfold narrowToInt
  simp only [Bool.false_eq_true, if_false]
  have hb := src.isLt
  have he : (BitVec.zeroExtend 64 src).toNat = src.toNat := by
    simp [BitVec.toNat_setWidth]; omega
  have t := toInt_toNat (BitVec.zeroExtend 64 src)
  have := shl1_toInt (BitVec.zeroExtend 64 src) (by omega)
  rw [isShort_iff_toInt]; unfold sval; omega

/-! ## bitwise operations: the w-bit two's-complement operation is Python's operator on the signed values -/

theorem toInt_of_msb_false {w : Nat} (x : BitVec w) (h : x.msb = false) : x.toInt = Int.ofNat x.toNat := by
  rw [BitVec.toInt_eq_msb_cond]; simp [h]

theorem toInt_of_msb_true {w : Nat} (x : BitVec w) (h : x.msb = true) : x.toInt = Int.negSucc (~~~x).toNat := by
  rw [BitVec.toInt_eq_msb_cond, BitVec.toNat_not, Int.negSucc_eq]
  simp only [h, if_true]
  have := x.isLt
  omega

theorem bv_and_andnot {w : Nat} (x y : BitVec w) : x &&& y = x ^^^ (x &&& ~~~y) := by
  ext i hi; simp <;> (cases x[i] <;> cases y[i] <;> rfl)
theorem bv_not_or_andnot {w : Nat} (x y : BitVec w) : ~~~(x ||| y) = ~~~y ^^^ (~~~y &&& x) := by
  ext i hi; simp <;> (cases x[i] <;> cases y[i] <;> rfl)
theorem bv_not_or {w : Nat} (x y : BitVec w) : ~~~(x ||| y) = ~~~x &&& ~~~y := by
  ext i hi; simp
theorem bv_not_and {w : Nat} (x y : BitVec w) : ~~~(x &&& y) = ~~~x ||| ~~~y := by
  ext i hi; simp
theorem bv_not_xor_r {w : Nat} (x y : BitVec w) : ~~~(x ^^^ y) = x ^^^ ~~~y := by
  ext i hi; simp <;> (cases x[i] <;> cases y[i] <;> rfl)
theorem bv_not_xor_l {w : Nat} (x y : BitVec w) : ~~~(x ^^^ y) = ~~~x ^^^ y := by
  ext i hi; simp <;> (cases x[i] <;> cases y[i] <;> rfl)
theorem bv_xor_not_not {w : Nat} (x y : BitVec w) : x ^^^ y = ~~~x ^^^ ~~~y := by
  ext i hi; simp <;> (cases x[i] <;> cases y[i] <;> rfl)

theorem toInt_and_pyAnd {w : Nat} (x y : BitVec w) : (x &&& y).toInt = pyAnd x.toInt y.toInt := by
  cases hx : x.msb <;> cases hy : y.msb
  · rw [toInt_of_msb_false x hx, toInt_of_msb_false y hy, toInt_of_msb_false _ (by simp [hx])]
    simp [pyAnd]
  · rw [toInt_of_msb_false x hx, toInt_of_msb_true y hy, toInt_of_msb_false _ (by simp [hx])]
    simp only [pyAnd, natAndNot]
    conv => lhs; rw [bv_and_andnot]
    simp
  · rw [toInt_of_msb_true x hx, toInt_of_msb_false y hy, toInt_of_msb_false _ (by simp [hy])]
    simp only [pyAnd, natAndNot]
    conv => lhs; rw [BitVec.and_comm, bv_and_andnot]
    simp
  · rw [toInt_of_msb_true x hx, toInt_of_msb_true y hy, toInt_of_msb_true _ (by simp [hx, hy])]
    simp only [pyAnd]
    rw [bv_not_and]; simp

theorem toInt_or_pyOr {w : Nat} (x y : BitVec w) : (x ||| y).toInt = pyOr x.toInt y.toInt := by
  cases hx : x.msb <;> cases hy : y.msb
  · rw [toInt_of_msb_false x hx, toInt_of_msb_false y hy, toInt_of_msb_false _ (by simp [hx, hy])]
    simp [pyOr]
  · rw [toInt_of_msb_false x hx, toInt_of_msb_true y hy, toInt_of_msb_true _ (by simp [hx, hy])]
    simp only [pyOr, natAndNot]
    rw [bv_not_or_andnot]; simp
  · rw [toInt_of_msb_true x hx, toInt_of_msb_false y hy, toInt_of_msb_true _ (by simp [hx, hy])]
    simp only [pyOr, natAndNot]
    rw [BitVec.or_comm, bv_not_or_andnot]; simp
  · rw [toInt_of_msb_true x hx, toInt_of_msb_true y hy, toInt_of_msb_true _ (by simp [hx, hy])]
    simp only [pyOr]
    rw [bv_not_or]; simp

theorem toInt_xor_pyXor {w : Nat} (x y : BitVec w) : (x ^^^ y).toInt = pyXor x.toInt y.toInt := by
  cases hx : x.msb <;> cases hy : y.msb
  · rw [toInt_of_msb_false x hx, toInt_of_msb_false y hy, toInt_of_msb_false _ (by simp [hx, hy])]
    simp [pyXor]
  · rw [toInt_of_msb_false x hx, toInt_of_msb_true y hy, toInt_of_msb_true _ (by simp [hx, hy])]
    simp only [pyXor]
    rw [bv_not_xor_r]; simp
  · rw [toInt_of_msb_true x hx, toInt_of_msb_false y hy, toInt_of_msb_true _ (by simp [hx, hy])]
    simp only [pyXor]
    rw [bv_not_xor_l]; simp
  · rw [toInt_of_msb_true x hx, toInt_of_msb_true y hy, toInt_of_msb_false _ (by simp [hx, hy])]
    simp only [pyXor]
    conv => lhs; rw [bv_xor_not_not]
    simp

theorem ofInt64_toInt (a : Int) (h : -9223372036854775808 ≤ a ∧ a < 9223372036854775808) :
    (BitVec.ofInt 64 a).toInt = a := by
  rw [BitVec.toInt_ofInt, Int.bmod_def]; split <;> omega

/-- on operands that fit 64 bits, the 64-bit two's-complement operation *is* Python's operator -/
theorem and64_eq_pyAnd (a b : Int) (ha : -9223372036854775808 ≤ a ∧ a < 9223372036854775808)
    (hb : -9223372036854775808 ≤ b ∧ b < 9223372036854775808) : and64 a b = pyAnd a b := by
  unfold and64; rw [toInt_and_pyAnd, ofInt64_toInt a ha, ofInt64_toInt b hb]
theorem or64_eq_pyOr (a b : Int) (ha : -9223372036854775808 ≤ a ∧ a < 9223372036854775808)
    (hb : -9223372036854775808 ≤ b ∧ b < 9223372036854775808) : or64 a b = pyOr a b := by
  unfold or64; rw [toInt_or_pyOr, ofInt64_toInt a ha, ofInt64_toInt b hb]
theorem xor64_eq_pyXor (a b : Int) (ha : -9223372036854775808 ≤ a ∧ a < 9223372036854775808)
    (hb : -9223372036854775808 ≤ b ∧ b < 9223372036854775808) : xor64 a b = pyXor a b := by
  unfold xor64; rw [toInt_xor_pyXor, ofInt64_toInt a ha, ofInt64_toInt b hb]

theorem fits_range (n : Int) (h : Fits n) : -9223372036854775808 ≤ n ∧ n < 9223372036854775808 := by
  unfold Fits at h; omega

theorem short_ne_one (x : BitVec 64) (h : isShort x) : (x == 1#64) = false := by
  unfold isShort at h
  have : x ≠ 1#64 := by
    intro e; rw [e] at h; revert h; decide
  simp [this]

/-! ## ranges -/

theorem rshift_fits (l r : BitVec 64) (hc : isShort l ∧ isShort r ∧ 0 ≤ sval r) :
    Fits (pyShr (sval l) (sval r).toNat) := by
  obtain ⟨hl, hr, hn⟩ := hc
  have hfl := short_fits l hl
  by_cases hbig : 64 ≤ (sval r).toNat
  · rw [pyShr_big _ _ hbig hfl]
    split <;> decide
  · have h1 := short_toInt l hl
    have h := and_FE_toInt (BitVec.sshiftRight l (sval r).toNat)
    rw [BitVec.toInt_sshiftRight, Int.shiftRight_eq_div_pow, h1] at h
    have := pyShr_small (sval l) (sval r).toNat
    have hb := toInt_bounds (BitVec.sshiftRight l (sval r).toNat &&& 18446744073709551614#64)
    unfold Fits
    omega

theorem fdiv_range64 (x y : BitVec 64) (hz : y.toInt ≠ 0)
    (ho : ¬ (y.toInt = -1 ∧ x.toInt = -9223372036854775808)) :
    -9223372036854775808 ≤ x.toInt.fdiv y.toInt ∧ x.toInt.fdiv y.toInt < 9223372036854775808 := by
  have hbx := toInt_bounds x
  have hby := toInt_bounds y
  generalize x.toInt = a at *
  generalize y.toInt = b at *
  obtain ⟨hdm, hm0, hm1, hm2, hm3⟩ := tmod_facts a b hz
  have hfd := fdiv_of_tdiv a b hz
  have htb := tdiv_abs_le a b
  have hth : a.tmod b ≠ 0 → 2 * (a.tdiv b).natAbs ≤ a.natAbs := tdiv_abs_half a b hz
  generalize ht : a.tdiv b = t at *
  generalize hmm : a.tmod b = m at *
  have htne : t ≠ 9223372036854775808 := by
    intro e; subst e
    have : a = -9223372036854775808 := by omega
    subst this
    omega
  split at hfd <;> omega

end CFastProofs
