import MypyVerif.Model.Sched
/-! Invariants of the coordinator model. -/
namespace Sched

variable (g : Graph) (F : Nat → Env → Val)

/-- SCC ids are numbered topologically: dependencies come first -/
def Acyclic : Prop := ∀ s, ∀ d ∈ g.deps s, d < s

/-- `F` looks at the environment only on the dependencies of the SCC it processes -/
def DepLocal : Prop := ∀ s (e e' : Env), (∀ d ∈ g.deps s, e d = e' d) → F s e = F s e'

/-- the value of every SCC, defined by recursion along the dependency order: what a sequential,
    dependencies-first processing computes -/
def R (s : Nat) : Val := F s (fun d => if _h : d < s then some (R d) else none)
termination_by s

theorem R_eq (s : Nat) : R F s = F s (fun d => if d < s then some (R F d) else none) := by
  rw [R]
  congr 1

/-- all values present (complete or in flight) are the sequential ones -/
def Inv (st : St) : Prop :=
  (∀ s v, st.res s = some v → v = R F s) ∧
  (∀ p ∈ st.inflight, ∀ sv ∈ p.2, sv.2 = R F sv.1)

theorem inv_init : Inv F St.init := by
  constructor
  · intro s v h; cases h
  · intro p hp; cases hp

/-- processing a ready SCC in a state satisfying `Inv` yields its sequential value -/
theorem F_ready (ha : Acyclic g) (hl : DepLocal g F) (st : St) (hi : Inv F st) (s : Nat)
    (hr : ready g st s = true) : F s st.res = R F s := by
  rw [R_eq]
  apply hl
  intro d hd
  have hlt := ha s d hd
  simp only [ready, Bool.and_eq_true, List.all_eq_true] at hr
  have := hr.1 d hd
  cases hv : st.res d with
  | none => simp [hv] at this
  | some v => simp [hlt, hi.1 d v hv]

theorem setAll_get (vals : List (Nat × Val)) : ∀ (e : Env) (s : Nat) (v : Val),
    setAll e vals s = some v → e s = some v ∨ (s, v) ∈ vals := by
  induction vals with
  | nil => intro e s v h; exact Or.inl h
  | cons p r ih =>
    intro e s v h
    obtain ⟨s', v'⟩ := p
    simp only [setAll] at h
    rcases ih _ s v h with h1 | h1
    · unfold Env.set at h1
      split at h1
      · rename_i heq; injection h1 with h1; subst h1; subst heq; exact Or.inr (by simp)
      · exact Or.inl h1
    · exact Or.inr (by simp [h1])

theorem step_inv (ha : Acyclic g) (hl : DepLocal g F) (st st' : St) (e : Event)
    (hi : Inv F st) (hs : step g F st e = some st') : Inv F st' := by
  cases e with
  | fresh s =>
    simp only [step] at hs
    split at hs
    · rename_i hr
      injection hs with hs; subst hs
      refine ⟨fun x v hx => ?_, hi.2⟩
      simp only [Env.set] at hx
      split at hx
      · rename_i heq; injection hx with hx; subst hx; subst heq
        exact F_ready g F ha hl st hi x hr
      · exact hi.1 x v hx
    · cases hs
  | submit batch w =>
    simp only [step] at hs
    split at hs
    · rename_i hc
      injection hs with hs; subst hs
      simp only [Bool.and_eq_true, List.all_eq_true] at hc
      refine ⟨hi.1, fun p hp sv hsv => ?_⟩
      simp only [List.mem_cons] at hp
      rcases hp with rfl | hp
      · simp only [List.mem_map] at hsv
        obtain ⟨s, hsb, rfl⟩ := hsv
        exact F_ready g F ha hl st hi s (hc.1.1.2 s hsb)
      · exact hi.2 p hp sv hsv
    · cases hs
  | ifaceDone w =>
    simp only [step] at hs
    split at hs
    · rename_i w' vals hf
      injection hs with hs; subst hs
      have hmem := List.mem_of_find?_eq_some hf
      refine ⟨fun s v hsv => ?_, fun p hp => ?_⟩
      · rcases setAll_get vals st.res s v hsv with h1 | h1
        · exact hi.1 s v h1
        · exact hi.2 _ hmem (s, v) h1
      · exact hi.2 p (List.mem_filter.mp hp).1
    · cases hs
  | implDone w =>
    simp only [step] at hs
    split at hs
    · injection hs with hs; subst hs; exact hi
    · cases hs

theorem run_inv (ha : Acyclic g) (hl : DepLocal g F) (es : List Event) : ∀ (st st' : St),
    Inv F st → run g F st es = some st' → Inv F st' := by
  induction es with
  | nil => intro st st' hi h; simp only [run] at h; injection h with h; subst h; exact hi
  | cons e es ih =>
    intro st st' hi h
    simp only [run] at h
    cases hs : step g F st e with
    | none => simp [hs] at h
    | some st1 =>
      simp only [hs] at h
      exact ih st1 st' (step_inv g F ha hl st st1 e hi hs) h

end Sched
