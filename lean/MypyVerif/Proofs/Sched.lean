import MypyVerif.Model.Sched
/-! Invariants of the coordinator model. -/
namespace Sched

variable (g : Graph) (F : Nat → Env → Val)

/-- SCC ids are numbered topologically: dependencies come first -/
def Acyclic : Prop := ∀ s, ∀ d ∈ g.deps s, d < s

/-- `F` looks at the environment only on the dependencies of the SCC it processes -/
def DepLocal : Prop := ∀ s (e e' : Env), (∀ d ∈ g.deps s, e d = e' d) → F s e = F s e'

/-- the value of every SCC, defined by recursion along the dependency order: what a sequential,
    dependencies-first processing computes -/
def R (s : Nat) : Val := F s (fun d => if _h : d < s then some (R d) else none)
termination_by s

theorem R_eq (s : Nat) : R F s = F s (fun d => if d < s then some (R F d) else none) := by
  rw [R]
  congr 1

theorem ready_spec (st : St) (s : Nat) : ready g st s = true ↔
    s < g.size ∧ (∀ d ∈ g.deps s, (st.res d).isSome = true) ∧ s ∉ st.started := by
  simp only [ready, Bool.and_eq_true, List.all_eq_true, decide_eq_true_eq, Bool.not_eq_true',
    List.contains_eq_mem, decide_eq_false_iff_not, and_assoc]

/-- all values present (complete or in flight) are the sequential ones -/
def Inv (st : St) : Prop :=
  (∀ s v, st.res s = some v → v = R F s) ∧
  (∀ p ∈ st.inflight, ∀ sv ∈ p.2, sv.2 = R F sv.1)

theorem inv_init : Inv F St.init := by
  constructor
  · intro s v h; cases h
  · intro p hp; cases hp

/-- processing a ready SCC in a state satisfying `Inv` yields its sequential value -/
theorem F_ready (ha : Acyclic g) (hl : DepLocal g F) (st : St) (hi : Inv F st) (s : Nat)
    (hr : ready g st s = true) : F s st.res = R F s := by
  rw [R_eq]
  apply hl
  intro d hd
  have hlt := ha s d hd
  have := ((ready_spec g st s).mp hr).2.1 d hd
  cases hv : st.res d with
  | none => simp [hv] at this
  | some v => simp [hlt, hi.1 d v hv]

theorem setAll_get (vals : List (Nat × Val)) : ∀ (e : Env) (s : Nat) (v : Val),
    setAll e vals s = some v → e s = some v ∨ (s, v) ∈ vals := by
  induction vals with
  | nil => intro e s v h; exact Or.inl h
  | cons p r ih =>
    intro e s v h
    obtain ⟨s', v'⟩ := p
    simp only [setAll] at h
    rcases ih _ s v h with h1 | h1
    · unfold Env.set at h1
      split at h1
      · rename_i heq; injection h1 with h1; subst h1; subst heq; exact Or.inr (by simp)
      · exact Or.inl h1
    · exact Or.inr (by simp [h1])

theorem step_inv (ha : Acyclic g) (hl : DepLocal g F) (st st' : St) (e : Event)
    (hi : Inv F st) (hs : step g F st e = some st') : Inv F st' := by
  cases e with
  | fresh s =>
    simp only [step] at hs
    split at hs
    · rename_i hr
      injection hs with hs; subst hs
      refine ⟨fun x v hx => ?_, hi.2⟩
      simp only [Env.set] at hx
      split at hx
      · rename_i heq; injection hx with hx; subst hx; subst heq
        exact F_ready g F ha hl st hi x hr
      · exact hi.1 x v hx
    · cases hs
  | submit batch w =>
    simp only [step] at hs
    split at hs
    · rename_i hc
      injection hs with hs; subst hs
      simp only [Bool.and_eq_true, List.all_eq_true] at hc
      refine ⟨hi.1, fun p hp sv hsv => ?_⟩
      simp only [List.mem_cons] at hp
      rcases hp with rfl | hp
      · simp only [List.mem_map] at hsv
        obtain ⟨s, hsb, rfl⟩ := hsv
        exact F_ready g F ha hl st hi s (hc.1.1.2 s hsb)
      · exact hi.2 p hp sv hsv
    · cases hs
  | ifaceDone w =>
    simp only [step] at hs
    split at hs
    · rename_i w' vals hf
      injection hs with hs; subst hs
      have hmem := List.mem_of_find?_eq_some hf
      refine ⟨fun s v hsv => ?_, fun p hp => ?_⟩
      · rcases setAll_get vals st.res s v hsv with h1 | h1
        · exact hi.1 s v h1
        · exact hi.2 _ hmem (s, v) h1
      · exact hi.2 p (List.mem_filter.mp hp).1
    · cases hs
  | implDone w =>
    simp only [step] at hs
    split at hs
    · injection hs with hs; subst hs; exact hi
    · cases hs

theorem run_inv (ha : Acyclic g) (hl : DepLocal g F) (es : List Event) : ∀ (st st' : St),
    Inv F st → run g F st es = some st' → Inv F st' := by
  induction es with
  | nil => intro st st' hi h; simp only [run] at h; injection h with h; subst h; exact hi
  | cons e es ih =>
    intro st st' hi h
    simp only [run] at h
    cases hs : step g F st e with
    | none => simp [hs] at h
    | some st1 =>
      simp only [hs] at h
      exact ih st1 st' (step_inv g F ha hl st st1 e hi hs) h

end Sched

namespace Sched
/-! ### Termination measure -/

theorem filter_len_mono (l : List Nat) (p q : Nat → Bool) (h : ∀ x, p x = true → q x = true) :
    (l.filter p).length ≤ (l.filter q).length := by
  induction l with
  | nil => simp
  | cons a l ih =>
    simp only [List.filter_cons]
    cases hp : p a with
    | false => cases hq : q a <;> simp <;> omega
    | true => simp [h a hp]; omega

theorem filter_len_strict (l : List Nat) (p q : Nat → Bool) (h : ∀ x, p x = true → q x = true)
    (s : Nat) (hs : s ∈ l) (hq : q s = true) (hp : p s = false) :
    (l.filter p).length + 1 ≤ (l.filter q).length := by
  induction l with
  | nil => cases hs
  | cons a l ih =>
    simp only [List.filter_cons]
    simp only [List.mem_cons] at hs
    rcases hs with rfl | hs
    · simp only [hp, hq, if_true, List.length_cons]
      have := filter_len_mono l p q h
      simp; omega
    · have := ih hs
      cases hpa : p a with
      | false => cases hqa : q a <;> simp <;> omega
      | true => simp [h a hpa]; omega

variable (g : Graph) (F : Nat → Env → Val)

def unstartedL (n : Nat) (started : List Nat) : List Nat := (List.range n).filter (fun s => !(started.contains s))
def unstarted (st : St) : List Nat := unstartedL g.size st.started

/-- 4·(SCCs not yet started) + 2·(batches in their interface phase) + (busy workers) -/
def measure (st : St) : Nat := 4 * (unstarted g st).length + 2 * st.inflight.length + st.busy.length

theorem unstarted_add (n : Nat) (l l' : List Nat) (s : Nat) (hsub : ∀ x, x ∈ l → x ∈ l')
    (hs : s < n) (hn : s ∉ l) (hi : s ∈ l') :
    (unstartedL n l').length + 1 ≤ (unstartedL n l).length := by
  unfold unstartedL
  apply filter_len_strict _ _ _ _ s (by simp [hs])
  · simp [hn]
  · simp [hi]
  · intro x hx
    simp only [Bool.not_eq_true', List.contains_eq_mem, decide_eq_false_iff_not] at hx ⊢
    exact fun h => hx (hsub x h)

theorem filter_ne_len (l : List (Nat × List (Nat × Val))) (w : Nat) (h : ∃ p ∈ l, p.1 = w) :
    (l.filter (fun p => p.1 != w)).length + 1 ≤ l.length := by
  induction l with
  | nil => obtain ⟨p, hp, _⟩ := h; cases hp
  | cons a l ih =>
    simp only [List.filter_cons]
    by_cases ha : a.1 = w
    · simp [ha]
      exact List.length_filter_le _ _
    · have : ∃ p ∈ l, p.1 = w := by
        obtain ⟨p, hp, hpw⟩ := h
        simp only [List.mem_cons] at hp
        rcases hp with rfl | hp
        · exact absurd hpw ha
        · exact ⟨p, hp, hpw⟩
      have := ih this
      simp [ha]; omega

theorem filter_ne_nat_len (l : List Nat) (w : Nat) (h : w ∈ l) : (l.filter (· != w)).length + 1 ≤ l.length := by
  induction l with
  | nil => cases h
  | cons a l ih =>
    simp only [List.filter_cons]
    by_cases ha : a = w
    · simp [ha]; exact List.length_filter_le _ _
    · simp only [List.mem_cons] at h
      rcases h with rfl | h
      · exact absurd rfl ha
      · have := ih h
        simp [ha]; omega

/-- every event strictly decreases the measure -/
theorem step_measure (st st' : St) (e : Event) (hs : step g F st e = some st') :
    measure g st' + 1 ≤ measure g st := by
  cases e with
  | fresh s =>
    simp only [step] at hs
    split at hs
    · rename_i hr
      injection hs with hs; subst hs
      obtain ⟨h1, _, h3⟩ := (ready_spec g st s).mp hr
      have := unstarted_add g.size st.started (s :: st.started) s (fun x hx => by simp [hx]) h1 h3 (by simp)
      simp only [measure, unstarted] at this ⊢
      omega
    · cases hs
  | submit batch w =>
    simp only [step] at hs
    split at hs
    · rename_i hc
      injection hs with hs; subst hs
      simp only [Bool.and_eq_true, List.all_eq_true, Bool.not_eq_true', List.contains_eq_mem,
        decide_eq_false_iff_not, decide_eq_true_eq] at hc
      cases hb : batch with
      | nil => simp [hb] at hc
      | cons s rest =>
        have hmem : s ∈ batch := by rw [hb]; simp
        obtain ⟨h1, _, h3⟩ := (ready_spec g st s).mp (hc.1.1.2 s hmem)
        have := unstarted_add g.size st.started (batch ++ st.started) s (fun x hx => by simp [hx]) h1 h3 (by simp [hmem])
        rw [hb] at this
        simp only [measure, unstarted, List.length_cons] at this ⊢
        omega
    · cases hs
  | ifaceDone w =>
    simp only [step] at hs
    split at hs
    · rename_i w' vals hf
      injection hs with hs; subst hs
      have hmem := List.mem_of_find?_eq_some hf
      have hkey : (w', vals).1 = w := by
        have := List.find?_some hf
        simpa using this
      have := filter_ne_len st.inflight w ⟨(w', vals), hmem, hkey⟩
      have hu : unstarted g { st with res := setAll st.res vals, inflight := st.inflight.filter (fun p => p.1 != w) }
          = unstarted g st := rfl
      simp only [measure, hu]
      omega
    · cases hs
  | implDone w =>
    simp only [step] at hs
    split at hs
    · rename_i hc
      injection hs with hs; subst hs
      simp only [Bool.and_eq_true, List.contains_eq_mem, decide_eq_true_eq] at hc
      have := filter_ne_nat_len st.busy w hc.1
      have hu : unstarted g { st with busy := st.busy.filter (· != w) } = unstarted g st := rfl
      simp only [measure, hu]
      omega
    · cases hs

theorem run_measure (es : List Event) : ∀ (st st' : St), run g F st es = some st' →
    measure g st' + es.length ≤ measure g st := by
  induction es with
  | nil => intro st st' h; simp only [run] at h; injection h with h; subst h; simp
  | cons e es ih =>
    intro st st' h
    simp only [run] at h
    cases hs : step g F st e with
    | none => simp [hs] at h
    | some st1 =>
      simp only [hs] at h
      have a := step_measure g F st st1 e hs
      have b := ih st1 st' h
      simp only [List.length_cons]
      omega

end Sched

namespace Sched
/-! ### Bookkeeping invariant: every started SCC is finished or in flight -/
variable (g : Graph) (F : Nat → Env → Val)

def Book (st : St) : Prop :=
  (∀ s ∈ st.started, (st.res s).isSome = true ∨ ∃ p ∈ st.inflight, ∃ v, (s, v) ∈ p.2) ∧
  (∀ p ∈ st.inflight, p.1 ∈ st.busy) ∧
  (st.inflight.map (·.1)).Nodup

theorem set_isSome (e : Env) (s x : Nat) (v : Val) (h : (e x).isSome = true) : ((e.set s v) x).isSome = true := by
  unfold Env.set; split <;> simp [h]

theorem setAll_mono (vals : List (Nat × Val)) : ∀ (e : Env) (x : Nat), (e x).isSome = true →
    ((setAll e vals) x).isSome = true := by
  induction vals with
  | nil => intro e x h; exact h
  | cons p r ih => intro e x h; obtain ⟨s, v⟩ := p; exact ih _ x (set_isSome e s x v h)

theorem setAll_mem (vals : List (Nat × Val)) : ∀ (e : Env) (s : Nat) (v : Val), (s, v) ∈ vals →
    ((setAll e vals) s).isSome = true := by
  induction vals with
  | nil => intro e s v h; cases h
  | cons p r ih =>
    intro e s v h
    obtain ⟨s', v'⟩ := p
    simp only [List.mem_cons] at h
    rcases h with h | h
    · injection h with h1 h2; subst h1
      exact setAll_mono r _ s (by simp [Env.set])
    · exact ih _ s v h

theorem book_init : Book St.init := by
  refine ⟨?_, ?_, ?_⟩
  · intro s hs; cases hs
  · intro p hp; cases hp
  · simp [St.init]

theorem nodup_map_inj (l : List (Nat × List (Nat × Val))) (h : (l.map (·.1)).Nodup) :
    ∀ p ∈ l, ∀ q ∈ l, p.1 = q.1 → p = q := by
  induction l with
  | nil => intro p hp; cases hp
  | cons a l ih =>
    simp only [List.map_cons, List.nodup_cons] at h
    intro p hp q hq hpq
    simp only [List.mem_cons] at hp hq
    rcases hp with rfl | hp <;> rcases hq with rfl | hq
    · rfl
    · exact absurd (List.mem_map.mpr ⟨q, hq, hpq.symm⟩) h.1
    · exact absurd (List.mem_map.mpr ⟨p, hp, hpq⟩) h.1
    · exact ih h.2 p hp q hq hpq

theorem step_book (st st' : St) (e : Event) (hb : Book st) (hs : step g F st e = some st') : Book st' := by
  obtain ⟨b1, b2, b3⟩ := hb
  cases e with
  | fresh s =>
    simp only [step] at hs
    split at hs
    · injection hs with hs; subst hs
      refine ⟨fun x hx => ?_, b2, b3⟩
      simp only [List.mem_cons] at hx
      rcases hx with rfl | hx
      · left; simp [Env.set]
      · rcases b1 x hx with h | h
        · left; exact set_isSome _ _ _ _ h
        · right; exact h
    · cases hs
  | submit batch w =>
    simp only [step] at hs
    split at hs
    · rename_i hc
      injection hs with hs; subst hs
      simp only [Bool.and_eq_true, List.all_eq_true, Bool.not_eq_true', List.contains_eq_mem,
        decide_eq_false_iff_not, decide_eq_true_eq] at hc
      refine ⟨fun x hx => ?_, fun p hp => ?_, ?_⟩
      · simp only [List.mem_append] at hx
        rcases hx with hx | hx
        · right
          exact ⟨(w, batch.map (fun s => (s, F s st.res))), by simp, F x st.res, by
            simp only [List.mem_map]; exact ⟨x, hx, rfl⟩⟩
        · rcases b1 x hx with h | ⟨p, hp, v, hv⟩
          · left; exact h
          · right; exact ⟨p, by simp [hp], v, hv⟩
      · simp only [List.mem_cons] at hp
        rcases hp with rfl | hp
        · simp
        · simp [b2 p hp]
      · simp only [List.map_cons, List.nodup_cons]
        refine ⟨?_, b3⟩
        intro hmem
        simp only [List.mem_map] at hmem
        obtain ⟨p, hp, hpw⟩ := hmem
        exact hc.2 (hpw ▸ b2 p hp)
    · cases hs
  | ifaceDone w =>
    simp only [step] at hs
    split at hs
    · rename_i w' vals hf
      injection hs with hs; subst hs
      have hmem := List.mem_of_find?_eq_some hf
      have hkey : w' = w := by
        have := List.find?_some hf
        simpa using this
      refine ⟨fun x hx => ?_, fun p hp => b2 p (List.mem_filter.mp hp).1, ?_⟩
      · rcases b1 x hx with h | ⟨p, hp, v, hv⟩
        · left; exact setAll_mono vals _ x h
        · by_cases hpk : p.1 = w
          · -- the same worker: by distinctness of keys it is the batch that just completed
            have : p = (w', vals) := by
              have hn := b3
              have h1 : p.1 = (w', vals).1 := by simp [hpk, hkey]
              exact nodup_map_inj st.inflight hn p hp (w', vals) hmem h1
            left
            rw [this] at hv
            exact setAll_mem vals _ x v hv
          · right
            exact ⟨p, List.mem_filter.mpr ⟨hp, by simp [hpk]⟩, v, hv⟩
      · exact (List.Nodup.sublist ((List.filter_sublist).map _) b3)
    · cases hs
  | implDone w =>
    simp only [step] at hs
    split at hs
    · rename_i hc
      injection hs with hs; subst hs
      simp only [Bool.and_eq_true, List.contains_eq_mem, decide_eq_true_eq, Bool.not_eq_true',
        List.any_eq_false, beq_iff_eq] at hc
      refine ⟨b1, fun p hp => ?_, b3⟩
      have hne : p.1 ≠ w := fun h => hc.2 p hp h
      exact List.mem_filter.mpr ⟨b2 p hp, by simp [hne]⟩
    · cases hs

theorem run_book (es : List Event) : ∀ (st st' : St), Book st → run g F st es = some st' → Book st' := by
  induction es with
  | nil => intro st st' hb h; simp only [run] at h; injection h with h; subst h; exact hb
  | cons e es ih =>
    intro st st' hb h
    simp only [run] at h
    cases hs : step g F st e with
    | none => simp [hs] at h
    | some st1 =>
      simp only [hs] at h
      exact ih st1 st' (step_book g F st st1 e hb hs) h

end Sched
