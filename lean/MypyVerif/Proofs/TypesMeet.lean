import MypyVerif.Proofs.TypesJoin
/-! Lattice laws, part 4: one unfolding of `meet_types` is a good meet; the induction that ties the knot. -/
namespace Types
variable {H : Hier}

theorem never_goodM {s t : Ty} (hs : s.wf H = true) (ht : t.wf H = true) : GoodM H s t .never :=
  ⟨rfl, S_never_wf false hs, S_never_wf false ht⟩

theorem above_none (p : Bool) (_hok : H.Ok) {y : Ty} (hy : y.isUnion = false) (h : S H p .none y = true) :
    y = .none ∨ y = .inst H.objectC := by
  rw [S_atom H p _ _ rfl hy] at h
  simp only [Bool.or_eq_true, subAtom, beq_iff_eq] at h
  rcases h with h | h | h
  · left; exact h.symm
  · left; cases y <;> simp [Ty.isNone] at h; rfl
  · right; exact h

theorem S_map_left {f : Ty → Ty} {R : Ty → Ty → Bool} : ∀ {xs : List Ty},
    (∀ x ∈ xs, R (f x) x = true) → all2 R (xs.map f) xs = true
  | [], _ => by simp [all2]
  | x :: xs, h => by
    simp only [List.map_cons, all2, Bool.and_eq_true]
    exact ⟨h x (by simp), S_map_left (fun a ha => h a (by simp [ha]))⟩

/-- `visit_tuple_type` of the meet visitor -/
theorem meetVisitTuple_good (hok : H.Ok) (M : Ty → Ty → Ty) {s : Ty} {ts : List Ty} (hs : Hyp H s)
    (ht : Hyp H (.tuple ts)) {B : Nat} (hB : s.size + (Ty.tuple ts).size ≤ B) (hM : MHyp H M B) :
    GoodM H s (.tuple ts) (meetVisitTuple H M s (.tuple ts) ts) := by
  have hnever := never_goodM hs.wf ht.wf
  unfold meetVisitTuple
  cases s with
  | tuple ss =>
    simp only
    split
    · rename_i hlen
      have hlen : ss.length = ts.length := by simpa using hlen
      have hitem : ∀ x ∈ ts, ∀ y ∈ ss, GoodM H x y (M x y) := by
        intro x hx y hy
        have := size_le_sizeL hx; have := size_le_sizeL hy
        exact hM x y (hyp_tuple_item ht x hx) (hyp_tuple_item hs y hy) (by simp [Ty.size] at hB ⊢; omega)
      have hzl := zipWith2_length M hlen.symm
      obtain ⟨l1, l2⟩ := zip_lower (f := M) (R := S H false) (forall2_true hlen.symm)
        (fun x hx y hy _ => ⟨(hitem x hx y hy).left, (hitem x hx y hy).right⟩)
      refine ⟨?_, ?_, ?_⟩
      · simp only [Ty.wf]; exact wfL_zipWith2 (fun x hx y hy => (hitem x hx y hy).wf)
      · rw [S_tuple_tuple_iff]; exact ⟨by omega, l2⟩
      · rw [S_tuple_tuple_iff]; exact ⟨by omega, l1⟩
    · exact hnever
  | gen d y =>
    simp only
    split
    · rename_i htl
      have hy := hyp_gen_arg hs
      have hitem : ∀ x ∈ ts, GoodM H x y (M x y) := by
        intro x hx
        have := size_le_sizeL hx
        exact hM x y (hyp_tuple_item ht x hx) hy (by simp [Ty.size] at hB ⊢; omega)
      have hwr : (Ty.tuple (ts.map fun it => M it y)).wf H = true := by
        simp only [Ty.wf]
        apply wfL_iff.2
        intro m hm
        obtain ⟨x, hx, rfl⟩ := List.mem_map.1 hm
        exact (hitem x hx).wf
      refine ⟨hwr, ?_, ?_⟩
      · rw [S_atom H false _ _ rfl rfl]
        simp only [Bool.or_eq_true, subAtom, subFromTuple, htl, if_true, List.all_eq_true]
        right
        intro m hm
        obtain ⟨x, hx, rfl⟩ := List.mem_map.1 hm
        exact (hitem x hx).right
      · rw [S_tuple_tuple_iff]
        exact ⟨by simp, S_map_left (fun x hx => (hitem x hx).left)⟩
    · split
      · rename_i hp
        exact ⟨ht.wf, proper_imp_S H _ _ _ (Nat.le_refl _) hp, S_refl H false _⟩
      · exact hnever
  | inst c =>
    simp only
    split
    · rename_i hp
      exact ⟨ht.wf, proper_imp_S H _ _ _ (Nat.le_refl _) hp, S_refl H false _⟩
    · exact hnever
  | never | none | union _ | callable _ _ | lit _ _ | typeType _ => exact hnever


theorem noTT_of_latOk_gen {c : Nat} {x : Ty} (h : (Ty.gen c x).latOk H = true) (hv : H.variance c ≠ .co) :
    x.noTypeType = true := by
  simp only [Ty.latOk, Bool.and_eq_true, Bool.or_eq_true, beq_iff_eq] at h
  rcases h.2 with h | h
  · exact absurd h hv
  · exact h

/-- `visit_instance` of the meet visitor -/
theorem meetVisitInstance_good (hok : H.Ok) (M : Ty → Ty → Ty) {s t : Ty} {d : Nat} (hs : Hyp H s) (ht : Hyp H t)
    (hct : t.cls = some d) (hnp1 : S H true s t = false) (hnp2 : S H true t s = false)
    (hM : MHyp H M (s.size + t.size)) :
    GoodM H s t (meetVisitInstance H M s t) := by
  have hnever := never_goodM hs.wf ht.wf
  have htp := Ty.size_pos t
  unfold meetVisitInstance
  split
  · -- s an instance
    rename_i hsi
    obtain ⟨c, hcs⟩ : ∃ c, s.cls = some c := by
      cases s <;> simp [Ty.isInstance] at hsi <;> exact ⟨_, rfl⟩
    split
    · rename_i hcls
      have hcd : c = d := by rw [hcs, hct] at hcls; simpa using hcls
      subst hcd
      split
      · rename_i hsub
        split
        · rename_i c1 x c2 y
          have q1 : c1 = c := by simpa [Ty.cls] using hct
          have q2 : c2 = c := by simpa [Ty.cls] using hcs
          subst q1
          have q2' := q2.symm
          subst q2'
          have hcm := (wf_gen ht.wf).1
          have hg := (wf_gen ht.wf).2.1
          have hsr := hok.sup_refl c1 hcm
          rw [hg] at hsr
          simp only [if_true] at hsr
          by_cases hv : H.variance c1 = .co
          · have g := hM x y (hyp_gen_arg ht) (hyp_gen_arg hs) (by simp [Ty.size]; omega)
            have hwr : (Ty.gen c1 (M x y)).wf H = true := by simp [Ty.wf, hcm, hg, g.wf]
            refine ⟨hwr, ?_, ?_⟩
            · rw [S_inst_iff hok false hwr hs.wf rfl rfl]
              refine ⟨_, hsr, ?_⟩
              intro x' y' hx' hy'
              simp [argTo, Ty.arg?] at hx' hy'; subst hx' hy'
              rw [hv]; exact g.right
            · rw [S_inst_iff hok false hwr ht.wf rfl rfl]
              refine ⟨_, hsr, ?_⟩
              intro x' y' hx' hy'
              simp [argTo, Ty.arg?] at hx' hy'; subst hx' hy'
              rw [hv]; exact g.left
          · -- invariant / contravariant parameter: the arguments are Type-free, so ≤ is proper ≤ — dead branch
            exfalso
            have nx := noTT_of_latOk_gen ht.lat hv
            have ny := noTT_of_latOk_gen hs.lat hv
            simp only [Bool.or_eq_true, isSubtype_eq] at hsub
            rcases hsub with h | h
            · have := S_up _ _ _ (Nat.le_refl _) (by simpa [Ty.noTypeType] using nx) (by simpa [Ty.noTypeType] using ny) h
              rw [hnp2] at this; cases this
            · have := S_up _ _ _ (Nat.le_refl _) (by simpa [Ty.noTypeType] using ny) (by simpa [Ty.noTypeType] using nx) h
              rw [hnp1] at this; cases this
        · -- same non-generic class: the operands are equal
          rename_i hnot
          have hts : s = t := by
            by_cases hg : H.generic c = true
            · obtain ⟨x, hx⟩ := ((wf_cls ht.wf hct).2.1).1 hg
              obtain ⟨y, hy⟩ := ((wf_cls hs.wf hcs).2.1).1 hg
              exact (hnot _ _ _ _ hx hy).elim
            · have hg : H.generic c = false := by simpa using hg
              rw [((wf_cls ht.wf hct).2.2).1 hg, ((wf_cls hs.wf hcs).2.2).1 hg]
          subst hts
          exact ⟨ht.wf, S_refl H false _, S_refl H false _⟩
      · exact hnever
    · split
      · rename_i hsub
        exact ⟨ht.wf, by simpa [isSubtype_eq] using hsub, S_refl H false _⟩
      · split
        · rename_i hsub
          exact ⟨hs.wf, S_refl H false _, by simpa [isSubtype_eq] using hsub⟩
        · exact hnever
  · cases s with
    | typeType y =>
      simp only [meetVisitTypeType]
      cases t with
      | inst c =>
        simp only
        split
        · rename_i hc
          have : c = H.typeC := by simpa using hc
          subst this
          refine ⟨hs.wf, S_refl H false _, ?_⟩
          rw [S_atom H false _ _ rfl rfl]; simp [subAtom, subFromTypeType]
        · exact hnever
      | gen c x => exact hnever
      | never | none | union _ | tuple _ | callable _ _ | lit _ _ | typeType _ => simp [Ty.cls] at hct
    | tuple ss =>
      simp only
      have g := meetVisitTuple_good hok M ht hs (B := (Ty.tuple ss).size + t.size) (by omega) hM
      exact ⟨g.wf, g.right, g.left⟩
    | lit c v =>
      simp only
      split
      · rename_i hsub
        exact ⟨hs.wf, S_refl H false _, lit_le false (by simpa [isSubtype_eq] using hsub)⟩
      · exact hnever
    | never | none | union _ | inst _ | gen _ _ | callable _ _ => exact hnever


/-- `visit_callable_type` of the meet visitor -/
theorem meetVisitCallable_good (hok : H.Ok) (J M : Ty → Ty → Ty) {s : Ty} {bs : List Ty} {ret : Ty} (hs : Hyp H s)
    (ht : Hyp H (.callable bs ret))
    (hJ : JHyp H J (s.size + (Ty.callable bs ret).size)) (hM : MHyp H M (s.size + (Ty.callable bs ret).size)) :
    GoodM H s (.callable bs ret) (meetVisitCallable H J M s (.callable bs ret) bs ret) := by
  have _ := hok
  have hnever := never_goodM hs.wf ht.wf
  have htc := hyp_callable ht
  unfold meetVisitCallable
  cases s with
  | callable as ret' =>
    simp only
    have hsc := hyp_callable hs
    have hret : Good H ret ret' (J ret ret') :=
      hJ ret ret' htc.2 hsc.2 (Or.inl (by simp [Ty.size]; omega))
    have hretM : GoodM H ret ret' (M ret ret') :=
      hM ret ret' htc.2 hsc.2 (by simp [Ty.size]; omega)
    have hitemJ : ∀ x ∈ bs, ∀ y ∈ as, Good H x y (J x y) := by
      intro x hx y hy
      have := size_le_sizeL hx; have := size_le_sizeL hy
      exact hJ x y (htc.1 x hx) (hsc.1 y hy) (Or.inl (by simp [Ty.size]; omega))
    split
    · rename_i hlen
      have hlen : bs.length = as.length := by simpa using hlen
      obtain ⟨u1, u2⟩ := zip_upper (f := J) (R := S H false) (xs := bs) (ys := as) hlen
        (fun x hx y hy => ⟨(hitemJ x hx y hy).left, (hitemJ x hx y hy).right⟩)
      have hzl := zipWith2_length J hlen
      have hwz := wfL_zipWith2 (H := H) (f := J) (xs := bs) (ys := as) (fun x hx y hy => (hitemJ x hx y hy).wf)
      split
      · rename_i heq
        obtain ⟨e1, e2⟩ := (isEquivalent_iff _ _).1 heq
        rw [S_callable_callable_iff] at e1 e2
        obtain ⟨q1, q2⟩ := hret.equiv e1.1 e2.1
        refine ⟨wf_callable_mk hwz hret.wf, ?_, ?_⟩
        · rw [S_callable_callable_iff]; exact ⟨q2, by omega, u2⟩
        · rw [S_callable_callable_iff]; exact ⟨q1, by omega, u1⟩
      · split
        · exact hnever
        · refine ⟨wf_callable_mk hwz hretM.wf, ?_, ?_⟩
          · rw [S_callable_callable_iff]; exact ⟨hretM.right, by omega, u2⟩
          · rw [S_callable_callable_iff]; exact ⟨hretM.left, by omega, u1⟩
    · exact hnever
  | never | none | union _ | inst _ | gen _ _ | tuple _ | lit _ _ | typeType _ => exact hnever

/-- `visit_type_type` of the meet visitor -/
theorem meetVisitTypeType_good (hok : H.Ok) (M : Ty → Ty → Ty) {s y : Ty} (hs : Hyp H s)
    (ht : Hyp H (.typeType y)) (hnp1 : S H true s (.typeType y) = false) (hnp2 : S H true (.typeType y) s = false)
    (hM : MHyp H M (s.size + (Ty.typeType y).size)) :
    GoodM H s (.typeType y) (meetVisitTypeType H M s (.typeType y) y) := by
  have hnever := never_goodM hs.wf ht.wf
  unfold meetVisitTypeType
  cases s with
  | typeType x =>
    simp only
    have hyu := (wf_typeType ht.wf).2
    have hxu := (wf_typeType hs.wf).2
    have g := hM y x (hyp_typeType_item ht) (hyp_typeType_item hs) (by simp [Ty.size]; omega)
    split
    · -- a None meet of the items would mean the items are None/object, i.e. properly related
      rename_i hn
      exfalso
      have hm : M y x = .none := by cases h : M y x <;> simp [h, Ty.isNone] at hn; rfl
      have gy := g.left; have gx := g.right
      rw [hm] at gy gx
      have pn : ∀ a b : Ty, (a = .none ∨ a = .inst H.objectC) → (b = .none ∨ b = .inst H.objectC) →
          S H true a b = true ∨ S H true b a = true := by
        intro a b ha hb
        have hno : S H true .none (.inst H.objectC) = true := by
          rw [S_atom H true _ _ rfl rfl]; simp [subAtom]
        rcases ha with ha | ha <;> rcases hb with hb | hb <;> subst ha hb
        · exact Or.inl (S_refl H true _)
        · exact Or.inl hno
        · exact Or.inr hno
        · exact Or.inl (S_refl H true _)
      rcases pn x y (above_none false hok hxu gx) (above_none false hok hyu gy) with h | h
      · have : S H true (.typeType x) (.typeType y) = true := (S_typeType_typeType_iff true x y).2 h
        rw [hnp1] at this; cases this
      · have : S H true (.typeType y) (.typeType x) = true := (S_typeType_typeType_iff true y x).2 h
        rw [hnp2] at this; cases this
    · exact ⟨normType_wf g.wf, normType_lower false g.right, normType_lower false g.left⟩
  | inst c =>
    simp only
    split
    · rename_i hc
      have : c = H.typeC := by simpa using hc
      subst this
      refine ⟨ht.wf, ?_, S_refl H false _⟩
      rw [S_atom H false _ _ rfl rfl]; simp [subAtom, subFromTypeType]
    · exact hnever
  | never | none | union _ | gen _ _ | tuple _ | callable _ _ | lit _ _ => exact hnever

/-- leaves of a simplified union of meets are below whatever all the meets are below -/
theorem simplify_below (hok : H.Ok) {L : List Ty} (hw : ∀ m ∈ L, m.wf H = true) {r : Ty} (hr : r.wf H = true)
    (h : ∀ m ∈ L, S H false m r = true) : S H false (simplifyUnion H L) r = true := by
  apply S_leaf_intro
  intro z hz
  rcases (simplify_spec hok L (wfL_iff.2 hw)).1 z hz with hm | hm
  · obtain ⟨m, hmL, hzm⟩ := mem_flattenL_iff.1 hm
    exact S_leaf_elim false (h m hmL) z hzm
  · subst hm
    exact S_leaf_elim false (S_never_wf false hr) _ (by simp [flattenT])

/-- an item of a union is below the union -/
theorem item_le_union (p : Bool) {x : Ty} {xs : List Ty} (hx : x ∈ xs) : S H p x (.union xs) = true := by
  apply S_leaf_intro
  intro z hz
  exact ⟨z, by simp only [flattenT]; exact mem_flattenL_iff.2 ⟨x, hx, hz⟩, S_refl H p z⟩

theorem S_trans_leaf (p : Bool) {m x u : Ty} (h1 : S H p m x = true)
    (h2 : ∀ z ∈ flattenT x, z ∈ flattenT u) : S H p m u = true := by
  apply S_leaf_intro
  intro z hz
  obtain ⟨w, hw, hzw⟩ := S_leaf_elim p h1 z hz
  exact ⟨w, h2 w hw, hzw⟩

theorem meetVisit_union_nonunion (J M : Ty → Ty → Ty) (s : Ty) (ts : List Ty) (h : s.isUnion = false) :
    meetVisit H J M s (.union ts) = simplifyUnion H (ts.map (fun x => M x s)) := by
  cases s <;> first | rfl | simp [Ty.isUnion] at h

/-- the meet visitor yields a good meet, when neither operand is a proper subtype of the other -/
theorem meetVisit_good (hok : H.Ok) (J M : Ty → Ty → Ty) {s t : Ty} (hs : Hyp H s) (ht : Hyp H t)
    (hnp1 : S H true s t = false) (hnp2 : S H true t s = false)
    (hJ : JHyp H J (s.size + t.size)) (hM : MHyp H M (s.size + t.size)) :
    GoodM H s t (meetVisit H J M s t) := by
  have hnever := never_goodM hs.wf ht.wf
  cases t with
  | union ts =>
    have hti := hyp_union_item ht
    have leaf_t : ∀ x ∈ ts, ∀ z ∈ flattenT x, z ∈ flattenT (Ty.union ts) := by
      intro x hx z hz; simp only [flattenT]; exact mem_flattenL_iff.2 ⟨x, hx, hz⟩
    by_cases hsu : s.isUnion = true
    · cases s <;> simp [Ty.isUnion] at hsu
      rename_i ss
      simp only [meetVisit]
      have hsi := hyp_union_item hs
      have leaf_s : ∀ y ∈ ss, ∀ z ∈ flattenT y, z ∈ flattenT (Ty.union ss) := by
        intro y hy z hz; simp only [flattenT]; exact mem_flattenL_iff.2 ⟨y, hy, hz⟩
      have hmem : ∀ m ∈ ts.flatMap (fun x => ss.map (fun y => M x y)),
          ∃ x ∈ ts, ∃ y ∈ ss, m = M x y ∧ GoodM H x y (M x y) := by
        intro m hm
        obtain ⟨x, hx, hm⟩ := List.mem_flatMap.1 hm
        obtain ⟨y, hy, rfl⟩ := List.mem_map.1 hm
        have := size_le_sizeL hx; have := size_le_sizeL hy
        exact ⟨x, hx, y, hy, rfl, hM x y (hti x hx) (hsi y hy) (by simp [Ty.size]; omega)⟩
      have hwL : ∀ m ∈ ts.flatMap (fun x => ss.map (fun y => M x y)), m.wf H = true := by
        intro m hm; obtain ⟨x, _, y, _, rfl, g⟩ := hmem m hm; exact g.wf
      refine ⟨simplify_wf hok _ (wfL_iff.2 hwL), simplify_below hok hwL hs.wf ?_, simplify_below hok hwL ht.wf ?_⟩
      · intro m hm; obtain ⟨x, _, y, hy, rfl, g⟩ := hmem m hm
        exact S_trans_leaf false g.right (leaf_s y hy)
      · intro m hm; obtain ⟨x, hx, y, _, rfl, g⟩ := hmem m hm
        exact S_trans_leaf false g.left (leaf_t x hx)
    · have hsu : s.isUnion = false := by simpa using hsu
      rw [meetVisit_union_nonunion J M s ts hsu]
      have hsp := Ty.size_pos s
      have hmem : ∀ m ∈ ts.map (fun x => M x s), ∃ x ∈ ts, m = M x s ∧ GoodM H x s (M x s) := by
        intro m hm
        obtain ⟨x, hx, rfl⟩ := List.mem_map.1 hm
        have := size_le_sizeL hx
        exact ⟨x, hx, rfl, hM x s (hti x hx) hs (by simp [Ty.size]; omega)⟩
      have hwL : ∀ m ∈ ts.map (fun x => M x s), m.wf H = true := by
        intro m hm; obtain ⟨x, _, rfl, g⟩ := hmem m hm; exact g.wf
      refine ⟨simplify_wf hok _ (wfL_iff.2 hwL), simplify_below hok hwL hs.wf ?_, simplify_below hok hwL ht.wf ?_⟩
      · intro m hm; obtain ⟨x, _, rfl, g⟩ := hmem m hm; exact g.right
      · intro m hm; obtain ⟨x, hx, rfl, g⟩ := hmem m hm
        exact S_trans_leaf false g.left (leaf_t x hx)
  | none =>
    simp only [meetVisit]
    split
    · rename_i hc
      refine ⟨ht.wf, ?_, S_refl H false _⟩
      simp only [Bool.or_eq_true, beq_iff_eq] at hc
      rcases hc with hc | hc
      · cases s <;> simp [Ty.isNone] at hc; exact S_refl H false _
      · subst hc; exact S_top hok false ht.wf
    · exact hnever
  | never => simp only [meetVisit]; exact hnever
  | inst c => exact meetVisitInstance_good hok M hs ht rfl hnp1 hnp2 hM
  | gen c x => exact meetVisitInstance_good hok M hs ht rfl hnp1 hnp2 hM
  | tuple ts => exact meetVisitTuple_good hok M hs ht (Nat.le_refl _) hM
  | callable bs ret => exact meetVisitCallable_good hok J M hs ht hJ hM
  | lit c v =>
    simp only [meetVisit]
    split
    · rename_i hc
      simp only [Bool.and_eq_true, isSubtype_eq] at hc
      exact ⟨ht.wf, lit_le false hc.2, S_refl H false _⟩
    · exact hnever
  | typeType y => exact meetVisitTypeType_good hok M hs ht hnp1 hnp2 hM

/-- one unfolding of `meet_types` with good recursive calls is a good meet -/
theorem meetStep_good (hok : H.Ok) (J M : Ty → Ty → Ty) {s t : Ty} (hs : Hyp H s) (ht : Hyp H t)
    (hJ : JHyp H J (s.size + t.size)) (hM : MHyp H M (s.size + t.size)) :
    GoodM H s t (meetStep H J M s t) := by
  simp only [meetStep]
  split
  · rename_i hp
    exact ⟨hs.wf, S_refl H false _, proper_imp_S H _ _ _ (Nat.le_refl _) hp⟩
  · split
    · rename_i hp
      exact ⟨ht.wf, proper_imp_S H _ _ _ (Nat.le_refl _) hp, S_refl H false _⟩
    · rename_i h1 h2
      have h1 : S H true s t = false := by simpa [isProperSubtype_eq] using h1
      have h2 : S H true t s = false := by simpa [isProperSubtype_eq] using h2
      split
      · have g := meetVisit_good hok J M ht hs h2 h1
          (fun x y hx hy h => hJ x y hx hy (h.imp (fun h => by omega) id))
          (fun x y hx hy h => hM x y hx hy (by omega))
        exact ⟨g.wf, g.right, g.left⟩
      · exact meetVisit_good hok J M hs ht h1 h2 hJ hM


theorem hyp_plain {a : Nat} (h : Plain H a) : Hyp H (.inst a) := by
  refine ⟨plain_wf h, ?_, rfl⟩
  by_cases ha : a = H.functionC
  · right; rw [ha]
  · left; simpa [Ty.noFunc] using ha

/-- joins of instances of two plain classes (the one case where a recursive call is not on a smaller pair) -/
theorem plain_good (hok : H.Ok) {x y : Ty} (hp : PlainPair H x y) : Good H x y (join H x y) := by
  obtain ⟨wx, wy⟩ := plainPair_wf hp
  obtain ⟨a, a', hx, hy, pa, pa'⟩ := hp
  have hp' : PlainPair H x y := ⟨a, a', hx, hy, pa, pa'⟩
  rw [join_unfold hok x y wx wy,
    plain_join_indep hok (join H) (fun a b => simplifyUnion H [a, b]) (meet H) (fun _ _ => .never) hp']
  subst hx hy
  apply joinStep_good hok _ _ (hyp_plain pa) (hyp_plain pa')
  · intro u v hu hv _
    exact simplify2_good hok hu.wf hv.wf
  · intro u v hu hv _
    exact never_goodM hu.wf hv.wf

/-- **the lattice laws**: for well-formed operands in which `builtins.function` does not occur (or which are
    `builtins.function`) and whose invariant/contravariant type arguments are `Type[...]`-free, `join` is a
    well-formed upper bound (least on equivalent operands) and `meet` a well-formed lower bound -/
theorem jm_good (hok : H.Ok) : ∀ (n : Nat) (s t : Ty), s.size + t.size ≤ n → Hyp H s → Hyp H t →
    Good H s t (join H s t) ∧ GoodM H s t (meet H s t) := by
  intro n
  induction n with
  | zero => intro s t h; have := Ty.size_pos s; omega
  | succ n ih =>
    intro s t hn hs ht
    have hJ : JHyp H (join H) (s.size + t.size) := by
      intro x y hx hy h
      rcases h with h | h
      · exact (ih x y (by omega) hx hy).1
      · exact plain_good hok h
    have hM : MHyp H (meet H) (s.size + t.size) := by
      intro x y hx hy h
      exact (ih x y (by omega) hx hy).2
    constructor
    · rw [join_unfold hok s t hs.wf ht.wf]
      exact joinStep_good hok _ _ hs ht hJ hM
    · rw [meet_unfold hok s t hs.wf ht.wf]
      exact meetStep_good hok _ _ hs ht hJ hM


end Types
