import MypyVerif.Model.Ipc
/-! Helper lemmas for the framing model (property theorems are in Props/C16.lean). -/
namespace Ipc

/-- a remembered size is always the decoded header of the current buffer -/
def Consistent (s : St) : Prop :=
  ∀ m, s.messageSize = some m → 4 ≤ s.buffer.length ∧ m = decodeLen (s.buffer.take 4)

theorem decode_encode (n : Nat) (h : n < 4294967296) : decodeLen (encodeLen n) = n := by
  simp [decodeLen, encodeLen]; omega

theorem encodeLen_length (n : Nat) : (encodeLen n).length = 4 := rfl

theorem frame_length (m : List Byte) : (frame m).length = 4 + m.length := by
  simp [frame, encodeLen_length]

private theorem ms_eq (s : St) (hc : Consistent s) :
    s.ms = decodeLen (s.buffer.take 4) := by
  unfold St.ms
  cases hm : s.messageSize with
  | none => rfl
  | some m => simp [(hc m hm).2]

theorem ffb_none (s : St) (hc : Consistent s) (s' : St) (h : frameFromBuffer s = (s', none)) :
    s'.buffer = s.buffer ∧ Consistent s' ∧
    (s.buffer.length < 4 ∨ s.buffer.length < decodeLen (s.buffer.take 4) + 4) := by
  unfold frameFromBuffer at h
  simp only at h
  split at h
  · injection h with h1 _; subst h1; exact ⟨rfl, hc, Or.inl (by assumption)⟩
  · rename_i h4
    rw [ms_eq s hc] at h
    split at h
    · injection h with h1 _; subst h1
      refine ⟨rfl, ?_, Or.inr (by assumption)⟩
      intro m hm; simp at hm; subst hm; exact ⟨by simp; omega, rfl⟩
    · simp at h

theorem ffb_some (s : St) (hc : Consistent s) (s' : St) (b : List Byte)
    (h : frameFromBuffer s = (s', some b)) :
    4 ≤ s.buffer.length ∧ decodeLen (s.buffer.take 4) + 4 ≤ s.buffer.length ∧
    b = (s.buffer.drop 4).take (decodeLen (s.buffer.take 4)) ∧
    s' = { buffer := s.buffer.drop (4 + decodeLen (s.buffer.take 4)), messageSize := none } := by
  unfold frameFromBuffer at h
  simp only at h
  split at h
  · simp at h
  · rename_i h4
    rw [ms_eq s hc] at h
    split at h
    · simp at h
    · rename_i h5
      injection h with h1 h2
      injection h2 with h2
      exact ⟨by omega, by omega, h2.symm, h1.symm⟩

theorem consistent_append (s : St) (hc : Consistent s) (c : List Byte) :
    Consistent { s with buffer := s.buffer ++ c } := by
  intro m hm
  have := hc m hm
  refine ⟨by simp; omega, ?_⟩
  simp only
  rw [List.take_append_of_le_length this.1]
  exact this.2

/-- the header of a buffer that is a prefix of `frame m ++ rest` and has ≥ 4 bytes -/
theorem take4_of_stream (buf tail m rest : List Byte) (h : buf ++ tail = frame m ++ rest)
    (h4 : 4 ≤ buf.length) : buf.take 4 = encodeLen m.length := by
  have h1 : (buf ++ tail).take 4 = buf.take 4 := List.take_append_of_le_length h4
  have h2 : (frame m ++ rest).take 4 = encodeLen m.length := by
    simp [frame, List.append_assoc]
    rw [List.take_append_of_le_length (by simp [encodeLen_length])]
    simp [encodeLen]
  rw [← h1, h, h2]

theorem drop4_frame (m rest : List Byte) : (frame m ++ rest).drop 4 = m ++ rest := by
  simp [frame, encodeLen]

theorem take_body (m rest : List Byte) : ((frame m ++ rest).drop 4).take m.length = m := by
  rw [drop4_frame]; simp

theorem drop_frame (m rest : List Byte) : (frame m ++ rest).drop (4 + m.length) = rest :=
  List.drop_left' (by simp [frame_length])

instance (s : St) : Decidable (Consistent s) := by unfold Consistent; cases s.messageSize <;> simp <;> infer_instance

end Ipc
