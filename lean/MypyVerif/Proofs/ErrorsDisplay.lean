import MypyVerif.Proofs.Errors
/-!
Helper lemmas for the display pipeline of `file_messages` (Props/C13 `displayed_deletion_exact`):
the stable sort commutes with deleting elements; with one import context and equal priorities
`sort_messages` is that stable sort; `remove_duplicates` commutes with deleting a key-closed,
parent-closed set of elements.
-/
namespace Errors
set_option linter.unusedSimpArgs false

/-! ## file_messages commutes with deleting stored infos -/

def Sorted {α : Type} (le : α → α → Bool) (l : List α) : Prop := l.Pairwise (fun a b => le a b = true)

theorem insertBy_head {α : Type} (le : α → α → Bool) (x : α) (s : List α) (h : ∀ w ∈ s, le x w = true) :
    insertBy le x s = x :: s := by
  cases s with
  | nil => rfl
  | cons z zs => simp [insertBy, h z (by simp)]

theorem insertBy_sorted {α : Type} (le : α → α → Bool) (htot : ∀ a b, le a b = false → le b a = true)
    (htr : ∀ a b c, le a b = true → le b c = true → le a c = true) (x : α) :
    ∀ s, Sorted le s → Sorted le (insertBy le x s) := by
  intro s
  induction s with
  | nil => intro _; simp [insertBy, Sorted]
  | cons z zs ih =>
    intro hs
    have hs' := List.pairwise_cons.1 hs
    simp only [insertBy]
    cases hxz : le x z with
    | true =>
      simp only [if_true]
      refine List.pairwise_cons.2 ⟨?_, hs⟩
      intro w hw
      rcases List.mem_cons.1 hw with rfl | hw
      · exact hxz
      · exact htr _ _ _ hxz (hs'.1 w hw)
    | false =>
      simp only [Bool.false_eq_true, if_false]
      refine List.pairwise_cons.2 ⟨?_, ih hs'.2⟩
      intro w hw
      rcases (mem_insertBy le x w zs).1 hw with rfl | hw
      · exact htot _ _ hxz
      · exact hs'.1 w hw

theorem sortBy_sorted {α : Type} (le : α → α → Bool) (htot : ∀ a b, le a b = false → le b a = true)
    (htr : ∀ a b c, le a b = true → le b c = true → le a c = true) : ∀ l, Sorted le (sortBy le l) := by
  intro l
  induction l with
  | nil => simp [sortBy, Sorted]
  | cons x xs ih => exact insertBy_sorted le htot htr x _ ih

theorem filter_insertBy {α : Type} (le : α → α → Bool)
    (htr : ∀ a b c, le a b = true → le b c = true → le a c = true) (p : α → Bool) (x : α) :
    ∀ s, Sorted le s →
      (insertBy le x s).filter p = if p x then insertBy le x (s.filter p) else s.filter p := by
  intro s
  induction s with
  | nil => intro _; cases hp : p x <;> simp [insertBy, hp]
  | cons z zs ih =>
    intro hs
    have hs' := List.pairwise_cons.1 hs
    simp only [insertBy]
    cases hxz : le x z with
    | true =>
      simp only [if_true]
      cases hp : p x with
      | false => simp [hp]
      | true =>
        simp only [List.filter_cons, hp, if_true]
        rw [insertBy_head]
        intro w hw
        have hw' : w ∈ z :: zs := (List.mem_filter.1 (by simpa [List.filter_cons] using hw)).1
        rcases List.mem_cons.1 hw' with rfl | hw'
        · exact hxz
        · exact htr _ _ _ hxz (hs'.1 w hw')
    | false =>
      simp only [Bool.false_eq_true, if_false]
      cases hpz : p z with
      | true =>
        simp only [List.filter_cons, hpz, if_true, ih hs'.2]
        cases hp : p x with
        | false => simp
        | true => simp [insertBy, hxz]
      | false =>
        simp only [List.filter_cons, hpz, Bool.false_eq_true, if_false, ih hs'.2]

theorem sortBy_filter {α : Type} (le : α → α → Bool) (htot : ∀ a b, le a b = false → le b a = true)
    (htr : ∀ a b c, le a b = true → le b c = true → le a c = true) (p : α → Bool) :
    ∀ l, sortBy le (l.filter p) = (sortBy le l).filter p := by
  intro l
  induction l with
  | nil => simp [sortBy]
  | cons x xs ih =>
    have hs := sortBy_sorted le htot htr xs
    have key := filter_insertBy le htr p x (sortBy le xs) hs
    simp only [sortBy, List.foldr_cons] at ih key ⊢
    rw [key]
    cases hp : p x with
    | false => simp [List.filter_cons, hp, ih]
    | true => simp [List.filter_cons, hp, ih]

theorem posLe_total (a b : Info) (h : posLe a b = false) : posLe b a = true := by
  simp only [posLe, decide_eq_false_iff_not, decide_eq_true_eq] at h ⊢
  omega

theorem posLe_trans (a b c : Info) (h1 : posLe a b = true) (h2 : posLe b c = true) : posLe a c = true := by
  simp only [posLe, decide_eq_true_eq] at h1 h2 ⊢
  omega

/-- sorting by a key on which all elements agree changes nothing (Python's sort is stable) -/
theorem sortBy_const {α : Type} (le : α → α → Bool) : ∀ l : List α, (∀ a ∈ l, ∀ b ∈ l, le a b = true) → sortBy le l = l := by
  intro l
  induction l with
  | nil => intro _; rfl
  | cons x xs ih =>
    intro h
    have ih' := ih (fun a ha b hb => h a (by simp [ha]) b (by simp [hb]))
    simp only [sortBy, List.foldr_cons] at ih' ⊢
    rw [ih']
    exact insertBy_head le x xs (fun w hw => h x (by simp) w (by simp [hw]))

/-- one run when all neighbours are related -/
theorem runs_single {α : Type} (same : α → α → Bool) : ∀ l : List α, l ≠ [] →
    (∀ a ∈ l, ∀ b ∈ l, same a b = true) → runs same l = [l]
  | [], h, _ => absurd rfl h
  | [x], _, _ => rfl
  | x :: y :: ys, _, h => by
    have ih := runs_single same (y :: ys) (by simp) (fun a ha b hb => h a (by simp [ha]) b (by simp [hb]))
    simp only [runs, ih]
    simp [h x (by simp) y (by simp)]

theorem flatten_runs_map_id {α : Type} (same : α → α → Bool) (g : List α → List α) (l : List α)
    (hg : ∀ r ∈ runs same l, g r = r) : ((runs same l).map g).flatten = l := by
  have : (runs same l).map g = runs same l := by
    conv => rhs; rw [← List.map_id (runs same l)]
    exact List.map_congr_left (fun r hr => by simp [hg r hr])
  rw [this, runs_flatten]

theorem mem_of_mem_runs {α : Type} (same : α → α → Bool) (l r : List α) (x : α) (hr : r ∈ runs same l) (hx : x ∈ r) :
    x ∈ l := by
  have : x ∈ (runs same l).flatten := List.mem_flatten.2 ⟨r, hr, hx⟩
  rwa [runs_flatten] at this

/-- with all priorities equal, `sort_within_context` is the identity -/
theorem sortWithinContext_id (l : List Info) (h : ∀ a ∈ l, a.priority = 0) : sortWithinContext l = l := by
  unfold sortWithinContext
  apply flatten_runs_map_id
  intro r hr
  apply sortBy_const
  intro a ha b hb
  have h1 := h a (mem_of_mem_runs _ l r a hr ha)
  have h2 := h b (mem_of_mem_runs _ l r b hr hb)
  simp [h1, h2]

/-- one import context, all priorities 0: `sort_messages` is the stable sort by (line, column) -/
theorem sortMessages_simple (l : List Info) (hctx : ∀ a ∈ l, ∀ b ∈ l, a.importCtx = b.importCtx)
    (hprio : ∀ a ∈ l, a.priority = 0) : sortMessages l = sortBy posLe l := by
  cases hl : l with
  | nil => simp [sortMessages, runs, sortBy]
  | cons x xs =>
    rw [← hl]
    have hne : l ≠ [] := by rw [hl]; simp
    unfold sortMessages
    rw [runs_single _ l hne (fun a ha b hb => by simp [hctx a ha b hb])]
    simp only [List.map_cons, List.map_nil, List.flatten_cons, List.flatten_nil, List.append_nil]
    apply sortWithinContext_id
    intro a ha
    exact hprio a ((mem_sortBy posLe a l).1 ha)

abbrev DKey := Int × Sev × Msg
def dkey (e : Info) : DKey := (e.line, e.sev, e.msg)

/-- `dedupScan` returning the removed *elements* -/
def dedupScanE : List Info → List DKey → List Info × List Info
  | [], _ => ([], [])
  | e :: es, seen =>
    if e.parent.isSome then
      let r := dedupScanE es seen
      (e :: r.1, r.2)
    else if (e.line, e.sev, e.msg) ∈ seen then
      let r := dedupScanE es seen
      (r.1, e :: r.2)
    else
      let r := dedupScanE es ((e.line, e.sev, e.msg) :: seen)
      (e :: r.1, r.2)

theorem dedupScan_eq : ∀ (l : List Info) (seen : List DKey),
    dedupScan l seen = ((dedupScanE l seen).1, (dedupScanE l seen).2.map (·.uid)) := by
  intro l
  induction l with
  | nil => intro seen; rfl
  | cons e es ih =>
    intro seen
    simp only [dedupScan, dedupScanE]
    split
    · simp [ih]
    · split
      · simp [ih]
      · simp [ih]

theorem dedupScanE_removed_sub : ∀ (l : List Info) (seen : List DKey) (y : Info), y ∈ (dedupScanE l seen).2 → y ∈ l := by
  intro l
  induction l with
  | nil => intro seen y h; simp [dedupScanE] at h
  | cons e es ih =>
    intro seen y h
    simp only [dedupScanE] at h
    split at h
    · exact List.mem_cons_of_mem _ (ih _ y h)
    · split at h
      · rcases List.mem_cons.1 h with rfl | h
        · simp
        · exact List.mem_cons_of_mem _ (ih _ y h)
      · exact List.mem_cons_of_mem _ (ih _ y h)

/-- deleting a key-closed set of elements commutes with the first loop of `remove_duplicates` -/
theorem dedupScanE_filter (p : Info → Bool) : ∀ (l : List Info) (seen seen' : List DKey),
    (∀ x ∈ l, ∀ y ∈ l, x.parent = none → y.parent = none → dkey x = dkey y → p x = p y) →
    (∀ x ∈ l, x.parent = none → p x = true → (dkey x ∈ seen' ↔ dkey x ∈ seen)) →
    (dedupScanE (l.filter p) seen').1 = (dedupScanE l seen).1.filter p ∧
    (dedupScanE (l.filter p) seen').2 = (dedupScanE l seen).2.filter p := by
  intro l
  induction l with
  | nil => intro seen seen' _ _; simp [dedupScanE]
  | cons e es ih =>
    intro seen seen' hK hinv
    have hK' : ∀ x ∈ es, ∀ y ∈ es, x.parent = none → y.parent = none → dkey x = dkey y → p x = p y :=
      fun x hx y hy => hK x (by simp [hx]) y (by simp [hy])
    have hinv' : ∀ x ∈ es, x.parent = none → p x = true → (dkey x ∈ seen' ↔ dkey x ∈ seen) :=
      fun x hx => hinv x (by simp [hx])
    cases hpar : e.parent with
    | some u =>
      obtain ⟨h1, h2⟩ := ih seen seen' hK' hinv'
      cases hp : p e with
      | true => simp [List.filter_cons, hp, dedupScanE, hpar, h1, h2]
      | false => simp [List.filter_cons, hp, dedupScanE, hpar, h1, h2]
    | none =>
      by_cases hseen : dkey e ∈ seen
      · -- removed in the original scan
        obtain ⟨h1, h2⟩ := ih seen seen' hK' hinv'
        have hs : (e.line, e.sev, e.msg) ∈ seen := hseen
        cases hp : p e with
        | true =>
          have hs' : (e.line, e.sev, e.msg) ∈ seen' := (hinv e (by simp) hpar hp).2 hseen
          simp [List.filter_cons, hp, dedupScanE, hpar, hs, hs', h1, h2]
        | false =>
          simp [List.filter_cons, hp, dedupScanE, hpar, hs, h1, h2]
      · have hs : (e.line, e.sev, e.msg) ∉ seen := hseen
        cases hp : p e with
        | true =>
          have hs' : (e.line, e.sev, e.msg) ∉ seen' := fun h => hseen ((hinv e (by simp) hpar hp).1 h)
          obtain ⟨h1, h2⟩ := ih ((e.line, e.sev, e.msg) :: seen) ((e.line, e.sev, e.msg) :: seen') hK' (by
            intro x hx hxp hpx
            have := hinv' x hx hxp hpx
            simp only [List.mem_cons]
            constructor
            · rintro (h | h)
              · exact Or.inl h
              · exact Or.inr (this.1 h)
            · rintro (h | h)
              · exact Or.inl h
              · exact Or.inr (this.2 h))
          simp [List.filter_cons, hp, dedupScanE, hpar, hs, hs', h1, h2]
        | false =>
          obtain ⟨h1, h2⟩ := ih ((e.line, e.sev, e.msg) :: seen) seen' hK' (by
            intro x hx hxp hpx
            have := hinv' x hx hxp hpx
            have hne : dkey x ≠ dkey e := by
              intro heq
              have := hK x (by simp [hx]) e (by simp) hxp hpar heq
              rw [hpx, hp] at this; cases this
            simp only [List.mem_cons]
            constructor
            · intro h; exact Or.inr (this.1 h)
            · rintro (h | h)
              · exact absurd h hne
              · exact this.2 h)
          simp [List.filter_cons, hp, dedupScanE, hpar, hs, h1, h2]

/-- `remove_duplicates` commutes with deleting a key-closed, parent-closed set of elements -/
theorem removeDuplicates_filter (p : Info → Bool) (l : List Info)
    (hK : ∀ x ∈ l, ∀ y ∈ l, x.parent = none → y.parent = none → dkey x = dkey y → p x = p y)
    (hP : ∀ x ∈ l, p x = true → ∀ u, x.parent = some u → ∀ y ∈ l, y.uid = u → p y = true) :
    removeDuplicates (l.filter p) = (removeDuplicates l).filter p := by
  obtain ⟨h1, h2⟩ := dedupScanE_filter p l [] [] hK (fun _ _ _ _ => Iff.rfl)
  simp only [removeDuplicates, dedupScan_eq, h1, h2, List.filter_filter]
  apply List.filter_congr
  intro x hx
  have hxl : x ∈ l := by
    have := dedupScan_sub l [] x (by rw [dedupScan_eq]; exact hx)
    exact this
  cases hp : p x with
  | false => simp
  | true =>
    simp only [Bool.and_true, Bool.true_and]
    congr 1
    unfold parentRemoved
    cases hpar : x.parent with
    | none => rfl
    | some u =>
      simp only [decide_eq_decide, List.mem_map, List.mem_filter]
      constructor
      · rintro ⟨y, ⟨hy, _⟩, hu⟩; exact ⟨y, hy, hu⟩
      · rintro ⟨y, hy, hu⟩
        exact ⟨y, ⟨hy, hP x hxl hp u hpar y (dedupScanE_removed_sub l [] y hy) hu⟩, hu⟩

/-- what `file_messages` displays, before rendering: the visible infos of the file, sorted, de-duplicated -/
def displayed (d : Dyn) (path : FileId) : List Info :=
  removeDuplicates (sortMessages ((fileInfos d path).filter fun i => !i.hidden))

theorem fileMessages_eq_displayed (d : Dyn) (path : FileId) : fileMessages d path = (displayed d path).map render := rfl

theorem displayed_filter (l : List Info) (p : Info → Bool)
    (hctx : ∀ a ∈ l, ∀ b ∈ l, a.importCtx = b.importCtx) (hprio : ∀ a ∈ l, a.priority = 0)
    (hK : ∀ x ∈ l, ∀ y ∈ l, x.parent = none → y.parent = none → dkey x = dkey y → p x = p y)
    (hP : ∀ x ∈ l, p x = true → ∀ u, x.parent = some u → ∀ y ∈ l, y.uid = u → p y = true) :
    removeDuplicates (sortMessages (l.filter p)) = (removeDuplicates (sortMessages l)).filter p := by
  have hsub : ∀ a, a ∈ l.filter p → a ∈ l := fun a ha => (List.mem_filter.1 ha).1
  rw [sortMessages_simple l hctx hprio,
      sortMessages_simple (l.filter p) (fun a ha b hb => hctx a (hsub a ha) b (hsub b hb)) (fun a ha => hprio a (hsub a ha)),
      sortBy_filter posLe posLe_total posLe_trans p l]
  apply removeDuplicates_filter
  · intro x hx y hy
    exact hK x ((mem_sortBy posLe x l).1 hx) y ((mem_sortBy posLe y l).1 hy)
  · intro x hx hpx u hu y hy
    exact hP x ((mem_sortBy posLe x l).1 hx) hpx u hu y ((mem_sortBy posLe y l).1 hy)

end Errors
