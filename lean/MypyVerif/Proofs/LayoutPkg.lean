import MypyVerif.Proofs.LayoutRound
/-!
`find_modules_recursive` (`mypy -p PKG`): every build source it makes is what `find_module` returns for its name.
-/
namespace Layout

variable (fs : FS)

theorem loopPkg_mem {ns : Bool} {recur : List Name → List (Path × List Name)} {P : Path × List Name → Prop}
    (hrec : ∀ m, ∀ e ∈ recur m, P e) {pp : Path} {module : List Name} :
    ∀ (names seen : List Name), ∀ e ∈ loopPkg fs ns recur pp module names seen, P e := by
  intro names
  induction names with
  | nil => intro seen e he; simp [loopPkg] at he
  | cons n rest ih =>
    intro seen e he
    simp only [loopPkg] at he
    split at he
    · exact ih _ e he
    · split at he
      · split at he
        · rw [List.mem_append] at he
          rcases he with he | he
          · exact hrec _ e he
          · exact ih _ e he
        · exact ih _ e he
      · split at he
        · exact ih _ e he
        · split at he
          · rw [List.mem_append] at he
            rcases he with he | he
            · exact hrec _ e he
            · exact ih _ e he
          · exact ih _ e he

theorem findModulesRecursive_mem {ns : Bool} {roots : List Path} : ∀ (fuel : Nat) (module : List Name),
    ∀ e ∈ findModulesRecursive fs ns roots fuel module, findModule fs ns roots (searchComps e.2) = some e.1 := by
  intro fuel
  induction fuel with
  | zero => intro module e he; simp [findModulesRecursive] at he
  | succ k ih =>
    intro module e he
    simp only [findModulesRecursive] at he
    cases hf : findModule fs ns roots (searchComps module) with
    | none => rw [hf] at he; simp at he
    | some mp =>
      rw [hf] at he
      simp only at he
      split at he
      · simp only [List.mem_singleton] at he
        subst he; exact hf
      · simp only [List.mem_cons] at he
        rcases he with he | he
        · subst he; exact hf
        · exact loopPkg_mem fs (P := fun e => findModule fs ns roots (searchComps e.2) = some e.1)
            (fun m e he => ih m e he) _ _ e he

end Layout
