import MypyVerif.Proofs.LangGlobal
/-
Preservation for the interpreter, expression level: if `tcE` accepted an expression in a binder state that
types the store, evaluating it (any fuel) keeps the invariant, cannot end in TypeError/AttributeError, yields a
member of the computed type, and the conditional type maps hold for the outcome.  One induction step on the
fuel; the statement level and the induction itself are in LangSoundS.lean.
-/
namespace Lang

/-- `b` may be the truth value of `v`: fixed for everything but objects (a `__bool__` method may say either) -/
def mayBe (v : Val) (b : Bool) : Prop :=
  match v with
  | .ref _ => True
  | _ => truthy v = b

theorem mayBe_bool {b c : Bool} (h : mayBe (.bool b) c) : b = c := h

/-- what evaluation of a checked expression guarantees -/
def ExprSpec (P : Prog) (σ : Store) (r : ERes) : State → Val → Prop :=
  fun st' v => hasTy P st'.heap v r.ty ∧
    (mayBe v true → MapOK P st'.heap σ r.yes) ∧ (mayBe v false → MapOK P st'.heap σ r.no)

def ExprOK (P : Prog) (tm : Recs) (n : Nat) : Prop :=
  ∀ (k : Nat) (C : Ctx) (Γ : Env) (an cd : Bool) (e : Expr) (r : ERes) (σ : Store) (st : State), C.P = P →
    tcE k C Γ an cd e = .ok r → (∀ x ∈ r.recs, x ∈ tm) → StoreOK P st.heap C.decl Γ σ →
    Sat P tm st (evalE n P σ e) (ExprSpec P σ r)

def ArgsOKn (P : Prog) (tm : Recs) (n : Nat) : Prop :=
  ∀ (k : Nat) (C : Ctx) (Γ : Env) (es : List Expr) (r : List Ty × Recs) (σ : Store) (st : State), C.P = P →
    tcArgs k C Γ es = .ok r → (∀ x ∈ r.2, x ∈ tm) → StoreOK P st.heap C.decl Γ σ →
    Sat P tm st (evalArgs n P σ es) (fun st' vs => ArgsOK P st'.heap vs r.1)

/-- instance dictionary under construction: what is there is typed as declared for class `c` -/
def FieldsTyped (P : Prog) (h : Heap) (c : Nat) (fs : List (Nat × Val)) : Prop :=
  ∀ f T w, lookupAttr P c f = some T → lookup f fs = some w → hasTy P h w T

def FieldsOKn (P : Prog) (tm : Recs) (n : Nat) : Prop :=
  ∀ (c : Nat) (params : List Ty) (assigns : List (Nat × Expr)) (recs : Recs) (σ : Store) (acc : List (Nat × Val)) (st : State),
    tcInit P c params assigns = .ok recs → (∀ x ∈ recs, x ∈ tm) → StoreOK P st.heap params [] σ →
    FieldsTyped P st.heap c acc →
    Sat P tm st (evalFields n P σ assigns acc) (fun st' fs => FieldsTyped P st'.heap c fs ∧
      ∀ f, ((lookup f acc).isSome = true ∨ assigns.any (fun p => p.1 == f) = true) → (lookup f fs).isSome = true)

def StmtSpec (P : Prog) (C : Ctx) (r : SRes) : State → Ctl → Prop :=
  fun st' ctl => match ctl with
    | .normal σ' => ∃ Γ', r.out = some Γ' ∧ StoreOK P st'.heap C.decl Γ' σ'
    | .ret v σ' => hasTy P st'.heap v C.ret ∧ ∃ Γ', Γ' ∈ r.rets ∧ StoreOK P st'.heap C.decl Γ' σ'
    | .brk σ' => ∃ Γ', Γ' ∈ r.brks ∧ StoreOK P st'.heap C.decl Γ' σ'
    | .cont σ' => ∃ Γ', Γ' ∈ r.conts ∧ StoreOK P st'.heap C.decl Γ' σ'
    | .exc f σ' => Benign f ∧ ∃ Γ', Γ' ∈ r.excs ∧ StoreOK P st'.heap C.decl Γ' σ'

def StmtOK (P : Prog) (tm : Recs) (n : Nat) : Prop :=
  ∀ (k : Nat) (C : Ctx) (Γ : Env) (s : Stmt) (r : SRes) (σ : Store) (st : State), C.P = P →
    tcS k C (some Γ) s = .ok r → (∀ x ∈ r.recs, x ∈ tm) → StoreOK P st.heap C.decl Γ σ →
    Sat P tm st (evalS n P σ s) (StmtSpec P C r)

structure EvalOK (P : Prog) (tm : Recs) (n : Nat) : Prop where
  expr : ExprOK P tm n
  args : ArgsOKn P tm n
  fields : FieldsOKn P tm n
  stmt : StmtOK P tm n

variable {P : Prog} {tm : Recs}

theorem spec_plain {σ : Store} {T : Ty} {recs : Recs} {st : State} {v : Val} (h : hasTy P st.heap v T) :
    ExprSpec P σ (plain T recs) st v :=
  ⟨h, fun _ => MapOK.noInfo, fun _ => MapOK.noInfo⟩

theorem beq_ty {T U : Ty} (h : (T == U) = true) : T = U := by simpa using h

/-! ## Calling a checked body -/

theorem getVar_replicate (m x : Nat) : getVar (List.replicate m (none : Option Val)) x = none := by
  unfold getVar
  cases h : (List.replicate m (none : Option Val))[x]? with
  | none => rfl
  | some o =>
    have := List.mem_of_getElem? h
    simp at this
    rw [this.2]

theorem store_of_args {h : Heap} (Ls : List Ty) (m : Nat) : ∀ (vs : List Val) (Ts : List Ty), ArgsOK P h vs Ts →
    ∀ x T v, (Ts ++ Ls)[x]? = some T → getVar (vs.map some ++ List.replicate m none) x = some v → hasTy P h v T := by
  intro vs
  induction vs with
  | nil =>
    intro Ts ha x T v _ hv
    simp only [List.map_nil, List.nil_append] at hv
    rw [getVar_replicate] at hv; cases hv
  | cons v0 vs ih =>
    intro Ts ha x T v hT hv
    cases Ts with
    | nil => simp [ArgsOK] at ha
    | cons T0 Ts =>
      simp only [ArgsOK] at ha
      cases x with
      | zero =>
        simp at hT; subst hT
        simp [getVar] at hv; subst hv
        exact ha.1
      | succ y =>
        simp at hT
        have hv' : getVar (vs.map some ++ List.replicate m none) y = some v := by
          simpa [getVar] using hv
        exact ih Ts ha.2 y T v hT hv'

theorem storeOK_init {h : Heap} {vs : List Val} {Ts Ls : List Ty} (ha : ArgsOK P h vs Ts) :
    StoreOK P h (Ts ++ Ls) [] (vs.map some ++ List.replicate Ls.length none) := by
  intro x T hx v hv
  have : effTy (Ts ++ Ls) [] x = T := by simp [effTy, lookup, declTy, hx]
  rw [this]
  exact store_of_args Ls _ vs Ts ha x T v hx hv

theorem callBody_ok (hs : StmtOK P tm n) {self : Option Nat} {fd : FuncDef} {vs : List Val} {st : State}
    (hf : FuncOK P tm self fd) (ha : ArgsOK P st.heap vs (selfTys self ++ fd.params)) :
    Sat P tm st (callBody (evalS n P) fd vs) (fun st' v => hasTy P st'.heap v fd.ret) := by
  obtain ⟨r, hr, hrecs, hend, hb, hc⟩ := hf
  unfold callBody
  have hst : StoreOK P st.heap (selfTys self ++ fd.params ++ fd.locals) [] (initStore fd vs) := storeOK_init ha
  refine sat_bind (hs tcFuel _ [] fd.body r _ st rfl hr hrecs hst) ?_
  intro st1 ctl _ hspec
  cases ctl with
  | normal σ' =>
    obtain ⟨Γ', hΓ, _⟩ := hspec
    have : fd.ret = [.none] := hend (by rw [hΓ]; rfl)
    apply sat_pure
    rw [this]; exact ⟨.none, by simp, by simp [hasAtom]⟩
  | ret v σ' => exact sat_pure hspec.1
  | brk σ' => obtain ⟨Γ', hm, _⟩ := hspec; rw [hb] at hm; simp at hm
  | cont σ' => obtain ⟨Γ', hm, _⟩ := hspec; rw [hc] at hm; simp at hm
  | exc f σ' => exact sat_fail hspec.1

/-! ## Dynamic method lookup -/

theorem sat_methOf (t : Typed P tm) {st : State} {v : Val} {m : Nat} {T : Ty} {sigs : List FuncDef}
    (hv : hasTy P st.heap v T) (hsig : methSigs P m T = .ok sigs) :
    Sat P tm st (methOf P v m) (fun st' fd => ∃ k fd0, hasTy P st'.heap v [.cls k] ∧ ownMeth P k m = some fd ∧
      fd0 ∈ sigs ∧ SemCompat P fd fd0) := by
  intro hi
  obtain ⟨a, ha, hva⟩ := hv
  obtain ⟨d, k0, fd0, rfl, hl, hmem⟩ := methSigs_mem hsig a ha
  cases v <;> simp [hasAtom] at hva
  next l =>
  obtain ⟨c, hc, hsub⟩ := hva
  obtain ⟨k, fd, hlk, hck, hown, hcomp⟩ := dispatch t c d m k0 fd0 hsub hl
  simp only [methOf, hc, hlk, Post]
  exact ⟨hi, Ext.refl _, k, fd0, ⟨.cls k, by simp, by simp only [hasAtom]; exact ⟨c, hc, hck⟩⟩, hown, hmem, hcomp⟩

/-- `bool(v)` for a condition: a checked `__bool__` (no parameters, returns bool) or the built-in truth value -/
theorem sat_truthOf (t : Typed P tm) (hs : StmtOK P tm n) {st : State} {v : Val} {T : Ty} (hv : hasTy P st.heap v T) :
    Sat P tm st (truthOf (evalS n P) P v) (fun _ b => mayBe v b) := by
  have w := t.wf
  cases v with
  | ref l =>
    obtain ⟨a, _, hva⟩ := hv
    have hcls : ∃ k, classOf st.heap l = some k := by
      cases a <;> simp [hasAtom] at hva
      · exact hva
      · obtain ⟨k, hk, _⟩ := hva; exact ⟨k, hk⟩
    obtain ⟨k, hk⟩ := hcls
    cases hl : lookupMeth P k boolMeth with
    | none =>
      intro hi
      simp only [truthOf, hk, hl, Post]
      exact ⟨hi, Ext.refl _, trivial⟩
    | some kf =>
      obtain ⟨k', fd⟩ := kf
      obtain ⟨hk'mem, hown⟩ := findMeth_some_mem _ _ _ hl
      have hsig : fd.params = [] ∧ fd.ret = [.bool] := by
        unfold ownMeth at hown
        cases hkc : P.classes[k']? with
        | none => simp [hkc] at hown
        | some kd =>
          simp [hkc] at hown
          exact (t.cls k' kd hkc).boolSig fd (lookup_mem hown)
      have hargs : ArgsOK P st.heap [Val.ref l] (selfTys (some k') ++ fd.params) := by
        rw [hsig.1]
        simp only [selfTys, List.append_nil, ArgsOK, and_true]
        exact ⟨.cls k', by simp, by simp only [hasAtom]; exact ⟨k, hk, isSub_iff.mpr hk'mem⟩⟩
      have hcall := callBody_ok hs (t.meth hown) hargs
      have : truthOf (evalS n P) P (Val.ref l) st =
          (M.bind (callBody (evalS n P) fd [Val.ref l]) asBool) st := by
        simp [truthOf, hk, hl, hsig.1]
      intro hi
      rw [this]
      refine sat_bind hcall ?_ hi
      intro st1 r _ hr
      rw [hsig.2] at hr
      obtain ⟨a', ha', hra⟩ := hr
      simp at ha'; subst ha'
      cases r <;> simp [hasAtom] at hra
      exact sat_pure (by simp [mayBe])
  | int i => intro hi; simp only [truthOf, Post]; exact ⟨hi, Ext.refl _, rfl⟩
  | str s => intro hi; simp only [truthOf, Post]; exact ⟨hi, Ext.refl _, rfl⟩
  | bool b => intro hi; simp only [truthOf, Post]; exact ⟨hi, Ext.refl _, rfl⟩
  | none => intro hi; simp only [truthOf, Post]; exact ⟨hi, Ext.refl _, rfl⟩

/-! ## Arithmetic -/

theorem intLike_toInt {h : Heap} {v : Val} {T : Ty} (ht : hasTy P h v T) (hi : isIntLike T = true) :
    ∃ x, toInt? v = some x ∧ ∀ s, v ≠ .str s := by
  simp only [isIntLike, Bool.or_eq_true] at hi
  obtain ⟨a, ha, hva⟩ := ht
  rcases hi with hi | hi
  · have := beq_ty hi; subst this; simp at ha; subst ha
    cases v <;> simp [hasAtom] at hva <;> simp [toInt?]
  · have := beq_ty hi; subst this; simp at ha; subst ha
    cases v <;> simp [hasAtom] at hva <;> simp [toInt?]

theorem str_val {h : Heap} {v : Val} (ht : hasTy P h v [.str]) : ∃ s, v = .str s := by
  obtain ⟨a, ha, hva⟩ := ht
  simp at ha; subst ha
  cases v <;> simp [hasAtom] at hva
  exact ⟨_, rfl⟩

theorem bool_val {h : Heap} {v : Val} (ht : hasTy P h v [.bool]) : ∃ b, v = .bool b := by
  obtain ⟨a, ha, hva⟩ := ht
  simp at ha; subst ha
  cases v <;> simp [hasAtom] at hva
  exact ⟨_, rfl⟩

theorem attr_in_names {c f : Nat} {T : Ty} {cd : ClassDef} (hc : P.classes[c]? = some cd)
    (hl : lookupAttr P c f = some T) : f ∈ allAttrNames P cd := by
  unfold lookupAttr at hl
  rw [mroOf_eq hc] at hl
  obtain ⟨k, hk, hown⟩ := findAttr_some_mem _ _ hl
  unfold allAttrNames attrNames
  rw [List.mem_flatten]
  unfold ownAttr at hown
  cases hkc : P.classes[k]? with
  | none => simp [hkc] at hown
  | some kd =>
    simp [hkc] at hown
    refine ⟨kd.attrs.map (·.1), List.mem_map.mpr ⟨k, hk, by simp [hkc]⟩, ?_⟩
    exact List.mem_map.mpr ⟨(f, T), lookup_mem hown, rfl⟩

/-! ## One step of the induction on the fuel: expressions -/

theorem expr_zero : ExprOK P tm 0 := by
  intro k C Γ an cd e r σ st _ _ _ _
  simp only [evalE]; exact sat_fail trivial

theorem args_zero : ArgsOKn P tm 0 := by
  intro k C Γ es r σ st _ _ _ _
  simp only [evalArgs]; exact sat_fail trivial

theorem fields_zero : FieldsOKn P tm 0 := by
  intro c params assigns recs σ acc st _ _ _ _
  simp only [evalFields]; exact sat_fail trivial

theorem args_step (ih : EvalOK P tm n) : ArgsOKn P tm (n + 1) := by
  intro k C Γ es r σ st hP htc hrecs hst
  cases k with
  | zero => simp [tcArgs] at htc
  | succ k =>
    cases es with
    | nil =>
      simp only [tcArgs, pure_ok] at htc; subst htc
      simp only [evalArgs]; exact sat_pure (by simp [ArgsOK])
    | cons e es =>
      simp only [tcArgs, bind_ok, pure_ok] at htc
      obtain ⟨a, ha, rest, hrest, hr⟩ := htc
      subst hr
      simp only [evalArgs]
      refine sat_bind (ih.expr k C Γ false false e a σ st hP ha (fun x hx => hrecs x (List.mem_append_left _ hx)) hst) ?_
      intro st1 v e1 hv
      refine sat_bind (ih.args k C Γ es rest σ st1 hP hrest (fun x hx => hrecs x (List.mem_append_right _ hx)) (hst.ext e1)) ?_
      intro st2 vs e2 hvs
      apply sat_pure
      simp only [ArgsOK]
      exact ⟨hasTy_ext e2 hv.1, hvs⟩

theorem fields_step (t : Typed P tm) (ih : EvalOK P tm n) : FieldsOKn P tm (n + 1) := by
  intro c params assigns recs σ acc st htc hrecs hst hacc
  cases assigns with
  | nil =>
    simp only [evalFields]
    refine sat_pure ⟨hacc, ?_⟩
    intro f h
    rcases h with h | h
    · exact h
    · simp at h
  | cons p rest =>
    obtain ⟨f, e⟩ := p
    simp only [tcInit, bind_ok] at htc
    obtain ⟨re, hre, htc⟩ := htc
    cases hl : lookupAttr P c f with
    | none => rw [hl] at htc; simp at htc
    | some T =>
      rw [hl] at htc
      simp only [bind_ok, req_ok, pure_ok] at htc
      obtain ⟨_, hsub, rs, hrs, hr⟩ := htc
      subst hr
      simp only [evalFields]
      refine sat_bind (ih.expr tcFuel { P := P, decl := params, ret := [.none] } [] false false e re σ st rfl hre
        (fun x hx => hrecs x (List.mem_append_left _ hx)) hst) ?_
      intro st1 v e1 hv
      have hacc' : FieldsTyped P st1.heap c (setField f v acc) := by
        intro g U w hg hw
        rw [lookup_setField] at hw
        by_cases hgf : g = f
        · subst hgf; simp at hw; subst hw
          rw [hl] at hg; cases hg
          exact subTy_sound t.wf hsub hv.1
        · simp [hgf] at hw
          exact hasTy_ext e1 (hacc g U w hg hw)
      refine sat_mono (ih.fields c params rest rs σ (setField f v acc) st1 hrs
        (fun x hx => hrecs x (List.mem_append_right _ hx)) (hst.ext e1) hacc') ?_
      intro st2 fs _ hfs
      refine ⟨hfs.1, ?_⟩
      intro g hg
      apply hfs.2 g
      rw [lookup_setField]
      by_cases hgf : g = f
      · left; simp [hgf]
      · rcases hg with hg | hg
        · left; simp [hgf, hg]
        · right
          simp only [List.any_cons, Bool.or_eq_true] at hg
          rcases hg with hg | hg
          · simp at hg; exact absurd hg.symm hgf
          · exact hg

theorem truthy_bool (b : Bool) : truthy (.bool b) = b := rfl

theorem hasTy_bool {h : Heap} (b : Bool) : hasTy P h (.bool b) [.bool] := ⟨.bool, by simp, by simp [hasAtom]⟩

theorem expr_step (t : Typed P tm) (ih : EvalOK P tm n) : ExprOK P tm (n + 1) := by
  intro k C Γ an cd e r σ st hP htc hrecs hst
  subst hP
  have w := t.wf
  cases k with
  | zero => simp [tcE] at htc
  | succ k =>
  cases e with
  | intLit i =>
    simp only [tcE, pure_ok] at htc; subst htc
    simp only [evalE]; exact sat_pure (spec_plain ⟨.int, by simp, by simp [hasAtom]⟩)
  | strLit s =>
    simp only [tcE, pure_ok] at htc; subst htc
    simp only [evalE]; exact sat_pure (spec_plain ⟨.str, by simp, by simp [hasAtom]⟩)
  | boolLit b =>
    simp only [tcE, pure_ok] at htc; subst htc
    simp only [evalE]
    apply sat_pure
    refine ⟨hasTy_bool b, ?_, ?_⟩
    · intro hb; have hb := mayBe_bool hb; subst hb; exact MapOK.noInfo
    · intro hb; have hb := mayBe_bool hb; subst hb; exact MapOK.noInfo
  | noneLit =>
    simp only [tcE, pure_ok] at htc; subst htc
    simp only [evalE]; exact sat_pure (spec_plain ⟨.none, by simp, by simp [hasAtom]⟩)
  | var x =>
    simp only [tcE] at htc
    cases hx : C.decl[x]? with
    | none => rw [hx] at htc; simp at htc
    | some Tx =>
      rw [hx] at htc
      simp only at htc
      simp only [evalE]
      refine sat_mono sat_readVar ?_
      intro st' v _ hv
      obtain ⟨rfl, hv⟩ := hv
      have hvT := hst x Tx hx v hv
      cases cd with
      | false => simp only [Bool.false_eq_true, if_false, pure_ok] at htc; subst htc; exact spec_plain hvT
      | true =>
        simp only [if_true] at htc
        split at htc
        · simp only [pure_ok] at htc; subst htc
          have single : ∀ U : Ty, hasTy C.P st'.heap v U → MapOK C.P st'.heap σ (some [(x, U)]) := by
            intro U hu
            apply MapOK.single (fun hc => hasTy_nil (hc ▸ hu))
            intro v' hv'; rw [hv] at hv'; cases hv'; exact hu
          refine ⟨hvT, ?_, fun _ => single _ hvT⟩
          intro htv
          obtain ⟨a, ha, hva⟩ := hvT
          have hmem : a ∈ (effTy C.decl Γ x).filter (fun a => a != .none) := by
            refine List.mem_filter.mpr ⟨ha, ?_⟩
            cases a <;> simp
            cases v <;> simp [hasAtom] at hva
            simp [mayBe, truthy] at htv
          split
          · next he =>
            have hnil := List.isEmpty_iff.mp he
            rw [hnil] at hmem; simp at hmem
          · exact single _ ⟨a, hmem, hva⟩
        · cases htc
  | attr e f =>
    simp only [tcE, bind_ok, req_ok, pure_ok] at htc
    obtain ⟨_, _, r0, hr0, _, _, ts, hts, hr⟩ := htc
    subst hr
    simp only [evalE]
    refine sat_bind (ih.expr k C Γ false false e r0 σ st rfl hr0 hrecs hst) ?_
    intro st1 v _ hv
    exact sat_mono (sat_getAttr w hv.1 hts) (fun st2 u _ hu => spec_plain hu)
  | callM e m args =>
    simp only [tcE, bind_ok, req_ok, pure_ok] at htc
    obtain ⟨r0, hr0, _, _, sigs, hsigs, as, has, _, hfit, _, _, hr⟩ := htc
    subst hr
    simp only [evalE]
    refine sat_bind (ih.expr k C Γ false false e r0 σ st rfl hr0 (fun x hx => hrecs x (List.mem_append_left _ hx)) hst) ?_
    intro st1 rv e1 hrv
    refine sat_bind (sat_methOf t hrv.1 hsigs) ?_
    intro st2 fd e2 hfd
    obtain ⟨kc, fd0, hself, hown, hmem, hcomp⟩ := hfd
    refine sat_bind (ih.args k C Γ args as σ st2 rfl has (fun x hx => hrecs x (List.mem_append_right _ hx))
      ((hst.ext e1).ext e2)) ?_
    intro st3 vs e3 hvs
    simp only [List.all_eq_true] at hfit
    have hargs : ArgsOK C.P st3.heap vs fd.params := hcomp.1 _ _ (argsFit_sound w (hfit fd0 hmem) hvs)
    rw [if_pos (ArgsOK_length hargs)]
    have hcall : ArgsOK C.P st3.heap (rv :: vs) (selfTys (some kc) ++ fd.params) := by
      simp only [selfTys, List.cons_append, List.nil_append, ArgsOK]
      exact ⟨hasTy_ext e3 hself, hargs⟩
    refine sat_mono (callBody_ok ih.stmt (t.meth hown) hcall) ?_
    intro st4 v _ hv
    exact spec_plain (joinResults_sound w (List.mem_map.mpr ⟨fd0, hmem, rfl⟩) (hcomp.2 _ _ hv))
  | callF f args =>
    simp only [tcE] at htc
    cases hf : C.P.funcs[f]? with
    | none => rw [hf] at htc; simp at htc
    | some fd =>
      rw [hf] at htc
      simp only [bind_ok, req_ok, pure_ok] at htc
      obtain ⟨as, has, _, hfit, _, _, hr⟩ := htc
      subst hr
      simp only [evalE, hf]
      refine sat_bind (ih.args k C Γ args as σ st rfl has hrecs hst) ?_
      intro st1 vs e1 hvs
      have hargs : ArgsOK C.P st1.heap vs fd.params := argsFit_sound w hfit hvs
      rw [if_pos (ArgsOK_length hargs)]
      refine sat_mono (callBody_ok ih.stmt (self := none) (t.func f fd hf) (by simpa [selfTys] using hargs)) ?_
      intro st2 v _ hv
      exact spec_plain hv
  | new c args =>
    simp only [tcE] at htc
    cases hc : C.P.classes[c]? with
    | none => rw [hc] at htc; simp at htc
    | some cdef =>
      rw [hc] at htc
      simp only [bind_ok, req_ok, pure_ok] at htc
      obtain ⟨as, has, _, hfit, hr⟩ := htc
      subst hr
      simp only [evalE, hc]
      refine sat_bind (ih.args k C Γ args as σ st rfl has hrecs hst) ?_
      intro st1 vs e1 hvs
      have hargs : ArgsOK C.P st1.heap vs cdef.init.params := argsFit_sound w hfit hvs
      rw [if_pos (ArgsOK_length hargs)]
      obtain ⟨irecs, hinit, hirecs⟩ := (t.cls c cdef hc).init
      have hst0 : StoreOK C.P st1.heap cdef.init.params [] (vs.map some) := by
        have := storeOK_init (P := C.P) (Ls := []) hargs
        simpa using this
      refine sat_bind (ih.fields c cdef.init.params cdef.init.assigns irecs (vs.map some) [] st1 hinit hirecs hst0
        (fun f T w' _ h => by simp [lookup] at h)) ?_
      intro st2 fs e2 hfs
      refine sat_mono (sat_alloc w hc ?_) (fun st3 v _ hv => spec_plain hv)
      intro f T hl
      have hin := attr_in_names hc hl
      have hcomplete := (w.cls hc).init
      simp only [initComplete, List.all_eq_true] at hcomplete
      have hsome := hfs.2 f (Or.inr (hcomplete f hin))
      cases hlk : lookup f fs with
      | none => rw [hlk] at hsome; simp at hsome
      | some u => exact ⟨u, rfl, hfs.1 f T u hl hlk⟩
  | isinst x c =>
    simp only [tcE] at htc
    cases hx : C.decl[x]? with
    | none => rw [hx] at htc; simp at htc
    | some Tx =>
      cases hc : C.P.classes[c]? with
      | none => rw [hx, hc] at htc; simp at htc
      | some cdef =>
        rw [hx, hc] at htc
        simp only [bind_ok, pure_ok] at htc
        obtain ⟨ms, hms, hr⟩ := htc
        subst hr
        simp only [evalE]
        refine sat_bind sat_readVar ?_
        intro st1 v _ hv
        obtain ⟨rfl, hv⟩ := hv
        have hvT := hst x Tx hx v hv
        refine sat_bind (sat_instOf hvT) ?_
        intro st2 b _ hb
        obtain ⟨rfl, hb⟩ := hb
        intro hi
        refine ⟨hi, Ext.refl _, ?_⟩
        obtain ⟨h1, h2⟩ := instMaps_sound w hms hi.1 hv hvT
        refine ⟨hasTy_bool b, ?_, ?_⟩
        · intro htb; have htb := mayBe_bool htb; exact h1 (hb.mp htb)
        · intro htb; have htb := mayBe_bool htb
          exact h2 (fun hc => by rw [hb.mpr hc] at htb; cases htb)
  | isNone x neg =>
    simp only [tcE] at htc
    cases hx : C.decl[x]? with
    | none => rw [hx] at htc; simp at htc
    | some Tx =>
      rw [hx] at htc
      simp only [bind_ok, pure_ok] at htc
      obtain ⟨ms, hms, hr⟩ := htc
      subst hr
      simp only [evalE]
      refine sat_bind sat_readVar ?_
      intro st1 v _ hv
      obtain ⟨rfl, hv⟩ := hv
      have hvT := hst x Tx hx v hv
      apply sat_pure
      obtain ⟨h1, h2⟩ := noneMaps_sound hms hv hvT
      refine ⟨hasTy_bool _, ?_, ?_⟩
      · intro htb; have htb := mayBe_bool htb
        cases neg with
        | false => simp at htb; simpa using h1 htb
        | true => simp at htb; simpa using h2 htb
      · intro htb; have htb := mayBe_bool htb
        cases neg with
        | false => simp at htb; simpa using h2 htb
        | true => simp at htb; simpa using h1 htb
  | not e =>
    simp only [tcE, bind_ok, req_ok, pure_ok] at htc
    obtain ⟨r0, hr0, _, _, hr⟩ := htc
    subst hr
    simp only [evalE]
    refine sat_bind (ih.expr k C Γ false cd e r0 σ st rfl hr0 hrecs hst) ?_
    intro st1 v _ hv
    refine sat_bind (sat_truthOf t ih.stmt hv.1) ?_
    intro st2 tv e2 htv
    apply sat_pure
    refine ⟨hasTy_bool _, ?_, ?_⟩
    · intro htb
      have htb := mayBe_bool htb
      have : tv = false := by simpa using htb
      subst this; exact (hv.2.2 htv).ext e2
    · intro htb
      have htb := mayBe_bool htb
      have : tv = true := by simpa using htb
      subst this; exact (hv.2.1 htv).ext e2
  | and a b =>
    simp only [tcE, bind_ok, req_ok] at htc
    obtain ⟨ra, hra, _, hbool, htc⟩ := htc
    cases hpm : pushMap Γ false ra.yes with
    | none => rw [hpm] at htc; simp at htc
    | some Γa =>
      rw [hpm] at htc
      simp only [bind_ok, req_ok, pure_ok] at htc
      obtain ⟨rb, hrb, _, hboolb, hr⟩ := htc
      subst hr
      simp only [evalE]
      refine sat_bind (ih.expr k C Γ false true a ra σ st rfl hra (fun x hx => hrecs x (List.mem_append_left _ hx)) hst) ?_
      intro st0 v e0 hv
      have hvb : hasTy C.P st0.heap v [.bool] := by rw [← beq_ty hbool]; exact hv.1
      obtain ⟨bv, rfl⟩ := bool_val hvb
      refine sat_bind (sat_truthOf t ih.stmt hvb) ?_
      intro st1 tv e01 htv
      have htv' := mayBe_bool htv
      subst htv'
      have e1 := e0.trans e01
      cases bv with
      | true =>
        simp only [if_true]
        have hyes := (hv.2.1 htv).ext e01
        obtain ⟨Γ', hΓ', hstΓ⟩ := hyes.push false (hst.ext e1)
        rw [hpm] at hΓ'; cases hΓ'
        refine sat_mono (ih.expr k C Γa false cd b rb σ st1 rfl hrb (fun x hx => hrecs x (List.mem_append_right _ hx)) hstΓ) ?_
        intro st2 u e2 hu
        refine ⟨by rw [← beq_ty hboolb]; exact hu.1, ?_, ?_⟩
        · intro htu; exact (hyes.ext e2).and (hu.2.1 htu)
        · intro htu; exact MapOK.or_right w (hu.2.2 htu)
      | false =>
        simp only [Bool.false_eq_true, if_false]
        apply sat_pure
        refine ⟨hasTy_bool _, ?_, ?_⟩
        · intro h; have := mayBe_bool h; cases this
        · intro _; exact MapOK.or_left w ((hv.2.2 htv).ext e01)
  | or a b =>
    simp only [tcE, bind_ok, req_ok] at htc
    obtain ⟨ra, hra, _, hbool, htc⟩ := htc
    cases hpm : pushMap Γ false ra.no with
    | none => rw [hpm] at htc; simp at htc
    | some Γa =>
      rw [hpm] at htc
      simp only [bind_ok, req_ok, pure_ok] at htc
      obtain ⟨rb, hrb, _, hboolb, hr⟩ := htc
      subst hr
      simp only [evalE]
      refine sat_bind (ih.expr k C Γ false true a ra σ st rfl hra (fun x hx => hrecs x (List.mem_append_left _ hx)) hst) ?_
      intro st0 v e0 hv
      have hvb : hasTy C.P st0.heap v [.bool] := by rw [← beq_ty hbool]; exact hv.1
      obtain ⟨bv, rfl⟩ := bool_val hvb
      refine sat_bind (sat_truthOf t ih.stmt hvb) ?_
      intro st1 tv e01 htv
      have htv' := mayBe_bool htv
      subst htv'
      have e1 := e0.trans e01
      cases bv with
      | false =>
        simp only [Bool.false_eq_true, if_false]
        have hno := (hv.2.2 htv).ext e01
        obtain ⟨Γ', hΓ', hstΓ⟩ := hno.push false (hst.ext e1)
        rw [hpm] at hΓ'; cases hΓ'
        refine sat_mono (ih.expr k C Γa false cd b rb σ st1 rfl hrb (fun x hx => hrecs x (List.mem_append_right _ hx)) hstΓ) ?_
        intro st2 u e2 hu
        refine ⟨by rw [← beq_ty hboolb]; exact hu.1, ?_, ?_⟩
        · intro htu; exact MapOK.or_right w (hu.2.1 htu)
        · intro htu; exact (hno.ext e2).and (hu.2.2 htu)
      | true =>
        simp only [if_true]
        apply sat_pure
        refine ⟨hasTy_bool _, ?_, ?_⟩
        · intro _; exact MapOK.or_left w ((hv.2.1 htv).ext e01)
        · intro h; have := mayBe_bool h; cases this
  | eq a b =>
    simp only [tcE, bind_ok, req_ok, pure_ok] at htc
    obtain ⟨_, _, ra, hra, rb, hrb, _, _, hr⟩ := htc
    subst hr
    simp only [evalE]
    refine sat_bind (ih.expr k C Γ false false a ra σ st rfl hra (fun x hx => hrecs x (List.mem_append_left _ hx)) hst) ?_
    intro st1 v e1 _
    refine sat_bind (ih.expr k C Γ false false b rb σ st1 rfl hrb (fun x hx => hrecs x (List.mem_append_right _ hx)) (hst.ext e1)) ?_
    intro st2 u _ _
    exact sat_pure (spec_plain (hasTy_bool _))
  | add a b =>
    simp only [tcE, bind_ok] at htc
    obtain ⟨ra, hra, rb, hrb, htc⟩ := htc
    simp only [evalE]
    have hsub : ∀ x, x ∈ ra.recs ++ rb.recs → x ∈ tm := by
      intro x hx
      split at htc
      · simp only [pure_ok] at htc; subst htc; exact hrecs x hx
      · split at htc
        · simp only [pure_ok] at htc; subst htc; exact hrecs x hx
        · cases htc
    refine sat_bind (ih.expr k C Γ false false a ra σ st rfl hra (fun x hx => hsub x (List.mem_append_left _ hx)) hst) ?_
    intro st1 v e1 hv
    refine sat_bind (ih.expr k C Γ false false b rb σ st1 rfl hrb (fun x hx => hsub x (List.mem_append_right _ hx)) (hst.ext e1)) ?_
    intro st2 u e2 hu
    split at htc
    · next hi =>
      simp only [pure_ok] at htc; subst htc
      simp only [Bool.and_eq_true] at hi
      obtain ⟨x, hx, hxs⟩ := intLike_toInt hv.1 hi.1
      obtain ⟨y, hy, _⟩ := intLike_toInt hu.1 hi.2
      have : addVal v u = some (.int (x + y)) := by
        cases v <;> simp [toInt?] at hx <;> cases u <;> simp [toInt?] at hy <;> simp [addVal, toInt?, hx, hy]
      rw [this]
      exact sat_pure (spec_plain ⟨.int, by simp, by simp [hasAtom]⟩)
    · split at htc
      · next hs =>
        simp only [pure_ok] at htc; subst htc
        simp only [Bool.and_eq_true] at hs
        have hv1 := hv.1; rw [beq_ty hs.1] at hv1
        have hu1 := hu.1; rw [beq_ty hs.2] at hu1
        obtain ⟨s1, rfl⟩ := str_val hv1
        obtain ⟨s2, rfl⟩ := str_val hu1
        simp only [addVal]
        exact sat_pure (spec_plain ⟨.str, by simp, by simp [hasAtom]⟩)
      · cases htc
  | sub a b =>
    simp only [tcE, bind_ok] at htc
    obtain ⟨ra, hra, rb, hrb, htc⟩ := htc
    simp only [evalE]
    split at htc
    · next hi =>
      simp only [pure_ok] at htc; subst htc
      refine sat_bind (ih.expr k C Γ false false a ra σ st rfl hra (fun x hx => hrecs x (List.mem_append_left _ hx)) hst) ?_
      intro st1 v e1 hv
      refine sat_bind (ih.expr k C Γ false false b rb σ st1 rfl hrb (fun x hx => hrecs x (List.mem_append_right _ hx)) (hst.ext e1)) ?_
      intro st2 u e2 hu
      simp only [Bool.and_eq_true] at hi
      obtain ⟨x, hx, _⟩ := intLike_toInt hv.1 hi.1
      obtain ⟨y, hy, _⟩ := intLike_toInt hu.1 hi.2
      simp only [subVal, hx, hy]
      exact sat_pure (spec_plain ⟨.int, by simp, by simp [hasAtom]⟩)
    · cases htc
  | lt a b =>
    simp only [tcE, bind_ok] at htc
    obtain ⟨ra, hra, rb, hrb, htc⟩ := htc
    simp only [evalE]
    have hsub : ∀ x, x ∈ ra.recs ++ rb.recs → x ∈ tm := by
      intro x hx
      split at htc
      · simp only [pure_ok] at htc; subst htc; exact hrecs x hx
      · split at htc
        · simp only [pure_ok] at htc; subst htc; exact hrecs x hx
        · cases htc
    refine sat_bind (ih.expr k C Γ false false a ra σ st rfl hra (fun x hx => hsub x (List.mem_append_left _ hx)) hst) ?_
    intro st1 v e1 hv
    refine sat_bind (ih.expr k C Γ false false b rb σ st1 rfl hrb (fun x hx => hsub x (List.mem_append_right _ hx)) (hst.ext e1)) ?_
    intro st2 u e2 hu
    split at htc
    · next hi =>
      simp only [pure_ok] at htc; subst htc
      simp only [Bool.and_eq_true] at hi
      obtain ⟨x, hx, hxs⟩ := intLike_toInt hv.1 hi.1
      obtain ⟨y, hy, _⟩ := intLike_toInt hu.1 hi.2
      have : ltVal v u = some (decide (x < y)) := by
        cases v <;> simp [toInt?] at hx <;> cases u <;> simp [toInt?] at hy <;> simp [ltVal, toInt?, hx, hy]
      rw [this]
      exact sat_pure (spec_plain (hasTy_bool _))
    · split at htc
      · next hs =>
        simp only [pure_ok] at htc; subst htc
        simp only [Bool.and_eq_true] at hs
        have hv1 := hv.1; rw [beq_ty hs.1] at hv1
        have hu1 := hu.1; rw [beq_ty hs.2] at hu1
        obtain ⟨s1, rfl⟩ := str_val hv1
        obtain ⟨s2, rfl⟩ := str_val hu1
        simp only [ltVal]
        exact sat_pure (spec_plain (hasTy_bool _))
      · cases htc
  | probe pk e =>
    simp only [tcE, bind_ok, req_ok, pure_ok] at htc
    obtain ⟨_, _, r0, hr0, hr⟩ := htc
    subst hr
    simp only [evalE]
    refine sat_bind (ih.expr k C Γ false false e r0 σ st rfl hr0 (fun x hx => hrecs x (List.mem_append_left _ hx)) hst) ?_
    intro st1 v _ hv
    refine sat_bind (sat_logProbe (hrecs (pk, r0.ty) (by simp [plain])) hv.1) ?_
    intro st2 _ _ _
    exact sat_pure (spec_plain ⟨.none, by simp, by simp [hasAtom]⟩)

end Lang
