import MypyVerif.Proofs.BindTD
/-!
Call binding, part 4: a key supplied twice (explicit keyword + `**TypedDict` key).  CPython raises at the
call site; mypy's model reports it unless both occurrences are routed to a star formal (F9 i).
-/
namespace PyBind
open ArgMap

/-! ### a key supplied twice -/

theorem nameIndex_lt {F : List Formal} {x : Name} {j : Nat} (h : nameIndex F x = some j) : j < F.length := by
  induction F generalizing j with
  | nil => simp [nameIndex] at h
  | cons f fs ih =>
    simp only [nameIndex] at h
    split at h
    · injection h with h; subst h; simp
    · cases hn : nameIndex fs x with
      | none => simp [hn] at h
      | some k =>
        simp [hn] at h; subst h
        have := ih hn
        simp; omega

theorem entry_of_group (F : List Formal) : ∀ (kg : List KwGroup) (n c : Nat) (g : KwGroup) (x : Name),
    kg[c]? = some g → x ∈ g.keys → (x, n + c, gTarget F g x) ∈ keyEntries F kg n := by
  intro kg
  induction kg with
  | nil => intro n c g x h; simp at h
  | cons h r ih =>
    intro n c g x hc hx
    cases c with
    | zero =>
      simp at hc; subst hc
      simp only [keyEntries, List.mem_append]
      left
      cases h with
      | kw y =>
        simp only [KwGroup.keys, List.mem_singleton] at hx; subst hx
        simp [groupEntries, gTarget]
      | td ks =>
        simp only [KwGroup.keys] at hx
        simp only [groupEntries, gTarget, List.mem_map, Nat.add_zero]
        exact ⟨x, hx, rfl⟩
    | succ c =>
      simp at hc
      simp only [keyEntries, List.mem_append]
      right
      have := ih (n + 1) c g x hc hx
      have e : n + 1 + c = n + (c + 1) := by omega
      rw [e] at this; exact this

theorem two_mem_length {l : List Nat} {a b : Nat} (ha : a ∈ l) (hb : b ∈ l) (hne : a ≠ b) : 2 ≤ l.length := by
  match l, ha, hb with
  | [], ha, _ => cases ha
  | [c], ha, hb =>
    simp at ha hb; omega
  | _ :: _ :: _, _, _ => simp

/-- two different actuals on one formal, one of them an explicit keyword: always a duplicate -/
theorem dup_of_two (acts : List Actual) (m : List Nat) (b1 b2 : Nat) (x : Name) (h1 : b1 ∈ m) (h2 : b2 ∈ m)
    (hne : b1 ≠ b2) (hact : acts[b1]? = some (.named x)) : isDuplicateMapping acts m = true := by
  have hlen := two_mem_length h1 h2 hne
  unfold isDuplicateMapping
  simp only [Bool.and_eq_true, Bool.not_eq_true', decide_eq_true_eq]
  refine ⟨⟨by omega, ?_⟩, ?_⟩
  · match m, h1, hlen with
    | [u, v], h1, _ =>
      simp only [List.mem_cons, List.not_mem_nil, or_false] at h1
      rcases h1 with rfl | rfl
      · simp [actualKindAt, hact, Actual.kind]
      · simp [actualKindAt, hact, Actual.kind]
    | [], _, hl => simp at hl
    | [_], _, hl => simp at hl
    | _ :: _ :: _ :: _, _, _ => simp
  · rw [List.all_eq_false]
    exact ⟨b1, h1, by simp [hact]⟩

/-- **a key supplied by an explicit keyword and by a `**TypedDict`, not routed to a star formal, is
    reported by mypy's model** (as a duplicate value, or as an unexpected keyword) -/
theorem dup_key_rejected (s : Sig) (pa : List (Option Nat)) (kg : List KwGroup) (x : Name) (c1 c2 : Nat)
    (ks : List Name) (h1 : kg[c1]? = some (.kw x)) (h2 : kg[c2]? = some (.td ks)) (hx : x ∈ ks)
    (hr : routesToStarFormal s.toFormals x = false) :
    mypyErrors s.toFormals (fullCall pa kg) ≠ [] := by
  intro herr
  rw [mypyErrors_nil_iff, map_full] at herr
  obtain ⟨hex, hfo⟩ := herr
  have hc1 : c1 < kg.length := (List.getElem?_eq_some_iff.1 h1).1
  have hne : c1 ≠ c2 := by
    intro e; subst e; rw [h1] at h2; cases h2
  unfold routesToStarFormal at hr
  cases hn : nameIndex s.toFormals x with
  | none =>
    -- the explicit keyword is mapped nowhere
    simp only [hn] at hr
    have hkt : kwTarget s.toFormals x = none := by
      unfold kwTarget; simp only [hn]
      cases hs : star2Index s.toFormals with
      | none => rfl
      | some j => simp [hs] at hr
    obtain ⟨pre, g', post, hkg, hpre, hg'⟩ := kgroup_split hc1
    rw [h1] at hg'; injection hg' with hg'; subst hg'
    have hact : (fullCall pa kg)[pa.length + pre.length]? = some (KwGroup.kw x).toAct := by
      rw [fullCall_ge (by omega)]
      have : pa.length + pre.length - pa.length = c1 := by omega
      rw [this, h1]; rfl
    have := hex _ _ hact
    rw [hkg, extra_kgroup_nil_iff] at this
    exact this x (by simp [KwGroup.keys]) hkt
  | some j =>
    simp only [hn] at hr
    have hj := nameIndex_lt hn
    obtain ⟨f, hf⟩ : ∃ f, s.toFormals[j]? = some f := ⟨s.toFormals[j], by simp [hj]⟩
    have hkind : kindAt s.toFormals j = some f.kind := by unfold kindAt; rw [hf]; rfl
    rw [hkind] at hr
    have hns : f.kind.isStar = false := by
      cases hk : f.kind <;> simp [hk] at hr <;> rfl
    have hnstar : kindAt s.toFormals j ≠ some .star := by
      rw [hkind]; intro e; injection e with e; rw [e] at hns; simp [FK.isStar] at hns
    have hkt : kwTarget s.toFormals x = some j := by unfold kwTarget; simp [hn, hnstar]
    have htd : tdTarget s.toFormals x = some j := by unfold tdTarget; simp [hn, hnstar]
    have e1 := entry_of_group s.toFormals kg pa.length c1 _ x h1 (by simp [KwGroup.keys])
    have e2 := entry_of_group s.toFormals kg pa.length c2 _ x h2 (by simpa [KwGroup.keys] using hx)
    simp only [gTarget, hkt, htd] at e1 e2
    have m1 : (pa.length + c1) ∈ mapped (ownPairs s (owners pa 0) 0 ++
        entryPairs (keyEntries s.toFormals kg pa.length)) j := by
      rw [mem_mapped]; exact List.mem_append_right _ (mem_entryPairs.2 ⟨x, e1⟩)
    have m2 : (pa.length + c2) ∈ mapped (ownPairs s (owners pa 0) 0 ++
        entryPairs (keyEntries s.toFormals kg pa.length)) j := by
      rw [mem_mapped]; exact List.mem_append_right _ (mem_entryPairs.2 ⟨x, e2⟩)
    have hact : (fullCall pa kg)[pa.length + c1]? = some (.named x) := by
      rw [fullCall_ge (by omega)]
      have : pa.length + c1 - pa.length = c1 := by omega
      rw [this, h1]; rfl
    have hd := dup_of_two _ _ _ _ x m1 m2 (by omega) hact
    have := hfo _ _ hf
    rw [checkFormal_nil_iff] at this
    exact this.2.1 ⟨hns, hd⟩

/-! ### well-formed keyword parts, and the exclusion predicates read on `fullCall` -/

/-- explicit keywords are pairwise distinct (a repeated keyword is a syntax error) and the keys of each
    TypedDict are distinct -/
def SyntaxOK (kg : List KwGroup) : Prop :=
  (∀ (c1 c2 : Nat) (x : Name), c1 < c2 → kg[c1]? = some (KwGroup.kw x) → kg[c2]? = some (KwGroup.kw x) → False) ∧
  (∀ g ∈ kg, g.keys.Nodup)

/-- no two `**TypedDict` actuals share a key (F8: mypy crashes there) -/
def NoSharedTDKey (kg : List KwGroup) : Prop :=
  ∀ (c1 c2 : Nat) (ks1 ks2 : List Name) (x : Name), c1 < c2 → kg[c1]? = some (KwGroup.td ks1) → kg[c2]? = some (KwGroup.td ks2) → x ∈ ks1 → x ∈ ks2 → False

theorem twoTD_posActs (pa : List (Option Nat)) (r : List Actual) :
    TwoTypedDictsShareKey (posActs pa ++ r) = TwoTypedDictsShareKey r := by
  induction pa with
  | nil => rfl
  | cons g t ih => cases g <;> simp [posActs, TwoTypedDictsShareKey, ih]

theorem noShared_of_f8 (pa : List (Option Nat)) (kg : List KwGroup)
    (h : TwoTypedDictsShareKey (fullCall pa kg) = false) : NoSharedTDKey kg := by
  unfold fullCall at h
  rw [twoTD_posActs] at h
  clear pa
  unfold NoSharedTDKey
  induction kg with
  | nil => intro c1 c2 ks1 ks2 x _ h1; simp at h1
  | cons g r ih =>
    intro c1 c2 ks1 ks2 x hlt h1 h2 hx1 hx2
    cases c2 with
    | zero => omega
    | succ c2 =>
      simp at h2
      cases c1 with
      | zero =>
        simp at h1; subst h1
        simp only [kwActs, List.map_cons, KwGroup.toAct, TwoTypedDictsShareKey, Bool.or_eq_false_iff] at h
        have hm : x ∈ typedDictKeys (kwActs r) :=
          mem_typedDictKeys_kwActs (List.mem_iff_getElem?.2 ⟨c2, h2⟩) hx2
        have := h.1
        rw [List.any_eq_false] at this
        have := this x hx1
        simp [kwActs] at this hm
        exact this hm
      | succ c1 =>
        simp at h1
        have h' : TwoTypedDictsShareKey (kwActs r) = false := by
          cases g with
          | kw y => simpa [kwActs, KwGroup.toAct, TwoTypedDictsShareKey] using h
          | td ks =>
            simp only [kwActs, List.map_cons, KwGroup.toAct, TwoTypedDictsShareKey, Bool.or_eq_false_iff] at h
            exact h.2
        exact ih h' c1 c2 ks1 ks2 x (by omega) h1 h2 hx1 hx2

theorem allKeys_fullCall (pa : List (Option Nat)) (kg : List KwGroup) :
    allKeys (fullCall pa kg) = flatKeys kg := by
  unfold fullCall
  have h1 : ∀ r, allKeys (posActs pa ++ r) = allKeys r := by
    intro r
    induction pa with
    | nil => rfl
    | cons g t ih => cases g <;> simp [posActs, allKeys, ih]
  rw [h1]
  induction kg with
  | nil => rfl
  | cons g r ih =>
    cases g <;> simp [kwActs, KwGroup.toAct, allKeys, flatKeys, KwGroup.keys] at ih ⊢ <;> simp [kwActs, ih]

theorem two_le_count : ∀ (kg : List KwGroup) (c1 c2 : Nat) (g1 g2 : KwGroup) (x : Name), c1 < c2 →
    kg[c1]? = some g1 → kg[c2]? = some g2 → x ∈ g1.keys → x ∈ g2.keys → 2 ≤ (flatKeys kg).count x := by
  intro kg
  induction kg with
  | nil => intro c1 c2 g1 g2 x _ h1; simp at h1
  | cons g r ih =>
    intro c1 c2 g1 g2 x hlt h1 h2 hx1 hx2
    simp only [flatKeys, List.count_append]
    cases c2 with
    | zero => omega
    | succ c2 =>
      simp at h2
      cases c1 with
      | zero =>
        simp at h1; subst h1
        have a1 : 1 ≤ g.keys.count x := List.count_pos_iff.2 hx1
        have a2 : 1 ≤ (flatKeys r).count x :=
          List.count_pos_iff.2 (keys_subset_flat (List.mem_iff_getElem?.2 ⟨c2, h2⟩) hx2)
        omega
      | succ c1 =>
        simp at h1
        have := ih c1 c2 g1 g2 x (by omega) h1 h2 hx1 hx2
        omega

theorem routes_false_of_f9a (s : Sig) (pa : List (Option Nat)) (kg : List KwGroup)
    (h : KwDupIntoStar s.toFormals (fullCall pa kg) = false) {x : Name} (hc : 2 ≤ (flatKeys kg).count x) :
    routesToStarFormal s.toFormals x = false := by
  unfold KwDupIntoStar at h
  rw [allKeys_fullCall, List.any_eq_false] at h
  have hm : x ∈ flatKeys kg := List.count_pos_iff.1 (by omega)
  have := h x hm
  simp only [Bool.and_eq_true, decide_eq_true_eq, not_and, Bool.not_eq_true] at this
  exact this hc

/-- a repeated key comes from two different groups -/
theorem dup_groups : ∀ (kg : List KwGroup), (∀ g ∈ kg, g.keys.Nodup) → ¬ (flatKeys kg).Nodup →
    ∃ (c1 c2 : Nat) (g1 g2 : KwGroup) (x : Name), c1 < c2 ∧ kg[c1]? = some g1 ∧ kg[c2]? = some g2 ∧
      x ∈ g1.keys ∧ x ∈ g2.keys := by
  intro kg
  induction kg with
  | nil => intro _ h; exact absurd List.nodup_nil h
  | cons g r ih =>
    intro hg hnd
    simp only [flatKeys] at hnd
    by_cases hr : (flatKeys r).Nodup
    · -- the repetition is between g and the rest
      have : ¬ ∀ a, a ∈ g.keys → ∀ b, b ∈ flatKeys r → a ≠ b := by
        intro hdis
        exact hnd (List.nodup_append.2 ⟨hg g (List.mem_cons_self ..), hr, hdis⟩)
      have : ∃ a, a ∈ g.keys ∧ a ∈ flatKeys r := by
        apply Classical.byContradiction
        intro hno
        apply this
        intro a ha b hb e
        subst e
        exact hno ⟨a, ha, hb⟩
      obtain ⟨x, hx1, hx2⟩ := this
      obtain ⟨c, g2, hc, hg2⟩ := flat_key_group hx2
      exact ⟨0, c + 1, g, g2, x, by omega, by simp, by simpa using hc, hx1, hg2⟩
    · obtain ⟨c1, c2, g1, g2, x, hlt, h1, h2, hx1, hx2⟩ :=
        ih (fun g' hg' => hg g' (List.mem_cons_of_mem _ hg')) hr
      exact ⟨c1 + 1, c2 + 1, g1, g2, x, by omega, by simpa using h1, by simpa using h2, hx1, hx2⟩

/-! ### the call site when a key is repeated -/

theorem mergeKeys_err : ∀ (ks acc : List Name), ¬ (acc ++ ks).Nodup → acc.Nodup →
    ∃ x, mergeKeys acc ks = .error (.kwDup x) := by
  intro ks
  induction ks with
  | nil => intro acc h ha; simp at h; exact absurd ha h
  | cons k ks ih =>
    intro acc h ha
    simp only [mergeKeys]
    by_cases hk : acc.contains k = true
    · exact ⟨k, by rw [if_pos hk]⟩
    · rw [if_neg hk]
      have hk' : k ∉ acc := by simpa using hk
      have ha' : (acc ++ [k]).Nodup := by
        rw [List.nodup_append]
        refine ⟨ha, by simp, ?_⟩
        intro a haa b hb e
        simp at hb; subst hb; subst e; exact hk' haa
      exact ih (acc ++ [k]) (by simpa [List.append_assoc] using h) ha'

theorem evalCall_kgroups_dup : ∀ (kg : List KwGroup) (n : Nat) (acc : List Name), acc.Nodup →
    ¬ (acc ++ flatKeys kg).Nodup → ∃ x, evalCall (kwActs kg) n acc = some (.error (.kwDup x)) := by
  intro kg
  induction kg with
  | nil => intro n acc ha h; simp [flatKeys] at h; exact absurd ha h
  | cons g r ih =>
    intro n acc ha h
    simp only [flatKeys] at h
    by_cases hg : (acc ++ g.keys).Nodup
    · have h' : ¬ (acc ++ g.keys ++ flatKeys r).Nodup := by simpa [List.append_assoc] using h
      cases g with
      | kw x =>
        simp only [kwActs, List.map_cons, KwGroup.toAct, evalCall]
        rw [mergeKeys_ok [x] acc (by simpa [KwGroup.keys] using hg)]
        simp only
        have := ih n (acc ++ [x]) (by simpa [KwGroup.keys] using hg) (by simpa [KwGroup.keys] using h')
        simpa [kwActs] using this
      | td ks =>
        simp only [kwActs, List.map_cons, KwGroup.toAct, evalCall]
        rw [mergeKeys_ok ks acc (by simpa [KwGroup.keys] using hg)]
        simp only
        have := ih n (acc ++ ks) (by simpa [KwGroup.keys] using hg) (by simpa [KwGroup.keys] using h')
        simpa [kwActs] using this
    · cases g with
      | kw x =>
        obtain ⟨y, hy⟩ := mergeKeys_err [x] acc (by simpa [KwGroup.keys] using hg) ha
        exact ⟨y, by simp [kwActs, KwGroup.toAct, evalCall, hy]⟩
      | td ks =>
        obtain ⟨y, hy⟩ := mergeKeys_err ks acc (by simpa [KwGroup.keys] using hg) ha
        exact ⟨y, by simp [kwActs, KwGroup.toAct, evalCall, hy]⟩

theorem pyRaises_dup (s : Sig) (pa : List (Option Nat)) (kg : List KwGroup) (h : ¬ (flatKeys kg).Nodup) :
    pyRaises s (fullCall pa kg) = some true := by
  unfold pyRaises pyCall fullCall
  rw [evalCall_groups]
  obtain ⟨x, hx⟩ := evalCall_kgroups_dup kg (0 + width pa) [] List.nodup_nil (by simpa using h)
  rw [hx]; rfl

end PyBind
