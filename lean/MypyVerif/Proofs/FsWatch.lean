import MypyVerif.Model.FsWatch
/-!
Helper definitions and lemmas for the file-system watcher part of Props/C03.
-/
namespace FsWatch

/-- the remembered `FileData` describes the file as it was when last looked at (mtime up to the second) -/
def Tracks (H : Nat → Nat) (d : Option FileData) (f : Option File) : Prop :=
  match d, f with
  | none, none => True
  | some d, some f => d.size = f.size ∧ d.hash = H f.content ∧ sec d.mtime = sec f.mtime
  | _, _ => False

/-- the path was created, deleted, or its content changed -/
def Differs (f g : Option File) : Prop :=
  match f, g with
  | none, none => False
  | some f, some g => f.content ≠ g.content
  | _, _ => True

/-- **EditsObservable** for one path: a content change shows in `stat` (size, or mtime in whole seconds) -/
def Observable (f g : Option File) : Prop :=
  match f, g with
  | some f, some g => f.content ≠ g.content → f.size ≠ g.size ∨ sec f.mtime ≠ sec g.mtime
  | _, _ => True

/-- the size is a function of the content -/
def SizeOK (f g : Option File) : Prop :=
  match f, g with
  | some f, some g => f.content = g.content → f.size = g.size
  | _, _ => True

instance (f g : Option File) : Decidable (Differs f g) := by unfold Differs; split <;> infer_instance
instance (f g : Option File) : Decidable (Observable f g) := by unfold Observable; split <;> infer_instance
instance (f g : Option File) : Decidable (SizeOK f g) := by unfold SizeOK; split <;> infer_instance
instance (H : Nat → Nat) (d : Option FileData) (f : Option File) : Decidable (Tracks H d f) := by
  unfold Tracks; split <;> infer_instance

theorem stepPath_spec (H : Nat → Nat) (hinj : ∀ a b, H a = H b → a = b)
    (d : Option FileData) (f g : Option File)
    (ht : Tracks H d f) (hobs : Observable f g) (hsz : SizeOK f g) :
    ((stepPath H d g).1 = true ↔ Differs f g) ∧ Tracks H (stepPath H d g).2 g := by
  cases d with
  | none =>
    cases f with
    | some f => simp [Tracks] at ht
    | none =>
      cases g with
      | none => simp [stepPath, Differs, Tracks]
      | some g => simp [stepPath, Differs, Tracks]
  | some d =>
    cases f with
    | none => simp [Tracks] at ht
    | some f =>
      obtain ⟨hs, hh, hm⟩ := ht
      cases g with
      | none => simp [stepPath, Differs, Tracks]
      | some g =>
        simp only [Observable] at hobs
        simp only [SizeOK] at hsz
        simp only [stepPath, Differs]
        by_cases hc : g.size ≠ d.size ∨ sec g.mtime ≠ sec d.mtime
        · rw [if_pos hc]
          refine ⟨?_, by simp [Tracks]⟩
          simp only [decide_eq_true_eq]
          constructor
          · rintro (h | h)
            · intro heq
              exact h (by rw [hs]; exact (hsz heq).symm)
            · intro heq
              exact h (by rw [hh, heq])
          · intro hne
            by_cases hsize : g.size = d.size
            · right
              intro hH
              rw [hh] at hH
              exact hne (hinj _ _ hH).symm
            · exact Or.inl hsize
        · rw [if_neg hc]
          have hc' : g.size = d.size ∧ sec g.mtime = sec d.mtime := by
            constructor
            · exact Classical.byContradiction fun h => hc (Or.inl h)
            · exact Classical.byContradiction fun h => hc (Or.inr h)
          have hsame : f.content = g.content := by
            apply Classical.byContradiction
            intro hne
            rcases hobs hne with h | h
            · exact h (by rw [← hs, hc'.1])
            · exact h (by rw [← hm, hc'.2])
          refine ⟨by simp [hsame], ?_⟩
          simp only [Tracks]
          exact ⟨hc'.1.symm, by rw [hh, hsame], hc'.2.symm⟩

/-- the watcher run over a history of file systems: the changed set reported after every step -/
def watch (H : Nat → Nat) (paths : List Path) : Data → List Fs → List (List Path)
  | _, [] => []
  | d, fs :: rest => (findChanged H paths fs d).1 :: watch H paths (findChanged H paths fs d).2 rest

/-- every step of the history is observable by `stat` -/
def AllObservable : Fs → List Fs → Prop
  | _, [] => True
  | f0, f1 :: rest => (∀ p, Observable (f0 p) (f1 p) ∧ SizeOK (f0 p) (f1 p)) ∧ AllObservable f1 rest

/-- the reported sets are exactly the watched paths that changed in each step -/
def ExactChanges (paths : List Path) : Fs → List Fs → List (List Path) → Prop
  | _, [], [] => True
  | f0, f1 :: rest, c :: cs => (∀ p, p ∈ c ↔ (p ∈ paths ∧ Differs (f0 p) (f1 p))) ∧ ExactChanges paths f1 rest cs
  | _, _, _ => False

end FsWatch
