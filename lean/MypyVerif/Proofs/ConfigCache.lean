import MypyVerif.Proofs.Config
/-!
The per-module cache (`build_per_module_cache`) computes, for every key, the fold of `apply_changes` over a
declaratively described chain of sections.  Main results: `buildCache_eq`, `cloneWith_module`,
`cloneWith_wild`.
-/
namespace Config

/-! ## association lists -/

theorem lookup_map_self {α : Type} {β : Type} [BEq α] [LawfulBEq α] (F : α → β) (l : List α) (x : α) :
    (l.map (fun k => (k, F k))).lookup x = if x ∈ l then some (F x) else none := by
  induction l with
  | nil => simp
  | cons y ys ih =>
    simp only [List.map_cons, List.lookup_cons, List.mem_cons]
    by_cases h : x = y
    · subst h; simp
    · have : (x == y) = false := by simpa using h
      simp [this, ih, h]

theorem lookup_some_of_mem {α : Type} {β : Type} [BEq α] [LawfulBEq α] (l : List (α × β)) (k : α) (v : β)
    (hn : (l.map Prod.fst).Nodup) (hm : (k, v) ∈ l) : l.lookup k = some v := by
  induction l with
  | nil => cases hm
  | cons y ys ih =>
    obtain ⟨y1, y2⟩ := y
    simp only [List.map_cons, List.nodup_cons] at hn
    rcases List.mem_cons.mp hm with h | h
    · cases h; simp
    · have : k ≠ y1 := by
        intro e; subst e
        exact hn.1 (List.mem_map.mpr ⟨(k, v), h, rfl⟩)
      have hb : (k == y1) = false := by simpa using this
      simp [List.lookup_cons, hb, ih hn.2 h]

theorem lookup_isSome_iff {α : Type} {β : Type} [BEq α] [LawfulBEq α] (l : List (α × β)) (k : α) :
    (l.lookup k).isSome = true ↔ k ∈ l.map Prod.fst := by
  induction l with
  | nil => simp
  | cons y ys ih =>
    obtain ⟨y1, y2⟩ := y
    by_cases h : k = y1
    · subst h; simp
    · have hb : (k == y1) = false := by simpa using h
      simp only [List.lookup_cons, hb, List.map_cons, List.mem_cons, h, false_or]
      exact ih

theorem lookup_none_of_not_mem {α : Type} {β : Type} [BEq α] [LawfulBEq α] (l : List (α × β)) (k : α)
    (h : k ∉ l.map Prod.fst) : l.lookup k = none := by
  cases hl : l.lookup k with
  | none => rfl
  | some v =>
    have := (lookup_isSome_iff l k).mp (by simp [hl])
    exact absurd this h

/-! ## `applyAll` -/

theorem applyAll_append (g : Opts) (a b : List Changes) : applyAll g (a ++ b) = applyAll (applyAll g a) b := by
  simp [applyAll, List.foldl_append]

theorem applyAll_snoc (g : Opts) (a : List Changes) (ch : Changes) :
    applyAll g (a ++ [ch]) = (applyAll g a).applyChanges ch := by
  simp [applyAll, List.foldl_append]

/-! ## ancestor keys and the structured chain -/

/-- the `j`-th ancestor key of `p`: `p[:j+1] + ["*"]` -/
def anc (p : Pat) (j : Nat) : Pat := p.take (j + 1) ++ [Part.star]

def chainUpTo (secs : Sections) (p : Pat) (t : Nat) : List Changes :=
  ((List.range t).map (anc p)).filterMap (fun k => secs.lookup k)

theorem structChain_eq (secs : Sections) (p : Pat) : structChain secs p = chainUpTo secs p p.length := rfl

theorem chainUpTo_succ (secs : Sections) (p : Pat) (t : Nat) :
    chainUpTo secs p (t + 1) = chainUpTo secs p t ++ (secs.lookup (anc p t)).toList := by
  unfold chainUpTo
  rw [List.range_succ, List.map_append, List.filterMap_append]
  congr 1

theorem chainUpTo_congr (secs : Sections) (p q : Pat) (t : Nat) (h : ∀ j, j < t → anc p j = anc q j) :
    chainUpTo secs p t = chainUpTo secs q t := by
  unfold chainUpTo
  congr 1
  exact List.map_congr_left (fun j hj => h j (List.mem_range.mp hj))

theorem anc_take (p : Pat) (t j : Nat) (h : j < t) : anc (p.take t) j = anc p j := by
  unfold anc
  rw [List.take_take]
  congr 2
  omega

theorem structChain_take (secs : Sections) (p : Pat) (t : Nat) (ht : t ≤ p.length) :
    structChain secs (p.take t) = chainUpTo secs p t := by
  rw [structChain_eq, List.length_take, Nat.min_eq_left ht]
  exact chainUpTo_congr secs _ _ t (fun j hj => anc_take p t j hj)

/-- the cache answers correctly for the first `t` ancestor keys of `p` -/
def CacheOK (g : Opts) (secs : Sections) (C : Cache) (p : Pat) (t : Nat) : Prop :=
  ∀ j, j < t → C.lookup (anc p j) =
    (secs.lookup (anc p j)).map (fun _ => applyAll g (structChain secs (p.take (j + 1))))

theorem nearest_correct (g : Opts) (secs : Sections) (C : Cache) (p : Pat) :
    ∀ t, t ≤ p.length → CacheOK g secs C p t →
      (nearest C p t).getD g = applyAll g (chainUpTo secs p t) := by
  intro t
  induction t with
  | zero => intro _ _; simp [nearest, chainUpTo, applyAll]
  | succ t ih =>
    intro ht hok
    have hlast := hok t (Nat.lt_succ_self t)
    have ih' := ih (by omega) (fun j hj => hok j (by omega))
    rw [chainUpTo_succ]
    simp only [nearest]
    change (match C.lookup (anc p t) with | some o => some o | none => nearest C p t).getD g = _
    cases hs : secs.lookup (anc p t) with
    | none =>
      rw [hs] at hlast
      simp only [Option.map_none] at hlast
      rw [hlast]
      simpa using ih'
    | some ch =>
      rw [hs] at hlast
      simp only [Option.map_some] at hlast
      rw [hlast]
      simp only [Option.getD_some, Option.toList_some]
      rw [structChain_take secs p (t + 1) ht, chainUpTo_succ, hs]
      simp

/-! ## shapes of keys -/

/-- all components are valid names (no star) -/
def IsLits (q : Pat) : Prop := ∀ x ∈ q, ∃ c, x = Part.lit c ∧ ValidComp c

theorem IsLits.take {q : Pat} (h : IsLits q) (n : Nat) : IsLits (q.take n) :=
  fun x hx => h x (List.mem_of_mem_take hx)

theorem IsLits.no_star {q : Pat} (h : IsLits q) : q.any Part.isStar = false := by
  rw [List.any_eq_false]
  intro x hx
  obtain ⟨c, rfl, _⟩ := h x hx
  simp [Part.isStar]

theorem isLits_modPat (m : List Str) (h : ∀ c ∈ m, ValidComp c) : IsLits (modPat m) := by
  intro x hx
  obtain ⟨c, hc, rfl⟩ := List.mem_map.mp hx
  exact ⟨c, rfl, h c hc⟩

theorem wild_unstructured (q : Pat) (h : IsLits q) : (q ++ [Part.star]).unstructured = false := by
  simp [Pat.unstructured, h.no_star]

theorem wild_endsDotStar (q : Pat) (h : q ≠ []) : (q ++ [Part.star]).endsDotStar = true := by
  have : 1 ≤ q.length := by
    cases q with
    | nil => exact absurd rfl h
    | cons _ _ => simp
  simp [Pat.endsDotStar]
  omega

theorem lits_unstructured (q : Pat) (h : IsLits q) : q.unstructured = false := by
  unfold Pat.unstructured
  rw [List.any_eq_false]
  intro x hx
  obtain ⟨c, rfl, _⟩ := h x ((List.dropLast_sublist q).subset hx)
  simp [Part.isStar]

theorem lits_endsDotStar (q : Pat) (h : IsLits q) : q.endsDotStar = false := by
  unfold Pat.endsDotStar
  cases hq : q.getLast? with
  | none => simp
  | some x =>
    obtain ⟨c, rfl, _⟩ := h x (List.mem_of_getLast? hq)
    simp

/-- a structured key that ends in `.*` is `q.*` with `q` star-free -/
theorem wild_shape (k : Pat) (hv : ValidPat k) (hu : k.unstructured = false) (he : k.endsDotStar = true) :
    ∃ q, k = q ++ [Part.star] ∧ q ≠ [] ∧ IsLits q := by
  simp only [Pat.endsDotStar, Bool.and_eq_true, decide_eq_true_eq, beq_iff_eq] at he
  obtain ⟨hl, hlast⟩ := he
  obtain ⟨q, rfl⟩ := List.getLast?_eq_some_iff.mp hlast
  refine ⟨q, rfl, ?_, ?_⟩
  · intro e; subst e; simp at hl
  · intro x hx
    simp only [Pat.unstructured, List.dropLast_concat] at hu
    have hns : ¬ x.isStar = true := (List.any_eq_false.mp hu) x hx
    have hvx := hv.2 x (by simp [hx])
    cases x with
    | star => simp [Part.isStar] at hns
    | lit c => exact ⟨c, rfl, hvx⟩

theorem anc_wild (q : Pat) (hq : IsLits q) (j : Nat) :
    (anc q j).unstructured = false ∧ (q ≠ [] → (anc q j).endsDotStar = true) := by
  refine ⟨wild_unstructured _ (hq.take _), fun hne => wild_endsDotStar _ ?_⟩
  cases q with
  | nil => exact absurd rfl hne
  | cons a q => simp

theorem anc_dropLast (q : Pat) (j : Nat) : (anc q j).dropLast = q.take (j + 1) := by
  simp [anc]

/-! ## a proper ancestor sorts strictly before its descendant -/

theorem joinTail_append (a b : List Str) : joinTail (a ++ b) = joinTail a ++ joinTail b := by
  induction a with
  | nil => rfl
  | cons c a ih => simp [joinTail, ih]

theorem joinDots_append (a b : List Str) (ha : a ≠ []) (hb : b ≠ []) :
    joinDots (a ++ b) = joinDots a ++ '.' :: joinDots b := by
  cases a with
  | nil => exact absurd rfl ha
  | cons x a =>
    cases b with
    | nil => exact absurd rfl hb
    | cons y b =>
      rw [List.cons_append, joinDots_cons, joinDots_cons, joinDots_cons, joinTail_append]
      simp [joinTail]

theorem anc_lt (q : Pat) (hq : IsLits q) (j : Nat) (hj : j + 1 < q.length) :
    strLe (anc q j).str (q ++ [Part.star]).str = true ∧
    strLe (q ++ [Part.star]).str (anc q j).str = false := by
  -- q = A ++ lit (x :: c) :: rest, A = q.take (j+1) non-empty
  have hsplit : q = q.take (j + 1) ++ q.drop (j + 1) := (List.take_append_drop _ _).symm
  have hA : q.take (j + 1) ≠ [] := by
    intro e
    have h0 : (q.take (j + 1)).length = 0 := by rw [e]; rfl
    rw [List.length_take] at h0
    omega
  cases hd : q.drop (j + 1) with
  | nil =>
    have := congrArg List.length hd
    simp at this
    omega
  | cons y rest =>
    have hy : y ∈ q := List.mem_of_mem_drop (by rw [hd]; simp)
    obtain ⟨c, rfl, hc⟩ := hq y hy
    cases c with
    | nil => exact absurd rfl hc.1
    | cons x c =>
      have hx : '.'.toNat < x.toNat := hc.2 x (by simp)
      have hstar : ('*' : Char).toNat < x.toNat := by
        have : ('*' : Char).toNat < ('.' : Char).toNat := by decide
        omega
      have e1 : (anc q j).str = (joinDots ((q.take (j + 1)).map Part.str) ++ ['.']) ++ '*' :: [] := by
        unfold anc Pat.str
        rw [List.map_append, joinDots_append _ _ (by simpa using hA) (by simp)]
        simp [Part.str, joinDots]
      have e2 : (q ++ [Part.star]).str =
          (joinDots ((q.take (j + 1)).map Part.str) ++ ['.']) ++
            x :: (c ++ joinTail ((rest ++ [Part.star]).map Part.str)) := by
        conv => lhs; rw [hsplit, hd]
        unfold Pat.str
        rw [List.append_assoc, List.map_append, joinDots_append _ _ (by simpa using hA) (by simp)]
        simp [Part.str, joinDots_cons]
      rw [e1, e2]
      exact strLe_common_prefix _ '*' x _ _ hstar

/-! ## well-formed section tables -/

/-- `per_module_options` as `parse_config_file` builds it: a dict (distinct keys) of admissible patterns -/
def ValidSecs (secs : Sections) : Prop := (secs.map Prod.fst).Nodup ∧ ∀ s ∈ secs, ValidPat s.1

instance (secs : Sections) : Decidable (ValidSecs secs) := by unfold ValidSecs; infer_instance

def keysOf (secs : Sections) : List Pat := secs.map Prod.fst

/-- the structured wildcard keys, before sorting -/
def wildKeys (secs : Sections) : List Pat := (structuredKeys secs).filter Pat.endsDotStar

theorem mem_wildKeys (secs : Sections) (k : Pat) :
    k ∈ wildKeys secs ↔ k ∈ keysOf secs ∧ k.unstructured = false ∧ k.endsDotStar = true := by
  unfold wildKeys structuredKeys keysOf
  rw [List.mem_filter, List.mem_filter]
  constructor
  · rintro ⟨⟨h1, h2⟩, h3⟩; exact ⟨h1, by simpa using h2, h3⟩
  · rintro ⟨h1, h2, h3⟩; exact ⟨⟨h1, by simpa using h2⟩, h3⟩

theorem mem_wildcardKeys (secs : Sections) (k : Pat) : k ∈ wildcardKeys secs ↔ k ∈ wildKeys secs :=
  (sortPats_perm _).mem_iff

theorem mem_concreteKeys (secs : Sections) (k : Pat) :
    k ∈ concreteKeys secs ↔ k ∈ keysOf secs ∧ k.unstructured = false ∧ k.endsDotStar = false := by
  unfold concreteKeys structuredKeys keysOf
  rw [List.mem_filter, List.mem_filter]
  constructor
  · rintro ⟨⟨h1, h2⟩, h3⟩; exact ⟨h1, by simpa using h2, by simpa using h3⟩
  · rintro ⟨h1, h2, h3⟩; exact ⟨⟨h1, by simpa using h2⟩, by simpa using h3⟩

theorem lookup_isSome_keys (secs : Sections) (k : Pat) : (secs.lookup k).isSome = true ↔ k ∈ keysOf secs :=
  lookup_isSome_iff secs k

theorem nodup_filter {α : Type} (p : α → Bool) (l : List α) (h : l.Nodup) : (l.filter p).Nodup :=
  List.Pairwise.sublist List.filter_sublist h

theorem wildcardKeys_nodup (secs : Sections) (h : ValidSecs secs) : (wildcardKeys secs).Nodup :=
  (sortPats_perm _).nodup_iff.mpr (nodup_filter _ _ (nodup_filter _ _ h.1))

theorem concreteKeys_nodup (secs : Sections) (h : ValidSecs secs) : (concreteKeys secs).Nodup :=
  nodup_filter _ _ (nodup_filter _ _ h.1)

/-- value the cache holds for a structured wildcard key `q.*` -/
def wildVal (g : Opts) (secs : Sections) (k : Pat) : Opts := applyAll g (structChain secs k.dropLast)

def wildCache (g : Opts) (secs : Sections) (l : List Pat) : Cache := l.map (fun k => (k, wildVal g secs k))

/-- a cache whose only `.*`-keys are `l`, with the right values, is correct on all ancestor keys that are
    either in `l` or not section names at all -/
theorem cacheOK_of (g : Opts) (secs : Sections) (l : List Pat) (E : Cache)
    (hE : ∀ x ∈ E.map Prod.fst, x.endsDotStar = false)
    (p : Pat) (t : Nat) (ht : t ≤ p.length)
    (hin : ∀ j, j < t → ((secs.lookup (anc p j)).isSome = true ↔ anc p j ∈ l)) :
    CacheOK g secs (wildCache g secs l ++ E) p t := by
  intro j hj
  rw [List.lookup_append]
  have hEnone : E.lookup (anc p j) = none := by
    apply lookup_none_of_not_mem
    intro hmem
    have h1 := hE _ hmem
    have h2 : (anc p j).endsDotStar = true := by
      unfold anc
      cases p with
      | nil => simp at ht; omega
      | cons a p => exact wild_endsDotStar _ (by simp)
    rw [h1] at h2; cases h2
  rw [hEnone, Option.or_none]
  unfold wildCache
  rw [lookup_map_self]
  have := hin j hj
  cases hs : secs.lookup (anc p j) with
  | none =>
    rw [hs] at this
    have hn : anc p j ∉ l := fun h => by simpa using this.mpr h
    simp [hn]
  | some ch =>
    rw [hs] at this
    have hm : anc p j ∈ l := this.mp rfl
    simp [hm, wildVal, anc_dropLast]

/-! ## `cloneWith` on the two kinds of arguments -/

theorem nearest_congr_len (C : Cache) (p q : Pat) : ∀ t, (∀ j, j < t → anc p j = anc q j) →
    nearest C p t = nearest C q t := by
  intro t
  induction t with
  | zero => intro _; rfl
  | succ t ih =>
    intro h
    simp only [nearest]
    have e : p.take (t + 1) ++ [Part.star] = q.take (t + 1) ++ [Part.star] := h t (Nat.lt_succ_self t)
    rw [e, ih (fun j hj => h j (by omega))]

/-- `clone_for_module("q.*")` against a cache that is right about the proper ancestors of `q.*` and does not
    contain `q.*` itself: the structured ancestors only — no unstructured glob is consulted -/
theorem cloneWith_wild_core (g : Opts) (secs : Sections) (C : Cache) (q : Pat) (hq : IsLits q) (n : Nat)
    (hn : q.length = n + 1)
    (hself : C.lookup (q ++ [Part.star]) = none)
    (hss : C.lookup (q ++ [Part.star] ++ [Part.star]) = none)
    (hok : CacheOK g secs C q n) :
    cloneWith g secs C (q ++ [Part.star]) = applyAll g (chainUpTo secs q n) := by
  have hqne : q ≠ [] := by intro e; subst e; simp at hn
  unfold cloneWith
  rw [hself]
  simp only [wild_endsDotStar q hqne, if_true]
  have hlen : (q ++ [Part.star]).length = n + 2 := by simp [hn]
  rw [hlen]
  -- i = n+2 : q.*.* ; i = n+1 : q.* itself
  have t1 : (q ++ [Part.star]).take (n + 2) = q ++ [Part.star] := List.take_of_length_le (by omega)
  have t2 : (q ++ [Part.star]).take (n + 1) = q := by
    rw [List.take_append_of_le_length (by omega)]
    exact List.take_of_length_le (by omega)
  have step1 : nearest C (q ++ [Part.star]) (n + 2) = nearest C (q ++ [Part.star]) (n + 1) := by
    show (match C.lookup ((q ++ [Part.star]).take (n + 1 + 1) ++ [Part.star]) with
          | some o => some o | none => nearest C (q ++ [Part.star]) (n + 1)) = _
    rw [t1, hss]
  have step2 : nearest C (q ++ [Part.star]) (n + 1) = nearest C (q ++ [Part.star]) n := by
    show (match C.lookup ((q ++ [Part.star]).take (n + 1) ++ [Part.star]) with
          | some o => some o | none => nearest C (q ++ [Part.star]) n) = _
    rw [t2, hself]
  have step3 : nearest C (q ++ [Part.star]) n = nearest C q n := by
    apply nearest_congr_len
    intro j hj
    unfold anc
    rw [List.take_append_of_le_length (by omega)]
  rw [step1, step2, step3]
  exact nearest_correct g secs C q n (by omega) hok

/-- fold of the unstructured globs = fold over the matching unstructured sections in file order -/
theorem applyGlobs_eq (secs : Sections) (hv : ValidSecs secs) (m : List Str) (hm : ValidMod m) (base : Opts) :
    applyGlobs secs (modPat m) base = applyAll base (unstructChain secs m) := by
  unfold applyGlobs unstructuredKeys unstructChain applyAll
  suffices h : ∀ (l : Sections) (b : Opts), (∀ s ∈ l, s ∈ secs) →
      ((l.map Prod.fst).filter Pat.unstructured).foldl
        (fun o k => if globMatches k (modPat m) then o.applyChanges (changesOf secs k) else o) b =
      ((l.filter (fun s => s.1.unstructured && compMatch s.1 m)).map Prod.snd).foldl Opts.applyChanges b by
    exact h secs base (fun _ h => h)
  intro l
  induction l with
  | nil => intro b _; rfl
  | cons s l ih =>
    intro b hl
    obtain ⟨k, ch⟩ := s
    have hmem : (k, ch) ∈ secs := hl _ (by simp)
    have hch : changesOf secs k = ch := by
      unfold changesOf
      rw [lookup_some_of_mem secs k ch hv.1 hmem]; rfl
    have hgm : globMatches k (modPat m) = compMatch k m :=
      globMatches_eq_compMatch k m (hv.2 _ hmem) hm
    have ih' := fun b => ih b (fun s hs => hl s (by simp [hs]))
    simp only [List.map_cons, List.filter_cons]
    cases hu : k.unstructured with
    | false => simp only [Bool.false_and]; exact ih' b
    | true =>
      simp only [Bool.true_and, if_true, List.foldl_cons, hgm, hch]
      cases hc : compMatch k m with
      | false => simp only [Bool.false_eq_true, if_false]; exact ih' b
      | true => simp only [if_true, List.map_cons, List.foldl_cons]; exact ih' _

/-- `clone_for_module(m)` for a module without a cache entry of its own, against a cache that is right
    about all structured ancestors -/
theorem cloneWith_module_core (g : Opts) (secs : Sections) (hv : ValidSecs secs) (C : Cache)
    (m : List Str) (hm : ValidMod m)
    (hself : C.lookup (modPat m) = none)
    (hok : CacheOK g secs C (modPat m) (modPat m).length) :
    cloneWith g secs C (modPat m) = applyAll g (structChain secs (modPat m) ++ unstructChain secs m) := by
  unfold cloneWith
  rw [hself]
  simp only [lits_endsDotStar _ (isLits_modPat m hm.2), Bool.false_eq_true, if_false]
  rw [nearest_correct g secs C (modPat m) _ (Nat.le_refl _) hok, applyGlobs_eq secs hv m hm,
    applyAll_append, structChain_eq]

/-! ## extra (concrete) entries do not disturb look-ups of ancestor keys -/

theorem nearest_extra (C E : Cache) (hE : ∀ x ∈ E.map Prod.fst, x.endsDotStar = false) (p : Pat) :
    ∀ t, t ≤ p.length → nearest (C ++ E) p t = nearest C p t := by
  intro t
  induction t with
  | zero => intro _; rfl
  | succ t ih =>
    intro ht
    simp only [nearest]
    have hnone : E.lookup (p.take (t + 1) ++ [Part.star]) = none := by
      apply lookup_none_of_not_mem
      intro hmem
      have h1 := hE _ hmem
      have h2 : Pat.endsDotStar (p.take (t + 1) ++ [Part.star]) = true := by
        apply wild_endsDotStar
        intro e
        have h0 : (p.take (t + 1)).length = 0 := by rw [e]; rfl
        rw [List.length_take] at h0
        omega
      rw [h1] at h2; cases h2
    rw [List.lookup_append, hnone, Option.or_none, ih (by omega)]

theorem cloneWith_extra (g : Opts) (secs : Sections) (C E : Cache)
    (hE : ∀ x ∈ E.map Prod.fst, x.endsDotStar = false) (p : Pat) (hp : p ∉ E.map Prod.fst) :
    cloneWith g secs (C ++ E) p = cloneWith g secs C p := by
  unfold cloneWith
  rw [List.lookup_append, lookup_none_of_not_mem E p hp, Option.or_none,
    nearest_extra C E hE p p.length (Nat.le_refl _)]

/-! ## the two phases of `build_per_module_cache` -/

theorem mem_split_sorted (L : List Pat) (pre post : List Pat) (k : Pat) (hL : L = pre ++ k :: post)
    (hs : L.Pairwise (fun a b => strLe a.str b.str = true)) (a : Pat) (ha : a ∈ L)
    (hlt : strLe k.str a.str = false) : a ∈ pre := by
  subst hL
  rcases List.mem_append.mp ha with h | h
  · exact h
  · exfalso
    rcases List.mem_cons.mp h with rfl | h
    · rw [strLe_refl] at hlt; cases hlt
    · have := (List.pairwise_cons.mp (List.pairwise_append.mp hs).2.1).1 a h
      rw [this] at hlt; cases hlt

theorem wild_step (g : Opts) (secs : Sections) (hv : ValidSecs secs) (pre post : List Pat) (k : Pat)
    (hL : wildcardKeys secs = pre ++ k :: post) :
    (cloneWith g secs (wildCache g secs pre) k).applyChanges (changesOf secs k) = wildVal g secs k := by
  have hkL : k ∈ wildcardKeys secs := by rw [hL]; simp
  have hkW := (mem_wildKeys secs k).mp ((mem_wildcardKeys secs k).mp hkL)
  obtain ⟨hkeys, hku, hke⟩ := hkW
  obtain ⟨s, hs, rfl⟩ := List.mem_map.mp hkeys
  obtain ⟨q, hkq, hqne, hq⟩ := wild_shape s.1 (hv.2 s hs) hku hke
  obtain ⟨n, hn⟩ : ∃ n, q.length = n + 1 := by
    cases q with
    | nil => exact absurd rfl hqne
    | cons a q => exact ⟨q.length, rfl⟩
  have hnd := wildcardKeys_nodup secs hv
  rw [hL] at hnd
  have hk_notin_pre : s.1 ∉ pre := by
    have := (List.nodup_append.mp hnd).2.2
    intro h
    exact this _ h _ (by simp) rfl
  have hpre_sub : ∀ x ∈ pre, x ∈ wildKeys secs := fun x hx =>
    (mem_wildcardKeys secs x).mp (by rw [hL]; simp [hx])
  -- the cache so far
  have hC : wildCache g secs pre = wildCache g secs pre ++ [] := by simp
  have hself : (wildCache g secs pre).lookup (q ++ [Part.star]) = none := by
    rw [← hkq]; unfold wildCache; rw [lookup_map_self]; simp [hk_notin_pre]
  have hss : (wildCache g secs pre).lookup (q ++ [Part.star] ++ [Part.star]) = none := by
    unfold wildCache; rw [lookup_map_self]
    have : q ++ [Part.star] ++ [Part.star] ∉ pre := by
      intro h
      have := ((mem_wildKeys secs _).mp (hpre_sub _ h)).2.1
      simp [Pat.unstructured, Part.isStar] at this
    rw [if_neg this]
  have hok : CacheOK g secs (wildCache g secs pre) q n := by
    rw [hC]
    apply cacheOK_of g secs pre [] (by simp) q n (by omega)
    intro j hj
    constructor
    · intro hsome
      have hin : anc q j ∈ keysOf secs := (lookup_isSome_keys secs _).mp hsome
      have hw := anc_wild q hq j
      have hW : anc q j ∈ wildcardKeys secs :=
        (mem_wildcardKeys secs _).mpr ((mem_wildKeys secs _).mpr ⟨hin, hw.1, hw.2 hqne⟩)
      have hlt := anc_lt q hq j (by omega)
      rw [← hkq] at hlt
      exact mem_split_sorted _ pre post s.1 hL (sortPats_pairwise _) _ hW hlt.2
    · intro hin
      exact (lookup_isSome_keys secs _).mpr ((mem_wildKeys secs _).mp (hpre_sub _ hin)).1
  rw [hkq, cloneWith_wild_core g secs _ q hq n hn hself hss hok]
  unfold wildVal
  rw [List.dropLast_concat, structChain_eq, hn, chainUpTo_succ, applyAll_append]
  have hanc : anc q n = q ++ [Part.star] := by
    unfold anc; rw [List.take_of_length_le (by omega)]
  have hlook : secs.lookup (q ++ [Part.star]) = some s.2 := by
    rw [← hkq]; exact lookup_some_of_mem secs s.1 s.2 hv.1 hs
  rw [hanc, hlook]
  simp [applyAll, changesOf, hlook]

theorem wild_phase (g : Opts) (secs : Sections) (hv : ValidSecs secs) :
    ∀ post pre, wildcardKeys secs = pre ++ post →
      post.foldl (cacheStep g secs) (wildCache g secs pre) = wildCache g secs (wildcardKeys secs) := by
  intro post
  induction post with
  | nil => intro pre h; simp [h]
  | cons k post ih =>
    intro pre h
    simp only [List.foldl_cons]
    have : cacheStep g secs (wildCache g secs pre) k = wildCache g secs (pre ++ [k]) := by
      unfold cacheStep
      rw [wild_step g secs hv pre post k h]
      simp [wildCache]
    rw [this]
    exact ih (pre ++ [k]) (by simp [h])

/-- value the cache holds for a concrete key -/
def concVal (g : Opts) (secs : Sections) (c : Pat) : Opts :=
  (cloneWith g secs (wildCache g secs (wildcardKeys secs)) c).applyChanges (changesOf secs c)

def concCache (g : Opts) (secs : Sections) (l : List Pat) : Cache := l.map (fun c => (c, concVal g secs c))

theorem concCache_keys (g : Opts) (secs : Sections) (l : List Pat) : (concCache g secs l).map Prod.fst = l := by
  simp [concCache, List.map_map, Function.comp_def]

theorem conc_phase (g : Opts) (secs : Sections) :
    ∀ post pre, (∀ c ∈ pre ++ post, c.endsDotStar = false) → (pre ++ post).Nodup →
      post.foldl (cacheStep g secs) (wildCache g secs (wildcardKeys secs) ++ concCache g secs pre) =
        wildCache g secs (wildcardKeys secs) ++ concCache g secs (pre ++ post) := by
  intro post
  induction post with
  | nil => intro pre _ _; simp
  | cons c post ih =>
    intro pre he hnd
    simp only [List.foldl_cons]
    have hc : c ∉ pre := by
      have := (List.nodup_append.mp hnd).2.2
      intro h; exact this _ h _ (by simp) rfl
    have : cacheStep g secs (wildCache g secs (wildcardKeys secs) ++ concCache g secs pre) c =
        wildCache g secs (wildcardKeys secs) ++ concCache g secs (pre ++ [c]) := by
      unfold cacheStep
      rw [cloneWith_extra g secs _ _ (by rw [concCache_keys]; exact fun x hx => he x (by simp [hx])) c
        (by rw [concCache_keys]; exact hc)]
      simp [concCache, concVal]
    rw [this]
    have := ih (pre ++ [c]) (by simpa using he) (by simpa using hnd)
    simpa using this

/-- **the cache, characterised** -/
theorem buildCache_eq (g : Opts) (secs : Sections) (hv : ValidSecs secs) :
    buildCache g secs = wildCache g secs (wildcardKeys secs) ++ concCache g secs (concreteKeys secs) := by
  unfold buildCache
  rw [List.foldl_append]
  have h1 := wild_phase g secs hv (wildcardKeys secs) [] (by simp)
  simp only [wildCache, List.map_nil] at h1
  rw [show ([] : Cache) = List.map (fun k => (k, wildVal g secs k)) [] from rfl]
  have h1' : List.foldl (cacheStep g secs) (List.map (fun k => (k, wildVal g secs k)) []) (wildcardKeys secs)
      = wildCache g secs (wildcardKeys secs) := h1
  rw [h1']
  have h2 := conc_phase g secs (concreteKeys secs) []
    (fun c hc => ((mem_concreteKeys secs c).mp (by simpa using hc)).2.2)
    (by simpa using concreteKeys_nodup secs hv)
  simpa [concCache] using h2

end Config
