import MypyVerif.Model.Fold
/-!
Helper lemmas for the constant-folding model: the integer operations used as "Python's semantics" in
`Model/Fold.lean` satisfy the defining properties of the Python language reference
(§6.7 floor division / modulo: `x == (x//y)*y + (x%y)`, the remainder has the sign of the divisor and is
smaller in magnitude; §6.6 `~x == -(x+1)`; §6.8 shifts are multiplication / floor division by `2**n`;
§6.9 `& | ^` act bitwise on the infinite two's-complement representation).
-/
namespace Fold

/-! ### floor division and modulo -/

theorem fdiv_fmod_eq (a b : Int) : Int.fdiv a b * b + Int.fmod a b = a := by
  have := Int.mul_fdiv_add_fmod a b
  rw [Int.mul_comm] at this
  exact this

theorem fmod_range_pos (a : Int) {b : Int} (hb : 0 < b) : 0 ≤ Int.fmod a b ∧ Int.fmod a b < b :=
  ⟨Int.fmod_nonneg_of_pos a hb, Int.fmod_lt_of_pos a hb⟩

theorem fmod_range_neg (a : Int) {b : Int} (hb : b < 0) : b < Int.fmod a b ∧ Int.fmod a b ≤ 0 := by
  rw [Int.fmod_eq_emod]
  have h0 : 0 ≤ a % b := Int.emod_nonneg a (by omega)
  have h1 : a % b < -b := by
    have := Int.emod_lt_of_pos a (show 0 < -b by omega)
    rwa [Int.emod_neg] at this
  by_cases hd : b ∣ a
  · have : a % b = 0 := Int.emod_eq_zero_of_dvd hd
    simp [hd, this]; omega
  · have hne : a % b ≠ 0 := fun h => hd (Int.dvd_of_emod_eq_zero h)
    have : ¬ (0 ≤ b ∨ b ∣ a) := by
      intro h; cases h with
      | inl h => omega
      | inr h => exact hd h
    simp [this]; omega

/-- a product with a factor of magnitude ≥ 1 is at least as large in magnitude as the other factor -/
private theorem mul_small {b k d : Int} (h : k * b = d)
    (hb : b ≠ 0) (hpos : 0 < b → (-b < d ∧ d < b)) (hneg : b < 0 → (b < d ∧ d < -b)) : k = 0 := by
  by_cases hk : k = 0
  · exact hk
  · exfalso
    rcases Int.lt_or_gt_of_ne hk with hk | hk
    · -- k ≤ -1
      rcases Int.lt_or_gt_of_ne hb with hb' | hb'
      · have := hneg hb'
        have h1 : k * b ≥ (-1) * b := Int.mul_le_mul_of_nonpos_right (by omega) (by omega)
        omega
      · have := hpos hb'
        have h1 : k * b ≤ (-1) * b := Int.mul_le_mul_of_nonneg_right (by omega) (by omega)
        omega
    · rcases Int.lt_or_gt_of_ne hb with hb' | hb'
      · have := hneg hb'
        have h1 : k * b ≤ 1 * b := Int.mul_le_mul_of_nonpos_right (by omega) (by omega)
        omega
      · have := hpos hb'
        have h1 : 1 * b ≤ k * b := Int.mul_le_mul_of_nonneg_right (by omega) (by omega)
        omega

/-- Python's `divmod` is determined by its defining properties. -/
theorem fdiv_fmod_unique (a b q r : Int) (hb : b ≠ 0) (h : q * b + r = a)
    (hpos : 0 < b → 0 ≤ r ∧ r < b) (hneg : b < 0 → b < r ∧ r ≤ 0) :
    q = Int.fdiv a b ∧ r = Int.fmod a b := by
  have e := fdiv_fmod_eq a b
  have hk : (q - Int.fdiv a b) * b = Int.fmod a b - r := by
    rw [Int.sub_mul]; omega
  have hq : q - Int.fdiv a b = 0 := by
    apply mul_small hk
    · exact hb
    · intro hb'; have := fmod_range_pos a hb'; have := hpos hb'; omega
    · intro hb'; have := fmod_range_neg a hb'; have := hneg hb'; omega
  have hq' : q = Int.fdiv a b := by omega
  refine ⟨hq', ?_⟩
  rw [hq'] at h
  omega

/-! ### bitwise operations -/

theorem testBit_natAndNot (m n i : Nat) : (natAndNot m n).testBit i = (m.testBit i && !n.testBit i) := by
  simp only [natAndNot, Nat.testBit_xor, Nat.testBit_and]
  cases m.testBit i <;> cases n.testBit i <;> rfl

theorem testBit_bnot (a : Int) (i : Nat) : testBit (bnot a) i = !testBit a i := by
  cases a with
  | ofNat m =>
    have : bnot (Int.ofNat m) = Int.negSucc m := by simp only [bnot, Int.negSucc_eq, Int.ofNat_eq_natCast]; omega
    rw [this]; simp [testBit]
  | negSucc m =>
    have : bnot (Int.negSucc m) = Int.ofNat m := by simp only [bnot, Int.negSucc_eq, Int.ofNat_eq_natCast]; omega
    rw [this]; simp [testBit]

theorem testBit_land (a b : Int) (i : Nat) : testBit (land a b) i = (testBit a i && testBit b i) := by
  cases a <;> cases b <;>
    simp [land, testBit, Nat.testBit_and, Nat.testBit_or, testBit_natAndNot, Bool.and_comm]

theorem testBit_lor (a b : Int) (i : Nat) : testBit (lor a b) i = (testBit a i || testBit b i) := by
  cases a <;> cases b <;>
    simp [lor, testBit, Nat.testBit_and, Nat.testBit_or, testBit_natAndNot, Bool.or_comm]

theorem testBit_lxor (a b : Int) (i : Nat) : testBit (lxor a b) i = (testBit a i ^^ testBit b i) := by
  cases a <;> cases b <;> simp [lxor, testBit, Nat.testBit_xor]

/-- an integer is determined by its two's-complement bits (so the three laws above define `& | ^`) -/
theorem eq_of_testBit_eq (a b : Int) (h : ∀ i, testBit a i = testBit b i) : a = b := by
  cases a with
  | ofNat m =>
    cases b with
    | ofNat n =>
      congr 1
      exact Nat.eq_of_testBit_eq (by simpa [testBit] using h)
    | negSucc n =>
      exfalso
      -- bits of a natural are eventually 0, bits of a negative number eventually 1
      have h1 := h (m + n + 1)
      simp only [testBit] at h1
      have hm : m.testBit (m + n + 1) = false :=
        Nat.testBit_lt_two_pow (Nat.lt_of_lt_of_le (Nat.lt_two_pow_self) (Nat.pow_le_pow_right (by omega) (by omega)))
      have hn : n.testBit (m + n + 1) = false :=
        Nat.testBit_lt_two_pow (Nat.lt_of_lt_of_le (Nat.lt_two_pow_self) (Nat.pow_le_pow_right (by omega) (by omega)))
      rw [hm, hn] at h1
      simp at h1
  | negSucc m =>
    cases b with
    | ofNat n =>
      exfalso
      have h1 := h (m + n + 1)
      simp only [testBit] at h1
      have hm : m.testBit (m + n + 1) = false :=
        Nat.testBit_lt_two_pow (Nat.lt_of_lt_of_le (Nat.lt_two_pow_self) (Nat.pow_le_pow_right (by omega) (by omega)))
      have hn : n.testBit (m + n + 1) = false :=
        Nat.testBit_lt_two_pow (Nat.lt_of_lt_of_le (Nat.lt_two_pow_self) (Nat.pow_le_pow_right (by omega) (by omega)))
      rw [hm, hn] at h1
      simp at h1
    | negSucc n =>
      congr 1
      apply Nat.eq_of_testBit_eq
      intro i
      have := h i
      simp only [testBit] at this
      cases hm : m.testBit i <;> cases hn : n.testBit i <;> simp [hm, hn] at this ⊢

/-! ### shifts -/

theorem shl_zero (a : Int) : shl a 0 = a := by simp [shl]
theorem shl_succ (a : Int) (n : Nat) : shl a (n + 1) = 2 * shl a n := by
  simp [shl, Int.pow_succ]; rw [Int.mul_comm (2 : Int), Int.mul_assoc]
theorem shr_zero (a : Int) : shr a 0 = a := by simp [shr]

/-- `a >> n` is the unique `q` with `q * 2ⁿ ≤ a < (q + 1) * 2ⁿ` -/
theorem shr_spec (a : Int) (n : Nat) : shr a n * 2 ^ n ≤ a ∧ a < (shr a n + 1) * 2 ^ n := by
  have hp : (0 : Int) < 2 ^ n := Int.pow_pos (by omega)
  have e := fdiv_fmod_eq a (2 ^ n)
  have r := fmod_range_pos a hp
  unfold shr
  rw [Int.add_mul]
  omega

/-! ### sequences -/

theorem repeatSeq_length (s : List Nat) (n : Nat) : (repeatSeq s n).length = n * s.length := by
  induction n with
  | zero => simp [repeatSeq]
  | succ k ih => simp [repeatSeq, ih, Nat.succ_mul]; omega

theorem pyRepeat_nonpos (s : List Nat) (n : Int) (h : n ≤ 0) : pyRepeat s n = [] := by
  have : n.toNat = 0 := by omega
  simp [pyRepeat, this, repeatSeq]

/-! ## binary operators on int / bool operands -/

theorem foldBinInt_sound (op : Op) (bb : Option (Bool × Bool)) (l r : Int) (res : Res) :
    foldBinInt op bb l r = some res → pyBinInt op bb l r = .ok res := by
  intro h
  cases op <;> simp only [foldBinInt, pyBinInt] at h ⊢
  case add | sub => injection h with h; subst h; rfl
  case mul =>
    split at h
    · injection h with h; subst h; rfl
    · cases h
  case truediv =>
    split at h
    · rename_i hc
      split at h
      · cases h
      · rename_i ho; injection h with h; subst h; simp [hc, ho]
    · cases h
  case floordiv | mod =>
    split at h
    · rename_i hc; injection h with h; subst h; simp [hc]
    · cases h
  case band | bor | bxor =>
    split at h <;> (injection h with h; subst h; rfl)
  case rshift =>
    split at h
    · rename_i hc; injection h with h; subst h
      have : ¬ r < 0 := by omega
      simp [this]
    · cases h
  case lshift | pow =>
    split at h
    · rename_i hc
      split at h
      · injection h with h; subst h
        have : ¬ r < 0 := by omega
        simp [this]
      · cases h
    · cases h
  case matmul => cases h

/-- below the guard the int folder returns whatever CPython computes -/
theorem foldBinInt_complete (op : Op) (bb : Option (Bool × Bool)) (l r : Int) (v : Val)
    (hg : intGuardOk op l r = true) :
    pyBinInt op bb l r = .ok (.val v) → foldBinInt op bb l r = some (.val v) := by
  intro h
  cases op <;> simp only [foldBinInt, pyBinInt] at h ⊢
  case add | sub => injection h with h; rw [h]
  case mul => injection h with h; rw [if_pos hg, h]
  case truediv =>
    split at h
    · cases h
    · split at h <;> cases h
  case floordiv | mod =>
    split at h
    · cases h
    · rename_i hc; injection h with h; simp [hc, h]
  case band | bor | bxor =>
    split at h <;> (injection h with h; rw [h])
  case rshift =>
    split at h
    · cases h
    · rename_i hc; injection h with h
      have : r ≥ 0 := by omega
      simp [this, h]
  case lshift =>
    split at h
    · cases h
    · rename_i hc; injection h with h
      have : r ≥ 0 := by omega
      rw [if_pos this, if_pos hg, h]
  case pow =>
    split at h
    · split at h <;> cases h
    · rename_i hc; injection h with h
      have : r ≥ 0 := by omega
      rw [if_pos this, if_pos hg, h]
  case matmul => cases h

/-- true division: the folder returns CPython's quotient of the same two integers whenever CPython has one -/
theorem foldBinInt_quot (op : Op) (bb : Option (Bool × Bool)) (l r x y : Int) :
    pyBinInt op bb l r = .ok (.quot x y) → foldBinInt op bb l r = some (.quot x y) := by
  intro h
  cases op <;> simp only [foldBinInt, pyBinInt] at h ⊢
  case truediv =>
    split at h
    · cases h
    · rename_i hc
      split at h
      · cases h
      · rename_i ho; injection h with h; simp [hc, ho, h]
  case add | sub | mul => cases h
  case floordiv | mod => split at h <;> cases h
  case band | bor | bxor => split at h <;> cases h
  case lshift | rshift => split at h <;> cases h
  case pow =>
    split at h
    · split at h <;> cases h
    · cases h
  case matmul => cases h

/-- above the guard the int folder declines -/
theorem foldBinInt_guard (op : Op) (bb : Option (Bool × Bool)) (l r : Int)
    (hg : intGuardOk op l r = false) : foldBinInt op bb l r = none := by
  have hn : ¬ intGuardOk op l r = true := by rw [hg]; simp
  cases op <;> simp only [foldBinInt]
  case mul => rw [if_neg hn]
  case lshift => split <;> first | rfl | rw [if_neg hn]
  case pow => split <;> first | rfl | rw [if_neg hn]
  all_goals (simp [intGuardOk] at hg)

/-! ### sequence repetition and concatenation inside the folders -/

theorem foldRepeat_sound (flag : Bool) (mk : List Nat → Val) (s : List Nat) (n : Int) (r : Res)
    (h : foldRepeat flag mk s n = some r) : seqMul mk s n = .ok r := by
  unfold foldRepeat at h
  split at h
  · rename_i hc
    simp only [Bool.and_eq_true] at hc
    injection h with h; subst h
    simp [seqMul, hc.2]
  · cases h

theorem foldRepeat_complete (flag : Bool) (mk : List Nat → Val) (s : List Nat) (n : Int) (r : Res)
    (hg : seqGuardOk flag s.length n = true) (h : seqMul mk s n = .ok r) : foldRepeat flag mk s n = some r := by
  unfold seqMul at h
  unfold foldRepeat
  split at h
  · rename_i hc
    injection h with h; subst h
    simp [hg, hc]
  · cases h

theorem foldRepeat_guard (flag : Bool) (mk : List Nat → Val) (s : List Nat) (n : Int)
    (hg : seqGuardOk flag s.length n = false) : foldRepeat flag mk s n = none := by
  simp [foldRepeat, hg]

theorem ite_ok {c : Prop} [Decidable c] {x v : Val}
    (h : (if c then PyRes.ok (.val x) else PyRes.raises .overflowError) = PyRes.ok (.val v)) : x = v := by
  split at h
  · injection h with h; injection h
  · cases h


theorem foldRepeat_ne_float (flag : Bool) (mk : List Nat → Val) (s : List Nat) (n : Int) :
    (∀ x y, foldRepeat flag mk s n ≠ some (.quot x y)) ∧ foldRepeat flag mk s n ≠ some .float := by
  unfold foldRepeat; split <;> simp

theorem seqMul_ne_quot (mk : List Nat → Val) (s : List Nat) (n x y : Int) : seqMul mk s n ≠ .ok (.quot x y) := by
  unfold seqMul; split <;> simp

/-! ### `int.bit_length()` and the size of guarded results -/

theorem natAbs_lt_pow_bitLength (a : Int) : a.natAbs < 2 ^ bitLength a := by
  unfold bitLength
  split
  · rename_i h; subst h; simp
  · exact Nat.lt_log2_self

theorem bitLength_le_of_lt (a : Int) (k : Nat) (h : a.natAbs < 2 ^ k) : bitLength a ≤ k := by
  unfold bitLength
  split
  · omega
  · rename_i ha
    have hne : a.natAbs ≠ 0 := by omega
    have := (Nat.log2_lt hne).2 h
    omega

theorem bitLength_mul (a b : Int) : bitLength (a * b) ≤ bitLength a + bitLength b := by
  apply bitLength_le_of_lt
  rw [Int.natAbs_mul, Nat.pow_add]
  exact Nat.mul_lt_mul'' (natAbs_lt_pow_bitLength a) (natAbs_lt_pow_bitLength b)

theorem bitLength_shl (a : Int) (n : Nat) : bitLength (shl a n) ≤ bitLength a + n := by
  apply bitLength_le_of_lt
  unfold shl
  rw [Int.natAbs_mul, Int.natAbs_pow, Nat.pow_add]
  have h2 : (2 : Int).natAbs = 2 := rfl
  rw [h2]
  exact Nat.mul_lt_mul_of_lt_of_le (natAbs_lt_pow_bitLength a) (Nat.le_refl _) (Nat.pow_pos (by omega))

theorem bitLength_pow (a : Int) (n : Nat) : bitLength (a ^ n) ≤ max 1 (bitLength a * n) := by
  cases n with
  | zero =>
    have h1 : (a : Int) ^ 0 = 1 := by simp
    have : bitLength ((a : Int) ^ 0) = 1 := by rw [h1]; decide
    omega
  | succ m =>
    have : bitLength (a ^ (m + 1)) ≤ bitLength a * (m + 1) := by
      apply bitLength_le_of_lt
      rw [Int.natAbs_pow, Nat.pow_mul]
      exact Nat.pow_lt_pow_left (natAbs_lt_pow_bitLength a) (by omega)
    omega

theorem pyRepeat_length (s : List Nat) (n : Int) : (pyRepeat s n).length = n.toNat * s.length := by
  unfold pyRepeat; exact repeatSeq_length s n.toNat

end Fold
