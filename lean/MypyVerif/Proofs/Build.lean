import MypyVerif.Model.Build
/-! Invariants and the refinement argument for the incremental build model. -/
namespace Build

variable (hs : Hashes) (analyze : Mod → Src → Sem → Env → Res)

/-- the result depends on other units only through the interfaces it reports having read -/
def Local : Prop := ∀ m s k (e e' : Env),
  (∀ d ∈ (analyze m s k e).reads, e d = e' d) → analyze m s k e' = analyze m s k e

/-- SHA-1 / interface-hash collisions are excluded (trusted base) -/
def HashInj : Prop := (∀ a b, hs.H a = hs.H b → a = b) ∧ (∀ a b, hs.HI a = hs.HI b → a = b)

/-- C09's obligation: runs whose cache keys agree agree on everything the analysis reads -/
def KeyCovers (U : List World) : Prop :=
  ∀ w ∈ U, ∀ w' ∈ U, w.opts.key = w'.opts.key → w.opts.sem = w'.opts.sem

/-- F7's hypothesis: two versions of a unit with equal (mtime, size) have equal content -/
def StatObs (U : List World) : Prop :=
  ∀ w ∈ U, ∀ w' ∈ U, ∀ m f f', (m, f) ∈ w.order → (m, f') ∈ w'.order →
    f.mtime = f'.mtime → f.size = f'.size → f.src = f'.src

/-- every record is a true trace of an analysis made in some world of `U` -/
def Valid (U : List World) (c : Cache) : Prop :=
  ∀ m r, c m = some r → ∃ w ∈ U, ∃ f, (m, f) ∈ w.order ∧
    ∃ e0 : Env, r = mkRec hs f w.opts e0 (analyze m f.src w.opts.sem e0)

theorem valid_empty (U : List World) : Valid hs analyze U (fun _ => none) := by
  intro m r h; cases h

theorem valid_mono (U V : List World) (c : Cache) (h : ∀ w ∈ U, w ∈ V) (hv : Valid hs analyze U c) :
    Valid hs analyze V c := by
  intro m r hr
  obtain ⟨w, hw, rest⟩ := hv m r hr
  exact ⟨w, h w hw, rest⟩

theorem envHash_inj (hi : HashInj hs) (e e0 : Env) (d : Mod) (h : envHash hs e d = envHash hs e0 d) :
    e d = e0 d := by
  unfold envHash at h
  cases h1 : e d with
  | none => cases h2 : e0 d with
    | none => rfl
    | some b => simp [h1, h2] at h
  | some a => cases h2 : e0 d with
    | none => simp [h1, h2] at h
    | some b => simp [h1, h2] at h; rw [hi.2 a b h]

/-- a trusted record equals what the analysis would compute now -/
theorem fresh_sound (hl : Local analyze) (hi : HashInj hs) (U : List World)
    (hk : KeyCovers U) (ho : StatObs U)
    (w : World) (hw : w ∈ U) (m : Mod) (f : File) (hmf : (m, f) ∈ w.order)
    (r : Rec) (e : Env)
    (hv : ∃ w0 ∈ U, ∃ f0, (m, f0) ∈ w0.order ∧
        ∃ e0 : Env, r = mkRec hs f0 w0.opts e0 (analyze m f0.src w0.opts.sem e0))
    (hf : fresh hs r f w.opts e = true) :
    r.iface = (analyze m f.src w.opts.sem e).iface ∧ r.errs = (analyze m f.src w.opts.sem e).errs := by
  obtain ⟨w0, hw0, f0, hmf0, e0, hr⟩ := hv
  unfold fresh at hf
  simp only [Bool.and_eq_true, beq_iff_eq, List.all_eq_true] at hf
  obtain ⟨⟨hkey, hsrc⟩, hreads⟩ := hf
  -- options
  have hsem : w0.opts.sem = w.opts.sem := by
    apply hk w0 hw0 w hw
    rw [hr] at hkey; simpa [mkRec] using hkey
  -- source
  have hsrc' : f0.src = f.src := by
    unfold sourceOk at hsrc
    rw [hr] at hsrc
    simp only [mkRec, Bool.or_eq_true, Bool.and_eq_true, beq_iff_eq] at hsrc
    cases hsrc with
    | inl hst => exact ho w0 hw0 w hw m f0 f hmf0 hmf hst.1 hst.2
    | inr hh => exact hi.1 _ _ hh.2
  -- dependencies
  have hdeps : ∀ d ∈ (analyze m f0.src w0.opts.sem e0).reads, e0 d = e d := by
    intro d hd
    have := hreads (d, envHash hs e0 d) (by rw [hr]; simp only [mkRec]; exact List.mem_map.mpr ⟨d, hd, rfl⟩)
    exact (envHash_inj hs hi e e0 d this).symm
  have heq := hl m f0.src w0.opts.sem e0 e hdeps
  rw [hsrc', hsem] at heq
  rw [heq, hr]
  simp [mkRec, hsrc', hsem]

theorem valid_set (U : List World) (c : Cache) (hv : Valid hs analyze U c) (w : World) (hw : w ∈ U)
    (m : Mod) (f : File) (hmf : (m, f) ∈ w.order) (e : Env) :
    Valid hs analyze U (c.set m (mkRec hs f w.opts e (analyze m f.src w.opts.sem e))) := by
  intro m' r' h
  unfold Cache.set at h
  split at h
  · rename_i hm; subst hm
    injection h with h
    exact ⟨w, hw, f, hmf, e, h.symm⟩
  · exact hv m' r' h

/-- generalised fold invariant: warm and cold stay in lock-step on any suffix of the order -/
theorem warm_fold_eq_cold (hl : Local analyze) (hi : HashInj hs) (U : List World)
    (hk : KeyCovers U) (ho : StatObs U) (w : World) (hw : w ∈ U)
    (l : List (Mod × File)) : ∀ (st : WSt), (∀ mf ∈ l, mf ∈ w.order) → Valid hs analyze U st.cache →
    let st' := l.foldl (warmStep hs analyze w.opts) st
    (st'.env, st'.msgs) = l.foldl (coldStep analyze w.opts) (st.env, st.msgs) ∧
    Valid hs analyze U st'.cache := by
  induction l with
  | nil => intro st _ hv; exact ⟨rfl, hv⟩
  | cons mf l ih =>
    intro st hsub hv
    simp only [List.foldl_cons]
    have hmf : (mf.1, mf.2) ∈ w.order := hsub mf (by simp)
    have hsub' : ∀ x ∈ l, x ∈ w.order := fun x hx => hsub x (by simp [hx])
    -- one step
    have key : ((warmStep hs analyze w.opts st mf).env, (warmStep hs analyze w.opts st mf).msgs)
          = coldStep analyze w.opts (st.env, st.msgs) mf
        ∧ Valid hs analyze U (warmStep hs analyze w.opts st mf).cache := by
      unfold warmStep coldStep
      cases hc : st.cache mf.1 with
      | none =>
        exact ⟨rfl, valid_set hs analyze U st.cache hv w hw mf.1 mf.2 hmf st.env⟩
      | some r =>
        simp only
        split
        · rename_i hf
          have := fresh_sound hs analyze hl hi U hk ho w hw mf.1 mf.2 hmf r st.env (hv mf.1 r hc) hf
          simp only
          exact ⟨by rw [this.1, this.2], hv⟩
        · exact ⟨rfl, valid_set hs analyze U st.cache hv w hw mf.1 mf.2 hmf st.env⟩
    have := ih (warmStep hs analyze w.opts st mf) hsub' key.2
    simp only at this
    rw [key.1] at this
    exact this

theorem runHistory_valid (hl : Local analyze) (hi : HashInj hs) (U : List World)
    (hk : KeyCovers U) (ho : StatObs U) (ws : List World) : ∀ (c : Cache),
    (∀ w ∈ ws, w ∈ U) → Valid hs analyze U c → Valid hs analyze U (runHistory hs analyze c ws) := by
  induction ws with
  | nil => intro c _ hv; exact hv
  | cons w ws ih =>
    intro c hsub hv
    have hw : w ∈ U := hsub w (by simp)
    have h1 := (warm_fold_eq_cold hs analyze hl hi U hk ho w hw w.order
      { env := fun _ => none, msgs := [], rechecked := [], cache := c } (fun _ h => h) hv).2
    exact ih _ (fun x hx => hsub x (by simp [hx])) h1

end Build
