import MypyVerif.Model.ParseNorm
/-!
Helper lemmas for C14 (the normalisation slice).  Core Lean only.
-/
namespace ParseNorm

/-! ## `mapIdxFrom` -/

theorem mapIdxFrom_length {α β : Type} (f : Nat → α → β) (xs : List α) : ∀ i, (mapIdxFrom f i xs).length = xs.length := by
  induction xs with
  | nil => intro i; rfl
  | cons x xs ih => intro i; simp [mapIdxFrom, ih]

theorem map_mapIdxFrom {α β γ : Type} (g : β → γ) (f : Nat → α → β) (xs : List α) :
    ∀ i, (mapIdxFrom f i xs).map g = mapIdxFrom (fun i x => g (f i x)) i xs := by
  induction xs with
  | nil => intro i; rfl
  | cons x xs ih => intro i; simp [mapIdxFrom, ih]

theorem mapIdxFrom_const {α β : Type} (h : α → β) (xs : List α) :
    ∀ i, mapIdxFrom (fun _ x => h x) i xs = xs.map h := by
  induction xs with
  | nil => intro i; rfl
  | cons x xs ih => intro i; simp [mapIdxFrom, ih]

theorem mapIdxFrom_congr {α β : Type} (f g : Nat → α → β) (xs : List α) :
    ∀ i, (∀ j x, x ∈ xs → f j x = g j x) → mapIdxFrom f i xs = mapIdxFrom g i xs := by
  induction xs with
  | nil => intro i _; rfl
  | cons x xs ih =>
    intro i h
    simp only [mapIdxFrom]
    rw [h i x (List.mem_cons_self), ih (i + 1) (fun j y hy => h j y (List.mem_cons_of_mem _ hy))]

theorem mapIdxFrom_shift {α β : Type} (f : Nat → α → β) (m : Nat) (xs : List α) :
    ∀ i, mapIdxFrom (fun j x => f (m + j) x) i xs = mapIdxFrom f (m + i) xs := by
  induction xs with
  | nil => intro i; rfl
  | cons x xs ih => intro i; simp only [mapIdxFrom]; rw [ih (i + 1)]; rfl

theorem mapIdxFrom_append {α β : Type} (f : Nat → α → β) (xs ys : List α) :
    ∀ i, mapIdxFrom f i (xs ++ ys) = mapIdxFrom f i xs ++ mapIdxFrom f (i + xs.length) ys := by
  induction xs with
  | nil => intro i; simp [mapIdxFrom]
  | cons x xs ih =>
    intro i
    simp only [List.cons_append, mapIdxFrom, List.length_cons]
    rw [ih (i + 1)]
    have : i + 1 + xs.length = i + (xs.length + 1) := by omega
    rw [this]

theorem mem_mapIdxFrom {α β : Type} (f : Nat → α → β) (xs : List α) (y : β) :
    ∀ i, y ∈ mapIdxFrom f i xs → ∃ j x, x ∈ xs ∧ y = f j x := by
  induction xs with
  | nil => intro i h; cases h
  | cons x xs ih =>
    intro i h
    simp only [mapIdxFrom, List.mem_cons] at h
    cases h with
    | inl h => exact ⟨i, x, List.mem_cons_self, h⟩
    | inr h =>
      obtain ⟨j, z, hz, hy⟩ := ih (i + 1) h
      exact ⟨j, z, List.mem_cons_of_mem _ hz, hy⟩

/-- positional-only test over an index range that starts at 0: true on the first `n` elements -/
theorem mapIdxFrom_lt_append (n : Nat) (h : Name → Bool) (xs ys : List Name) (hx : xs.length = n) :
    mapIdxFrom (fun i x => decide (i < n) || h x) 0 (xs ++ ys) = xs.map (fun _ => true) ++ ys.map h := by
  rw [mapIdxFrom_append]
  congr 1
  · -- indices below n
    have : ∀ (l : List Name) (i : Nat), i + l.length ≤ n →
        mapIdxFrom (fun i x => decide (i < n) || h x) i l = l.map (fun _ => true) := by
      intro l
      induction l with
      | nil => intro i _; rfl
      | cons a l ih =>
        intro i hi
        simp only [mapIdxFrom, List.map_cons, List.length_cons] at *
        rw [ih (i + 1) (by omega)]
        have : i < n := by omega
        simp [this]
    exact this xs 0 (by omega)
  · have : ∀ (l : List Name) (i : Nat), n ≤ i →
        mapIdxFrom (fun i x => decide (i < n) || h x) i l = l.map h := by
      intro l
      induction l with
      | nil => intro i _; rfl
      | cons a l ih =>
        intro i hi
        simp only [mapIdxFrom, List.map_cons]
        rw [ih (i + 1) (by omega)]
        have : ¬ i < n := by omega
        simp [this]
    exact this ys (0 + xs.length) (by omega)

/-! ## constructors -/

/-- an `Argument` constructor that stores name, kind and default as given (both front ends do) -/
def MkOk {δ : Type} (mk : Name → Option δ → Kind → Bool → Arg δ) : Prop :=
  ∀ n d k p, (mk n d k p).name = n ∧ (mk n d k p).kind = k ∧ (mk n d k p).default = d

theorem mkArg_ok {δ : Type} : MkOk (mkArg (δ := δ)) := fun _ _ _ _ => ⟨rfl, rfl, rfl⟩
theorem mkArgNative_ok {δ : Type} : MkOk (mkArgNative (δ := δ)) := fun _ _ _ _ => ⟨rfl, rfl, rfl⟩

theorem optArg_map {δ γ : Type} (mk : Name → Option δ → Kind → Bool → Arg δ) (g : Arg δ → γ) (o : Option Name) (k : Kind) :
    (optArg mk o k).map g = o.toList.map (fun n => g (mk n none k false)) := by
  cases o <;> rfl

/-! ## the positional block: `take` / `drop` / `zip` bookkeeping -/

theorem zip_drop_fst {α β : Type} (l : List α) (d : List β) (h : d.length ≤ l.length) :
    ((l.drop (l.length - d.length)).zip d).map Prod.fst = l.drop (l.length - d.length) := by
  apply List.map_fst_zip
  simp
  omega

theorem zip_drop_snd {α β : Type} (l : List α) (d : List β) (h : d.length ≤ l.length) :
    ((l.drop (l.length - d.length)).zip d).map Prod.snd = d := by
  apply List.map_snd_zip
  simp
  omega


/-! ## the shape of `transform_args` under a projection -/

theorem transformArgsWith_map {δ γ : Type} (mk : Name → Option δ → Kind → Bool → Arg δ) (g : Arg δ → γ)
    (a : Arguments δ) :
    (transformArgsWith mk a).map g =
      mapIdxFrom (fun i n => g (mk n none .pos (decide (i < a.posonlyargs.length)))) 0
        ((a.posonlyargs ++ a.args).take ((a.posonlyargs ++ a.args).length - a.defaults.length))
      ++ mapIdxFrom (fun i (nd : Name × δ) => g (mk nd.1 (some nd.2) .opt
            (decide ((a.posonlyargs ++ a.args).length - a.defaults.length + i < a.posonlyargs.length)))) 0
          (((a.posonlyargs ++ a.args).drop ((a.posonlyargs ++ a.args).length - a.defaults.length)).zip a.defaults)
      ++ a.vararg.toList.map (fun n => g (mk n none .star false))
      ++ (a.kwonlyargs.zip a.kwDefaults).map (fun (nk : Name × Option δ) => g (mk nk.1 nk.2 (kwKind nk.2) false))
      ++ a.kwarg.toList.map (fun n => g (mk n none .star2 false)) := by
  simp only [transformArgsWith, List.map_append, map_mapIdxFrom, optArg_map, List.map_map]
  rfl

theorem names_eq {δ : Type} (mk : Name → Option δ → Kind → Bool → Arg δ) (hmk : MkOk mk) (a : Arguments δ)
    (hwf : a.WF) :
    (transformArgsWith mk a).map (·.name) =
      a.posonlyargs ++ a.args ++ a.vararg.toList ++ a.kwonlyargs ++ a.kwarg.toList := by
  rw [transformArgsWith_map]
  have h1 : ∀ l i, mapIdxFrom (fun i n => (mk n none .pos (decide (i < a.posonlyargs.length))).name) i l = l := by
    intro l i
    rw [mapIdxFrom_congr _ (fun _ x => id x) l i (fun j x _ => (hmk x none .pos _).1), mapIdxFrom_const]; simp
  have h2 : ∀ (l : List (Name × δ)) i, mapIdxFrom (fun i (nd : Name × δ) => (mk nd.1 (some nd.2) .opt
      (decide ((a.posonlyargs ++ a.args).length - a.defaults.length + i < a.posonlyargs.length))).name) i l
      = l.map Prod.fst := by
    intro l i
    rw [mapIdxFrom_congr _ (fun _ x => Prod.fst x) l i (fun j x _ => (hmk x.1 (some x.2) .opt _).1), mapIdxFrom_const]
  have h3 : ∀ (k : Kind) (o : Option Name), o.toList.map (fun n => (mk n none k false).name) = o.toList := by
    intro k o; cases o <;> simp [(hmk _ none k false).1]
  have h4 : (a.kwonlyargs.zip a.kwDefaults).map (fun (nk : Name × Option δ) => (mk nk.1 nk.2 (kwKind nk.2) false).name)
      = a.kwonlyargs := by
    have : (fun (nk : Name × Option δ) => (mk nk.1 nk.2 (kwKind nk.2) false).name) = Prod.fst := by
      funext nk; exact (hmk _ _ _ _).1
    rw [this]
    apply List.map_fst_zip
    rw [hwf.2]; exact Nat.le_refl _
  rw [h1, h2, h3, h3, h4]
  rw [zip_drop_fst _ _ (by simpa using hwf.1), List.take_append_drop]

theorem kinds_eq {δ : Type} (mk : Name → Option δ → Kind → Bool → Arg δ) (hmk : MkOk mk) (a : Arguments δ)
    (hwf : a.WF) :
    (transformArgsWith mk a).map (·.kind) =
      List.replicate (a.posonlyargs.length + a.args.length - a.defaults.length) Kind.pos
      ++ List.replicate a.defaults.length Kind.opt
      ++ a.vararg.toList.map (fun _ => Kind.star)
      ++ a.kwDefaults.map kwKind
      ++ a.kwarg.toList.map (fun _ => Kind.star2) := by
  rw [transformArgsWith_map]
  have h1 : ∀ l i, mapIdxFrom (fun i n => (mk n none .pos (decide (i < a.posonlyargs.length))).kind) i l
      = List.replicate l.length Kind.pos := by
    intro l i
    rw [mapIdxFrom_congr _ (fun _ _ => Kind.pos) l i (fun j x _ => (hmk x none .pos _).2.1), mapIdxFrom_const]
    exact List.map_const' ..
  have h2 : ∀ (l : List (Name × δ)) i, mapIdxFrom (fun i (nd : Name × δ) => (mk nd.1 (some nd.2) .opt
      (decide ((a.posonlyargs ++ a.args).length - a.defaults.length + i < a.posonlyargs.length))).kind) i l
      = List.replicate l.length Kind.opt := by
    intro l i
    rw [mapIdxFrom_congr _ (fun _ _ => Kind.opt) l i (fun j x _ => (hmk x.1 (some x.2) .opt _).2.1), mapIdxFrom_const]
    exact List.map_const' ..
  have h3 : ∀ (k : Kind) (o : Option Name), o.toList.map (fun n => (mk n none k false).kind) = o.toList.map (fun _ => k) := by
    intro k o; cases o <;> simp [(hmk _ none k false).2.1]
  have h4 : (a.kwonlyargs.zip a.kwDefaults).map (fun (nk : Name × Option δ) => (mk nk.1 nk.2 (kwKind nk.2) false).kind)
      = a.kwDefaults.map kwKind := by
    have : (fun (nk : Name × Option δ) => (mk nk.1 nk.2 (kwKind nk.2) false).kind) = kwKind ∘ Prod.snd := by
      funext nk; exact (hmk _ _ _ _).2.1
    rw [this, ← List.map_map, List.map_snd_zip]
    rw [hwf.2]; exact Nat.le_refl _
  rw [h1, h2, h3, h3, h4]
  have hl := hwf.1
  congr 4
  · simp <;> omega
  · simp <;> omega

theorem defaults_eq {δ : Type} (mk : Name → Option δ → Kind → Bool → Arg δ) (hmk : MkOk mk) (a : Arguments δ)
    (hwf : a.WF) :
    (transformArgsWith mk a).map (·.default) =
      List.replicate (a.posonlyargs.length + a.args.length - a.defaults.length) none
      ++ a.defaults.map some
      ++ a.vararg.toList.map (fun _ => none)
      ++ a.kwDefaults
      ++ a.kwarg.toList.map (fun _ => none) := by
  rw [transformArgsWith_map]
  have h1 : ∀ l i, mapIdxFrom (fun i n => (mk n none .pos (decide (i < a.posonlyargs.length))).default) i l
      = List.replicate l.length none := by
    intro l i
    rw [mapIdxFrom_congr _ (fun _ _ => (none : Option δ)) l i (fun j x _ => (hmk x none .pos _).2.2), mapIdxFrom_const]
    exact List.map_const' ..
  have h2 : ∀ (l : List (Name × δ)) i, mapIdxFrom (fun i (nd : Name × δ) => (mk nd.1 (some nd.2) .opt
      (decide ((a.posonlyargs ++ a.args).length - a.defaults.length + i < a.posonlyargs.length))).default) i l
      = (l.map Prod.snd).map some := by
    intro l i
    rw [mapIdxFrom_congr _ (fun _ x => some (Prod.snd x)) l i (fun j x _ => (hmk x.1 (some x.2) .opt _).2.2), mapIdxFrom_const]
    simp
  have h3 : ∀ (k : Kind) (o : Option Name), o.toList.map (fun n => (mk n none k false).default) = o.toList.map (fun _ => none) := by
    intro k o; cases o <;> simp [(hmk _ none k false).2.2]
  have h4 : (a.kwonlyargs.zip a.kwDefaults).map (fun (nk : Name × Option δ) => (mk nk.1 nk.2 (kwKind nk.2) false).default)
      = a.kwDefaults := by
    have : (fun (nk : Name × Option δ) => (mk nk.1 nk.2 (kwKind nk.2) false).default) = Prod.snd := by
      funext nk; exact (hmk _ _ _ _).2.2
    rw [this, List.map_snd_zip]
    rw [hwf.2]; exact Nat.le_refl _
  rw [h1, h2, h3, h3, h4, zip_drop_snd _ _ (by simpa using hwf.1)]
  congr 4
  simp <;> omega

theorem default_iff_kind {δ : Type} (mk : Name → Option δ → Kind → Bool → Arg δ) (hmk : MkOk mk) (a : Arguments δ)
    (x : Arg δ) (hx : x ∈ transformArgsWith mk a) :
    x.default.isSome = true ↔ (x.kind = .opt ∨ x.kind = .namedOpt) := by
  simp only [transformArgsWith, List.mem_append] at hx
  rcases hx with (((hx | hx) | hx) | hx) | hx
  · obtain ⟨j, n, _, rfl⟩ := mem_mapIdxFrom _ _ _ _ hx
    obtain ⟨_, hk, hd⟩ := hmk n none .pos (decide (j < a.posonlyargs.length))
    rw [hk, hd]; simp
  · obtain ⟨j, nd, _, rfl⟩ := mem_mapIdxFrom _ _ _ _ hx
    obtain ⟨_, hk, hd⟩ := hmk nd.1 (some nd.2) .opt
      (decide ((a.posonlyargs ++ a.args).length - a.defaults.length + j < a.posonlyargs.length))
    rw [hk, hd]; simp
  · cases hv : a.vararg with
    | none => simp [hv, optArg] at hx
    | some n =>
      simp only [hv, optArg, List.mem_singleton] at hx
      obtain ⟨_, hk, hd⟩ := hmk n none .star false
      rw [hx, hk, hd]; simp
  · obtain ⟨nk, _, rfl⟩ := List.mem_map.mp hx
    obtain ⟨_, hk, hd⟩ := hmk nk.1 nk.2 (kwKind nk.2) false
    rw [hk, hd]
    cases nk.2 <;> simp [kwKind]
  · cases hv : a.kwarg with
    | none => simp [hv, optArg] at hx
    | some n =>
      simp only [hv, optArg, List.mem_singleton] at hx
      obtain ⟨_, hk, hd⟩ := hmk n none .star2 false
      rw [hx, hk, hd]; simp


/-! ## `pos_only` -/

theorem mapIdxFrom_comp {α β γ : Type} (f : Nat → β → γ) (g : α → β) (xs : List α) :
    ∀ i, mapIdxFrom (fun i x => f i (g x)) i xs = mapIdxFrom f i (xs.map g) := by
  induction xs with
  | nil => intro i; rfl
  | cons x xs ih => intro i; simp [mapIdxFrom, ih]

/-- the positional block of `transform_args` under a per-parameter function of (index, name) -/
theorem positional_block {δ γ : Type} (f : Nat → Name → γ) (L : List Name) (d : List δ) (h : d.length ≤ L.length) :
    mapIdxFrom f 0 (L.take (L.length - d.length))
      ++ mapIdxFrom (fun i (nd : Name × δ) => f (L.length - d.length + i) nd.1) 0 ((L.drop (L.length - d.length)).zip d)
    = mapIdxFrom f 0 L := by
  have e1 : mapIdxFrom (fun i (nd : Name × δ) => f (L.length - d.length + i) nd.1) 0 ((L.drop (L.length - d.length)).zip d)
      = mapIdxFrom f (L.length - d.length) (L.drop (L.length - d.length)) := by
    rw [mapIdxFrom_comp (fun i n => f (L.length - d.length + i) n) Prod.fst, zip_drop_fst _ _ h,
      mapIdxFrom_shift f (L.length - d.length) _ 0]
    rfl
  rw [e1]
  conv => rhs; rw [← List.take_append_drop (L.length - d.length) L]
  rw [mapIdxFrom_append]
  congr 2
  simp

theorem posOnly_default {δ : Type} (a : Arguments δ) (hwf : a.WF) :
    (transformArgs a).map (·.posOnly) =
      a.posonlyargs.map (fun _ => true)
      ++ (a.args ++ a.vararg.toList ++ a.kwonlyargs ++ a.kwarg.toList).map elideName := by
  unfold transformArgs
  rw [transformArgsWith_map]
  have hb := positional_block (δ := δ) (fun i n => decide (i < a.posonlyargs.length) || elideName n)
    (a.posonlyargs ++ a.args) a.defaults (by simpa using hwf.1)
  simp only [mkArg] at *
  rw [hb, mapIdxFrom_lt_append _ _ _ _ rfl]
  have h4 : (a.kwonlyargs.zip a.kwDefaults).map (fun (nk : Name × Option δ) => (false || elideName nk.1))
      = a.kwonlyargs.map elideName := by
    have : (fun (nk : Name × Option δ) => (false || elideName nk.1)) = elideName ∘ Prod.fst := by
      funext nk; simp
    rw [this, ← List.map_map, List.map_fst_zip]
    rw [hwf.2]; exact Nat.le_refl _
  rw [h4]
  cases a.vararg <;> cases a.kwarg <;> simp

theorem posOnly_native {δ : Type} (a : Arguments δ) (hwf : a.WF) :
    (transformArgsNative a).map (·.posOnly) =
      a.posonlyargs.map (fun _ => true) ++ a.args.map elideName
      ++ (a.vararg.toList ++ a.kwonlyargs ++ a.kwarg.toList).map (fun _ => false) := by
  unfold transformArgsNative
  rw [transformArgsWith_map]
  have hb := positional_block (δ := δ) (fun i n => decide (i < a.posonlyargs.length) || elideName n)
    (a.posonlyargs ++ a.args) a.defaults (by simpa using hwf.1)
  simp only [mkArgNative] at *
  have hk : ∀ (o : Option δ), ((kwKind o == Kind.pos) || (kwKind o == Kind.opt)) = false := by
    intro o; cases o <;> rfl
  simp only [hk, Bool.and_false, Bool.or_false]
  have e : ∀ (b : Bool), (b && (Kind.pos == Kind.pos || Kind.pos == Kind.opt)) = b := by intro b; cases b <;> rfl
  have e' : ∀ (b : Bool), (b && (Kind.opt == Kind.pos || Kind.opt == Kind.opt)) = b := by intro b; cases b <;> rfl
  have e2 : ∀ (b : Bool), (b && (Kind.star == Kind.pos || Kind.star == Kind.opt)) = false := by intro b; cases b <;> rfl
  have e3 : ∀ (b : Bool), (b && (Kind.star2 == Kind.pos || Kind.star2 == Kind.opt)) = false := by intro b; cases b <;> rfl
  simp only [e, e', e2, e3, Bool.or_false] at *
  rw [hb, mapIdxFrom_lt_append _ _ _ _ rfl]
  have h4 : (a.kwonlyargs.zip a.kwDefaults).map (fun (_ : Name × Option δ) => false)
      = a.kwonlyargs.map (fun _ => false) := by
    rw [List.map_const', List.map_const']
    simp [hwf.2]
  rw [h4]
  cases a.vararg <;> cases a.kwarg <;> simp


/-! ## the two front ends on one signature -/

theorem mk_agree_positional {δ : Type} (n : Name) (d : Option δ) (p : Bool) :
    mkArgNative n d .pos p = mkArg n d .pos p ∧ mkArgNative n d .opt p = mkArg n d .opt p := by
  constructor <;> simp [mkArgNative, mkArg]

theorem mk_agree_of_not_elide {δ : Type} (n : Name) (d : Option δ) (k : Kind) (p : Bool) (h : elideName n = false) :
    mkArgNative n d k p = mkArg n d k p := by
  simp [mkArgNative, mkArg, h]

theorem transform_agree {δ : Type} (a : Arguments δ)
    (h : ∀ n ∈ a.vararg.toList ++ a.kwonlyargs ++ a.kwarg.toList, elideName n = false) :
    transformArgsNative a = transformArgs a := by
  unfold transformArgsNative transformArgs transformArgsWith
  have e1 : ∀ l, mapIdxFrom (fun i n => mkArgNative (δ := δ) n none .pos (decide (i < a.posonlyargs.length))) 0 l
      = mapIdxFrom (fun i n => mkArg n none .pos (decide (i < a.posonlyargs.length))) 0 l :=
    fun l => mapIdxFrom_congr _ _ l 0 (fun j x _ => (mk_agree_positional x none _).1)
  have e2 : ∀ (l : List (Name × δ)), mapIdxFrom (fun i (nd : Name × δ) => mkArgNative nd.1 (some nd.2) .opt
        (decide ((a.posonlyargs ++ a.args).length - a.defaults.length + i < a.posonlyargs.length))) 0 l
      = mapIdxFrom (fun i (nd : Name × δ) => mkArg nd.1 (some nd.2) .opt
        (decide ((a.posonlyargs ++ a.args).length - a.defaults.length + i < a.posonlyargs.length))) 0 l :=
    fun l => mapIdxFrom_congr _ _ l 0 (fun j x _ => (mk_agree_positional x.1 (some x.2) _).2)
  have e3 : optArg (δ := δ) mkArgNative a.vararg .star = optArg mkArg a.vararg .star := by
    cases hv : a.vararg with
    | none => rfl
    | some n =>
      simp only [optArg]
      rw [mk_agree_of_not_elide n none .star false (h n (by simp [hv]))]
  have e5 : optArg (δ := δ) mkArgNative a.kwarg .star2 = optArg mkArg a.kwarg .star2 := by
    cases hv : a.kwarg with
    | none => rfl
    | some n =>
      simp only [optArg]
      rw [mk_agree_of_not_elide n none .star2 false (h n (by simp [hv]))]
  have e4 : (a.kwonlyargs.zip a.kwDefaults).map (fun (nk : Name × Option δ) => mkArgNative nk.1 nk.2 (kwKind nk.2) false)
      = (a.kwonlyargs.zip a.kwDefaults).map (fun (nk : Name × Option δ) => mkArg nk.1 nk.2 (kwKind nk.2) false) := by
    apply List.map_congr_left
    intro nk hnk
    have hm : nk.1 ∈ a.kwonlyargs := (List.of_mem_zip (a := nk.1) (b := nk.2) hnk).1
    exact mk_agree_of_not_elide nk.1 nk.2 _ false (h nk.1 (by simp [hm]))
  simp only [e1, e2, e3, e4, e5]

theorem map_const_false_eq {l : List Name} (h : l.map elideName = l.map (fun _ => false)) :
    ∀ n ∈ l, elideName n = false := by
  induction l with
  | nil => intro n hn; cases hn
  | cons x xs ih =>
    simp only [List.map_cons, List.cons.injEq] at h
    intro n hn
    cases List.mem_cons.mp hn with
    | inl e => rw [e]; exact h.1
    | inr e => exact ih h.2 n e

/-! ## `funcDefArgs`, `argNames` -/

theorem funcDefArgs_special {δ : Type} (args : List (Arg δ)) : ∀ x ∈ funcDefArgs true args, x.posOnly = true := by
  intro x hx
  simp only [funcDefArgs, if_true, List.mem_map] at hx
  obtain ⟨y, _, rfl⟩ := hx
  rfl

theorem funcDefArgs_keeps {δ : Type} (special : Bool) (args : List (Arg δ)) :
    (funcDefArgs special args).map (·.name) = args.map (·.name) ∧
    (funcDefArgs special args).map (·.kind) = args.map (·.kind) ∧
    (funcDefArgs special args).map (·.default) = args.map (·.default) := by
  cases special <;> simp [funcDefArgs, List.map_map, Function.comp_def]

/-! ## `check_param_names` -/

theorem firstDupFrom_none (ns : List Name) : ∀ (seen : List Name) (i : Nat),
    firstDupFrom seen i ns = none ↔ (ns.Nodup ∧ ∀ n ∈ ns, n ∉ seen) := by
  induction ns with
  | nil => intro seen i; simp [firstDupFrom]
  | cons n ns ih =>
    intro seen i
    simp only [firstDupFrom]
    by_cases hn : n ∈ seen
    · simp [hn]
    · simp only [hn, if_false, ih, List.nodup_cons, List.mem_cons]
      constructor
      · rintro ⟨hnd, hall⟩
        refine ⟨⟨?_, hnd⟩, ?_⟩
        · intro hmem; exact (hall n hmem) (Or.inl rfl)
        · intro m hm
          cases hm with
          | inl e => rw [e]; exact hn
          | inr e => intro hs; exact (hall m e) (Or.inr hs)
      · rintro ⟨⟨hnn, hnd⟩, hall⟩
        refine ⟨hnd, ?_⟩
        intro m hm hs
        cases hs with
        | inl e => rw [e] at hm; exact hnn hm
        | inr e => exact hall m (Or.inr hm) e

theorem firstDupFrom_some (ns : List Name) : ∀ (seen : List Name) (i j : Nat),
    firstDupFrom seen i ns = some j →
      i ≤ j ∧ j - i < ns.length ∧ (∃ n, ns[j - i]? = some n ∧ (n ∈ seen ∨ n ∈ ns.take (j - i))) ∧
      ((ns.take (j - i)).Nodup ∧ ∀ n ∈ ns.take (j - i), n ∉ seen) := by
  induction ns with
  | nil => intro seen i j h; simp [firstDupFrom] at h
  | cons n ns ih =>
    intro seen i j h
    simp only [firstDupFrom] at h
    by_cases hn : n ∈ seen
    · simp only [hn, if_true, Option.some.injEq] at h
      subst h
      simp [hn]
    · simp only [hn, if_false] at h
      obtain ⟨hij, hlt, ⟨m, hm, hmem⟩, hnd, hall⟩ := ih (n :: seen) (i + 1) j h
      have e : j - i = (j - (i + 1)) + 1 := by omega
      refine ⟨by omega, by simp; omega, ⟨m, ?_, ?_⟩, ?_, ?_⟩
      · rw [e]; simpa using hm
      · rw [e]
        simp only [List.take_succ_cons, List.mem_cons]
        cases hmem with
        | inl h1 =>
          cases List.mem_cons.mp h1 with
          | inl h2 => exact Or.inr (Or.inl h2)
          | inr h2 => exact Or.inl h2
        | inr h1 => exact Or.inr (Or.inr h1)
      · rw [e]
        simp only [List.take_succ_cons, List.nodup_cons]
        exact ⟨fun hmem' => (hall n hmem') (List.mem_cons_self), hnd⟩
      · rw [e]
        simp only [List.take_succ_cons, List.mem_cons]
        intro x hx
        cases hx with
        | inl h1 => rw [h1]; exact hn
        | inr h1 => intro hs; exact (hall x h1) (List.mem_cons_of_mem _ hs)


/-! ## `takeWhile` / `dropWhile` -/

theorem dropWhile_append_all {α : Type} (p : α → Bool) (l r : List α) (h : ∀ x ∈ l, p x = true) :
    (l ++ r).dropWhile p = r.dropWhile p := by
  induction l with
  | nil => rfl
  | cons a l ih =>
    have ha := h a List.mem_cons_self
    simp only [List.cons_append, List.dropWhile_cons, ha, if_true]
    exact ih (fun x hx => h x (List.mem_cons_of_mem _ hx))

theorem takeWhile_append_stop {α : Type} (p : α → Bool) (l : List α) (c : α) (r : List α)
    (h : ∀ x ∈ l, p x = true) (hc : p c = false) : (l ++ c :: r).takeWhile p = l := by
  induction l with
  | nil => simp [hc]
  | cons a l ih =>
    have ha := h a List.mem_cons_self
    simp only [List.cons_append, List.takeWhile_cons, ha, if_true]
    rw [ih (fun x hx => h x (List.mem_cons_of_mem _ hx))]

theorem takeWhile_all {α : Type} (p : α → Bool) (l : List α) (h : ∀ x ∈ l, p x = true) : l.takeWhile p = l := by
  induction l with
  | nil => rfl
  | cons a l ih =>
    simp only [List.takeWhile_cons, h a List.mem_cons_self, if_true]
    rw [ih (fun x hx => h x (List.mem_cons_of_mem _ hx))]

/-- a list splits at the first element that fails `p` -/
theorem span_decomp {α : Type} (p : α → Bool) (l : List α) :
    l = l.takeWhile p ++ l.dropWhile p ∧ (∀ x ∈ l.takeWhile p, p x = true) ∧
    (l.dropWhile p = [] ∨ ∃ c r, l.dropWhile p = c :: r ∧ p c = false) := by
  induction l with
  | nil => simp
  | cons a l ih =>
    cases ha : p a with
    | true =>
      simp only [List.takeWhile_cons, List.dropWhile_cons, ha, if_true, List.cons_append]
      refine ⟨by rw [← ih.1], ?_, ih.2.2⟩
      intro x hx
      cases List.mem_cons.mp hx with
      | inl e => rw [e]; exact ha
      | inr e => exact ih.2.1 x e
    | false =>
      simp only [List.takeWhile_cons, List.dropWhile_cons, ha]
      refine ⟨by simp, by simp, Or.inr ⟨a, l, by simp, ha⟩⟩

/-! ## whitespace -/

def AllSpace (w : List Char) : Prop := ∀ c ∈ w, isSpace c = true

theorem allSpace_nil : AllSpace [] := fun _ h => by cases h

theorem lstrip_append_allSpace (w r : List Char) (h : AllSpace w) : lstrip (w ++ r) = lstrip r :=
  dropWhile_append_all isSpace w r h

theorem lstrip_cons_nonspace (c : Char) (r : List Char) (h : isSpace c = false) : lstrip (c :: r) = c :: r := by
  simp [lstrip, h]

theorem lstrip_decomp (s : List Char) :
    ∃ w, AllSpace w ∧ s = w ++ lstrip s ∧ (lstrip s = [] ∨ ∃ c r, lstrip s = c :: r ∧ isSpace c = false) := by
  obtain ⟨h1, h2, h3⟩ := span_decomp isSpace s
  exact ⟨s.takeWhile isSpace, h2, h1, h3⟩

theorem rstrip_cons_nonspace (c : Char) (cs : List Char) (h : isSpace c = false) :
    ∃ r, rstrip (c :: cs) = c :: r := by
  simp only [rstrip]
  cases rstrip cs with
  | nil => exact ⟨[], by simp [h]⟩
  | cons r rs => exact ⟨r :: rs, rfl⟩

theorem rstrip_eq_nil_iff (l : List Char) : rstrip l = [] ↔ AllSpace l := by
  induction l with
  | nil => simp [rstrip, allSpace_nil]
  | cons c cs ih =>
    simp only [rstrip]
    cases hr : rstrip cs with
    | nil =>
      have hcs : AllSpace cs := ih.mp hr
      by_cases hc : isSpace c = true
      · simp only [hc, if_true, true_iff]
        intro x hx
        cases List.mem_cons.mp hx with
        | inl e => rw [e]; exact hc
        | inr e => exact hcs x e
      · simp only [hc]
        constructor
        · intro h; cases h
        · intro h; exact absurd (h c List.mem_cons_self) hc
    | cons r rs =>
      constructor
      · intro h; cases h
      · intro h
        have : AllSpace cs := fun x hx => h x (List.mem_cons_of_mem _ hx)
        rw [ih.mpr this] at hr
        cases hr

theorem lstrip_eq_nil_iff (l : List Char) : lstrip l = [] ↔ AllSpace l := by
  obtain ⟨w, hw, hl, hcase⟩ := lstrip_decomp l
  constructor
  · intro h
    rw [h, List.append_nil] at hl
    rw [hl]; exact hw
  · intro h
    cases hcase with
    | inl e => exact e
    | inr e =>
      obtain ⟨c, r, hcr, hc⟩ := e
      have hmem : c ∈ l := by rw [hl, hcr]; simp
      rw [h c hmem] at hc
      cases hc

theorem strip_eq_nil_iff (t : List Char) : strip t = [] ↔ AllSpace t := by
  unfold strip
  rw [rstrip_eq_nil_iff]
  constructor
  · intro h
    obtain ⟨w, hw, hl, _⟩ := lstrip_decomp t
    intro c hc
    rw [hl] at hc
    cases List.mem_append.mp hc with
    | inl e => exact hw c e
    | inr e => exact h c e
  · intro h
    rw [(lstrip_eq_nil_iff t).mpr h]
    exact allSpace_nil

theorem strip_head (t : List Char) : (strip t).head? = (lstrip t).head? := by
  unfold strip
  obtain ⟨w, _, _, hcase⟩ := lstrip_decomp t
  cases hcase with
  | inl e => rw [e]; rfl
  | inr e =>
    obtain ⟨c, r, hcr, hc⟩ := e
    rw [hcr]
    obtain ⟨r', hr'⟩ := rstrip_cons_nonspace c r hc
    rw [hr']; rfl

theorem hash_not_space : isSpace '#' = false := by decide
theorem lbrack_not_space : isSpace '[' = false := by decide

/-! ## the tail `(#.*)?$` -/

def EndsOk (c : List Char) : Prop := '\n' ∉ c ∨ ∃ c', c = c' ++ ['\n'] ∧ '\n' ∉ c'

def TailOk (t : List Char) : Prop := t = [] ∨ ∃ c, t = '#' :: c ∧ EndsOk c

theorem notNewline_iff (x : Char) : notNewline x = true ↔ x ≠ '\n' := by simp [notNewline]

theorem dropWhile_notNewline_nil (c : List Char) : c.dropWhile notNewline = [] ↔ '\n' ∉ c := by
  obtain ⟨h1, h2, h3⟩ := span_decomp notNewline c
  constructor
  · intro h
    rw [h, List.append_nil] at h1
    intro hm
    rw [h1] at hm
    exact (notNewline_iff _).mp (h2 _ hm) rfl
  · intro h
    cases h3 with
    | inl e => exact e
    | inr e =>
      obtain ⟨x, r, hxr, hx⟩ := e
      have hmem : x ∈ c := by rw [h1, hxr]; simp
      have : x = '\n' := by
        by_cases hxx : x = '\n'
        · exact hxx
        · rw [(notNewline_iff x).mpr hxx] at hx; cases hx
      rw [this] at hmem
      exact absurd hmem h

theorem dropWhile_notNewline_single (c : List Char) :
    (∃ x, c.dropWhile notNewline = [x]) ↔ ∃ c', c = c' ++ ['\n'] ∧ '\n' ∉ c' := by
  obtain ⟨h1, h2, h3⟩ := span_decomp notNewline c
  constructor
  · rintro ⟨x, hx⟩
    cases h3 with
    | inl e => rw [e] at hx; cases hx
    | inr e =>
      obtain ⟨y, r, hyr, hy⟩ := e
      rw [hyr] at hx
      simp only [List.cons.injEq] at hx
      have hy' : y = '\n' := by
        by_cases hyy : y = '\n'
        · exact hyy
        · rw [(notNewline_iff y).mpr hyy] at hy; cases hy
      refine ⟨c.takeWhile notNewline, ?_, ?_⟩
      · conv => lhs; rw [h1, hyr, hx.2, hy']
      · intro hm; exact (notNewline_iff _).mp (h2 _ hm) rfl
  · rintro ⟨c', hc, hn⟩
    refine ⟨'\n', ?_⟩
    rw [hc, dropWhile_append_all notNewline c' ['\n']
      (fun x hx => (notNewline_iff x).mpr (fun e => hn (e ▸ hx)))]
    rfl

theorem tailOk_iff (t : List Char) : tailOk t = true ↔ TailOk t := by
  cases t with
  | nil => simp [tailOk, TailOk]
  | cons c r =>
    simp only [tailOk, TailOk]
    by_cases hc : c = '#'
    · subst hc
      simp only [if_true]
      constructor
      · intro h
        refine Or.inr ⟨r, rfl, ?_⟩
        cases hd : r.dropWhile notNewline with
        | nil => exact Or.inl ((dropWhile_notNewline_nil r).mp hd)
        | cons x xs =>
          cases xs with
          | nil => exact Or.inr ((dropWhile_notNewline_single r).mp ⟨x, hd⟩)
          | cons y ys => rw [hd] at h; cases h
      · intro h
        cases h with
        | inl e => cases e
        | inr e =>
          obtain ⟨c', hc', hends⟩ := e
          simp only [List.cons.injEq, true_and] at hc'
          subst hc'
          cases hends with
          | inl e => rw [(dropWhile_notNewline_nil r).mpr e]
          | inr e =>
            obtain ⟨x, hx⟩ := (dropWhile_notNewline_single r).mpr e
            rw [hx]
    · simp only [hc, if_false]
      constructor
      · intro h; cases h
      · intro h
        cases h with
        | inl e => cases e
        | inr e =>
          obtain ⟨c', hc', _⟩ := e
          simp only [List.cons.injEq] at hc'
          exact absurd hc'.1 hc

theorem tailOk_head (t : List Char) (h : TailOk t) : lstrip t = t := by
  cases h with
  | inl e => rw [e]; rfl
  | inr e =>
    obtain ⟨c, hc, _⟩ := e
    rw [hc]; exact lstrip_cons_nonspace _ _ hash_not_space


/-! ## `re.match(r"\s*\[([^]#]*)\]\s*(#.*)?$", tag)` -/

def BodyOk (body : List Char) : Prop := ∀ c ∈ body, c ≠ ']' ∧ c ≠ '#'

theorem inBody_iff (c : Char) : inBody c = true ↔ (c ≠ ']' ∧ c ≠ '#') := by simp [inBody]

/-- the bracketed shape: optional space, `[`, a body without `]`/`#`, `]`, optional space, then nothing or a
    `#` comment running to the end of the (single) line -/
def Bracketed (t body : List Char) : Prop :=
  ∃ w1 w2 tail, t = w1 ++ '[' :: body ++ ']' :: w2 ++ tail ∧ AllSpace w1 ∧ BodyOk body ∧ AllSpace w2 ∧ TailOk tail

theorem matchBracket_iff (t body : List Char) : matchBracket t = some body ↔ Bracketed t body := by
  constructor
  · intro h
    unfold matchBracket at h
    obtain ⟨w1, hw1, ht, hcase⟩ := lstrip_decomp t
    cases hcase with
    | inl e => rw [e] at h; cases h
    | inr e =>
      obtain ⟨c, r, hcr, _⟩ := e
      rw [hcr] at h
      simp only at h
      by_cases hc : c = '['
      · subst hc
        simp only [if_true] at h
        obtain ⟨hr, hbody, hdrop⟩ := span_decomp inBody r
        cases hd : r.dropWhile inBody with
        | nil => rw [hd] at h; cases h
        | cons c' t' =>
          rw [hd] at h
          simp only at h
          by_cases hcond : c' = ']' ∧ tailOk (lstrip t') = true
          · simp only [hcond, and_self, if_true, Option.some.injEq] at h
            obtain ⟨w2, hw2, ht', _⟩ := lstrip_decomp t'
            refine ⟨w1, w2, lstrip t', ?_, hw1, ?_, hw2, (tailOk_iff _).mp hcond.2⟩
            · rw [ht, hcr]
              conv => lhs; rw [hr, hd, hcond.1, ht', h]
              simp
            · rw [← h]; intro x hx; exact (inBody_iff x).mp (hbody x hx)
          · simp only [hcond, if_false] at h; cases h
      · simp only [hc, if_false] at h; cases h
  · rintro ⟨w1, w2, tail, ht, hw1, hbody, hw2, htail⟩
    unfold matchBracket
    have h1 : lstrip t = '[' :: (body ++ ']' :: (w2 ++ tail)) := by
      rw [ht]
      simp only [List.append_assoc, List.cons_append]
      rw [lstrip_append_allSpace _ _ hw1, lstrip_cons_nonspace _ _ lbrack_not_space]
    rw [h1]
    simp only [if_true]
    have hb : ∀ x ∈ body, inBody x = true := fun x hx => (inBody_iff x).mpr (hbody x hx)
    have h2 : (body ++ ']' :: (w2 ++ tail)).dropWhile inBody = ']' :: (w2 ++ tail) := by
      rw [dropWhile_append_all inBody body _ hb]
      simp [inBody]
    have h3 : (body ++ ']' :: (w2 ++ tail)).takeWhile inBody = body :=
      takeWhile_append_stop inBody body ']' _ hb (by simp [inBody])
    rw [h2]
    simp only
    have h4 : lstrip (w2 ++ tail) = tail := by
      rw [lstrip_append_allSpace _ _ hw2]; exact tailOk_head tail htail
    rw [h4, (tailOk_iff tail).mpr htail, h3]
    simp

/-- the bare shape: only white space, or white space and then a `#` comment -/
def Bare (t : List Char) : Prop := ∃ w rest, t = w ++ rest ∧ AllSpace w ∧ (rest = [] ∨ rest.head? = some '#')

theorem bare_iff (t : List Char) :
    (t.isEmpty || (strip t).isEmpty || (strip t).head? == some '#') = true ↔ Bare t := by
  obtain ⟨w, hw, ht, hcase⟩ := lstrip_decomp t
  constructor
  · intro h
    simp only [Bool.or_eq_true, List.isEmpty_iff, beq_iff_eq] at h
    rcases h with (h | h) | h
    · exact ⟨[], [], by simp [h], allSpace_nil, Or.inl rfl⟩
    · have := (strip_eq_nil_iff t).mp h
      exact ⟨t, [], by simp, this, Or.inl rfl⟩
    · rw [strip_head] at h
      exact ⟨w, lstrip t, ht, hw, Or.inr h⟩
  · rintro ⟨w', rest, ht', hw', hrest⟩
    simp only [Bool.or_eq_true, List.isEmpty_iff, beq_iff_eq]
    cases hrest with
    | inl e =>
      refine Or.inl (Or.inr ((strip_eq_nil_iff t).mpr ?_))
      rw [ht', e, List.append_nil]; exact hw'
    | inr e =>
      refine Or.inr ?_
      rw [strip_head, ht', lstrip_append_allSpace _ _ hw']
      cases rest with
      | nil => cases e
      | cons c r =>
        simp only [List.head?_cons, Option.some.injEq] at e
        subst e
        rw [lstrip_cons_nonspace _ _ hash_not_space]; rfl

theorem bare_not_bracketed (t body : List Char) (hb : Bare t) : ¬ Bracketed t body := by
  rintro ⟨w1, w2, tail, ht, hw1, _, _, _⟩
  obtain ⟨w, rest, ht', hw, hrest⟩ := hb
  have h1 : lstrip t = '[' :: (body ++ ']' :: (w2 ++ tail)) := by
    rw [ht]
    simp only [List.append_assoc, List.cons_append]
    rw [lstrip_append_allSpace _ _ hw1, lstrip_cons_nonspace _ _ lbrack_not_space]
  have h2 : lstrip t = lstrip rest := by rw [ht', lstrip_append_allSpace _ _ hw]
  cases hrest with
  | inl e => rw [h2, e] at h1; cases h1
  | inr e =>
    cases rest with
    | nil => cases e
    | cons c r =>
      simp only [List.head?_cons, Option.some.injEq] at e
      subst e
      rw [h2, lstrip_cons_nonspace _ _ hash_not_space] at h1
      cases h1


/-! ## `split`, `codes` -/

theorem splitOn_ne_nil (sep : Char) (s : List Char) : splitOn sep s ≠ [] := by
  cases s with
  | nil => simp [splitOn]
  | cons c cs =>
    simp only [splitOn]
    by_cases h : c = sep
    · simp [h]
    · simp only [h, if_false]
      cases splitOn sep cs <;> simp

theorem splitOn_no_sep (sep : Char) (c : List Char) (h : sep ∉ c) : splitOn sep c = [c] := by
  induction c with
  | nil => rfl
  | cons a c ih =>
    have ha : a ≠ sep := fun e => h (e ▸ List.mem_cons_self)
    have hc : sep ∉ c := fun e => h (List.mem_cons_of_mem _ e)
    simp [splitOn, ha, ih hc]

theorem splitOn_append_sep (sep : Char) (c rest : List Char) (h : sep ∉ c) :
    splitOn sep (c ++ sep :: rest) = c :: splitOn sep rest := by
  induction c with
  | nil => simp [splitOn]
  | cons a c ih =>
    have ha : a ≠ sep := fun e => h (e ▸ List.mem_cons_self)
    have hc : sep ∉ c := fun e => h (List.mem_cons_of_mem _ e)
    simp [splitOn, ha, ih hc]

theorem splitOn_mem_no_sep (sep : Char) (s : List Char) : ∀ l ∈ splitOn sep s, sep ∉ l := by
  induction s with
  | nil => intro l hl; simp [splitOn] at hl; rw [hl]; simp
  | cons c cs ih =>
    intro l hl
    simp only [splitOn] at hl
    by_cases h : c = sep
    · simp only [h, if_true, List.mem_cons] at hl
      cases hl with
      | inl e => rw [e]; simp
      | inr e => exact ih l e
    · simp only [h, if_false] at hl
      cases hs : splitOn sep cs with
      | nil => exact absurd hs (splitOn_ne_nil sep cs)
      | cons x xs =>
        rw [hs] at hl ih
        simp only [List.mem_cons] at hl
        cases hl with
        | inl e =>
          rw [e]
          intro hm
          cases List.mem_cons.mp hm with
          | inl e' => exact h e'.symm
          | inr e' => exact ih x List.mem_cons_self e'
        | inr e => exact ih l (List.mem_cons_of_mem _ e)

/-- `"\n".join(lines)` / `",".join(parts)` -/
def joinWith (sep : Char) : List (List Char) → List Char
  | [] => []
  | [l] => l
  | l :: l' :: ls => l ++ sep :: joinWith sep (l' :: ls)

theorem joinWith_splitOn (sep : Char) (s : List Char) : joinWith sep (splitOn sep s) = s := by
  induction s with
  | nil => rfl
  | cons c cs ih =>
    simp only [splitOn]
    by_cases h : c = sep
    · simp only [h, if_true]
      cases hs : splitOn sep cs with
      | nil => exact absurd hs (splitOn_ne_nil sep cs)
      | cons x xs => rw [hs] at ih; simp [joinWith, ih]
    · simp only [h, if_false]
      cases hs : splitOn sep cs with
      | nil => exact absurd hs (splitOn_ne_nil sep cs)
      | cons x xs =>
        rw [hs] at ih
        cases xs with
        | nil => simp only [joinWith] at ih ⊢; rw [ih]
        | cons y ys => simp only [joinWith, List.cons_append] at ih ⊢; rw [ih]

theorem mem_rstrip (l : List Char) : ∀ x ∈ rstrip l, x ∈ l := by
  induction l with
  | nil => intro x hx; cases hx
  | cons c cs ih =>
    intro x hx
    simp only [rstrip] at hx
    cases hr : rstrip cs with
    | nil =>
      rw [hr] at hx
      by_cases hc : isSpace c = true
      · simp [hc] at hx
      · simp only [hc] at hx
        simp only [Bool.false_eq_true, if_false, List.mem_singleton] at hx
        rw [hx]; exact List.mem_cons_self
    | cons r rs =>
      rw [hr] at hx ih
      cases List.mem_cons.mp hx with
      | inl e => rw [e]; exact List.mem_cons_self
      | inr e => exact List.mem_cons_of_mem _ (ih x e)

theorem mem_strip (l : List Char) : ∀ x ∈ strip l, x ∈ l := by
  intro x hx
  have h1 := mem_rstrip _ x hx
  exact (List.dropWhile_sublist isSpace).subset h1

theorem rstrip_cons_of_cons (c : Char) (cs : List Char) (r : Char) (rs : List Char) (h : rstrip cs = r :: rs) :
    rstrip (c :: cs) = c :: r :: rs := by
  simp [rstrip, h]

theorem rstrip_idem (l : List Char) : rstrip (rstrip l) = rstrip l := by
  induction l with
  | nil => rfl
  | cons c cs ih =>
    cases hr : rstrip cs with
    | nil =>
      have : rstrip (c :: cs) = if isSpace c = true then [] else [c] := by simp [rstrip, hr]
      rw [this]
      by_cases hc : isSpace c = true
      · simp [hc, rstrip]
      · simp [hc, rstrip]
    | cons r rs =>
      rw [rstrip_cons_of_cons c cs r rs hr]
      rw [hr] at ih
      exact rstrip_cons_of_cons c (r :: rs) r rs ih

theorem strip_idem (l : List Char) : strip (strip l) = strip l := by
  unfold strip
  obtain ⟨w, _, _, hcase⟩ := lstrip_decomp l
  cases hcase with
  | inl e => rw [e]; rfl
  | inr e =>
    obtain ⟨c, r, hcr, hc⟩ := e
    rw [hcr]
    obtain ⟨r', hr'⟩ := rstrip_cons_nonspace c r hc
    rw [hr', lstrip_cons_nonspace _ _ hc, ← hr', rstrip_idem]

theorem mem_codes (body c : List Char) (h : c ∈ codes body) :
    c ≠ [] ∧ ',' ∉ c ∧ strip c = c ∧ (∀ x ∈ c, x ∈ body) := by
  simp only [codes, List.mem_filter, List.mem_map] at h
  obtain ⟨⟨piece, hp, rfl⟩, hne⟩ := h
  refine ⟨?_, ?_, strip_idem piece, ?_⟩
  · intro e; rw [e] at hne; simp at hne
  · intro hm; exact splitOn_mem_no_sep ',' body piece hp (mem_strip piece _ hm)
  · intro x hx
    have hx' : x ∈ piece := mem_strip piece x hx
    have hj := joinWith_splitOn ',' body
    -- every character of a piece occurs in the joined string
    have : ∀ (ls : List (List Char)), piece ∈ ls → x ∈ joinWith ',' ls := by
      intro ls
      induction ls with
      | nil => intro h; cases h
      | cons l ls ih =>
        intro hm
        cases ls with
        | nil =>
          simp only [List.mem_singleton] at hm
          simp only [joinWith]; rw [← hm]; exact hx'
        | cons l' ls' =>
          simp only [joinWith, List.mem_append, List.mem_cons]
          cases List.mem_cons.mp hm with
          | inl e => left; rw [← e]; exact hx'
          | inr e => right; right; exact ih e
    rw [← hj]; exact this _ hp

/-- one code (or none) per comma-free segment: the two equations that determine `codes` -/
def codeOf (c : List Char) : List (List Char) := if (strip c).isEmpty then [] else [strip c]

theorem codes_single (c : List Char) (h : ',' ∉ c) : codes c = codeOf c := by
  simp only [codes, splitOn_no_sep ',' c h, codeOf]
  by_cases he : (strip c).isEmpty = true <;> simp [he]

theorem codes_cons (c rest : List Char) (h : ',' ∉ c) : codes (c ++ ',' :: rest) = codeOf c ++ codes rest := by
  simp only [codes, splitOn_append_sep ',' c rest h, codeOf, List.map_cons, List.filter_cons]
  by_cases he : (strip c).isEmpty = true <;> simp [he]

/-! ## `get_mypy_comments` -/

theorem stripPrefix_iff (p l r : List Char) : stripPrefix p l = some r ↔ l = p ++ r := by
  induction p generalizing l with
  | nil => simp [stripPrefix]
  | cons a p ih =>
    cases l with
    | nil => simp [stripPrefix]
    | cons c cs =>
      simp only [stripPrefix]
      by_cases h : a = c
      · simp [h, ih]
      · simp only [h, if_false, List.cons_append, List.cons.injEq]
        constructor
        · intro e; cases e
        · intro e; exact absurd e.1.symm h

theorem mem_collectFrom (ls : List (List Char)) : ∀ (k i : Nat) (t : List Char),
    (i, t) ∈ collectFrom k ls ↔ (k ≤ i ∧ ls[i - k]? = some (mypyPrefix ++ t)) := by
  induction ls with
  | nil => intro k i t; simp [collectFrom]
  | cons l ls ih =>
    intro k i t
    simp only [collectFrom]
    have key : ((i, t) ∈ collectFrom (k + 1) ls) ↔ (k + 1 ≤ i ∧ (l :: ls)[i - k]? = some (mypyPrefix ++ t)) := by
      rw [ih]
      constructor
      · rintro ⟨h1, h2⟩
        refine ⟨h1, ?_⟩
        have : i - k = (i - (k + 1)) + 1 := by omega
        rw [this]; simpa using h2
      · rintro ⟨h1, h2⟩
        refine ⟨h1, ?_⟩
        have : i - k = (i - (k + 1)) + 1 := by omega
        rw [this] at h2; simpa using h2
    cases hs : stripPrefix mypyPrefix l with
    | none =>
      simp only
      rw [key]
      constructor
      · rintro ⟨h1, h2⟩; exact ⟨by omega, h2⟩
      · rintro ⟨h1, h2⟩
        by_cases hik : i = k
        · subst hik
          simp only [Nat.sub_self, List.getElem?_cons_zero, Option.some.injEq] at h2
          have := (stripPrefix_iff mypyPrefix l t).mpr h2
          rw [this] at hs; cases hs
        · exact ⟨by omega, h2⟩
    | some rest =>
      simp only [List.mem_cons, Prod.mk.injEq]
      rw [key]
      have hl := (stripPrefix_iff mypyPrefix l rest).mp hs
      constructor
      · intro h
        cases h with
        | inl e =>
          obtain ⟨e1, e2⟩ := e
          subst e1; subst e2
          exact ⟨Nat.le_refl _, by simp [hl]⟩
        | inr e => exact ⟨by omega, e.2⟩
      · rintro ⟨h1, h2⟩
        by_cases hik : i = k
        · subst hik
          simp only [Nat.sub_self, List.getElem?_cons_zero, Option.some.injEq] at h2
          left
          refine ⟨rfl, ?_⟩
          rw [hl] at h2
          exact (List.append_cancel_left h2).symm
        · right; exact ⟨by omega, h2⟩

theorem collectFrom_sorted (ls : List (List Char)) : ∀ k,
    List.Pairwise (fun a b => a.1 < b.1) (collectFrom k ls) ∧ ∀ p ∈ collectFrom k ls, k ≤ p.1 := by
  induction ls with
  | nil => intro k; simp [collectFrom]
  | cons l ls ih =>
    intro k
    simp only [collectFrom]
    obtain ⟨hs, hge⟩ := ih (k + 1)
    cases stripPrefix mypyPrefix l with
    | none => exact ⟨hs, fun p hp => by have := hge p hp; omega⟩
    | some rest =>
      refine ⟨List.pairwise_cons.mpr ⟨fun p hp => by have := hge p hp; simp; omega, hs⟩, ?_⟩
      intro p hp
      cases List.mem_cons.mp hp with
      | inl e => rw [e]; simp
      | inr e => have := hge p e; omega

/-! ## sortedness by rank -/

theorem pairwise_rank_const (l : List Kind) (r : Nat) (h : ∀ x ∈ l, x.rank = r) :
    l.Pairwise (fun x y => x.rank ≤ y.rank) := by
  induction l with
  | nil => exact List.Pairwise.nil
  | cons a l ih =>
    refine List.pairwise_cons.mpr ⟨?_, ih (fun x hx => h x (List.mem_cons_of_mem _ hx))⟩
    intro y hy
    rw [h a List.mem_cons_self, h y (List.mem_cons_of_mem _ hy)]
    exact Nat.le_refl _

theorem pairwise_rank_append (l1 l2 : List Kind) (r : Nat) (h1 : ∀ x ∈ l1, x.rank ≤ r) (h2 : ∀ y ∈ l2, r ≤ y.rank)
    (p1 : l1.Pairwise (fun x y => x.rank ≤ y.rank)) (p2 : l2.Pairwise (fun x y => x.rank ≤ y.rank)) :
    (l1 ++ l2).Pairwise (fun x y => x.rank ≤ y.rank) :=
  List.pairwise_append.mpr ⟨p1, p2, fun x hx y hy => Nat.le_trans (h1 x hx) (h2 y hy)⟩

/-! ## module-level ignore -/

theorem minLine_none (ign : List (Nat × Codes)) : minLine ign = none ↔ ign = [] := by
  cases ign with
  | nil => simp [minLine]
  | cons p r =>
    simp only [minLine]
    cases minLine r <;> simp

theorem minLine_some (ign : List (Nat × Codes)) : ∀ m, minLine ign = some m →
    (∃ p ∈ ign, p.1 = m) ∧ ∀ p ∈ ign, m ≤ p.1 := by
  induction ign with
  | nil => intro m h; simp [minLine] at h
  | cons q r ih =>
    intro m h
    simp only [minLine] at h
    cases hr : minLine r with
    | none =>
      rw [hr] at h
      simp only [Option.some.injEq] at h
      have : r = [] := (minLine_none r).mp hr
      subst this; subst h
      exact ⟨⟨q, List.mem_cons_self, rfl⟩, fun p hp => by simp at hp; rw [hp]; exact Nat.le_refl _⟩
    | some m' =>
      rw [hr] at h
      simp only [Option.some.injEq] at h
      obtain ⟨⟨p', hp', hpm⟩, hall⟩ := ih m' hr
      by_cases hle : q.1 ≤ m'
      · simp only [hle, if_true] at h
        subst h
        refine ⟨⟨q, List.mem_cons_self, rfl⟩, ?_⟩
        intro p hp
        cases List.mem_cons.mp hp with
        | inl e => rw [e]; exact Nat.le_refl _
        | inr e => exact Nat.le_trans hle (hall p e)
      · simp only [hle, if_false] at h
        subst h
        refine ⟨⟨p', List.mem_cons_of_mem _ hp', hpm⟩, ?_⟩
        intro p hp
        cases List.mem_cons.mp hp with
        | inl e => rw [e]; omega
        | inr e => exact hall p e

theorem moduleIgnore_whole_iff (ign : List (Nat × Codes)) (s : FirstStmt) :
    (moduleIgnore ign (some s)).wholeModule = true ↔ ∃ p ∈ ign, p.1 < getLineno s := by
  unfold moduleIgnore
  cases hm : minLine ign with
  | none =>
    have : ign = [] := (minLine_none ign).mp hm
    subst this
    simp
  | some m =>
    obtain ⟨⟨p, hp, hpm⟩, hall⟩ := minLine_some ign m hm
    simp only
    by_cases hlt : m < getLineno s
    · simp only [hlt, if_true, true_iff]
      exact ⟨p, hp, by omega⟩
    · simp only [hlt, if_false]
      constructor
      · intro h; cases h
      · rintro ⟨q, hq, hql⟩
        have := hall q hq
        omega

theorem moduleIgnore_fired (ign : List (Nat × Codes)) (s : FirstStmt)
    (h : (moduleIgnore ign (some s)).wholeModule = true) :
    ∃ m, minLine ign = some m ∧ m < getLineno s ∧ (∀ p ∈ ign, m ≤ p.1) ∧
      (moduleIgnore ign (some s)).ignores = ign.filter (fun p => p.1 != m) ∧
      ((moduleIgnore ign (some s)).errCodes = none ∨
        ∃ c cs, lookupLine m ign = some (c :: cs) ∧ (moduleIgnore ign (some s)).errCodes = some (m, c :: cs)) := by
  unfold moduleIgnore at h ⊢
  cases hm : minLine ign with
  | none => rw [hm] at h; simp at h
  | some m =>
    rw [hm] at h
    simp only at h ⊢
    by_cases hlt : m < getLineno s
    · simp only [hlt, if_true]
      refine ⟨m, rfl, hlt, (minLine_some ign m hm).2, rfl, ?_⟩
      cases hl : lookupLine m ign with
      | none => left; rfl
      | some cs =>
        cases cs with
        | nil => left; rfl
        | cons c cs => right; exact ⟨c, cs, rfl, rfl⟩
    · simp [hlt] at h

theorem moduleIgnore_not_fired (ign : List (Nat × Codes)) (first : Option FirstStmt)
    (h : (moduleIgnore ign first).wholeModule = false) :
    (moduleIgnore ign first).ignores = ign ∧ (moduleIgnore ign first).errCodes = none := by
  unfold moduleIgnore at h ⊢
  cases first with
  | none => simp
  | some s =>
    cases hm : minLine ign with
    | none => simp
    | some m =>
      rw [hm] at h
      simp only at h ⊢
      by_cases hlt : m < getLineno s
      · simp [hlt] at h
      · simp [hlt]

end ParseNorm
