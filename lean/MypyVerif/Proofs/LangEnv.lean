import MypyVerif.Proofs.LangBasic
/-
Semantic typing of stores with respect to the checker's binder state (`StoreOK`), of conditional type maps
(`MapOK`), and soundness of the binder operations: assignment, push_type_map, and/or maps, isinstance / None
narrowing, update_from_options (`mergeEnvs`), the fixpoint test `envLe`.
-/
namespace Lang

/-- the store is typed by the binder state: every bound, declared local holds a member of its current type -/
def StoreOK (P : Prog) (h : Heap) (decl : List Ty) (Γ : Env) (σ : Store) : Prop :=
  ∀ x T, decl[x]? = some T → ∀ v, getVar σ x = some v → hasTy P h v (effTy decl Γ x)

theorem StoreOK.ext {P : Prog} {h h' : Heap} {decl : List Ty} {Γ : Env} {σ : Store} (e : Ext h h')
    (s : StoreOK P h decl Γ σ) : StoreOK P h' decl Γ σ :=
  fun x T hx v hv => hasTy_ext e (s x T hx v hv)

theorem getVar_set (σ : Store) (x y : Nat) (v : Val) :
    getVar (σ.set x (some v)) y = if x = y ∧ x < σ.length then some v else getVar σ y := by
  unfold getVar
  rw [List.getElem?_set]
  by_cases hxy : x = y
  · subst hxy
    by_cases hl : x < σ.length
    · simp [hl]
    · simp [hl]
  · simp [hxy]

theorem effTy_bind_same (decl : List Ty) (Γ : Env) (x : Nat) (T : Ty) (fl : Bool) :
    effTy decl (bind Γ x T fl) x = T := by
  simp [effTy, bind, lookup]

theorem effTy_bind_other (decl : List Ty) (Γ : Env) {x y : Nat} (T : Ty) (fl : Bool) (h : x ≠ y) :
    effTy decl (bind Γ x T fl) y = effTy decl Γ y := by
  simp [effTy, bind, lookup, h]

theorem StoreOK.assign {P : Prog} {h : Heap} {decl : List Ty} {Γ : Env} {σ : Store} {x : Nat} {v : Val} {T : Ty} {fl : Bool}
    (s : StoreOK P h decl Γ σ) (hv : hasTy P h v T) : StoreOK P h decl (bind Γ x T fl) (σ.set x (some v)) := by
  intro y Ty hy w hw
  rw [getVar_set] at hw
  by_cases hxy : x = y
  · subst hxy
    rw [effTy_bind_same]
    by_cases hl : x < σ.length
    · simp [hl] at hw; subst hw; exact hv
    · simp [hl] at hw
      -- out of range: the store is unchanged and has no value there
      unfold getVar at hw
      have : σ[x]? = none := by simp; omega
      simp [this] at hw
  · simp [hxy] at hw
    rw [effTy_bind_other _ _ _ _ hxy]
    exact s y Ty hy w hw

theorem StoreOK.declare {P : Prog} {h : Heap} {decl : List Ty} {Γ : Env} {σ : Store} {x : Nat} {v : Val} {Tx : Ty}
    (s : StoreOK P h decl Γ σ) (hx : decl[x]? = some Tx) (hn : lookup x Γ = none) (hv : hasTy P h v Tx) :
    StoreOK P h decl Γ (σ.set x (some v)) := by
  intro y Ty hy w hw
  rw [getVar_set] at hw
  by_cases hxy : x = y
  · subst hxy
    by_cases hl : x < σ.length
    · simp [hl] at hw; subst hw
      simp [effTy, hn, declTy, hx]; exact hv
    · simp [hl] at hw
      unfold getVar at hw
      have : σ[x]? = none := by simp; omega
      simp [this] at hw
  · simp [hxy] at hw
    exact s y Ty hy w hw

/-! ## Conditional type maps -/

/-- what a reachable type map says about the store (independent of the binder state it is pushed on) -/
def MapOK (P : Prog) (h : Heap) (σ : Store) (m : CMap) : Prop :=
  ∃ l, m = some l ∧ l.any (fun p => p.2.isEmpty) = false ∧
    ∀ x T, lookup x l = some T → ∀ v, getVar σ x = some v → hasTy P h v T

theorem MapOK.ext {P : Prog} {h h' : Heap} {σ : Store} {m : CMap} (e : Ext h h') (k : MapOK P h σ m) : MapOK P h' σ m := by
  obtain ⟨l, hl, hne, hk⟩ := k
  exact ⟨l, hl, hne, fun x T hx v hv => hasTy_ext e (hk x T hx v hv)⟩

theorem MapOK.noInfo {P : Prog} {h : Heap} {σ : Store} : MapOK P h σ noInfo :=
  ⟨[], rfl, rfl, fun x T hx => by simp [lookup] at hx⟩

theorem lookup_map_flag (x : Nat) (fl : Bool) (l : List (Nat × Ty)) :
    lookup x (l.map fun p => (p.1, (p.2, fl))) = (lookup x l).map fun T => (T, fl) := by
  induction l with
  | nil => simp [lookup]
  | cons p r ih =>
    obtain ⟨k, T⟩ := p
    simp only [List.map_cons, lookup]
    split <;> simp_all

theorem effTy_applyMap (decl : List Ty) (Γ : Env) (fl : Bool) (l : List (Nat × Ty)) (x : Nat) :
    effTy decl (applyMap Γ fl l) x = match lookup x l with | some T => T | none => effTy decl Γ x := by
  unfold effTy applyMap
  rw [lookup_append, lookup_map_flag]
  cases lookup x l <;> simp

/-- pushing a valid map on a state that types the store gives a state that types the store -/
theorem MapOK.push {P : Prog} {h : Heap} {decl : List Ty} {Γ : Env} {σ : Store} {m : CMap} (fl : Bool)
    (k : MapOK P h σ m) (s : StoreOK P h decl Γ σ) : ∃ Γ', pushMap Γ fl m = some Γ' ∧ StoreOK P h decl Γ' σ := by
  obtain ⟨l, hl, hne, hk⟩ := k
  subst hl
  refine ⟨applyMap Γ fl l, by simp [pushMap, hne], ?_⟩
  intro x T hx v hv
  rw [effTy_applyMap]
  cases hl : lookup x l with
  | none => exact s x T hx v hv
  | some U => exact hk x U hl v hv

theorem lookup_filter_key (x : Nat) (p : Nat → Bool) (l : List (Nat × Ty)) :
    lookup x (l.filter fun q => p q.1) = if p x then lookup x l else none := by
  induction l with
  | nil => simp [lookup]
  | cons q r ih =>
    obtain ⟨k, T⟩ := q
    simp only [List.filter_cons]
    by_cases hk : p k = true
    · simp only [hk, if_true, lookup]
      by_cases hkx : k = x
      · subst hkx; simp [hk]
      · simp [hkx, ih]
    · simp only [hk]
      simp only [lookup]
      by_cases hkx : k = x
      · subst hkx; simp [hk, ih]
      · simp [hkx, ih]

theorem any_empty_append (a b : List (Nat × Ty)) :
    (a ++ b).any (fun p => p.2.isEmpty) = false ↔ a.any (fun p => p.2.isEmpty) = false ∧ b.any (fun p => p.2.isEmpty) = false := by
  simp [List.any_append]

theorem any_empty_filter {a : List (Nat × Ty)} (q : Nat × Ty → Bool) (h : a.any (fun p => p.2.isEmpty) = false) :
    (a.filter q).any (fun p => p.2.isEmpty) = false := by
  rw [Bool.eq_false_iff] at *
  intro hc
  apply h
  simp only [List.any_eq_true] at *
  obtain ⟨p, hp, he⟩ := hc
  exact ⟨p, (List.mem_filter.mp hp).1, he⟩

theorem MapOK.and {P : Prog} {h : Heap} {σ : Store} {m1 m2 : CMap} (k1 : MapOK P h σ m1) (k2 : MapOK P h σ m2) :
    MapOK P h σ (andMaps m1 m2) := by
  obtain ⟨a, ha, hna, hka⟩ := k1
  obtain ⟨b, hb, hnb, hkb⟩ := k2
  subst ha hb
  refine ⟨_, rfl, ?_, ?_⟩
  · rw [any_empty_append]; exact ⟨hnb, any_empty_filter _ hna⟩
  · intro x T hx v hv
    rw [lookup_append] at hx
    cases hlb : lookup x b with
    | some U => rw [hlb] at hx; simp at hx; subst hx; exact hkb x U hlb v hv
    | none =>
      rw [hlb] at hx; simp only at hx
      have := lookup_filter_key x (fun k => !hasKey k b) a
      rw [this] at hx
      split at hx
      · exact hka x T hx v hv
      · simp at hx

theorem insAtom_ne (P : Prog) (a : Atom) (acc : Ty) : insAtom P a acc ≠ [] := by
  unfold insAtom
  split
  next h => intro hc; subst hc; simp at h
  next h => simp

theorem foldl_insAtom_ne (P : Prog) : ∀ (T acc : Ty), (T ≠ [] ∨ acc ≠ []) →
    T.foldl (fun acc a => insAtom P a acc) acc ≠ [] := by
  intro T
  induction T with
  | nil =>
    intro acc h
    rcases h with h | h
    · exact absurd rfl h
    · simpa using h
  | cons a r ih =>
    intro acc _
    simp only [List.foldl_cons]
    exact ih _ (Or.inr (insAtom_ne P a acc))

theorem unionTys_ne (P : Prog) {T U : Ty} (h : T ≠ []) : unionTys P [T, U] ≠ [] := by
  unfold unionTys simpUnion
  apply foldl_insAtom_ne
  left
  cases T with
  | nil => exact absurd rfl h
  | cons a r => simp

theorem lookup_orList (P : Prog) (x : Nat) (a b : List (Nat × Ty)) :
    lookup x (orList P a b) = match lookup x a, lookup x b with
      | some T, some U => some (unionTys P [T, U])
      | _, _ => none := by
  induction a with
  | nil => simp [orList, lookup]
  | cons p r ih =>
    obtain ⟨k, T⟩ := p
    simp only [orList]
    by_cases hkx : k = x
    · subst hkx
      cases hb : lookup k b with
      | none => simp only [lookup, if_true]; rw [ih, hb]; cases lookup k r <;> rfl
      | some U => simp [lookup]
    · cases hb : lookup k b with
      | none => simp only [lookup, hkx, if_false]; exact ih
      | some U => simp only [lookup, hkx, if_false]; exact ih

theorem orList_ne (P : Prog) : ∀ (a b : List (Nat × Ty)), a.any (fun p => p.2.isEmpty) = false →
    (orList P a b).any (fun p => p.2.isEmpty) = false := by
  intro a
  induction a with
  | nil => intro b _; simp [orList]
  | cons p r ih =>
    intro b h
    obtain ⟨k, T⟩ := p
    simp only [List.any_cons, Bool.or_eq_false_iff] at h
    simp only [orList]
    cases hb : lookup k b with
    | none => exact ih b h.2
    | some U =>
      simp only [List.any_cons, Bool.or_eq_false_iff]
      refine ⟨?_, ih b h.2⟩
      have hT : T ≠ [] := by
        intro hc; subst hc; simp at h
      have := unionTys_ne P (U := U) hT
      cases hu : unionTys P [T, U] with
      | nil => exact absurd hu this
      | cons _ _ => rfl

theorem MapOK.or_left {P : Prog} (w : WF P) {h : Heap} {σ : Store} {m1 m2 : CMap} (k1 : MapOK P h σ m1) :
    MapOK P h σ (orMaps P m1 m2) := by
  obtain ⟨a, ha, hna, hka⟩ := k1
  subst ha
  cases m2 with
  | none => exact ⟨a, rfl, hna, hka⟩
  | some b =>
    refine ⟨orList P a b, rfl, orList_ne P a b hna, ?_⟩
    intro x T hx v hv
    rw [lookup_orList] at hx
    cases hla : lookup x a with
    | none => simp [hla] at hx
    | some T1 =>
      cases hlb : lookup x b with
      | none => simp [hla, hlb] at hx
      | some T2 =>
        simp [hla, hlb] at hx; subst hx
        exact unionTys_sound w (by simp) (hka x T1 hla v hv)

theorem orList_ne_right (P : Prog) : ∀ (a b : List (Nat × Ty)), b.any (fun p => p.2.isEmpty) = false →
    (orList P a b).any (fun p => p.2.isEmpty) = false := by
  intro a
  induction a with
  | nil => intro b _; simp [orList]
  | cons p r ih =>
    intro b h
    obtain ⟨k, T⟩ := p
    simp only [orList]
    cases hb : lookup k b with
    | none => exact ih b h
    | some U =>
      simp only [List.any_cons, Bool.or_eq_false_iff]
      refine ⟨?_, ih b h⟩
      have hU : U ≠ [] := by
        intro hc; subst hc
        have := lookup_mem hb
        rw [Bool.eq_false_iff] at h
        apply h; simp only [List.any_eq_true]; exact ⟨_, this, rfl⟩
      -- the union contains the (non-empty) right operand
      have : unionTys P [T, U] ≠ [] := by
        unfold unionTys simpUnion
        apply foldl_insAtom_ne
        left
        cases U with
        | nil => exact absurd rfl hU
        | cons a r => simp
      cases hu : unionTys P [T, U] with
      | nil => exact absurd hu this
      | cons _ _ => rfl

theorem MapOK.or_right {P : Prog} (w : WF P) {h : Heap} {σ : Store} {m1 m2 : CMap} (k2 : MapOK P h σ m2) :
    MapOK P h σ (orMaps P m1 m2) := by
  obtain ⟨b, hb, hnb, hkb⟩ := k2
  subst hb
  cases m1 with
  | none => exact ⟨b, rfl, hnb, hkb⟩
  | some a =>
    refine ⟨orList P a b, rfl, orList_ne_right P a b hnb, ?_⟩
    intro x T hx v hv
    rw [lookup_orList] at hx
    cases hla : lookup x a with
    | none => simp [hla] at hx
    | some T1 =>
      cases hlb : lookup x b with
      | none => simp [hla, hlb] at hx
      | some T2 =>
        simp [hla, hlb] at hx; subst hx
        exact unionTys_sound w (by simp) (hkb x T2 hlb v hv)

/-- a map that narrows the single local `x` -/
theorem MapOK.single {P : Prog} {h : Heap} {σ : Store} {x : Nat} {T : Ty} (hne : T ≠ [])
    (hk : ∀ v, getVar σ x = some v → hasTy P h v T) : MapOK P h σ (some [(x, T)]) := by
  refine ⟨_, rfl, ?_, ?_⟩
  · cases T with
    | nil => exact absurd rfl hne
    | cons _ _ => rfl
  · intro y U hy v hv
    simp only [lookup] at hy
    split at hy
    · next e => subst e; simp at hy; subst hy; exact hk v hv
    · simp [lookup] at hy

end Lang
