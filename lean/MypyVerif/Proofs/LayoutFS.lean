import MypyVerif.Model.Layout
/-!
`FS.ofEntries` always yields a coherent file system (so the theorems of Props/C18 apply to every finite tree the
driver is fed with, and their hypotheses are satisfiable).
-/
namespace Layout

theorem nextComp_some {p q : Path} {c : Name} : nextComp p q = some c ↔ ∃ r, q = p ++ c :: r := by
  induction p generalizing q with
  | nil =>
    cases q with
    | nil => simp [nextComp]
    | cons n ns => simp [nextComp]
  | cons a as ih =>
    cases q with
    | nil => simp [nextComp]
    | cons b bs =>
      simp only [nextComp]
      by_cases hab : a = b
      · subst hab
        simp only [if_true, ih, List.cons_append, List.cons.injEq, true_and]
      · simp only [hab, if_false, List.cons_append, List.cons.injEq]
        constructor
        · intro h; cases h
        · rintro ⟨r, h1, _⟩; exact absurd h1.symm hab

theorem nextComp_isSome {p q : Path} : (nextComp p q).isSome = true ↔ ∃ c r, q = p ++ c :: r := by
  rw [Option.isSome_iff_exists]
  constructor
  · rintro ⟨c, h⟩; exact ⟨c, nextComp_some.mp h⟩
  · rintro ⟨c, h⟩; exact ⟨c, nextComp_some.mpr h⟩

theorem mem_dedup {l : List Name} {n : Name} : n ∈ dedup l ↔ n ∈ l := by
  induction l with
  | nil => simp [dedup]
  | cons a as ih =>
    simp only [dedup]
    split
    · next h =>
      rw [ih]
      constructor
      · intro h'; exact List.mem_cons_of_mem _ h'
      · intro h'
        cases h' with
        | head => simpa using h
        | tail _ h' => exact h'
    · simp [ih]

theorem ofEntries_isDir (es : List (Path × Kind)) (p : Path) :
    (FS.ofEntries es).isDir p = true ↔
      p = [] ∨ ∃ e ∈ es, (e.1 = p ∧ e.2 = Kind.dir) ∨ ∃ c r, e.1 = p ++ c :: r := by
  simp only [FS.ofEntries, Bool.or_eq_true, decide_eq_true_eq, List.any_eq_true, Bool.and_eq_true, nextComp_isSome]

theorem ofEntries_isFile (es : List (Path × Kind)) (p : Path) :
    (FS.ofEntries es).isFile p = true ↔
      (∃ e ∈ es, e.1 = p ∧ e.2 = Kind.file) ∧ ¬ (FS.ofEntries es).isDir p = true := by
  simp only [FS.ofEntries, Bool.and_eq_true, List.any_eq_true, decide_eq_true_eq, Bool.not_eq_true',
    Bool.not_eq_true]

theorem ofEntries_wf (es : List (Path × Kind)) : (FS.ofEntries es).WF where
  fileParent := by
    intro d n h
    rw [ofEntries_isFile] at h
    obtain ⟨⟨e, he, hp, _⟩, _⟩ := h
    rw [ofEntries_isDir]
    exact Or.inr ⟨e, he, Or.inr ⟨n, [], by simp [hp]⟩⟩
  dirParent := by
    intro d n h
    rw [ofEntries_isDir] at h ⊢
    rcases h with h | ⟨e, he, h⟩
    · simp at h
    · rcases h with ⟨hp, _⟩ | ⟨c, r, hp⟩
      · exact Or.inr ⟨e, he, Or.inr ⟨n, [], by simp [hp]⟩⟩
      · exact Or.inr ⟨e, he, Or.inr ⟨n, c :: r, by simp [hp]⟩⟩
  notBoth := by
    intro p h
    rw [ofEntries_isFile] at h
    simpa using h.2
  listed := by
    intro d n
    have hl : n ∈ (FS.ofEntries es).listdir d ↔ ∃ e ∈ es, ∃ r, e.1 = d ++ n :: r := by
      simp only [FS.ofEntries, mem_dedup, List.mem_filterMap, nextComp_some]
    rw [hl]
    constructor
    · rintro ⟨e, he, r, hp⟩
      by_cases hd : (FS.ofEntries es).isDir (d ++ [n]) = true
      · exact Or.inr hd
      · left
        rw [ofEntries_isFile]
        refine ⟨?_, hd⟩
        cases r with
        | nil =>
          refine ⟨e, he, by simp [hp], ?_⟩
          cases hk : e.2 with
          | file => rfl
          | dir =>
            exfalso; apply hd
            rw [ofEntries_isDir]
            exact Or.inr ⟨e, he, Or.inl ⟨by simp [hp], hk⟩⟩
        | cons c r' =>
          exfalso; apply hd
          rw [ofEntries_isDir]
          exact Or.inr ⟨e, he, Or.inr ⟨c, r', by simp [hp]⟩⟩
    · rintro (h | h)
      · rw [ofEntries_isFile] at h
        obtain ⟨⟨e, he, hp, _⟩, _⟩ := h
        exact ⟨e, he, [], by simp [hp]⟩
      · rw [ofEntries_isDir] at h
        rcases h with h | ⟨e, he, h⟩
        · simp at h
        · rcases h with ⟨hp, _⟩ | ⟨c, r, hp⟩
          · exact ⟨e, he, [], by simp [hp]⟩
          · exact ⟨e, he, c :: r, by simp [hp]⟩

end Layout
