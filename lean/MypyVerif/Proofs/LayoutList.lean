import MypyVerif.Proofs.LayoutRound
/-!
Listing-level lemmas for the C18 model: every build source made by `create_source_list` from a `.py[i]` path is
the crawl of its path; the search roots derived from the sources are genuine bases.
-/
namespace Layout

variable (fs : FS) (o : Opts)

/-- `s` is what `crawl_up` makes of its own path -/
def Crawled (s : Src) : Prop := crawlSrc fs o s.path = .ok s

theorem crawlSrc_path {p : Path} {s : Src} (h : crawlSrc fs o p = .ok s) : s.path = p := by
  unfold crawlSrc at h
  split at h
  · simp only [Except.ok.injEq] at h; rw [← h]
  · cases h
  · simp only [Except.ok.injEq] at h; rw [← h]

theorem crawlSrc_crawled {p : Path} {s : Src} (h : crawlSrc fs o p = .ok s) : Crawled fs o s := by
  unfold Crawled; rw [crawlSrc_path fs o h]; exact h

theorem crawled_some {s : Src} {B : Path} (h : Crawled fs o s) (hb : s.base = some B) :
    crawlUp fs o s.path = .some s.module B := by
  unfold Crawled crawlSrc at h
  cases hc : crawlUp fs o s.path with
  | some m b =>
    rw [hc] at h
    simp only [Except.ok.injEq] at h
    have h1 := congrArg Src.module h
    have h2 := congrArg Src.base h
    simp only at h1 h2
    rw [hb] at h2
    simp only [Option.some.injEq] at h2
    rw [h1, h2]
  | err n => rw [hc] at h; cases h
  | none =>
    rw [hc] at h
    simp only [Except.ok.injEq] at h
    have h2 := congrArg Src.base h
    simp only at h2
    rw [hb] at h2; cases h2

theorem crawled_of_crawlUp {p : Path} {m : List Name} {B : Path} (h : crawlUp fs o p = .some m B) :
    crawlSrc fs o p = .ok { path := p, module := m, base := some B } := by
  simp [crawlSrc, h]

theorem loopDir_crawled {recur : Path → Except Err (List Src)} {path : Path}
    (hrec : ∀ p l, recur p = .ok l → ∀ s ∈ l, Crawled fs o s) :
    ∀ (names seen : List Name) (out : List Src), loopDir fs o recur path names seen = .ok out →
      ∀ s ∈ out, Crawled fs o s := by
  intro names
  induction names with
  | nil => intro seen out h; simp only [loopDir] at h; cases h; intro s hs; cases hs
  | cons n rest ih =>
    intro seen out h
    simp only [loopDir] at h
    split at h
    · exact ih _ _ h
    · split at h
      · split at h
        · cases h
        · exact ih _ _ h
        · next s0 ss hr =>
          split at h
          · cases h
          · next more hm =>
            cases h
            intro s hs
            simp only [List.cons_append, List.mem_cons, List.mem_append] at hs
            rcases hs with rfl | hs | hs
            · exact hrec _ _ hr _ (by simp)
            · exact hrec _ _ hr _ (by simp [hs])
            · exact ih _ _ hm s hs
      · split at h
        · split at h
          · cases h
          · next s0 hc =>
            split at h
            · cases h
            · next more hm =>
              cases h
              intro s hs
              simp only [List.mem_cons] at hs
              rcases hs with rfl | hs
              · exact crawlSrc_crawled fs o hc
              · exact ih _ _ hm s hs
        · exact ih _ _ h

theorem findSourcesInDir_crawled : ∀ (fuel : Nat) (path : Path) (out : List Src),
    findSourcesInDir fs o fuel path = .ok out → ∀ s ∈ out, Crawled fs o s := by
  intro fuel
  induction fuel with
  | zero => intro path out h; simp only [findSourcesInDir] at h; cases h; intro s hs; cases hs
  | succ k ih =>
    intro path out h
    simp only [findSourcesInDir] at h
    exact loopDir_crawled fs o (fun p l hl => ih p l hl) _ _ _ h

/-- a build source is either the crawl of its path or a script (a path without a `.py[i]` suffix) -/
def SrcOK (s : Src) : Prop :=
  Crawled fs o s ∨ (s.base = none ∧ isPyArg s.path = false)

theorem sourcesOfArg_ok {fuel : Nat} {p : Path} {l : List Src} (h : sourcesOfArg fs o fuel p = .ok l) :
    ∀ s ∈ l, SrcOK fs o s := by
  unfold sourcesOfArg at h
  split at h
  · split at h
    · cases h
    · next s0 hc =>
      cases h
      intro s hs
      simp only [List.mem_singleton] at hs
      subst hs
      exact Or.inl (crawlSrc_crawled fs o hc)
  · next hnp =>
    split at h
    · cases hfs : findSourcesInDir fs o fuel p with
      | error e => rw [hfs] at h; cases h
      | ok l' =>
        rw [hfs] at h
        cases l' with
        | nil => cases h
        | cons s0 ss =>
          simp only [Except.ok.injEq] at h
          subst h
          intro s hs
          exact Or.inl (findSourcesInDir_crawled fs o _ _ _ hfs s hs)
    · simp only [Except.ok.injEq] at h
      subst h
      intro s hs
      simp only [List.mem_singleton] at hs
      subst hs
      exact Or.inr ⟨rfl, by simpa using hnp⟩

theorem createSourceList_ok {fuel : Nat} : ∀ (args : List Path) (srcs : List Src),
    createSourceList fs o fuel args = .ok srcs → ∀ s ∈ srcs, SrcOK fs o s := by
  intro args
  induction args with
  | nil => intro srcs h; simp only [createSourceList] at h; cases h; intro s hs; cases hs
  | cons p ps ih =>
    intro srcs h
    simp only [createSourceList] at h
    split at h
    · cases h
    · next l hl =>
      split at h
      · cases h
      · next more hm =>
        cases h
        intro s hs
        rw [List.mem_append] at hs
        rcases hs with hs | hs
        · exact sourcesOfArg_ok fs o hl s hs
        · exact ih _ hm s hs

theorem mem_addBases : ∀ (srcs : List Src) (acc : List Path) (b : Path),
    b ∈ addBases srcs acc ↔ b ∈ acc ∨ ∃ s ∈ srcs, s.base = some b := by
  intro srcs
  induction srcs with
  | nil => intro acc b; simp [addBases]
  | cons s ss ih =>
    intro acc b
    simp only [addBases]
    cases hb : s.base with
    | none =>
      simp only [ih]
      constructor
      · rintro (h | ⟨s', hs', hb'⟩)
        · exact Or.inl h
        · exact Or.inr ⟨s', by simp [hs'], hb'⟩
      · rintro (h | ⟨s', hs', hb'⟩)
        · exact Or.inl h
        · simp only [List.mem_cons] at hs'
          rcases hs' with rfl | hs'
          · rw [hb] at hb'; cases hb'
          · exact Or.inr ⟨s', hs', hb'⟩
    | some b0 =>
      simp only
      split
      · next hc =>
        rw [ih]
        constructor
        · rintro (h | ⟨s', hs', hb'⟩)
          · exact Or.inl h
          · exact Or.inr ⟨s', by simp [hs'], hb'⟩
        · rintro (h | ⟨s', hs', hb'⟩)
          · exact Or.inl h
          · simp only [List.mem_cons] at hs'
            rcases hs' with rfl | hs'
            · rw [hb] at hb'; cases hb'
              left; simpa using hc
            · exact Or.inr ⟨s', hs', hb'⟩
      · rw [ih]
        constructor
        · rintro (h | ⟨s', hs', hb'⟩)
          · rw [List.mem_append] at h
            rcases h with h | h
            · exact Or.inl h
            · simp only [List.mem_singleton] at h
              subst h
              exact Or.inr ⟨s, by simp, hb⟩
          · exact Or.inr ⟨s', by simp [hs'], hb'⟩
        · rintro (h | ⟨s', hs', hb'⟩)
          · exact Or.inl (by simp [h])
          · simp only [List.mem_cons] at hs'
            rcases hs' with rfl | hs'
            · rw [hb] at hb'; cases hb'
              left; simp
            · exact Or.inr ⟨s', hs', hb'⟩

theorem mem_searchRoots {srcs : List Src} {R : Path} :
    R ∈ searchRoots o srcs ↔ R ∈ o.mypyPath ∨ R = o.cwd ∨ ∃ s ∈ srcs, s.base = some R := by
  simp only [searchRoots, pythonPath, List.mem_append, List.mem_reverse, List.mem_cons, mem_addBases,
    List.not_mem_nil, false_or]

/-- every search root derived from crawled sources is a genuine base, provided the configured ones are -/
theorem searchRoots_good {srcs : List Src} (hok : ∀ s ∈ srcs, SrcOK fs o s) (hcfg : goodRoots fs o = true) :
    ∀ R ∈ searchRoots o srcs, crawlUpDir fs o R = .some [] R := by
  intro R hR
  rw [mem_searchRoots] at hR
  simp only [goodRoots, List.all_eq_true, List.mem_append, List.mem_singleton, goodRoot, beq_iff_eq] at hcfg
  rcases hR with h | h | ⟨s, hs, hb⟩
  · exact hcfg R (Or.inl h)
  · exact hcfg R (Or.inr h)
  · rcases hok s hs with hc | ⟨hn, _⟩
    · exact crawlUp_base_good fs o (crawled_some fs o hc hb)
    · rw [hn] at hb; cases hb

end Layout
