import MypyVerif.Proofs.LangSoundE
/-
Preservation, statement level (with the loop invariant taken from the checker's fixpoint frame), and the
induction on the fuel that ties expressions, argument lists, `__init__` bodies and statements together.
-/
namespace Lang

variable {P : Prog} {tm : Recs}

theorem stmt_zero : StmtOK P tm 0 := by
  intro k C Γ s r σ st _ _ _ _
  simp only [evalS]; exact sat_fail trivial

/-! ## accept_loop -/

/-- `loopIter` stops at a frame `L` that is a post-fixpoint of one pass, reached from the entry state through
    passes — each of which only widens what a store may contain -/
theorem loopIter_inv {decl : List Ty} {pass : Env → TC Pass}
    (hstep : ∀ L p, pass L = .ok p → ∀ (h : Heap) (σ : Store), StoreOK P h decl L σ → StoreOK P h decl p.next σ) :
    ∀ (i : Nat) (L0 : Env) (out : Pass), loopIter P decl pass i L0 = .ok out →
      ∃ L, pass L = .ok out ∧ envLe P decl out.next L = true ∧
        ∀ (h : Heap) (σ : Store), StoreOK P h decl L0 σ → StoreOK P h decl L σ := by
  intro i
  induction i with
  | zero => intro L0 out h; simp [loopIter] at h
  | succ i ih =>
    intro L0 out h
    simp only [loopIter, bind_ok] at h
    obtain ⟨p, hp, h⟩ := h
    split at h
    · obtain ⟨L, hp', hle, hreach⟩ := ih p.next out h
      exact ⟨L, hp', hle, fun hh σ s => hreach hh σ (hstep L0 p hp hh σ s)⟩
    · simp only [bind_ok, req_ok, pure_ok] at h
      obtain ⟨_, hle, hout⟩ := h
      subst hout
      exact ⟨L0, hp, hle, fun _ _ s => s⟩

/-- a statement without assignments leaves the locals as they are, however it ends -/
theorem evalS_noassign : ∀ (n : Nat) (s : Stmt) (σ : Store) (st : State), assignsLocals s = false →
    ∀ c st', evalS n P σ s st = (.ok c, st') → c.store = σ := by
  intro n
  induction n with
  | zero => intro s σ st _ c st' h; simp [evalS, M.fail] at h
  | succ n ih =>
    intro s σ st hna c st' h
    have lift : ∀ {α : Type} (m : M α) (f : α → M Ctl), (∀ a st1 c st', f a st1 = (.ok c, st') → c.store = σ) →
        ∀ st c st', liftE σ m f st = (.ok c, st') → c.store = σ := by
      intro α m f hf st c st' h
      unfold liftE at h
      cases hm : m st with
      | mk r st1 =>
        rw [hm] at h
        cases r with
        | ok a => exact hf a st1 c st' h
        | error e => cases e <;> simp at h <;> (obtain ⟨rfl, _⟩ := h; rfl)
    cases s with
    | pass => simp [evalS, M.pure] at h; obtain ⟨rfl, _⟩ := h; rfl
    | brk => simp [evalS, M.pure] at h; obtain ⟨rfl, _⟩ := h; rfl
    | cont => simp [evalS, M.pure] at h; obtain ⟨rfl, _⟩ := h; rfl
    | raise k => simp [evalS, M.pure] at h; obtain ⟨rfl, _⟩ := h; rfl
    | decl x e => simp [assignsLocals] at hna
    | assign x e => simp [assignsLocals] at hna
    | infer x e => simp [assignsLocals] at hna
    | expr e =>
      simp only [evalS] at h
      exact lift _ _ (fun a st1 c st' h => by simp [M.pure] at h; obtain ⟨rfl, _⟩ := h; rfl) st c st' h
    | ret e =>
      simp only [evalS] at h
      exact lift _ _ (fun a st1 c st' h => by simp [M.pure] at h; obtain ⟨rfl, _⟩ := h; rfl) st c st' h
    | setAttr o f e =>
      simp only [evalS] at h
      refine lift _ _ (fun a st1 c st' h => ?_) st c st' h
      refine lift _ _ (fun a2 st2 c st' h => ?_) st1 c st' h
      exact lift _ _ (fun a st1 c st' h => by simp [M.pure] at h; obtain ⟨rfl, _⟩ := h; rfl) st2 c st' h
    | ite cnd t e =>
      simp only [assignsLocals, Bool.or_eq_false_iff] at hna
      simp only [evalS] at h
      refine lift _ _ ?_ st c st' h
      clear h
      intro a0 st0 c st' h
      refine lift _ _ ?_ st0 c st' h
      clear h
      intro a st1 c st' h
      split at h
      · exact ih t σ st1 hna.1 c st' h
      · exact ih e σ st1 hna.2 c st' h
    | seq a b =>
      simp only [assignsLocals, Bool.or_eq_false_iff] at hna
      simp only [evalS, M.bind] at h
      cases ha : evalS n P σ a st with
      | mk r st1 =>
        rw [ha] at h
        cases r with
        | error e => simp at h
        | ok c1 =>
          have h1 := ih a σ st hna.1 c1 st1 ha
          cases c1 with
          | normal σ1 => simp only [Ctl.store] at h1; subst h1; exact ih b _ st1 hna.2 c st' h
          | ret v σ1 => simp [M.pure] at h; obtain ⟨rfl, _⟩ := h; exact h1
          | brk σ1 => simp [M.pure] at h; obtain ⟨rfl, _⟩ := h; exact h1
          | cont σ1 => simp [M.pure] at h; obtain ⟨rfl, _⟩ := h; exact h1
          | exc f σ1 => simp [M.pure] at h; obtain ⟨rfl, _⟩ := h; exact h1
    | «while» cnd b =>
      simp only [assignsLocals] at hna
      simp only [evalS] at h
      refine lift _ _ ?_ st c st' h
      clear h
      intro a0 st0 c st' h
      refine lift _ _ ?_ st0 c st' h
      clear h
      intro a st1 c st' h
      split at h
      · simp only [M.bind] at h
        cases hb : evalS n P σ b st1 with
        | mk r st2 =>
          rw [hb] at h
          cases r with
          | error e => simp at h
          | ok c1 =>
            have h1 := ih b σ st1 hna c1 st2 hb
            cases c1 with
            | normal σ1 =>
              simp only [Ctl.store] at h1; subst h1
              exact ih (.while cnd b) _ st2 (by simpa [assignsLocals] using hna) c st' h
            | cont σ1 =>
              simp only [Ctl.store] at h1; subst h1
              exact ih (.while cnd b) _ st2 (by simpa [assignsLocals] using hna) c st' h
            | brk σ1 => simp [M.pure] at h; obtain ⟨rfl, _⟩ := h; exact h1
            | ret v σ1 => simp [M.pure] at h; obtain ⟨rfl, _⟩ := h; exact h1
            | exc f σ1 => simp [M.pure] at h; obtain ⟨rfl, _⟩ := h; exact h1
      · simp [M.pure] at h; obtain ⟨rfl, _⟩ := h; rfl
    | tryS b kinds hd els fin hasFin =>
      simp only [assignsLocals, Bool.or_eq_false_iff] at hna
      obtain ⟨⟨⟨hb, hh⟩, he⟩, hf⟩ := hna
      simp only [evalS, M.bind] at h
      cases hbr : evalS n P σ b st with
      | mk r st1 =>
        rw [hbr] at h
        cases r with
        | error e => simp at h
        | ok c1 =>
          have h1 := ih b σ st hb c1 st1 hbr
          simp only at h
          cases h2r : tryStep (evalS n P) kinds hd els c1 st1 with
          | mk r2 st2 =>
            rw [h2r] at h
            cases r2 with
            | error e => simp at h
            | ok c2 =>
              have h2 : c2.store = σ := by
                unfold tryStep at h2r
                cases c1 with
                | normal σ1 => simp only [Ctl.store] at h1; subst h1; exact ih els _ st1 he c2 st2 h2r
                | ret v σ1 => simp [M.pure] at h2r; obtain ⟨rfl, _⟩ := h2r; exact h1
                | brk σ1 => simp [M.pure] at h2r; obtain ⟨rfl, _⟩ := h2r; exact h1
                | cont σ1 => simp [M.pure] at h2r; obtain ⟨rfl, _⟩ := h2r; exact h1
                | exc f σ1 =>
                  simp only [Ctl.store] at h1; subst h1
                  cases f with
                  | exc k =>
                    simp only at h2r
                    split at h2r
                    · exact ih hd _ st1 hh c2 st2 h2r
                    · simp [M.pure] at h2r; obtain ⟨rfl, _⟩ := h2r; rfl
                  | typeError => simp [M.pure] at h2r; obtain ⟨rfl, _⟩ := h2r; rfl
                  | attrError => simp [M.pure] at h2r; obtain ⟨rfl, _⟩ := h2r; rfl
                  | unbound => simp [M.pure] at h2r; obtain ⟨rfl, _⟩ := h2r; rfl
                  | stuck => simp [M.pure] at h2r; obtain ⟨rfl, _⟩ := h2r; rfl
                  | timeout => simp [M.pure] at h2r; obtain ⟨rfl, _⟩ := h2r; rfl
              simp only at h
              unfold finStep at h
              cases hasFin with
              | false => simp [M.pure] at h; obtain ⟨rfl, _⟩ := h; exact h2
              | true =>
                simp only [if_true, M.bind] at h
                rw [h2] at h
                cases hfr : evalS n P σ fin st2 with
                | mk r3 st3 =>
                  rw [hfr] at h
                  cases r3 with
                  | error e => simp at h
                  | ok c3 =>
                    have h3 := ih fin σ st2 hf c3 st3 hfr
                    cases c3 with
                    | normal σ3 =>
                      simp only [Ctl.store] at h3; subst h3
                      simp [M.pure] at h; obtain ⟨rfl, _⟩ := h
                      cases c2 <;> simp [Ctl.withStore, Ctl.store]
                    | ret v σ3 => simp [M.pure] at h; obtain ⟨rfl, _⟩ := h; exact h3
                    | brk σ3 => simp [M.pure] at h; obtain ⟨rfl, _⟩ := h; exact h3
                    | cont σ3 => simp [M.pure] at h; obtain ⟨rfl, _⟩ := h; exact h3
                    | exc f σ3 => simp [M.pure] at h; obtain ⟨rfl, _⟩ := h; exact h3

/-- what a `while` statement guarantees from the checker's fixpoint frame `L` -/
def WhileSpec (P : Prog) (C : Ctx) (L L' : Env) (rc : ERes) (rb : SRes) : State → Ctl → Prop :=
  fun st' ctl => match ctl with
    | .normal σ' => (∃ Γe, pushMap L' true rc.no = some Γe ∧ StoreOK P st'.heap C.decl Γe σ') ∨
                    (∃ Γb, Γb ∈ rb.brks ∧ StoreOK P st'.heap C.decl Γb σ')
    | .ret v σ' => hasTy P st'.heap v C.ret ∧ ∃ Γ', Γ' ∈ rb.rets ∧ StoreOK P st'.heap C.decl Γ' σ'
    | .exc f σ' => Benign f ∧ ∃ Γ', Γ' ∈ L :: rb.excs ∧ StoreOK P st'.heap C.decl Γ' σ'
    | _ => False

/-- the loop itself, from the checker's fixpoint frame `L`: by induction on the fuel -/
theorem while_ok (t : Typed P tm) (w : WF P) {n : Nat} (ihe : ∀ m, m ≤ n → ExprOK P tm m) (ihs : ∀ m, m ≤ n → StmtOK P tm m)
    {k : Nat} {C : Ctx} (hP : C.P = P) {c : Expr} {b : Stmt} {L L' : Env} {rc : ERes} {rb : SRes}
    {m1 m2 : Option Env × Bool}
    (hrc : tcE k C L false true c = .ok rc)
    (hrb : tcS k C (pushMap L false rc.yes) b = .ok rb)
    (hm1 : mergeEnvs P C.decl L [rb.out, pushMap L false rc.no] = .ok m1)
    (hm2 : mergeEnvs P C.decl L (some L :: m1.1 :: rb.conts.map some) = .ok m2) (hL' : m2.1 = some L')
    (hle : envLe P C.decl L' L = true)
    (hrecs : ∀ x, x ∈ rc.recs ++ rb.recs → x ∈ tm) :
    ∀ m, m ≤ n + 1 → ∀ (σ : Store) (st : State), StoreOK P st.heap C.decl L σ →
      Sat P tm st (evalS m P σ (.while c b)) (WhileSpec P C L L' rc rb) := by
  intro m
  induction m with
  | zero => intro _ σ st _; simp only [evalS]; exact sat_fail trivial
  | succ m ihm =>
    intro hm σ st hst
    have hmn : m ≤ n := by omega
    simp only [evalS]
    refine sat_liftE (ihe m hmn k C L false true c rc σ st hP hrc (fun x hx => hrecs x (List.mem_append_left _ hx)) hst) ?_
      (fun st1 e e1 hb => ⟨hb, L, by simp, hst.ext e1⟩)
    intro st0 v e0 hv
    refine sat_liftE (sat_truthOf t (ihs m hmn) hv.1) ?_
      (fun st1 e e01 hb => ⟨hb, L, by simp, (hst.ext e0).ext e01⟩)
    intro st1 tv e01 htv
    have e1 := e0.trans e01
    cases tv with
    | true =>
      simp only [if_true]
      obtain ⟨Γt, hΓt, hstt⟩ := ((hv.2.1 htv).ext e01).push false (hst.ext e1)
      rw [hΓt] at hrb
      refine sat_bind (ihs m hmn k C Γt b rb σ st1 hP hrb (fun x hx => hrecs x (List.mem_append_right _ hx)) hstt) ?_
      intro st2 ctl e2 hctl
      cases ctl with
      | ret u σ' => exact sat_pure hctl
      | exc f σ' =>
        obtain ⟨hb, Γx, hΓx, hstx⟩ := hctl
        exact sat_pure ⟨hb, Γx, List.mem_cons_of_mem _ hΓx, hstx⟩
      | normal σ' =>
        obtain ⟨Γb, hΓb, hstb⟩ := hctl
        obtain ⟨Γ1, hΓ1, hst1⟩ := mergeEnvs_sound w hm1 (b := Γb) (by rw [← hΓb]; simp) hstb
        obtain ⟨Γ2, hΓ2, hst2⟩ := mergeEnvs_sound w hm2 (b := Γ1) (by rw [← hΓ1]; simp) hst1
        rw [hL'] at hΓ2; cases hΓ2
        exact ihm (by omega) σ' st2 (envLe_sound w hle hst2)
      | cont σ' =>
        obtain ⟨Γc, hΓc, hstc⟩ := hctl
        obtain ⟨Γ2, hΓ2, hst2⟩ := mergeEnvs_sound w hm2 (b := Γc)
          (by simp only [List.mem_cons, List.mem_map]; right; right; exact ⟨Γc, hΓc, rfl⟩) hstc
        rw [hL'] at hΓ2; cases hΓ2
        exact ihm (by omega) σ' st2 (envLe_sound w hle hst2)
      | brk σ' =>
        obtain ⟨Γb, hΓb, hstb⟩ := hctl
        exact sat_pure (Or.inr ⟨Γb, hΓb, hstb⟩)
    | false =>
      simp only [Bool.false_eq_true, if_false]
      apply sat_pure
      obtain ⟨Γ2, hΓ2, hst2⟩ := mergeEnvs_sound w hm2 (b := L) (by simp) (hst.ext e1)
      rw [hL'] at hΓ2; cases hΓ2
      obtain ⟨Γe, hΓe, hste⟩ := ((hv.2.2 htv).ext e01).push true hst2
      exact Or.inl ⟨Γe, hΓe, hste⟩

theorem envsLe_sound {P : Prog} (w : WF P) {decl : List Ty} {l : List Env} {H Γ : Env} (hl : envsLe P decl l H = true)
    (hΓ : Γ ∈ l) {h : Heap} {σ : Store} (s : StoreOK P h decl Γ σ) : StoreOK P h decl H σ := by
  simp only [envsLe, List.all_eq_true] at hl
  exact envLe_sound w (hl Γ hΓ) s

theorem M_bind_assoc {α β γ : Type} (m : M α) (f : α → M β) (g : β → M γ) :
    M.bind (M.bind m f) g = M.bind m (fun a => M.bind (f a) g) := by
  funext st
  simp only [M.bind]
  cases m st with
  | mk r st1 => cases r <;> rfl

theorem sat_strengthen {α : Type} {st : State} {m : M α} {Q : State → α → Prop} {R : α → Prop}
    (h : Sat P tm st m Q) (hr : ∀ a st', m st = (.ok a, st') → R a) : Sat P tm st m (fun st' a => Q st' a ∧ R a) := by
  intro hi
  have p := h hi
  cases hm : m st with
  | mk r st1 =>
    rw [hm] at p
    cases r with
    | error e => exact p
    | ok a => exact ⟨p.1, p.2.1, p.2.2, hr a st1 hm⟩

/-- the try statement: handler state and finally state are the checker's (built from assignment snapshots); that
    they cover every state an exception / return / jump really occurs in is what the `hole 5/6` checks of `tc`
    establish -/
theorem try_case (t : Typed P tm) {n : Nat} (ihn : EvalOK P tm n) {k : Nat} {C : Ctx} (hP : C.P = P) {Γ : Env}
    {b : Stmt} {kinds : List Nat} {hd els fin : Stmt} {hasFin : Bool} {r : SRes} {σ : Store} {st : State}
    (hst : StoreOK P st.heap C.decl Γ σ)
    (htc : tcS (k + 1) C (some Γ) (.tryS b kinds hd els fin hasFin) = .ok r) (hrecs : ∀ x ∈ r.recs, x ∈ tm) :
    Sat P tm st (evalS (n + 1) P σ (.tryS b kinds hd els fin hasFin)) (StmtSpec P C r) := by
  subst hP
  have w := t.wf
  simp only [tcS, bind_ok, req_ok] at htc
  obtain ⟨_, _, rb, hrb, mh, hmh, htc⟩ := htc
  cases hH : mh.1 with
  | none => rw [hH] at htc; simp at htc
  | some H =>
  rw [hH] at htc
  simp only [bind_ok, req_ok] at htc
  obtain ⟨_, hexH, rh, hrh, re, hre, mN, hmN, htc⟩ := htc
  -- body, then handler / else: everything that can come out, before any finally clause
  have stage2 : (∀ x ∈ rb.recs ++ rh.recs ++ re.recs, x ∈ tm) →
      Sat C.P tm st (M.bind (evalS n C.P σ b) (tryStep (evalS n C.P) kinds hd els))
        (StmtSpec C.P C { ((rb.join rh none).join re none) with out := mN.1 }) := by
    intro hr3
    refine sat_bind (ihn.stmt k C Γ b rb σ st rfl hrb
      (fun x hx => hr3 x (List.mem_append_left _ (List.mem_append_left _ hx))) hst) ?_
    intro st1 c1 e1 hc1
    unfold tryStep
    simp only [SRes.join]
    cases c1 with
    | normal σ1 =>
      obtain ⟨Γb, hΓb, hstb⟩ := hc1
      rw [hΓb] at hre
      refine sat_mono (ihn.stmt k C Γb els re σ1 st1 rfl hre (fun x hx => hr3 x (List.mem_append_right _ hx)) hstb) ?_
      intro st2 c2 _ hc2
      cases c2 with
      | normal σ2 =>
        obtain ⟨Γe, hΓe, hste⟩ := hc2
        exact mergeEnvs_sound w hmN (b := Γe) (by rw [← hΓe]; simp) hste
      | ret u σ2 => obtain ⟨hu, Γx, hx, hsx⟩ := hc2; exact ⟨hu, Γx, List.mem_append_right _ hx, hsx⟩
      | exc f σ2 => obtain ⟨hu, Γx, hx, hsx⟩ := hc2; exact ⟨hu, Γx, List.mem_append_right _ hx, hsx⟩
      | brk σ2 => obtain ⟨Γx, hx, hsx⟩ := hc2; exact ⟨Γx, List.mem_append_right _ hx, hsx⟩
      | cont σ2 => obtain ⟨Γx, hx, hsx⟩ := hc2; exact ⟨Γx, List.mem_append_right _ hx, hsx⟩
    | ret u σ1 =>
      obtain ⟨hu, Γx, hx, hsx⟩ := hc1
      exact sat_pure ⟨hu, Γx, List.mem_append_left _ (List.mem_append_left _ hx), hsx⟩
    | brk σ1 =>
      obtain ⟨Γx, hx, hsx⟩ := hc1
      exact sat_pure ⟨Γx, List.mem_append_left _ (List.mem_append_left _ hx), hsx⟩
    | cont σ1 =>
      obtain ⟨Γx, hx, hsx⟩ := hc1
      exact sat_pure ⟨Γx, List.mem_append_left _ (List.mem_append_left _ hx), hsx⟩
    | exc f σ1 =>
      obtain ⟨hu, Γx, hx, hsx⟩ := hc1
      have pass : Sat C.P tm st1 (M.pure (Ctl.exc f σ1))
          (StmtSpec C.P C { out := mN.1, recs := rb.recs ++ rh.recs ++ re.recs, brks := rb.brks ++ rh.brks ++ re.brks,
                            conts := rb.conts ++ rh.conts ++ re.conts, excs := rb.excs ++ rh.excs ++ re.excs,
                            rets := rb.rets ++ rh.rets ++ re.rets, snaps := rb.snaps ++ rh.snaps ++ re.snaps }) :=
        sat_pure ⟨hu, Γx, List.mem_append_left _ (List.mem_append_left _ hx), hsx⟩
      cases f with
      | exc kx =>
        simp only
        split
        · -- caught: the handler starts from H, which covers the state at the raise point
          have hstH := envsLe_sound w hexH hx hsx
          refine sat_mono (ihn.stmt k C H hd rh σ1 st1 rfl hrh
            (fun x hx => hr3 x (List.mem_append_left _ (List.mem_append_right _ hx))) hstH) ?_
          intro st2 c2 _ hc2
          cases c2 with
          | normal σ2 =>
            obtain ⟨Γe, hΓe, hste⟩ := hc2
            exact mergeEnvs_sound w hmN (b := Γe) (by rw [← hΓe]; simp) hste
          | ret u σ2 =>
            obtain ⟨hu, Γy, hy, hsy⟩ := hc2
            exact ⟨hu, Γy, List.mem_append_left _ (List.mem_append_right _ hy), hsy⟩
          | exc f σ2 =>
            obtain ⟨hu, Γy, hy, hsy⟩ := hc2
            exact ⟨hu, Γy, List.mem_append_left _ (List.mem_append_right _ hy), hsy⟩
          | brk σ2 => obtain ⟨Γy, hy, hsy⟩ := hc2; exact ⟨Γy, List.mem_append_left _ (List.mem_append_right _ hy), hsy⟩
          | cont σ2 => obtain ⟨Γy, hy, hsy⟩ := hc2; exact ⟨Γy, List.mem_append_left _ (List.mem_append_right _ hy), hsy⟩
        · exact pass
      | typeError => exact pass
      | attrError => exact pass
      | unbound => exact pass
      | stuck => exact pass
      | timeout => exact pass
  cases hasFin with
  | false =>
    simp only [Bool.not_false, if_true, pure_ok] at htc
    subst htc
    simp only [evalS]
    rw [← M_bind_assoc (evalS n C.P σ b) (tryStep (evalS n C.P) kinds hd els) (finStep (evalS n C.P) fin false)]
    have : (finStep (evalS n C.P) fin false) = fun c2 => M.pure c2 := by funext c2; simp [finStep]
    rw [this]
    refine sat_bind (stage2 (by simpa [SRes.join] using hrecs)) ?_
    intro st2 c2 _ hc2
    exact sat_pure hc2
  | true =>
    simp only [Bool.not_true, Bool.false_eq_true, if_false, bind_ok] at htc
    obtain ⟨mA, hmA, htc⟩ := htc
    cases hA : mA.1 with
    | none => rw [hA] at htc; simp at htc
    | some A =>
    rw [hA] at htc
    simp only [bind_ok, req_ok, pure_ok] at htc
    obtain ⟨_, hcov, fA, hfA, _, hjump, fN, hfN, hr⟩ := htc
    subst hr
    simp only [SRes.join] at hrecs hcov hjump hfN hmA ⊢
    simp only [evalS]
    rw [← M_bind_assoc (evalS n C.P σ b) (tryStep (evalS n C.P) kinds hd els) (finStep (evalS n C.P) fin true)]
    refine sat_bind (stage2 (fun x hx => hrecs x (List.mem_append_left _ (List.mem_append_left _ (by simpa [SRes.join] using hx))))) ?_
    intro st2 c2 e2 hc2
    simp only [SRes.join] at hc2
    unfold finStep
    simp only [if_true]
    -- the finally clause from the abnormal state A
    have abnormal : ∀ Γx, (Γx ∈ rb.excs ++ rh.excs ++ re.excs ∨ Γx ∈ rb.rets ++ rh.rets ++ re.rets ∨
          Γx ∈ rb.brks ++ rh.brks ++ re.brks ∨ Γx ∈ rb.conts ++ rh.conts ++ re.conts) →
        StoreOK C.P st2.heap C.decl Γx c2.store → Sat C.P tm st2 (evalS n C.P c2.store fin) (StmtSpec C.P C fA) := by
      intro Γx hx hsx
      have hbig : Γx ∈ (rb.excs ++ rh.excs ++ re.excs) ++ (rb.rets ++ rh.rets ++ re.rets) ++
          (rb.brks ++ rh.brks ++ re.brks) ++ (rb.conts ++ rh.conts ++ re.conts) := by
        rcases hx with h | h | h | h
        · exact List.mem_append_left _ (List.mem_append_left _ (List.mem_append_left _ h))
        · exact List.mem_append_left _ (List.mem_append_left _ (List.mem_append_right _ h))
        · exact List.mem_append_left _ (List.mem_append_right _ h)
        · exact List.mem_append_right _ h
      exact ihn.stmt k C A fin fA c2.store st2 rfl hfA
        (fun x hx => hrecs x (List.mem_append_left _ (List.mem_append_right _ hx))) (envsLe_sound w hcov hbig hsx)
    cases c2 with
    | normal σ2 =>
      obtain ⟨ΓN, hΓN, hstN⟩ := hc2
      simp only at hΓN
      rw [hΓN] at hfN
      refine sat_bind (ihn.stmt k C ΓN fin fN σ2 st2 rfl hfN (fun x hx => hrecs x (List.mem_append_right _ hx)) hstN) ?_
      intro st3 c3 _ hc3
      cases c3 with
      | normal σ3 => exact sat_pure hc3
      | ret u σ3 =>
        obtain ⟨hu, Γy, hy, hsy⟩ := hc3
        exact sat_pure ⟨hu, Γy, List.mem_append_right _ hy, hsy⟩
      | exc f σ3 =>
        obtain ⟨hu, Γy, hy, hsy⟩ := hc3
        exact sat_pure ⟨hu, Γy, List.mem_append_right _ hy, hsy⟩
      | brk σ3 => obtain ⟨Γy, hy, hsy⟩ := hc3; exact sat_pure ⟨Γy, List.mem_append_right _ hy, hsy⟩
      | cont σ3 => obtain ⟨Γy, hy, hsy⟩ := hc3; exact sat_pure ⟨Γy, List.mem_append_right _ hy, hsy⟩
    | ret u σ2 =>
      obtain ⟨hu, Γx, hx, hsx⟩ := hc2
      refine sat_bind (abnormal Γx (Or.inr (Or.inl hx)) hsx) ?_
      intro st3 c3 e3 hc3
      cases c3 with
      | normal σ3 =>
        obtain ⟨ΓA, hΓA, hsA⟩ := hc3
        exact sat_pure ⟨hasTy_ext e3 hu, ΓA, by simp [optList, hΓA], hsA⟩
      | ret v σ3 =>
        obtain ⟨hv, Γy, hy, hsy⟩ := hc3
        exact sat_pure ⟨hv, Γy, List.mem_append_left _ (List.mem_append_right _ hy), hsy⟩
      | exc f σ3 =>
        obtain ⟨hv, Γy, hy, hsy⟩ := hc3
        exact sat_pure ⟨hv, Γy, List.mem_append_left _ (List.mem_append_right _ hy), hsy⟩
      | brk σ3 => obtain ⟨Γy, hy, hsy⟩ := hc3; exact sat_pure ⟨Γy, List.mem_append_left _ (List.mem_append_right _ hy), hsy⟩
      | cont σ3 => obtain ⟨Γy, hy, hsy⟩ := hc3; exact sat_pure ⟨Γy, List.mem_append_left _ (List.mem_append_right _ hy), hsy⟩
    | exc f σ2 =>
      obtain ⟨hu, Γx, hx, hsx⟩ := hc2
      refine sat_bind (abnormal Γx (Or.inl hx) hsx) ?_
      intro st3 c3 e3 hc3
      cases c3 with
      | normal σ3 =>
        obtain ⟨ΓA, hΓA, hsA⟩ := hc3
        exact sat_pure ⟨hu, ΓA, by simp [optList, hΓA], hsA⟩
      | ret v σ3 =>
        obtain ⟨hv, Γy, hy, hsy⟩ := hc3
        exact sat_pure ⟨hv, Γy, List.mem_append_left _ (List.mem_append_right _ hy), hsy⟩
      | exc g σ3 =>
        obtain ⟨hv, Γy, hy, hsy⟩ := hc3
        exact sat_pure ⟨hv, Γy, List.mem_append_left _ (List.mem_append_right _ hy), hsy⟩
      | brk σ3 => obtain ⟨Γy, hy, hsy⟩ := hc3; exact sat_pure ⟨Γy, List.mem_append_left _ (List.mem_append_right _ hy), hsy⟩
      | cont σ3 => obtain ⟨Γy, hy, hsy⟩ := hc3; exact sat_pure ⟨Γy, List.mem_append_left _ (List.mem_append_right _ hy), hsy⟩
    | brk σ2 =>
      obtain ⟨Γx, hx, hsx⟩ := hc2
      -- a pending break keeps the state recorded at the jump: the clause assigns no local (hole 6 otherwise)
      have hna : assignsLocals fin = false := by
        simp only [Bool.or_eq_true, Bool.and_eq_true, List.isEmpty_iff, Bool.not_eq_true'] at hjump
        rcases hjump with ⟨h1, _⟩ | h1
        · rw [h1] at hx; simp at hx
        · exact h1
      refine sat_bind (sat_strengthen (abnormal Γx (Or.inr (Or.inr (Or.inl hx))) hsx)
        (fun c st' h => evalS_noassign n fin σ2 st2 hna c st' h)) ?_
      intro st3 c3 e3 hc3
      obtain ⟨hc3, hstore⟩ := hc3
      cases c3 with
      | normal σ3 =>
        simp only [Ctl.store] at hstore; subst hstore
        exact sat_pure ⟨Γx, List.mem_append_left _ (List.mem_append_left _ hx), hsx.ext e3⟩
      | ret v σ3 =>
        obtain ⟨hv, Γy, hy, hsy⟩ := hc3
        exact sat_pure ⟨hv, Γy, List.mem_append_left _ (List.mem_append_right _ hy), hsy⟩
      | exc g σ3 =>
        obtain ⟨hv, Γy, hy, hsy⟩ := hc3
        exact sat_pure ⟨hv, Γy, List.mem_append_left _ (List.mem_append_right _ hy), hsy⟩
      | brk σ3 => obtain ⟨Γy, hy, hsy⟩ := hc3; exact sat_pure ⟨Γy, List.mem_append_left _ (List.mem_append_right _ hy), hsy⟩
      | cont σ3 => obtain ⟨Γy, hy, hsy⟩ := hc3; exact sat_pure ⟨Γy, List.mem_append_left _ (List.mem_append_right _ hy), hsy⟩
    | cont σ2 =>
      obtain ⟨Γx, hx, hsx⟩ := hc2
      have hna : assignsLocals fin = false := by
        simp only [Bool.or_eq_true, Bool.and_eq_true, List.isEmpty_iff, Bool.not_eq_true'] at hjump
        rcases hjump with ⟨_, h1⟩ | h1
        · rw [h1] at hx; simp at hx
        · exact h1
      refine sat_bind (sat_strengthen (abnormal Γx (Or.inr (Or.inr (Or.inr hx))) hsx)
        (fun c st' h => evalS_noassign n fin σ2 st2 hna c st' h)) ?_
      intro st3 c3 e3 hc3
      obtain ⟨hc3, hstore⟩ := hc3
      cases c3 with
      | normal σ3 =>
        simp only [Ctl.store] at hstore; subst hstore
        exact sat_pure ⟨Γx, List.mem_append_left _ (List.mem_append_left _ hx), hsx.ext e3⟩
      | ret v σ3 =>
        obtain ⟨hv, Γy, hy, hsy⟩ := hc3
        exact sat_pure ⟨hv, Γy, List.mem_append_left _ (List.mem_append_right _ hy), hsy⟩
      | exc g σ3 =>
        obtain ⟨hv, Γy, hy, hsy⟩ := hc3
        exact sat_pure ⟨hv, Γy, List.mem_append_left _ (List.mem_append_right _ hy), hsy⟩
      | brk σ3 => obtain ⟨Γy, hy, hsy⟩ := hc3; exact sat_pure ⟨Γy, List.mem_append_left _ (List.mem_append_right _ hy), hsy⟩
      | cont σ3 => obtain ⟨Γy, hy, hsy⟩ := hc3; exact sat_pure ⟨Γy, List.mem_append_left _ (List.mem_append_right _ hy), hsy⟩

/-! ## One step of the induction on the fuel: statements -/

theorem stmt_step (t : Typed P tm) {n : Nat} (ih : ∀ m, m ≤ n → EvalOK P tm m) : StmtOK P tm (n + 1) := by
  intro k C Γ s r σ st hP htc hrecs hst
  subst hP
  have w := t.wf
  have ihn := ih n (Nat.le_refl n)
  cases k with
  | zero => simp [tcS] at htc
  | succ k =>
  cases s with
  | pass =>
    simp only [tcS, pure_ok] at htc; subst htc
    simp only [evalS]; exact sat_pure ⟨Γ, rfl, hst⟩
  | brk =>
    simp only [tcS, pure_ok] at htc; subst htc
    simp only [evalS]; exact sat_pure ⟨Γ, by simp, hst⟩
  | cont =>
    simp only [tcS, pure_ok] at htc; subst htc
    simp only [evalS]; exact sat_pure ⟨Γ, by simp, hst⟩
  | raise kx =>
    simp only [tcS, pure_ok] at htc; subst htc
    simp only [evalS]; exact sat_pure ⟨trivial, Γ, by simp, hst⟩
  | decl x e =>
    simp only [tcS] at htc
    cases hx : C.decl[x]? with
    | none => rw [hx] at htc; simp at htc
    | some Tx =>
      rw [hx] at htc
      simp only [bind_ok, req_ok, pure_ok] at htc
      obtain ⟨_, hnone, r0, hr0, _, hsub, hr⟩ := htc
      subst hr
      simp only [evalS]
      refine sat_liftE (ihn.expr k C Γ false false e r0 σ st rfl hr0 hrecs hst) ?_
        (fun st1 e e1 hb => ⟨hb, Γ, by simp, hst.ext e1⟩)
      intro st1 v e1 hv
      apply sat_pure
      refine ⟨Γ, rfl, (hst.ext e1).declare hx ?_ (subTy_sound w hsub hv.1)⟩
      cases hl : lookup x Γ with
      | none => rfl
      | some _ => rw [hl] at hnone; simp at hnone
  | infer x e =>
    simp only [tcS] at htc
    cases hx : C.decl[x]? with
    | none => rw [hx] at htc; simp at htc
    | some Tx =>
      rw [hx] at htc
      simp only [bind_ok, req_ok, pure_ok] at htc
      obtain ⟨_, hnone, r0, hr0, _, hsub, hr⟩ := htc
      subst hr
      simp only [Bool.and_eq_true] at hsub
      simp only [evalS]
      refine sat_liftE (ihn.expr k C Γ false false e r0 σ st rfl hr0 hrecs hst) ?_
        (fun st1 e e1 hb => ⟨hb, Γ, by simp, hst.ext e1⟩)
      intro st1 v e1 hv
      apply sat_pure
      refine ⟨Γ, rfl, (hst.ext e1).declare hx ?_ (subTy_sound w hsub.1.2 hv.1)⟩
      cases hl : lookup x Γ with
      | none => rfl
      | some _ => rw [hl] at hnone; simp at hnone
  | assign x e =>
    simp only [tcS] at htc
    cases hx : C.decl[x]? with
    | none => rw [hx] at htc; simp at htc
    | some Tx =>
      rw [hx] at htc
      simp only [bind_ok, req_ok, pure_ok] at htc
      obtain ⟨r0, hr0, _, _, hr⟩ := htc
      subst hr
      simp only [evalS]
      refine sat_liftE (ihn.expr k C Γ false false e r0 σ st rfl hr0 hrecs hst) ?_
        (fun st1 e e1 hb => ⟨hb, Γ, by simp, hst.ext e1⟩)
      intro st1 v e1 hv
      exact sat_pure ⟨_, rfl, (hst.ext e1).assign hv.1⟩
  | setAttr o f e =>
    simp only [tcS, bind_ok, req_ok] at htc
    obtain ⟨_, _, ro, hro, re, hre, _, _, ts, hts, htc⟩ := htc
    split at htc
    · next hall =>
      simp only [pure_ok] at htc; subst htc
      simp only [evalS]
      refine sat_liftE (ihn.expr k C Γ false false e re σ st rfl hre (fun x hx => hrecs x (List.mem_append_right _ hx)) hst) ?_
        (fun st1 e e1 hb => ⟨hb, Γ, by simp, hst.ext e1⟩)
      intro st1 v e1 hv
      refine sat_liftE (ihn.expr k C Γ false false o ro σ st1 rfl hro (fun x hx => hrecs x (List.mem_append_left _ hx)) (hst.ext e1)) ?_
        (fun st2 e e2 hb => ⟨hb, Γ, by simp, (hst.ext e1).ext e2⟩)
      intro st2 ov e2 hov
      simp only [List.all_eq_true] at hall
      refine sat_liftE (sat_putAttr w hov.1 hts hall (hasTy_ext e2 hv.1)) ?_
        (fun st3 e e3 hb => ⟨hb, Γ, by simp, ((hst.ext e1).ext e2).ext e3⟩)
      intro st3 _ e3 _
      exact sat_pure ⟨Γ, rfl, ((hst.ext e1).ext e2).ext e3⟩
    · split at htc <;> cases htc
  | expr e =>
    simp only [tcS, bind_ok, pure_ok] at htc
    obtain ⟨r0, hr0, hr⟩ := htc
    subst hr
    simp only [evalS]
    refine sat_liftE (ihn.expr k C Γ true false e r0 σ st rfl hr0 hrecs hst) ?_
      (fun st1 e e1 hb => ⟨hb, Γ, by simp, hst.ext e1⟩)
    intro st1 v e1 _
    exact sat_pure ⟨Γ, rfl, hst.ext e1⟩
  | ret e =>
    simp only [tcS, bind_ok, req_ok, pure_ok] at htc
    obtain ⟨r0, hr0, _, hsub, hr⟩ := htc
    subst hr
    simp only [evalS]
    refine sat_liftE (ihn.expr k C Γ _ false e r0 σ st rfl hr0 hrecs hst) ?_
      (fun st1 e e1 hb => ⟨hb, Γ, by simp, hst.ext e1⟩)
    intro st1 v e1 hv
    exact sat_pure ⟨subTy_sound w hsub hv.1, Γ, by simp, hst.ext e1⟩
  | ite c tb eb =>
    simp only [tcS, bind_ok, req_ok, pure_ok] at htc
    obtain ⟨rc, hrc, _, _, rt, hrt, re, hre, m, hm, hr⟩ := htc
    subst hr
    simp only [SRes.join] at hrecs ⊢
    simp only [evalS]
    refine sat_liftE (ihn.expr k C Γ false true c rc σ st rfl hrc
      (fun x hx => hrecs x (List.mem_append_left _ hx)) hst) ?_
      (fun st1 e e1 hb => ⟨hb, Γ, by simp, hst.ext e1⟩)
    intro st0 v e0 hv
    refine sat_liftE (sat_truthOf t ihn.stmt hv.1) ?_
      (fun st1 e e01 hb => ⟨hb, Γ, by simp, (hst.ext e0).ext e01⟩)
    intro st1 tv e01 htv
    have e1 := e0.trans e01
    cases tv with
    | true =>
      simp only [if_true]
      obtain ⟨Γt, hΓt, hstt⟩ := ((hv.2.1 htv).ext e01).push false (hst.ext e1)
      rw [hΓt] at hrt
      refine sat_mono (ihn.stmt k C Γt tb rt σ st1 rfl hrt
        (fun x hx => hrecs x (List.mem_append_right _ (List.mem_append_left _ hx))) hstt) ?_
      intro st2 ctl _ hctl
      cases ctl with
      | ret u σ' => obtain ⟨hu, Γb, hΓb, hstb⟩ := hctl; exact ⟨hu, Γb, List.mem_append_left _ hΓb, hstb⟩
      | exc f σ' =>
        obtain ⟨hu, Γb, hΓb, hstb⟩ := hctl
        exact ⟨hu, Γb, List.mem_cons_of_mem _ (List.mem_append_left _ hΓb), hstb⟩
      | normal σ' =>
        obtain ⟨Γb, hΓb, hstb⟩ := hctl
        exact mergeEnvs_sound w hm (b := Γb) (by rw [← hΓb]; simp) hstb
      | brk σ' => obtain ⟨Γb, hΓb, hstb⟩ := hctl; exact ⟨Γb, List.mem_append_left _ hΓb, hstb⟩
      | cont σ' => obtain ⟨Γb, hΓb, hstb⟩ := hctl; exact ⟨Γb, List.mem_append_left _ hΓb, hstb⟩
    | false =>
      simp only [Bool.false_eq_true, if_false]
      obtain ⟨Γe, hΓe, hste⟩ := ((hv.2.2 htv).ext e01).push false (hst.ext e1)
      rw [hΓe] at hre
      refine sat_mono (ihn.stmt k C Γe eb re σ st1 rfl hre
        (fun x hx => hrecs x (List.mem_append_right _ (List.mem_append_right _ hx))) hste) ?_
      intro st2 ctl _ hctl
      cases ctl with
      | ret u σ' => obtain ⟨hu, Γb, hΓb, hstb⟩ := hctl; exact ⟨hu, Γb, List.mem_append_right _ hΓb, hstb⟩
      | exc f σ' =>
        obtain ⟨hu, Γb, hΓb, hstb⟩ := hctl
        exact ⟨hu, Γb, List.mem_cons_of_mem _ (List.mem_append_right _ hΓb), hstb⟩
      | normal σ' =>
        obtain ⟨Γb, hΓb, hstb⟩ := hctl
        exact mergeEnvs_sound w hm (b := Γb) (by rw [← hΓb]; simp) hstb
      | brk σ' => obtain ⟨Γb, hΓb, hstb⟩ := hctl; exact ⟨Γb, List.mem_append_right _ hΓb, hstb⟩
      | cont σ' => obtain ⟨Γb, hΓb, hstb⟩ := hctl; exact ⟨Γb, List.mem_append_right _ hΓb, hstb⟩
  | «while» c b =>
    simp only [tcS, bind_ok, pure_ok] at htc
    obtain ⟨p, hloop, m, hm, hr⟩ := htc
    subst hr
    -- every pass only widens the loop frame
    have hstep : ∀ L p, (do
          let rc ← tcE k C L false true c
          req (rc.ty == [Atom.bool] || isTruthVar c) (TcErr.unsupported 3)
          let rb ← tcS k C (pushMap L false rc.yes) b
          let m1 ← mergeEnvs C.P C.decl L [rb.out, pushMap L false rc.no]
          let m2 ← mergeEnvs C.P C.decl L (some L :: m1.1 :: rb.conts.map some)
          match m2.1 with
          | none => Except.error (TcErr.stuck 5)
          | some L' => pure ({ next := L', changed := m2.2, exit := pushMap L' true rc.no, body := rb,
                               recs := rc.recs ++ rb.recs, head := L } : Pass)) = .ok p →
        ∀ (h : Heap) (σ : Store), StoreOK C.P h C.decl L σ → StoreOK C.P h C.decl p.next σ := by
      intro L p hp h σ s
      simp only [bind_ok, req_ok] at hp
      obtain ⟨rc, _, _, _, rb, _, m1, _, m2, hm2, hp⟩ := hp
      cases hL' : m2.1 with
      | none => rw [hL'] at hp; simp at hp
      | some L' =>
        rw [hL'] at hp; simp only [pure_ok] at hp; subst hp
        obtain ⟨Γ2, hΓ2, hst2⟩ := mergeEnvs_sound w hm2 (b := L) (by simp) s
        rw [hL'] at hΓ2; cases hΓ2; exact hst2
    obtain ⟨L, hp, hle, hreach⟩ := loopIter_inv hstep 4 Γ p hloop
    simp only [bind_ok, req_ok] at hp
    obtain ⟨rc, hrc, _, _, rb, hrb, m1, hm1, m2, hm2, hp⟩ := hp
    cases hL' : m2.1 with
    | none => rw [hL'] at hp; simp at hp
    | some L' =>
      rw [hL'] at hp; simp only [pure_ok] at hp; subst hp
      simp only at hle hm hrecs
      have hloop := while_ok t w (fun m hm => (ih m hm).expr) (fun m hm => (ih m hm).stmt) rfl hrc hrb hm1 hm2 hL' hle
        hrecs (n + 1) (Nat.le_refl _) σ st (hreach st.heap σ hst)
      refine sat_mono hloop ?_
      intro st2 ctl _ hctl
      cases ctl with
      | ret u σ' => exact hctl
      | exc f σ' => exact hctl
      | normal σ' =>
        rcases hctl with ⟨Γe, hΓe, hste⟩ | ⟨Γb, hΓb, hstb⟩
        · exact mergeEnvs_sound w hm (b := Γe) (by rw [← hΓe]; simp) hste
        · exact mergeEnvs_sound w hm (b := Γb)
            (by simp only [List.mem_cons, List.mem_map]; right; exact ⟨Γb, hΓb, rfl⟩) hstb
      | brk σ' => exact hctl.elim
      | cont σ' => exact hctl.elim
  | seq a b =>
    simp only [tcS, bind_ok, pure_ok] at htc
    obtain ⟨ra, hra, rb, hrb, hr⟩ := htc
    subst hr
    simp only [SRes.join] at hrecs ⊢
    simp only [evalS]
    refine sat_bind (ihn.stmt k C Γ a ra σ st rfl hra (fun x hx => hrecs x (List.mem_append_left _ hx)) hst) ?_
    intro st1 ctl e1 hctl
    cases ctl with
    | ret u σ' => obtain ⟨hu, Γb, hΓb, hstb⟩ := hctl; exact sat_pure ⟨hu, Γb, List.mem_append_left _ hΓb, hstb⟩
    | exc f σ' => obtain ⟨hu, Γb, hΓb, hstb⟩ := hctl; exact sat_pure ⟨hu, Γb, List.mem_append_left _ hΓb, hstb⟩
    | brk σ' => obtain ⟨Γb, hΓb, hstb⟩ := hctl; exact sat_pure ⟨Γb, List.mem_append_left _ hΓb, hstb⟩
    | cont σ' => obtain ⟨Γb, hΓb, hstb⟩ := hctl; exact sat_pure ⟨Γb, List.mem_append_left _ hΓb, hstb⟩
    | normal σ' =>
      obtain ⟨Γ1, hΓ1, hst1⟩ := hctl
      rw [hΓ1] at hrb
      refine sat_mono (ihn.stmt k C Γ1 b rb σ' st1 rfl hrb (fun x hx => hrecs x (List.mem_append_right _ hx)) hst1) ?_
      intro st2 ctl _ hctl
      cases ctl with
      | ret u σ'' => obtain ⟨hu, Γb, hΓb, hstb⟩ := hctl; exact ⟨hu, Γb, List.mem_append_right _ hΓb, hstb⟩
      | exc f σ'' => obtain ⟨hu, Γb, hΓb, hstb⟩ := hctl; exact ⟨hu, Γb, List.mem_append_right _ hΓb, hstb⟩
      | normal σ'' => exact hctl
      | brk σ'' => obtain ⟨Γb, hΓb, hstb⟩ := hctl; exact ⟨Γb, List.mem_append_right _ hΓb, hstb⟩
      | cont σ'' => obtain ⟨Γb, hΓb, hstb⟩ := hctl; exact ⟨Γb, List.mem_append_right _ hΓb, hstb⟩
  | tryS b kinds hd els fin hasFin =>
    exact try_case t ihn rfl hst htc hrecs

/-! ## The induction -/

theorem evalOK (t : Typed P tm) : ∀ n, EvalOK P tm n := by
  intro n
  induction n using Nat.strongRecOn with
  | _ n ih =>
    cases n with
    | zero => exact ⟨expr_zero, args_zero, fields_zero, stmt_zero⟩
    | succ n =>
      have ihn := ih n (Nat.lt_succ_self n)
      exact ⟨expr_step t ihn, args_step ihn, fields_step t ihn,
             stmt_step t (fun m hm => ih m (Nat.lt_succ_of_le hm))⟩

end Lang
