import MypyVerif.Proofs.LangSoundE
/-
Preservation, statement level (with the loop invariant taken from the checker's fixpoint frame), and the
induction on the fuel that ties expressions, argument lists, `__init__` bodies and statements together.
-/
namespace Lang

variable {P : Prog} {tm : Recs}

theorem stmt_zero : StmtOK P tm 0 := by
  intro k C Γ s r σ st _ _ _ _
  simp only [evalS]; exact sat_fail trivial

/-! ## accept_loop -/

/-- `loopIter` stops at a frame `L` that is a post-fixpoint of one pass, reached from the entry state through
    passes — each of which only widens what a store may contain -/
theorem loopIter_inv {decl : List Ty} {pass : Env → TC Pass}
    (hstep : ∀ L p, pass L = .ok p → ∀ (h : Heap) (σ : Store), StoreOK P h decl L σ → StoreOK P h decl p.next σ) :
    ∀ (i : Nat) (L0 : Env) (out : Pass), loopIter P decl pass i L0 = .ok out →
      ∃ L, pass L = .ok out ∧ envLe P decl out.next L = true ∧
        ∀ (h : Heap) (σ : Store), StoreOK P h decl L0 σ → StoreOK P h decl L σ := by
  intro i
  induction i with
  | zero => intro L0 out h; simp [loopIter] at h
  | succ i ih =>
    intro L0 out h
    simp only [loopIter, bind_ok] at h
    obtain ⟨p, hp, h⟩ := h
    split at h
    · obtain ⟨L, hp', hle, hreach⟩ := ih p.next out h
      exact ⟨L, hp', hle, fun hh σ s => hreach hh σ (hstep L0 p hp hh σ s)⟩
    · simp only [bind_ok, req_ok, pure_ok] at h
      obtain ⟨_, hle, hout⟩ := h
      subst hout
      exact ⟨L0, hp, hle, fun _ _ s => s⟩

/-- the loop itself, from the checker's fixpoint frame `L`: by induction on the fuel -/
theorem while_ok (w : WF P) {n : Nat} (ihe : ∀ m, m ≤ n → ExprOK P tm m) (ihs : ∀ m, m ≤ n → StmtOK P tm m)
    {k : Nat} {C : Ctx} (hP : C.P = P) {c : Expr} {b : Stmt} {L L' : Env} {rc : ERes} {rb : SRes}
    {m1 m2 : Option Env × Bool}
    (hrc : tcE k C L false true c = .ok rc)
    (hrb : tcS k C (pushMap L false rc.yes) b = .ok rb)
    (hm1 : mergeEnvs P C.decl L [rb.out, pushMap L false rc.no] = .ok m1)
    (hm2 : mergeEnvs P C.decl L (some L :: m1.1 :: rb.conts.map some) = .ok m2) (hL' : m2.1 = some L')
    (hle : envLe P C.decl L' L = true)
    (hrecs : ∀ x, x ∈ rc.recs ++ rb.recs → x ∈ tm) :
    ∀ m, m ≤ n + 1 → ∀ (σ : Store) (st : State), StoreOK P st.heap C.decl L σ →
      Sat P tm st (evalS m P σ (.while c b)) (fun st' ctl => match ctl with
        | .normal σ' => (∃ Γe, pushMap L' true rc.no = some Γe ∧ StoreOK P st'.heap C.decl Γe σ') ∨
                        (∃ Γb, Γb ∈ rb.brks ∧ StoreOK P st'.heap C.decl Γb σ')
        | .ret v => hasTy P st'.heap v C.ret
        | _ => False) := by
  intro m
  induction m with
  | zero => intro _ σ st _; simp only [evalS]; exact sat_fail trivial
  | succ m ihm =>
    intro hm σ st hst
    have hmn : m ≤ n := by omega
    simp only [evalS]
    refine sat_bind (ihe m hmn k C L false true c rc σ st hP hrc (fun x hx => hrecs x (List.mem_append_left _ hx)) hst) ?_
    intro st1 v e1 hv
    cases htv : truthy v with
    | true =>
      simp only [if_true]
      obtain ⟨Γt, hΓt, hstt⟩ := (hv.2.1 htv).push false (hst.ext e1)
      rw [hΓt] at hrb
      refine sat_bind (ihs m hmn k C Γt b rb σ st1 hP hrb (fun x hx => hrecs x (List.mem_append_right _ hx)) hstt) ?_
      intro st2 ctl e2 hctl
      cases ctl with
      | ret u => exact sat_pure hctl
      | normal σ' =>
        obtain ⟨Γb, hΓb, hstb⟩ := hctl
        obtain ⟨Γ1, hΓ1, hst1⟩ := mergeEnvs_sound w hm1 (b := Γb) (by rw [← hΓb]; simp) hstb
        obtain ⟨Γ2, hΓ2, hst2⟩ := mergeEnvs_sound w hm2 (b := Γ1) (by rw [← hΓ1]; simp) hst1
        rw [hL'] at hΓ2; cases hΓ2
        exact ihm (by omega) σ' st2 (envLe_sound w hle hst2)
      | cont σ' =>
        obtain ⟨Γc, hΓc, hstc⟩ := hctl
        obtain ⟨Γ2, hΓ2, hst2⟩ := mergeEnvs_sound w hm2 (b := Γc)
          (by simp only [List.mem_cons, List.mem_map]; right; right; exact ⟨Γc, hΓc, rfl⟩) hstc
        rw [hL'] at hΓ2; cases hΓ2
        exact ihm (by omega) σ' st2 (envLe_sound w hle hst2)
      | brk σ' =>
        obtain ⟨Γb, hΓb, hstb⟩ := hctl
        exact sat_pure (Or.inr ⟨Γb, hΓb, hstb⟩)
    | false =>
      simp only [Bool.false_eq_true, if_false]
      apply sat_pure
      obtain ⟨Γ2, hΓ2, hst2⟩ := mergeEnvs_sound w hm2 (b := L) (by simp) (hst.ext e1)
      rw [hL'] at hΓ2; cases hΓ2
      obtain ⟨Γe, hΓe, hste⟩ := (hv.2.2 htv).push true hst2
      exact Or.inl ⟨Γe, hΓe, hste⟩

/-! ## One step of the induction on the fuel: statements -/

theorem stmt_step (t : Typed P tm) {n : Nat} (ih : ∀ m, m ≤ n → EvalOK P tm m) : StmtOK P tm (n + 1) := by
  intro k C Γ s r σ st hP htc hrecs hst
  subst hP
  have w := t.wf
  have ihn := ih n (Nat.le_refl n)
  cases k with
  | zero => simp [tcS] at htc
  | succ k =>
  cases s with
  | pass =>
    simp only [tcS, pure_ok] at htc; subst htc
    simp only [evalS]; exact sat_pure ⟨Γ, rfl, hst⟩
  | brk =>
    simp only [tcS, pure_ok] at htc; subst htc
    simp only [evalS]; exact sat_pure ⟨Γ, by simp, hst⟩
  | cont =>
    simp only [tcS, pure_ok] at htc; subst htc
    simp only [evalS]; exact sat_pure ⟨Γ, by simp, hst⟩
  | decl x e =>
    simp only [tcS] at htc
    cases hx : C.decl[x]? with
    | none => rw [hx] at htc; simp at htc
    | some Tx =>
      rw [hx] at htc
      simp only [bind_ok, req_ok, pure_ok] at htc
      obtain ⟨_, hnone, r0, hr0, _, hsub, hr⟩ := htc
      subst hr
      simp only [evalS]
      refine sat_bind (ihn.expr k C Γ false false e r0 σ st rfl hr0 hrecs hst) ?_
      intro st1 v e1 hv
      apply sat_pure
      refine ⟨Γ, rfl, (hst.ext e1).declare hx ?_ (subTy_sound w hsub hv.1)⟩
      cases hl : lookup x Γ with
      | none => rfl
      | some _ => rw [hl] at hnone; simp at hnone
  | infer x e =>
    simp only [tcS] at htc
    cases hx : C.decl[x]? with
    | none => rw [hx] at htc; simp at htc
    | some Tx =>
      rw [hx] at htc
      simp only [bind_ok, req_ok, pure_ok] at htc
      obtain ⟨_, hnone, r0, hr0, _, hsub, hr⟩ := htc
      subst hr
      simp only [Bool.and_eq_true] at hsub
      simp only [evalS]
      refine sat_bind (ihn.expr k C Γ false false e r0 σ st rfl hr0 hrecs hst) ?_
      intro st1 v e1 hv
      apply sat_pure
      refine ⟨Γ, rfl, (hst.ext e1).declare hx ?_ (subTy_sound w hsub.1.2 hv.1)⟩
      cases hl : lookup x Γ with
      | none => rfl
      | some _ => rw [hl] at hnone; simp at hnone
  | assign x e =>
    simp only [tcS] at htc
    cases hx : C.decl[x]? with
    | none => rw [hx] at htc; simp at htc
    | some Tx =>
      rw [hx] at htc
      simp only [bind_ok, req_ok, pure_ok] at htc
      obtain ⟨r0, hr0, _, _, hr⟩ := htc
      subst hr
      simp only [evalS]
      refine sat_bind (ihn.expr k C Γ false false e r0 σ st rfl hr0 hrecs hst) ?_
      intro st1 v e1 hv
      exact sat_pure ⟨_, rfl, (hst.ext e1).assign hv.1⟩
  | setAttr o f e =>
    simp only [tcS, bind_ok, req_ok] at htc
    obtain ⟨_, _, ro, hro, re, hre, _, _, ts, hts, htc⟩ := htc
    split at htc
    · next hall =>
      simp only [pure_ok] at htc; subst htc
      simp only [evalS]
      refine sat_bind (ihn.expr k C Γ false false e re σ st rfl hre (fun x hx => hrecs x (List.mem_append_right _ hx)) hst) ?_
      intro st1 v e1 hv
      refine sat_bind (ihn.expr k C Γ false false o ro σ st1 rfl hro (fun x hx => hrecs x (List.mem_append_left _ hx)) (hst.ext e1)) ?_
      intro st2 ov e2 hov
      simp only [List.all_eq_true] at hall
      refine sat_bind (sat_putAttr w hov.1 hts hall (hasTy_ext e2 hv.1)) ?_
      intro st3 _ e3 _
      exact sat_pure ⟨Γ, rfl, ((hst.ext e1).ext e2).ext e3⟩
    · split at htc <;> cases htc
  | expr e =>
    simp only [tcS, bind_ok, pure_ok] at htc
    obtain ⟨r0, hr0, hr⟩ := htc
    subst hr
    simp only [evalS]
    refine sat_bind (ihn.expr k C Γ true false e r0 σ st rfl hr0 hrecs hst) ?_
    intro st1 v e1 _
    exact sat_pure ⟨Γ, rfl, hst.ext e1⟩
  | ret e =>
    simp only [tcS, bind_ok, req_ok, pure_ok] at htc
    obtain ⟨r0, hr0, _, hsub, hr⟩ := htc
    subst hr
    simp only [evalS]
    refine sat_bind (ihn.expr k C Γ _ false e r0 σ st rfl hr0 hrecs hst) ?_
    intro st1 v e1 hv
    exact sat_pure (subTy_sound w hsub hv.1)
  | ite c tb eb =>
    simp only [tcS, bind_ok, req_ok, pure_ok] at htc
    obtain ⟨rc, hrc, _, _, rt, hrt, re, hre, m, hm, hr⟩ := htc
    subst hr
    simp only [evalS]
    refine sat_bind (ihn.expr k C Γ false true c rc σ st rfl hrc
      (fun x hx => hrecs x (List.mem_append_left _ (List.mem_append_left _ hx))) hst) ?_
    intro st1 v e1 hv
    cases htv : truthy v with
    | true =>
      simp only [if_true]
      obtain ⟨Γt, hΓt, hstt⟩ := (hv.2.1 htv).push false (hst.ext e1)
      rw [hΓt] at hrt
      refine sat_mono (ihn.stmt k C Γt tb rt σ st1 rfl hrt
        (fun x hx => hrecs x (List.mem_append_left _ (List.mem_append_right _ hx))) hstt) ?_
      intro st2 ctl _ hctl
      cases ctl with
      | ret u => exact hctl
      | normal σ' =>
        obtain ⟨Γb, hΓb, hstb⟩ := hctl
        exact mergeEnvs_sound w hm (b := Γb) (by rw [← hΓb]; simp) hstb
      | brk σ' => obtain ⟨Γb, hΓb, hstb⟩ := hctl; exact ⟨Γb, List.mem_append_left _ hΓb, hstb⟩
      | cont σ' => obtain ⟨Γb, hΓb, hstb⟩ := hctl; exact ⟨Γb, List.mem_append_left _ hΓb, hstb⟩
    | false =>
      simp only [Bool.false_eq_true, if_false]
      obtain ⟨Γe, hΓe, hste⟩ := (hv.2.2 htv).push false (hst.ext e1)
      rw [hΓe] at hre
      refine sat_mono (ihn.stmt k C Γe eb re σ st1 rfl hre
        (fun x hx => hrecs x (List.mem_append_right _ hx)) hste) ?_
      intro st2 ctl _ hctl
      cases ctl with
      | ret u => exact hctl
      | normal σ' =>
        obtain ⟨Γb, hΓb, hstb⟩ := hctl
        exact mergeEnvs_sound w hm (b := Γb) (by rw [← hΓb]; simp) hstb
      | brk σ' => obtain ⟨Γb, hΓb, hstb⟩ := hctl; exact ⟨Γb, List.mem_append_right _ hΓb, hstb⟩
      | cont σ' => obtain ⟨Γb, hΓb, hstb⟩ := hctl; exact ⟨Γb, List.mem_append_right _ hΓb, hstb⟩
  | «while» c b =>
    simp only [tcS, bind_ok, pure_ok] at htc
    obtain ⟨p, hloop, m, hm, hr⟩ := htc
    subst hr
    -- every pass only widens the loop frame
    have hstep : ∀ L p, (do
          let rc ← tcE k C L false true c
          req (rc.ty == [Atom.bool] || isTruthVar c) (TcErr.unsupported 3)
          let rb ← tcS k C (pushMap L false rc.yes) b
          let m1 ← mergeEnvs C.P C.decl L [rb.out, pushMap L false rc.no]
          let m2 ← mergeEnvs C.P C.decl L (some L :: m1.1 :: rb.conts.map some)
          match m2.1 with
          | none => Except.error (TcErr.stuck 5)
          | some L' => pure ({ next := L', changed := m2.2, exit := pushMap L' true rc.no, recs := rc.recs ++ rb.recs, brks := rb.brks } : Pass)) = .ok p →
        ∀ (h : Heap) (σ : Store), StoreOK C.P h C.decl L σ → StoreOK C.P h C.decl p.next σ := by
      intro L p hp h σ s
      simp only [bind_ok, req_ok] at hp
      obtain ⟨rc, _, _, _, rb, _, m1, _, m2, hm2, hp⟩ := hp
      cases hL' : m2.1 with
      | none => rw [hL'] at hp; simp at hp
      | some L' =>
        rw [hL'] at hp; simp only [pure_ok] at hp; subst hp
        obtain ⟨Γ2, hΓ2, hst2⟩ := mergeEnvs_sound w hm2 (b := L) (by simp) s
        rw [hL'] at hΓ2; cases hΓ2; exact hst2
    obtain ⟨L, hp, hle, hreach⟩ := loopIter_inv hstep 4 Γ p hloop
    simp only [bind_ok, req_ok] at hp
    obtain ⟨rc, hrc, _, _, rb, hrb, m1, hm1, m2, hm2, hp⟩ := hp
    cases hL' : m2.1 with
    | none => rw [hL'] at hp; simp at hp
    | some L' =>
      rw [hL'] at hp; simp only [pure_ok] at hp; subst hp
      simp only at hle hm hrecs
      have hloop := while_ok w (fun m hm => (ih m hm).expr) (fun m hm => (ih m hm).stmt) rfl hrc hrb hm1 hm2 hL' hle
        hrecs (n + 1) (Nat.le_refl _) σ st (hreach st.heap σ hst)
      refine sat_mono hloop ?_
      intro st2 ctl _ hctl
      cases ctl with
      | ret u => exact hctl
      | normal σ' =>
        rcases hctl with ⟨Γe, hΓe, hste⟩ | ⟨Γb, hΓb, hstb⟩
        · exact mergeEnvs_sound w hm (b := Γe) (by rw [← hΓe]; simp) hste
        · exact mergeEnvs_sound w hm (b := Γb)
            (by simp only [List.mem_cons, List.mem_map]; right; exact ⟨Γb, hΓb, rfl⟩) hstb
      | brk σ' => exact hctl.elim
      | cont σ' => exact hctl.elim
  | seq a b =>
    simp only [tcS, bind_ok, pure_ok] at htc
    obtain ⟨ra, hra, rb, hrb, hr⟩ := htc
    subst hr
    simp only [evalS]
    refine sat_bind (ihn.stmt k C Γ a ra σ st rfl hra (fun x hx => hrecs x (List.mem_append_left _ hx)) hst) ?_
    intro st1 ctl e1 hctl
    cases ctl with
    | ret u => exact sat_pure hctl
    | brk σ' => obtain ⟨Γb, hΓb, hstb⟩ := hctl; exact sat_pure ⟨Γb, List.mem_append_left _ hΓb, hstb⟩
    | cont σ' => obtain ⟨Γb, hΓb, hstb⟩ := hctl; exact sat_pure ⟨Γb, List.mem_append_left _ hΓb, hstb⟩
    | normal σ' =>
      obtain ⟨Γ1, hΓ1, hst1⟩ := hctl
      rw [hΓ1] at hrb
      refine sat_mono (ihn.stmt k C Γ1 b rb σ' st1 rfl hrb (fun x hx => hrecs x (List.mem_append_right _ hx)) hst1) ?_
      intro st2 ctl _ hctl
      cases ctl with
      | ret u => exact hctl
      | normal σ'' => exact hctl
      | brk σ'' => obtain ⟨Γb, hΓb, hstb⟩ := hctl; exact ⟨Γb, List.mem_append_right _ hΓb, hstb⟩
      | cont σ'' => obtain ⟨Γb, hΓb, hstb⟩ := hctl; exact ⟨Γb, List.mem_append_right _ hΓb, hstb⟩

/-! ## The induction -/

theorem evalOK (t : Typed P tm) : ∀ n, EvalOK P tm n := by
  intro n
  induction n using Nat.strongRecOn with
  | _ n ih =>
    cases n with
    | zero => exact ⟨expr_zero, args_zero, fields_zero, stmt_zero⟩
    | succ n =>
      have ihn := ih n (Nat.lt_succ_self n)
      exact ⟨expr_step t ihn, args_step ihn, fields_step t ihn,
             stmt_step t (fun m hm => ih m (Nat.lt_succ_of_le hm))⟩

end Lang
