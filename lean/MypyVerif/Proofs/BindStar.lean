import MypyVerif.Proofs.Bind
/-!
Call binding, part 2: `*tuple` actuals of known length (positional groups).  The mapping loop, the
diagnostics and CPython's call site are reduced to `CoreOk` at the expanded number of positional arguments.
-/
namespace PyBind
open ArgMap

/-! ### `*tuple` actuals of known length: positions and their owners

A positional group is `none` (a plain positional actual) or `some k` (a `*tuple` of length `k`).  After
expansion the call has `width pa` positional arguments; position `q` is supplied by the actual number
`(owners pa a)[q]`. -/

def posActs : List (Option Nat) → List Actual
  | [] => []
  | none :: r => .pos :: posActs r
  | some k :: r => .star (some k) :: posActs r

def width : List (Option Nat) → Nat
  | [] => 0
  | none :: r => 1 + width r
  | some k :: r => k + width r

def owners : List (Option Nat) → Nat → List Nat
  | [], _ => []
  | none :: r, a => a :: owners r (a + 1)
  | some k :: r, a => List.replicate k a ++ owners r (a + 1)

/-- the call `f(<positional and *tuple actuals>, k₁=…, …)` -/
def starCall (pa : List (Option Nat)) (kws : List Name) : List Actual := posActs pa ++ kws.map .named

/-- pairs produced by consecutive positions `p, p+1, …` supplied by the actuals `os` -/
def ownPairs (s : Sig) : List Nat → Nat → Pairs
  | [], _ => []
  | o :: os, p => (match posTarget s p with | some t => [(t, o)] | none => []) ++ ownPairs s os (p + 1)

theorem posActs_length (pa : List (Option Nat)) : (posActs pa).length = pa.length := by
  induction pa with
  | nil => rfl
  | cons g r ih => cases g <;> simp [posActs, ih]

theorem owners_length (pa : List (Option Nat)) (a : Nat) : (owners pa a).length = width pa := by
  induction pa generalizing a with
  | nil => rfl
  | cons g r ih =>
    cases g with
    | none => simp only [owners, width, List.length_cons, ih]; exact Nat.add_comm _ _
    | some k => simp only [owners, width, List.length_append, List.length_replicate, ih]

theorem ownPairs_append (s : Sig) (xs ys : List Nat) (p : Nat) :
    ownPairs s (xs ++ ys) p = ownPairs s xs p ++ ownPairs s ys (p + xs.length) := by
  induction xs generalizing p with
  | nil => simp [ownPairs]
  | cons x xs ih =>
    simp only [List.cons_append, ownPairs, ih, List.append_assoc, List.length_cons]
    have : p + 1 + xs.length = p + (xs.length + 1) := by omega
    rw [this]

/-- positions at or beyond the last non-star formal have no target when there is no `*args` -/
theorem posTarget_none (s : Sig) (hv : s.varargs.isSome = false) {q : Nat} (hq : s.lns ≤ q) :
    posTarget s q = none := by
  unfold posTarget
  have : ¬ q < s.lns := by omega
  simp [this, hv]

theorem ownPairs_nil_of_ge (s : Sig) (hv : s.varargs.isSome = false) (os : List Nat) {p : Nat}
    (hp : s.lns ≤ p) : ownPairs s os p = [] := by
  induction os generalizing p with
  | nil => rfl
  | cons o os ih =>
    simp only [ownPairs, posTarget_none s hv hp, List.nil_append]
    exact ih (by omega)

theorem stepPos_core' (s : Sig) (a p : Nat) (ps : Pairs) (amb : List Nat) :
    stepPos s.toFormals { fi := min p s.lns, pairs := ps, ambiguous := amb } a =
      { fi := min (p + 1) s.lns,
        pairs := ps ++ (match posTarget s p with | some t => [(t, a)] | none => []),
        ambiguous := amb } := by
  unfold stepPos posTarget
  by_cases h : p < s.lns
  · obtain ⟨k, hk, hs⟩ := kindAt_lt_lns s h
    have hm : min p s.lns = p := by omega
    have hm' : min (p + 1) s.lns = p + 1 := by omega
    simp [hm, hm', hk, hs, h, St.add]
  · have hm : min p s.lns = s.lns := by omega
    have hm' : min (p + 1) s.lns = s.lns := by omega
    simp only [hm, hm', kindAt_lns, h, if_false]
    cases hv : s.varargs with
    | some v => simp [FK.isStar, St.add, Sig.lns, hv]
    | none =>
      cases hw : s.varkw with
      | some w => simp [FK.isStar]
      | none => simp

theorem stepStarTuple_core (s : Sig) (a : Nat) : ∀ (k p : Nat) (ps : Pairs) (amb : List Nat),
    stepStarTuple s.toFormals a k { fi := min p s.lns, pairs := ps, ambiguous := amb } =
      { fi := min (p + k) s.lns, pairs := ps ++ ownPairs s (List.replicate k a) p, ambiguous := amb } := by
  intro k
  induction k with
  | zero => intro p ps amb; simp [stepStarTuple, ownPairs]
  | succ k ih =>
    intro p ps amb
    simp only [stepStarTuple, List.replicate_succ, ownPairs]
    by_cases h : p < s.lns
    · obtain ⟨kd, hk, hs⟩ := kindAt_lt_lns s h
      have hm : min p s.lns = p := by omega
      have hne2 : kd ≠ .star2 := by intro e; rw [e] at hs; simp [FK.isStar] at hs
      have hne1 : kd ≠ .star := by intro e; rw [e] at hs; simp [FK.isStar] at hs
      have hpt : posTarget s p = some p := by simp [posTarget, h]
      simp only [hm, hk, hne2, hne1, if_false, St.add, hpt]
      have hih := ih (p + 1) (ps ++ [(p, a)]) amb
      rw [show min (p + 1) s.lns = p + 1 by omega] at hih
      rw [hih]
      simp only [List.append_assoc]
      have : p + 1 + k = p + (k + 1) := by omega
      rw [this]
    · have hm : min p s.lns = s.lns := by omega
      have hm' : min (p + (k + 1)) s.lns = s.lns := by omega
      simp only [hm, hm', kindAt_lns]
      cases hv : s.varargs with
      | some v =>
        have hpt : posTarget s p = some s.nargs := by simp [posTarget, h, hv]
        have hl : s.lns = s.nargs := by simp [Sig.lns, hv]
        simp only [Option.isSome_some, if_true, St.add, hpt]
        have hstar : (FK.star = FK.star2) = False := by simp
        simp only [hstar, if_false]
        have hih := ih (p + 1) (ps ++ [(s.lns, a)]) amb
        rw [show min (p + 1) s.lns = s.lns by omega, show min (p + 1 + k) s.lns = s.lns by omega] at hih
        rw [hih, hl]
        simp only [List.append_assoc]
      | none =>
        have hvn : s.varargs.isSome = false := by simp [hv]
        have hnil : ownPairs s (List.replicate k a) (p + 1) = [] := ownPairs_nil_of_ge s hvn _ (by omega)
        have hpt : posTarget s p = none := posTarget_none s hvn (by omega)
        simp only [Option.isSome_none, Bool.false_eq_true, if_false, hnil, hpt, List.append_nil]
        cases hw : s.varkw with
        | some w => simp
        | none =>
          simp only [Option.isSome_none, Bool.false_eq_true, if_false]
          have hih := ih (p + 1) ps amb
          rw [show min (p + 1) s.lns = s.lns by omega, show min (p + 1 + k) s.lns = s.lns by omega, hnil] at hih
          rw [hih]
          simp only [List.append_nil]

theorem mapLoop_groups (s : Sig) (rest : List Actual) : ∀ (pa : List (Option Nat)) (a p : Nat)
    (ps : Pairs) (amb : List Nat),
    mapLoop s.toFormals (posActs pa ++ rest) a { fi := min p s.lns, pairs := ps, ambiguous := amb } =
      mapLoop s.toFormals rest (a + pa.length)
        { fi := min (p + width pa) s.lns, pairs := ps ++ ownPairs s (owners pa a) p, ambiguous := amb } := by
  intro pa
  induction pa with
  | nil => intro a p ps amb; simp [posActs, width, owners, ownPairs]
  | cons g r ih =>
    intro a p ps amb
    cases g with
    | none =>
      simp only [posActs, List.cons_append, mapLoop, step, stepPos_core']
      rw [ih]
      simp only [owners, ownPairs, width, List.append_assoc, List.length_cons]
      have e1 : a + 1 + r.length = a + (r.length + 1) := by omega
      have e2 : p + 1 + width r = p + (1 + width r) := by omega
      rw [e1, e2]
    | some k =>
      simp only [posActs, List.cons_append, mapLoop, step, stepStarTuple_core]
      rw [ih]
      simp only [owners, ownPairs_append, width, List.append_assoc, List.length_cons, List.length_replicate]
      have e1 : a + 1 + r.length = a + (r.length + 1) := by omega
      have e2 : p + k + width r = p + (k + width r) := by omega
      rw [e1, e2]


/-! ### what `ownPairs` contains -/

theorem mem_ownPairs (s : Sig) : ∀ (os : List Nat) (p t b : Nat),
    (t, b) ∈ ownPairs s os p ↔ ∃ q, p ≤ q ∧ os[q - p]? = some b ∧ posTarget s q = some t := by
  intro os
  induction os with
  | nil => intro p t b; simp [ownPairs]
  | cons o os ih =>
    intro p t b
    simp only [ownPairs, List.mem_append, ih]
    constructor
    · rintro (h | ⟨q, h1, h2, h3⟩)
      · cases hp : posTarget s p with
        | none => simp [hp] at h
        | some t' =>
          simp [hp] at h
          obtain ⟨rfl, rfl⟩ := h
          exact ⟨p, Nat.le_refl _, by simp, hp⟩
      · refine ⟨q, by omega, ?_, h3⟩
        have : q - p = (q - (p + 1)) + 1 := by omega
        rw [this]; simpa using h2
    · rintro ⟨q, h1, h2, h3⟩
      by_cases hq : q = p
      · subst hq; left
        simp at h2; subst h2; simp [h3]
      · right
        refine ⟨q, by omega, ?_, h3⟩
        have : q - p = (q - (p + 1)) + 1 := by omega
        rw [this] at h2; simpa using h2

theorem mapped_ownPairs_lt (s : Sig) {i : Nat} (hi : i < s.lns) : ∀ (os : List Nat) (p : Nat),
    mapped (ownPairs s os p) i = if p ≤ i then (os[i - p]?).toList else [] := by
  intro os
  induction os with
  | nil => intro p; simp [ownPairs, mapped]
  | cons o os ih =>
    intro p
    simp only [ownPairs, mapped_append, ih]
    by_cases hpi : p = i
    · subst hpi
      have hpt : posTarget s p = some p := (posTarget_eq_some_lt s hi).2 rfl
      have hn : ¬ p + 1 ≤ p := by omega
      simp [hpt, mapped_single, hn]
    · have hhead : mapped (match posTarget s p with | some t => [(t, o)] | none => []) i = [] := by
        cases hp : posTarget s p with
        | none => rfl
        | some t =>
          simp only [mapped_single]
          have : t ≠ i := by
            intro e; subst e
            exact hpi ((posTarget_eq_some_lt s hi).1 hp)
          simp [this]
      rw [hhead, List.nil_append]
      by_cases hle : p ≤ i
      · have h1 : p + 1 ≤ i := by omega
        have : i - p = (i - (p + 1)) + 1 := by omega
        simp [hle, h1, this]
      · have h1 : ¬ p + 1 ≤ i := by omega
        simp [hle, h1]

theorem mapped_ownPairs_gt (s : Sig) {i : Nat} (hi : s.lns < i) (os : List Nat) (p : Nat) :
    mapped (ownPairs s os p) i = [] := by
  apply List.eq_nil_iff_forall_not_mem.2
  intro b hb
  rw [mem_mapped, mem_ownPairs] at hb
  obtain ⟨q, _, _, h⟩ := hb
  exact posTarget_ne_gt s hi h

theorem ownPairs_length_le (s : Sig) : ∀ (os : List Nat) (p : Nat), (ownPairs s os p).length ≤ os.length := by
  intro os
  induction os with
  | nil => intro p; simp [ownPairs]
  | cons o os ih =>
    intro p
    simp only [ownPairs, List.length_append, List.length_cons]
    have := ih (p + 1)
    cases posTarget s p <;> simp <;> omega

theorem ownPairs_length_eq_iff (s : Sig) : ∀ (os : List Nat) (p : Nat),
    (ownPairs s os p).length = os.length ↔ ∀ j, j < os.length → posTarget s (p + j) ≠ none := by
  intro os
  induction os with
  | nil => intro p; simp [ownPairs]
  | cons o os ih =>
    intro p
    simp only [ownPairs, List.length_append, List.length_cons]
    have hle := ownPairs_length_le s os (p + 1)
    cases hp : posTarget s p with
    | none =>
      simp only [List.length_nil, Nat.zero_add]
      constructor
      · intro h; omega
      · intro h; exact absurd hp (h 0 (by omega))
    | some t =>
      simp only [List.length_singleton]
      constructor
      · intro h j hj
        have h' : (ownPairs s os (p + 1)).length = os.length := by omega
        cases j with
        | zero => simp [hp]
        | succ j =>
          have := (ih (p + 1)).1 h' j (by omega)
          have e : p + 1 + j = p + (j + 1) := by omega
          rw [e] at this; exact this
      · intro h
        have : (ownPairs s os (p + 1)).length = os.length := by
          rw [ih]
          intro j hj
          have := h (j + 1) (by omega)
          have e : p + 1 + j = p + (j + 1) := by omega
          rw [e]; exact this
        omega

theorem countActual_append (p q : Pairs) (b : Nat) : countActual (p ++ q) b = countActual p b + countActual q b := by
  simp [countActual, List.filter_append]

theorem countActual_all (s : Sig) (b : Nat) : ∀ (k p : Nat),
    countActual (ownPairs s (List.replicate k b) p) b = (ownPairs s (List.replicate k b) p).length := by
  intro k
  induction k with
  | zero => intro p; simp [ownPairs, countActual]
  | succ k ih =>
    intro p
    simp only [List.replicate_succ, ownPairs, countActual_append, ih, List.length_append]
    cases posTarget s p <;> simp [countActual]

theorem countActual_zero_of_not_owner (s : Sig) (os : List Nat) (p b : Nat) (h : b ∉ os) :
    countActual (ownPairs s os p) b = 0 := by
  rw [countActual_eq_zero]
  intro t hm
  rw [mem_ownPairs] at hm
  obtain ⟨q, _, hq, _⟩ := hm
  exact h (List.mem_iff_getElem?.2 ⟨_, hq⟩)

theorem countActual_kwPairs_lt (F : List Formal) (kws : List Name) {n b : Nat} (h : b < n) :
    countActual (kwPairs F n kws) b = 0 := by
  rw [countActual_eq_zero]
  intro t hm
  rw [mem_kwPairs] at hm
  obtain ⟨_, _, h2, _⟩ := hm
  omega

theorem owners_mem (pa : List (Option Nat)) : ∀ (a o : Nat), o ∈ owners pa a → a ≤ o ∧ o < a + pa.length := by
  induction pa with
  | nil => intro a o h; simp [owners] at h
  | cons g r ih =>
    intro a o h
    cases g with
    | none =>
      simp only [owners, List.mem_cons] at h
      rcases h with rfl | h
      · simp
      · have := ih (a + 1) o h; simp; omega
    | some k =>
      simp only [owners, List.mem_append, List.mem_replicate] at h
      rcases h with ⟨_, rfl⟩ | h
      · simp
      · have := ih (a + 1) o h; simp; omega

def groupOwners (g : Option Nat) (b : Nat) : List Nat :=
  match g with
  | none => [b]
  | some k => List.replicate k b

theorem owners_split (pre post : List (Option Nat)) (g : Option Nat) (a : Nat) :
    owners (pre ++ g :: post) a =
      owners pre a ++ (groupOwners g (a + pre.length) ++ owners post (a + pre.length + 1)) := by
  induction pre generalizing a with
  | nil => cases g <;> simp [owners, groupOwners]
  | cons h r ih =>
    have e1 : a + 1 + r.length = a + (r.length + 1) := by omega
    cases h <;> simp [owners, ih, e1, List.append_assoc]

/-- `all_actuals[b]` for the positional group number `|pre|`: the number of its positions that found a formal -/
theorem count_group (s : Sig) (pre post : List (Option Nat)) (g : Option Nat) (kws : List Name) :
    countActual (ownPairs s (owners (pre ++ g :: post) 0) 0 ++
        kwPairs s.toFormals (pre ++ g :: post).length kws) pre.length =
      (ownPairs s (groupOwners g pre.length) (width pre)).length := by
  rw [countActual_append, owners_split, ownPairs_append, ownPairs_append, countActual_append, countActual_append]
  have h1 : countActual (ownPairs s (owners pre 0) 0) pre.length = 0 := by
    apply countActual_zero_of_not_owner
    intro hm; have := owners_mem pre 0 _ hm; omega
  have h3 : countActual (ownPairs s (owners post (0 + pre.length + 1))
      (0 + (owners pre 0).length + (groupOwners g (0 + pre.length)).length)) pre.length = 0 := by
    apply countActual_zero_of_not_owner
    intro hm; have := owners_mem post _ _ hm; omega
  have h4 : countActual (kwPairs s.toFormals (pre ++ g :: post).length kws) pre.length = 0 := by
    apply countActual_kwPairs_lt; simp
  rw [h1, h3, h4, owners_length]
  simp only [Nat.zero_add, Nat.add_zero]
  cases g with
  | none =>
    simp only [groupOwners]
    have := countActual_all s pre.length 1 (width pre)
    simpa using this
  | some k => exact countActual_all s pre.length k (width pre)

theorem hasStar_toFormals (s : Sig) : hasStar s.toFormals = s.varargs.isSome := by
  unfold hasStar
  rw [toFormals_eq]
  simp only [List.any_append]
  have h1 : ∀ xs i named, (posFormals s xs i named).any (fun f => f.kind == .star) = false := by
    intro xs
    induction xs with
    | nil => intro i named; rfl
    | cons x xs ih =>
      intro i named
      simp only [posFormals, List.any_cons, ih, Bool.or_false]
      rcases posKind_cases s i with h | h <;> simp [h]
  have h2 : (kwFormals s).any (fun f => f.kind == .star) = false := by
    unfold kwFormals
    induction s.kwonly with
    | nil => rfl
    | cons k ks ih =>
      simp only [List.map_cons, List.any_cons, ih, Bool.or_false]
      cases k.2 <;> simp
  have h3 : (star2Formals s).any (fun f => f.kind == .star) = false := by
    unfold star2Formals; cases s.varkw <;> simp
  rw [h1, h1, h2, h3]
  unfold starFormals
  cases s.varargs <;> simp


/-! ### the actuals of a call with `*tuple`s -/

def toAct : Option Nat → Actual
  | none => .pos
  | some k => .star (some k)

theorem posActs_eq_map (pa : List (Option Nat)) : posActs pa = pa.map toAct := by
  induction pa with
  | nil => rfl
  | cons g r ih => cases g <;> simp [posActs, toAct, ih]

theorem starCall_lt {pa : List (Option Nat)} {kws : List Name} {b : Nat} (h : b < pa.length) :
    (starCall pa kws)[b]? = (pa[b]?).map toAct := by
  unfold starCall
  rw [List.getElem?_append_left (by rw [posActs_length]; exact h), posActs_eq_map]
  simp

theorem starCall_ge {pa : List (Option Nat)} {kws : List Name} {b : Nat} (h : pa.length ≤ b) :
    (starCall pa kws)[b]? = (kws[b - pa.length]?).map .named := by
  unfold starCall
  rw [List.getElem?_append_right (by rw [posActs_length]; exact h), posActs_length]
  simp

theorem starCall_cases {pa : List (Option Nat)} {kws : List Name} {b : Nat} {act : Actual}
    (h : (starCall pa kws)[b]? = some act) :
    (b < pa.length ∧ ∃ g, pa[b]? = some g ∧ act = toAct g) ∨
    (pa.length ≤ b ∧ ∃ x, kws[b - pa.length]? = some x ∧ act = .named x) := by
  by_cases hb : b < pa.length
  · rw [starCall_lt hb] at h
    cases hg : pa[b]? with
    | none => simp [hg] at h
    | some g => simp [hg] at h; exact Or.inl ⟨hb, g, rfl, h.symm⟩
  · rw [starCall_ge (by omega)] at h
    cases hx : kws[b - pa.length]? with
    | none => simp [hx] at h
    | some x => simp [hx] at h; exact Or.inr ⟨by omega, x, rfl, h.symm⟩

theorem starCall_named_at {pa : List (Option Nat)} {kws : List Name} {b : Nat} (h1 : pa.length ≤ b)
    (h2 : b < pa.length + kws.length) : ∃ x, (starCall pa kws)[b]? = some (.named x) := by
  rw [starCall_ge h1]
  have : b - pa.length < kws.length := by omega
  exact ⟨kws[b - pa.length], by simp [this]⟩

/-- the actual that owns a position is a positional or a `*tuple` actual -/
theorem owner_act {pa : List (Option Nat)} {kws : List Name} {q o : Nat}
    (h : (owners pa 0)[q]? = some o) : ∃ g, (starCall pa kws)[o]? = some (toAct g) := by
  have := owners_mem pa 0 o (List.mem_iff_getElem?.2 ⟨q, h⟩)
  have ho : o < pa.length := by omega
  rw [starCall_lt ho]
  exact ⟨pa[o], by simp [ho]⟩

theorem toAct_not_keyword (g : Option Nat) : (toAct g).kind = .pos ∨ (toAct g).kind = .star := by
  cases g <;> simp [toAct, Actual.kind]

theorem dup_pair_g (acts : List Actual) (o b : Nat) (g : Option Nat) (x : Name)
    (ho : acts[o]? = some (toAct g)) (hb : acts[b]? = some (.named x)) :
    isDuplicateMapping acts [o, b] = true := by
  cases g <;> simp [isDuplicateMapping, actualKindAt, ho, hb, Actual.kind, toAct]

theorem fnk_g (acts : List Actual) (o : Nat) (r : List Nat) (g : Option Nat)
    (ho : acts[o]? = some (toAct g)) : firstNotKeyword acts (o :: r) = true := by
  cases g <;> simp [firstNotKeyword, actualKindAt, ho, Actual.kind, toAct]

theorem map_star (s : Sig) (pa : List (Option Nat)) (kws : List Name) :
    mapActualsToFormals s.toFormals (starCall pa kws) =
      ownPairs s (owners pa 0) 0 ++ kwPairs s.toFormals pa.length kws := by
  unfold mapActualsToFormals starCall
  simp only
  rw [show ({ fi := 0, pairs := [], ambiguous := [] } : St) = { fi := min 0 s.lns, pairs := [], ambiguous := [] } by
    rw [Nat.zero_min]]
  rw [mapLoop_groups, mapLoop_kw]
  simp

/-! ### the extra-actual test for a positional group -/

theorem group_split {pa : List (Option Nat)} {b : Nat} (h : b < pa.length) :
    ∃ pre g post, pa = pre ++ g :: post ∧ pre.length = b ∧ pa[b]? = some g := by
  refine ⟨pa.take b, pa[b], pa.drop (b + 1), ?_, by simp; omega, by simp [h]⟩
  rw [← List.drop_eq_getElem_cons h, List.take_append_drop]

theorem width_append (xs ys : List (Option Nat)) : width (xs ++ ys) = width xs + width ys := by
  induction xs with
  | nil => simp [width]
  | cons g r ih => cases g <;> simp [width, ih] <;> omega

theorem groupOwners_length (g : Option Nat) (b : Nat) : (groupOwners g b).length = width [g] := by
  cases g <;> simp [groupOwners, width]

theorem extra_group_nil_iff (s : Sig) (pre post : List (Option Nat)) (g : Option Nat) (kws : List Name) :
    (checkExtraOne s.toFormals
        (ownPairs s (owners (pre ++ g :: post) 0) 0 ++ kwPairs s.toFormals (pre ++ g :: post).length kws)
        pre.length (toAct g)).1 = [] ↔
      ∀ j, j < width [g] → posTarget s (width pre + j) ≠ none := by
  have hc := count_group s pre post g kws
  have hle := ownPairs_length_le s (groupOwners g pre.length) (width pre)
  have heq := ownPairs_length_eq_iff s (groupOwners g pre.length) (width pre)
  rw [groupOwners_length] at hle heq
  rw [← heq]
  cases g with
  | none =>
    simp only [toAct]
    rw [extra_pos_nil_iff, hc]
    simp only [width] at hle ⊢
    omega
  | some k =>
    simp only [toAct, width, Nat.add_zero] at hle ⊢
    unfold checkExtraOne
    simp only [hc, Actual.kind, Actual.nonEmptyTuple, hasStar_toFormals]
    cases hv : s.varargs with
    | some v =>
      -- with *args every position has a target
      have hall : (ownPairs s (groupOwners (some k) pre.length) (width pre)).length = k := by
        have := (ownPairs_length_eq_iff s (groupOwners (some k) pre.length) (width pre)).2
        rw [groupOwners_length] at this
        simp only [width, Nat.add_zero] at this
        apply this
        intro j _
        unfold posTarget; split <;> simp [hv]
      rw [hall]
      by_cases hk : k = 0
      · subst hk; simp
      · have : ¬ (k == 0) = true := by simpa using hk
        simp [this]
    | none =>
      simp only [Option.isSome_none, Bool.not_false, Bool.and_true]
      by_cases h0 : ((ownPairs s (groupOwners (some k) pre.length) (width pre)).length == 0 &&
          (AK.star != AK.star || decide (k > 0)) && AK.star != AK.star2) = true
      · rw [if_pos h0]
        simp only [Bool.and_eq_true, Bool.or_eq_true, beq_iff_eq, decide_eq_true_eq] at h0
        have hk : k > 0 := by
          rcases h0.1.2 with h | h
          · simp at h
          · exact h
        simp; omega
      · rw [if_neg h0]
        simp only [Bool.or_false, beq_self_eq_true, if_true]
        by_cases hlt : (ownPairs s (groupOwners (some k) pre.length) (width pre)).length < k
        · simp [hlt]; omega
        · simp [hlt]; omega

/-- which group a position belongs to -/
theorem owner_group : ∀ (pa : List (Option Nat)) (a q o : Nat), (owners pa a)[q]? = some o →
    ∃ pre g post, pa = pre ++ g :: post ∧ o = a + pre.length ∧ width pre ≤ q ∧ q < width pre + width [g] := by
  intro pa
  induction pa with
  | nil => intro a q o h; simp [owners] at h
  | cons g r ih =>
    intro a q o h
    cases g with
    | none =>
      simp only [owners] at h
      cases q with
      | zero =>
        simp at h; subst h
        exact ⟨[], none, r, rfl, by simp, by simp [width], by simp [width]⟩
      | succ q =>
        simp at h
        obtain ⟨pre, g, post, e, ho, h1, h2⟩ := ih (a + 1) q o h
        refine ⟨none :: pre, g, post, by simp [e], by simp; omega, by simp [width]; omega, by simp [width]; omega⟩
    | some k =>
      simp only [owners] at h
      by_cases hq : q < k
      · rw [List.getElem?_append_left (by simpa using hq)] at h
        simp [hq] at h; subst h
        exact ⟨[], some k, r, rfl, by simp, by simp [width], by simp [width]; omega⟩
      · rw [List.getElem?_append_right (by simp; omega)] at h
        simp only [List.length_replicate] at h
        obtain ⟨pre, g, post, e, ho, h1, h2⟩ := ih (a + 1) (q - k) o h
        refine ⟨some k :: pre, g, post, by simp [e], by simp; omega, by simp [width]; omega, by simp [width]; omega⟩


/-! ### `formal_to_actual[i]` and counts for calls with `*tuple`s -/

theorem mapped_star_pos (s : Sig) (os : List Nat) (n : Nat) (kws : List Name) {i : Nat} (hi : i < s.nargs) :
    mapped (ownPairs s os 0 ++ kwPairs s.toFormals n kws) i =
      (os[i]?).toList ++ mapped (kwPairs s.toFormals n kws) i := by
  rw [mapped_append, mapped_ownPairs_lt s (Nat.lt_of_lt_of_le hi (lns_ge s))]
  simp

theorem mapped_star_kwf (s : Sig) (os : List Nat) (n : Nat) (kws : List Name) {j : Nat}
    (hj : j < s.kwonly.length) :
    mapped (ownPairs s os 0 ++ kwPairs s.toFormals n kws) (s.nargs + s.sv + j) =
      (if s.varargs.isSome = false then (os[s.nargs + j]?).toList else []) ++
        mapped (kwPairs s.toFormals n kws) (s.nargs + s.sv + j) := by
  rw [mapped_append]
  congr 1
  cases hv : s.varargs with
  | some v =>
    have hsv : s.sv = 1 := by simp [Sig.sv, hv]
    have : s.lns < s.nargs + s.sv + j := by simp [Sig.lns, hv]; omega
    rw [mapped_ownPairs_gt s this]; simp
  | none =>
    have hsv : s.sv = 0 := by simp [Sig.sv, hv]
    have : s.nargs + s.sv + j < s.lns := by simp [Sig.lns, hv]; omega
    rw [mapped_ownPairs_lt s this, hsv]; simp

theorem count_star_kw (s : Sig) (pa : List (Option Nat)) (kws : List Name) {b : Nat} {x : Name}
    (hb : pa.length ≤ b) (hx : kws[b - pa.length]? = some x) :
    countActual (ownPairs s (owners pa 0) 0 ++ kwPairs s.toFormals pa.length kws) b ≠ 0 ↔
      kwTarget s.toFormals x ≠ none := by
  rw [Ne, countActual_eq_zero]
  constructor
  · intro h hn
    apply h
    intro t hm
    rcases List.mem_append.1 hm with hm | hm
    · rw [mem_ownPairs] at hm
      obtain ⟨q, _, hq, _⟩ := hm
      have := owners_mem pa 0 b (List.mem_iff_getElem?.2 ⟨_, hq⟩)
      omega
    · rw [mem_kwPairs] at hm
      obtain ⟨y, h1, _, h3⟩ := hm
      rw [hx] at h1; injection h1 with h1; subst h1
      rw [hn] at h3; cases h3
  · intro h hall
    cases hp : kwTarget s.toFormals x with
    | none => exact h hp
    | some t =>
      exact hall t (List.mem_append_right _ ((mem_kwPairs _ kws pa.length t b).2 ⟨x, hx, hb, hp⟩))

theorem posTarget_ne_none_of (s : Sig) {N q : Nat} (ha : N ≤ s.nargs ∨ s.varargs.isSome = true) (hq : q < N) :
    posTarget s q ≠ none := by
  unfold posTarget
  rcases ha with h | h
  · have := lns_ge s
    have : q < s.lns := by omega
    simp [this]
  · split <;> simp [h]

/-! ### mypy's model reports nothing ⇔ `CoreOk` at the expanded width -/

theorem mypy_ok_of_coreOk_star (s : Sig) (hwf : s.WF) (pa : List (Option Nat)) (kws : List Name)
    (hk : kws.Nodup) (ok : CoreOk s (width pa) kws) : mypyErrors s.toFormals (starCall pa kws) = [] := by
  rw [mypyErrors_nil_iff, map_star]
  have hlen := owners_length pa 0
  constructor
  · intro b act hb
    rcases starCall_cases hb with ⟨hlt, g, hg, rfl⟩ | ⟨hge, x, hx, rfl⟩
    · obtain ⟨pre, g', post, hpa, hpre, hg'⟩ := group_split hlt
      rw [hg] at hg'; injection hg' with hg'; subst hg'
      subst hpre
      rw [hpa, extra_group_nil_iff]
      intro j hj
      apply posTarget_ne_none_of s ok.a
      rw [hpa, width_append]
      have : width (g :: post) = width [g] + width post := by
        rw [show g :: post = [g] ++ post from rfl, width_append]
      omega
    · rw [extra_named_nil_iff, count_star_kw s pa kws hge hx, kwTarget_ne_none s hwf]
      exact ok.b x (List.mem_iff_getElem?.2 ⟨_, hx⟩)
  · intro i f hf
    rw [checkFormal_nil_iff]
    rcases formal_classify s hf with ⟨hi, hkind⟩ | ⟨_, _, hkind⟩ | ⟨j, hj, hi, hkind⟩ | ⟨_, hkind⟩
    · rw [mapped_star_pos s _ _ kws hi]
      have hns : f.kind.isStar = false := by
        rcases posKind_cases s i with h | h <;> simp [hkind, h, FK.isStar]
      have hnn : f.kind.isNamed = false := by
        rcases posKind_cases s i with h | h <;> simp [hkind, h, FK.isNamed]
      rcases kwM_pos s hwf pa.length kws hk hi with ⟨hm, hno⟩ | ⟨b, x, hm, hb1, hb2, hx, hxs⟩
      · rw [hm]
        refine ⟨?_, ?_, by simp [hnn]⟩
        · rintro ⟨hreq, hemp, _⟩
          rw [hkind, posKind_required] at hreq
          rcases ok.d i (by omega) with h | ⟨x, hx, hxs⟩
          · have : i < (owners pa 0).length := by omega
            simp [this] at hemp
          · exact hno x hx hxs
        · rintro ⟨_, hdup⟩
          cases ho : (owners pa 0)[i]? with
          | none => rw [ho] at hdup; simp [dup_nil] at hdup
          | some o => rw [ho] at hdup; simp [dup_single] at hdup
      · rw [hm]
        have hci := ok.c x hx i hxs
        have hnone : (owners pa 0)[i]? = none := List.getElem?_eq_none (by omega)
        simp only [hnone, Option.toList_none, List.nil_append]
        refine ⟨by simp, by simp [dup_single], by simp [hnn]⟩
    · simp [hkind, FK.isRequired, FK.isStar, FK.isNamed]
    · subst hi
      rw [mapped_star_kwf s _ _ kws hj]
      have hposM : (if s.varargs.isSome = false then ((owners pa 0)[s.nargs + j]?).toList else []) = [] := by
        split
        · rename_i hv
          rcases ok.a with h | h
          · rw [List.getElem?_eq_none (by omega)]; rfl
          · rw [h] at hv; cases hv
        · rfl
      rw [hposM, List.nil_append]
      have hns : f.kind.isStar = false := by rw [hkind]; split <;> simp [FK.isStar]
      rcases kwM_kwf s hwf pa.length kws hk hj with ⟨hm, hno⟩ | ⟨b, x, hm, hb1, hb2, hx, hxs⟩
      · rw [hm]
        refine ⟨?_, by simp [dup_nil], by simp⟩
        rintro ⟨hreq, _, _⟩
        have hnd : (s.kwonly[j]).2 = false := by
          rw [hkind] at hreq
          cases hd : (s.kwonly[j]).2 <;> simp [hd, FK.isRequired] at hreq ⊢
        obtain ⟨x, hx, hxs⟩ := ok.e j hj hnd
        exact hno x hx hxs
      · rw [hm]
        obtain ⟨y, hy⟩ := starCall_named_at (pa := pa) hb1 hb2
        refine ⟨by simp, by simp [dup_single], ?_⟩
        rintro ⟨_, _, hfn⟩
        rw [fnk_named _ b y [] hy] at hfn; cases hfn
    · simp [hkind, FK.isRequired, FK.isStar, FK.isNamed]

theorem coreOk_of_mypy_ok_star (s : Sig) (hwf : s.WF) (pa : List (Option Nat)) (kws : List Name)
    (hk : kws.Nodup) (h : mypyErrors s.toFormals (starCall pa kws) = []) : CoreOk s (width pa) kws := by
  rw [mypyErrors_nil_iff, map_star] at h
  obtain ⟨hex, hfo⟩ := h
  have hlen := owners_length pa 0
  have hown : ∀ {q : Nat}, q < width pa → ∃ o, (owners pa 0)[q]? = some o := by
    intro q hq
    exact ⟨(owners pa 0)[q]'(by omega), by simp [hlen, hq]⟩
  have ha : width pa ≤ s.nargs ∨ s.varargs.isSome = true := by
    by_cases hv : s.varargs.isSome = true
    · exact Or.inr hv
    · left
      apply Nat.le_of_not_lt
      intro hgt
      have hvn : s.varargs = none := by cases hvv : s.varargs <;> simp [hvv] at hv ⊢
      have hsv : s.sv = 0 := by simp [Sig.sv, hvn]
      obtain ⟨o, ho⟩ := hown hgt
      by_cases hK : s.kwonly.length = 0
      · -- position nargs has no formal: its actual is reported
        obtain ⟨pre, g, post, hpa, hob, hq1, hq2⟩ := owner_group pa 0 s.nargs o ho
        have hact : (starCall pa kws)[pre.length]? = some (toAct g) := by
          rw [starCall_lt (by rw [hpa]; simp)]
          simp [hpa]
        have h1 := hex _ _ hact
        have h1' := h1
        rw [hpa, extra_group_nil_iff] at h1'
        have := h1' (s.nargs - width pre) (by omega)
        apply this
        have e : width pre + (s.nargs - width pre) = s.nargs := by omega
        rw [e]
        simp [posTarget, Sig.lns, hvn, hK]
      · have hj : 0 < s.kwonly.length := by omega
        have hf := formal_kw s hj
        have h1 := hfo _ _ hf
        rw [checkFormal_nil_iff, mapped_star_kwf s _ _ kws hj] at h1
        have hvf : s.varargs.isSome = false := by simp [hvn]
        have ho' : (owners pa 0)[s.nargs + 0]? = some o := by simpa using ho
        simp only [hvf, if_true, ho', Option.toList_some] at h1
        have hnamed : (if (s.kwonly[0]).2 = true then FK.namedOpt else FK.named).isNamed = true := by
          split <;> rfl
        have hnstar : (if (s.kwonly[0]).2 = true then FK.namedOpt else FK.named).isStar = false := by
          split <;> rfl
        obtain ⟨g, hg⟩ := owner_act (kws := kws) ho
        rcases kwM_kwf s hwf pa.length kws hk hj with ⟨hm, _⟩ | ⟨b, x, hm, hb1, hb2, _, _⟩
        · rw [hm] at h1
          apply h1.2.2
          exact ⟨hnamed, by simp, fnk_g _ _ _ g hg⟩
        · rw [hm] at h1
          obtain ⟨y, hy⟩ := starCall_named_at (pa := pa) hb1 hb2
          apply h1.2.1
          exact ⟨hnstar, dup_pair_g _ _ _ g y hg hy⟩
  refine ⟨ha, ?_, ?_, ?_, ?_⟩
  · intro x hx
    obtain ⟨c, hc⟩ := List.mem_iff_getElem?.1 hx
    have hact : (starCall pa kws)[pa.length + c]? = some (.named x) := by
      rw [starCall_ge (by omega)]; simp [hc]
    have h1 := hex _ _ hact
    rw [extra_named_nil_iff, count_star_kw s pa kws (by omega) (by simpa using hc),
      kwTarget_ne_none s hwf] at h1
    exact h1
  · intro x hx j hjs
    apply Nat.le_of_not_lt
    intro hlt
    have hj : j < s.nargs := by omega
    obtain ⟨f, hf, hkind, _⟩ := formal_pos s hj
    have h1 := hfo _ _ hf
    rw [checkFormal_nil_iff, mapped_star_pos s _ _ kws hj] at h1
    obtain ⟨o, ho⟩ := hown (show j < width pa by omega)
    simp only [ho, Option.toList_some] at h1
    have hns : f.kind.isStar = false := by
      rcases posKind_cases s j with h | h <;> simp [hkind, h, FK.isStar]
    obtain ⟨g, hg⟩ := owner_act (kws := kws) ho
    rcases kwM_pos s hwf pa.length kws hk hj with ⟨_, hno⟩ | ⟨b, y, hm, hb1, hb2, _, _⟩
    · exact hno x hx hjs
    · rw [hm] at h1
      obtain ⟨z, hz⟩ := starCall_named_at (pa := pa) hb1 hb2
      exact h1.2.1 ⟨hns, dup_pair_g _ _ _ g z hg hz⟩
  · intro i hi
    have hin : i < s.nargs := by omega
    obtain ⟨f, hf, hkind, _⟩ := formal_pos s hin
    have h1 := hfo _ _ hf
    rw [checkFormal_nil_iff, mapped_star_pos s _ _ kws hin] at h1
    by_cases hlt : i < width pa
    · exact Or.inl hlt
    · right
      have hnone : (owners pa 0)[i]? = none := List.getElem?_eq_none (by omega)
      simp only [hnone, Option.toList_none, List.nil_append] at h1
      rcases kwM_pos s hwf pa.length kws hk hin with ⟨hm, _⟩ | ⟨b, x, _, _, _, hx, hxs⟩
      · exfalso
        apply h1.1
        refine ⟨?_, hm, by simp⟩
        rw [hkind, posKind_required]; omega
      · exact ⟨x, hx, hxs⟩
  · intro j hj hreq
    have hf := formal_kw s hj
    have h1 := hfo _ _ hf
    rw [checkFormal_nil_iff, mapped_star_kwf s _ _ kws hj] at h1
    have hposM : (if s.varargs.isSome = false then ((owners pa 0)[s.nargs + j]?).toList else []) = [] := by
      split
      · rename_i hv
        rcases ha with h | h
        · rw [List.getElem?_eq_none (by omega)]; rfl
        · rw [h] at hv; cases hv
      · rfl
    rw [hposM, List.nil_append] at h1
    rcases kwM_kwf s hwf pa.length kws hk hj with ⟨hm, _⟩ | ⟨b, x, _, _, _, hx, hxs⟩
    · exfalso
      apply h1.1
      refine ⟨?_, hm, by simp⟩
      simp [hreq, FK.isRequired]
    · exact ⟨x, hx, hxs⟩

theorem mypy_ok_iff_star (s : Sig) (hwf : s.WF) (pa : List (Option Nat)) (kws : List Name) (hk : kws.Nodup) :
    mypyErrors s.toFormals (starCall pa kws) = [] ↔ CoreOk s (width pa) kws :=
  ⟨coreOk_of_mypy_ok_star s hwf pa kws hk, mypy_ok_of_coreOk_star s hwf pa kws hk⟩

/-! ### the call site: `*tuple`s are flattened -/

theorem evalCall_groups (rest : List Actual) : ∀ (pa : List (Option Nat)) (n : Nat) (acc : List Name),
    evalCall (posActs pa ++ rest) n acc = evalCall rest (n + width pa) acc := by
  intro pa
  induction pa with
  | nil => intro n acc; simp [posActs, width]
  | cons g r ih =>
    intro n acc
    cases g with
    | none =>
      simp only [posActs, List.cons_append, evalCall, ih, width]
      congr 1; omega
    | some k =>
      simp only [posActs, List.cons_append, evalCall, ih, width]
      congr 1; omega

theorem pyCall_star (s : Sig) (pa : List (Option Nat)) (kws : List Name) (hk : kws.Nodup) :
    pyCall s (starCall pa kws) = some (pyBind s (width pa) kws) := by
  unfold pyCall starCall
  rw [evalCall_groups, evalCall_kws kws _ [] (by simpa using hk)]
  simp

end PyBind
