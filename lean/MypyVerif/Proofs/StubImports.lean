import MypyVerif.Model.StubImports
/-!
Helper lemmas for C19 (c): association-list dictionaries, monotonicity of the tracker's tables.
Core Lean only.
-/
namespace StubImports

section dict
variable {κ ν : Type} [DecidableEq κ]

theorem lookup_erase_ne (k k' : κ) (d : List (κ × ν)) (h : k' ≠ k) : lookup k (erase k' d) = lookup k d := by
  induction d with
  | nil => rfl
  | cons p r ih =>
    obtain ⟨a, v⟩ := p
    by_cases ha : a = k'
    · subst ha
      have : lookup k ((a, v) :: r) = lookup k r := by simp [lookup, h]
      rw [this, ← ih]
      simp [erase]
    · have : erase k' ((a, v) :: r) = (a, v) :: erase k' r := by simp [erase, ha]
      rw [this]
      simp only [lookup, ih]

theorem lookup_insert_self (k : κ) (v : ν) (d : List (κ × ν)) : lookup k (insert k v d) = some v := by
  simp [insert, lookup]

theorem lookup_insert_ne (k k' : κ) (v : ν) (d : List (κ × ν)) (h : k' ≠ k) :
    lookup k (insert k' v d) = lookup k d := by
  simp only [insert, lookup, h, ↓reduceIte]
  exact lookup_erase_ne k k' d h

theorem hasKey_insert (k k' : κ) (v : ν) (d : List (κ × ν)) :
    hasKey k (insert k' v d) = (decide (k' = k) || hasKey k d) := by
  by_cases h : k' = k
  · subst h; simp [hasKey, lookup_insert_self]
  · simp [hasKey, lookup_insert_ne k k' v d h, h]

theorem hasKey_insert_mono (k k' : κ) (v : ν) (d : List (κ × ν)) (h : hasKey k d = true) :
    hasKey k (insert k' v d) = true := by
  rw [hasKey_insert, h, Bool.or_true]

theorem mem_addSet (k x : κ) (s : List κ) : x ∈ addSet k s ↔ x = k ∨ x ∈ s := by
  unfold addSet
  split
  · constructor
    · intro h; exact Or.inr h
    · intro h; rcases h with rfl | h
      · assumption
      · exact h
  · simp

theorem lookup_some_mem (k : κ) (v : ν) (d : List (κ × ν)) (h : lookup k d = some v) : (k, v) ∈ d := by
  induction d with
  | nil => simp [lookup] at h
  | cons p r ih =>
    obtain ⟨a, w⟩ := p
    simp only [lookup] at h
    split at h
    · rename_i hk; subst hk; simp at h; subst h; simp
    · simp [ih h]

theorem mem_erase (p : κ × ν) (k : κ) (d : List (κ × ν)) (h : p ∈ erase k d) : p ∈ d := by
  simp only [erase, List.mem_filter] at h; exact h.1

theorem mem_insert (p : κ × ν) (k : κ) (v : ν) (d : List (κ × ν)) (h : p ∈ insert k v d) : p = (k, v) ∨ p ∈ d := by
  simp only [insert, List.mem_cons] at h
  rcases h with h | h
  · exact Or.inl h
  · exact Or.inr (mem_erase p k d h)

end dict

/-! ### the name recorded by `require_name` is a prefix of the requested name -/

theorem stripRev_suffix (direct : List (DName × DName)) (l : List Ident) : stripRev direct l <:+ l := by
  match l with
  | [] => exact List.suffix_refl _
  | [x] => exact List.suffix_refl _
  | x :: y :: rest =>
    simp only [stripRev]
    split
    · exact List.suffix_refl _
    · exact List.IsSuffix.trans (stripRev_suffix direct (y :: rest)) (List.suffix_cons x (y :: rest))

theorem requireTarget_prefix (direct : List (DName × DName)) (q : DName) : requireTarget direct q <+: q := by
  unfold requireTarget
  have := stripRev_suffix direct q.reverse
  rw [← List.reverse_prefix] at this
  simpa using this

theorem stripRev_ne_nil (direct : List (DName × DName)) (l : List Ident) (h : l ≠ []) : stripRev direct l ≠ [] := by
  match l with
  | [] => exact absurd rfl h
  | [x] => simp [stripRev]
  | x :: y :: rest =>
    simp only [stripRev]
    split
    · simp
    · exact stripRev_ne_nil direct (y :: rest) (by simp)

theorem requireTarget_ne_nil (direct : List (DName × DName)) (q : DName) (h : q ≠ []) : requireTarget direct q ≠ [] := by
  unfold requireTarget
  intro hc
  have : stripRev direct q.reverse = [] := by simpa using hc
  exact stripRev_ne_nil direct q.reverse (by simpa using h) this

/-! ### monotonicity: keys of `module_for` and members of `required_names` are never removed -/

def KeysMono (t t' : Tracker) : Prop :=
  (∀ k, hasKey k t.moduleFor = true → hasKey k t'.moduleFor = true) ∧ (∀ r, r ∈ t.required → r ∈ t'.required)

theorem KeysMono.refl (t : Tracker) : KeysMono t t := ⟨fun _ h => h, fun _ h => h⟩
theorem KeysMono.trans {a b c : Tracker} (h1 : KeysMono a b) (h2 : KeysMono b c) : KeysMono a c :=
  ⟨fun k h => h2.1 k (h1.1 k h), fun r h => h2.2 r (h1.2 r h)⟩

theorem requireName_mono (t : Tracker) (n : DName) : KeysMono t (t.requireName n) :=
  ⟨fun _ h => h, fun r h => by simp only [Tracker.requireName]; exact (mem_addSet _ _ _).2 (Or.inr h)⟩

theorem reexport_mono (t : Tracker) (n : DName) : KeysMono t (t.reexport n) := by
  have := requireName_mono t n
  exact ⟨fun k h => by simpa [Tracker.reexport] using this.1 k h,
         fun r h => by simpa [Tracker.reexport] using this.2 r h⟩

theorem addFromOne_mono (t : Tracker) (m : Ident) (req : Bool) (na : Ident × Option Ident) :
    KeysMono t (t.addFromOne m req na) := by
  obtain ⟨n, a⟩ := na
  unfold Tracker.addFromOne
  cases a with
  | some a =>
    cases req
    · exact ⟨fun k h => by simpa using hasKey_insert_mono k _ _ _ h, fun r h => by simpa using h⟩
    · refine ⟨fun k h => by simpa [Tracker.requireName] using hasKey_insert_mono k _ _ _ h, fun r h => ?_⟩
      simp only [↓reduceIte, Tracker.requireName]
      exact (mem_addSet _ _ _).2 (Or.inr h)
  | none =>
    cases req
    · exact ⟨fun k h => by simpa using hasKey_insert_mono k _ _ _ h, fun r h => by simpa using h⟩
    · refine ⟨fun k h => by simpa [Tracker.requireName] using hasKey_insert_mono k _ _ _ h, fun r h => ?_⟩
      simp only [↓reduceIte, Tracker.requireName]
      exact (mem_addSet _ _ _).2 (Or.inr h)

theorem foldl_mono {α : Type} (f : Tracker → α → Tracker) (hf : ∀ t a, KeysMono t (f t a)) (l : List α) (t : Tracker) :
    KeysMono t (l.foldl f t) := by
  induction l generalizing t with
  | nil => exact KeysMono.refl t
  | cons a r ih => exact KeysMono.trans (hf t a) (ih (f t a))

theorem addImportFrom_mono (t : Tracker) (m : Ident) (ns : List (Ident × Option Ident)) (req : Bool) :
    KeysMono t (t.addImportFrom m ns req) :=
  foldl_mono _ (fun t na => addFromOne_mono t m req na) ns t

theorem addImport_mono (t : Tracker) (m : DName) (a : Option Ident) (req : Bool) : KeysMono t (t.addImport m a req) := by
  unfold Tracker.addImport
  cases a with
  | some a =>
    refine ⟨fun k h => by simpa using hasKey_insert_mono k _ _ _ h, fun r h => ?_⟩
    simp only
    split
    · exact (mem_addSet _ _ _).2 (Or.inr h)
    · exact h
  | none =>
    simp only
    refine KeysMono.trans (b := { t with required := if req then addSet m t.required else t.required }) ?_ ?_
    · refine ⟨fun _ h => h, fun r h => ?_⟩
      simp only
      split
      · exact (mem_addSet _ _ _).2 (Or.inr h)
      · exact h
    · apply foldl_mono
      intro t n
      exact ⟨fun k h => by simpa using hasKey_insert_mono k _ _ _ h, fun r h => by simpa using h⟩

theorem step_mono (t : Tracker) (op : Op) : KeysMono t (t.step op) := by
  cases op with
  | addImportFrom m ns r => exact addImportFrom_mono t m ns r
  | addImport m a r => exact addImport_mono t m a r
  | requireName n => exact requireName_mono t n
  | reexport n => exact reexport_mono t n

theorem runOps_mono (ops : List Op) (t : Tracker) : KeysMono t (runOps ops t) :=
  foldl_mono _ step_mono ops t

/-! ### invariant: every key of `module_for` is a non-empty name -/

def KeysNE (t : Tracker) : Prop := ∀ p ∈ t.moduleFor, p.1 ≠ []

theorem nePrefixes_ne (m n : DName) (h : n ∈ nePrefixes m) : n ≠ [] := by
  simp only [nePrefixes, List.mem_map, List.mem_range] at h
  obtain ⟨i, hi, rfl⟩ := h
  intro hc
  have := congrArg List.length hc
  simp at this
  omega

theorem self_mem_nePrefixes (m : DName) (h : m ≠ []) : m ∈ nePrefixes m := by
  simp only [nePrefixes, List.mem_map, List.mem_range]
  refine ⟨0, ?_, by simp⟩
  cases m with
  | nil => exact absurd rfl h
  | cons _ _ => simp

theorem requireName_keysNE (t : Tracker) (n : DName) (h : KeysNE t) : KeysNE (t.requireName n) := h
theorem reexport_keysNE (t : Tracker) (n : DName) (h : KeysNE t) : KeysNE (t.reexport n) := h

theorem addFromOne_keysNE (t : Tracker) (m : Ident) (req : Bool) (na : Ident × Option Ident) (h : KeysNE t) :
    KeysNE (t.addFromOne m req na) := by
  obtain ⟨n, a⟩ := na
  unfold Tracker.addFromOne
  intro p hp
  cases a <;> cases req <;> simp only [Tracker.requireName, ↓reduceIte, Bool.false_eq_true] at hp <;>
    (rcases mem_insert p _ _ _ hp with rfl | hp'
     · simp
     · exact h p hp')

theorem foldl_keysNE {α : Type} (f : Tracker → α → Tracker) (hf : ∀ t a, KeysNE t → KeysNE (f t a)) (l : List α)
    (t : Tracker) (h : KeysNE t) : KeysNE (l.foldl f t) := by
  induction l generalizing t with
  | nil => exact h
  | cons a r ih => exact ih (f t a) (hf t a h)

theorem addImport_keysNE (t : Tracker) (m : DName) (a : Option Ident) (req : Bool) (h : KeysNE t) :
    KeysNE (t.addImport m a req) := by
  unfold Tracker.addImport
  cases a with
  | some a =>
    intro p hp
    rcases mem_insert p _ _ _ hp with rfl | hp'
    · simp
    · exact h p hp'
  | none =>
    simp only
    -- generalise over the list of prefixes: all of them are non-empty
    have key : ∀ (l : List DName) (t0 : Tracker), (∀ n ∈ l, n ≠ []) → KeysNE t0 →
        KeysNE (l.foldl (fun t n => { t with moduleFor := insert n none t.moduleFor, direct := insert n m t.direct,
                                               revAlias := erase n t.revAlias }) t0) := by
      intro l
      induction l with
      | nil => intro t0 _ h0; exact h0
      | cons n r ih =>
        intro t0 hl h0
        apply ih _ (fun x hx => hl x (by simp [hx]))
        intro p hp
        rcases mem_insert p _ _ _ hp with rfl | hp'
        · exact hl n (by simp)
        · exact h0 p hp'
    exact key _ _ (fun n hn => nePrefixes_ne m n hn) h

theorem step_keysNE (t : Tracker) (op : Op) (h : KeysNE t) : KeysNE (t.step op) := by
  cases op with
  | addImportFrom m ns r => exact foldl_keysNE _ (fun t na => addFromOne_keysNE t m r na) ns t h
  | addImport m a r => exact addImport_keysNE t m a r h
  | requireName n => exact h
  | reexport n => exact h

theorem runOps_keysNE (ops : List Op) (t : Tracker) (h : KeysNE t) : KeysNE (runOps ops t) :=
  foldl_keysNE _ step_keysNE ops t h

theorem runOps_append (a b : List Op) (t : Tracker) : runOps (a ++ b) t = runOps b (runOps a t) := by
  simp [runOps, List.foldl_append]

/-- the line emitted for an imported required name binds that name -/
theorem lineFor_binds (t : Tracker) (r : DName) (hk : hasKey r t.moduleFor = true) (hne : r ≠ []) :
    ∃ l, t.lineFor r = some l ∧ r ∈ l.binds := by
  unfold hasKey at hk
  unfold Tracker.lineFor
  cases hm : lookup r t.moduleFor with
  | none => rw [hm] at hk; cases hk
  | some m =>
    cases m with
    | some mod =>
      cases ha : lookup r t.revAlias with
      | some orig => exact ⟨_, rfl, by simp [Line.binds]⟩
      | none =>
        simp only
        split
        · exact ⟨_, rfl, by simp [Line.binds]⟩
        · exact ⟨_, rfl, by simp [Line.binds]⟩
    | none =>
      cases ha : lookup r t.revAlias with
      | some src => exact ⟨_, rfl, by simp [Line.binds]⟩
      | none =>
        simp only
        split
        · exact ⟨_, rfl, by simp [Line.binds]⟩
        · exact ⟨_, rfl, by simpa [Line.binds] using self_mem_nePrefixes r hne⟩

end StubImports
