import MypyVerif.Proofs.LayoutList
/-!
The duplicate-module test of the C18 model does not depend on the order of the command-line arguments.
-/
namespace Layout

variable (fs : FS) (o : Opts)

theorem firstDuplicate_isSome_iff : ∀ (srcs : List Src) (seen : List (List Name)),
    (firstDuplicate srcs seen).isSome = true ↔
      (∃ s ∈ srcs, s.modId ∈ seen) ∨ ¬ (srcs.map Src.modId).Nodup := by
  intro srcs
  induction srcs with
  | nil => intro seen; simp [firstDuplicate]
  | cons s ss ih =>
    intro seen
    simp only [firstDuplicate]
    by_cases hc : seen.contains s.modId = true
    · simp only [hc, if_true, Option.isSome_some, true_iff]
      exact Or.inl ⟨s, by simp, by simpa using hc⟩
    · have hns : s.modId ∉ seen := by simpa using hc
      have hc' : seen.contains s.modId = false := by simpa using hc
      rw [hc']
      simp only [Bool.false_eq_true, if_false]
      rw [ih]
      have hnd : (List.map Src.modId (s :: ss)).Nodup ↔ s.modId ∉ ss.map Src.modId ∧ (ss.map Src.modId).Nodup := by
        simp [List.nodup_cons]
      rw [hnd]
      constructor
      · rintro (⟨s', hs', h⟩ | h)
        · rw [List.mem_cons] at h
          rcases h with h | h
          · right
            intro hh
            exact hh.1 (by rw [← h]; exact List.mem_map_of_mem hs')
          · exact Or.inl ⟨s', List.mem_cons_of_mem _ hs', h⟩
        · right; intro hh; exact h hh.2
      · rintro (⟨s', hs', h⟩ | h)
        · rw [List.mem_cons] at hs'
          rcases hs' with rfl | hs'
          · exact absurd h hns
          · exact Or.inl ⟨s', hs', List.mem_cons_of_mem _ h⟩
        · by_cases hm : s.modId ∈ ss.map Src.modId
          · rw [List.mem_map] at hm
            obtain ⟨a, ha, he⟩ := hm
            exact Or.inl ⟨a, ha, by rw [he]; exact List.mem_cons_self⟩
          · right
            intro hnd'
            exact h ⟨hm, hnd'⟩

/-- load_graph's duplicate test on the initial sources fires exactly when two sources share a module id -/
theorem firstDuplicate_isSome (srcs : List Src) :
    (firstDuplicate srcs []).isSome = true ↔ ¬ (srcs.map Src.modId).Nodup := by
  rw [firstDuplicate_isSome_iff]
  simp

/-- … and therefore does not depend on the order of the sources -/
theorem firstDuplicate_perm {srcs srcs' : List Src} (h : srcs.Perm srcs') :
    (firstDuplicate srcs []).isSome = (firstDuplicate srcs' []).isSome := by
  have h1 := firstDuplicate_isSome srcs
  have h2 := firstDuplicate_isSome srcs'
  have h3 : (srcs.map Src.modId).Nodup ↔ (srcs'.map Src.modId).Nodup := (h.map Src.modId).nodup_iff
  cases ha : (firstDuplicate srcs []).isSome <;> cases hb : (firstDuplicate srcs' []).isSome <;> simp_all

/-- permuting the command-line arguments permutes the build sources (and keeps success / failure) -/
theorem createSourceList_perm {fuel : Nat} {args args' : List Path} (h : args.Perm args') :
    ∀ srcs, createSourceList fs o fuel args = .ok srcs →
      ∃ srcs', createSourceList fs o fuel args' = .ok srcs' ∧ srcs.Perm srcs' := by
  induction h with
  | nil => intro srcs hs; exact ⟨srcs, hs, List.Perm.refl _⟩
  | cons x _ ih =>
    intro srcs hs
    simp only [createSourceList] at hs ⊢
    cases hx : sourcesOfArg fs o fuel x with
    | error e => rw [hx] at hs; cases hs
    | ok l =>
      rw [hx] at hs
      simp only at hs ⊢
      split at hs
      · cases hs
      · next more hm =>
        simp only [Except.ok.injEq] at hs
        subst hs
        obtain ⟨more', hm', hp⟩ := ih more hm
        rw [hm']
        exact ⟨l ++ more', rfl, List.Perm.append_left l hp⟩
  | swap x y l =>
    intro srcs hs
    simp only [createSourceList] at hs ⊢
    cases hy : sourcesOfArg fs o fuel y with
    | error e => rw [hy] at hs; cases hs
    | ok ly =>
      rw [hy] at hs
      simp only at hs
      cases hx : sourcesOfArg fs o fuel x with
      | error e => rw [hx] at hs; cases hs
      | ok lx =>
        rw [hx] at hs
        simp only at hs ⊢
        cases hl : createSourceList fs o fuel l with
        | error e => rw [hl] at hs; cases hs
        | ok rest =>
          rw [hl] at hs
          simp only [Except.ok.injEq] at hs
          subst hs
          refine ⟨lx ++ (ly ++ rest), rfl, ?_⟩
          rw [← List.append_assoc, ← List.append_assoc]
          exact List.Perm.append_right rest List.perm_append_comm
  | trans _ _ ih1 ih2 =>
    intro srcs hs
    obtain ⟨s1, h1, p1⟩ := ih1 srcs hs
    obtain ⟨s2, h2, p2⟩ := ih2 s1 h1
    exact ⟨s2, h2, p1.trans p2⟩

end Layout
