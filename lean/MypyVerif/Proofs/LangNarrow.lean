import MypyVerif.Proofs.LangEnv
/-
Soundness of isinstance / None narrowing (`instMaps`, `noneMaps`), of `update_from_options` (`mergeEnvs`) and
of the fixpoint test (`envLe`).
-/
namespace Lang

/-! ## isinstance -/

theorem commonSub_of {P : Prog} {c d k : Nat} {kd : ClassDef} (hk : P.classes[k]? = some kd)
    (h1 : isSub P k c = true) (h2 : isSub P k d = true) : commonSub P c d = true := by
  simp only [commonSub, List.any_eq_true, List.mem_range, Bool.and_eq_true]
  refine ⟨k, ?_, h1, h2⟩
  rcases Nat.lt_or_ge k P.classes.length with h | h
  · exact h
  · have : P.classes[k]? = none := by simp; exact h
    rw [this] at hk; cases hk

/-- `hcs`: the item is not one that `conditional_types` drops although a common subclass exists -/
theorem instAtom_yes {P : Prog} (w : WF P) {h : Heap} (hh : HeapOK P h) {v : Val} {c : Nat} {a : Atom}
    (hcs : dropsInhabited P c a = false)
    (ha : hasAtom P h v a) (hc : hasAtom P h v (.cls c)) : hasTy P h v (instAtom P c a).1 := by
  unfold instAtom
  split
  · exact ⟨a, by simp, ha⟩
  · next hns =>
    cases a with
    | object => exact ⟨.cls c, by simp, hc⟩
    | cls d =>
      simp only
      split
      · exact ⟨.cls c, by simp, hc⟩
      · next hcd =>
        exfalso
        cases v <;> simp [hasAtom] at ha hc
        next l =>
        obtain ⟨k, hk, hkd⟩ := ha
        obtain ⟨k', hk', hkc⟩ := hc
        rw [hk] at hk'; cases hk'
        -- the runtime class is a common subclass of d and c
        obtain ⟨o, ho, hoc⟩ : ∃ o, h[l]? = some o ∧ o.cls = k := by
          unfold classOf at hk
          cases ho : h[l]? with
          | none => simp [ho] at hk
          | some o => simp [ho] at hk; exact ⟨o, rfl, hk⟩
        obtain ⟨⟨kd, hkcls⟩, _⟩ := hh l o ho
        rw [hoc] at hkcls
        have hcom := commonSub_of hkcls hkc hkd
        simp only [dropsInhabited, hcom, Bool.and_true, Bool.and_eq_false_iff, Bool.not_eq_false'] at hcs
        rcases hcs with h1 | h1
        · simp [subAtom, h1] at hns
        · exact hcd h1
    | int => cases v <;> simp [hasAtom] at ha hc
    | str => cases v <;> simp [hasAtom] at ha hc
    | bool => cases v <;> simp [hasAtom] at ha hc
    | none => cases v <;> simp [hasAtom] at ha hc

theorem instAtom_no {P : Prog} (w : WF P) {h : Heap} {v : Val} {c : Nat} {a : Atom}
    (ha : hasAtom P h v a) (hc : ¬ hasAtom P h v (.cls c)) : hasTy P h v (instAtom P c a).2 := by
  unfold instAtom
  split
  · next hs => exact absurd (subAtom_sound w hs ha) hc
  · cases a with
    | cls d => simp only; split <;> exact ⟨_, by simp, ha⟩
    | _ => exact ⟨_, by simp, ha⟩

theorem instAtom_no_ne (P : Prog) (c : Nat) (a : Atom) (h : subAtom P a (.cls c) = false) : (instAtom P c a).2 ≠ [] := by
  cases a with
  | cls d =>
    simp only [instAtom, h]
    by_cases hcd : isSub P c d = true <;> simp [hcd]
  | _ => simp [instAtom, h]

theorem isEmpty_false_ne {α : Type} {l : List α} (h : l.isEmpty = false) : l ≠ [] := by
  intro hc; subst hc; simp at h

theorem hasTy_nil {P : Prog} {h : Heap} {v : Val} : ¬ hasTy P h v [] := by
  rintro ⟨a, ha, _⟩; simp at ha

/-- shared by isinstance and `is None`: `ct` = the test succeeds at run time -/
theorem narrowResult_sound {P : Prog} {x : Nat} {Y N : Ty} {ai : Bool} {ms : CMap × CMap}
    (hm : narrowResult x Y N ai = .ok ms) {σ : Store} {h : Heap} {v : Val} (hx : getVar σ x = some v)
    (ct : Prop) (hy : ct → hasTy P h v Y) (hn : ¬ ct → hasTy P h v N) :
    (ct → MapOK P h σ ms.1) ∧ (¬ ct → MapOK P h σ ms.2) := by
  have single : ∀ U : Ty, hasTy P h v U → MapOK P h σ (some [(x, U)]) := by
    intro U hu
    apply MapOK.single (fun hc => hasTy_nil (hc ▸ hu))
    intro v' hv'; rw [hx] at hv'; cases hv'; exact hu
  unfold narrowResult at hm
  cases hYe : Y.isEmpty with
  | true =>
    have hY : Y = [] := by simpa using hYe
    simp only [hYe, if_true] at hm
    cases ai with
    | true => simp at hm
    | false =>
      simp at hm; subst hm
      exact ⟨fun c => absurd (hY ▸ hy c) hasTy_nil, fun c => single _ (hn c)⟩
  | false =>
    simp only [hYe] at hm
    cases hNe : N.isEmpty with
    | true =>
      have hN : N = [] := by simpa using hNe
      simp [hNe] at hm; subst hm
      exact ⟨fun c => single _ (hy c), fun c => absurd (hN ▸ hn c) hasTy_nil⟩
    | false =>
      simp [hNe] at hm; subst hm
      exact ⟨fun c => single _ (hy c), fun c => single _ (hn c)⟩

theorem instMaps_sound {P : Prog} (w : WF P) {x c : Nat} {T : Ty} {ms : CMap × CMap}
    (hm : instMaps P x c T = .ok ms) {σ : Store} {h : Heap} (hh : HeapOK P h) {v : Val}
    (hx : getVar σ x = some v) (hv : hasTy P h v T) :
    (hasAtom P h v (.cls c) → MapOK P h σ ms.1) ∧ (¬ hasAtom P h v (.cls c) → MapOK P h σ ms.2) := by
  have single : ∀ U : Ty, hasTy P h v U → MapOK P h σ (some [(x, U)]) := by
    intro U hu
    apply MapOK.single (fun hc => hasTy_nil (hc ▸ hu))
    intro v' hv'; rw [hx] at hv'; cases hv'; exact hu
  obtain ⟨a', ha', hva⟩ := hv
  match T, hm, ha' with
  | [], hm, _ => simp [instMaps] at hm
  | [a], hm, ha' =>
    simp at ha'; subst ha'
    simp only [instMaps] at hm
    cases hs : subAtom P a' (.cls c) with
    | true =>
      simp [hs] at hm; subst hm
      exact ⟨fun _ => MapOK.noInfo, fun hn => absurd (subAtom_sound w hs hva) hn⟩
    | false =>
      simp only [hs] at hm
      -- a single class item unrelated to C gives an empty `yes` and is refused (ad-hoc intersection)
      have hdrop : (instAtom P c a').1.isEmpty = false → dropsInhabited P c a' = false := by
        intro he
        cases a' with
        | cls d =>
          simp only [dropsInhabited]
          simp only [instAtom, hs] at he
          by_cases hcd : isSub P c d = true
          · simp [hcd]
          · simp [hcd] at he
        | _ => rfl
      cases he : (instAtom P c a').1.isEmpty with
      | true =>
        have hE : (instAtom P c a').1 = [] := by simpa using he
        simp only [he, if_true] at hm
        cases hi : isInstanceAtom a' with
        | true => simp [hi] at hm
        | false =>
          simp [hi] at hm; subst hm
          have hd : dropsInhabited P c a' = false := by
            cases a' <;> simp [isInstanceAtom] at hi <;> rfl
          exact ⟨fun hc => absurd (hE ▸ instAtom_yes w hh hd hva hc) hasTy_nil, fun _ => MapOK.noInfo⟩
      | false =>
        simp [he] at hm; subst hm
        exact ⟨fun hc => single _ (instAtom_yes w hh (hdrop he) hva hc), fun hn => single _ (instAtom_no w hva hn)⟩
  | a :: b :: r, hm, ha' =>
    have e : instMaps P x c (a :: b :: r) =
        if (a :: b :: r).any (dropsInhabited P c) then .error (.hole 3) else
        narrowResult x (unionTys P ((a :: b :: r).map fun a => (instAtom P c a).1))
          (unionTys P ((a :: b :: r).map fun a => (instAtom P c a).2)) ((a :: b :: r).all isInstanceAtom) := rfl
    rw [e] at hm
    split at hm
    · cases hm
    · next hany =>
      have hd : dropsInhabited P c a' = false := by
        cases hda : dropsInhabited P c a' with
        | false => rfl
        | true => exact absurd (List.any_eq_true.mpr ⟨a', ha', hda⟩) hany
      exact narrowResult_sound hm hx _
        (fun hc => unionTys_sound w (List.mem_map.mpr ⟨a', ha', rfl⟩) (instAtom_yes w hh hd hva hc))
        (fun hn => unionTys_sound w (List.mem_map.mpr ⟨a', ha', rfl⟩) (instAtom_no w hva hn))

/-! ## `is None` -/

theorem noneMaps_sound {P : Prog} {x : Nat} {T : Ty} {ms : CMap × CMap}
    (hm : noneMaps x T = .ok ms) {σ : Store} {h : Heap} {v : Val}
    (hx : getVar σ x = some v) (hv : hasTy P h v T) :
    (v = .none → MapOK P h σ ms.1) ∧ (¬ v = .none → MapOK P h σ ms.2) := by
  have single : ∀ U : Ty, hasTy P h v U → MapOK P h σ (some [(x, U)]) := by
    intro U hu
    apply MapOK.single (fun hc => hasTy_nil (hc ▸ hu))
    intro v' hv'; rw [hx] at hv'; cases hv'; exact hu
  obtain ⟨a', ha', hva⟩ := hv
  match T, hm, ha' with
  | [], hm, _ => simp [noneMaps] at hm
  | [a], hm, ha' =>
    simp at ha'; subst ha'
    cases a' with
    | none =>
      simp [noneMaps] at hm; subst hm
      refine ⟨fun _ => MapOK.noInfo, fun hn => ?_⟩
      cases v <;> simp [hasAtom] at hva
      exact absurd rfl hn
    | object =>
      simp [noneMaps] at hm; subst hm
      exact ⟨fun e => single _ ⟨.none, by simp, by subst e; simp [hasAtom]⟩,
             fun _ => single _ ⟨.object, by simp, hva⟩⟩
    | int => simp [noneMaps] at hm; subst hm; exact ⟨fun e => by subst e; simp [hasAtom] at hva, fun _ => MapOK.noInfo⟩
    | str => simp [noneMaps] at hm; subst hm; exact ⟨fun e => by subst e; simp [hasAtom] at hva, fun _ => MapOK.noInfo⟩
    | bool => simp [noneMaps] at hm; subst hm; exact ⟨fun e => by subst e; simp [hasAtom] at hva, fun _ => MapOK.noInfo⟩
    | cls d => simp [noneMaps] at hm; subst hm; exact ⟨fun e => by subst e; simp [hasAtom] at hva, fun _ => MapOK.noInfo⟩
  | a :: b :: r, hm, ha' =>
    have e : noneMaps x (a :: b :: r) =
        narrowResult x (if (a :: b :: r).any (fun a => a == .none || a == .object) then [.none] else [])
          ((a :: b :: r).filter fun a => a != .none) false := rfl
    rw [e] at hm
    refine narrowResult_sound hm hx _ (fun e => ?_) (fun hn => ?_)
    · subst e
      have : (a :: b :: r).any (fun a => a == .none || a == .object) = true := by
        simp only [List.any_eq_true]
        refine ⟨a', ha', ?_⟩
        cases a' <;> simp [hasAtom] at hva ⊢
      rw [this]; exact ⟨.none, by simp, by simp [hasAtom]⟩
    · refine ⟨a', List.mem_filter.mpr ⟨ha', ?_⟩, hva⟩
      cases a' <;> simp
      cases v <;> simp [hasAtom] at hva
      exact hn rfl

/-! ## update_from_options -/

def entryTy (decl : List Ty) (x : Nat) (e : Option (Ty × Bool)) : Ty :=
  match e with
  | some (T, _) => T
  | none => declTy decl x

theorem effTy_eq_entryTy (decl : List Ty) (Γ : Env) (x : Nat) : effTy decl Γ x = entryTy decl x (lookup x Γ) := by
  unfold effTy entryTy
  cases lookup x Γ with
  | none => rfl
  | some p => rfl

theorem mergeVar_sound {P : Prog} (w : WF P) {decl : List Ty} {cur : Env} {bs : List Env} {ar : Bool} {x : Nat}
    {r : Option (Ty × Bool) × Bool} (hm : mergeVar P decl cur bs ar x = .ok r)
    {b : Env} (hb : b ∈ bs) {h : Heap} {v : Val} (hv : hasTy P h v (effTy decl b x)) :
    hasTy P h v (entryTy decl x r.1) := by
  unfold mergeVar at hm
  have below_ok : bs.all (fun b => subTy P (effTy decl b x) (effTy decl cur x)) = true →
      hasTy P h v (entryTy decl x (lookup x cur)) := by
    intro hbelow
    rw [← effTy_eq_entryTy]
    simp only [List.all_eq_true] at hbelow
    exact subTy_sound w (hbelow b hb) hv
  have hU : hasTy P h v (unionTys P (bs.map fun b => effTy decl b x)) :=
    unionTys_sound w (List.mem_map.mpr ⟨b, hb, rfl⟩) hv
  simp only at hm
  split at hm
  · simp only [bind_ok, req_ok, pure_ok] at hm
    obtain ⟨_, hbelow, hr⟩ := hm
    subst hr; exact below_ok hbelow
  · split at hm
    · simp only [bind_ok, req_ok, pure_ok] at hm
      obtain ⟨_, hbelow, hr⟩ := hm
      subst hr; exact below_ok hbelow
    · split at hm
      · next hc =>
        simp only [pure_ok] at hm; subst hm
        exact hU
      · next Tc fl hc =>
        split at hm
        · next hs =>
          simp only [pure_ok] at hm; subst hm
          simp only [entryTy, hc]
          simp only [sameTy, Bool.and_eq_true] at hs
          exact subTy_sound w hs.1 hU
        · simp only [pure_ok] at hm; subst hm
          exact hU

theorem mergeVars_sound {P : Prog} (w : WF P) {decl : List Ty} {cur : Env} {bs : List Env} {ar : Bool} :
    ∀ (xs : List Nat) (r : Env × Bool), xs.Nodup → mergeVars P decl cur bs ar xs = .ok r →
      (∀ p ∈ r.1, p.1 ∈ xs) ∧
      ∀ x ∈ xs, ∀ b ∈ bs, ∀ (h : Heap) (v : Val), hasTy P h v (effTy decl b x) → hasTy P h v (effTy decl r.1 x) := by
  intro xs
  induction xs with
  | nil =>
    intro r _ hm
    simp only [mergeVars, pure_ok] at hm; subst hm
    exact ⟨by simp, by simp⟩
  | cons x0 xs ih =>
    intro r hnd hm
    simp only [mergeVars, bind_ok, pure_ok] at hm
    obtain ⟨r0, h0, rest, hrest, hr⟩ := hm
    have hnd' := List.nodup_cons.mp hnd
    obtain ⟨ihk, ihs⟩ := ih rest hnd'.2 hrest
    subst hr
    constructor
    · intro p hp
      cases he : r0.1 with
      | none => rw [he] at hp; exact List.mem_cons_of_mem _ (ihk p hp)
      | some e =>
        rw [he] at hp; simp at hp
        rcases hp with rfl | hp
        · simp
        · exact List.mem_cons_of_mem _ (ihk p hp)
    · intro x hx b hb h v hv
      simp at hx
      rcases hx with rfl | hx
      · have := mergeVar_sound w h0 hb hv
        rw [effTy_eq_entryTy]
        cases he : r0.1 with
        | none =>
          rw [he] at this
          simp only
          have hnone : lookup x rest.1 = none :=
            lookup_none_of_not_key (fun p hp hc => hnd'.1 (hc ▸ ihk p hp))
          rw [hnone]; exact this
        | some e =>
          rw [he] at this
          simp only [lookup, if_true]
          exact this
      · have hne : x0 ≠ x := fun hc => hnd'.1 (hc ▸ hx)
        have := ihs x hx b hb h v hv
        cases he : r0.1 with
        | none => simpa using this
        | some e =>
          simp only
          unfold effTy at this ⊢
          simp only [lookup, hne, if_false]
          exact this

theorem mem_reachable {b : Env} : ∀ {opts : List (Option Env)}, some b ∈ opts → b ∈ reachable opts := by
  intro opts
  induction opts with
  | nil => simp
  | cons o r ih =>
    intro h
    simp at h
    cases o with
    | none =>
      simp only [reachable]
      rcases h with h | h
      · cases h
      · exact ih h
    | some b' =>
      simp only [reachable]
      rcases h with h | h
      · cases h; simp
      · exact List.mem_cons_of_mem _ (ih h)

/-- the merged state types every store typed by one of the merged options -/
theorem mergeEnvs_sound {P : Prog} (w : WF P) {decl : List Ty} {cur : Env} {opts : List (Option Env)}
    {r : Option Env × Bool} (hm : mergeEnvs P decl cur opts = .ok r)
    {b : Env} (hb : some b ∈ opts) {h : Heap} {σ : Store} (s : StoreOK P h decl b σ) :
    ∃ Γ', r.1 = some Γ' ∧ StoreOK P h decl Γ' σ := by
  unfold mergeEnvs at hm
  have hbr := mem_reachable hb
  split at hm
  · next he => rw [he] at hbr; simp at hbr
  · next b0 bs he =>
    simp only [bind_ok, pure_ok] at hm
    obtain ⟨r0, h0, hr⟩ := hm
    subst hr
    refine ⟨r0.1, rfl, ?_⟩
    obtain ⟨_, hs⟩ := mergeVars_sound w _ r0 List.nodup_range h0
    intro x T hx v hv
    have hlt : x < decl.length := by
      rcases Nat.lt_or_ge x decl.length with h | h
      · exact h
      · have : decl[x]? = none := by simp; exact h
        rw [this] at hx; cases hx
    rw [he] at hbr
    exact hs x (List.mem_range.mpr hlt) b hbr h v (s x T hx v hv)

theorem envLe_sound {P : Prog} (w : WF P) {decl : List Ty} {Γ L : Env} (hl : envLe P decl Γ L = true)
    {h : Heap} {σ : Store} (s : StoreOK P h decl Γ σ) : StoreOK P h decl L σ := by
  intro x T hx v hv
  have hlt : x < decl.length := by
    rcases Nat.lt_or_ge x decl.length with h | h
    · exact h
    · have : decl[x]? = none := by simp; exact h
      rw [this] at hx; cases hx
  simp only [envLe, List.all_eq_true] at hl
  exact subTy_sound w (hl x (List.mem_range.mpr hlt)) (s x T hx v hv)

end Lang
