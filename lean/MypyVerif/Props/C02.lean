import MypyVerif.Proofs.Build
/-!
# C02 — warm-cache runs report exactly what a cold run reports

Property theorems over the build-protocol model (`Model/Build.lean`).  Quantifiers: every type checker
satisfying `Local`, every finite history of worlds (arbitrary edits between runs: content, stat data,
dependency structure, options — a world is just the processing order with the files as they are), every
cache store/format (the model is parametric in the store; records are abstract values).
-/
namespace Build

variable (hs : Hashes) (analyze : Mod → Src → Sem → Env → Res)

/-- One warm run over any valid cache reports what the cold run reports and leaves a valid cache. -/
theorem warm_eq_cold_step (hl : Local analyze) (hi : HashInj hs) (U : List World)
    (hk : KeyCovers U) (ho : StatObs U) (w : World) (hw : w ∈ U) (c : Cache)
    (hv : Valid hs analyze U c) :
    ((warm hs analyze c w).env, (warm hs analyze c w).msgs) = cold analyze w ∧
    Valid hs analyze U (warm hs analyze c w).cache :=
  warm_fold_eq_cold hs analyze hl hi U hk ho w hw w.order
    { env := fun _ => none, msgs := [], rechecked := [], cache := c } (fun _ h => h) hv

/-- **warm_eq_cold_partial**.  For every finite history `ws` of worlds followed by a world `w`, starting
    from the empty cache, the diagnostics (per unit, in order) and interfaces of the last warm run equal
    those of a cold run on `w` — provided edits are observable through (mtime, size) or the content hash
    (`StatObs`, finding F7), hashes do not collide, and the options key covers the semantic options
    (`KeyCovers`, discharged for the real table in C09). -/
theorem warm_eq_cold_partial (hl : Local analyze) (hi : HashInj hs) (ws : List World) (w : World)
    (hk : KeyCovers (ws ++ [w])) (ho : StatObs (ws ++ [w])) :
    let c := runHistory hs analyze (fun _ => none) ws
    ((warm hs analyze c w).env, (warm hs analyze c w).msgs) = cold analyze w := by
  intro c
  have hv : Valid hs analyze (ws ++ [w]) c :=
    runHistory_valid hs analyze hl hi (ws ++ [w]) hk ho ws (fun _ => none)
      (fun x hx => by simp [hx]) (valid_empty hs analyze _)
  exact (warm_eq_cold_step hs analyze hl hi (ws ++ [w]) hk ho w (by simp) c hv).1

/-- the exit status is a function of the reported diagnostics, so it agrees too -/
def exitStatus (msgs : List (Mod × List Err)) : Nat := if msgs.all (fun p => p.2.isEmpty) then 0 else 1

theorem warm_status_eq_cold (hl : Local analyze) (hi : HashInj hs) (ws : List World) (w : World)
    (hk : KeyCovers (ws ++ [w])) (ho : StatObs (ws ++ [w])) :
    exitStatus (warm hs analyze (runHistory hs analyze (fun _ => none) ws) w).msgs
      = exitStatus (cold analyze w).2 := by
  have := warm_eq_cold_partial hs analyze hl hi ws w hk ho
  simp only at this
  rw [← this]

/-! ### The full statement (without `StatObs`) is false of the protocol — finding F7 -/

def toyHashes : Hashes := { H := id, HI := id }
/-- unit 0 has no dependencies; unit 1 reads unit 0's interface -/
def toyAnalyze : Mod → Src → Sem → Env → Res := fun m s k e =>
  if m = 1 then { iface := s, errs := [(e 0).getD 0 + s + k], reads := [0] }
  else { iface := s / 10, errs := [s], reads := [] }

theorem toy_local : Local toyAnalyze := by
  intro m s k e e' h
  unfold toyAnalyze at *
  by_cases hm : m = 1
  · simp only [hm, if_true] at h ⊢
    have := h 0 (by simp)
    rw [this]
  · simp [hm]

theorem toy_hashinj : HashInj toyHashes := ⟨fun _ _ h => h, fun _ _ h => h⟩

def o0 : Opts := { sem := 0, key := 0 }
def w1 : World := { opts := o0, order := [(0, ⟨10, 100, 3⟩), (1, ⟨7, 100, 5⟩)] }
/-- same-size edit of unit 0 within the same mtime second -/
def w2bad : World := { opts := o0, order := [(0, ⟨20, 100, 3⟩), (1, ⟨7, 100, 5⟩)] }
/-- the same edit with a later mtime -/
def w2ok : World := { opts := o0, order := [(0, ⟨20, 102, 3⟩), (1, ⟨7, 100, 5⟩)] }

/-- **not_warm_eq_cold**: without `StatObs` a warm run can differ from the cold run (F7: an edit that keeps
    size and whole-second mtime is invisible to `validate_meta`). -/
theorem not_warm_eq_cold :
    ¬ (∀ (hs : Hashes) (analyze : Mod → Src → Sem → Env → Res), Local analyze → HashInj hs →
        ∀ (ws : List World) (w : World), KeyCovers (ws ++ [w]) →
        (warm hs analyze (runHistory hs analyze (fun _ => none) ws) w).msgs = (cold analyze w).2) := by
  intro h
  have := h toyHashes toyAnalyze toy_local toy_hashinj [w1] w2bad
    (by intro a ha b hb _; simp [w1, w2bad] at ha hb; rcases ha with rfl | rfl <;> rcases hb with rfl | rfl <;> rfl)
  revert this
  decide

-- non-vacuity of `warm_eq_cold_partial`: a history with one fresh and one stale unit meets the hypotheses
example : KeyCovers [w1, w2ok] := by
  intro a ha b hb _; simp at ha hb; rcases ha with rfl | rfl <;> rcases hb with rfl | rfl <;> rfl
example : StatObs [w1, w2ok] := by
  intro a ha b hb m f f' hf hf' h1 h2
  simp at ha hb
  rcases ha with rfl | rfl <;> rcases hb with rfl | rfl <;>
    (simp [w1, w2ok] at hf hf'; rcases hf with ⟨rfl, rfl⟩ | ⟨rfl, rfl⟩ <;> rcases hf' with ⟨hm, rfl⟩ | ⟨hm, rfl⟩ <;>
      simp_all)
example : (warm toyHashes toyAnalyze (runHistory toyHashes toyAnalyze (fun _ => none) [w1]) w2ok).rechecked = [0, 1] := by
  decide
example : (warm toyHashes toyAnalyze (runHistory toyHashes toyAnalyze (fun _ => none) [w1]) w1).rechecked = [] := by
  decide
example : (warm toyHashes toyAnalyze (runHistory toyHashes toyAnalyze (fun _ => none) [w1]) w2ok).msgs
    = (cold toyAnalyze w2ok).2 := by decide

end Build
