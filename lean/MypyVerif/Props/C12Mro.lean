import MypyVerif.Proofs.Mro
/-!
# C12 (MRO) — mypy's linearisation is CPython's

Property theorems only (helpers are in Proofs/Mro.lean).  Quantifiers: every list of sequences for the two
merge loops; every hierarchy `H` (the written base lists of classes 1, 2, … in definition order, bases
referring to any class number, `object` = 0) and every class statement for the class-level theorems.
-/
namespace Mro

/-! ## the two merge loops -/

/-- mypy's `merge` terminates: it satisfies the equation of its `while True` loop for every input (the
    fuel of the executable definition never runs out), and it is the function `mergeWF` whose
    definition carries the proof that each round removes a head. -/
theorem merge_terminates (seqs : List (List Cls)) :
    merge seqs =
      (if (nonEmpty seqs).isEmpty then some []
       else match findHead (nonEmpty seqs) (nonEmpty seqs) with
         | none => none
         | some h => (merge ((nonEmpty seqs).map (dropHead h))).map (h :: ·))
    ∧ mergeWF seqs = merge seqs :=
  ⟨merge_unfold seqs, mergeWF_eq_merge seqs⟩

/-- every fuel above the total length gives the same answer -/
theorem merge_fuel_irrelevant (fuel : Nat) (seqs : List (List Cls)) (h : total seqs < fuel) :
    mergeFuel fuel seqs = merge seqs := mergeFuel_eq_merge fuel seqs h

/-- CPython's `pmerge` (index array `remain`) and mypy's `merge` (list surgery) are the same function:
    same list, or both fail. -/
theorem pmerge_eq (seqs : List (List Cls)) : pmerge seqs = merge seqs := pmerge_eq_merge seqs

example : merge [[1, 0], [2, 0], [1, 2]] = some [1, 2, 0] ∧ pmerge [[1, 0], [2, 0], [1, 2]] = some [1, 2, 0] := by decide
example : merge [[1, 0], [0], [0, 1]] = none ∧ pmerge [[1, 0], [0], [0, 1]] = none := by decide

/-! ## class statements -/

/-- the outcome of every class statement is the same on both sides: same MRO and no diagnostic, or
    "duplicate base" on both, or "inconsistent MRO" on both (unless the statement cannot even name its
    bases at run time because one of them failed to be created) -/
def Agrees (p : PyRes) (i : Info) : Prop := agrees p i

/-- **mro_eq**, whole tables: after any sequence of class statements, class by class, mypy's TypeInfo
    carries exactly the `__mro__` CPython computed, or both reject the class for the same reason. -/
theorem mro_eq (H : List (List Cls)) (i : Nat) (hi : i ≤ H.length) :
    Agrees ((pyTable H).getD i .nameError) ((myTable H).getD i objectInfo) := by
  have hinv := inv_tables H
  have hlen : (pyTable H).length = H.length + 1 := by
    unfold pyTable
    have : ∀ (H : List (List Cls)) (tbl : List PyRes), (H.foldl pyStep tbl).length = tbl.length + H.length := by
      intro H
      induction H with
      | nil => intro tbl; rfl
      | cons w rest ih => intro tbl; rw [List.foldl_cons, ih]; simp [pyStep]; omega
    rw [this]; simp; omega
  exact (hinv.2 i (by omega)).1

/-- **mro_eq**, one more statement: for every hierarchy and every further class statement. -/
theorem mro_eq_step (H : List (List Cls)) (w : List Cls) :
    Agrees (pyClass (pyTable H) (pyTable H).length w) (myClass (myTable H) (myTable H).length w) :=
  (step_agrees (inv_tables H) w).1

/-- mypy rejects a class (either diagnostic) exactly when CPython raises TypeError creating it, and
    when it is created the lists are equal — the property as stated, for classes whose bases exist. -/
theorem mro_reject_iff (H : List (List Cls)) (w : List Cls)
    (hb : pyClass (pyTable H) (pyTable H).length w ≠ .nameError) :
    ((myClass (myTable H) (myTable H).length w).err ≠ none ↔
      (pyClass (pyTable H) (pyTable H).length w).mro? = none) ∧
    (∀ l, pyClass (pyTable H) (pyTable H).length w = .ok l →
      (myClass (myTable H) (myTable H).length w).mro = l) := by
  have h := mro_eq_step H w
  unfold Agrees at h
  cases hp : pyClass (pyTable H) (pyTable H).length w with
  | ok l => rw [hp] at h; simp only [agrees] at h; simp [h, PyRes.mro?]
  | typeErrorDup => rw [hp] at h; simp only [agrees] at h; simp [h, PyRes.mro?]
  | typeErrorMro => rw [hp] at h; simp only [agrees] at h; simp [h.1, PyRes.mro?]
  | nameError => exact absurd hp hb

/-- tables only ever grow by `pyStep`/`myStep`: the hierarchy `H ++ [w]` is `H` plus one statement -/
theorem tables_snoc (H : List (List Cls)) (w : List Cls) :
    pyTable (H ++ [w]) = pyTable H ++ [pyClass (pyTable H) (pyTable H).length w] ∧
    myTable (H ++ [w]) = myTable H ++ [myClass (myTable H) (myTable H).length w] := by
  simp [pyTable, myTable, List.foldl_append, pyStep, myStep]

/-- **mro_closed / local precedence / monotonicity**: a created class's MRO is the class followed by a
    list that (i) keeps the written bases in their order, (ii) keeps every base's own MRO as a
    subsequence, (iii) contains nothing but the bases and members of their MROs, (iv) never repeats. -/
theorem mro_structure (H : List (List Cls)) (w : List Cls) (l : List Cls)
    (h : pyClass (pyTable H) (pyTable H).length w = .ok l) :
    ∃ r, l = (pyTable H).length :: r ∧ l.Nodup ∧
      (basesOrObject w).Sublist r ∧
      (∀ b ∈ basesOrObject w, ∃ lb, (pyTable H).getD b .nameError = .ok lb ∧ lb.Sublist r) ∧
      (∀ x ∈ r, x ∈ basesOrObject w ∨
        ∃ b ∈ basesOrObject w, ∃ lb, (pyTable H).getD b .nameError = .ok lb ∧ x ∈ lb) := by
  have hinv := inv_tables H
  have hwf := hinv.pyWf
  have hwfl := (step_agrees hinv w).2 l h
  rw [pyClass_eq_spec hwf] at h
  unfold pySpec at h
  cases hl : lookupAll (pyTable H) (basesOrObject w) with
  | none => simp [hl] at h
  | some mros =>
    have hlk := lookupAll_spec _ _ _ hl
    simp only [hl] at h
    split at h
    · cases h
    · cases hm : merge (mros ++ [basesOrObject w]) with
      | none => simp [hm] at h
      | some r =>
        simp [hm] at h
        subst h
        have hsub := merge_sublist _ _ hm
        refine ⟨r, rfl, hwfl.2.1, hsub _ (by simp), ?_, ?_⟩
        · intro b hb
          obtain ⟨m, hmm, hbm⟩ := hlk.of_base b hb
          exact ⟨m, hbm, hsub m (by simp [hmm])⟩
        · intro x hx
          obtain ⟨s, hs, hxs⟩ := merge_mem _ _ hm x hx
          rcases List.mem_append.mp hs with hs | hs
          · obtain ⟨b, hb, hlb⟩ := hlk.mros_of s hs
            exact Or.inr ⟨b, hb, s, hlb, hxs⟩
          · simp at hs; subst hs; exact Or.inl hxs

/-! ## non-vacuity: a diamond, both orders of its bases, and a class that mixes the two orders -/

-- 1 = A, 2 = B, 3 = C(A, B), 4 = D(B, A), 5 = E(C, D): inconsistent; 6 = F(A, A): duplicate base
example : pyTable [[], [], [1, 2], [2, 1], [3, 4], [1, 1]] =
    [.ok [0], .ok [1, 0], .ok [2, 0], .ok [3, 1, 2, 0], .ok [4, 2, 1, 0], .typeErrorMro, .typeErrorDup] := by
  decide
example : (myTable [[], [], [1, 2], [2, 1], [3, 4], [1, 1]]).map (fun i => (i.mro, i.err)) =
    [([0], none), ([1, 0], none), ([2, 0], none), ([3, 1, 2, 0], none), ([4, 2, 1, 0], none),
     ([5, 0], some .inconsistentMro), ([6, 0], some .duplicateBase)] := by
  decide
-- a class deriving from the failed class 5: NameError at run time, dummy MRO in mypy — outside `Agrees`
example : (pyTable [[], [], [1, 2], [2, 1], [3, 4], [5]]).getD 6 .nameError = .nameError := by decide
-- `class X(object, A)` is inconsistent on both sides
example : pyClass (pyTable [[]]) 2 [0, 1] = .typeErrorMro ∧
    (myClass (myTable [[]]) 2 [0, 1]).err = some .inconsistentMro := by decide

end Mro
